// Package c37 checks property C37: the kotel record carrier behaves as a first-match string
// map over record headers, and therefore a trace context injected by the producer-side hook
// is extracted unchanged by the consumer-side hook after the record crossed a broker.
//
// Model of a carrier over a header list h (duplicates allowed):
//
//	Get(k)    = string value of the first header whose key is k, "" if there is none
//	Set(k, v) : if a header with key k exists, the FIRST one gets value v and nothing else
//	            changes (Get must return v afterwards and no other header may change);
//	            otherwise exactly one header (k, v) is added and nothing else changes
//	            (where it is added is not stated, so it is not asserted)
//	Keys()    : the set of keys of h (order and multiplicity are not stated, not asserted)
package c37

import (
	"bytes"
	"context"
	"encoding/binary"
	"fmt"
	"sort"
	"strings"
	"sync"
	"testing"
	"time"

	"github.com/twmb/franz-go/pkg/kfake"
	"github.com/twmb/franz-go/pkg/kgo"
	"github.com/twmb/franz-go/plugin/kotel"
	"go.opentelemetry.io/otel/propagation"
	sdktrace "go.opentelemetry.io/otel/sdk/trace"
	"go.opentelemetry.io/otel/trace"
	"go.opentelemetry.io/otel/trace/noop"
	"pgregory.net/rapid"

	"verif/h/ev"
)

func TestMain(m *testing.M) { ev.Main(m, "C37") }

type fataler interface {
	Fatalf(format string, args ...any)
	Helper()
}

// ---------------------------------------------------------------------------
// header lists and the model

type hdr struct {
	K string
	V []byte
}

func fromRecord(r *kgo.Record) []hdr {
	out := make([]hdr, len(r.Headers))
	for i, h := range r.Headers {
		out[i] = hdr{h.Key, append([]byte(nil), h.Value...)}
	}
	return out
}

func toRecord(hs []hdr, spare int) *kgo.Record { return toRecordLayout(hs, spare, false) }

// toRecordLayout builds the record; with shared, every header value is a sub-slice of one
// buffer, back to back, each with the capacity that plain slicing gives it (up to the end of
// the buffer). That is the layout of a fetched record, whose header values point into the
// decoded batch.
func toRecordLayout(hs []hdr, spare int, shared bool) *kgo.Record {
	r := &kgo.Record{}
	if hs != nil || spare > 0 {
		r.Headers = make([]kgo.RecordHeader, 0, len(hs)+spare)
	}
	var buf []byte
	if shared {
		for _, h := range hs {
			buf = append(buf, h.V...)
		}
		buf = append(buf, "tail-of-the-batch-buffer"...)
	}
	off := 0
	for _, h := range hs {
		var v []byte
		if h.V != nil {
			if shared {
				v = buf[off : off+len(h.V)]
				off += len(h.V)
			} else {
				v = append([]byte{}, h.V...)
			}
		}
		r.Headers = append(r.Headers, kgo.RecordHeader{Key: h.K, Value: v})
	}
	return r
}

func show(hs []hdr) string {
	var sb strings.Builder
	sb.WriteString("[")
	for i, h := range hs {
		if i > 0 {
			sb.WriteString(" ")
		}
		fmt.Fprintf(&sb, "%q=%q", h.K, h.V)
	}
	sb.WriteString("]")
	return sb.String()
}

func modelGet(hs []hdr, k string) string {
	for _, h := range hs {
		if h.K == k {
			return string(h.V)
		}
	}
	return ""
}

func hasKey(hs []hdr, k string) bool {
	for _, h := range hs {
		if h.K == k {
			return true
		}
	}
	return false
}

type kv struct{ K, V string }

// checkSets states the effect of a sequence of Set calls on a header list: old is the list
// before, now the list after. "" = as the model says.
func checkSets(old, now []hdr, sets []kv) string {
	want := make([]hdr, len(old))
	copy(want, old)
	added := map[string]string{}
	var addedOrder []string
	for _, s := range sets {
		replaced := false
		for i := range want {
			if want[i].K == s.K {
				want[i] = hdr{s.K, []byte(s.V)}
				replaced = true
				break
			}
		}
		if !replaced {
			if _, ok := added[s.K]; !ok {
				addedOrder = append(addedOrder, s.K)
			}
			added[s.K] = s.V
		}
	}
	var rest []hdr
	seen := map[string]int{}
	for _, h := range now {
		if v, ok := added[h.K]; ok {
			seen[h.K]++
			if string(h.V) != v {
				return fmt.Sprintf("added header %q has value %q, want %q", h.K, h.V, v)
			}
			continue
		}
		rest = append(rest, h)
	}
	for _, k := range addedOrder {
		if seen[k] != 1 {
			return fmt.Sprintf("key %q was absent before Set; %d headers carry it afterwards, want exactly 1", k, seen[k])
		}
	}
	if len(rest) != len(want) {
		return fmt.Sprintf("%d pre-existing headers afterwards, want %d: %s want %s", len(rest), len(want), show(rest), show(want))
	}
	for i := range want {
		if rest[i].K != want[i].K || !bytes.Equal(rest[i].V, want[i].V) {
			return fmt.Sprintf("header %d is %q=%q, want %q=%q", i, rest[i].K, rest[i].V, want[i].K, want[i].V)
		}
	}
	return ""
}

// ---------------------------------------------------------------------------
// generators

var keyPool = []string{"traceparent", "tracestate", "a", "b", "", "Traceparent", "baggage", "a ", "\xff"}

func genKey() *rapid.Generator[string] {
	return rapid.OneOf(rapid.SampledFrom(keyPool), rapid.SampledFrom(keyPool[:4]), rapid.StringN(0, 6, 12))
}

const staleParent = "00-0af7651916cd43dd8448eb211c80319c-b7ad6b7169203331-01"

func genVal() *rapid.Generator[[]byte] {
	return rapid.OneOf(
		rapid.SliceOfN(rapid.Byte(), 0, 12),
		rapid.Just([]byte(nil)),
		rapid.Just([]byte{}),
		rapid.SampledFrom([][]byte{[]byte(staleParent), []byte("vendor=stale,other=1"), []byte("00-zz"), []byte("x")}),
	)
}

func genHeaders(t *rapid.T, maxN int) []hdr {
	n := rapid.IntRange(0, maxN).Draw(t, "nheaders")
	var hs []hdr
	if n == 0 && rapid.Bool().Draw(t, "nilHeaders") {
		return nil
	}
	hs = []hdr{}
	for i := 0; i < n; i++ {
		hs = append(hs, hdr{genKey().Draw(t, "hk"), genVal().Draw(t, "hv")})
	}
	return hs
}

// genUserHeaders is genHeaders with, one time in four, a well-formed stale traceparent (and
// sometimes tracestate) of an earlier hop somewhere in the list.
func genUserHeaders(t *rapid.T, maxN int) []hdr {
	hs := genHeaders(t, maxN)
	if rapid.IntRange(0, 3).Draw(t, "stale") != 0 {
		return hs
	}
	ins := []hdr{{"traceparent", []byte(staleParent)}}
	if rapid.Bool().Draw(t, "staleState") {
		ins = append(ins, hdr{"tracestate", []byte("vendor=stale,other=1")})
	}
	for _, h := range ins {
		at := rapid.IntRange(0, len(hs)).Draw(t, "staleAt")
		hs = append(hs[:at:at], append([]hdr{h}, hs[at:]...)...)
	}
	return hs
}

func dupKeys(hs []hdr) bool {
	seen := map[string]bool{}
	for _, h := range hs {
		if seen[h.K] {
			return true
		}
		seen[h.K] = true
	}
	return false
}

// ---------------------------------------------------------------------------
// part 1: the carrier against the model

func TestCarrierModel(t *testing.T) {
	rapid.Check(t, func(t *rapid.T) {
		init := genHeaders(t, 6)
		shared := rapid.Bool().Draw(t, "valuesShareOneBuffer")
		rec := toRecordLayout(init, rapid.IntRange(0, 3).Draw(t, "spareCap"), shared)
		// a second record made from the first by copying the header list (the values are shared,
		// as in a fan-out that forwards one consumed record to several topics): a Set on the first
		// record replaces ITS value for the key and must leave the bytes others still point to alone
		sibling := append([]kgo.RecordHeader(nil), rec.Headers...)
		siblingWant := fromRecord(rec)
		c := kotel.NewRecordCarrier(rec)
		model := fromRecord(rec)
		if shared {
			ev.Class("header_values_share_one_buffer")
		}
		nt := dupKeys(init)
		nops := rapid.IntRange(1, 12).Draw(t, "nops")
		var trace []string
		for i := 0; i < nops; i++ {
			switch rapid.IntRange(0, 3).Draw(t, "op") {
			case 0, 1:
				k := genKey().Draw(t, "setKey")
				if len(model) > 0 && rapid.Bool().Draw(t, "existing") {
					k = rapid.SampledFrom(model).Draw(t, "existingKey").K
				}
				v := string(genVal().Draw(t, "setVal"))
				trace = append(trace, fmt.Sprintf("Set(%q,%q)", k, v))
				existed := hasKey(model, k)
				c.Set(k, v)
				now := fromRecord(rec)
				if g := c.Get(k); g != v {
					t.Fatalf("headers %s, ops %v: Get(%q) = %q right after Set, want %q", show(init), trace, k, g, v)
				}
				if d := checkSets(model, now, []kv{{k, v}}); d != "" {
					t.Fatalf("headers %s, ops %v: before %s after %s: %s", show(init), trace, show(model), show(now), d)
				}
				model = now
				if existed {
					nt = true
					ev.Class("set_existing_key")
				} else {
					ev.Class("set_new_key")
				}
			case 2:
				k := genKey().Draw(t, "getKey")
				if len(model) > 0 && rapid.Bool().Draw(t, "existing") {
					k = rapid.SampledFrom(model).Draw(t, "existingKey").K
				}
				trace = append(trace, fmt.Sprintf("Get(%q)", k))
				if g, w := c.Get(k), modelGet(model, k); g != w {
					t.Fatalf("headers %s, ops %v: Get(%q) = %q, want %q (first match in %s)", show(init), trace, k, g, w, show(model))
				}
				ev.Class("get")
			case 3:
				trace = append(trace, "Keys()")
				got := map[string]bool{}
				for _, k := range c.Keys() {
					got[k] = true
				}
				want := map[string]bool{}
				for _, h := range model {
					want[h.K] = true
				}
				for k := range want {
					if !got[k] {
						t.Fatalf("headers %s, ops %v: Keys() = %q lacks header key %q", show(init), trace, c.Keys(), k)
					}
				}
				for k := range got {
					if !want[k] {
						t.Fatalf("headers %s, ops %v: Keys() = %q lists %q which is no header key of %s", show(init), trace, c.Keys(), k, show(model))
					}
				}
				ev.Class("keys")
			}
			for j, h := range sibling {
				if h.Key != siblingWant[j].K || string(h.Value) != string(siblingWant[j].V) {
					t.Fatalf("headers %s (values sharing one buffer: %v), ops %v: header %d of a second record that shares the first record's original header values changed from %q=%q to %q=%q", show(init), shared, trace, j, siblingWant[j].K, siblingWant[j].V, h.Key, h.Value)
				}
			}
			// a read never changes the record
			if now := fromRecord(rec); checkSets(model, now, nil) != "" {
				t.Fatalf("headers %s, ops %v: a read changed the headers to %s", show(init), trace, show(now))
			}
		}
		if dupKeys(init) {
			ev.Class("initial_duplicate_keys")
		}
		ev.Case(show(init)+strings.Join(trace, ";"), nt)
		ev.SampleIf(func() any {
			return map[string]any{"kind": "carrier ops", "initial_headers": show(init), "ops": trace, "final_headers": show(model)}
		})
	})
}

// ---------------------------------------------------------------------------
// span contexts

func genTraceState(t *rapid.T) trace.TraceState {
	var ts trace.TraceState
	n := rapid.IntRange(0, 3).Draw(t, "tsMembers")
	for i := 0; i < n; i++ {
		k := rapid.StringMatching(`[a-z][a-z0-9_\-\*/]{0,8}(@[a-z][a-z0-9_\-\*/]{0,5})?`).Draw(t, "tsKey")
		v := rapid.StringMatching(`[!-+\--<>-~]([ -+\--<>-~]{0,10}[!-+\--<>-~])?`).Draw(t, "tsVal")
		if n, err := ts.Insert(k, v); err == nil {
			ts = n
		}
	}
	return ts
}

func genSpanContext(t *rapid.T) trace.SpanContext {
	var cfg trace.SpanContextConfig
	copy(cfg.TraceID[:], rapid.SliceOfN(rapid.Byte(), 16, 16).Draw(t, "traceID"))
	copy(cfg.SpanID[:], rapid.SliceOfN(rapid.Byte(), 8, 8).Draw(t, "spanID"))
	switch rapid.IntRange(0, 11).Draw(t, "idClass") {
	case 0:
		cfg.TraceID = trace.TraceID{} // invalid: nothing is injected
	case 1:
		cfg.SpanID = trace.SpanID{}
	case 2:
		cfg.TraceID = trace.TraceID{15: 1}
		cfg.SpanID = trace.SpanID{7: 1}
	case 3:
		for i := range cfg.TraceID {
			cfg.TraceID[i] = 0xff
		}
		for i := range cfg.SpanID {
			cfg.SpanID[i] = 0xff
		}
	}
	cfg.TraceFlags = trace.TraceFlags(rapid.OneOf(rapid.SampledFrom([]byte{0, 1, 2, 3}), rapid.Byte()).Draw(t, "flags"))
	cfg.TraceState = genTraceState(t)
	cfg.Remote = rapid.Bool().Draw(t, "remote")
	return trace.NewSpanContext(cfg)
}

func scString(sc trace.SpanContext) string {
	return fmt.Sprintf("{trace %s span %s flags %02x state %q remote %v}", sc.TraceID(), sc.SpanID(), byte(sc.TraceFlags()), sc.TraceState().String(), sc.IsRemote())
}

func withSC(sc trace.SpanContext) context.Context {
	if sc.IsRemote() {
		return trace.ContextWithRemoteSpanContext(context.Background(), sc)
	}
	return trace.ContextWithSpanContext(context.Background(), sc)
}

// refMap is the reference carrier: OpenTelemetry's own MapCarrier initialised with the
// first value of every header key.
func refMap(hs []hdr) propagation.MapCarrier {
	m := propagation.MapCarrier{}
	for _, h := range hs {
		if _, ok := m[h.K]; !ok {
			m[h.K] = string(h.V)
		}
	}
	return m
}

var w3c = propagation.TraceContext{}

// injectedSets lists the Set calls the W3C propagator makes for sc (its documented fields).
func injectedSets(sc trace.SpanContext) []kv {
	rec := &recordingCarrier{}
	w3c.Inject(withSC(sc), rec)
	return rec.sets
}

type recordingCarrier struct{ sets []kv }

func (r *recordingCarrier) Get(string) string { return "" }
func (r *recordingCarrier) Set(k, v string)   { r.sets = append(r.sets, kv{k, v}) }
func (r *recordingCarrier) Keys() []string    { return nil }

// TestCarrierPropagation: the W3C propagator over the record carrier agrees with the same
// propagator over OpenTelemetry's MapCarrier, for generated contexts and pre-existing headers.
func TestCarrierPropagation(t *testing.T) {
	rapid.Check(t, func(t *rapid.T) {
		user := genUserHeaders(t, 4)
		sc := genSpanContext(t)
		rec := toRecord(user, rapid.IntRange(0, 2).Draw(t, "spareCap"))
		before := fromRecord(rec)
		w3c.Inject(withSC(sc), kotel.NewRecordCarrier(rec))
		after := fromRecord(rec)
		sets := injectedSets(sc)
		if d := checkSets(before, after, sets); d != "" {
			t.Fatalf("inject %s into %s gave %s: %s", scString(sc), show(before), show(after), d)
		}
		ref := refMap(before)
		w3c.Inject(withSC(sc), ref)
		want := trace.SpanContextFromContext(w3c.Extract(context.Background(), ref))
		got := trace.SpanContextFromContext(w3c.Extract(context.Background(), kotel.NewRecordCarrier(rec)))
		if !got.Equal(want) {
			t.Fatalf("inject %s into %s: extracted %s through the record carrier, %s through a MapCarrier", scString(sc), show(before), scString(got), scString(want))
		}
		if sc.IsValid() && (got.TraceID() != sc.TraceID() || got.SpanID() != sc.SpanID() || got.TraceFlags() != sc.TraceFlags()&3 || !got.IsRemote()) {
			t.Fatalf("inject %s into %s: extracted %s", scString(sc), show(before), scString(got))
		}
		if sc.IsValid() && sc.TraceState().Len() > 0 && got.TraceState().String() != sc.TraceState().String() {
			t.Fatalf("inject %s into %s: extracted %s", scString(sc), show(before), scString(got))
		}
		stale := hasKey(before, "traceparent") || hasKey(before, "tracestate")
		ev.Case("prop:"+show(before)+scString(sc), sc.IsValid() && (stale || sc.TraceState().Len() > 0))
		if stale {
			ev.Class("inject_over_stale_trace_headers")
		}
		if !sc.IsValid() {
			ev.Class("invalid_span_context_nothing_injected")
		}
		if sc.TraceState().Len() > 0 {
			ev.Class("with_tracestate")
		}
	})
}

// ---------------------------------------------------------------------------
// part 2: producer hook -> kfake -> consumer hook

type seqIDs struct {
	mu sync.Mutex
	n  uint64
}

func (g *seqIDs) NewIDs(context.Context) (trace.TraceID, trace.SpanID) {
	g.mu.Lock()
	defer g.mu.Unlock()
	g.n++
	var t trace.TraceID
	var s trace.SpanID
	binary.BigEndian.PutUint64(t[8:], g.n)
	t[0] = 0xC3
	binary.BigEndian.PutUint64(s[:], g.n)
	s[0] = 0x37
	return t, s
}

func (g *seqIDs) NewSpanID(context.Context, trace.TraceID) trace.SpanID {
	_, s := g.NewIDs(nil)
	return s
}

type consumer struct {
	name string
	cl   *kgo.Client
	mu   sync.Mutex
	got  map[int64]*kgo.Record
	wake chan struct{}
	// extracted returns the span context the fetch hook extracted for r
	extracted func(r *kgo.Record) (sc trace.SpanContext, problem string)
}

func (c *consumer) run(ctx context.Context) {
	for ctx.Err() == nil {
		fs := c.cl.PollFetches(ctx)
		if fs.IsClientClosed() {
			return
		}
		c.mu.Lock()
		fs.EachRecord(func(r *kgo.Record) { c.got[r.Offset] = r })
		close(c.wake)
		c.wake = make(chan struct{})
		c.mu.Unlock()
	}
}

// wait blocks until the consumer has the offsets. The deadline only guards the harness
// against a stuck sandbox: missing it is an infrastructure failure, never a violation.
func (c *consumer) wait(offsets []int64, deadline time.Time) ([]*kgo.Record, bool) {
	for {
		c.mu.Lock()
		out := make([]*kgo.Record, 0, len(offsets))
		for _, o := range offsets {
			if r := c.got[o]; r != nil {
				out = append(out, r)
			}
		}
		wake := c.wake
		c.mu.Unlock()
		if len(out) == len(offsets) {
			c.mu.Lock()
			for _, o := range offsets {
				delete(c.got, o)
			}
			c.mu.Unlock()
			return out, true
		}
		d := time.Until(deadline)
		if d <= 0 {
			return nil, false
		}
		select {
		case <-wake:
		case <-time.After(d):
		}
	}
}

const topic = "c37"

type rig struct {
	cluster   *kfake.Cluster
	producers []*kgo.Client
	pnames    []string
	consumers []*consumer
	cancel    context.CancelFunc
}

func (r *rig) close() {
	r.cancel()
	for _, p := range r.producers {
		p.Close()
	}
	for _, c := range r.consumers {
		c.cl.Close()
	}
	r.cluster.Close()
}

func sdkProvider() *sdktrace.TracerProvider {
	return sdktrace.NewTracerProvider(sdktrace.WithSampler(sdktrace.AlwaysSample()), sdktrace.WithIDGenerator(new(seqIDs)))
}

func newRig(t *testing.T) *rig {
	cluster, err := kfake.NewCluster(kfake.NumBrokers(1), kfake.SeedTopics(1, topic))
	if err != nil {
		t.Fatalf("VERIF-INFRA: kfake cluster: %v", err)
	}
	ctx, cancel := context.WithCancel(context.Background())
	r := &rig{cluster: cluster, cancel: cancel}
	hooks := func(tr *kotel.Tracer) kgo.Opt {
		return kgo.WithHooks(kotel.NewKotel(kotel.WithTracer(tr)).Hooks()...)
	}
	mkProducer := func(name string, tp trace.TracerProvider) {
		cl, err := kgo.NewClient(kgo.SeedBrokers(cluster.ListenAddrs()...), kgo.DefaultProduceTopic(topic), kgo.ProducerLinger(0),
			hooks(kotel.NewTracer(kotel.TracerProvider(tp), kotel.TracerPropagator(w3c), kotel.ClientID("p-"+name))))
		if err != nil {
			t.Fatalf("VERIF-INFRA: producer client: %v", err)
		}
		r.producers = append(r.producers, cl)
		r.pnames = append(r.pnames, name)
	}
	mkProducer("noop", noop.NewTracerProvider())
	mkProducer("sdk", sdkProvider())

	parentOf := func(r *kgo.Record) (trace.SpanContext, string) {
		ro, ok := trace.SpanFromContext(r.Context).(sdktrace.ReadOnlySpan)
		if !ok {
			return trace.SpanContext{}, fmt.Sprintf("record context carries %T, not the SDK receive span", trace.SpanFromContext(r.Context))
		}
		return ro.Parent(), ""
	}
	mkConsumer := func(name string, tp trace.TracerProvider, extracted func(*kgo.Record) (trace.SpanContext, string), opts ...kotel.TracerOpt) {
		opts = append(opts, kotel.TracerProvider(tp), kotel.TracerPropagator(w3c), kotel.ConsumerGroup("g-"+name))
		cl, err := kgo.NewClient(kgo.SeedBrokers(cluster.ListenAddrs()...), kgo.ConsumeTopics(topic),
			kgo.ConsumeResetOffset(kgo.NewOffset().AtStart()), kgo.FetchMaxWait(250*time.Millisecond), hooks(kotel.NewTracer(opts...)))
		if err != nil {
			t.Fatalf("VERIF-INFRA: consumer client: %v", err)
		}
		c := &consumer{name: name, cl: cl, got: map[int64]*kgo.Record{}, wake: make(chan struct{}), extracted: extracted}
		r.consumers = append(r.consumers, c)
		go c.run(ctx)
	}
	// noop provider: Start hands the extracted remote context through unchanged
	mkConsumer("noop", noop.NewTracerProvider(), func(r *kgo.Record) (trace.SpanContext, string) {
		return trace.SpanContextFromContext(r.Context), ""
	})
	// SDK provider: the receive span is a child of the extracted context
	mkConsumer("sdk", sdkProvider(), parentOf)
	// SDK provider with LinkSpans: the receive span is a root linked to the extracted context
	mkConsumer("sdk-link", sdkProvider(), func(r *kgo.Record) (trace.SpanContext, string) {
		ro, ok := trace.SpanFromContext(r.Context).(sdktrace.ReadOnlySpan)
		if !ok {
			return trace.SpanContext{}, "record context does not carry the SDK receive span"
		}
		if ro.Parent().IsValid() {
			return trace.SpanContext{}, "LinkSpans receive span has a parent " + scString(ro.Parent())
		}
		switch l := ro.Links(); len(l) {
		case 0:
			return trace.SpanContext{}, ""
		case 1:
			return l[0].SpanContext, ""
		default:
			return trace.SpanContext{}, fmt.Sprintf("%d links on the receive span", len(l))
		}
	}, kotel.LinkSpans())
	return r
}

type e2eRecord struct {
	user []hdr
	sc   trace.SpanContext
	key  []byte
	val  []byte
}

func TestE2E(t *testing.T) {
	r := newRig(t)
	defer r.close()
	rapid.Check(t, func(t *rapid.T) {
		pi := rapid.IntRange(0, len(r.producers)-1).Draw(t, "producer")
		n := rapid.IntRange(1, 3).Draw(t, "nrecords")
		var in []e2eRecord
		var recs []*kgo.Record
		for i := 0; i < n; i++ {
			e := e2eRecord{user: genUserHeaders(t, 4), sc: genSpanContext(t), key: genVal().Draw(t, "key"), val: genVal().Draw(t, "value")}
			in = append(in, e)
			rec := toRecord(e.user, rapid.IntRange(0, 2).Draw(t, "spareCap"))
			rec.Key, rec.Value = e.key, e.val
			rec.Context = withSC(e.sc)
			recs = append(recs, rec)
		}
		ctx, cancel := context.WithTimeout(context.Background(), 90*time.Second)
		defer cancel()
		res := r.producers[pi].ProduceSync(ctx, recs...)
		if err := res.FirstErr(); err != nil {
			t.Fatalf("VERIF-INFRA: produce failed: %v", err)
		}
		offsets := make([]int64, n)
		wants := make([]trace.SpanContext, n)
		for i, rec := range recs {
			offsets[i] = rec.Offset
			e := in[i]
			// what the producer hook injected: the publish span's context
			psc := trace.SpanContextFromContext(rec.Context)
			if e.sc.IsValid() && psc.TraceID() != e.sc.TraceID() {
				t.Fatalf("VERIF-INFRA: %s tracer provider did not continue the trace of the record context (%s -> %s)", r.pnames[pi], scString(e.sc), scString(psc))
			}
			sent := fromRecord(rec)
			if d := checkSets(e.user, sent, injectedSets(psc)); d != "" {
				t.Fatalf("producer %s, record %d: user headers %s, publish span %s, headers after the produce hook %s: %s", r.pnames[pi], i, show(e.user), scString(psc), show(sent), d)
			}
			ref := refMap(e.user)
			w3c.Inject(withSC(psc), ref)
			wants[i] = trace.SpanContextFromContext(w3c.Extract(context.Background(), ref))
			if psc.IsValid() && (wants[i].TraceID() != psc.TraceID() || wants[i].SpanID() != psc.SpanID()) {
				t.Fatalf("VERIF-INFRA: reference MapCarrier round trip lost the context %s -> %s", scString(psc), scString(wants[i]))
			}
		}
		deadline := time.Now().Add(90 * time.Second)
		for _, c := range r.consumers {
			fetched, ok := c.wait(offsets, deadline)
			if !ok {
				t.Fatalf("VERIF-INFRA: consumer %s did not receive offsets %v within 90 s", c.name, offsets)
			}
			for i, f := range fetched {
				sent := fromRecord(recs[i])
				if d := checkSets(sent, fromRecord(f), nil); d != "" {
					t.Fatalf("consumer %s record %d: headers sent %s, fetched %s: %s", c.name, i, show(sent), show(fromRecord(f)), d)
				}
				got, problem := c.extracted(f)
				if problem != "" {
					t.Fatalf("consumer %s record %d (headers %s): %s", c.name, i, show(fromRecord(f)), problem)
				}
				if !got.Equal(wants[i]) {
					t.Fatalf("producer %s -> consumer %s, record %d: user headers %s, record context %s, injected %s, headers on the wire %s: consumer hook extracted %s, want %s",
						r.pnames[pi], c.name, i, show(in[i].user), scString(in[i].sc), scString(trace.SpanContextFromContext(recs[i].Context)), show(fromRecord(f)), scString(got), scString(wants[i]))
				}
			}
		}
		for i, e := range in {
			stale := hasKey(e.user, "traceparent") || hasKey(e.user, "tracestate")
			ev.Case(fmt.Sprintf("e2e:%s:%s:%s", r.pnames[pi], show(e.user), scString(e.sc)), wants[i].IsValid())
			ev.Class("e2e_producer_" + r.pnames[pi])
			switch {
			case !e.sc.IsValid() && r.pnames[pi] == "noop" && !wants[i].IsValid():
				ev.Class("e2e_nothing_injected_nothing_extracted")
			case !e.sc.IsValid() && r.pnames[pi] == "noop":
				ev.Class("e2e_nothing_injected_stale_header_extracted")
			case stale:
				ev.Class("e2e_injected_over_stale_trace_headers")
			default:
				ev.Class("e2e_injected_and_extracted")
			}
			if wants[i].TraceState().Len() > 0 {
				ev.Class("e2e_with_tracestate")
			}
		}
		ev.SampleIf(func() any {
			keys := []string{}
			for _, h := range fromRecord(recs[0]) {
				keys = append(keys, h.K)
			}
			sort.Strings(keys)
			return map[string]any{"kind": "e2e", "producer": r.pnames[pi], "user_headers": show(in[0].user), "record_context": scString(in[0].sc), "extracted_by_all_consumers": scString(wants[0]), "wire_header_keys": keys}
		})
	})
}
