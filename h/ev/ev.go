// Package ev collects, inside a check's test process, what that process actually
// explored: number of property evaluations, the set of distinct non-trivial case
// digests, per-class counters and a few written-out samples. At process exit
// (ev.Main) one fragment file is written to $VERIF_EV_DIR; the ./check driver merges
// the fragments of all shards into /verif/evidence/<id>.json.
package ev

import (
	"encoding/json"
	"fmt"
	"hash/fnv"
	"os"
	"path/filepath"
	"sort"
	"strconv"
	"sync"
	"testing"
)

const maxHashes = 400000
const maxSamples = 6

type fragment struct {
	PropertyID  string           `json:"property_id"`
	Evaluations int64            `json:"evaluations"`
	Hashes      []string         `json:"hashes"`
	HashesCap   bool             `json:"hashes_capped"`
	Classes     map[string]int64 `json:"classes"`
	Samples     []any            `json:"samples"`
	Excluded    map[string]int64 `json:"excluded_known"`
	Exhaustive  *bool            `json:"exhaustive,omitempty"`
	Extra       map[string]any   `json:"extra,omitempty"`
	Known       []string         `json:"known_lines,omitempty"`
}

var (
	mu    sync.Mutex
	id    string
	evals int64
	hset  = map[uint64]struct{}{}
	capd  bool
	cls   = map[string]int64{}
	smp   []any
	excl  = map[string]int64{}
	exh   *bool
	extra = map[string]any{}
	known []string
)

// Main runs the tests and writes the evidence fragment. Use from TestMain.
func Main(m *testing.M, propertyID string) {
	id = propertyID
	code := m.Run()
	Flush()
	os.Exit(code)
}

func h64(s string) uint64 {
	h := fnv.New64a()
	h.Write([]byte(s))
	return h.Sum64()
}

// Case records one evaluated case. digest identifies the case up to the
// equivalence the property's rule states; nontrivial says whether the case
// satisfies the property's stated non-trivial rule.
func Case(digest string, nontrivial bool) {
	mu.Lock()
	evals++
	if nontrivial {
		if len(hset) < maxHashes {
			hset[h64(digest)] = struct{}{}
		} else {
			capd = true
		}
	}
	mu.Unlock()
}

// Evals adds n evaluations that are counted in bulk (exhaustive sweeps).
func Evals(n int64) { mu.Lock(); evals += n; mu.Unlock() }

// Nontrivial adds a non-trivial digest without counting an evaluation.
func Nontrivial(digest string) {
	mu.Lock()
	if len(hset) < maxHashes {
		hset[h64(digest)] = struct{}{}
	} else {
		capd = true
	}
	mu.Unlock()
}

// Class bumps a class counter (generator health).
func Class(name string) { mu.Lock(); cls[name]++; mu.Unlock() }

// ClassN bumps a class counter by n.
func ClassN(name string, n int64) { mu.Lock(); cls[name] += n; mu.Unlock() }

// Sample keeps up to maxSamples written-out cases.
func Sample(v any) {
	mu.Lock()
	if len(smp) < maxSamples {
		smp = append(smp, v)
	}
	mu.Unlock()
}

// SampleIf keeps v if fewer than maxSamples are stored; the function form avoids
// building the sample when it is not needed.
func SampleIf(f func() any) {
	mu.Lock()
	need := len(smp) < maxSamples
	mu.Unlock()
	if need {
		Sample(f())
	}
}

// Excluded counts a generated case that was excluded by construction because it
// falls in a known finding's input class.
func Excluded(key string) { mu.Lock(); excl[key]++; mu.Unlock() }

// Exhaustive marks whether this process enumerated its finite space completely.
func Exhaustive(b bool) {
	mu.Lock()
	if exh == nil || !b {
		exh = &b
	}
	mu.Unlock()
}

// Extra stores an additional coverage key.
func Extra(k string, v any) { mu.Lock(); extra[k] = v; mu.Unlock() }

// KnownFinding prints the KNOWN-FINDING line the interface requires.
func KnownFinding(propertyID, what string) {
	line := fmt.Sprintf("KNOWN-FINDING: property=%s %s", propertyID, what)
	mu.Lock()
	for _, k := range known {
		if k == line {
			mu.Unlock()
			return
		}
	}
	known = append(known, line)
	mu.Unlock()
	fmt.Println(line)
}

// Tier returns "quick" or "thorough".
func Tier() string {
	if os.Getenv("VERIF_TIER") == "thorough" {
		return "thorough"
	}
	return "quick"
}

// Thorough reports whether the thorough tier is running.
func Thorough() bool { return Tier() == "thorough" }

// Seed returns VERIF_SEED (0 remapped to 1).
func Seed() uint64 {
	s, _ := strconv.ParseUint(os.Getenv("VERIF_SEED"), 10, 64)
	if s == 0 {
		s = 1
	}
	return s
}

// Shard returns this process's shard index and the shard count.
func Shard() (int, int) {
	i, _ := strconv.Atoi(os.Getenv("VERIF_SHARD"))
	n, _ := strconv.Atoi(os.Getenv("VERIF_NSHARDS"))
	if n <= 0 {
		n = 1
	}
	return i, n
}

// Repo returns the path of the repository under test.
func Repo() string {
	if r := os.Getenv("VERIF_REPO"); r != "" {
		return r
	}
	return "/repo"
}

// Replay writes a replay file for a failing case and returns its path. Checks that
// do not fail through rapid (exhaustive sweeps, history checks) call this before
// t.Fatalf so the driver can name the file in the VIOLATION line.
func Replay(name string, content any) string {
	dir := os.Getenv("VERIF_REPLAY_DIR")
	if dir == "" {
		dir = os.TempDir()
	}
	os.MkdirAll(dir, 0o755)
	p := filepath.Join(dir, name)
	var b []byte
	switch c := content.(type) {
	case []byte:
		b = c
	case string:
		b = []byte(c)
	default:
		b, _ = json.MarshalIndent(c, "", " ")
	}
	os.WriteFile(p, b, 0o644)
	return p
}

// Flush writes the fragment file.
func Flush() {
	dir := os.Getenv("VERIF_EV_DIR")
	if dir == "" {
		return
	}
	mu.Lock()
	defer mu.Unlock()
	f := fragment{PropertyID: id, Evaluations: evals, HashesCap: capd, Classes: cls, Samples: smp, Excluded: excl, Exhaustive: exh, Extra: extra, Known: known}
	keys := make([]uint64, 0, len(hset))
	for k := range hset {
		keys = append(keys, k)
	}
	sort.Slice(keys, func(i, j int) bool { return keys[i] < keys[j] })
	f.Hashes = make([]string, len(keys))
	for i, k := range keys {
		f.Hashes[i] = strconv.FormatUint(k, 36)
	}
	b, err := json.Marshal(f)
	if err != nil {
		// samples that do not marshal must not lose the counts
		f.Samples = []any{fmt.Sprintf("%v", smp)}
		b, _ = json.Marshal(f)
	}
	os.MkdirAll(dir, 0o755)
	sh, _ := Shard()
	os.WriteFile(filepath.Join(dir, fmt.Sprintf("frag-%d-%d.json", sh, os.Getpid())), b, 0o644)
}
