// Package c38 checks property C38: the accessors of kgo.Fetches agree with each other and
// with a plain structural walk (fetch -> topic -> partition -> record) of the value.
package c38

import (
	"context"
	"errors"
	"fmt"
	"sort"
	"strings"
	"testing"

	"github.com/twmb/franz-go/pkg/kerr"
	"github.com/twmb/franz-go/pkg/kgo"
	"pgregory.net/rapid"

	"verif/h/ev"
)

func TestMain(m *testing.M) { ev.Main(m, "C38") }

var topicPool = []string{"alpha", "beta", "gamma", "delta"}

var errPool = []error{
	errors.New("c38 plain error"),
	kerr.NotLeaderForPartition,
	kerr.TopicAuthorizationFailed,
	context.Canceled,
	kgo.ErrClientClosed,
	&kgo.ErrDataLoss{Topic: "alpha", Partition: 1, ConsumedTo: 10, ResetTo: 3},
}

// entry is the model's view of one FetchPartition occurrence.
type entry struct {
	fetch, topicIdx int
	topic           string
	id              [16]byte
	partition       int32
	serial          int64 // stored in HighWatermark: identifies the occurrence in callbacks that receive copies
	err             error
	recs            []*kgo.Record
}

type model struct {
	fs        kgo.Fetches
	entries   []entry
	recs      []*kgo.Record         // structural order
	topicIDs  map[string][][16]byte // every ID a topic name carried, in fetch order
	topicSeen map[string]int        // number of fetches the topic occurs in
	shape     string
}

func genFetches(t *rapid.T) *model {
	m := &model{topicIDs: map[string][][16]byte{}, topicSeen: map[string]int{}}
	trueID := map[string][16]byte{}
	perm := map[string][]int32{}
	used := map[string]int{}
	for i, tp := range topicPool {
		var id [16]byte
		copy(id[:], rapid.SliceOfN(rapid.Byte(), 16, 16).Draw(t, "topicid"))
		id[0] = byte(i + 1) // never the zero ID
		trueID[tp] = id
		base := make([]int32, 24)
		for j := range base {
			base[j] = int32(j)
		}
		perm[tp] = rapid.Permutation(base).Draw(t, "partitionorder")
	}
	var serial int64
	var sb strings.Builder
	nf := rapid.SampledFrom([]int{0, 1, 1, 2, 2, 2, 3, 3, 3, 4, 4, 4}).Draw(t, "fetches")
	if nf == 0 && rapid.Bool().Draw(t, "nilfetches") {
		m.fs = nil
	} else {
		m.fs = make(kgo.Fetches, 0, nf)
	}
	for fi := 0; fi < nf; fi++ {
		var f kgo.Fetch
		nt := rapid.IntRange(0, len(topicPool)).Draw(t, "topics")
		order := rapid.Permutation(topicPool).Draw(t, "topicorder")[:nt]
		sb.WriteString("F[")
		for ti, name := range order {
			ft := kgo.FetchTopic{Topic: name}
			idk := rapid.IntRange(0, 9).Draw(t, "idkind")
			switch {
			case idk <= 5:
				ft.TopicID = trueID[name]
			case idk <= 8: // e.g. an injected error fetch, or a broker without topic IDs
			default:
				ft.TopicID = trueID[name]
				ft.TopicID[15] ^= 0x5a
				ft.TopicID[1] |= 1
			}
			m.topicIDs[name] = append(m.topicIDs[name], ft.TopicID)
			m.topicSeen[name]++
			np := rapid.IntRange(0, 4).Draw(t, "partitions")
			fmt.Fprintf(&sb, "%s/%d(", name[:1], idk)
			for pi := 0; pi < np; pi++ {
				serial++
				fp := kgo.FetchPartition{Partition: perm[name][used[name]], HighWatermark: serial, LastStableOffset: serial, LogStartOffset: -serial}
				used[name]++
				ek := rapid.IntRange(0, 9).Draw(t, "errkind")
				if ek >= 6 {
					fp.Err = errPool[rapid.IntRange(0, len(errPool)-1).Draw(t, "err")]
				}
				nr := 0
				switch rapid.IntRange(0, 4).Draw(t, "reckind") {
				case 0, 1:
					if rapid.Bool().Draw(t, "emptynonnil") {
						fp.Records = []*kgo.Record{}
					}
				case 2:
					nr = 1
				default:
					nr = rapid.IntRange(1, 5).Draw(t, "records")
				}
				for ri := 0; ri < nr; ri++ {
					r := &kgo.Record{Topic: name, Partition: fp.Partition, Offset: serial*100 + int64(ri), Value: []byte{byte(ri)}}
					fp.Records = append(fp.Records, r)
					m.recs = append(m.recs, r)
				}
				ft.Partitions = append(ft.Partitions, fp)
				m.entries = append(m.entries, entry{fi, ti, name, ft.TopicID, fp.Partition, serial, fp.Err, fp.Records})
				fmt.Fprintf(&sb, "p%d:r%d:e%v,", fp.Partition, nr, fp.Err != nil)
			}
			sb.WriteString(")")
			f.Topics = append(f.Topics, ft)
		}
		sb.WriteString("]")
		m.fs = append(m.fs, f)
	}
	m.shape = sb.String()
	return m
}

func sameRecs(a, b []*kgo.Record) bool {
	if len(a) != len(b) {
		return false
	}
	for i := range a {
		if a[i] != b[i] {
			return false
		}
	}
	return true
}

func describe(rs []*kgo.Record) string {
	var sb strings.Builder
	for _, r := range rs {
		if r == nil {
			sb.WriteString("<nil> ")
			continue
		}
		fmt.Fprintf(&sb, "%s/%d@%d ", r.Topic, r.Partition, r.Offset)
	}
	return sb.String()
}

type errItem struct {
	topic     string
	partition int32
	err       error
}

func (e errItem) String() string { return fmt.Sprintf("%s/%d:%v", e.topic, e.partition, e.err) }

func sortErrs(e []errItem) {
	sort.SliceStable(e, func(i, j int) bool {
		if e[i].topic != e[j].topic {
			return e[i].topic < e[j].topic
		}
		return e[i].partition < e[j].partition
	})
}

func TestFetchesAccessors(t *testing.T) {
	rapid.Check(t, func(t *rapid.T) {
		m := genFetches(t)
		fs := m.fs
		want := m.recs

		// --- record visitors: same records, same order ---------------------------------
		var viaIter []*kgo.Record
		it := fs.RecordIter()
		for !it.Done() {
			if len(viaIter) > len(want) {
				t.Fatalf("RecordIter yields more than the %d records present (shape %s)", len(want), m.shape)
			}
			viaIter = append(viaIter, it.Next())
		}
		if !it.Done() {
			t.Fatalf("RecordIter.Done flipped back to false")
		}
		if !sameRecs(viaIter, want) {
			t.Fatalf("RecordIter visits [%s], structural order is [%s] (shape %s)", describe(viaIter), describe(want), m.shape)
		}
		var viaAll []*kgo.Record
		for r := range fs.RecordsAll() {
			viaAll = append(viaAll, r)
		}
		if !sameRecs(viaAll, want) {
			t.Fatalf("RecordsAll visits [%s], structural order is [%s] (shape %s)", describe(viaAll), describe(want), m.shape)
		}
		if len(want) > 0 {
			k := rapid.IntRange(1, len(want)).Draw(t, "breakafter")
			var pre []*kgo.Record
			for r := range fs.RecordsAll() {
				pre = append(pre, r)
				if len(pre) == k {
					break
				}
			}
			if !sameRecs(pre, want[:k]) {
				t.Fatalf("RecordsAll stopped after %d records visits [%s], want [%s]", k, describe(pre), describe(want[:k]))
			}
		}
		var viaEach []*kgo.Record
		fs.EachRecord(func(r *kgo.Record) { viaEach = append(viaEach, r) })
		if !sameRecs(viaEach, want) {
			t.Fatalf("EachRecord visits [%s], structural order is [%s] (shape %s)", describe(viaEach), describe(want), m.shape)
		}
		viaRecords := fs.Records()
		if !sameRecs(viaRecords, want) {
			t.Fatalf("Records() = [%s], RecordIter/structural order is [%s] (shape %s)", describe(viaRecords), describe(want), m.shape)
		}

		// --- counts -------------------------------------------------------------------
		if n := fs.NumRecords(); n != len(want) {
			t.Fatalf("NumRecords() = %d, the visitors see %d records (shape %s)", n, len(want), m.shape)
		}
		if e := fs.Empty(); e != (len(want) == 0) {
			t.Fatalf("Empty() = %v with %d records (shape %s)", e, len(want), m.shape)
		}

		// --- EachPartition: every partition occurrence exactly once ---------------------
		bySerial := map[int64]*entry{}
		for i := range m.entries {
			bySerial[m.entries[i].serial] = &m.entries[i]
		}
		seen := map[int64]int{}
		fs.EachPartition(func(p kgo.FetchTopicPartition) {
			e := bySerial[p.HighWatermark]
			if e == nil {
				t.Fatalf("EachPartition visits an unknown partition %s/%d (hwm %d) (shape %s)", p.Topic, p.Partition, p.HighWatermark, m.shape)
			}
			seen[e.serial]++
			if p.Topic != e.topic || p.Partition != e.partition || p.Err != e.err || !sameRecs(p.Records, e.recs) || p.LogStartOffset != -e.serial {
				t.Fatalf("EachPartition hands out %s/%d err=%v recs=[%s] for the partition %s/%d err=%v recs=[%s]", p.Topic, p.Partition, p.Err, describe(p.Records), e.topic, e.partition, e.err, describe(e.recs))
			}
			var sub []*kgo.Record
			p.EachRecord(func(r *kgo.Record) { sub = append(sub, r) })
			if !sameRecs(sub, e.recs) {
				t.Fatalf("FetchTopicPartition.EachRecord visits [%s], partition holds [%s]", describe(sub), describe(e.recs))
			}
		})
		for _, e := range m.entries {
			if seen[e.serial] != 1 {
				t.Fatalf("EachPartition visited %s/%d (fetch %d) %d times, want exactly once (shape %s)", e.topic, e.partition, e.fetch, seen[e.serial], m.shape)
			}
		}

		// --- EachTopic: merges across fetches, keeps the ID, covers each partition once --
		seenT := map[string]int{}
		seenP := map[int64]int{}
		fs.EachTopic(func(ft kgo.FetchTopic) {
			seenT[ft.Topic]++
			ids, ok := m.topicIDs[ft.Topic]
			if !ok {
				t.Fatalf("EachTopic visits topic %q which is in no fetch (shape %s)", ft.Topic, m.shape)
			}
			// topic ID retention
			var nonzero [][16]byte
			for _, id := range ids {
				if id != ([16]byte{}) {
					nonzero = append(nonzero, id)
				}
			}
			if len(nonzero) == 0 {
				if ft.TopicID != ([16]byte{}) {
					t.Fatalf("EachTopic gives topic %q ID %x although no fetch carried an ID", ft.Topic, ft.TopicID)
				}
			} else {
				found := false
				for _, id := range nonzero {
					if id == ft.TopicID {
						found = true
					}
				}
				if !found {
					t.Fatalf("EachTopic gives topic %q ID %x; the fetches carried %x for it (shape %s)", ft.Topic, ft.TopicID, ids, m.shape)
				}
			}
			var fromParts []*kgo.Record
			for _, p := range ft.Partitions {
				e := bySerial[p.HighWatermark]
				if e == nil {
					t.Fatalf("EachTopic(%q) holds an unknown partition %d", ft.Topic, p.Partition)
				}
				seenP[e.serial]++
				if e.topic != ft.Topic {
					t.Fatalf("EachTopic(%q) holds partition %d of topic %q", ft.Topic, p.Partition, e.topic)
				}
				if p.Partition != e.partition || p.Err != e.err || !sameRecs(p.Records, e.recs) {
					t.Fatalf("EachTopic(%q) partition %d differs from the fetched one: err=%v recs=[%s], want err=%v recs=[%s]", ft.Topic, p.Partition, p.Err, describe(p.Records), e.err, describe(e.recs))
				}
				fromParts = append(fromParts, p.Records...)
			}
			// the merged topic's own helpers
			var viaTP []kgo.FetchPartition
			ft.EachPartition(func(p kgo.FetchPartition) { viaTP = append(viaTP, p) })
			if len(viaTP) != len(ft.Partitions) {
				t.Fatalf("FetchTopic.EachPartition visits %d of %d partitions", len(viaTP), len(ft.Partitions))
			}
			cnt := map[*kgo.Record]int{}
			nrec := 0
			ft.EachRecord(func(r *kgo.Record) { cnt[r]++; nrec++ })
			for _, r := range fromParts {
				cnt[r]--
			}
			for r, c := range cnt {
				if c != 0 {
					t.Fatalf("FetchTopic.EachRecord and the topic's partitions disagree on record %s/%d@%d (%+d)", r.Topic, r.Partition, r.Offset, c)
				}
			}
			if nrec != len(fromParts) {
				t.Fatalf("FetchTopic.EachRecord visits %d records, partitions hold %d", nrec, len(fromParts))
			}
			if rs := ft.Records(); !sameRecs(rs, fromParts) {
				t.Fatalf("FetchTopic.Records() = [%s], partitions hold [%s]", describe(rs), describe(fromParts))
			}
		})
		for name, c := range seenT {
			if c != 1 {
				t.Fatalf("EachTopic visited topic %q %d times; it occurs in %d fetches and must be merged into one (shape %s)", name, c, m.topicSeen[name], m.shape)
			}
		}
		for _, e := range m.entries {
			if seenP[e.serial] != 1 {
				t.Fatalf("EachTopic covered partition %s/%d (fetch %d) %d times, want exactly once (shape %s)", e.topic, e.partition, e.fetch, seenP[e.serial], m.shape)
			}
		}

		// --- errors ---------------------------------------------------------------------
		var wantErrs []errItem
		for _, e := range m.entries {
			if e.err != nil {
				wantErrs = append(wantErrs, errItem{e.topic, e.partition, e.err})
			}
		}
		var viaEachErr []errItem
		fs.EachError(func(tp string, p int32, err error) { viaEachErr = append(viaEachErr, errItem{tp, p, err}) })
		var viaErrors []errItem
		for _, fe := range fs.Errors() {
			viaErrors = append(viaErrors, errItem{fe.Topic, fe.Partition, fe.Err})
		}
		firstErr := error(nil)
		if len(wantErrs) > 0 {
			firstErr = wantErrs[0].err
		}
		sortErrs(wantErrs)
		sortErrs(viaEachErr)
		sortErrs(viaErrors)
		cmp := func(what string, got []errItem) {
			if len(got) != len(wantErrs) {
				t.Fatalf("%s lists %d partitions %v, %d partitions carry errors %v (shape %s)", what, len(got), got, len(wantErrs), wantErrs, m.shape)
			}
			for i := range got {
				if got[i] != wantErrs[i] {
					t.Fatalf("%s lists %v, the erroring partitions are %v (shape %s)", what, got, wantErrs, m.shape)
				}
			}
		}
		cmp("EachError", viaEachErr)
		cmp("Errors()", viaErrors)
		// documented: Err = first error of a linear scan; Err0 = error of the very first partition
		if got := fs.Err(); got != firstErr {
			t.Fatalf("Err() = %v, the first error in fetch order is %v (shape %s)", got, firstErr, m.shape)
		}
		want0 := error(nil)
		if len(fs) > 0 && len(fs[0].Topics) > 0 && len(fs[0].Topics[0].Partitions) > 0 {
			want0 = fs[0].Topics[0].Partitions[0].Err
		}
		if got := fs.Err0(); got != want0 {
			t.Fatalf("Err0() = %v, the 0th partition's error is %v (shape %s)", got, want0, m.shape)
		}

		// --- evidence -------------------------------------------------------------------
		repeated, idMixed, idConflict := false, false, false
		for name, c := range m.topicSeen {
			if c >= 2 {
				repeated = true
				z, nz := 0, map[[16]byte]bool{}
				for _, id := range m.topicIDs[name] {
					if id == ([16]byte{}) {
						z++
					} else {
						nz[id] = true
					}
				}
				if z > 0 && len(nz) > 0 {
					idMixed = true
				}
				if len(nz) > 1 {
					idConflict = true
				}
			}
		}
		emptyParts, errWithRecs := 0, 0
		for _, e := range m.entries {
			if len(e.recs) == 0 {
				emptyParts++
			}
			if e.err != nil && len(e.recs) > 0 {
				errWithRecs++
			}
		}
		ev.Case(m.shape, len(fs) >= 2 && repeated && len(want) > 0)
		switch {
		case len(fs) == 0:
			ev.Class("no_fetches")
		case len(fs) == 1:
			ev.Class("one_fetch")
		default:
			ev.Class("multi_fetch")
		}
		if repeated {
			ev.Class("topic_repeated_across_fetches")
		}
		if idMixed {
			ev.Class("repeated_topic_zero_and_nonzero_id")
		}
		if idConflict {
			ev.Class("repeated_topic_different_ids")
		}
		if len(want) == 0 {
			ev.Class("no_records")
		}
		if len(want) == 0 && len(m.entries) > 0 {
			ev.Class("partitions_but_no_records")
		}
		if len(wantErrs) > 0 && len(want) > 0 {
			ev.Class("errors_mixed_with_records")
		}
		if errWithRecs > 0 {
			ev.Class("partition_with_error_and_records")
		}
		if emptyParts > 0 && len(want) > 0 {
			ev.Class("empty_partitions_between_records")
		}
		if len(fs) >= 2 && repeated && len(want) > 0 {
			ev.SampleIf(func() any {
				return map[string]any{"shape": m.shape, "fetches": len(fs), "records": len(want), "partitions": len(m.entries), "erroring_partitions": len(wantErrs)}
			})
		}
	})
}
