package c41

import (
	"context"
	"encoding/binary"
	"fmt"
	"os"
	"sync"
	"testing"
	"time"

	"github.com/twmb/franz-go/pkg/kgo"
	"pgregory.net/rapid"

	"verif/h/bubble"
	"verif/h/ev"
)

// API churn: several application goroutines call the methods the property names (producing,
// polling, committing, pausing, adding/removing topics and partitions, purging, forcing
// metadata, reading gauges) on ONE client at the same virtual instants while partition leaders
// move, and the client is closed while some of them are still calling. The end-to-end
// workloads of the other tests issue most of these calls from a single goroutine between
// polls; here they genuinely overlap each other and the client's own goroutines. The oracle
// is the race detector (and the absence of panics).

type churnOp struct {
	Kind  string
	Topic int
	Part  int32
	N     int
	Sleep time.Duration
}

type churnPlan struct {
	Mode       string // direct | group
	Brokers    int
	Topics     int
	Parts      int32
	Workers    [][]churnOp
	Moves      []churnOp
	CloseEarly bool
}

var churnKinds = []string{"produce", "produce", "tryproduce", "flush", "poll", "poll", "pollrecords", "pausetopic", "resumetopic", "pausepart", "pausepart", "resumepart", "resumepart",
	"addtopic", "purgeconsuming", "purgeproducing", "forcemeta", "gauges", "lists", "setoffsets", "sleep", "sleep"}

func genChurn(t *rapid.T) churnPlan {
	p := churnPlan{Mode: rapid.SampledFrom([]string{"direct", "direct", "group"}).Draw(t, "mode"), Brokers: rapid.IntRange(1, 3).Draw(t, "brokers"), Topics: rapid.IntRange(1, 3).Draw(t, "topics"),
		Parts: int32(rapid.IntRange(2, 4).Draw(t, "parts")), CloseEarly: rapid.IntRange(0, 2).Draw(t, "closeearly") == 0}
	kinds := append([]string(nil), churnKinds...)
	if p.Mode == "direct" {
		kinds = append(kinds, "addpart", "rmpart", "rmpart")
	} else {
		kinds = append(kinds, "commit", "commit", "committed", "allowrebalance")
	}
	op := func(ks []string) churnOp {
		return churnOp{Kind: rapid.SampledFrom(ks).Draw(t, "kind"), Topic: rapid.IntRange(0, p.Topics-1).Draw(t, "topic"), Part: int32(rapid.IntRange(0, int(p.Parts)-1).Draw(t, "part")),
			N: rapid.IntRange(1, 4).Draw(t, "n"), Sleep: rapid.SampledFrom([]time.Duration{0, 0, time.Millisecond, 20 * time.Millisecond, 300 * time.Millisecond}).Draw(t, "sleep")}
	}
	nw := rapid.IntRange(3, 5).Draw(t, "workers")
	for w := 0; w < nw; w++ {
		n := rapid.IntRange(5, 20).Draw(t, "nops")
		var ops []churnOp
		for i := 0; i < n; i++ {
			ops = append(ops, op(kinds))
		}
		p.Workers = append(p.Workers, ops)
	}
	nm := rapid.IntRange(0, 4).Draw(t, "nmoves")
	for i := 0; i < nm; i++ {
		m := op([]string{"move"})
		m.N = rapid.IntRange(0, p.Brokers-1).Draw(t, "node")
		p.Moves = append(p.Moves, m)
	}
	return p
}

func TestRaceApiChurn(t *testing.T) {
	rapid.Check(t, func(rt *rapid.T) {
		p := genChurn(rt)
		if os.Getenv("VERIF_DEBUG") != "" {
			fmt.Fprintf(os.Stderr, "CHURN-PLAN %+v\n", p)
		}
		finished := true
		var nOps int
		bubble.Run(t, rt, func(e *bubble.Env) {
			topics := map[string]int32{}
			name := func(i int) string { return fmt.Sprintf("ch%d", i) }
			for i := 0; i < p.Topics; i++ {
				topics[name(i)] = p.Parts
			}
			e.StartCluster(bubble.ClusterOpts{Brokers: p.Brokers, Topics: topics})
			opts := []kgo.Opt{kgo.RecordPartitioner(kgo.ManualPartitioner()), kgo.ProducerLinger(time.Millisecond), kgo.FetchMaxWait(100 * time.Millisecond), kgo.ConsumeResetOffset(kgo.NewOffset().AtStart()),
				kgo.MaxBufferedRecords(50), kgo.RecordDeliveryTimeout(5 * time.Second)}
			if p.Mode == "group" {
				opts = append(opts, kgo.ConsumerGroup("gchurn"), kgo.ConsumeTopics(name(0)), kgo.HeartbeatInterval(300*time.Millisecond), kgo.SessionTimeout(10*time.Second), kgo.AutoCommitInterval(200*time.Millisecond))
			} else {
				opts = append(opts, kgo.ConsumeTopics(name(0)))
			}
			cl := e.NewClient(opts...)
			ctx := context.Background()
			var wg sync.WaitGroup
			var idmu sync.Mutex
			var nextID uint64
			mk := func(o churnOp) []*kgo.Record {
				var rs []*kgo.Record
				for i := 0; i < o.N; i++ {
					idmu.Lock()
					nextID++
					id := nextID
					idmu.Unlock()
					v := make([]byte, 8)
					binary.BigEndian.PutUint64(v, id)
					rs = append(rs, &kgo.Record{Topic: name(o.Topic), Partition: o.Part, Value: v, Headers: []kgo.RecordHeader{{Key: "h", Value: v}}})
				}
				return rs
			}
			run := func(o churnOp) {
				time.Sleep(o.Sleep)
				tn := name(o.Topic)
				switch o.Kind {
				case "produce":
					for _, r := range mk(o) {
						cl.Produce(ctx, r, func(r *kgo.Record, err error) { _ = r.Offset })
					}
				case "tryproduce":
					for _, r := range mk(o) {
						cl.TryProduce(ctx, r, nil)
					}
				case "flush":
					c, cancel := context.WithTimeout(ctx, time.Second)
					cl.Flush(c)
					cancel()
				case "poll":
					c, cancel := context.WithTimeout(ctx, 200*time.Millisecond)
					fs := cl.PollFetches(c)
					cancel()
					fs.EachRecord(func(r *kgo.Record) { _ = len(r.Value) })
					fs.EachError(func(string, int32, error) {})
				case "pollrecords":
					c, cancel := context.WithTimeout(ctx, 200*time.Millisecond)
					fs := cl.PollRecords(c, o.N)
					cancel()
					_ = fs.NumRecords()
				case "pausetopic":
					cl.PauseFetchTopics(tn)
				case "resumetopic":
					cl.ResumeFetchTopics(tn)
				case "pausepart":
					cl.PauseFetchPartitions(map[string][]int32{tn: {o.Part}})
				case "resumepart":
					cl.ResumeFetchPartitions(map[string][]int32{tn: {o.Part}})
				case "addtopic":
					cl.AddConsumeTopics(tn)
				case "purgeconsuming":
					cl.PurgeTopicsFromConsuming(tn)
				case "purgeproducing":
					cl.PurgeTopicsFromProducing(tn)
				case "forcemeta":
					cl.ForceMetadataRefresh()
				case "gauges":
					_ = cl.BufferedProduceRecords() + cl.BufferedFetchRecords() + cl.BufferedProduceBytes() + cl.BufferedFetchBytes()
				case "lists":
					_ = cl.PauseFetchTopics()
					_ = cl.PauseFetchPartitions(nil)
					_ = cl.GetConsumeTopics()
					_ = cl.UncommittedOffsets()
				case "setoffsets":
					cl.SetOffsets(map[string]map[int32]kgo.EpochOffset{tn: {o.Part: {Epoch: -1, Offset: int64(o.N)}}})
				case "addpart":
					cl.AddConsumePartitions(map[string]map[int32]kgo.Offset{tn: {o.Part: kgo.NewOffset().AtStart()}})
				case "rmpart":
					cl.RemoveConsumePartitions(map[string][]int32{tn: {o.Part}})
				case "commit":
					c, cancel := context.WithTimeout(ctx, time.Second)
					cl.CommitUncommittedOffsets(c)
					cancel()
				case "committed":
					_ = cl.CommittedOffsets()
				case "allowrebalance":
					cl.AllowRebalance()
				case "move":
					e.Cluster.MoveTopicPartition(tn, o.Part, int32(o.N))
				}
			}
			done := make(chan struct{})
			all := append([][]churnOp{}, p.Workers...)
			if len(p.Moves) > 0 {
				all = append(all, p.Moves)
			}
			for _, ops := range all {
				ops := ops
				nOps += len(ops)
				wg.Add(1)
				e.Go(func() {
					defer wg.Done()
					for _, o := range ops {
						run(o)
					}
				})
			}
			go func() { wg.Wait(); close(done) }()
			if p.CloseEarly {
				time.Sleep(150 * time.Millisecond)
				cl.Close()
			}
			if !bubble.WaitTimeout(done, 20*time.Minute) {
				finished = false
				fmt.Fprintf(os.Stderr, "C41-NOTE: API churn workers did not finish within 20 virtual minutes (not a race; plan %+v)\n", p)
			}
			cl.Close()
		})
		ev.Case(fmt.Sprintf("churn|%+v", p), len(p.Workers) >= 3)
		ev.Class("workload:api-churn:" + p.Mode)
		ev.ClassN("churn-api-calls", int64(nOps))
		if p.CloseEarly {
			ev.Class("churn-close-while-calls-in-flight")
		}
		if !finished {
			ev.Class("churn-workers-timeout-inconclusive")
		}
		ev.SampleIf(func() any {
			return map[string]any{"workload": "api-churn", "mode": p.Mode, "workers": len(p.Workers), "moves": len(p.Moves), "close_early": p.CloseEarly}
		})
	})
}
