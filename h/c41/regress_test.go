package c41

import (
	"context"
	"fmt"
	"runtime"
	"sync"
	"testing"
	"time"

	"github.com/twmb/franz-go/pkg/kgo"
	"github.com/twmb/franz-go/pkg/kmsg"

	"verif/h/bubble"
	"verif/h/ev"
)

// TestRegressAddPartitionsThenClose replays the sequential history behind "fixed: property=C41":
// PollFetches (a fetch session exists), AddConsumePartitions (triggers an asynchronous metadata
// update that assigns the new cursor) and Close a few hundred microseconds later. The additive
// assignment used to create a new consumer session after Close had stopped the last one, so a
// fetch loop copied source.session while Close's killSessionOnClose was writing it.
func TestRegressAddPartitionsThenClose(t *testing.T) {
	n := 60
	if ev.Thorough() {
		n = 300
	}
	for i := 0; i < n; i++ {
		bubble.Run(t, nil, func(e *bubble.Env) {
			e.StartCluster(bubble.ClusterOpts{Brokers: 1, Topics: map[string]int32{"x": 1, "y": 2}})
			cl := e.NewClient(kgo.ConsumeTopics("x"), kgo.FetchMaxWait(100*time.Millisecond), kgo.ConsumeResetOffset(kgo.NewOffset().AtStart()))
			ctx, cancel := context.WithTimeout(context.Background(), 300*time.Millisecond)
			cl.PollFetches(ctx)
			cancel()
			cl.AddConsumePartitions(map[string]map[int32]kgo.Offset{"y": {int32(i % 2): kgo.NewOffset().AtStart()}})
			// no virtual sleep here (it would let the metadata update finish first): the overlap
			// with Close comes from real scheduling, perturbed by a few yields
			for j := 0; j < i%6; j++ {
				runtime.Gosched()
			}
			cl.Close()
		})
		ev.Case(fmt.Sprintf("regress-addpartitions-then-close-after-%d-yields", i%6), true)
	}
	ev.Class("regression-replays")
}

// TestRegressEagerOffsetFetchAnsweredDuringRevoke replays the history behind the race found by
// TestRaceGroup (range balancer, slow OnPartitionsRevoked, a subscription change right after a
// join): an eager member's session ends (forced rejoin) while the session's OffsetFetch is
// still unanswered. The revoke invalidates every partition and runs the (slow) user callback;
// the OffsetFetch answer arrives meanwhile and used to ASSIGN the partitions it was fetched
// for, after they had been revoked. The member then kept fetching partitions it had given up
// (records were returned by polls between OnPartitionsRevoked and the next
// OnPartitionsAssigned), and the next session fetched offsets for the same partitions and
// loaded them into cursors that were in use: handleListOrEpochResults wrote cursor offsets
// that an in-flight fetch was about to write too (the data race the detector reported).
// The broker-side delay of OffsetFetch and the slow callback make the window deterministic;
// the oracle is the race detector plus "no records are returned between the call of
// OnPartitionsRevoked (for everything, eager) and the next OnPartitionsAssigned".
func TestRegressEagerOffsetFetchAnsweredDuringRevoke(t *testing.T) {
	for _, bal := range []string{"range", "roundrobin", "sticky"} {
		var violation string
		bubble.Run(t, nil, func(e *bubble.Env) {
			e.StartCluster(bubble.ClusterOpts{Brokers: 1, Topics: map[string]int32{"a": 2, "b": 1}})
			prod := e.NewClient(kgo.RecordPartitioner(kgo.ManualPartitioner()))
			for i := 0; i < 20; i++ {
				if err := prod.ProduceSync(context.Background(), &kgo.Record{Topic: "a", Partition: int32(i % 2), Value: []byte("v")}).FirstErr(); err != nil {
					panic("VERIF-INFRA: prefill: " + err.Error())
				}
			}
			t0 := time.Now()
			var mu sync.Mutex
			owned := false // between OnPartitionsAssigned and the start of OnPartitionsRevoked
			fetches := 0
			e.Cluster.ControlKey(int16(kmsg.OffsetFetch), func(kmsg.Request) (kmsg.Response, error, bool) {
				e.Cluster.KeepControl()
				mu.Lock()
				fetches++
				first := fetches == 1
				mu.Unlock()
				if first {
					e.Cluster.SleepControl(func() { time.Sleep(time.Second) }) // answered while the revoke callback runs
				}
				return nil, nil, false
			})
			var b kgo.GroupBalancer
			switch bal {
			case "range":
				b = kgo.RangeBalancer()
			case "roundrobin":
				b = kgo.RoundRobinBalancer()
			default:
				b = kgo.StickyBalancer()
			}
			cl := e.NewClient(kgo.ConsumerGroup("g41e"), kgo.ConsumeTopics("a"), kgo.Balancers(b), kgo.ConsumeResetOffset(kgo.NewOffset().AtStart()), kgo.FetchMaxWait(100*time.Millisecond),
				kgo.HeartbeatInterval(300*time.Millisecond), kgo.SessionTimeout(20*time.Second),
				kgo.OnPartitionsAssigned(func(context.Context, *kgo.Client, map[string][]int32) {
					mu.Lock()
					owned = true
					mu.Unlock()
				}),
				kgo.OnPartitionsRevoked(func(context.Context, *kgo.Client, map[string][]int32) {
					// the client has stopped fetching and dropped what it had buffered before it calls
					// this: nothing of these partitions may be returned from now on
					mu.Lock()
					owned = false
					mu.Unlock()
					time.Sleep(3 * time.Second) // an application flushing its state
				}))
			time.Sleep(200 * time.Millisecond) // joined, assigned, OffsetFetch in flight (held for 1 s)
			cl.AddConsumeTopics("b")           // subscription change: forced rejoin, the session ends
			for dl := time.Now().Add(15 * time.Second); time.Now().Before(dl); {
				pc, cancel := context.WithTimeout(context.Background(), 100*time.Millisecond)
				fs := cl.PollFetches(pc)
				cancel()
				mu.Lock()
				o := owned
				mu.Unlock()
				if n := fs.NumRecords(); n > 0 && !o && violation == "" {
					violation = fmt.Sprintf("%s balancer: a poll returned %d records at t=%v although OnPartitionsRevoked had been called for every partition and no OnPartitionsAssigned had followed", bal, n, time.Since(t0).Round(time.Millisecond))
				}
			}
		})
		ev.Case("regress-eager-offsetfetch-answered-during-revoke-"+bal, true)
		if violation != "" {
			t.Fatalf("%s", violation)
		}
	}
}
