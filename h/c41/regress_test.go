package c41

import (
	"context"
	"fmt"
	"runtime"
	"testing"
	"time"

	"github.com/twmb/franz-go/pkg/kgo"

	"verif/h/bubble"
	"verif/h/ev"
)

// TestRegressAddPartitionsThenClose replays the sequential history behind "fixed: property=C41":
// PollFetches (a fetch session exists), AddConsumePartitions (triggers an asynchronous metadata
// update that assigns the new cursor) and Close a few hundred microseconds later. The additive
// assignment used to create a new consumer session after Close had stopped the last one, so a
// fetch loop copied source.session while Close's killSessionOnClose was writing it.
func TestRegressAddPartitionsThenClose(t *testing.T) {
	n := 60
	if ev.Thorough() {
		n = 300
	}
	for i := 0; i < n; i++ {
		bubble.Run(t, nil, func(e *bubble.Env) {
			e.StartCluster(bubble.ClusterOpts{Brokers: 1, Topics: map[string]int32{"x": 1, "y": 2}})
			cl := e.NewClient(kgo.ConsumeTopics("x"), kgo.FetchMaxWait(100*time.Millisecond), kgo.ConsumeResetOffset(kgo.NewOffset().AtStart()))
			ctx, cancel := context.WithTimeout(context.Background(), 300*time.Millisecond)
			cl.PollFetches(ctx)
			cancel()
			cl.AddConsumePartitions(map[string]map[int32]kgo.Offset{"y": {int32(i % 2): kgo.NewOffset().AtStart()}})
			// no virtual sleep here (it would let the metadata update finish first): the overlap
			// with Close comes from real scheduling, perturbed by a few yields
			for j := 0; j < i%6; j++ {
				runtime.Gosched()
			}
			cl.Close()
		})
		ev.Case(fmt.Sprintf("regress-addpartitions-then-close-after-%d-yields", i%6), true)
	}
	ev.Class("regression-replays")
}
