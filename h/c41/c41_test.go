package c41

import (
	"testing"

	"pgregory.net/rapid"

	"verif/h/bubble"
	"verif/h/ev"
	"verif/h/wl"
)

func TestMain(m *testing.M) { ev.Main(m, "C41") }

// The workloads of C01/C03/C14 (produce), C04/C05/C14 (direct consume) and C07/C08 (groups)
// are re-run in a binary built with -race. The oracle is the race detector: any report
// fails the process ("WARNING: DATA RACE" + "race detected during execution of test").
// The harness's own shared state is mutex- or channel-protected, so a report points into
// pkg/kgo or pkg/kfake.

func TestRaceProduce(t *testing.T) {
	rapid.Check(t, func(rt *rapid.T) {
		plan := wl.GenProdPlan(rt, wl.ProdFocus{MaxSteps: 25})
		var o *wl.ProdObs
		bubble.Run(t, rt, func(e *bubble.Env) { o = wl.RunProd(e, plan) })
		ev.Case("P|"+o.Digest(), len(o.FailurePaths) > 0)
		ev.Class("workload:produce")
		ev.SampleIf(func() any { return map[string]any{"workload": "produce", "steps": o.StepKinds} })
	})
}

func TestRaceConsume(t *testing.T) {
	rapid.Check(t, func(rt *rapid.T) {
		plan := wl.GenConsPlan(rt, wl.ConsFocus{Txn: rapid.Bool().Draw(rt, "withtxn"), MaxSteps: 25})
		var o *wl.ConsObs
		bubble.Run(t, rt, func(e *bubble.Env) { o = wl.RunCons(e, plan) })
		ev.Case("C|"+o.Digest(), o.FaultWhileBuffered || o.PartialTake || o.Moves > 0)
		ev.Class("workload:consume")
		ev.SampleIf(func() any { return map[string]any{"workload": "consume", "steps": o.StepKinds} })
	})
}

func TestRaceGroup(t *testing.T) {
	rapid.Check(t, func(rt *rapid.T) {
		plan := wl.GenGroupPlan(rt)
		plan.DefaultRevoke = rapid.Bool().Draw(rt, "defaultrevoke")
		var o *wl.GroupObs
		bubble.Run(t, rt, func(e *bubble.Env) { o = wl.RunGroup(e, plan) })
		ev.Case("G|"+o.Digest(), o.Moves > 0)
		ev.Class("workload:group:" + plan.Protocol)
		ev.SampleIf(func() any { return map[string]any{"workload": "group", "plan": plan.Brief()} })
	})
}
