// Package krammar is an independent interpreter of the protocol definition DSL in
// <repo>/generate/definitions. It has its own line parser (schema.go, parse.go), a
// reference encoder and decoder that work on a generic value tree using only
// encoding/binary and local varint code (wire.go), a reflection bridge between
// generated kmsg Go values and value trees (reflect.go), a rapid-driven value
// generator guided by the schema (gen.go) and helpers to bind schema structs to Go
// constructors (bind.go). Nothing here imports or copies <repo>/generate/*.go.
package krammar

import (
	"fmt"
	"sort"
)

// Kind is the wire kind of a field type.
type Kind int

const (
	KBool Kind = iota
	KInt8
	KInt16
	KUint16
	KInt32
	KInt64
	KFloat64
	KUint32
	KVarint
	KVarlong
	KUuid
	KString           // string / nullable-string / nullable-string-vN+
	KBytes            // bytes / nullable-bytes
	KVarintString     // varint length prefix, Go string
	KVarintBytes      // varint length prefix, negative = null
	KArray            // [T], nullable[T], nullable-vN+[T], varint[T]
	KStruct           // =>, nullable=>, NamedStruct
	KLengthFieldMinus // raw bytes sized by an earlier field
)

var kindNames = map[Kind]string{KBool: "bool", KInt8: "int8", KInt16: "int16", KUint16: "uint16", KInt32: "int32", KInt64: "int64", KFloat64: "float64", KUint32: "uint32", KVarint: "varint", KVarlong: "varlong", KUuid: "uuid", KString: "string", KBytes: "bytes", KVarintString: "varint-string", KVarintBytes: "varint-bytes", KArray: "array", KStruct: "struct", KLengthFieldMinus: "length-field-minus"}

func (k Kind) String() string { return kindNames[k] }

// IsInt reports whether the kind is carried as an int64 in a value tree.
func (k Kind) IsInt() bool {
	switch k {
	case KInt8, KInt16, KUint16, KInt32, KInt64, KUint32, KVarint, KVarlong:
		return true
	}
	return false
}

// NotNullable marks a type that can never be null.
const NotNullable = -1

// Type is the type of a field or array element.
type Type struct {
	Kind Kind
	// Enum is the enum name for enum-X types (Kind is the enum's backing kind).
	Enum string
	// NullableFrom is NotNullable, or the first version at which the value may be
	// null (0 = always nullable). Used by KString, KBytes, KArray, KStruct.
	NullableFrom int
	// VarintLen marks varint[T] arrays.
	VarintLen bool
	Elem      *Type   // KArray
	Struct    *Struct // KStruct (anonymous or resolved named struct)
	StructRef string  // named struct reference before resolution
	// KLengthFieldMinus: byte count = value of LenField - LenMinus.
	LenField string
	LenMinus int
}

// Special marks the two colon-less fields.
type Special int

const (
	NoSpecial Special = iota
	Throttle
	Timeout
)

// Field is one struct field.
type Field struct {
	Name string
	Type *Type
	// MinV..MaxV is the version range; MaxV == -1 means open. A field that is only
	// tagged has MinV 0, MaxV -1.
	MinV, MaxV int
	// HasVersion is set when the line carries a version comment; a field without one
	// is "valid for all versions of a struct" (also versions outside 0..max that a
	// decoder of a 'with version field' type may read from hostile bytes).
	HasVersion bool
	// Tag is -1 or the tag number; tagged fields exist only at flexible versions.
	Tag int
	// HasDefault and Default hold the literal written in parentheses.
	HasDefault bool
	Default    string
	Special    Special
	// SpecialArg is the number in ThrottleMillis(N) / TimeoutMillis(N), or -1.
	SpecialArg int
	Line       string
}

// Struct is a named or anonymous struct.
type Struct struct {
	Name      string
	File      string
	Anonymous bool
	NameHint  string
	// Top level request/response.
	TopLevel   bool
	IsRequest  bool
	IsResponse bool
	Key        int
	MaxVersion int // top level: from "max version"; others: highest version mentioned
	// FlexibleAt is -1 or the first flexible version. Anonymous structs inherit it
	// from the enclosing named struct, responses from their request.
	FlexibleAt       int
	WithVersionField bool
	NoEncoding       bool
	Modifiers        []string
	Fields           []*Field
	// FromComment is set for a struct recovered from a commented-out definition.
	FromComment bool
}

// Enum is one enum definition.
type Enum struct {
	Name      string
	Base      Kind
	CamelCase bool
	Values    map[int64]string
}

// Schema is everything parsed from a definitions directory.
type Schema struct {
	Structs map[string]*Struct
	Order   []string
	Enums   map[string]*Enum
	// Commented holds structs recovered from commented-out blocks (Record).
	Commented map[string]*Struct
	// Problems are definition-level inconsistencies found while parsing/linting.
	Problems []string
}

// Flexible reports whether struct s uses flexible encoding at version v.
func (s *Struct) Flexible(v int) bool { return s.FlexibleAt >= 0 && v >= s.FlexibleAt }

// InRange reports whether the field's version range contains v.
func (f *Field) InRange(v int) bool {
	if !f.HasVersion {
		return true
	}
	return v >= f.MinV && (f.MaxV < 0 || v <= f.MaxV)
}

// Present reports whether the field is on the wire (or may be, for tagged fields) of
// struct s at version v.
func (f *Field) Present(s *Struct, v int) bool {
	if f.Tag >= 0 {
		return s.Flexible(v) && f.InRange(v)
	}
	return f.InRange(v)
}

// Nullable reports whether a value of this type may be null at version v.
func (t *Type) Nullable(v int) bool { return t.NullableFrom != NotNullable && v >= t.NullableFrom }

// EverNullable reports whether the type is nullable at some version.
func (t *Type) EverNullable() bool { return t.NullableFrom != NotNullable }

// Tags returns the struct's tagged fields ordered by tag number.
func (s *Struct) Tags() []*Field {
	var out []*Field
	for _, f := range s.Fields {
		if f.Tag >= 0 {
			out = append(out, f)
		}
	}
	sort.SliceStable(out, func(i, j int) bool { return out[i].Tag < out[j].Tag })
	return out
}

// Field returns the field with the given name or nil.
func (s *Struct) Field(name string) *Field {
	for _, f := range s.Fields {
		if f.Name == name {
			return f
		}
	}
	return nil
}

// Versions lists the versions the struct is exercised at.
func (s *Struct) Versions() []int {
	if !s.TopLevel && !s.WithVersionField && s.Name != "StickyMemberMetadata" {
		return []int{0}
	}
	out := make([]int, 0, s.MaxVersion+1)
	for v := 0; v <= s.MaxVersion; v++ {
		out = append(out, v)
	}
	return out
}

// maxMentioned returns the highest version number mentioned anywhere in s.
func (s *Struct) maxMentioned() int {
	m := 0
	if s.FlexibleAt > m {
		m = s.FlexibleAt
	}
	var walkT func(t *Type)
	var walkS func(x *Struct)
	walkT = func(t *Type) {
		if t == nil {
			return
		}
		if t.NullableFrom > m {
			m = t.NullableFrom
		}
		walkT(t.Elem)
		if t.Struct != nil && t.Struct.Anonymous {
			walkS(t.Struct)
		}
	}
	walkS = func(x *Struct) {
		for _, f := range x.Fields {
			if f.MinV > m {
				m = f.MinV
			}
			if f.MaxV > m {
				m = f.MaxV
			}
			walkT(f.Type)
		}
	}
	walkS(s)
	return m
}

// Shape returns a string describing the wire layout of s at version v (which fields
// are present, tagged, how they are encoded). Two versions with equal shapes encode
// identically; the C15 non-trivial rule compares neighbouring shapes.
func (s *Struct) Shape(v int) string {
	out := ""
	if s.Flexible(v) {
		out += "F"
	}
	for _, f := range s.Fields {
		if !f.Present(s, v) {
			out += "-" + f.Name + ";"
			continue
		}
		out += f.Name
		if f.Tag >= 0 {
			out += fmt.Sprintf("#%d", f.Tag)
		}
		out += ":" + f.Type.shape(v) + ";"
	}
	return out
}

func (t *Type) shape(v int) string {
	o := t.Kind.String()
	if t.Nullable(v) {
		o += "?"
	}
	switch t.Kind {
	case KArray:
		o += "[" + t.Elem.shape(v) + "]"
	case KStruct:
		o += "{" + t.Struct.Shape(v) + "}"
	}
	return o
}

// HasAbsentOrTagged reports whether at version v some field (recursively) is absent
// or tagged.
func (s *Struct) HasAbsentOrTagged(v int) bool {
	for _, f := range s.Fields {
		if f.Tag >= 0 || !f.Present(s, v) {
			return true
		}
		t := f.Type
		for t.Kind == KArray {
			t = t.Elem
		}
		if t.Kind == KStruct && t.Struct.HasAbsentOrTagged(v) {
			return true
		}
	}
	return false
}
