package krammar

import (
	"fmt"
	"math"
	"reflect"
	"sort"

	"github.com/twmb/franz-go/pkg/kmsg"
)

var tagsType = reflect.TypeOf(kmsg.Tags{})

// Bridge describes how schema field names map to Go fields for one bound type.
type Bridge struct {
	// Alias maps "StructName.Field" to the Go field name when they differ.
	Alias map[string]string
	// Extra lists Go fields ("StructName.Field") that have no schema counterpart and
	// are to be ignored by shape checks.
	Extra map[string]bool
}

func (b *Bridge) goName(s *Struct, f *Field) string {
	if b != nil {
		if a, ok := b.Alias[s.Name+"."+f.Name]; ok {
			return a
		}
	}
	return f.Name
}

func goKindOK(t *Type, rt reflect.Type) bool {
	switch t.Kind {
	case KBool:
		return rt.Kind() == reflect.Bool
	case KInt8:
		return rt.Kind() == reflect.Int8
	case KInt16:
		return rt.Kind() == reflect.Int16
	case KUint16:
		return rt.Kind() == reflect.Uint16
	case KInt32, KVarint:
		return rt.Kind() == reflect.Int32
	case KUint32:
		return rt.Kind() == reflect.Uint32
	case KInt64, KVarlong:
		return rt.Kind() == reflect.Int64
	case KFloat64:
		return rt.Kind() == reflect.Float64
	case KUuid:
		return rt.Kind() == reflect.Array && rt.Len() == 16 && rt.Elem().Kind() == reflect.Uint8
	case KString:
		if t.EverNullable() {
			return rt.Kind() == reflect.Pointer && rt.Elem().Kind() == reflect.String
		}
		return rt.Kind() == reflect.String
	case KVarintString:
		return rt.Kind() == reflect.String
	case KBytes, KVarintBytes, KLengthFieldMinus:
		return rt.Kind() == reflect.Slice && rt.Elem().Kind() == reflect.Uint8
	case KArray:
		return rt.Kind() == reflect.Slice && goKindOK(t.Elem, rt.Elem())
	case KStruct:
		if t.EverNullable() {
			return rt.Kind() == reflect.Pointer && rt.Elem().Kind() == reflect.Struct
		}
		return rt.Kind() == reflect.Struct
	}
	return false
}

// CheckShape compares the Go struct type with the schema struct, recursively: every
// schema field must exist in Go with a fitting type, and every Go field must be in
// the schema (except Version on top level structs and UnknownTags on structs that
// are flexible at some version).
func CheckShape(s *Struct, rt reflect.Type, br *Bridge) []string {
	var out []string
	var walk func(s *Struct, rt reflect.Type, path string)
	walk = func(s *Struct, rt reflect.Type, path string) {
		if rt.Kind() != reflect.Struct {
			out = append(out, fmt.Sprintf("%s: Go type %s is not a struct", path, rt))
			return
		}
		want := map[string]bool{}
		for _, f := range s.Fields {
			gn := br.goName(s, f)
			want[gn] = true
			sf, ok := rt.FieldByName(gn)
			if !ok {
				out = append(out, fmt.Sprintf("%s: definition field %s has no Go field in %s", path, f.Name, rt))
				continue
			}
			if !goKindOK(f.Type, sf.Type) {
				out = append(out, fmt.Sprintf("%s.%s: definition type %s does not fit Go type %s", path, f.Name, f.Type.Kind, sf.Type))
				continue
			}
			t, g := f.Type, sf.Type
			for t.Kind == KArray {
				t, g = t.Elem, g.Elem()
			}
			if t.Kind == KStruct {
				if g.Kind() == reflect.Pointer {
					g = g.Elem()
				}
				walk(t.Struct, g, path+"."+f.Name)
			}
		}
		if s.TopLevel && !s.Anonymous {
			want["Version"] = true
			if sf, ok := rt.FieldByName("Version"); !ok || sf.Type.Kind() != reflect.Int16 {
				out = append(out, fmt.Sprintf("%s: top level Go type %s lacks Version int16", path, rt))
			}
		}
		if s.FlexibleAt >= 0 {
			want["UnknownTags"] = true
			if sf, ok := rt.FieldByName("UnknownTags"); !ok || sf.Type != tagsType {
				out = append(out, fmt.Sprintf("%s: struct flexible from v%d but Go type %s lacks UnknownTags kmsg.Tags", path, s.FlexibleAt, rt))
			}
		}
		for i := 0; i < rt.NumField(); i++ {
			n := rt.Field(i).Name
			if !want[n] && !(br != nil && br.Extra[s.Name+"."+n]) {
				out = append(out, fmt.Sprintf("%s: Go field %s.%s is not in the definition", path, rt, n))
			}
		}
	}
	walk(s, rt, s.Name)
	return out
}

// ToTree converts the Go struct value rv (a struct, not a pointer) into the value
// tree of schema struct s at version v: only fields present at v appear; nil and
// empty are identified where the wire cannot tell them apart.
func ToTree(s *Struct, v int, rv reflect.Value, br *Bridge) (*Rec, error) {
	r := &Rec{}
	for _, f := range s.Fields {
		if !f.Present(s, v) {
			continue
		}
		fv := rv.FieldByName(br.goName(s, f))
		if !fv.IsValid() {
			return nil, fmt.Errorf("%s: no Go field %s", s.Name, f.Name)
		}
		n, err := nodeOf(f.Type, v, fv, br)
		if err != nil {
			return nil, fmt.Errorf("%s.%s: %w", s.Name, f.Name, err)
		}
		r.Fields = append(r.Fields, RecField{f.Name, n})
	}
	if s.Flexible(v) {
		r.Tags = UnknownTags(rv)
	}
	return r, nil
}

// UnknownTags returns the sorted unknown tags of a Go struct value (nil if the
// struct has no UnknownTags field or it is empty).
func UnknownTags(rv reflect.Value) []UTag {
	tv := rv.FieldByName("UnknownTags")
	if !tv.IsValid() || tv.Type() != tagsType {
		return nil
	}
	var tags kmsg.Tags
	if tv.CanAddr() {
		tags = *(tv.Addr().Interface().(*kmsg.Tags))
	} else {
		tags = tv.Interface().(kmsg.Tags)
	}
	var out []UTag
	tags.Each(func(k uint32, val []byte) { out = append(out, UTag{k, append([]byte{}, val...)}) })
	sort.Slice(out, func(i, j int) bool { return out[i].Key < out[j].Key })
	return out
}

func nodeOf(t *Type, v int, fv reflect.Value, br *Bridge) (Node, error) {
	if !goKindOK(t, fv.Type()) {
		return nil, fmt.Errorf("definition type %s does not fit Go type %s", t.Kind, fv.Type())
	}
	switch t.Kind {
	case KBool:
		return fv.Bool(), nil
	case KInt8, KInt16, KInt32, KInt64, KVarint, KVarlong:
		return fv.Int(), nil
	case KUint16, KUint32:
		return int64(fv.Uint()), nil
	case KFloat64:
		return F64(math.Float64bits(fv.Float())), nil
	case KUuid:
		var u [16]byte
		reflect.Copy(reflect.ValueOf(&u).Elem(), fv)
		return u, nil
	case KString:
		if t.EverNullable() {
			if fv.IsNil() {
				if t.Nullable(v) {
					return Null{}, nil
				}
				return "", nil // before the nullable version a nil pointer is written as ""
			}
			return fv.Elem().String(), nil
		}
		return fv.String(), nil
	case KVarintString:
		return fv.String(), nil
	case KBytes, KVarintBytes:
		if fv.IsNil() && t.Nullable(v) {
			return Null{}, nil
		}
		return append([]byte{}, fv.Bytes()...), nil
	case KLengthFieldMinus:
		return append([]byte{}, fv.Bytes()...), nil
	case KArray:
		if fv.IsNil() && t.Nullable(v) {
			return Null{}, nil
		}
		l := make(List, 0, fv.Len())
		for i := 0; i < fv.Len(); i++ {
			n, err := nodeOf(t.Elem, v, fv.Index(i), br)
			if err != nil {
				return nil, fmt.Errorf("[%d]: %w", i, err)
			}
			l = append(l, n)
		}
		return l, nil
	case KStruct:
		if t.EverNullable() {
			if fv.IsNil() {
				return Null{}, nil
			}
			fv = fv.Elem()
		}
		return ToTree(t.Struct, v, fv, br)
	}
	return nil, fmt.Errorf("kind %s not supported", t.Kind)
}

// NewDefault returns a pointer to a new Go value of struct type rt with its Default
// method applied (if it has one).
func NewDefault(rt reflect.Type) reflect.Value {
	p := reflect.New(rt)
	if m := p.MethodByName("Default"); m.IsValid() && m.Type().NumIn() == 0 {
		m.Call(nil)
	}
	return p
}

// CheckAbsent verifies that in the Go struct value rv every field that is NOT
// present at version v (by version range, or tagged/UnknownTags at a non-flexible
// version) equals the same field of a fresh Default() value of its struct type.
// Present nested structs and array elements are checked recursively.
func CheckAbsent(s *Struct, v int, rv reflect.Value, br *Bridge, path string) string {
	var def reflect.Value
	getDef := func() reflect.Value {
		if !def.IsValid() {
			def = NewDefault(rv.Type()).Elem()
		}
		return def
	}
	for _, f := range s.Fields {
		gn := br.goName(s, f)
		fv := rv.FieldByName(gn)
		if !fv.IsValid() {
			return fmt.Sprintf("%s: no Go field %s", path, gn)
		}
		if !f.Present(s, v) {
			if !reflect.DeepEqual(fv.Interface(), getDef().FieldByName(gn).Interface()) {
				return fmt.Sprintf("%s.%s is absent at version %d but is %v after decoding; Default() gives %v", path, f.Name, v, brief(fv), brief(getDef().FieldByName(gn)))
			}
			continue
		}
		if d := checkAbsentIn(f.Type, v, fv, br, path+"."+f.Name); d != "" {
			return d
		}
	}
	if !s.Flexible(v) {
		if n := len(UnknownTags(rv)); n > 0 {
			return fmt.Sprintf("%s: %d unknown tags at non-flexible version %d", path, n, v)
		}
	}
	return ""
}

func checkAbsentIn(t *Type, v int, fv reflect.Value, br *Bridge, path string) string {
	switch t.Kind {
	case KArray:
		if t.Elem.Kind != KStruct && t.Elem.Kind != KArray {
			return ""
		}
		for i := 0; i < fv.Len(); i++ {
			if d := checkAbsentIn(t.Elem, v, fv.Index(i), br, fmt.Sprintf("%s[%d]", path, i)); d != "" {
				return d
			}
		}
	case KStruct:
		if fv.Kind() == reflect.Pointer {
			if fv.IsNil() {
				return ""
			}
			fv = fv.Elem()
		}
		return CheckAbsent(t.Struct, v, fv, br, path)
	}
	return ""
}

func brief(v reflect.Value) string {
	s := fmt.Sprintf("%#v", v.Interface())
	if len(s) > 120 {
		s = s[:120] + "..."
	}
	return s
}

// CheckDefaults verifies that a fresh Default() value of the Go type matches the
// schema defaults at every version in versions: each present field's tree node
// equals DefaultNode. (Absent fields are compared with Default() by CheckAbsent.)
func CheckDefaults(s *Struct, rt reflect.Type, versions []int, br *Bridge) []string {
	var out []string
	for _, v := range versions {
		d := NewDefault(rt).Elem()
		got, err := ToTree(s, v, d, br)
		if err != nil {
			out = append(out, err.Error())
			continue
		}
		want := DefaultRec(s, v)
		if s.WithVersionField {
			// the Version field has no default of its own
			if n, ok := got.Get("Version"); ok {
				want.Set("Version", n)
			}
		}
		if df := Diff(want, got, s.Name); df != "" {
			out = append(out, fmt.Sprintf("Default() of %s at version %d differs from the definition defaults (definition vs Go): %s", s.Name, v, df))
		}
	}
	return out
}

// MaxElemSize returns the largest reflect size of any slice element type reachable
// from rt (at least 16), and the maximum slice nesting depth.
func MaxElemSize(rt reflect.Type) (size uintptr, depth int) {
	size = 16
	seen := map[reflect.Type]bool{}
	var walk func(t reflect.Type, d int)
	walk = func(t reflect.Type, d int) {
		switch t.Kind() {
		case reflect.Pointer:
			if t.Elem().Size() > size {
				size = t.Elem().Size()
			}
			walk(t.Elem(), d)
		case reflect.Slice:
			if t.Elem().Size() > size {
				size = t.Elem().Size()
			}
			if d+1 > depth {
				depth = d + 1
			}
			walk(t.Elem(), d+1)
		case reflect.Struct:
			if seen[t] {
				return
			}
			seen[t] = true
			for i := 0; i < t.NumField(); i++ {
				walk(t.Field(i).Type, d)
			}
			seen[t] = false
		}
	}
	if rt.Size() > size {
		size = rt.Size()
	}
	walk(rt, 0)
	return
}
