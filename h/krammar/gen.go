package krammar

import (
	"fmt"
	"math"
	"reflect"

	"github.com/twmb/franz-go/pkg/kmsg"
	"pgregory.net/rapid"
)

// Generation modes.
const (
	ModeMinimal = 0 // every nullable null, arrays empty, tagged fields default, no unknown tags
	ModeEmpty   = 1 // nullables non-null but empty, tagged fields default, one empty unknown tag
	ModeFull    = 2 // everything non-null and non-empty, tagged fields non-default, unknown tags
	ModeRandom  = 3 // every decision drawn
	NumModes    = 4
)

// Gen fills Go values by reflection under schema guidance. Every choice is drawn
// from T.
type Gen struct {
	T     *rapid.T
	Mode  int
	Br    *Bridge
	Class func(string)
	// SetAbsent: also give values to fields that are absent at the version.
	SetAbsent bool
	// NoAbsent forbids SetAbsent (types whose encoding infers the version from values).
	budget  int
	bigLeft int
	inBig   int
}

// NewGen returns a generator for one value.
func NewGen(t *rapid.T, mode int, br *Bridge, class func(string)) *Gen {
	g := &Gen{T: t, Mode: mode, Br: br, Class: class, budget: 120, bigLeft: 1}
	_ = rapid.Byte().Draw(t, "salt") // a value without fields still has to consume data
	if class == nil {
		g.Class = func(string) {}
	}
	switch mode {
	case ModeFull:
		g.SetAbsent = true
	case ModeRandom:
		g.SetAbsent = rapid.Bool().Draw(t, "setAbsent")
		g.bigLeft = rapid.IntRange(0, 2).Draw(t, "bigLeft")
	default:
		g.bigLeft = 0
	}
	return g
}

func (g *Gen) intn(label string, lo, hi int) int {
	if hi <= lo {
		return lo
	}
	return rapid.IntRange(lo, hi).Draw(g.T, label)
}

func (g *Gen) chance(label string, percent int) bool {
	return rapid.IntRange(0, 99).Draw(g.T, label) < percent
}

var boundaryLens = []int{126, 127, 128, 129, 16382, 16383, 16384, 16385}

// pattern returns n bytes that are a pure function of (n, a, b).
func pattern(n int, a, b byte) []byte {
	out := make([]byte, n)
	x := uint32(a)<<8 | uint32(b) | 1
	for i := range out {
		x = x*1664525 + 1013904223
		out[i] = byte(x >> 24)
	}
	return out
}

// blob draws the content of a string/bytes value of a drawn length category.
// It returns (content, isNull).
func (g *Gen) blob(nullable bool, what string) ([]byte, bool) {
	cat := 0 // 0 null, 1 empty, 2 small, 3 boundary
	switch g.Mode {
	case ModeMinimal:
		cat = 0
		if !nullable {
			cat = 1
		}
	case ModeEmpty:
		cat = 1
	case ModeFull:
		cat = 2
	default:
		r := g.intn(what+"Cat", 0, 99)
		switch {
		case r < 20 && nullable:
			cat = 0
		case r < 35:
			cat = 1
		case r < 97 || g.bigLeft == 0 || g.inBig > 0:
			cat = 2
		default:
			cat = 3
		}
	}
	switch cat {
	case 0:
		g.Class(what + "_null")
		return nil, true
	case 1:
		g.Class(what + "_empty")
		return []byte{}, false
	case 2:
		g.Class(what + "_small")
		n := g.intn(what+"Len", 1, 9)
		return rapid.SliceOfN(rapid.Byte(), n, n).Draw(g.T, what), false
	}
	g.bigLeft--
	n := boundaryLens[g.intn(what+"Boundary", 0, len(boundaryLens)-1)]
	g.Class(fmt.Sprintf("%s_len_%d", what, n))
	return pattern(n, rapid.Byte().Draw(g.T, "pa"), rapid.Byte().Draw(g.T, "pb")), false
}

func (g *Gen) int64For(bits int, unsigned bool) int64 {
	var lo, hi int64
	if unsigned {
		lo, hi = 0, int64(uint64(1)<<uint(bits)-1)
	} else {
		lo, hi = -(int64(1) << uint(bits-1)), int64(1)<<uint(bits-1)-1
	}
	r := g.intn("intCat", 0, 9)
	switch {
	case r < 1:
		return lo
	case r < 2:
		return hi
	case r < 3:
		if unsigned {
			return 1
		}
		return -1
	case r < 4:
		return 0
	case r < 6:
		sm := int64(rapid.IntRange(-130, 130).Draw(g.T, "smallInt"))
		if sm < lo {
			sm = lo
		}
		if sm > hi {
			sm = hi
		}
		return sm
	}
	return rapid.Int64Range(lo, hi).Draw(g.T, "int")
}

var floatSamples = []float64{0, math.Copysign(0, -1), 1, -1, math.Inf(1), math.Inf(-1), math.NaN(), math.MaxFloat64, math.SmallestNonzeroFloat64, 3.14}

// Fill gives values to the fields of Go struct rv (addressable, holding Default())
// for schema struct s at version v.
func (g *Gen) Fill(s *Struct, v int, rv reflect.Value) {
	var lfm []*Field
	for _, f := range s.Fields {
		present := f.Present(s, v)
		if !present && !g.SetAbsent {
			continue
		}
		if s.WithVersionField && !s.Anonymous && f.Name == "Version" {
			continue // set by the caller
		}
		fv := rv.FieldByName(g.Br.goName(s, f))
		if !fv.IsValid() || !goKindOK(f.Type, fv.Type()) {
			continue // reported by CheckShape
		}
		if f.Tag >= 0 && present {
			nondef := false
			switch g.Mode {
			case ModeFull:
				nondef = true
			case ModeRandom:
				nondef = g.chance("tagNonDefault", 60)
			}
			if !nondef {
				g.Class("tagged_left_default")
				continue
			}
			g.Class("tagged_given_value")
		}
		if f.Type.Kind == KLengthFieldMinus {
			lfm = append(lfm, f)
		}
		g.value(f.Type, v, fv)
	}
	for _, f := range lfm {
		n := rv.FieldByName(g.Br.goName(s, f)).Len()
		if lf := s.Field(f.Type.LenField); lf != nil {
			rv.FieldByName(g.Br.goName(s, lf)).SetInt(int64(n + f.Type.LenMinus))
		}
	}
	if s.FlexibleAt >= 0 && (s.Flexible(v) || g.SetAbsent) {
		g.unknownTags(s, v, rv)
	}
}

func (g *Gen) unknownTags(s *Struct, v int, rv reflect.Value) {
	tv := rv.FieldByName("UnknownTags")
	if !tv.IsValid() || tv.Type() != tagsType || !tv.CanAddr() {
		return
	}
	n := 0
	switch g.Mode {
	case ModeEmpty:
		n = 1
	case ModeFull:
		n = g.intn("nUnknown", 1, 3)
	case ModeRandom:
		if g.chance("hasUnknown", 40) {
			n = g.intn("nUnknown", 1, 3)
		}
	}
	if g.inBig > 0 && n > 1 {
		n = 1
	}
	if s.Flexible(v) {
		g.Class(fmt.Sprintf("unknown_tags_%d", n))
	}
	if n == 0 {
		return
	}
	base := uint32(len(s.Tags()))
	cands := []uint32{base, base + 1, base + 2, base + 7, 127, 128, 16383, 16384, 1 << 28, math.MaxUint32}
	tags := tv.Addr().Interface().(*kmsg.Tags)
	used := map[uint32]bool{}
	for i := 0; i < n; i++ {
		k := cands[g.intn("tagKey", 0, len(cands)-1)]
		if k < base || used[k] {
			k = base + uint32(i)
			if used[k] {
				continue
			}
		}
		used[k] = true
		var val []byte
		switch {
		case g.Mode == ModeEmpty:
			val = []byte{}
		case g.Mode == ModeRandom && g.inBig == 0 && g.chance("bigTagVal", 4):
			val = pattern(127+g.intn("tagValBig", 0, 1), byte(k), 7)
		default:
			ln := g.intn("tagValLen", 0, 6)
			val = rapid.SliceOfN(rapid.Byte(), ln, ln).Draw(g.T, "tagVal")
		}
		tags.Set(k, val)
	}
}

func (g *Gen) arrayLen(t *Type, v int) (n int, null bool) {
	nullable := t.Nullable(v)
	switch g.Mode {
	case ModeMinimal:
		g.Class(map[bool]string{true: "array_null", false: "array_empty"}[nullable])
		return 0, nullable
	case ModeEmpty:
		g.Class("array_empty")
		return 0, false
	case ModeFull:
		g.Class("array_nonempty")
		if g.budget <= 0 {
			return 1, false
		}
		return g.intn("arrLen", 1, 2), false
	}
	r := g.intn("arrCat", 0, 99)
	switch {
	case r < 15 && nullable:
		g.Class("array_null")
		return 0, true
	case r < 30 || g.budget <= 0:
		g.Class("array_empty")
		return 0, false
	case r >= 97 && g.bigLeft > 0 && g.inBig == 0:
		g.bigLeft--
		n = g.intn("arrBig", 126, 130)
		g.Class(fmt.Sprintf("array_len_%d", n))
		return n, false
	}
	g.Class("array_nonempty")
	max := 3
	if g.inBig > 0 {
		max = 1
	}
	return g.intn("arrLen", 1, max), false
}

func (g *Gen) value(t *Type, v int, fv reflect.Value) {
	switch t.Kind {
	case KBool:
		fv.SetBool(rapid.Bool().Draw(g.T, "bool"))
	case KInt8:
		fv.SetInt(g.int64For(8, false))
	case KInt16:
		fv.SetInt(g.int64For(16, false))
	case KInt32, KVarint:
		fv.SetInt(g.int64For(32, false))
	case KInt64, KVarlong:
		fv.SetInt(g.int64For(64, false))
	case KUint16:
		fv.SetUint(uint64(g.int64For(16, true)))
	case KUint32:
		fv.SetUint(uint64(g.int64For(32, true)))
	case KFloat64:
		if g.chance("floatSample", 50) {
			fv.SetFloat(floatSamples[g.intn("floatIdx", 0, len(floatSamples)-1)])
		} else {
			f := math.Float64frombits(rapid.Uint64().Draw(g.T, "floatBits"))
			if f != f {
				f = math.NaN()
			}
			fv.SetFloat(f)
		}
	case KUuid:
		if g.chance("uuidZero", 20) {
			fv.SetZero()
		} else {
			b := rapid.SliceOfN(rapid.Byte(), 16, 16).Draw(g.T, "uuid")
			reflect.Copy(fv, reflect.ValueOf(b))
		}
	case KString:
		b, null := g.blob(t.Nullable(v) || (t.EverNullable() && g.Mode == ModeRandom), "string")
		if t.EverNullable() {
			if null {
				fv.SetZero()
			} else {
				s := string(b)
				fv.Set(reflect.ValueOf(&s))
			}
		} else {
			fv.SetString(string(b))
		}
	case KVarintString:
		b, _ := g.blob(false, "string")
		fv.SetString(string(b))
	case KBytes, KVarintBytes:
		b, null := g.blob(t.Nullable(v), "bytes")
		if null {
			fv.SetZero()
		} else {
			fv.SetBytes(b)
		}
	case KLengthFieldMinus:
		b, _ := g.blob(false, "bytes")
		fv.SetBytes(b)
	case KArray:
		n, null := g.arrayLen(t, v)
		if null {
			fv.SetZero()
			return
		}
		if n == 0 && !t.Nullable(v) && g.chance("nilEmpty", 50) {
			fv.SetZero() // nil and empty are the same non-nullable value
			return
		}
		sl := reflect.MakeSlice(fv.Type(), n, n)
		big := n > 100
		if big {
			g.inBig++
		} else {
			g.budget -= n
		}
		for i := 0; i < n; i++ {
			el := sl.Index(i)
			if t.Elem.Kind == KStruct && !t.Elem.EverNullable() {
				if m := el.Addr().MethodByName("Default"); m.IsValid() {
					m.Call(nil)
				}
			}
			g.value(t.Elem, v, el)
		}
		if big {
			g.inBig--
		}
		fv.Set(sl)
	case KStruct:
		if t.EverNullable() {
			null := false
			switch g.Mode {
			case ModeMinimal:
				null = true
			case ModeRandom:
				null = g.chance("structNull", 30)
			}
			if null {
				g.Class("struct_null")
				fv.SetZero()
				return
			}
			g.Class("struct_present")
			p := NewDefault(fv.Type().Elem())
			g.Fill(t.Struct, v, p.Elem())
			fv.Set(p)
			return
		}
		g.Fill(t.Struct, v, fv)
	}
}
