package krammar

import (
	"fmt"
	"path/filepath"
	"reflect"
	"sort"

	"github.com/twmb/franz-go/pkg/kmsg"
	"pgregory.net/rapid"
)

// Binding ties one schema struct to its generated Go type.
type Binding struct {
	Name string
	S    *Struct
	// New returns a pointer to a fresh Go value with Default() applied.
	New  func() any
	Type reflect.Type // the struct type (not the pointer)
	Br   *Bridge
	// Kind is "request", "response" or "standalone".
	Kind string
	// NoAbsent: values must not carry data in fields absent at the version, because
	// the hand-written encoder infers the version from the values.
	NoAbsent bool
	// Fixup adjusts a generated value so that it is a legal input at the version.
	Fixup func(rv reflect.Value, version int)
	// NoVersion: the Go type has no version of its own on the wire or in a field; the
	// decoder infers it (StickyMemberMetadata).
	InferredVersion bool
}

// Codec is what every bound Go type implements.
type Codec interface {
	AppendTo([]byte) []byte
	ReadFrom([]byte) error
}

type UnsafeCodec interface {
	UnsafeReadFrom([]byte) error
}

// Versions lists the versions the binding is exercised at.
func (b *Binding) Versions() []int { return b.S.Versions() }

// SetVersion sets the version on a Go value returned by New.
func (b *Binding) SetVersion(p any, v int) {
	if sv, ok := p.(interface{ SetVersion(int16) }); ok {
		sv.SetVersion(int16(v))
		return
	}
	if b.S.WithVersionField {
		reflect.ValueOf(p).Elem().FieldByName("Version").SetInt(int64(v))
	}
}

// Generate draws one Go value for version v in the given mode.
func (b *Binding) Generate(t *rapid.T, v, mode int, class func(string)) any {
	p := b.New()
	g := NewGen(t, mode, b.Br, class)
	if b.NoAbsent {
		g.SetAbsent = false
	}
	g.Fill(b.S, v, reflect.ValueOf(p).Elem())
	b.SetVersion(p, v)
	if b.Fixup != nil {
		b.Fixup(reflect.ValueOf(p).Elem(), v)
	}
	return p
}

// Tree returns the value tree of Go value p (pointer) at version v.
func (b *Binding) Tree(p any, v int) (*Rec, error) {
	return ToTree(b.S, v, reflect.ValueOf(p).Elem(), b.Br)
}

// Load parses the definitions of the repository at repo.
func Load(repo string) (*Schema, error) {
	return ParseDir(filepath.Join(repo, "generate", "definitions"))
}

// Bind matches the registry of Go types (name -> constructor) with the schema. It
// returns the bindings sorted by name and a list of mismatches (a definition without
// a Go type, a Go type without a definition, key table disagreements).
func Bind(sc *Schema, types map[string]func() any) ([]*Binding, []string) {
	var problems []string
	var out []*Binding
	names := make([]string, 0, len(types))
	for n := range types {
		names = append(names, n)
	}
	sort.Strings(names)
	bound := map[string]bool{}
	for _, n := range names {
		s, ok := sc.Structs[n]
		b := &Binding{Name: n, New: types[n], Kind: "standalone"}
		if !ok {
			if cs, ok2 := sc.Commented[n]; ok2 && n == "Record" {
				// record.go: "manually managed because of the varint => varlong switch";
				// the commented-out definition is the one the hand-written code follows,
				// with TimestampDelta carried in TimestampDelta64 (TimestampDelta is the
				// legacy int32 copy).
				s = cs
				b.Br = &Bridge{Alias: map[string]string{"Record.TimestampDelta": "TimestampDelta64"}, Extra: map[string]bool{"Record.TimestampDelta": true}}
				b.Fixup = func(rv reflect.Value, _ int) {
					rv.FieldByName("TimestampDelta").SetInt(int64(int32(rv.FieldByName("TimestampDelta64").Int())))
				}
			} else {
				problems = append(problems, fmt.Sprintf("Go type kmsg.%s has AppendTo/ReadFrom but no definition", n))
				continue
			}
		}
		if s.NoEncoding {
			if n != "StickyMemberMetadata" {
				problems = append(problems, fmt.Sprintf("Go type kmsg.%s has AppendTo/ReadFrom but its definition says 'no encoding'", n))
				continue
			}
			// api.go: hand-written codec; the version is inferred: Generation != -1
			// encodes as v1, trailing bytes decode as v1.
			b.NoAbsent, b.InferredVersion = true, true
			b.Fixup = func(rv reflect.Value, v int) {
				g := rv.FieldByName("Generation")
				if v == 0 {
					g.SetInt(-1)
				} else if g.Int() == -1 {
					g.SetInt(0)
				}
			}
		}
		b.S = s
		p := b.New()
		b.Type = reflect.TypeOf(p).Elem()
		if _, ok := p.(Codec); !ok {
			problems = append(problems, fmt.Sprintf("registry entry %s does not implement AppendTo/ReadFrom", n))
			continue
		}
		switch p.(type) {
		case kmsg.Request:
			b.Kind = "request"
		case kmsg.Response:
			b.Kind = "response"
		}
		if (b.Kind == "request") != s.IsRequest || (b.Kind == "response") != s.IsResponse {
			problems = append(problems, fmt.Sprintf("%s: Go type is a %s but the definition says request=%v response=%v", n, b.Kind, s.IsRequest, s.IsResponse))
		}
		bound[s.Name] = true
		out = append(out, b)
	}
	for _, n := range sc.Order {
		s := sc.Structs[n]
		if !bound[n] && !s.NoEncoding {
			problems = append(problems, fmt.Sprintf("definition %s (%s) has no Go type with AppendTo/ReadFrom", n, s.File))
		}
	}
	// key table: kmsg.RequestForKey / ResponseForKey against the definitions
	byKey := map[int]*Struct{}
	maxKey := 0
	for _, n := range sc.Order {
		if s := sc.Structs[n]; s.IsRequest {
			byKey[s.Key] = s
			if s.Key > maxKey {
				maxKey = s.Key
			}
		}
	}
	for k := -1; k <= maxKey+64; k++ {
		rq, rs := kmsg.RequestForKey(int16(k)), kmsg.ResponseForKey(int16(k))
		s := byKey[k]
		switch {
		case s == nil && (rq != nil || rs != nil):
			problems = append(problems, fmt.Sprintf("kmsg.RequestForKey/ResponseForKey(%d) returns a type but no definition has that key", k))
		case s != nil && (rq == nil || rs == nil):
			problems = append(problems, fmt.Sprintf("definition %s has key %d but kmsg.RequestForKey/ResponseForKey return nil", s.Name, k))
		case s != nil:
			if got := reflect.TypeOf(rq).Elem().Name(); got != s.Name {
				problems = append(problems, fmt.Sprintf("key %d: RequestForKey gives %s, definition says %s", k, got, s.Name))
			}
			want := s.Name[:len(s.Name)-len("Request")] + "Response"
			if got := reflect.TypeOf(rs).Elem().Name(); got != want {
				problems = append(problems, fmt.Sprintf("key %d: ResponseForKey gives %s, definition says %s", k, got, want))
			}
			if int(rq.Key()) != k || int(rs.Key()) != k {
				problems = append(problems, fmt.Sprintf("key %d: Key() methods return %d / %d", k, rq.Key(), rs.Key()))
			}
			if int(rq.MaxVersion()) != s.MaxVersion || int(rs.MaxVersion()) != s.MaxVersion {
				problems = append(problems, fmt.Sprintf("%s: definition max version %d, MaxVersion() %d / %d", s.Name, s.MaxVersion, rq.MaxVersion(), rs.MaxVersion()))
			}
		}
	}
	return out, problems
}

// Cell is one (type, version) point of the grid.
type Cell struct {
	B *Binding
	V int
}

// Grid enumerates every (binding, version) pair in a fixed order.
func Grid(bs []*Binding) []Cell {
	var out []Cell
	for _, b := range bs {
		for _, v := range b.Versions() {
			out = append(out, Cell{b, v})
		}
	}
	return out
}

// Nontrivial reports whether the cell meets the C15 rule: at this version some field
// is absent or tagged, or the layout differs from a neighbouring version.
func (c Cell) Nontrivial() bool {
	s := c.B.S
	if s.HasAbsentOrTagged(c.V) {
		return true
	}
	sh := s.Shape(c.V)
	if c.V > 0 && s.Shape(c.V-1) != sh {
		return true
	}
	if c.V < s.MaxVersion && s.Shape(c.V+1) != sh {
		return true
	}
	return false
}

// CheckNoEncoding looks at the named definitions that say 'no encoding' and have no
// codec of their own (they are encoded only as part of the types that embed them):
// each must have a Go struct type (goStructs lists all exported kmsg struct types) and
// is covered by the grid only if a bound definition refers to it. It returns
// definition/type mismatches, the names embedded by at least one bound type, and the
// names no bound type refers to.
func CheckNoEncoding(sc *Schema, binds []*Binding, goStructs []string) (problems, embedded, unreferenced []string) {
	have := map[string]bool{}
	for _, n := range goStructs {
		have[n] = true
	}
	reach := map[*Struct]bool{}
	var walkS func(s *Struct)
	var walkT func(t *Type)
	walkT = func(t *Type) {
		if t == nil {
			return
		}
		walkT(t.Elem)
		if t.Struct != nil {
			walkS(t.Struct)
		}
	}
	walkS = func(s *Struct) {
		if reach[s] {
			return
		}
		reach[s] = true
		for _, f := range s.Fields {
			walkT(f.Type)
		}
	}
	bound := map[*Struct]bool{}
	for _, b := range binds {
		bound[b.S] = true
		walkS(b.S)
	}
	for _, n := range sc.Order {
		s := sc.Structs[n]
		if !s.NoEncoding || bound[s] {
			continue
		}
		if !have[n] {
			problems = append(problems, fmt.Sprintf("definition %s (%s, no encoding) has no Go struct type kmsg.%s", n, s.File, n))
		}
		if reach[s] {
			embedded = append(embedded, n)
		} else {
			unreferenced = append(unreferenced, n)
		}
	}
	return
}
