package krammar

import (
	"fmt"
	"os"
	"path/filepath"
	"regexp"
	"sort"
	"strconv"
	"strings"
)

var (
	reHeader   = regexp.MustCompile(`^([A-Za-z][A-Za-z0-9]*) =>(?: (.+))?$`)
	reSpecial  = regexp.MustCompile(`^(ThrottleMillis|TimeoutMillis)(?:\((\d+)\))?$`)
	reField    = regexp.MustCompile(`^([A-Za-z][A-Za-z0-9]*): (.+)$`)
	reDefault  = regexp.MustCompile(`^(.*[^(])\(([^()]*)\)$`)
	reLFM      = regexp.MustCompile(`^length-field-minus => ([A-Za-z][A-Za-z0-9]*) - (\d+)$`)
	reVPlus    = regexp.MustCompile(`^v(\d+)\+$`)
	reVRange   = regexp.MustCompile(`^v(\d+)-v(\d+)$`)
	reTag      = regexp.MustCompile(`^tag (\d+)$`)
	reNullStrV = regexp.MustCompile(`^nullable-string-v(\d+)\+$`)
	reNullArrV = regexp.MustCompile(`^nullable-v(\d+)\+\[(.*)\]$`)
	reEnumHead = regexp.MustCompile(`^([A-Za-z][A-Za-z0-9]*) ([a-z0-9]+)( camelcase)? \($`)
	reEnumVal  = regexp.MustCompile(`^  (-?\d+): ([A-Za-z0-9_]+)$`)
	reIdent    = regexp.MustCompile(`^[A-Za-z][A-Za-z0-9]*$`)
)

var primitives = map[string]Kind{
	"bool": KBool, "int8": KInt8, "int16": KInt16, "uint16": KUint16, "int32": KInt32,
	"int64": KInt64, "float64": KFloat64, "uint32": KUint32, "varint": KVarint,
	"varlong": KVarlong, "uuid": KUuid, "string": KString, "bytes": KBytes,
	"varint-string": KVarintString, "varint-bytes": KVarintBytes,
}

// ParseDir parses <repo>/generate/definitions.
func ParseDir(dir string) (*Schema, error) {
	ents, err := os.ReadDir(dir)
	if err != nil {
		return nil, err
	}
	var names []string
	for _, e := range ents {
		if !e.IsDir() {
			names = append(names, e.Name())
		}
	}
	sort.Strings(names)
	sc := &Schema{Structs: map[string]*Struct{}, Enums: map[string]*Enum{}, Commented: map[string]*Struct{}}
	for _, n := range names {
		raw, err := os.ReadFile(filepath.Join(dir, n))
		if err != nil {
			return nil, err
		}
		lines := strings.Split(strings.ReplaceAll(string(raw), "\r\n", "\n"), "\n")
		if n == "enums" {
			sc.parseEnums(n, lines)
			continue
		}
		sc.parseStructs(n, lines, false)
		// commented-out definitions: a block of comment lines whose first line, with
		// the "// " prefix removed, is a struct header and whose following lines are
		// indented field lines.
		sc.parseCommented(n, lines)
	}
	sc.resolve()
	sc.lint()
	return sc, nil
}

func (sc *Schema) problem(format string, a ...any) {
	sc.Problems = append(sc.Problems, fmt.Sprintf(format, a...))
}

func (sc *Schema) parseEnums(file string, lines []string) {
	var cur *Enum
	for i, l := range lines {
		switch {
		case l == "" || strings.HasPrefix(strings.TrimSpace(l), "//"):
		case cur == nil:
			m := reEnumHead.FindStringSubmatch(l)
			if m == nil {
				sc.problem("%s:%d: cannot parse enum header %q", file, i+1, l)
				continue
			}
			k, ok := primitives[m[2]]
			if !ok || !k.IsInt() {
				sc.problem("%s:%d: enum %s has non-integer base %q", file, i+1, m[1], m[2])
			}
			cur = &Enum{Name: m[1], Base: k, CamelCase: m[3] != "", Values: map[int64]string{}}
		case l == ")":
			sc.Enums[cur.Name] = cur
			cur = nil
		default:
			m := reEnumVal.FindStringSubmatch(l)
			if m == nil {
				sc.problem("%s:%d: cannot parse enum value %q", file, i+1, l)
				continue
			}
			n, _ := strconv.ParseInt(m[1], 10, 64)
			cur.Values[n] = m[2]
		}
	}
	if cur != nil {
		sc.problem("%s: unterminated enum %s", file, cur.Name)
	}
}

func (sc *Schema) parseCommented(file string, lines []string) {
	for i := 0; i < len(lines); i++ {
		l := lines[i]
		if !strings.HasPrefix(l, "// ") || !reHeader.MatchString(l[3:]) {
			continue
		}
		// must be followed by at least one commented field line
		j := i + 1
		var block []string
		block = append(block, l[3:])
		for j < len(lines) && strings.HasPrefix(lines[j], "//   ") {
			block = append(block, lines[j][3:])
			j++
		}
		if len(block) < 2 {
			continue
		}
		tmp := &Schema{Structs: map[string]*Struct{}, Enums: sc.Enums, Commented: map[string]*Struct{}}
		tmp.parseStructs(file, block, true)
		for _, n := range tmp.Order {
			s := tmp.Structs[n]
			s.FromComment = true
			sc.Commented[n] = s
		}
		for _, p := range tmp.Problems {
			sc.problem("(commented block) %s", p)
		}
		i = j
	}
}

func (sc *Schema) parseStructs(file string, lines []string, commented bool) {
	var stack []*Struct
	var top, prevTop *Struct
	end := func() {
		if top != nil {
			prevTop = top
		}
		top, stack = nil, nil
	}
	for i, l := range lines {
		where := fmt.Sprintf("%s:%d", file, i+1)
		if l == "" {
			end()
			continue
		}
		if strings.HasSuffix(l, " ") {
			sc.problem("%s: trailing space", where)
			l = strings.TrimRight(l, " ")
		}
		if l[0] != ' ' {
			if strings.HasPrefix(l, "//") {
				continue
			}
			m := reHeader.FindStringSubmatch(l)
			if m == nil {
				sc.problem("%s: cannot parse line %q", where, l)
				continue
			}
			if top != nil {
				sc.problem("%s: struct %s starts without a blank line after %s", where, m[1], top.Name)
				end()
			}
			top = &Struct{Name: m[1], File: file, FlexibleAt: -1, Key: -1}
			sc.header(where, top, m[2], prevTop)
			if _, dup := sc.Structs[top.Name]; dup {
				sc.problem("%s: struct %s defined twice", where, top.Name)
			}
			sc.Structs[top.Name] = top
			sc.Order = append(sc.Order, top.Name)
			stack = []*Struct{top}
			continue
		}
		if top == nil {
			sc.problem("%s: field line outside a struct: %q", where, l)
			continue
		}
		ind := len(l) - len(strings.TrimLeft(l, " "))
		body := l[ind:]
		if strings.HasPrefix(body, "//") {
			continue
		}
		if ind%2 != 0 {
			sc.problem("%s: odd indentation", where)
			continue
		}
		depth := ind / 2
		if depth > len(stack) {
			sc.problem("%s: field nested deeper than any open struct: %q", where, l)
			continue
		}
		stack = stack[:depth]
		owner := stack[depth-1]
		f, opened := sc.field(where, body, top, owner)
		if f == nil {
			continue
		}
		f.Line = where + ": " + body
		if owner.Field(f.Name) != nil {
			sc.problem("%s: duplicate field %s in %s", where, f.Name, owner.Name)
		}
		owner.Fields = append(owner.Fields, f)
		if opened != nil {
			stack = append(stack, opened)
		}
	}
	end()
}

func (sc *Schema) header(where string, s *Struct, mods string, prev *Struct) {
	if mods == "" {
		// a response: must follow its request
		s.TopLevel, s.IsResponse = true, true
		want := strings.TrimSuffix(s.Name, "Response") + "Request"
		if !strings.HasSuffix(s.Name, "Response") || prev == nil || prev.Name != want || !prev.IsRequest {
			sc.problem("%s: %s has no modifiers but does not follow request %s", where, s.Name, want)
			return
		}
		s.Key, s.MaxVersion, s.FlexibleAt = prev.Key, prev.MaxVersion, prev.FlexibleAt
		return
	}
	parts := strings.Split(mods, ", ")
	s.Modifiers = parts
	notTop := false
	haveMax := false
	for _, p := range parts {
		switch {
		case p == "not top level":
			notTop = true
		case p == "with version field":
			s.WithVersionField = true
		case p == "no encoding":
			s.NoEncoding = true
		case strings.HasPrefix(p, "key "):
			n, err := strconv.Atoi(p[4:])
			if err != nil {
				sc.problem("%s: bad key %q", where, p)
			}
			s.Key = n
		case strings.HasPrefix(p, "max version "):
			n, err := strconv.Atoi(p[len("max version "):])
			if err != nil {
				sc.problem("%s: bad max version %q", where, p)
			}
			s.MaxVersion, haveMax = n, true
		case strings.HasPrefix(p, "flexible v") && strings.HasSuffix(p, "+"):
			n, err := strconv.Atoi(p[len("flexible v") : len(p)-1])
			if err != nil {
				sc.problem("%s: bad flexible version %q", where, p)
			}
			s.FlexibleAt = n
		case p == "admin", p == "group coordinator", p == "txn coordinator", p == "share coordinator":
		default:
			sc.problem("%s: unknown modifier %q on %s", where, p, s.Name)
		}
	}
	if notTop {
		if parts[0] != "not top level" {
			sc.problem("%s: 'not top level' must be the first modifier", where)
		}
		if s.Key >= 0 || haveMax {
			sc.problem("%s: non-top-level struct %s has key/max version", where, s.Name)
		}
		if s.WithVersionField && s.NoEncoding {
			sc.problem("%s: %s is both 'with version field' and 'no encoding'", where, s.Name)
		}
		return
	}
	s.TopLevel, s.IsRequest = true, true
	if s.Key < 0 || !haveMax {
		sc.problem("%s: request %s lacks key or max version", where, s.Name)
	}
	if !strings.HasSuffix(s.Name, "Request") {
		sc.problem("%s: top level struct %s with modifiers is not named *Request", where, s.Name)
	}
	if s.WithVersionField || s.NoEncoding {
		sc.problem("%s: top level struct %s has a non-top-level modifier", where, s.Name)
	}
}

// field parses one field line (already unindented). It returns the field and, if
// the field's type opens an anonymous struct, that struct.
func (sc *Schema) field(where, body string, top, owner *Struct) (*Field, *Struct) {
	f := &Field{MinV: 0, MaxV: -1, Tag: -1, SpecialArg: -1}
	left := body
	if i := strings.Index(body, " // "); i >= 0 {
		left = body[:i]
		for _, p := range strings.Split(body[i+4:], ", ") {
			if m := reVPlus.FindStringSubmatch(p); m != nil {
				f.MinV, _ = strconv.Atoi(m[1])
				f.HasVersion = true
			} else if m := reVRange.FindStringSubmatch(p); m != nil {
				f.MinV, _ = strconv.Atoi(m[1])
				f.MaxV, _ = strconv.Atoi(m[2])
				f.HasVersion = true
				if f.MaxV < f.MinV {
					sc.problem("%s: empty version range %q", where, p)
				}
			} else if m := reTag.FindStringSubmatch(p); m != nil {
				f.Tag, _ = strconv.Atoi(m[1])
			} else {
				sc.problem("%s: cannot parse version comment %q", where, p)
			}
		}
	} else if strings.Contains(body, "//") {
		sc.problem("%s: malformed trailing comment in %q", where, body)
	}
	if m := reSpecial.FindStringSubmatch(left); m != nil {
		f.Name = m[1]
		f.Type = &Type{Kind: KInt32, NullableFrom: NotNullable}
		if m[2] != "" {
			f.SpecialArg, _ = strconv.Atoi(m[2])
		}
		if m[1] == "ThrottleMillis" {
			f.Special = Throttle
		} else {
			f.Special = Timeout
			// the README: the number overrides the default timeout of 15000 ms
			f.HasDefault, f.Default = true, "15000"
			if m[2] != "" {
				f.Default = m[2]
			}
		}
		return f, nil
	}
	m := reField.FindStringSubmatch(left)
	if m == nil {
		sc.problem("%s: cannot parse field line %q", where, body)
		return nil, nil
	}
	f.Name = m[1]
	typ := m[2]
	if lm := reLFM.FindStringSubmatch(typ); lm != nil {
		n, _ := strconv.Atoi(lm[2])
		f.Type = &Type{Kind: KLengthFieldMinus, NullableFrom: NotNullable, LenField: lm[1], LenMinus: n}
		return f, nil
	}
	if dm := reDefault.FindStringSubmatch(typ); dm != nil {
		typ, f.HasDefault, f.Default = dm[1], true, dm[2]
	}
	t, opened := sc.typ(where, typ, top, owner, f.Name)
	if t == nil {
		return nil, nil
	}
	f.Type = t
	return f, opened
}

func (sc *Schema) anon(top, owner *Struct, fieldName, hint string) *Struct {
	return &Struct{Name: owner.Name + "." + fieldName, File: top.File, Anonymous: true, NameHint: hint, FlexibleAt: top.FlexibleAt, Key: -1, MaxVersion: top.MaxVersion}
}

func (sc *Schema) typ(where, typ string, top, owner *Struct, fieldName string) (*Type, *Struct) {
	array := func(inner string, nullableFrom int, varint bool) (*Type, *Struct) {
		t := &Type{Kind: KArray, NullableFrom: nullableFrom, VarintLen: varint}
		if strings.HasPrefix(inner, "=>") {
			hint := inner[2:]
			if hint != "" && !reIdent.MatchString(hint) {
				sc.problem("%s: bad name hint %q", where, hint)
			}
			st := sc.anon(top, owner, fieldName, hint)
			t.Elem = &Type{Kind: KStruct, NullableFrom: NotNullable, Struct: st}
			return t, st
		}
		et, opened := sc.typ(where, inner, top, owner, fieldName)
		if et == nil {
			return nil, nil
		}
		t.Elem = et
		return t, opened
	}
	switch {
	case typ == "=>":
		st := sc.anon(top, owner, fieldName, "")
		return &Type{Kind: KStruct, NullableFrom: NotNullable, Struct: st}, st
	case typ == "nullable=>":
		st := sc.anon(top, owner, fieldName, "")
		return &Type{Kind: KStruct, NullableFrom: 0, Struct: st}, st
	case strings.HasPrefix(typ, "varint[") && strings.HasSuffix(typ, "]"):
		return array(typ[len("varint["):len(typ)-1], NotNullable, true)
	case strings.HasPrefix(typ, "nullable[") && strings.HasSuffix(typ, "]"):
		return array(typ[len("nullable["):len(typ)-1], 0, false)
	case reNullArrV.MatchString(typ):
		m := reNullArrV.FindStringSubmatch(typ)
		n, _ := strconv.Atoi(m[1])
		return array(m[2], n, false)
	case strings.HasPrefix(typ, "[") && strings.HasSuffix(typ, "]"):
		return array(typ[1:len(typ)-1], NotNullable, false)
	case reNullStrV.MatchString(typ):
		n, _ := strconv.Atoi(reNullStrV.FindStringSubmatch(typ)[1])
		return &Type{Kind: KString, NullableFrom: n}, nil
	case typ == "nullable-string":
		return &Type{Kind: KString, NullableFrom: 0}, nil
	case typ == "nullable-bytes":
		return &Type{Kind: KBytes, NullableFrom: 0}, nil
	case typ == "varint-bytes":
		// "like nullable-bytes, but with a varint size specifier"
		return &Type{Kind: KVarintBytes, NullableFrom: 0}, nil
	case strings.HasPrefix(typ, "enum-"):
		return &Type{Kind: KInt8, NullableFrom: NotNullable, Enum: typ[5:]}, nil
	}
	if k, ok := primitives[typ]; ok {
		return &Type{Kind: k, NullableFrom: NotNullable}, nil
	}
	if reIdent.MatchString(typ) && typ[0] >= 'A' && typ[0] <= 'Z' {
		return &Type{Kind: KStruct, NullableFrom: NotNullable, StructRef: typ}, nil
	}
	sc.problem("%s: unknown type %q", where, typ)
	return nil, nil
}

// resolve binds named struct references and enum base kinds.
func (sc *Schema) resolve() {
	var walkT func(owner *Struct, f *Field, t *Type)
	var walkS func(s *Struct)
	seen := map[*Struct]bool{}
	walkT = func(owner *Struct, f *Field, t *Type) {
		if t == nil {
			return
		}
		if t.Enum != "" {
			if e, ok := sc.Enums[t.Enum]; ok {
				t.Kind = e.Base
			} else {
				sc.problem("%s: unknown enum %s", f.Line, t.Enum)
			}
		}
		if t.StructRef != "" && t.Struct == nil {
			if s, ok := sc.Structs[t.StructRef]; ok {
				t.Struct = s
			} else {
				sc.problem("%s: unknown named struct %s", f.Line, t.StructRef)
				t.Struct = &Struct{Name: t.StructRef, FlexibleAt: -1}
			}
		}
		walkT(owner, f, t.Elem)
		if t.Struct != nil && t.Struct.Anonymous {
			walkS(t.Struct)
		}
	}
	walkS = func(s *Struct) {
		if seen[s] {
			return
		}
		seen[s] = true
		for _, f := range s.Fields {
			walkT(s, f, f.Type)
		}
	}
	all := []*Struct{}
	for _, n := range sc.Order {
		all = append(all, sc.Structs[n])
	}
	cn := []string{}
	for n := range sc.Commented {
		cn = append(cn, n)
	}
	sort.Strings(cn)
	for _, n := range cn {
		all = append(all, sc.Commented[n])
	}
	for _, s := range all {
		walkS(s)
	}
	for _, s := range all {
		if !s.TopLevel {
			s.MaxVersion = s.maxMentioned()
		}
	}
}

// lint records definition-level inconsistencies.
func (sc *Schema) lint() {
	var walk func(top, s *Struct)
	walk = func(top, s *Struct) {
		tags := s.Tags()
		for i, f := range tags {
			if f.Tag != i {
				sc.problem("%s: tags of %s are not 0..n-1 without gaps/duplicates (tag %d at position %d)", f.Line, s.Name, f.Tag, i)
				break
			}
		}
		if len(tags) > 0 && s.FlexibleAt < 0 {
			sc.problem("%s: struct %s has tagged fields but is never flexible", s.File, s.Name)
		}
		for i, f := range s.Fields {
			if f.Type.Kind == KLengthFieldMinus {
				ok := false
				for _, g := range s.Fields[:i] {
					if g.Name == f.Type.LenField && g.Type.Kind.IsInt() {
						ok = true
					}
				}
				if !ok {
					sc.problem("%s: length field %s is not an earlier integer field", f.Line, f.Type.LenField)
				}
			}
			t := f.Type
			for t.Kind == KArray {
				t = t.Elem
			}
			if t.Kind == KStruct && t.Struct != nil {
				if t.Struct.Anonymous {
					walk(top, t.Struct)
				} else if t.Struct.FlexibleAt != s.FlexibleAt {
					sc.problem("%s: named struct %s (flexible at %d) embedded in %s (flexible at %d)", f.Line, t.Struct.Name, t.Struct.FlexibleAt, s.Name, s.FlexibleAt)
				}
			}
		}
	}
	for _, n := range sc.Order {
		s := sc.Structs[n]
		walk(s, s)
		if s.WithVersionField {
			if len(s.Fields) == 0 || s.Fields[0].Name != "Version" || s.Fields[0].Type.Kind != KInt16 {
				sc.problem("%s: %s is 'with version field' but its first field is not Version: int16", s.File, s.Name)
			}
		}
	}
	reqs := map[int]string{}
	for _, n := range sc.Order {
		s := sc.Structs[n]
		if s.IsRequest {
			if o, dup := reqs[s.Key]; dup {
				sc.problem("key %d used by %s and %s", s.Key, o, s.Name)
			}
			reqs[s.Key] = s.Name
			if _, ok := sc.Structs[strings.TrimSuffix(s.Name, "Request")+"Response"]; !ok {
				sc.problem("request %s has no response definition", s.Name)
			}
		}
	}
}
