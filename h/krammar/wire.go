package krammar

import (
	"encoding/binary"
	"errors"
	"fmt"
	"math"
	"sort"
	"strconv"
)

// ---- value tree -----------------------------------------------------------------
//
// A Node is one of:
//   int64          every integer kind (also uint16/uint32, enums, varint/varlong)
//   bool
//   F64            float64 carried as its IEEE bits
//   [16]byte       uuid
//   string         string kinds
//   []byte         bytes kinds (never nil; empty = zero length)
//   Null           a null string / bytes / array / struct
//   List           an array
//   *Rec           a struct: present fields in schema order + unknown tags

type Node any

type F64 uint64

type Null struct{}

type List []Node

type RecField struct {
	Name string
	Val  Node
}

type UTag struct {
	Key uint32
	Val []byte
}

type Rec struct {
	Fields []RecField
	Tags   []UTag // sorted by key
}

func (r *Rec) Get(name string) (Node, bool) {
	for i := range r.Fields {
		if r.Fields[i].Name == name {
			return r.Fields[i].Val, true
		}
	}
	return nil, false
}

func (r *Rec) Set(name string, v Node) {
	for i := range r.Fields {
		if r.Fields[i].Name == name {
			r.Fields[i].Val = v
			return
		}
	}
	r.Fields = append(r.Fields, RecField{name, v})
}

// ---- varints (reference style: plain loops) ----------------------------------------

func appendUvarint(dst []byte, u uint64) []byte {
	for u >= 0x80 {
		dst = append(dst, byte(u)|0x80)
		u >>= 7
	}
	return append(dst, byte(u))
}

func zigzag32(i int32) uint64 { return uint64(uint32((int64(i) << 1) ^ (int64(i) >> 31))) }
func zigzag64(i int64) uint64 { return uint64(i<<1) ^ uint64(i>>63) }
func unzig(u uint64) int64    { return int64(u>>1) ^ -int64(u&1) }

// readUvarint decodes an unsigned varint of at most maxBytes bytes that must fit in
// bits bits.
func readUvarint(in []byte, maxBytes int, bits uint) (uint64, int, error) {
	var v uint64
	for i := 0; i < maxBytes; i++ {
		if i >= len(in) {
			return 0, 0, errShort
		}
		b := in[i]
		part := uint64(b & 0x7f)
		if sh := uint(7 * i); sh >= 64 || (part<<sh)>>sh != part {
			return 0, 0, errors.New("varint overflows")
		} else {
			v |= part << sh
		}
		if b&0x80 == 0 {
			if bits < 64 && v>>bits != 0 {
				return 0, 0, errors.New("varint overflows")
			}
			return v, i + 1, nil
		}
	}
	return 0, 0, errors.New("varint too long")
}

var errShort = errors.New("not enough data")

// ---- marks ------------------------------------------------------------------------

// MarkKind classifies a position of interest in an encoding.
type MarkKind int

const (
	MBoundary     MarkKind = iota // start of a field / element / struct
	MLenI16                       // int16 length (string)
	MLenI32                       // int32 length (bytes, array)
	MLenCompact                   // uvarint length+1
	MLenVarint                    // zig-zag varint length
	MTagCount                     // uvarint number of tags
	MTagKey                       // uvarint tag key
	MTagSize                      // uvarint tag size
	MStructMarker                 // nullable struct int8 marker
)

// Mark is a recorded position in an encoding produced by the reference encoder.
type Mark struct {
	Kind  MarkKind
	Off   int
	Width int
	// What is "array", "bytes", "string" or "" and ElemSize a hint of the decoded
	// per-element Go size class for arrays (0 when unknown).
	What string
	Path string
}

// ---- encoder ----------------------------------------------------------------------

// Enc is the reference encoder. It walks a schema struct and a value tree.
type Enc struct {
	Buf   []byte
	Marks []Mark
	// Record enables mark recording.
	Record bool
	path   []string
}

func (e *Enc) mark(k MarkKind, off, width int, what string) {
	if !e.Record {
		return
	}
	p := ""
	for i, s := range e.path {
		if i > 0 {
			p += "."
		}
		p += s
	}
	e.Marks = append(e.Marks, Mark{Kind: k, Off: off, Width: width, What: what, Path: p})
}

func (e *Enc) i8(v int64)  { e.Buf = append(e.Buf, byte(int8(v))) }
func (e *Enc) i16(v int64) { e.Buf = binary.BigEndian.AppendUint16(e.Buf, uint16(int16(v))) }
func (e *Enc) i32(v int64) { e.Buf = binary.BigEndian.AppendUint32(e.Buf, uint32(int32(v))) }
func (e *Enc) i64(v int64) { e.Buf = binary.BigEndian.AppendUint64(e.Buf, uint64(v)) }
func (e *Enc) uvar(v uint64) int {
	n := len(e.Buf)
	e.Buf = appendUvarint(e.Buf, v)
	return len(e.Buf) - n
}

// Encode encodes the body of struct s (a message or an embedded standalone type)
// at the given version.
func Encode(s *Struct, version int, r *Rec, record bool) (*Enc, error) {
	e := &Enc{Record: record}
	err := e.structBody(s, version, r)
	return e, err
}

func (e *Enc) structBody(s *Struct, v int, r *Rec) error {
	flex := s.Flexible(v)
	for _, f := range s.Fields {
		if f.Tag >= 0 || !f.Present(s, v) {
			continue
		}
		val, ok := r.Get(f.Name)
		if !ok {
			return fmt.Errorf("tree lacks present field %s.%s", s.Name, f.Name)
		}
		e.path = append(e.path, f.Name)
		e.mark(MBoundary, len(e.Buf), 0, "")
		if f.Type.Kind == KLengthFieldMinus {
			b, ok := val.([]byte)
			if !ok {
				return fmt.Errorf("%s.%s: want raw bytes", s.Name, f.Name)
			}
			lf, ok := r.Get(f.Type.LenField)
			if !ok {
				return fmt.Errorf("%s.%s: length field %s missing", s.Name, f.Name, f.Type.LenField)
			}
			if lf.(int64)-int64(f.Type.LenMinus) != int64(len(b)) {
				return fmt.Errorf("%s.%s: %d raw bytes but %s=%d (minus %d)", s.Name, f.Name, len(b), f.Type.LenField, lf, f.Type.LenMinus)
			}
			e.Buf = append(e.Buf, b...)
		} else if err := e.value(f.Type, v, flex, val); err != nil {
			return fmt.Errorf("%s.%s: %w", s.Name, f.Name, err)
		}
		e.path = e.path[:len(e.path)-1]
	}
	if !flex {
		if len(r.Tags) > 0 {
			return fmt.Errorf("%s: unknown tags in a tree at non-flexible version %d", s.Name, v)
		}
		return nil
	}
	// Tagged field section (KIP-482): count, then (tag, size, data) in ascending tag
	// order. A known tagged field is written only if its value differs from its default.
	type tf struct {
		key  uint32
		data []byte
		name string
	}
	var out []tf
	for _, f := range s.Tags() {
		if !f.Present(s, v) {
			continue
		}
		val, ok := r.Get(f.Name)
		if !ok {
			return fmt.Errorf("tree lacks tagged field %s.%s", s.Name, f.Name)
		}
		if IsDefault(f, v, val) {
			continue
		}
		sub := &Enc{}
		if err := sub.value(f.Type, v, true, val); err != nil {
			return fmt.Errorf("%s.%s: %w", s.Name, f.Name, err)
		}
		out = append(out, tf{uint32(f.Tag), sub.Buf, f.Name})
	}
	for _, u := range r.Tags {
		out = append(out, tf{u.Key, u.Val, "?" + strconv.Itoa(int(u.Key))})
	}
	sort.SliceStable(out, func(i, j int) bool { return out[i].key < out[j].key })
	for i := 1; i < len(out); i++ {
		if out[i].key == out[i-1].key {
			return fmt.Errorf("%s: duplicate tag %d in tree", s.Name, out[i].key)
		}
	}
	e.path = append(e.path, "#tags")
	o := len(e.Buf)
	w := e.uvar(uint64(len(out)))
	e.mark(MTagCount, o, w, "")
	for _, t := range out {
		e.path = append(e.path, t.name)
		o = len(e.Buf)
		w = e.uvar(uint64(t.key))
		e.mark(MTagKey, o, w, "")
		o = len(e.Buf)
		w = e.uvar(uint64(len(t.data)))
		e.mark(MTagSize, o, w, "bytes")
		e.Buf = append(e.Buf, t.data...)
		e.path = e.path[:len(e.path)-1]
	}
	e.path = e.path[:len(e.path)-1]
	return nil
}

func typeErr(t *Type, val Node) error { return fmt.Errorf("tree node %T does not fit %s", val, t.Kind) }

func (e *Enc) lenPrefix(kind Kind, flex bool, n int, null bool, what string) {
	o := len(e.Buf)
	switch {
	case flex:
		u := uint64(n) + 1
		if null {
			u = 0
		}
		w := e.uvar(u)
		e.mark(MLenCompact, o, w, what)
	case kind == KString:
		if null {
			n = -1
		}
		e.i16(int64(n))
		e.mark(MLenI16, o, 2, what)
	default:
		if null {
			n = -1
		}
		e.i32(int64(n))
		e.mark(MLenI32, o, 4, what)
	}
}

func (e *Enc) value(t *Type, v int, flex bool, val Node) error {
	_, isNull := val.(Null)
	if isNull && !t.Nullable(v) {
		return fmt.Errorf("null for %s not nullable at version %d", t.Kind, v)
	}
	switch t.Kind {
	case KBool:
		b, ok := val.(bool)
		if !ok {
			return typeErr(t, val)
		}
		if b {
			e.Buf = append(e.Buf, 1)
		} else {
			e.Buf = append(e.Buf, 0)
		}
	case KInt8, KInt16, KUint16, KInt32, KUint32, KInt64, KVarint, KVarlong:
		i, ok := val.(int64)
		if !ok {
			return typeErr(t, val)
		}
		switch t.Kind {
		case KInt8:
			e.i8(i)
		case KInt16, KUint16:
			e.i16(i)
		case KInt32, KUint32:
			e.i32(i)
		case KInt64:
			e.i64(i)
		case KVarint:
			e.uvar(zigzag32(int32(i)))
		case KVarlong:
			e.uvar(zigzag64(i))
		}
	case KFloat64:
		f, ok := val.(F64)
		if !ok {
			return typeErr(t, val)
		}
		e.i64(int64(f))
	case KUuid:
		u, ok := val.([16]byte)
		if !ok {
			return typeErr(t, val)
		}
		e.Buf = append(e.Buf, u[:]...)
	case KString:
		if isNull {
			e.lenPrefix(KString, flex, 0, true, "string")
			return nil
		}
		s, ok := val.(string)
		if !ok {
			return typeErr(t, val)
		}
		if !flex && len(s) > math.MaxInt16 {
			return fmt.Errorf("string of %d bytes does not fit an int16 length", len(s))
		}
		e.lenPrefix(KString, flex, len(s), false, "string")
		e.Buf = append(e.Buf, s...)
	case KBytes:
		if isNull {
			e.lenPrefix(KBytes, flex, 0, true, "bytes")
			return nil
		}
		b, ok := val.([]byte)
		if !ok {
			return typeErr(t, val)
		}
		e.lenPrefix(KBytes, flex, len(b), false, "bytes")
		e.Buf = append(e.Buf, b...)
	case KVarintString:
		s, ok := val.(string)
		if !ok {
			return typeErr(t, val)
		}
		o := len(e.Buf)
		w := e.uvar(zigzag32(int32(len(s))))
		e.mark(MLenVarint, o, w, "string")
		e.Buf = append(e.Buf, s...)
	case KVarintBytes:
		o := len(e.Buf)
		if isNull {
			w := e.uvar(zigzag32(-1))
			e.mark(MLenVarint, o, w, "bytes")
			return nil
		}
		b, ok := val.([]byte)
		if !ok {
			return typeErr(t, val)
		}
		w := e.uvar(zigzag32(int32(len(b))))
		e.mark(MLenVarint, o, w, "bytes")
		e.Buf = append(e.Buf, b...)
	case KArray:
		var l List
		if !isNull {
			var ok bool
			if l, ok = val.(List); !ok {
				return typeErr(t, val)
			}
		}
		if t.VarintLen {
			o := len(e.Buf)
			w := e.uvar(zigzag32(int32(len(l))))
			e.mark(MLenVarint, o, w, "array")
		} else {
			e.lenPrefix(KArray, flex, len(l), isNull, "array")
		}
		for i, el := range l {
			e.path = append(e.path, strconv.Itoa(i))
			e.mark(MBoundary, len(e.Buf), 0, "")
			if err := e.value(t.Elem, v, flex, el); err != nil {
				return fmt.Errorf("[%d]: %w", i, err)
			}
			e.path = e.path[:len(e.path)-1]
		}
	case KStruct:
		if t.EverNullable() {
			// nullable structs carry an int8 marker: -1 null, 1 present
			o := len(e.Buf)
			if isNull {
				e.i8(-1)
				e.mark(MStructMarker, o, 1, "")
				return nil
			}
			e.i8(1)
			e.mark(MStructMarker, o, 1, "")
		}
		r, ok := val.(*Rec)
		if !ok {
			return typeErr(t, val)
		}
		return e.structBody(t.Struct, v, r)
	default:
		return fmt.Errorf("kind %s cannot be encoded here", t.Kind)
	}
	return nil
}

// ---- defaults ---------------------------------------------------------------------

// DefaultNode returns the default value of field f at version v as a tree node: the
// literal in parentheses if there is one, else the zero value of the type.
func DefaultNode(f *Field, v int) Node {
	return defaultOf(f.Type, v, f.HasDefault, f.Default)
}

func defaultOf(t *Type, v int, has bool, lit string) Node {
	if has && lit == "null" {
		if t.Nullable(v) {
			return Null{}
		}
		has = false
	}
	switch t.Kind {
	case KBool:
		return has && lit == "true"
	case KFloat64:
		if has {
			f, _ := strconv.ParseFloat(lit, 64)
			return F64(math.Float64bits(f))
		}
		return F64(0)
	case KUuid:
		return [16]byte{}
	case KString:
		if t.Nullable(v) {
			return Null{}
		}
		return ""
	case KVarintString:
		return ""
	case KBytes:
		if t.Nullable(v) {
			return Null{}
		}
		return []byte{}
	case KVarintBytes:
		return Null{}
	case KLengthFieldMinus:
		return []byte{}
	case KArray:
		if t.Nullable(v) {
			return Null{}
		}
		return List{}
	case KStruct:
		if t.Nullable(v) {
			return Null{}
		}
		return DefaultRec(t.Struct, v)
	}
	if has {
		n, err := strconv.ParseInt(lit, 0, 64)
		if err == nil {
			return n
		}
	}
	return int64(0)
}

// DefaultRec returns the default tree of struct s at version v.
func DefaultRec(s *Struct, v int) *Rec {
	r := &Rec{}
	for _, f := range s.Fields {
		if f.Present(s, v) {
			r.Fields = append(r.Fields, RecField{f.Name, DefaultNode(f, v)})
		}
	}
	return r
}

// IsDefault reports whether val equals the default of tagged field f.
func IsDefault(f *Field, v int, val Node) bool {
	return Diff(DefaultNode(f, v), val, "") == ""
}

// ---- decoder ----------------------------------------------------------------------

type dec struct {
	in  []byte
	pos int
	// lenient makes the decoder accept what the kbin.Reader documents as accepted
	// although the protocol forbids it (see Scan).
	lenient     bool
	maxTagCount uint64
}

func (d *dec) need(n int) error {
	if n < 0 || len(d.in)-d.pos < n {
		return errShort
	}
	return nil
}

func (d *dec) take(n int) ([]byte, error) {
	if err := d.need(n); err != nil {
		return nil, err
	}
	b := d.in[d.pos : d.pos+n]
	d.pos += n
	return b, nil
}

func (d *dec) uvar(bits uint, max int) (uint64, error) {
	v, n, err := readUvarint(d.in[d.pos:], max, bits)
	if err != nil {
		return 0, err
	}
	d.pos += n
	return v, nil
}

// Scan walks hostile bytes the way the kmsg readers are documented to walk them, up
// to the first point where they give up: a null length on a non-nullable bytes field
// or array reads as empty (kbin.Reader.Bytes: "we return an empty byte slice for
// null"), a nullable-struct marker other than -1 means present, tags may repeat and
// come in any order, a tagged field's buffer may have left-over bytes, a negative
// varint-string length reads as "". It returns the largest tag count read, which is
// the number of iterations a tag loop performs no matter how short the input is.
func Scan(s *Struct, version int, in []byte) (maxTagCount uint64, err error) {
	d := &dec{in: in, lenient: true}
	if s.WithVersionField {
		if len(in) < 2 {
			return 0, errShort
		}
		version = int(int16(binary.BigEndian.Uint16(in)))
	}
	_, err = d.structBody(s, version)
	return d.maxTagCount, err
}

// Decode decodes the body of struct s at the given version with the reference
// decoder. It returns the tree and the number of bytes consumed.
func Decode(s *Struct, version int, in []byte) (*Rec, int, error) {
	d := &dec{in: in}
	r, err := d.structBody(s, version)
	return r, d.pos, err
}

func (d *dec) structBody(s *Struct, v int) (*Rec, error) {
	flex := s.Flexible(v)
	r := &Rec{}
	for _, f := range s.Fields {
		if !f.Present(s, v) {
			continue
		}
		if f.Tag >= 0 {
			// default until seen in the tag section
			r.Fields = append(r.Fields, RecField{f.Name, DefaultNode(f, v)})
			continue
		}
		if f.Type.Kind == KLengthFieldMinus {
			lf, ok := r.Get(f.Type.LenField)
			if !ok {
				return nil, fmt.Errorf("%s.%s: length field not decoded", s.Name, f.Name)
			}
			b, err := d.take(int(lf.(int64)) - f.Type.LenMinus)
			if err != nil {
				return nil, fmt.Errorf("%s.%s: %w", s.Name, f.Name, err)
			}
			r.Fields = append(r.Fields, RecField{f.Name, append([]byte{}, b...)})
			continue
		}
		val, err := d.value(f.Type, v, flex)
		if err != nil {
			return nil, fmt.Errorf("%s.%s: %w", s.Name, f.Name, err)
		}
		r.Fields = append(r.Fields, RecField{f.Name, val})
	}
	if !flex {
		return r, nil
	}
	n, err := d.uvar(32, 5)
	if err != nil {
		return nil, fmt.Errorf("%s tag count: %w", s.Name, err)
	}
	if n > d.maxTagCount {
		d.maxTagCount = n
	}
	// (every iteration below consumes at least two bytes or ends the decode, so the
	// loop is bounded by the input length whatever n claims)
	known := map[uint32]*Field{}
	for _, f := range s.Tags() {
		if f.Present(s, v) {
			known[uint32(f.Tag)] = f
		}
	}
	prev := int64(-1)
	for i := uint64(0); i < n; i++ {
		k, err := d.uvar(32, 5)
		if err != nil {
			return nil, fmt.Errorf("%s tag key: %w", s.Name, err)
		}
		if int64(k) <= prev && !d.lenient {
			return nil, fmt.Errorf("%s: tag %d after tag %d: tags must be strictly ascending", s.Name, k, prev)
		}
		prev = int64(k)
		sz, err := d.uvar(32, 5)
		if err != nil {
			return nil, fmt.Errorf("%s tag size: %w", s.Name, err)
		}
		data, err := d.take(int(sz))
		if err != nil {
			return nil, fmt.Errorf("%s tag %d data: %w", s.Name, k, err)
		}
		if f, ok := known[uint32(k)]; ok {
			sd := &dec{in: data, lenient: d.lenient}
			val, err := sd.value(f.Type, v, true)
			if sd.maxTagCount > d.maxTagCount {
				d.maxTagCount = sd.maxTagCount
			}
			if err != nil {
				return nil, fmt.Errorf("%s.%s (tag %d): %w", s.Name, f.Name, k, err)
			}
			if sd.pos != len(data) && !d.lenient {
				return nil, fmt.Errorf("%s.%s (tag %d): %d of %d bytes consumed", s.Name, f.Name, k, sd.pos, len(data))
			}
			r.Set(f.Name, val)
		} else {
			r.Tags = append(r.Tags, UTag{uint32(k), append([]byte{}, data...)})
		}
	}
	return r, nil
}

func (d *dec) length(kind Kind, flex bool) (int, bool, error) {
	switch {
	case flex:
		u, err := d.uvar(32, 5)
		if err != nil {
			return 0, false, err
		}
		if u == 0 {
			return 0, true, nil
		}
		return int(u - 1), false, nil
	case kind == KString:
		b, err := d.take(2)
		if err != nil {
			return 0, false, err
		}
		n := int(int16(binary.BigEndian.Uint16(b)))
		return n, n < 0, nil
	default:
		b, err := d.take(4)
		if err != nil {
			return 0, false, err
		}
		n := int(int32(binary.BigEndian.Uint32(b)))
		return n, n < 0, nil
	}
}

func (d *dec) value(t *Type, v int, flex bool) (Node, error) {
	switch t.Kind {
	case KBool:
		b, err := d.take(1)
		if err != nil {
			return nil, err
		}
		return b[0] != 0, nil
	case KInt8:
		b, err := d.take(1)
		if err != nil {
			return nil, err
		}
		return int64(int8(b[0])), nil
	case KInt16:
		b, err := d.take(2)
		if err != nil {
			return nil, err
		}
		return int64(int16(binary.BigEndian.Uint16(b))), nil
	case KUint16:
		b, err := d.take(2)
		if err != nil {
			return nil, err
		}
		return int64(binary.BigEndian.Uint16(b)), nil
	case KInt32:
		b, err := d.take(4)
		if err != nil {
			return nil, err
		}
		return int64(int32(binary.BigEndian.Uint32(b))), nil
	case KUint32:
		b, err := d.take(4)
		if err != nil {
			return nil, err
		}
		return int64(binary.BigEndian.Uint32(b)), nil
	case KInt64:
		b, err := d.take(8)
		if err != nil {
			return nil, err
		}
		return int64(binary.BigEndian.Uint64(b)), nil
	case KFloat64:
		b, err := d.take(8)
		if err != nil {
			return nil, err
		}
		return F64(binary.BigEndian.Uint64(b)), nil
	case KVarint:
		u, err := d.uvar(32, 5)
		if err != nil {
			return nil, err
		}
		return unzig(u), nil
	case KVarlong:
		u, err := d.uvar(64, 10)
		if err != nil {
			return nil, err
		}
		return unzig(u), nil
	case KUuid:
		b, err := d.take(16)
		if err != nil {
			return nil, err
		}
		var u [16]byte
		copy(u[:], b)
		return u, nil
	case KString, KBytes:
		n, null, err := d.length(t.Kind, flex)
		if err != nil {
			return nil, err
		}
		if null {
			if !t.Nullable(v) {
				if d.lenient && t.Kind == KBytes && n <= 0 && (flex || n == -1) {
					return []byte{}, nil
				}
				return nil, fmt.Errorf("null %s not allowed at version %d", t.Kind, v)
			}
			return Null{}, nil
		}
		b, err := d.take(n)
		if err != nil {
			return nil, err
		}
		if t.Kind == KString {
			return string(b), nil
		}
		return append([]byte{}, b...), nil
	case KVarintString, KVarintBytes:
		u, err := d.uvar(32, 5)
		if err != nil {
			return nil, err
		}
		n := unzig(u)
		if n < 0 {
			if t.Kind == KVarintString {
				if d.lenient {
					return "", nil
				}
				return nil, errors.New("negative varint-string length")
			}
			return Null{}, nil
		}
		b, err := d.take(int(n))
		if err != nil {
			return nil, err
		}
		if t.Kind == KVarintString {
			return string(b), nil
		}
		return append([]byte{}, b...), nil
	case KArray:
		var n int
		var null bool
		if t.VarintLen {
			u, err := d.uvar(32, 5)
			if err != nil {
				return nil, err
			}
			n = int(unzig(u))
			if n < 0 {
				if d.lenient {
					return List{}, nil
				}
				return nil, errors.New("negative varint array length")
			}
		} else {
			var err error
			if n, null, err = d.length(KArray, flex); err != nil {
				return nil, err
			}
			if d.lenient && flex && n >= 1<<31 {
				null = true // CompactArrayLen: int32(uvarint)-1 wraps to a negative length
			}
		}
		if null {
			if !t.Nullable(v) {
				if d.lenient {
					return List{}, nil
				}
				return nil, fmt.Errorf("null array not allowed at version %d", v)
			}
			return Null{}, nil
		}
		if n > len(d.in)-d.pos {
			return nil, errShort // every element takes at least one byte
		}
		l := make(List, 0, n)
		for i := 0; i < n; i++ {
			el, err := d.value(t.Elem, v, flex)
			if err != nil {
				return nil, fmt.Errorf("[%d]: %w", i, err)
			}
			l = append(l, el)
		}
		return l, nil
	case KStruct:
		if t.EverNullable() {
			b, err := d.take(1)
			if err != nil {
				return nil, err
			}
			switch int8(b[0]) {
			case -1:
				return Null{}, nil
			case 1:
			default:
				if !d.lenient {
					return nil, fmt.Errorf("nullable struct marker %d", int8(b[0]))
				}
			}
		}
		return d.structBody(t.Struct, v)
	}
	return nil, fmt.Errorf("kind %s cannot be decoded here", t.Kind)
}

// ---- comparison -------------------------------------------------------------------

// Diff returns "" if a and b are the same tree, else a description of the first
// difference found (with its path).
func Diff(a, b Node, path string) string {
	switch x := a.(type) {
	case int64:
		if y, ok := b.(int64); ok && x == y {
			return ""
		}
	case bool:
		if y, ok := b.(bool); ok && x == y {
			return ""
		}
	case F64:
		if y, ok := b.(F64); ok {
			if x == y {
				return ""
			}
			fx, fy := math.Float64frombits(uint64(x)), math.Float64frombits(uint64(y))
			if fx != fx && fy != fy {
				return ""
			}
		}
	case [16]byte:
		if y, ok := b.([16]byte); ok && x == y {
			return ""
		}
	case string:
		if y, ok := b.(string); ok && x == y {
			return ""
		}
	case []byte:
		if y, ok := b.([]byte); ok && string(x) == string(y) {
			return ""
		}
	case Null:
		if _, ok := b.(Null); ok {
			return ""
		}
	case List:
		y, ok := b.(List)
		if !ok {
			break
		}
		if len(x) != len(y) {
			return fmt.Sprintf("%s: array lengths %d vs %d", path, len(x), len(y))
		}
		for i := range x {
			if d := Diff(x[i], y[i], fmt.Sprintf("%s[%d]", path, i)); d != "" {
				return d
			}
		}
		return ""
	case *Rec:
		y, ok := b.(*Rec)
		if !ok {
			break
		}
		if len(x.Fields) != len(y.Fields) {
			return fmt.Sprintf("%s: %d vs %d fields", path, len(x.Fields), len(y.Fields))
		}
		for i := range x.Fields {
			if x.Fields[i].Name != y.Fields[i].Name {
				return fmt.Sprintf("%s: field %s vs %s", path, x.Fields[i].Name, y.Fields[i].Name)
			}
			if d := Diff(x.Fields[i].Val, y.Fields[i].Val, path+"."+x.Fields[i].Name); d != "" {
				return d
			}
		}
		if len(x.Tags) != len(y.Tags) {
			return fmt.Sprintf("%s: %d vs %d unknown tags", path, len(x.Tags), len(y.Tags))
		}
		for i := range x.Tags {
			if x.Tags[i].Key != y.Tags[i].Key || string(x.Tags[i].Val) != string(y.Tags[i].Val) {
				return fmt.Sprintf("%s: unknown tag %d=%x vs %d=%x", path, x.Tags[i].Key, x.Tags[i].Val, y.Tags[i].Key, y.Tags[i].Val)
			}
		}
		return ""
	}
	return fmt.Sprintf("%s: %s vs %s", path, show(a), show(b))
}

func show(n Node) string {
	switch x := n.(type) {
	case string:
		if len(x) > 40 {
			return fmt.Sprintf("string(len %d)%q...", len(x), x[:40])
		}
		return fmt.Sprintf("%q", x)
	case []byte:
		if len(x) > 40 {
			return fmt.Sprintf("bytes(len %d)%x...", len(x), x[:40])
		}
		return fmt.Sprintf("bytes %x", x)
	case Null:
		return "null"
	case List:
		return fmt.Sprintf("array(len %d)", len(x))
	case *Rec:
		return "struct"
	case F64:
		return fmt.Sprintf("float64 bits %#x", uint64(x))
	}
	return fmt.Sprintf("%T %v", n, n)
}
