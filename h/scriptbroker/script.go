package scriptbroker

import (
	"sync"

	"github.com/twmb/franz-go/pkg/kmsg"
)

// How the broker answers an ApiVersions request whose version it does not understand.
const (
	DanceKey18 = iota // UNSUPPORTED_VERSION + single entry for key 18 (KIP-511)
	DanceEmpty        // UNSUPPORTED_VERSION + no keys (pre 2.4 brokers)
	DanceFull         // UNSUPPORTED_VERSION + the full table
)

// Topic is one topic the scripted broker knows; it is always the leader of every partition.
type Topic struct {
	Name       string
	ID         [16]byte
	Partitions int32
}

// Script is the standard behaviour: an ApiVersions table, Metadata/FindCoordinator pointing
// at the broker itself, InitProducerID, AddPartitionsToTxn/EndTxn acks, Produce acks, and the
// empty response of the request's version for everything else.
type Script struct {
	// ApiVersions
	CloseOnApiVersions bool               // pre-ApiVersions broker: closes the connection on key 18
	Table              map[int16][2]int16 // advertised key -> {min,max}
	Order              []int16            // order of the advertised keys (all keys of Table)
	Understands        int16              // highest ApiVersions request version the broker parses
	Dance              int
	Dance18Max         int16            // MaxVersion advertised for key 18 in a DanceKey18 reply
	Features           map[string]int16 // finalized features, sent on v3+ replies
	FeatureOrder       []string

	// Cluster
	NodeID int32
	Host   string
	Port   int32
	Topics []Topic

	// Producer ids
	PID   int64
	Epoch int16

	// OnProduce, if set, may edit the Produce response (errors, offsets) before it is sent;
	// returning false suppresses the response and closes the connection.
	OnProduce func(f *Frame, req *kmsg.ProduceRequest, resp *kmsg.ProduceResponse) bool
	// Override, if set, runs first; returning true means the frame was fully handled.
	Override func(c *Conn, f *Frame) bool

	mu     sync.Mutex
	epochN int16
}

// ApiVersionsReply builds the bytes answered to an ApiVersions frame, or nil to close.
func (s *Script) ApiVersionsReply(f *Frame) []byte {
	if s.CloseOnApiVersions {
		return nil
	}
	keys := func(resp *kmsg.ApiVersionsResponse) {
		for _, k := range s.Order {
			r, ok := s.Table[k]
			if !ok {
				continue
			}
			ak := kmsg.NewApiVersionsResponseApiKey()
			ak.ApiKey, ak.MinVersion, ak.MaxVersion = k, r[0], r[1]
			resp.ApiKeys = append(resp.ApiKeys, ak)
		}
	}
	if f.Version > s.Understands {
		resp := kmsg.NewPtrApiVersionsResponse()
		resp.Version = 0
		resp.ErrorCode = 35
		switch s.Dance {
		case DanceKey18:
			ak := kmsg.NewApiVersionsResponseApiKey()
			ak.ApiKey, ak.MinVersion, ak.MaxVersion = 18, 0, s.Dance18Max
			resp.ApiKeys = append(resp.ApiKeys, ak)
		case DanceEmpty:
		case DanceFull:
			keys(resp)
		}
		return EncodeRaw(f.CorrID, false, resp.AppendTo(nil))
	}
	resp := kmsg.NewPtrApiVersionsResponse()
	resp.Version = f.Version
	keys(resp)
	if f.Version >= 3 {
		if len(s.Features) > 0 {
			resp.FinalizedFeaturesEpoch = 1
			for _, n := range s.FeatureOrder {
				ff := kmsg.NewApiVersionsResponseFinalizedFeature()
				ff.Name, ff.MaxVersionLevel, ff.MinVersionLevel = n, s.Features[n], 0
				resp.FinalizedFeatures = append(resp.FinalizedFeatures, ff)
			}
		}
	}
	return EncodeRaw(f.CorrID, false, resp.AppendTo(nil))
}

func (s *Script) topicByName(n string) *Topic {
	for i := range s.Topics {
		if s.Topics[i].Name == n {
			return &s.Topics[i]
		}
	}
	return nil
}

func (s *Script) topicByID(id [16]byte) *Topic {
	for i := range s.Topics {
		if s.Topics[i].ID == id {
			return &s.Topics[i]
		}
	}
	return nil
}

func (s *Script) metaTopic(t *Topic) kmsg.MetadataResponseTopic {
	mt := kmsg.NewMetadataResponseTopic()
	mt.Topic = kmsg.StringPtr(t.Name)
	mt.TopicID = t.ID
	for p := int32(0); p < t.Partitions; p++ {
		mp := kmsg.NewMetadataResponseTopicPartition()
		mp.Partition = p
		mp.Leader = s.NodeID
		mp.LeaderEpoch = 0
		mp.Replicas = []int32{s.NodeID}
		mp.ISR = []int32{s.NodeID}
		mt.Partitions = append(mt.Partitions, mp)
	}
	return mt
}

// Handle is the Handler of the standard script.
func (s *Script) Handle(c *Conn, f *Frame) {
	if s.Override != nil && s.Override(c, f) {
		return
	}
	switch f.Key {
	case 18:
		b := s.ApiVersionsReply(f)
		if b == nil {
			c.Close()
			return
		}
		c.Write(b)
		return
	}
	req, err := ParseRequest(f)
	if err != nil {
		// The client wrote a body kmsg cannot parse at the version it announced: drop the
		// connection; the check's oracle looks at the recorded frame.
		c.Close()
		return
	}
	switch r := req.(type) {
	case *kmsg.MetadataRequest:
		resp := kmsg.NewPtrMetadataResponse()
		resp.Version = f.Version
		b := kmsg.NewMetadataResponseBroker()
		b.NodeID, b.Host, b.Port = s.NodeID, s.Host, s.Port
		resp.Brokers = append(resp.Brokers, b)
		resp.ControllerID = s.NodeID
		resp.ClusterID = kmsg.StringPtr("scripted")
		all := r.Topics == nil || (f.Version == 0 && len(r.Topics) == 0)
		if all {
			for i := range s.Topics {
				resp.Topics = append(resp.Topics, s.metaTopic(&s.Topics[i]))
			}
		} else {
			for _, rt := range r.Topics {
				var t *Topic
				if rt.Topic != nil {
					t = s.topicByName(*rt.Topic)
				} else {
					t = s.topicByID(rt.TopicID)
				}
				if t == nil {
					mt := kmsg.NewMetadataResponseTopic()
					mt.Topic = rt.Topic
					mt.TopicID = rt.TopicID
					mt.ErrorCode = 3 // UNKNOWN_TOPIC_OR_PARTITION
					if rt.Topic == nil {
						mt.ErrorCode = 100 // UNKNOWN_TOPIC_ID
					}
					resp.Topics = append(resp.Topics, mt)
					continue
				}
				resp.Topics = append(resp.Topics, s.metaTopic(t))
			}
		}
		c.Respond(f, resp)
	case *kmsg.FindCoordinatorRequest:
		resp := kmsg.NewPtrFindCoordinatorResponse()
		resp.Version = f.Version
		if f.Version <= 3 {
			resp.NodeID, resp.Host, resp.Port = s.NodeID, s.Host, s.Port
		} else {
			for _, k := range r.CoordinatorKeys {
				co := kmsg.NewFindCoordinatorResponseCoordinator()
				co.Key, co.NodeID, co.Host, co.Port = k, s.NodeID, s.Host, s.Port
				resp.Coordinators = append(resp.Coordinators, co)
			}
		}
		c.Respond(f, resp)
	case *kmsg.InitProducerIDRequest:
		resp := kmsg.NewPtrInitProducerIDResponse()
		resp.Version = f.Version
		s.mu.Lock()
		resp.ProducerID = s.PID
		resp.ProducerEpoch = s.Epoch + s.epochN
		s.epochN++
		s.mu.Unlock()
		c.Respond(f, resp)
	case *kmsg.AddPartitionsToTxnRequest:
		resp := kmsg.NewPtrAddPartitionsToTxnResponse()
		resp.Version = f.Version
		if f.Version <= 3 {
			for _, t := range r.Topics {
				rt := kmsg.NewAddPartitionsToTxnResponseTopic()
				rt.Topic = t.Topic
				for _, p := range t.Partitions {
					rp := kmsg.NewAddPartitionsToTxnResponseTopicPartition()
					rp.Partition = p
					rt.Partitions = append(rt.Partitions, rp)
				}
				resp.Topics = append(resp.Topics, rt)
			}
		}
		c.Respond(f, resp)
	case *kmsg.EndTxnRequest:
		resp := kmsg.NewPtrEndTxnResponse()
		resp.Version = f.Version
		resp.ProducerID = -1
		if f.Version >= 5 {
			s.mu.Lock()
			resp.ProducerID = s.PID
			resp.ProducerEpoch = s.Epoch + s.epochN
			s.epochN++
			s.mu.Unlock()
		}
		c.Respond(f, resp)
	case *kmsg.ProduceRequest:
		resp := kmsg.NewPtrProduceResponse()
		resp.Version = f.Version
		for _, t := range r.Topics {
			rt := kmsg.NewProduceResponseTopic()
			rt.Topic, rt.TopicID = t.Topic, t.TopicID
			for _, p := range t.Partitions {
				rp := kmsg.NewProduceResponseTopicPartition()
				rp.Partition = p.Partition
				rt.Partitions = append(rt.Partitions, rp)
			}
			resp.Topics = append(resp.Topics, rt)
		}
		if s.OnProduce != nil && !s.OnProduce(f, r, resp) {
			c.Close()
			return
		}
		if r.Acks == 0 {
			return
		}
		c.Respond(f, resp)
	default:
		c.Respond(f, ResponseFor(f))
	}
}
