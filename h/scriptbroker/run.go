//go:build synctests

package scriptbroker

import (
	"fmt"
	"runtime"
	"strings"
	"testing"
	"testing/synctest"
	"time"

	"github.com/twmb/franz-go/pkg/kfake"
	"github.com/twmb/franz-go/pkg/kgo"
)

// Env is one synctest bubble with a virtual network. Time inside is virtual.
type Env struct {
	T       *testing.T
	Net     kfake.VirtualNetwork
	Start   time.Time
	closers []func()
}

// OnTeardown registers f to run (in reverse order) when the bubble body returns or panics.
func (e *Env) OnTeardown(f func()) { e.closers = append(e.closers, f) }

// Listen starts a scripted broker on localhost:port of the virtual network.
func (e *Env) Listen(port int, h Handler) *Broker {
	ln, err := e.Net.Listen("tcp", fmt.Sprintf("localhost:%d", port))
	if err != nil {
		panic(fmt.Sprintf("VERIF-INFRA: virtual listen: %v", err))
	}
	b := New(ln, h)
	e.OnTeardown(b.Close)
	return b
}

// Client creates a kgo client dialing through the virtual network; it is closed at teardown.
func (e *Env) Client(opts ...kgo.Opt) (*kgo.Client, error) {
	cl, err := kgo.NewClient(append([]kgo.Opt{kgo.Dialer(e.Net.DialContext)}, opts...)...)
	if err != nil {
		return nil, err
	}
	e.OnTeardown(func() {
		done := make(chan struct{})
		go func() { cl.Close(); close(done) }()
		WaitTimeout(done, 10*time.Minute)
	})
	return cl, nil
}

// Settle waits until every goroutine of the bubble is durably blocked: everything the client
// has written has then been read, recorded and handled by the scripted broker. Call it before
// reading Frames()/Sent() when a call may have returned without waiting for the broker
// (cancelled contexts, replies that were sent ahead of the request).
func (e *Env) Settle() { synctest.Wait() }

// Since returns the virtual time elapsed in the bubble.
func (e *Env) Since() time.Duration { return time.Since(e.Start) }

// WaitTimeout waits for done for at most d (virtual inside a bubble).
func WaitTimeout(done <-chan struct{}, d time.Duration) bool {
	t := time.NewTimer(d)
	defer t.Stop()
	select {
	case <-done:
		return true
	case <-t.C:
		return false
	}
}

// Run executes body in a fresh bubble. A panic raised inside (rapid's failure panic, or the
// bubble's own deadlock report) is recovered, teardown runs, and the panic is re-raised on
// the caller's goroutine so that rapid can shrink.
func Run(tt *testing.T, body func(e *Env)) {
	var saved any
	var have bool
	func() {
		defer func() {
			if r := recover(); r != nil && !have {
				saved, have = r, true
			}
		}()
		synctest.Test(tt, func(t *testing.T) {
			e := &Env{T: t, Start: time.Now()}
			defer func() {
				if r := recover(); r != nil {
					saved, have = r, true
				}
				func() {
					defer func() { recover() }()
					for i := len(e.closers) - 1; i >= 0; i-- {
						e.closers[i]()
					}
				}()
			}()
			body(e)
		})
	}()
	if have {
		panic(saved)
	}
}

// KgoGoroutines returns the stacks of goroutines that have a pkg/kgo frame.
func KgoGoroutines() []string {
	buf := make([]byte, 1<<20)
	for {
		n := runtime.Stack(buf, true)
		if n < len(buf) {
			buf = buf[:n]
			break
		}
		buf = make([]byte, 2*len(buf))
	}
	var out []string
	for _, g := range strings.Split(string(buf), "\n\n") {
		if strings.Contains(g, "franz-go/pkg/kgo.") && !strings.Contains(g, "verif/h/") {
			out = append(out, g)
		}
	}
	return out
}
