// Package scriptbroker is a minimal scripted Kafka endpoint used by the checks that must
// see exactly what the client writes (C18, C21) or must answer with arbitrary bytes (C22).
//
// It accepts connections on a listener it is given (kfake.VirtualNetwork inside a
// synctest bubble, or a plain TCP listener), reads request frames
// (int32 size | int16 key | int16 version | int32 correlation id | nullable client id |
// [tagged fields if the request version is flexible] | body), records every frame, and hands
// each one to a Handler. The Handler decides what, if anything, is written back.
// Nothing here uses kgo; responses are built with kmsg only.
package scriptbroker

import (
	"encoding/binary"
	"errors"
	"fmt"
	"io"
	"net"
	"sync"

	"github.com/twmb/franz-go/pkg/kmsg"
)

// Frame is one request frame as written by the client.
type Frame struct {
	Seq      int     `json:"seq"`      // global arrival order
	Conn     int     `json:"conn"`     // connection number in accept order
	ConnSeq  int     `json:"conn_seq"` // order within the connection
	Key      int16   `json:"key"`
	Version  int16   `json:"version"`
	CorrID   int32   `json:"corr_id"`
	ClientID *string `json:"client_id,omitempty"`
	Size     int32   `json:"size"` // value of the length prefix (frame is 4+Size bytes)
	Raw      []byte  `json:"-"`    // the Size bytes after the length prefix
	Body     []byte  `json:"-"`    // request body after the header (Raw suffix)
	HdrErr   string  `json:"hdr_err,omitempty"`
	// BadVersion: the header version is outside 0..MaxVersion() of kmsg's request kind.
	BadVersion bool `json:"bad_version,omitempty"`
	// Malformed: the frame is not a well-formed Kafka request but its header was recovered.
	Malformed string `json:"malformed,omitempty"`
}

// Handler is called on the connection's reader goroutine, once per frame, in order.
type Handler func(c *Conn, f *Frame)

// Conn is the broker side of one client connection.
type Conn struct {
	id  int
	nc  net.Conn
	b   *Broker
	wmu sync.Mutex

	qmu     sync.Mutex
	q       []outItem
	sent    []byte
	writing bool
	qclosed bool
	// State is free for the handler (only touched on the reader goroutine).
	State any
}

// ID returns the accept-order number of the connection.
func (c *Conn) ID() int { return c.id }

// Write writes raw bytes to the client.
func (c *Conn) Write(p []byte) error {
	c.wmu.Lock()
	defer c.wmu.Unlock()
	_, err := c.nc.Write(p)
	return err
}

// Respond writes a correctly framed response for f.
func (c *Conn) Respond(f *Frame, resp kmsg.Response) error {
	return c.Write(EncodeResponse(f, resp))
}

// Close closes the connection.
func (c *Conn) Close() { c.nc.Close() }

type outItem struct {
	data  []byte
	close bool
}

// Send queues raw bytes for the connection's writer goroutine and returns at once; the
// reader keeps reading while the client is slow to take the bytes (net.Pipe is unbuffered).
// Everything queued is recorded in Sent() in order.
func (c *Conn) Send(p []byte) { c.enqueue(outItem{data: append([]byte(nil), p...)}) }

// CloseAfterSend closes the connection once everything queued before was written.
func (c *Conn) CloseAfterSend() { c.enqueue(outItem{close: true}) }

func (c *Conn) enqueue(it outItem) {
	c.qmu.Lock()
	if c.qclosed {
		c.qmu.Unlock()
		return
	}
	if it.close {
		c.qclosed = true
	} else {
		c.sent = append(c.sent, it.data...)
	}
	c.q = append(c.q, it)
	start := !c.writing
	c.writing = true
	if start {
		c.b.wg.Add(1)
	}
	c.qmu.Unlock()
	if start {
		go c.writer()
	}
}

func (c *Conn) writer() {
	defer c.b.wg.Done()
	for {
		c.qmu.Lock()
		if len(c.q) == 0 {
			c.writing = false
			c.qmu.Unlock()
			return
		}
		it := c.q[0]
		c.q = c.q[1:]
		c.qmu.Unlock()
		if it.close {
			c.nc.Close()
			continue
		}
		if _, err := c.nc.Write(it.data); err != nil {
			// connection gone: drop the rest
			c.qmu.Lock()
			c.q = nil
			c.writing = false
			c.qmu.Unlock()
			return
		}
	}
}

// Sent returns every byte queued with Send on this connection, in order, and whether the
// script asked for the connection to be closed afterwards.
func (c *Conn) Sent() ([]byte, bool) {
	c.qmu.Lock()
	defer c.qmu.Unlock()
	return append([]byte(nil), c.sent...), c.qclosed
}

// Broker is the scripted endpoint.
type Broker struct {
	ln net.Listener
	h  Handler

	mu     sync.Mutex
	frames []Frame
	conns  []*Conn
	closed bool
	wg     sync.WaitGroup
	// MaxFrame bounds the request size the broker accepts (default 64 MiB).
	MaxFrame int32
}

// New starts serving ln with h.
func New(ln net.Listener, h Handler) *Broker {
	b := &Broker{ln: ln, h: h, MaxFrame: 64 << 20}
	b.wg.Add(1)
	go b.accept()
	return b
}

func (b *Broker) accept() {
	defer b.wg.Done()
	for {
		nc, err := b.ln.Accept()
		if err != nil {
			return
		}
		b.mu.Lock()
		if b.closed {
			b.mu.Unlock()
			nc.Close()
			return
		}
		c := &Conn{id: len(b.conns), nc: nc, b: b}
		b.conns = append(b.conns, c)
		b.wg.Add(1)
		b.mu.Unlock()
		go b.serve(c)
	}
}

func (b *Broker) serve(c *Conn) {
	defer b.wg.Done()
	defer c.nc.Close()
	var szb [4]byte
	for n := 0; ; n++ {
		if _, err := io.ReadFull(c.nc, szb[:]); err != nil {
			return
		}
		size := int32(binary.BigEndian.Uint32(szb[:]))
		if size == 0 {
			// kmsg.RequestFormatter writes ControlledShutdown v0 as a zero length prefix
			// followed by key, version and correlation id only (no body, length never
			// patched). Recognise exactly that shape so that the header version is still
			// observable; anything else with size 0 is a framing error.
			var hdr [8]byte
			if _, err := io.ReadFull(c.nc, hdr[:]); err != nil {
				return
			}
			f := &Frame{Conn: c.id, ConnSeq: n, Size: 0, Raw: append([]byte(nil), hdr[:]...)}
			f.Key = int16(binary.BigEndian.Uint16(hdr[:]))
			f.Version = int16(binary.BigEndian.Uint16(hdr[2:]))
			f.CorrID = int32(binary.BigEndian.Uint32(hdr[4:]))
			if f.Key == 7 && f.Version == 0 {
				f.Malformed = "length prefix 0 and no body (ControlledShutdown v0 as written by kmsg.RequestFormatter)"
				b.record(f)
				b.h(c, f)
				continue
			}
			f.HdrErr = "bad request size 0"
			b.record(f)
			return
		}
		if size < 8 || size > b.MaxFrame {
			b.record(&Frame{Conn: c.id, ConnSeq: n, Size: size, HdrErr: fmt.Sprintf("bad request size %d", size)})
			return
		}
		raw := make([]byte, size)
		if _, err := io.ReadFull(c.nc, raw); err != nil {
			return
		}
		f := &Frame{Conn: c.id, ConnSeq: n, Size: size, Raw: raw}
		if err := parseHeader(f); err != nil {
			f.HdrErr = err.Error()
		}
		b.record(f)
		if f.HdrErr != "" {
			return
		}
		b.h(c, f)
	}
}

func (b *Broker) record(f *Frame) {
	b.mu.Lock()
	f.Seq = len(b.frames)
	b.frames = append(b.frames, *f)
	b.mu.Unlock()
}

// Frames returns a copy of every frame recorded so far.
func (b *Broker) Frames() []Frame {
	b.mu.Lock()
	defer b.mu.Unlock()
	return append([]Frame(nil), b.frames...)
}

// Conns returns the accepted connections in accept order.
func (b *Broker) Conns() []*Conn {
	b.mu.Lock()
	defer b.mu.Unlock()
	return append([]*Conn(nil), b.conns...)
}

// NumConns returns how many connections were accepted.
func (b *Broker) NumConns() int { b.mu.Lock(); defer b.mu.Unlock(); return len(b.conns) }

// KillConns closes every open connection (the listener stays open).
func (b *Broker) KillConns() {
	b.mu.Lock()
	cs := append([]*Conn(nil), b.conns...)
	b.mu.Unlock()
	for _, c := range cs {
		c.nc.Close()
	}
}

// Close stops the listener, closes all connections and waits for the goroutines.
func (b *Broker) Close() {
	b.mu.Lock()
	if b.closed {
		b.mu.Unlock()
		return
	}
	b.closed = true
	cs := append([]*Conn(nil), b.conns...)
	b.mu.Unlock()
	b.ln.Close()
	for _, c := range cs {
		c.nc.Close()
	}
	b.wg.Wait()
}

// parseHeader decodes the request header. The client id is always a non-compact nullable
// string; a tagged-field section follows iff the request version is flexible.
// ControlledShutdown v0 has no client id at all.
func parseHeader(f *Frame) error {
	r := f.Raw
	if len(r) < 8 {
		return errors.New("short header")
	}
	f.Key = int16(binary.BigEndian.Uint16(r))
	f.Version = int16(binary.BigEndian.Uint16(r[2:]))
	f.CorrID = int32(binary.BigEndian.Uint32(r[4:]))
	r = r[8:]
	if f.Key == 7 && f.Version == 0 {
		f.Body = r
		return nil
	}
	if len(r) < 2 {
		return errors.New("short client id length")
	}
	l := int16(binary.BigEndian.Uint16(r))
	r = r[2:]
	if l >= 0 {
		if len(r) < int(l) {
			return errors.New("short client id")
		}
		s := string(r[:l])
		f.ClientID = &s
		r = r[l:]
	} else if l != -1 {
		return fmt.Errorf("client id length %d", l)
	}
	req := kmsg.RequestForKey(f.Key)
	if req == nil {
		return fmt.Errorf("unknown request key %d", f.Key)
	}
	if f.Version < 0 || f.Version > req.MaxVersion() {
		// A version kmsg itself cannot encode: keep the frame (the checks look at the
		// header version) but do not try to interpret what follows the client id.
		f.BadVersion = true
		f.Body = r
		return nil
	}
	req.SetVersion(f.Version)
	if req.IsFlexible() {
		// header tagged fields: uvarint count, then (uvarint tag, uvarint len, bytes)*
		n, used := uvarint(r)
		if used <= 0 {
			return errors.New("bad header tag count")
		}
		r = r[used:]
		for i := uint32(0); i < n; i++ {
			_, u1 := uvarint(r)
			if u1 <= 0 {
				return errors.New("bad header tag key")
			}
			r = r[u1:]
			l, u2 := uvarint(r)
			if u2 <= 0 || int(l) > len(r)-u2 {
				return errors.New("bad header tag length")
			}
			r = r[u2+int(l):]
		}
	}
	f.Body = r
	return nil
}

// HeaderTagCount returns the number of header tagged fields of a flexible request frame
// and whether the frame has a tag section at all.
func HeaderTagCount(f *Frame) (uint32, bool) {
	req := kmsg.RequestForKey(f.Key)
	if req == nil {
		return 0, false
	}
	req.SetVersion(f.Version)
	if !req.IsFlexible() {
		return 0, false
	}
	off := 8 + 2
	if f.ClientID != nil {
		off += len(*f.ClientID)
	}
	if off >= len(f.Raw) {
		return 0, false
	}
	n, _ := uvarint(f.Raw[off:])
	return n, true
}

func uvarint(b []byte) (uint32, int) {
	var x uint64
	for i := 0; i < len(b) && i < 5; i++ {
		x |= uint64(b[i]&0x7f) << (7 * uint(i))
		if b[i]&0x80 == 0 {
			if x > 0xffffffff {
				return 0, -1
			}
			return uint32(x), i + 1
		}
	}
	return 0, -1
}

// ParseRequest decodes the body of f with kmsg at the frame's version.
func ParseRequest(f *Frame) (kmsg.Request, error) {
	req := kmsg.RequestForKey(f.Key)
	if req == nil {
		return nil, fmt.Errorf("unknown key %d", f.Key)
	}
	if f.BadVersion {
		return nil, fmt.Errorf("key %d version %d is outside kmsg's range", f.Key, f.Version)
	}
	if f.Malformed != "" {
		req.SetVersion(f.Version)
		return req, nil
	}
	req.SetVersion(f.Version)
	if err := req.ReadFrom(f.Body); err != nil {
		return req, err
	}
	return req, nil
}

// ResponseFor returns the empty response kind for f at f's version.
func ResponseFor(f *Frame) kmsg.Response {
	req := kmsg.RequestForKey(f.Key)
	req.SetVersion(f.Version)
	resp := req.ResponseKind()
	resp.SetVersion(f.Version)
	return resp
}

// FlexibleResponseHeader reports whether the response header for f carries a tagged-field
// section: flexible request versions, except ApiVersions (response header v0 always).
func FlexibleResponseHeader(f *Frame) bool {
	req := kmsg.RequestForKey(f.Key)
	if req == nil {
		return false
	}
	req.SetVersion(f.Version)
	return req.IsFlexible() && f.Key != 18
}

// EncodeResponse frames resp for f: size | correlation id | [0 tags] | body.
func EncodeResponse(f *Frame, resp kmsg.Response) []byte {
	return EncodeRaw(f.CorrID, FlexibleResponseHeader(f), resp.AppendTo(nil))
}

// EncodeRaw frames an arbitrary body.
func EncodeRaw(corr int32, flexibleHeader bool, body []byte) []byte {
	out := make([]byte, 4, 4+4+1+len(body))
	out = binary.BigEndian.AppendUint32(out, uint32(corr))
	if flexibleHeader {
		out = append(out, 0)
	}
	out = append(out, body...)
	binary.BigEndian.PutUint32(out, uint32(len(out)-4))
	return out
}
