package c08

import (
	"fmt"
	"testing"

	"pgregory.net/rapid"

	"verif/h/bubble"
	"verif/h/ev"
	"verif/h/wl"
)

func TestMain(m *testing.M) { ev.Main(m, "C08") }

func TestAutocommitNeverSkips(t *testing.T) { autocommitNeverSkips(t, wl.GroupFocus{}) }

// TestAutocommitNeverSkipsCoopMulti searches the incremental protocols with members consuming
// several topics: a rebalance there takes some partitions away while the member keeps
// consuming (and autocommitting) the others across the session change.
func TestAutocommitNeverSkipsCoopMulti(t *testing.T) {
	autocommitNeverSkips(t, wl.GroupFocus{CoopMulti: true})
}

func autocommitNeverSkips(t *testing.T, focus wl.GroupFocus) {
	rapid.Check(t, func(rt *rapid.T) {
		plan := wl.GenGroupPlanF(rt, focus)
		plan.DefaultRevoke = true // the property is about default autocommit AND default revoke handling
		var o *wl.GroupObs
		checked := 0
		bubble.Run(t, rt, func(e *bubble.Env) {
			o = wl.RunGroup(e, plan)
			fail := func(format string, a ...any) {
				rt.Fatalf("%s\nplan: %s\nhistory tail:\n%s", fmt.Sprintf(format, a...), plan.Brief(), o.Log.Dump(60))
			}
			// index polls per partition: for each returned offset, the earliest log index at which the
			// returning member had started a LATER poll (i.e. the record stopped being 'dirty')
			type key struct {
				tp  wl.TP
				off int64
			}
			cleanAt := map[key]int{}
			byMember := map[string][]*wl.PollEv{}
			for _, pe := range o.Polls {
				byMember[pe.Member] = append(byMember[pe.Member], pe)
			}
			for _, polls := range byMember {
				for i, pe := range polls {
					if i+1 >= len(polls) {
						continue // last poll of this member: its records stay dirty
					}
					next := polls[i+1].StartN
					for tp, offs := range pe.Offsets {
						for _, x := range offs {
							k := key{tp, x}
							if cur, ok := cleanAt[k]; !ok || next < cur {
								cleanAt[k] = next
							}
						}
					}
				}
			}
			for _, c := range o.Commits {
				for _, r := range o.Truth[c.TP] {
					if r.Control || r.Offset >= c.Offset {
						continue
					}
					at, ok := cleanAt[key{c.TP, r.Offset}]
					if !ok || at > c.N {
						why := "was never returned by a poll that was followed by another poll of the same member"
						if ok {
							why = fmt.Sprintf("only stopped being the most recent poll at log #%d, after the commit", at)
						}
						if o.Returned[c.TP][r.Offset] && !ok {
							why = "was only ever returned by a member's most recent poll"
						}
						fail("commit of %s offset %d (member %q) observed at log #%d covers offset %d, which %s", c.TP, c.Offset, c.MemberID, c.N, r.Offset, why)
					}
					checked++
				}
			}
			for tp, off := range o.Committed {
				for _, r := range o.Truth[tp] {
					if r.Control || r.Offset >= off {
						continue
					}
					if !o.Returned[tp][r.Offset] {
						fail("final committed offset of %s is %d but offset %d was never returned to any member", tp, off, r.Offset)
					}
				}
			}
		})
		nt := o.Moves > 0 && len(o.Commits) > 0
		ev.Case(o.Digest(), nt)
		ev.Class("protocol:" + plan.Protocol)
		if o.Moves > 0 {
			ev.Class("partition-moved-between-members")
		}
		ev.ClassN("commit-entries-observed", int64(len(o.Commits)))
		ev.ClassN("record-commit-pairs-checked", int64(checked))
		ev.ClassN("polls", int64(len(o.Polls)))
		if nt {
			ev.SampleIf(func() any {
				return map[string]any{"plan": plan.Brief(), "commits": len(o.Commits), "polls": len(o.Polls), "final_committed": fmt.Sprint(o.Committed)}
			})
		}
	})
}
