//go:build verif

// Package crashfs is a crash-simulating in-memory file system for kfake's
// persistence layer (engine of check C33).
//
// An *FS implements kfake.VerifFS. While a workload runs against it, it behaves
// like kfake's own in-tree memFS (every write is immediately visible to readers)
// and records every state-changing operation in an operation log with a global
// op index. Read-only operations (ReadFile, ReadDir, Stat, Read, Seek) are not
// logged: they cannot change what survives a crash.
//
// From the log alone, Log.Materialize(k, cuts) builds the file system that a
// restarted process could find after the original process stopped right before
// operation k, WITHOUT re-running the workload.
//
// # Crash model (exactly what is simulated; a subset of what POSIX allows)
//
//   - A file is an inode: a byte string plus the names that refer to it. Name
//     operations - creation by OpenFile(O_CREATE), Rename (atomically replacing the
//     target), Remove, RemoveAll, MkdirAll - are applied in program order and are
//     DURABLE as soon as they return. (kfake never fsyncs a directory, and the
//     property quantifies over "loss of any unsynced data written after the last
//     sync of each file" only; losing directory entries is therefore not modelled.
//     One consequence that POSIX does allow and that IS modelled: a Rename is
//     durable while the renamed inode's unsynced content is not, so renaming a
//     never-synced temp file over a good file can leave a short or empty file
//     under the good name.)
//   - Content operations on an inode - Write(bytes at pos), Truncate(size) and the
//     truncation implied by OpenFile(O_TRUNC) - become durable at the next Sync on
//     ANY handle of that inode (fsync flushes the file, not the handle). A Sync
//     makes the inode's whole current content durable.
//   - At a crash before op k every inode's durable content is: its content as of
//     its last Sync among ops[0:k] (empty if it was never synced), followed by an
//     IN-ORDER PREFIX of the content operations issued after that Sync: the first
//     Cut.Ops of them completely, and, if the next one is a Write, optionally its
//     first Cut.Bytes bytes (a torn write). Cut{Ops: all} = "keep all" (the page
//     cache was flushed by luck), Cut{} = "drop all", anything between = a
//     generated prefix. Operations are never reordered and lost bytes never turn
//     into arbitrary garbage (both also allowed by POSIX, outside this model).
//   - Optionally (Cut.Zero) the file SIZE changes of the lost operations survive
//     while their data does not: lost writes (and the lost tail of a torn write)
//     read back as zero bytes, lost truncations are applied. This is the
//     "inode size journaled, data blocks not yet written" outcome of delayed
//     allocation file systems; it is the case record checksums exist for.
//   - Open handles do not survive. An inode with no name left at op k is gone.
package crashfs

import (
	"fmt"
	"io"
	"os"
	"sort"
	"strings"
	"sync"
	"time"

	"github.com/twmb/franz-go/pkg/kfake"
)

// Kind is the kind of a logged operation.
type Kind uint8

const (
	OpOpen Kind = iota
	OpWrite
	OpSync
	OpTruncate
	OpRename
	OpRemove
	OpRemoveAll
	OpMkdirAll
	OpClose
)

var kindNames = [...]string{"open", "write", "sync", "truncate", "rename", "remove", "removeall", "mkdirall", "close"}

func (k Kind) String() string { return kindNames[k] }

// Op is one logged operation. Index in Log.Ops is the global op index.
type Op struct {
	Kind    Kind   `json:"k"`
	Path    string `json:"p,omitempty"`  // name used (open/remove/mkdir), old name (rename); for handle ops the name the handle was opened with
	Path2   string `json:"p2,omitempty"` // rename target
	Flag    int    `json:"f,omitempty"`  // open flags
	Ino     int    `json:"i,omitempty"`  // inode id for open/write/sync/truncate/close (ids start at 1)
	Created bool   `json:"c,omitempty"`  // open created the inode
	Pos     int64  `json:"o,omitempty"`  // write position (already resolved for O_APPEND)
	Data    []byte `json:"d,omitempty"`  // written bytes
	Size    int64  `json:"s,omitempty"`  // truncate size
	Handle  int    `json:"h,omitempty"`  // handle id
}

func (o Op) String() string {
	switch o.Kind {
	case OpOpen:
		return fmt.Sprintf("open %s flags=%s ino=%d created=%v", o.Path, flagString(o.Flag), o.Ino, o.Created)
	case OpWrite:
		return fmt.Sprintf("write %s ino=%d pos=%d len=%d", o.Path, o.Ino, o.Pos, len(o.Data))
	case OpSync:
		return fmt.Sprintf("sync %s ino=%d", o.Path, o.Ino)
	case OpTruncate:
		return fmt.Sprintf("truncate %s ino=%d size=%d", o.Path, o.Ino, o.Size)
	case OpRename:
		return fmt.Sprintf("rename %s -> %s", o.Path, o.Path2)
	case OpClose:
		return fmt.Sprintf("close %s ino=%d", o.Path, o.Ino)
	}
	return fmt.Sprintf("%s %s", o.Kind, o.Path)
}

func flagString(f int) string {
	var s []string
	switch f & (os.O_RDONLY | os.O_WRONLY | os.O_RDWR) {
	case os.O_RDONLY:
		s = append(s, "RDONLY")
	case os.O_WRONLY:
		s = append(s, "WRONLY")
	case os.O_RDWR:
		s = append(s, "RDWR")
	}
	for _, x := range []struct {
		f int
		n string
	}{{os.O_CREATE, "CREATE"}, {os.O_TRUNC, "TRUNC"}, {os.O_APPEND, "APPEND"}, {os.O_EXCL, "EXCL"}} {
		if f&x.f != 0 {
			s = append(s, x.n)
		}
	}
	return strings.Join(s, "|")
}

// Mark is a harness annotation: "op index At is where <Label> was observed".
type Mark struct {
	At    int    `json:"at"`
	Label string `json:"label"`
}

// Log is a recorded operation log.
type Log struct {
	Ops   []Op   `json:"ops"`
	Marks []Mark `json:"marks,omitempty"`
	// Genesis > 0: ops[0:Genesis] are the synthetic, fully synced creation of the
	// state a materialised file system started with; real ops follow.
	Genesis int `json:"genesis,omitempty"`
}

type inode struct {
	id   int
	data []byte
}

// FS is the recording file system.
type FS struct {
	mu      sync.Mutex
	files   map[string]*inode
	dirs    map[string]bool
	nextIno int
	nextH   int
	log     Log
	record  bool
	// UseAfterClose counts content operations attempted on a closed handle
	// (they fail with os.ErrClosed like a real *os.File would).
	useAfterClose int
}

// New returns an empty recording file system.
func New() *FS {
	return &FS{files: map[string]*inode{}, dirs: map[string]bool{"/": true}, record: true}
}

var _ kfake.VerifFS = (*FS)(nil)

// Len is the number of operations logged so far: everything that made an
// acknowledgement possible has an index below the Len() read after the
// acknowledgement was received.
func (m *FS) Len() int { m.mu.Lock(); defer m.mu.Unlock(); return len(m.log.Ops) }

// Mark annotates the current position of the log.
func (m *FS) Mark(label string) int {
	m.mu.Lock()
	defer m.mu.Unlock()
	m.log.Marks = append(m.log.Marks, Mark{At: len(m.log.Ops), Label: label})
	return len(m.log.Ops)
}

// UseAfterClose reports how many writes/syncs/truncates hit a closed handle.
func (m *FS) UseAfterClose() int { m.mu.Lock(); defer m.mu.Unlock(); return m.useAfterClose }

// Log returns a copy of the log header sharing the (append-only) op slice.
func (m *FS) Log() *Log {
	m.mu.Lock()
	defer m.mu.Unlock()
	return &Log{Ops: m.log.Ops[:len(m.log.Ops):len(m.log.Ops)], Marks: append([]Mark(nil), m.log.Marks...), Genesis: m.log.Genesis}
}

func (m *FS) add(o Op) {
	if m.record {
		m.log.Ops = append(m.log.Ops, o)
	}
}

func parents(p string) []string {
	var out []string
	for {
		i := strings.LastIndexByte(p, '/')
		if i <= 0 {
			return out
		}
		p = p[:i]
		out = append(out, p)
	}
}

func (m *FS) OpenFile(name string, flag int, _ os.FileMode) (kfake.VerifFile, error) {
	m.mu.Lock()
	defer m.mu.Unlock()
	d, exists := m.files[name]
	created := false
	if !exists {
		if flag&os.O_CREATE == 0 {
			return nil, &os.PathError{Op: "open", Path: name, Err: os.ErrNotExist}
		}
		m.nextIno++
		d = &inode{id: m.nextIno}
		m.files[name] = d
		created = true
	}
	if m.dirs[name] {
		return nil, &os.PathError{Op: "open", Path: name, Err: fmt.Errorf("is a directory")}
	}
	writable := flag&(os.O_WRONLY|os.O_RDWR) != 0
	if flag&os.O_TRUNC != 0 && writable {
		d.data = d.data[:0:0]
	}
	m.nextH++
	h := &handle{fs: m, name: name, d: d, flag: flag, id: m.nextH}
	if flag&os.O_APPEND != 0 {
		h.pos = int64(len(d.data))
	}
	// Pure read-only opens of existing files change nothing durable.
	if created || writable {
		m.add(Op{Kind: OpOpen, Path: name, Flag: flag, Ino: d.id, Created: created, Handle: h.id})
		h.logged = true
	}
	return h, nil
}

func (m *FS) Rename(oldpath, newpath string) error {
	m.mu.Lock()
	defer m.mu.Unlock()
	if d, ok := m.files[oldpath]; ok {
		m.files[newpath] = d
		delete(m.files, oldpath)
		m.add(Op{Kind: OpRename, Path: oldpath, Path2: newpath})
		return nil
	}
	if m.dirs[oldpath] {
		pre := oldpath + "/"
		for k, d := range m.files {
			if strings.HasPrefix(k, pre) {
				delete(m.files, k)
				m.files[newpath+"/"+k[len(pre):]] = d
			}
		}
		for k := range m.dirs {
			if k == oldpath || strings.HasPrefix(k, pre) {
				delete(m.dirs, k)
				m.dirs[newpath+k[len(oldpath):]] = true
			}
		}
		m.add(Op{Kind: OpRename, Path: oldpath, Path2: newpath})
		return nil
	}
	return &os.PathError{Op: "rename", Path: oldpath, Err: os.ErrNotExist}
}

func (m *FS) Remove(name string) error {
	m.mu.Lock()
	defer m.mu.Unlock()
	if _, ok := m.files[name]; ok {
		delete(m.files, name)
		m.add(Op{Kind: OpRemove, Path: name})
		return nil
	}
	if m.dirs[name] {
		delete(m.dirs, name)
		m.add(Op{Kind: OpRemove, Path: name})
		return nil
	}
	return &os.PathError{Op: "remove", Path: name, Err: os.ErrNotExist}
}

func (m *FS) RemoveAll(path string) error {
	m.mu.Lock()
	defer m.mu.Unlock()
	pre := path + "/"
	for k := range m.files {
		if k == path || strings.HasPrefix(k, pre) {
			delete(m.files, k)
		}
	}
	for k := range m.dirs {
		if k == path || strings.HasPrefix(k, pre) {
			delete(m.dirs, k)
		}
	}
	m.add(Op{Kind: OpRemoveAll, Path: path})
	return nil
}

func (m *FS) MkdirAll(path string, _ os.FileMode) error {
	m.mu.Lock()
	defer m.mu.Unlock()
	m.dirs[path] = true
	for _, p := range parents(path) {
		m.dirs[p] = true
	}
	m.add(Op{Kind: OpMkdirAll, Path: path})
	return nil
}

type dirEntry struct {
	name  string
	isDir bool
	size  int64
}

func (e dirEntry) Name() string { return e.name }
func (e dirEntry) IsDir() bool  { return e.isDir }
func (e dirEntry) Type() os.FileMode {
	if e.isDir {
		return os.ModeDir
	}
	return 0
}
func (e dirEntry) Info() (os.FileInfo, error) { return fileInfo(e), nil }

type fileInfo struct {
	name  string
	isDir bool
	size  int64
}

func (i fileInfo) Name() string { return i.name }
func (i fileInfo) Size() int64  { return i.size }
func (i fileInfo) Mode() os.FileMode {
	if i.isDir {
		return os.ModeDir | 0o755
	}
	return 0o644
}
func (fileInfo) ModTime() time.Time { return time.Time{} }
func (i fileInfo) IsDir() bool      { return i.isDir }
func (fileInfo) Sys() any           { return nil }

func (m *FS) ReadDir(name string) ([]os.DirEntry, error) {
	m.mu.Lock()
	defer m.mu.Unlock()
	pre := name
	if pre != "/" && !strings.HasSuffix(pre, "/") {
		pre += "/"
	}
	seen := map[string]dirEntry{}
	for k, d := range m.files {
		if !strings.HasPrefix(k, pre) {
			continue
		}
		rest := k[len(pre):]
		if i := strings.IndexByte(rest, '/'); i >= 0 {
			seen[rest[:i]] = dirEntry{name: rest[:i], isDir: true}
		} else if rest != "" {
			seen[rest] = dirEntry{name: rest, size: int64(len(d.data))}
		}
	}
	for k := range m.dirs {
		if !strings.HasPrefix(k, pre) {
			continue
		}
		rest := k[len(pre):]
		if rest == "" {
			continue
		}
		if i := strings.IndexByte(rest, '/'); i >= 0 {
			rest = rest[:i]
		}
		seen[rest] = dirEntry{name: rest, isDir: true}
	}
	if len(seen) == 0 && !m.dirs[name] {
		return nil, &os.PathError{Op: "readdir", Path: name, Err: os.ErrNotExist}
	}
	names := make([]string, 0, len(seen))
	for n := range seen {
		names = append(names, n)
	}
	sort.Strings(names) // os.ReadDir sorts by name
	out := make([]os.DirEntry, len(names))
	for i, n := range names {
		out[i] = seen[n]
	}
	return out, nil
}

func (m *FS) ReadFile(name string) ([]byte, error) {
	m.mu.Lock()
	defer m.mu.Unlock()
	d, ok := m.files[name]
	if !ok {
		return nil, &os.PathError{Op: "read", Path: name, Err: os.ErrNotExist}
	}
	return append([]byte(nil), d.data...), nil
}

func (m *FS) Stat(name string) (os.FileInfo, error) {
	m.mu.Lock()
	defer m.mu.Unlock()
	if d, ok := m.files[name]; ok {
		return fileInfo{name: base(name), size: int64(len(d.data))}, nil
	}
	if m.dirs[name] {
		return fileInfo{name: base(name), isDir: true}, nil
	}
	return nil, &os.PathError{Op: "stat", Path: name, Err: os.ErrNotExist}
}

func base(p string) string { return p[strings.LastIndexByte(p, '/')+1:] }

// Files returns name -> content of every file (a copy), for state comparison.
func (m *FS) Files() map[string][]byte {
	m.mu.Lock()
	defer m.mu.Unlock()
	out := make(map[string][]byte, len(m.files))
	for k, d := range m.files {
		out[k] = append([]byte(nil), d.data...)
	}
	return out
}

type handle struct {
	fs     *FS
	name   string
	d      *inode
	pos    int64
	flag   int
	id     int
	closed bool
	logged bool
}

func (h *handle) writable() bool { return h.flag&(os.O_WRONLY|os.O_RDWR) != 0 }

func (h *handle) Write(b []byte) (int, error) {
	h.fs.mu.Lock()
	defer h.fs.mu.Unlock()
	if h.closed {
		h.fs.useAfterClose++
		return 0, &os.PathError{Op: "write", Path: h.name, Err: os.ErrClosed}
	}
	if !h.writable() {
		return 0, &os.PathError{Op: "write", Path: h.name, Err: os.ErrPermission}
	}
	if h.flag&os.O_APPEND != 0 {
		h.pos = int64(len(h.d.data))
	}
	h.d.data = writeAt(h.d.data, h.pos, b)
	h.fs.add(Op{Kind: OpWrite, Path: h.name, Ino: h.d.id, Pos: h.pos, Data: append([]byte(nil), b...), Handle: h.id})
	h.pos += int64(len(b))
	return len(b), nil
}

func writeAt(data []byte, pos int64, b []byte) []byte {
	end := pos + int64(len(b))
	for int64(len(data)) < end {
		if int64(cap(data)) >= end {
			n := len(data)
			data = data[:end]
			clear(data[n:])
			break
		}
		grown := make([]byte, end, max(2*int64(cap(data)), end))
		copy(grown, data)
		data = grown
	}
	copy(data[pos:], b)
	return data
}

func truncateTo(data []byte, size int64) []byte {
	if size <= int64(len(data)) {
		return data[:size]
	}
	return writeAt(data, size, nil) // zero-extends
}

func (h *handle) Read(b []byte) (int, error) {
	h.fs.mu.Lock()
	defer h.fs.mu.Unlock()
	if h.closed {
		return 0, &os.PathError{Op: "read", Path: h.name, Err: os.ErrClosed}
	}
	if h.pos >= int64(len(h.d.data)) {
		return 0, io.EOF
	}
	n := copy(b, h.d.data[h.pos:])
	h.pos += int64(n)
	return n, nil
}

func (h *handle) Seek(offset int64, whence int) (int64, error) {
	h.fs.mu.Lock()
	defer h.fs.mu.Unlock()
	if h.closed {
		return 0, &os.PathError{Op: "seek", Path: h.name, Err: os.ErrClosed}
	}
	switch whence {
	case io.SeekStart:
		h.pos = offset
	case io.SeekCurrent:
		h.pos += offset
	case io.SeekEnd:
		h.pos = int64(len(h.d.data)) + offset
	}
	return h.pos, nil
}

func (h *handle) Truncate(size int64) error {
	h.fs.mu.Lock()
	defer h.fs.mu.Unlock()
	if h.closed {
		h.fs.useAfterClose++
		return &os.PathError{Op: "truncate", Path: h.name, Err: os.ErrClosed}
	}
	if !h.writable() {
		return &os.PathError{Op: "truncate", Path: h.name, Err: os.ErrPermission}
	}
	h.d.data = truncateTo(h.d.data, size)
	h.fs.add(Op{Kind: OpTruncate, Path: h.name, Ino: h.d.id, Size: size, Handle: h.id})
	return nil
}

func (h *handle) Sync() error {
	h.fs.mu.Lock()
	defer h.fs.mu.Unlock()
	if h.closed {
		h.fs.useAfterClose++
		return &os.PathError{Op: "sync", Path: h.name, Err: os.ErrClosed}
	}
	h.fs.add(Op{Kind: OpSync, Path: h.name, Ino: h.d.id, Handle: h.id})
	return nil
}

func (h *handle) Close() error {
	h.fs.mu.Lock()
	defer h.fs.mu.Unlock()
	if h.closed {
		return &os.PathError{Op: "close", Path: h.name, Err: os.ErrClosed}
	}
	h.closed = true
	if h.logged {
		h.fs.add(Op{Kind: OpClose, Path: h.name, Ino: h.d.id, Handle: h.id})
	}
	return nil
}

// ---------------------------------------------------------------------------
// Crash-state materialisation

// Cut says how much of one inode's unsynced content operations survives:
// the first Ops of them completely and, if the following one is a Write, its
// first Bytes bytes.
type Cut struct {
	Ops   int  `json:"ops"`
	Bytes int  `json:"bytes,omitempty"`
	Zero  bool `json:"zero,omitempty"` // sizes of the lost ops survive, their data reads as zero
}

// DirtyFile describes an inode that has unsynced content operations at a
// crash point.
type DirtyFile struct {
	Ino      int    // inode id
	Name     string // a name of the inode at the crash point ("" if unlinked)
	SyncedAt int    // op index of its last Sync before the crash point, -1 if none
	Pending  []int  // op indexes of the content operations after that Sync
}

// All is the "keep everything" cut for the file.
func (d DirtyFile) All() Cut { return Cut{Ops: len(d.Pending)} }

// istate is one inode during replay.
type istate struct {
	synced   []byte
	cur      []byte
	syncedAt int
	pending  []int
}

type replay struct {
	names map[string]int // file name -> inode id
	dirs  map[string]bool
	inos  map[int]*istate
}

func (l *Log) replay(k int) *replay {
	if k < 0 || k > len(l.Ops) {
		panic(fmt.Sprintf("crashfs: prefix %d out of range [0,%d]", k, len(l.Ops)))
	}
	r := &replay{names: map[string]int{}, dirs: map[string]bool{"/": true}, inos: map[int]*istate{}}
	for i := 0; i < k; i++ {
		o := &l.Ops[i]
		switch o.Kind {
		case OpOpen:
			if o.Created {
				r.inos[o.Ino] = &istate{syncedAt: -1}
				r.names[o.Path] = o.Ino
			}
			if o.Flag&os.O_TRUNC != 0 && o.Flag&(os.O_WRONLY|os.O_RDWR) != 0 {
				st := r.inos[o.Ino]
				if len(st.cur) > 0 || len(st.pending) > 0 {
					st.cur = st.cur[:0:0]
					st.pending = append(st.pending, i)
				}
			}
		case OpWrite:
			st := r.inos[o.Ino]
			st.cur = writeAt(st.cur, o.Pos, o.Data)
			st.pending = append(st.pending, i)
		case OpTruncate:
			st := r.inos[o.Ino]
			st.cur = truncateTo(st.cur, o.Size)
			st.pending = append(st.pending, i)
		case OpSync:
			st := r.inos[o.Ino]
			st.synced = append([]byte(nil), st.cur...)
			st.syncedAt = i
			st.pending = nil
		case OpRename:
			if ino, ok := r.names[o.Path]; ok {
				r.names[o.Path2] = ino
				delete(r.names, o.Path)
			} else if r.dirs[o.Path] {
				pre := o.Path + "/"
				for n, ino := range r.names {
					if strings.HasPrefix(n, pre) {
						delete(r.names, n)
						r.names[o.Path2+"/"+n[len(pre):]] = ino
					}
				}
				for d := range r.dirs {
					if d == o.Path || strings.HasPrefix(d, pre) {
						delete(r.dirs, d)
						r.dirs[o.Path2+d[len(o.Path):]] = true
					}
				}
			}
		case OpRemove:
			if _, ok := r.names[o.Path]; ok {
				delete(r.names, o.Path)
			} else {
				delete(r.dirs, o.Path)
			}
		case OpRemoveAll:
			pre := o.Path + "/"
			for n := range r.names {
				if n == o.Path || strings.HasPrefix(n, pre) {
					delete(r.names, n)
				}
			}
			for d := range r.dirs {
				if d == o.Path || strings.HasPrefix(d, pre) {
					delete(r.dirs, d)
				}
			}
		case OpMkdirAll:
			r.dirs[o.Path] = true
			for _, p := range parents(o.Path) {
				r.dirs[p] = true
			}
		case OpClose:
		}
	}
	return r
}

// Dirty lists, sorted by inode id, the still-named inodes that have unsynced
// content operations when the process stops before op k.
func (l *Log) Dirty(k int) []DirtyFile {
	r := l.replay(k)
	byIno := map[int]string{}
	for n, ino := range r.names {
		if cur, ok := byIno[ino]; !ok || n < cur {
			byIno[ino] = n
		}
	}
	var out []DirtyFile
	for ino, name := range byIno {
		st := r.inos[ino]
		if len(st.pending) > 0 {
			out = append(out, DirtyFile{Ino: ino, Name: name, SyncedAt: st.syncedAt, Pending: append([]int(nil), st.pending...)})
		}
	}
	sort.Slice(out, func(i, j int) bool { return out[i].Ino < out[j].Ino })
	return out
}

// Materialize builds the file system found after a stop before op k. cuts maps
// inode id -> surviving prefix of its unsynced content operations; inodes that
// are not in the map keep everything ("the page cache happened to be flushed").
// The returned FS records its own (new) log.
func (l *Log) Materialize(k int, cuts map[int]Cut) *FS {
	r := l.replay(k)
	out := New()
	for d := range r.dirs {
		out.dirs[d] = true
	}
	built := map[int]*inode{}
	for name, ino := range r.names {
		d, ok := built[ino]
		if !ok {
			st := r.inos[ino]
			data := st.cur
			if c, cut := cuts[ino]; cut && (c.Ops < len(st.pending)) {
				data = append([]byte(nil), st.synced...)
				if c.Ops < 0 {
					panic("crashfs: negative cut")
				}
				for j := 0; j < c.Ops; j++ {
					data = l.applyContent(data, st.pending[j], -1)
				}
				if c.Bytes > 0 {
					data = l.applyContent(data, st.pending[c.Ops], c.Bytes)
				}
				if c.Zero {
					for j := c.Ops; j < len(st.pending); j++ {
						o := &l.Ops[st.pending[j]]
						if o.Kind != OpWrite {
							data = l.applyContent(data, st.pending[j], -1)
							continue
						}
						skip := 0
						if j == c.Ops {
							skip = c.Bytes
						}
						data = writeAt(data, o.Pos+int64(skip), make([]byte, len(o.Data)-skip))
					}
				}
			}
			out.nextIno++
			d = &inode{id: out.nextIno, data: append([]byte(nil), data...)}
			built[ino] = d
		}
		out.files[name] = d
	}
	out.genesis()
	return out
}

// genesis logs the pre-existing content of a materialised file system as
// synthetic, fully synced operations, so that the log of the file system
// (recovery writes, later requests, Close) can itself be crashed: every prefix
// k >= Log.Genesis of it is a crash point of the SECOND process.
func (m *FS) genesis() {
	dirs := make([]string, 0, len(m.dirs))
	for d := range m.dirs {
		dirs = append(dirs, d)
	}
	sort.Strings(dirs)
	for _, d := range dirs {
		m.add(Op{Kind: OpMkdirAll, Path: d})
	}
	names := make([]string, 0, len(m.files))
	for n := range m.files {
		names = append(names, n)
	}
	sort.Strings(names)
	done := map[int]string{}
	for _, n := range names {
		d := m.files[n]
		if first, ok := done[d.id]; ok {
			panic(fmt.Sprintf("crashfs: inode %d has two names %s and %s", d.id, first, n))
		}
		done[d.id] = n
		m.nextH++
		h := m.nextH
		m.add(Op{Kind: OpOpen, Path: n, Flag: os.O_CREATE | os.O_WRONLY, Ino: d.id, Created: true, Handle: h})
		if len(d.data) > 0 {
			m.add(Op{Kind: OpWrite, Path: n, Ino: d.id, Pos: 0, Data: append([]byte(nil), d.data...), Handle: h})
		}
		m.add(Op{Kind: OpSync, Path: n, Ino: d.id, Handle: h})
		m.add(Op{Kind: OpClose, Path: n, Ino: d.id, Handle: h})
	}
	m.log.Genesis = len(m.log.Ops)
}

// applyContent applies content op i (a write, truncate or O_TRUNC open) to data;
// nbytes >= 0 applies only the first nbytes of a write (and nothing for others).
func (l *Log) applyContent(data []byte, i int, nbytes int) []byte {
	o := &l.Ops[i]
	switch o.Kind {
	case OpWrite:
		b := o.Data
		if nbytes >= 0 {
			if nbytes >= len(b) {
				panic(fmt.Sprintf("crashfs: torn write of %d bytes out of %d at op %d is not a proper prefix", nbytes, len(b), i))
			}
			b = b[:nbytes]
		}
		return writeAt(data, o.Pos, b)
	case OpTruncate:
		if nbytes >= 0 {
			return data
		}
		return truncateTo(data, o.Size)
	case OpOpen:
		if nbytes >= 0 {
			return data
		}
		return data[:0]
	}
	panic("crashfs: not a content op")
}

// WriteLen is the number of bytes written by op i (0 if it is not a write).
func (l *Log) WriteLen(i int) int {
	if l.Ops[i].Kind == OpWrite {
		return len(l.Ops[i].Data)
	}
	return 0
}

// Shape is a content-free digest of ops[from:to]: kinds, base names and sizes.
func (l *Log) Shape(from, to int) string {
	var b strings.Builder
	for i := from; i < to && i < len(l.Ops); i++ {
		o := &l.Ops[i]
		fmt.Fprintf(&b, "%s:%s:%d;", o.Kind, base(o.Path), len(o.Data))
	}
	return b.String()
}
