package c13

import (
	"context"
	"errors"
	"fmt"
	"os"
	"runtime"
	"strconv"
	"strings"
	"sync"
	"sync/atomic"
	"testing"
	"time"

	"github.com/twmb/franz-go/pkg/kerr"
	"github.com/twmb/franz-go/pkg/kgo"
	"github.com/twmb/franz-go/pkg/kmsg"
	"pgregory.net/rapid"

	"verif/h/bubble"
	"verif/h/ev"
)

func TestMain(m *testing.M) { ev.Main(m, "C13") }

type plan struct {
	Brokers        int
	Kind           string // producer | txn | consumer | group | group-block | share
	Balancer       string
	NetMode        string        // ok | slow | blackhole | unreachable
	NetAt          time.Duration // when the network condition starts (before Close)
	CloseAt        time.Duration // when Close is called
	NProduce       int
	MaxBuf         int
	Linger         time.Duration
	EndTxn         bool // txn: an EndTransaction is in flight at Close
	Pollers        int
	CommitInFlight bool
	// CloseAtLog > 0 issues Close from the client's own log stream instead: at the CloseAtLog-th
	// line the client logs (debug level), on the client goroutine that logs it. kgo calls its
	// logger synchronously, so this places Close between two statements of whatever internal
	// loop happens to log there (dialing, a metadata update, a join, a produce or fetch in
	// flight, a heartbeat), far finer than any virtual instant can.
	CloseAtLog int
	// MaxFetches > 0 limits concurrent fetches (kgo.MaxConcurrentFetches): with more brokers than
	// slots, sources queue at the fetch manager, which Close has to wind down too.
	MaxFetches int
}

func genPlan(t *rapid.T) plan {
	p := plan{}
	p.Brokers = rapid.IntRange(1, 3).Draw(t, "brokers")
	p.Kind = rapid.SampledFrom([]string{"producer", "producer", "txn", "consumer", "group", "group", "group-block", "share"}).Draw(t, "kind")
	p.Balancer = rapid.SampledFrom([]string{"range", "sticky", "coop", "848"}).Draw(t, "balancer")
	p.NetMode = rapid.SampledFrom([]string{"ok", "ok", "slow", "blackhole", "unreachable", "leaderless"}).Draw(t, "netmode")
	times := []time.Duration{0, time.Millisecond, 20 * time.Millisecond, 300 * time.Millisecond, 2 * time.Second, 11 * time.Second}
	p.NetAt = rapid.SampledFrom(times).Draw(t, "netat")
	p.CloseAt = rapid.SampledFrom(times).Draw(t, "closeat")
	p.NProduce = rapid.IntRange(0, 12).Draw(t, "nproduce")
	p.MaxBuf = rapid.SampledFrom([]int{0, 1, 3}).Draw(t, "maxbuf")
	p.Linger = rapid.SampledFrom([]time.Duration{0, 50 * time.Millisecond, 10 * time.Second}).Draw(t, "linger")
	p.EndTxn = rapid.Bool().Draw(t, "endtxn")
	p.Pollers = rapid.IntRange(0, 2).Draw(t, "pollers")
	p.CommitInFlight = rapid.Bool().Draw(t, "commit")
	p.MaxFetches = rapid.SampledFrom([]int{0, 0, 1, 2}).Draw(t, "maxfetches")
	if rapid.IntRange(0, 2).Draw(t, "closeatlog?") == 0 {
		p.CloseAtLog = rapid.IntRange(1, 400).Draw(t, "closeatlog")
	}
	return p
}

const bound = 15 * time.Minute

// schedLogger turns the client's log calls into schedule points (see plan.CloseAtLog).
type schedLogger struct{ fn func() }

func (schedLogger) Level() kgo.LogLevel                { return kgo.LogLevelDebug }
func (l schedLogger) Log(kgo.LogLevel, string, ...any) { l.fn() }

// stallLimit is how much REAL time a case may keep running after Close has returned. Every
// wait of the harness after that point is bounded in virtual time and costs milliseconds of
// real time; the only thing that can hold a bubble for minutes is a client goroutine that
// busy-loops without ever blocking (virtual time cannot advance then). After Close has
// returned that is exactly what the property forbids ("none of the client's goroutines
// remain running"), so it is reported as a violation instead of ending in the test
// binary's timeout, which the driver could only call inconclusive.
var stallLimit = func() time.Duration {
	if s, err := strconv.Atoi(os.Getenv("VERIF_STALL_SECS")); err == nil && s > 0 {
		return time.Duration(s) * time.Second // testing aid
	}
	return 4 * time.Minute
}()

func TestCloseAlwaysFinishes(t *testing.T) {
	rapid.Check(t, func(rt *rapid.T) {
		p := genPlan(rt)
		var inflight, closedFromLog bool
		var closeReturned atomic.Bool
		caseDone := make(chan struct{})
		defer close(caseDone)
		go func() { // outside the bubble: real clock
			tick := time.NewTicker(time.Second)
			defer tick.Stop()
			var since time.Time
			for {
				select {
				case <-caseDone:
					return
				case now := <-tick.C:
					if !closeReturned.Load() {
						continue
					}
					if since.IsZero() {
						since = now
					}
					if now.Sub(since) > stallLimit {
						gs := firstN(bubble.KgoGoroutines(), 8)
						msg := fmt.Sprintf("VERIF-VIOLATION C13: Close returned more than %v of real time ago and the case is still running: a client goroutine keeps spinning without blocking (virtual time cannot advance)\nplan: %+v\nclient goroutines:\n%s\n", stallLimit, p, strings.Join(gs, "\n\n"))
						ev.Replay("c13-stall-after-close.txt", msg)
						fmt.Fprint(os.Stderr, msg)
						fmt.Println("--- FAIL: TestCloseAlwaysFinishes (busy client goroutine after Close)")
						ev.Flush()
						os.Exit(1)
					}
				}
			}
		}()
		bubble.Run(t, rt, func(e *bubble.Env) {
			e.StartCluster(bubble.ClusterOpts{Brokers: p.Brokers, Topics: map[string]int32{"in": 3, "out": 2}})
			// prefill with a helper client that is closed before the client under test exists
			helper, err := kgo.NewClient(append(e.BaseOpts(), kgo.RecordPartitioner(kgo.ManualPartitioner()))...)
			if err != nil {
				panic("VERIF-INFRA: " + err.Error())
			}
			for pt := int32(0); pt < 3; pt++ {
				for i := 0; i < 4; i++ {
					if err := helper.ProduceSync(context.Background(), &kgo.Record{Topic: "in", Partition: pt, Value: []byte("v")}).FirstErr(); err != nil {
						panic("VERIF-INFRA: prefill: " + err.Error())
					}
				}
			}
			helper.Close()
			e.Settle()
			if gs := bubble.KgoGoroutines(); len(gs) != 0 {
				rt.Fatalf("goroutines of a closed (idle, helper) client remain:\n%s", strings.Join(gs, "\n\n"))
			}

			var opts []kgo.Opt
			switch p.Kind {
			case "producer":
				opts = append(opts, kgo.ProducerLinger(p.Linger), kgo.RecordPartitioner(kgo.ManualPartitioner()))
				if p.MaxBuf > 0 {
					opts = append(opts, kgo.MaxBufferedRecords(p.MaxBuf))
				}
			case "txn":
				opts = append(opts, kgo.TransactionalID("tx13"), kgo.ProducerLinger(p.Linger), kgo.RecordPartitioner(kgo.ManualPartitioner()), kgo.TransactionTimeout(30*time.Second))
			case "consumer":
				opts = append(opts, kgo.ConsumeTopics("in"), kgo.ConsumeResetOffset(kgo.NewOffset().AtStart()), kgo.FetchMaxWait(time.Second))
			case "group", "group-block":
				opts = append(opts, kgo.ConsumerGroup("g13"), kgo.ConsumeTopics("in"), kgo.ConsumeResetOffset(kgo.NewOffset().AtStart()), kgo.HeartbeatInterval(300*time.Millisecond), kgo.SessionTimeout(10*time.Second), kgo.FetchMaxWait(time.Second), kgo.AutoCommitInterval(500*time.Millisecond))
				switch p.Balancer {
				case "range":
					opts = append(opts, kgo.Balancers(kgo.RangeBalancer()))
				case "sticky":
					opts = append(opts, kgo.Balancers(kgo.StickyBalancer()))
				case "848":
					opts = append(opts, kgo.Balancers(kgo.StickyBalancer()), kgo.WithContext(context.WithValue(context.Background(), "opt_in_kafka_next_gen_balancer_beta", true))) //nolint
				default:
					opts = append(opts, kgo.Balancers(kgo.CooperativeStickyBalancer()))
				}
				if p.Kind == "group-block" {
					opts = append(opts, kgo.BlockRebalanceOnPoll())
				}
			case "share":
				opts = append(opts, kgo.ShareGroup("s13"), kgo.ConsumeTopics("in"), kgo.FetchMaxWait(time.Second))
			}
			if p.MaxFetches > 0 && (p.Kind == "consumer" || p.Kind == "group" || p.Kind == "group-block") {
				opts = append(opts, kgo.MaxConcurrentFetches(p.MaxFetches))
			}
			var cl *kgo.Client
			var readyLog *atomic.Bool
			cdone := make(chan struct{})
			var closeOnce sync.Once
			var closeFromLog atomic.Bool
			doClose := func() {
				closeOnce.Do(func() {
					go func() {
						if p.Kind == "group-block" {
							cl.CloseAllowingRebalance()
						} else {
							cl.Close()
						}
						close(cdone)
					}()
				})
			}
			if p.CloseAtLog > 0 {
				var nlog atomic.Int64
				var ready atomic.Bool
				opts = append(opts, kgo.WithLogger(schedLogger{func() {
					if ready.Load() && nlog.Add(1) == int64(p.CloseAtLog) {
						closeFromLog.Store(true)
						doClose()
						runtime.Gosched()
					}
				}}))
				e.OnTeardown(func() { ready.Store(false) })
				readyLog = &ready
			}
			cl, err = kgo.NewClient(append(e.BaseOpts(), opts...)...)
			if err != nil {
				panic("VERIF-INFRA: NewClient: " + err.Error())
			}
			var promised, handed atomic.Int64
			var wg sync.WaitGroup // application goroutines blocked in client calls
			var closedSeen atomic.Int64
			start := time.Now()
			switch p.Kind {
			case "producer", "txn":
				if p.Kind == "txn" {
					if err := cl.BeginTransaction(); err != nil {
						panic("VERIF-INFRA: BeginTransaction: " + err.Error())
					}
				}
				for i := 0; i < p.NProduce; i++ {
					i := i
					handed.Add(1)
					wg.Add(1)
					e.Go(func() {
						defer wg.Done()
						cl.Produce(context.Background(), &kgo.Record{Topic: "out", Partition: int32(i % 2), Value: []byte("p")}, func(*kgo.Record, error) { promised.Add(1) })
					})
				}
				if p.Kind == "txn" && p.EndTxn {
					wg.Add(1)
					e.Go(func() {
						defer wg.Done()
						time.Sleep(p.CloseAt / 2)
						ctx, cancel := context.WithTimeout(context.Background(), bound)
						defer cancel()
						cl.Flush(ctx)
						cl.EndTransaction(ctx, kgo.TryCommit)
					})
				}
			default:
				for i := 0; i < max(p.Pollers, 1); i++ {
					wg.Add(1)
					e.Go(func() {
						defer wg.Done()
						for {
							fs := cl.PollFetches(context.Background())
							if fs.IsClientClosed() {
								closedSeen.Add(1)
								return
							}
							if p.Kind == "group-block" {
								// keep the poll 'outstanding' for a while, then allow
								time.Sleep(200 * time.Millisecond)
								cl.AllowRebalance()
							}
							if p.Kind == "share" {
								fs.EachRecord(func(r *kgo.Record) { r.Ack(kgo.AckAccept) })
							}
							time.Sleep(50 * time.Millisecond)
						}
					})
				}
				if (p.Kind == "group" || p.Kind == "group-block") && p.CommitInFlight {
					wg.Add(1)
					e.Go(func() {
						defer wg.Done()
						time.Sleep(p.CloseAt)
						ctx, cancel := context.WithTimeout(context.Background(), bound)
						defer cancel()
						cl.CommitUncommittedOffsets(ctx)
					})
				}
			}
			if readyLog != nil {
				readyLog.Store(true) // the application calls are running: the logger may issue Close from now on
			}
			// network condition, then Close, at generated virtual instants
			netOn := func() {
				switch p.NetMode {
				case "slow":
					e.Net.SetMode(3*time.Second, false)
				case "blackhole":
					e.Net.SetMode(0, true)
				case "unreachable":
					e.Net.Block(true)
				case "leaderless":
					// partition 1 of both topics loses its leader: metadata reports LEADER_NOT_AVAILABLE for
					// it and produce requests to it are answered NOT_LEADER_FOR_PARTITION, so records for it
					// stay buffered on a partition the client cannot write to
					e.Net.AddRule(bubble.Rule{Key: 3, Always: true, Act: bubble.RewriteResponse, Rewrite: func(ri *bubble.ReqInfo, body []byte) []byte {
						resp := kmsg.NewPtrMetadataResponse()
						resp.Version = ri.Version
						hdr := 4
						if resp.IsFlexible() {
							hdr = 5
						}
						if len(body) < hdr || resp.ReadFrom(body[hdr:]) != nil {
							return nil
						}
						for i := range resp.Topics {
							for j := range resp.Topics[i].Partitions {
								if pp := &resp.Topics[i].Partitions[j]; pp.Partition == 1 {
									pp.ErrorCode, pp.Leader = kerr.LeaderNotAvailable.Code, -1
								}
							}
						}
						return resp.AppendTo(append([]byte(nil), body[:hdr]...))
					}})
					e.Cluster.ControlKey(0, func(kreq kmsg.Request) (kmsg.Response, error, bool) {
						e.Cluster.KeepControl()
						req := kreq.(*kmsg.ProduceRequest)
						hit := false
						for _, t := range req.Topics {
							for _, pp := range t.Partitions {
								if pp.Partition == 1 {
									hit = true
								}
							}
						}
						if !hit || req.Acks == 0 {
							return nil, nil, false
						}
						// answer the whole request NOT_LEADER (nothing is appended)
						resp := req.ResponseKind().(*kmsg.ProduceResponse)
						for _, t := range req.Topics {
							rt := kmsg.NewProduceResponseTopic()
							rt.Topic, rt.TopicID = t.Topic, t.TopicID
							for _, pp := range t.Partitions {
								rp := kmsg.NewProduceResponseTopicPartition()
								rp.Partition, rp.ErrorCode, rp.BaseOffset = pp.Partition, kerr.NotLeaderForPartition.Code, -1
								rt.Partitions = append(rt.Partitions, rp)
							}
							resp.Topics = append(resp.Topics, rt)
						}
						return resp, nil, true
					})
				}
			}
			if p.NetAt <= p.CloseAt {
				time.Sleep(p.NetAt)
				netOn()
				time.Sleep(p.CloseAt - p.NetAt)
			} else {
				time.Sleep(p.CloseAt)
			}
			inflight = cl.BufferedProduceRecords() > 0 || p.Kind != "producer"
			e.Log.Add("close-start", 0, "", nil, int64(time.Since(start)), 0)
			t0 := time.Now()
			doClose()
			fail := func(format string, a ...any) {
				rt.Fatalf("%s\nplan: %+v", fmt.Sprintf(format, a...), p)
			}
			if !bubble.WaitTimeout(cdone, bound) {
				fail("Close did not return within %v of virtual time; goroutines:\n%s", bound, strings.Join(firstN(bubble.KgoGoroutines(), 6), "\n\n"))
			}
			closeReturned.Store(true)
			took := time.Since(t0)
			e.Log.Add("close-done", 0, "", nil, int64(took), 0)
			// polls return ErrClientClosed
			fs := cl.PollFetches(context.Background())
			if p.Kind != "producer" && p.Kind != "txn" && !fs.IsClientClosed() {
				var errs []string
				fs.EachError(func(t string, pt int32, err error) { errs = append(errs, err.Error()) })
				if fs.NumRecords() == 0 { // a last buffered fetch may legitimately be returned once
					fail("PollFetches after Close returned neither records nor ErrClientClosed (errors %v)", errs)
				}
				fs = cl.PollFetches(context.Background())
				_ = fs
			}
			// every application call returns, every promise runs
			wdone := make(chan struct{})
			go func() { wg.Wait(); close(wdone) }()
			if !bubble.WaitTimeout(wdone, bound) {
				fail("application calls (Produce/PollFetches/EndTransaction/Commit) still blocked %v after Close returned", bound)
			}
			time.Sleep(time.Minute)
			e.Settle()
			if promised.Load() != handed.Load() {
				fail("%d records handed to Produce, %d promises called after Close and %v", handed.Load(), promised.Load(), bound)
			}
			if gs := bubble.KgoGoroutines(); len(gs) != 0 {
				fail("%d client goroutine(s) still running after Close:\n%s", len(gs), strings.Join(firstN(gs, 5), "\n\n"))
			}
			// produce after close fails promptly
			done := make(chan error, 1)
			go func() {
				ctx, cancel := context.WithTimeout(context.Background(), time.Minute)
				defer cancel()
				done <- cl.ProduceSync(ctx, &kgo.Record{Topic: "out", Value: []byte("late")}).FirstErr()
			}()
			select {
			case err := <-done:
				if err == nil {
					fail("ProduceSync after Close reported success")
				}
				if p.Kind == "producer" && !errors.Is(err, kgo.ErrClientClosed) && !errors.Is(err, context.Canceled) {
					_ = err // any error is acceptable; the property only requires promises to be called
				}
			case <-time.After(bound):
				fail("ProduceSync after Close did not return within %v", bound)
			}
			e.Settle()
			if gs := bubble.KgoGoroutines(); len(gs) != 0 {
				fail("client goroutine(s) running after a post-Close produce:\n%s", strings.Join(firstN(gs, 5), "\n\n"))
			}
			ev.ClassN("close-virtual-seconds", int64(took/time.Second))
			closedFromLog = closeFromLog.Load()
		})
		ev.Case(fmt.Sprintf("%+v", p), inflight)
		ev.Class("kind:" + p.Kind)
		ev.Class("net:" + p.NetMode)
		if p.MaxFetches > 0 && (p.Kind == "consumer" || p.Kind == "group" || p.Kind == "group-block") {
			ev.Class(fmt.Sprintf("max-concurrent-fetches=%d", p.MaxFetches))
		}
		if closedFromLog {
			ev.Class("close-issued-at-a-client-log-line")
		}
		if inflight {
			ev.SampleIf(func() any { return map[string]any{"plan": fmt.Sprintf("%+v", p)} })
		}
	})
}

func firstN(s []string, n int) []string {
	if len(s) > n {
		return s[:n]
	}
	return s
}
