package c10

import (
	"context"
	"encoding/binary"
	"fmt"
	"sort"
	"strings"
	"sync"
	"sync/atomic"
	"testing"
	"time"

	"github.com/twmb/franz-go/pkg/kgo"
	"github.com/twmb/franz-go/pkg/kmsg"
	"github.com/twmb/franz-go/pkg/kversion"
	"pgregory.net/rapid"

	"verif/h/bubble"
	"verif/h/ev"
	"verif/h/wl"
)

func TestMain(m *testing.M) { ev.Main(m, "C10") }

type step struct {
	Delay time.Duration
	Kind  string // join | leave | restart | netfault | killall | append | sleep
	Slot  int
	Key   int16
	Act   bubble.Action
	N     int
	Dur   time.Duration
}

type plan struct {
	Brokers  int
	InParts  int32
	OutParts int32
	Prefill  int
	Slots    int
	Balancer string
	PollMax  int
	Work     time.Duration // simulated processing time between poll and End
	// PollFirst selects the loop shape of the repository's EOS example (poll, then Begin,
	// produce, End: a rebalance can land between the poll and Begin) instead of Begin, poll, produce, End.
	PollFirst bool
	// DropMod makes the stage a filter: inputs whose key is divisible by DropMod produce no output
	// (1 = every input is dropped, so every transaction only commits offsets; 0 = no filtering).
	DropMod int64
	// Old pins the members to the protocol level of a 2.8 client (OffsetFetch v7 and below, no
	// KIP-890 part 2): the broker answers through its down-conversion paths.
	Old   bool
	Steps []step
}

func genPlan(t *rapid.T) plan {
	p := plan{Brokers: rapid.IntRange(1, 3).Draw(t, "brokers"), InParts: int32(rapid.IntRange(1, 4).Draw(t, "inparts")), OutParts: int32(rapid.IntRange(1, 2).Draw(t, "outparts")),
		Prefill: rapid.IntRange(3, 12).Draw(t, "prefill"), Slots: rapid.IntRange(1, 4).Draw(t, "slots"), Balancer: rapid.SampledFrom([]string{"coop", "coop", "range", "sticky"}).Draw(t, "balancer"),
		PollMax: rapid.SampledFrom([]int{0, 2, 5}).Draw(t, "pollmax"), Work: rapid.SampledFrom([]time.Duration{0, 20 * time.Millisecond, 400 * time.Millisecond}).Draw(t, "work")}
	p.PollFirst = rapid.Bool().Draw(t, "pollfirst")
	p.DropMod = rapid.SampledFrom([]int64{0, 0, 0, 2, 3, 1}).Draw(t, "dropmod")
	p.Old = rapid.IntRange(0, 3).Draw(t, "old") == 0
	n := rapid.IntRange(2, 16).Draw(t, "nsteps")
	kinds := []string{"join", "join", "leave", "restart", "netfault", "netfault", "netfault", "killall", "append", "append", "sleep", "stallend"}
	for i := 0; i < n; i++ {
		s := step{Delay: rapid.SampledFrom([]time.Duration{0, 10 * time.Millisecond, 300 * time.Millisecond, 2 * time.Second}).Draw(t, "delay"), Kind: rapid.SampledFrom(kinds).Draw(t, "kind")}
		if i == 0 {
			s.Kind = "join"
		}
		s.Slot = rapid.IntRange(0, p.Slots-1).Draw(t, "slot")
		s.Key = rapid.SampledFrom([]int16{0, 28, 26, 26, 25, 24, 22}).Draw(t, "key")
		s.Act = rapid.SampledFrom([]bubble.Action{bubble.KillBefore, bubble.DropResponse, bubble.DropResponse}).Draw(t, "act")
		s.N = rapid.IntRange(1, 5).Draw(t, "n")
		s.Dur = rapid.SampledFrom([]time.Duration{time.Second, 8 * time.Second}).Draw(t, "dur")
		p.Steps = append(p.Steps, s)
	}
	return p
}

type member struct {
	name string
	stop chan struct{}
	done chan struct{}
}

func TestExactlyOncePipeline(t *testing.T) {
	rapid.Check(t, func(rt *rapid.T) {
		p := genPlan(rt)
		var faultsBetween, restarts, rebalances, offsetChecks, produceErrAborts, stalledEnds int
		drained := false
		bubble.Run(t, rt, func(e *bubble.Env) {
			e.StartCluster(bubble.ClusterOpts{Brokers: p.Brokers, Topics: map[string]int32{"in": p.InParts, "out": p.OutParts}})
			prod := e.NewClient(kgo.RecordPartitioner(kgo.ManualPartitioner()), kgo.ProducerLinger(0))
			ctx := context.Background()
			var nextID int64
			var total int64
			appendIn := func(n int) {
				var recs []*kgo.Record
				for i := 0; i < n; i++ {
					nextID++
					k := make([]byte, 8)
					binary.BigEndian.PutUint64(k, uint64(nextID))
					recs = append(recs, &kgo.Record{Topic: "in", Partition: int32(nextID % int64(p.InParts)), Key: k, Value: []byte("payload")})
				}
				// the harness's own producer shares the faulty network: a transport error surfaced as a
				// record error (for example while the topic is first loaded) is retried per record
				for attempt := 0; len(recs) > 0; attempt++ {
					var again []*kgo.Record
					for _, r := range prod.ProduceSync(ctx, recs...) {
						if r.Err != nil {
							if attempt >= 30 {
								panic("VERIF-INFRA: prefill: " + r.Err.Error())
							}
							again = append(again, &kgo.Record{Topic: r.Record.Topic, Partition: r.Record.Partition, Key: r.Record.Key, Value: r.Record.Value})
						}
					}
					recs = again
					if len(recs) > 0 {
						time.Sleep(time.Second)
					}
				}
				total += int64(n)
			}
			appendIn(p.Prefill * int(p.InParts))
			var mu sync.Mutex
			var endErrs []string
			offsetViolation := ""
			rawOffsets := e.RawClient()
			fetchCommitted := func() (map[int32]int64, bool) {
				freq := kmsg.NewPtrOffsetFetchRequest()
				freq.Group = "g10"
				rg := kmsg.NewOffsetFetchRequestGroup()
				rg.Group = "g10"
				freq.Groups = append(freq.Groups, rg)
				fc, cancel := context.WithTimeout(ctx, 30*time.Second)
				defer cancel()
				fresp, err := freq.RequestWith(fc, rawOffsets)
				if err != nil {
					return nil, false
				}
				got := map[int32]int64{}
				for _, g := range fresp.Groups {
					if g.ErrorCode != 0 {
						return nil, false
					}
					for _, t := range g.Topics {
						for _, pp := range t.Partitions {
							if pp.ErrorCode != 0 {
								return nil, false
							}
							got[pp.Partition] = pp.Offset
						}
					}
				}
				for _, t := range fresp.Topics {
					for _, pp := range t.Partitions {
						if pp.ErrorCode != 0 {
							return nil, false
						}
						got[pp.Partition] = pp.Offset
					}
				}
				return got, true
			}
			members := make([]*member, p.Slots)
			incarn := make([]int, p.Slots)
			balancer := func() kgo.GroupBalancer {
				switch p.Balancer {
				case "range":
					return kgo.RangeBalancer()
				case "sticky":
					return kgo.StickyBalancer()
				}
				return kgo.CooperativeStickyBalancer()
			}
			startMember := func(slot int) {
				if members[slot] != nil {
					return
				}
				incarn[slot]++
				m := &member{name: fmt.Sprintf("s%d.%d", slot, incarn[slot]), stop: make(chan struct{}), done: make(chan struct{})}
				members[slot] = m
				e.Log.Add("member-start", int64(slot), m.name, nil, 0, 0)
				e.Go(func() {
					defer close(m.done)
					for {
						select {
						case <-m.stop:
							return
						default:
						}
						// a session lives until End reports an error (documented: do not continue), then a
						// new one with the same transactional id takes over
						opts := append(e.BaseOpts(), kgo.ClientID(m.name), kgo.ConsumerGroup("g10"), kgo.ConsumeTopics("in"), kgo.TransactionalID(fmt.Sprintf("tx10-%d", slot)),
							kgo.ConsumeResetOffset(kgo.NewOffset().AtStart()), kgo.FetchIsolationLevel(kgo.ReadCommitted()), kgo.RequireStableFetchOffsets(), kgo.Balancers(balancer()),
							kgo.HeartbeatInterval(300*time.Millisecond), kgo.SessionTimeout(15*time.Second), kgo.RebalanceTimeout(20*time.Second), kgo.TransactionTimeout(40*time.Second),
							kgo.FetchMaxWait(300*time.Millisecond), kgo.RecordPartitioner(kgo.ManualPartitioner()), kgo.ProducerLinger(0),
							kgo.OnPartitionsRevoked(func(context.Context, *kgo.Client, map[string][]int32) { mu.Lock(); rebalances++; mu.Unlock() }))
						if p.Old {
							opts = append(opts, kgo.MaxVersions(kversion.V2_8_0()))
						}
						sess, err := kgo.NewGroupTransactSession(opts...)
						if err != nil {
							panic("VERIF-INFRA: NewGroupTransactSession: " + err.Error())
						}
						func() {
							defer func() {
								d := make(chan struct{})
								go func() { sess.Close(); close(d) }()
								bubble.WaitTimeout(d, 10*time.Minute)
							}()
							for {
								select {
								case <-m.stop:
									return
								default:
								}
								begin := func() bool {
									if err := sess.Begin(); err != nil {
										e.Log.Add("begin-err", int64(slot), m.name, err, 0, 0)
										return false
									}
									return true
								}
								if !p.PollFirst && !begin() {
									return
								}
								pc, cancel := context.WithTimeout(ctx, time.Second)
								var fs kgo.Fetches
								if p.PollMax > 0 {
									fs = sess.PollRecords(pc, p.PollMax)
								} else {
									fs = sess.PollFetches(pc)
								}
								cancel()
								if fs.IsClientClosed() {
									return
								}
								if p.PollFirst {
									if p.Work > 0 && fs.NumRecords() > 0 {
										time.Sleep(p.Work) // processing before the transaction begins
									}
									if !begin() {
										return
									}
								}
								// the documented application policy (examples/transactions/eos): abort if any produce fails
								firstErr := kgo.AbortingFirstErrPromise(sess.Client())
								n := 0
								polledTo := map[int32]int64{}
								fs.EachRecord(func(r *kgo.Record) {
									n++
									if r.Offset+1 > polledTo[r.Partition] {
										polledTo[r.Partition] = r.Offset + 1
									}
									if k := int64(binary.BigEndian.Uint64(r.Key)); p.DropMod != 0 && k%p.DropMod == 0 {
										return // filtered out: consumed, nothing produced
									}
									sess.Produce(ctx, &kgo.Record{Topic: "out", Partition: int32(binary.BigEndian.Uint64(r.Key) % uint64(p.OutParts)), Value: append([]byte(nil), r.Key...)}, firstErr.Promise())
								})
								if p.Work > 0 && n > 0 {
									time.Sleep(p.Work)
								}
								ec, ecancel := context.WithTimeout(ctx, 5*time.Minute)
								try := kgo.TransactionEndTry(firstErr.Err() == nil)
								if !try {
									mu.Lock()
									produceErrAborts++
									mu.Unlock()
								}
								committed, err := sess.End(ec, try)
								ecancel()
								if n > 0 || err != nil {
									e.Log.Add("end", int64(n), fmt.Sprintf("%s committed=%v", m.name, committed), err, 0, 0)
								}
								if err == nil && committed && n > 0 {
									// End reported a successful commit: the offsets of what this transaction consumed
									// are committed now (group offsets only move forward in this pipeline)
									if got, ok := fetchCommitted(); ok {
										for pt, want := range polledTo {
											if got[pt] < want {
												mu.Lock()
												if offsetViolation == "" {
													offsetViolation = fmt.Sprintf("%s: End returned committed=true, err=nil for a transaction that consumed in/%d up to offset %d, but the group's committed offset for that partition is %d right afterwards", m.name, pt, want-1, got[pt])
												}
												mu.Unlock()
											}
										}
										mu.Lock()
										offsetChecks++
										mu.Unlock()
									}
								}
								if err != nil {
									mu.Lock()
									endErrs = append(endErrs, err.Error())
									restarts++
									mu.Unlock()
									return // restart with a new session
								}
							}
						}()
					}
				})
			}
			stopMember := func(slot int) {
				m := members[slot]
				if m == nil {
					return
				}
				members[slot] = nil
				close(m.stop)
				if !bubble.WaitTimeout(m.done, 20*time.Minute) {
					rt.Fatalf("member %s did not stop within 20 virtual minutes\nplan: %+v\n%s", m.name, p, e.Log.Dump(40))
				}
				e.Log.Add("member-stopped", int64(slot), m.name, nil, 0, 0)
			}
			var healed atomic.Bool
			for _, s := range p.Steps {
				time.Sleep(s.Delay)
				switch s.Kind {
				case "join":
					startMember(s.Slot)
				case "leave":
					stopMember(s.Slot)
				case "restart":
					stopMember(s.Slot)
					startMember(s.Slot)
				case "netfault":
					e.Net.AddRuleNext(s.Key, s.Act, 0)
					e.Log.Add("netfault", int64(s.Key), s.Act.String(), nil, 0, 0)
					if s.Key == 26 || s.Key == 28 {
						faultsBetween++
					}
				case "stallend":
					// the coordinator sits on the next EndTxn for longer than the session timeout (and
					// less than the transaction timeout): the member that sent it is evicted while its
					// transactional offset commit is pending, and whoever takes its partitions over
					// has to wait for the outcome before it may fetch offsets
					d := 18*time.Second + time.Duration(s.N)*3*time.Second
					e.Cluster.ControlKey(int16(kmsg.EndTxn), func(kmsg.Request) (kmsg.Response, error, bool) {
						if !healed.Load() { // an unused stall must not outlive the faulty phase (nor the bubble)
							e.Cluster.SleepControl(func() { time.Sleep(d) })
						}
						return nil, nil, false
					})
					stalledEnds++
					e.Log.Add("stallend", int64(d/time.Second), "", nil, 0, 0)
				case "killall":
					e.Net.KillAll()
					e.Log.Add("killall", 0, "", nil, 0, 0)
				case "append":
					appendIn(s.N)
				case "sleep":
					time.Sleep(s.Dur)
				}
			}
			// heal and drain: run until the group's committed offsets reach the end of every input partition
			e.Net.ClearRules()
			healed.Store(true)
			live := false
			for _, m := range members {
				if m != nil {
					live = true
				}
			}
			if !live {
				startMember(0)
			}
			raw := e.RawClient()
			ends := map[int32]int64{}
			for pt := int32(0); pt < p.InParts; pt++ {
				_, hwm, err := e.ReadLog(raw, "in", pt, 0)
				if err != nil {
					panic("VERIF-INFRA: " + err.Error())
				}
				ends[pt] = hwm
			}
			for dl := time.Now().Add(20 * time.Minute); time.Now().Before(dl) && !drained; {
				time.Sleep(2 * time.Second)
				freq := kmsg.NewPtrOffsetFetchRequest()
				freq.Group = "g10"
				rg := kmsg.NewOffsetFetchRequestGroup()
				rg.Group = "g10"
				freq.Groups = append(freq.Groups, rg)
				fc, cancel := context.WithTimeout(ctx, time.Minute)
				fresp, err := freq.RequestWith(fc, raw)
				cancel()
				if err != nil {
					continue
				}
				got := map[int32]int64{}
				for _, g := range fresp.Groups {
					for _, t := range g.Topics {
						for _, pp := range t.Partitions {
							if pp.ErrorCode == 0 {
								got[pp.Partition] = pp.Offset
							}
						}
					}
				}
				for _, t := range fresp.Topics {
					for _, pp := range t.Partitions {
						if pp.ErrorCode == 0 {
							got[pp.Partition] = pp.Offset
						}
					}
				}
				drained = true
				for pt, end := range ends {
					if got[pt] < end {
						drained = false
					}
				}
			}
			for slot := range members {
				stopMember(slot)
			}
			time.Sleep(45 * time.Second) // any dangling transaction times out and is aborted
			if !drained {
				return // not every input was committed within the bound: inconclusive for exactly-once (liveness is not the claim)
			}
			// the read_committed view of the output
			count := map[int64]int{}
			for pt := int32(0); pt < p.OutParts; pt++ {
				recs, _, err := e.ReadLog(raw, "out", pt, 0)
				if err != nil {
					panic("VERIF-INFRA: " + err.Error())
				}
				aborted, open := wl.ClassifyTxn(recs)
				for _, r := range recs {
					if r.Control || aborted[r.Offset] || open[r.Offset] || len(r.Value) < 8 {
						continue
					}
					count[int64(binary.BigEndian.Uint64(r.Value))]++
				}
			}
			mu.Lock()
			ov := offsetViolation
			mu.Unlock()
			if ov != "" {
				rt.Fatalf("%s\nplan: %+v\nhistory tail:\n%s", ov, p, e.Log.Dump(60))
			}
			var missing, dup, leaked []int64
			for id := int64(1); id <= total; id++ {
				c := count[id]
				if p.DropMod != 0 && id%p.DropMod == 0 {
					if c > 0 {
						leaked = append(leaked, id)
					}
					continue
				}
				switch {
				case c == 0:
					missing = append(missing, id)
				case c > 1:
					dup = append(dup, id)
				}
			}
			if len(leaked) > 0 {
				rt.Fatalf("VERIF-INFRA: filtered inputs %v appear in the output", leaked)
			}
			if len(missing) > 0 || len(dup) > 0 {
				sort.Slice(dup, func(i, j int) bool { return dup[i] < dup[j] })
				rt.Fatalf("read_committed view of the output is not exactly-once: %d inputs, missing %v, duplicated %v (End errors seen: %v)\nplan: %+v\nhistory tail:\n%s", total, missing, dup, endErrs, p, e.Log.Dump(60))
			}
		})
		var ks []string
		for _, s := range p.Steps {
			ks = append(ks, s.Kind)
		}
		nt := drained && (faultsBetween > 0 || rebalances > 1)
		ev.Case(fmt.Sprintf("%d|%d|%s|%d|%v|%v|%d|%s", p.Slots, p.InParts, p.Balancer, p.PollMax, p.Work, p.PollFirst, p.DropMod, strings.Join(ks, ",")), nt)
		if !drained {
			ev.Class("inconclusive-not-drained")
		}
		if faultsBetween > 0 {
			ev.Class("fault-on-TxnOffsetCommit-or-EndTxn")
		}
		if rebalances > 1 {
			ev.Class("rebalance-during-run")
		}
		if restarts > 0 {
			ev.Class("session-restarted-after-End-error")
		}
		ev.Class("balancer:" + p.Balancer)
		if p.Old {
			ev.Class("members-pinned-to-2.8-protocol-level")
		}
		if stalledEnds > 0 {
			ev.Class("EndTxn-held-by-the-coordinator-beyond-the-session-timeout")
		}
		ev.Class(fmt.Sprintf("filter-dropmod:%d", p.DropMod))
		if produceErrAborts > 0 {
			ev.Class("transaction-aborted-by-application-after-produce-error")
		}
		ev.ClassN("committed-offsets-verified-after-End", int64(offsetChecks))
		if p.PollFirst {
			ev.Class("loop:poll-then-begin")
		} else {
			ev.Class("loop:begin-then-poll")
		}
		if nt {
			ev.SampleIf(func() any {
				return map[string]any{"plan": fmt.Sprintf("%+v", p), "rebalances": rebalances, "restarts": restarts}
			})
		}
	})
}
