package c05

import (
	"fmt"
	"testing"

	"pgregory.net/rapid"

	"verif/h/bubble"
	"verif/h/ev"
	"verif/h/wl"
)

func TestMain(m *testing.M) { ev.Main(m, "C05") }

// TestReadCommittedVisibility: transactional and plain producers interleave on shared
// partitions (commits, aborts, timeouts); a read_committed consumer polls at generated
// points. A returned transactional record must belong to a transaction whose commit had
// already been requested when the poll returned (harness knowledge) and that the log
// shows as committed (raw log markers); aborted and open data never appears; control
// records only with KeepControlRecords; eventually every committed and plain record is
// returned.
func TestReadCommittedVisibility(t *testing.T) {
	readCommitted(t, wl.ConsFocus{Txn: true, ForceRC: true})
}

// TestReadCommittedInterleaved searches the denser sub-domain of one partition shared by three
// transactional producers with overlapping and nested transactions and small fetch sizes.
func TestReadCommittedInterleaved(t *testing.T) {
	readCommitted(t, wl.ConsFocus{Txn: true, ForceRC: true, NoFaults: true, Interleaved: true})
}

func readCommitted(t *testing.T, focus wl.ConsFocus) {
	rapid.Check(t, func(rt *rapid.T) {
		plan := wl.GenConsPlan(rt, focus)
		var o *wl.ConsObs
		spun := false
		var overlap, sawAbort, sawTimeout bool
		bubble.Run(t, rt, func(e *bubble.Env) {
			o = wl.RunCons(e, plan)
			if s, _ := e.Net.Spinning(); s {
				spun = true
				return
			}
			overlap, sawAbort, sawTimeout = check(rt, o)
		})
		nt := !spun && o.TruthStable && !o.ClosedEarly && overlap && (sawAbort || sawTimeout)
		ev.Case(o.Digest(), nt)
		if spun {
			ev.Class("inconclusive-request-spin")
		}
		if focus.Interleaved {
			ev.Class("interleaved-focus")
		}
		if overlap {
			ev.Class("transactions-overlap-in-one-partition")
		}
		if sawAbort {
			ev.Class("aborted-transaction")
		}
		if sawTimeout {
			ev.Class("timed-out-transaction")
		}
		if plan.Cfg.KeepControl {
			ev.Class("keep-control-records")
		}
		if plan.LeaveOpen {
			ev.Class("transaction-left-open")
		}
		ev.ClassN("records-returned", int64(len(o.Returned)))
		ev.ClassN("transactions", int64(len(o.Txns)))
		if nt {
			ev.SampleIf(func() any {
				outcomes := map[string]int{}
				for _, tx := range o.Txns {
					outcomes[tx.Outcome]++
				}
				return map[string]any{"steps": o.StepKinds, "cfg": fmt.Sprintf("%+v", plan.Cfg), "txn_outcomes": outcomes, "returned": len(o.Returned)}
			})
		}
	})
}

func check(rt *rapid.T, o *wl.ConsObs) (overlap, sawAbort, sawTimeout bool) {
	fail := func(format string, a ...any) {
		rt.Fatalf("%s\nplan: %s\nhistory tail:\n%s", fmt.Sprintf(format, a...), o.Plan.Brief(), o.Log.Dump(40))
	}
	// (1) at return time: a transactional record's commit must have been requested already
	for _, r := range o.Returned {
		if r.Control {
			if !o.Plan.Cfg.KeepControl {
				fail("%s: control record at offset %d returned without KeepControlRecords", r.TP, r.Offset)
			}
			continue
		}
		if r.TxnID == 0 {
			continue
		}
		tx := o.Txns[r.TxnID]
		if tx == nil {
			fail("%s@%d: record carries unknown transaction id %d", r.TP, r.Offset, r.TxnID)
		}
		switch tx.Outcome {
		case "abort":
			fail("%s@%d: record of transaction %d returned, but that transaction was aborted\nraw log:%s", r.TP, r.Offset, r.TxnID, o.LogSummary(r.TP))
		case "commit", "open", "unknown":
			if tx.CommitStart < 0 || r.PollN < tx.CommitStart {
				fail("%s@%d: record of transaction %d returned by the poll ending at log #%d, before any commit of that transaction was requested (commit requested at #%d, outcome %s): an open transaction was exposed\nraw log:%s", r.TP, r.Offset, r.TxnID, r.PollN, tx.CommitStart, tx.Outcome, o.LogSummary(r.TP))
			}
		}
	}
	if !o.TruthStable || o.ClosedEarly {
		return
	}
	// (2) against the final raw log: nothing aborted/open returned; everything committed or plain returned
	for ti, topic := range o.Plan.Topics {
		for pi := int32(0); pi < o.Plan.Parts[ti]; pi++ {
			tp := wl.TP{Topic: topic, Part: pi}
			start := int64(0)
			if !o.Plan.Cfg.ByTopic {
				start = o.Plan.Start[ti][pi]
			}
			seen := map[int64]bool{}
			for _, r := range o.ByTP[tp] {
				seen[r.Offset] = true
				if o.Aborted[tp][r.Offset] {
					fail("%s@%d: aborted transactional data returned under read_committed\nraw log:%s", tp, r.Offset, o.LogSummary(tp))
				}
				if o.OpenTxn[tp][r.Offset] {
					fail("%s@%d: data of a still-open transaction returned under read_committed\nraw log:%s", tp, r.Offset, o.LogSummary(tp))
				}
			}
			for _, x := range o.Expected(tp, start) {
				if !seen[x] {
					fail("%s: committed/plain offset %d never returned within %v of virtual time (drained=%v)\nraw log:%s", tp, x, wl.Bound, o.Drained, o.LogSummary(tp))
				}
			}
			// classes
			pids := map[int64]bool{}
			for _, r := range o.Truth[tp] {
				if r.Txn && !r.Control {
					pids[r.PID] = true
				}
				if o.Aborted[tp][r.Offset] {
					sawAbort = true
				}
			}
			if len(pids) >= 2 {
				overlap = true
			}
			if len(pids) >= 1 && len(o.Truth[tp]) > 0 {
				// a plain record between transactional ones also counts as interleaving
				plain := false
				for _, r := range o.Truth[tp] {
					if !r.Txn && !r.Control {
						plain = true
					}
				}
				if plain {
					overlap = true
				}
			}
		}
	}
	for _, tx := range o.Txns {
		if tx.Outcome == "unknown" || tx.Outcome == "open" {
			sawTimeout = true
		}
	}
	return
}
