package c14

import (
	"context"
	"fmt"
	"sync"
	"testing"
	"time"

	"github.com/twmb/franz-go/pkg/kgo"
	"pgregory.net/rapid"

	"verif/h/bubble"
	"verif/h/ev"
)

// TestFetchHooksSlowConcurrent: the fetch-side pairing under the one condition the sequential
// workload of TestFetchHooksPair cannot create: OnFetchRecordUnbuffered hooks that take
// (virtual) time, so that a poll is still dispatching its hooks while a second poller, a
// purge, a pause or a leader move queues or discards more buffered records. Every record
// passed to OnFetchRecordBuffered must be passed to OnFetchRecordUnbuffered exactly once by
// the time Close has returned and everything has settled, and the gauges return to zero.

type slowStep struct {
	Delay time.Duration
	Kind  string // poll | pollrecs | purge | readd | pause | resume | move | append
	N     int
	Part  int32
}

type slowPlan struct {
	Brokers int
	Parts   int32
	Prefill int
	SlowMod int           // every SlowMod-th unbuffered hook call sleeps
	SlowFor time.Duration // for this long (virtual)
	Polls   int           // polls of the main poller
	Warm    time.Duration // before its first poll (lets several sources buffer a fetch each)
	Gap     time.Duration // between its polls
	PollMax int
	Steps   []slowStep // second goroutine
	// FetchBytes is the per-partition fetch limit: 1 returns one batch (= one record) per fetch
	FetchBytes int
}

func genSlowPlan(t *rapid.T) slowPlan {
	p := slowPlan{Brokers: rapid.IntRange(1, 3).Draw(t, "brokers"), Parts: int32(rapid.IntRange(2, 5).Draw(t, "parts")), Prefill: rapid.IntRange(2, 12).Draw(t, "prefill"),
		SlowMod: rapid.SampledFrom([]int{1, 1, 2, 3}).Draw(t, "slowmod"), FetchBytes: rapid.SampledFrom([]int{1, 200, 1000}).Draw(t, "fetchbytes"), SlowFor: rapid.SampledFrom([]time.Duration{5 * time.Millisecond, 50 * time.Millisecond, 400 * time.Millisecond}).Draw(t, "slowfor"),
		Warm: rapid.SampledFrom([]time.Duration{0, 300 * time.Millisecond}).Draw(t, "warm"), Gap: rapid.SampledFrom([]time.Duration{0, 50 * time.Millisecond, 300 * time.Millisecond}).Draw(t, "gap"),
		Polls: rapid.IntRange(2, 8).Draw(t, "polls"), PollMax: rapid.SampledFrom([]int{0, 0, 1, 3}).Draw(t, "pollmax")}
	n := rapid.IntRange(2, 20).Draw(t, "nsteps")
	kinds := []string{"poll", "poll", "pollrecs", "purge", "purge", "readd", "pause", "resume", "move", "append", "append"}
	for i := 0; i < n; i++ {
		p.Steps = append(p.Steps, slowStep{Delay: rapid.SampledFrom([]time.Duration{0, time.Millisecond, 10 * time.Millisecond, 60 * time.Millisecond, 300 * time.Millisecond}).Draw(t, "delay"),
			Kind: rapid.SampledFrom(kinds).Draw(t, "kind"), N: rapid.IntRange(1, 6).Draw(t, "n"), Part: int32(rapid.IntRange(0, 4).Draw(t, "part"))})
	}
	return p
}

type slowHooks struct {
	mu       sync.Mutex
	buf      map[*kgo.Record]int
	unbuf    map[*kgo.Record]int
	calls    int
	inHook   int
	overlaps int // something else happened to the consumer while an unbuffered hook was sleeping
	p        *slowPlan
	early    string
}

func (h *slowHooks) OnFetchRecordBuffered(r *kgo.Record) {
	h.mu.Lock()
	h.buf[r]++
	if h.inHook > 0 {
		h.overlaps++
	}
	h.mu.Unlock()
}

func (h *slowHooks) OnFetchRecordUnbuffered(r *kgo.Record, _ bool) {
	h.mu.Lock()
	if h.buf[r] == 0 && h.early == "" {
		h.early = fmt.Sprintf("OnFetchRecordUnbuffered for %s/%d@%d without OnFetchRecordBuffered", r.Topic, r.Partition, r.Offset)
	}
	h.unbuf[r]++
	h.calls++
	slow := h.calls%h.p.SlowMod == 0
	if h.inHook > 0 {
		h.overlaps++
	}
	if slow {
		h.inHook++
	}
	h.mu.Unlock()
	if slow {
		time.Sleep(h.p.SlowFor)
		h.mu.Lock()
		h.inHook--
		h.mu.Unlock()
	}
}

func TestFetchHooksSlowConcurrent(t *testing.T) {
	rapid.Check(t, func(rt *rapid.T) {
		p := genSlowPlan(rt)
		h := &slowHooks{buf: map[*kgo.Record]int{}, unbuf: map[*kgo.Record]int{}, p: &p}
		var finalRecs, finalBytes int64
		var dump string
		spun := false
		var tmu sync.Mutex
		bubble.Run(t, rt, func(e *bubble.Env) {
			e.StartCluster(bubble.ClusterOpts{Brokers: p.Brokers, Topics: map[string]int32{"h": p.Parts, "h2": 2}})
			prod := e.NewClient(kgo.RecordPartitioner(kgo.ManualPartitioner()))
			ctx := context.Background()
			produce := func(topic string, part int32, n int) {
				// one batch per record, so that the consumer's small fetches each return a part of the log
				for i := 0; i < n; i++ {
					pc, cancel := context.WithTimeout(ctx, time.Minute)
					err := prod.ProduceSync(pc, &kgo.Record{Topic: topic, Partition: part, Value: []byte("0123456789")}).FirstErr()
					cancel()
					if err != nil {
						panic("VERIF-INFRA: produce: " + err.Error())
					}
				}
			}
			for pt := int32(0); pt < p.Parts; pt++ {
				produce("h", pt, p.Prefill)
			}
			produce("h2", 0, p.Prefill)
			produce("h2", 1, p.Prefill)
			cl := e.NewClient(kgo.ConsumeTopics("h", "h2"), kgo.ConsumeResetOffset(kgo.NewOffset().AtStart()), kgo.FetchMaxWait(200*time.Millisecond), kgo.WithHooks(h),
				kgo.FetchMaxPartitionBytes(int32(p.FetchBytes)))
			note := func(s string) {
				e.Log.Add("step", 0, s, nil, 0, 0)
				tmu.Lock()
				dump = e.Log.Dump(60)
				tmu.Unlock()
			}
			poll := func(who string, max int) {
				pc, cancel := context.WithTimeout(ctx, 300*time.Millisecond)
				defer cancel()
				var fs kgo.Fetches
				if max > 0 {
					fs = cl.PollRecords(pc, max)
				} else {
					fs = cl.PollFetches(pc)
				}
				note(fmt.Sprintf("%s poll max=%d -> %d records", who, max, fs.NumRecords()))
			}
			var wg sync.WaitGroup
			wg.Add(2)
			go func() {
				defer wg.Done()
				time.Sleep(p.Warm)
				for i := 0; i < p.Polls; i++ {
					poll("A", p.PollMax)
					time.Sleep(p.Gap)
				}
			}()
			go func() {
				defer wg.Done()
				for _, s := range p.Steps {
					time.Sleep(s.Delay)
					switch s.Kind {
					case "poll":
						poll("B", 0)
					case "pollrecs":
						poll("B", s.N)
					case "purge":
						cl.PurgeTopicsFromConsuming("h2")
						note("purge h2")
					case "readd":
						cl.AddConsumeTopics("h2")
						note("add h2")
					case "pause":
						cl.PauseFetchPartitions(map[string][]int32{"h": {s.Part % p.Parts}})
						note(fmt.Sprintf("pause h/%d", s.Part%p.Parts))
					case "resume":
						cl.ResumeFetchPartitions(map[string][]int32{"h": {s.Part % p.Parts}})
						note(fmt.Sprintf("resume h/%d", s.Part%p.Parts))
					case "move":
						pt := s.Part % p.Parts
						e.Cluster.MoveTopicPartition("h", pt, (e.Cluster.LeaderFor("h", pt)+1)%int32(p.Brokers))
						cl.ForceMetadataRefresh()
						note(fmt.Sprintf("move h/%d", pt))
					case "append":
						produce("h", s.Part%p.Parts, s.N)
						note(fmt.Sprintf("append h/%d x%d", s.Part%p.Parts, s.N))
					}
				}
			}()
			wd := make(chan struct{})
			go func() { wg.Wait(); close(wd) }()
			bubble.WaitTimeout(wd, 10*time.Minute)
			cd := make(chan struct{})
			go func() { cl.Close(); close(cd) }()
			bubble.WaitTimeout(cd, 10*time.Minute)
			// asynchronous discards dispatch their hooks on their own goroutine, one record after the
			// other: allow every buffered record a full slow hook call
			h.mu.Lock()
			nbuf := len(h.buf)
			h.mu.Unlock()
			time.Sleep(5*time.Second + time.Duration(nbuf)*p.SlowFor)
			finalRecs, finalBytes = cl.BufferedFetchRecords(), cl.BufferedFetchBytes()
			spun, _ = e.Net.Spinning()
		})
		if spun {
			ev.Case(fmt.Sprintf("S|%+v", p), false)
			ev.Class("inconclusive-request-spin")
			return
		}
		h.mu.Lock()
		defer h.mu.Unlock()
		fail := func(format string, a ...any) {
			tmu.Lock()
			defer tmu.Unlock()
			rt.Fatalf("%s\nplan: %+v\nhistory tail:\n%s", fmt.Sprintf(format, a...), p, dump)
		}
		if h.early != "" {
			fail("%s", h.early)
		}
		for r, b := range h.buf {
			if b != 1 {
				fail("OnFetchRecordBuffered called %d times for %s/%d@%d", b, r.Topic, r.Partition, r.Offset)
			}
			if u := h.unbuf[r]; u != 1 {
				fail("record %s/%d@%d: OnFetchRecordBuffered once, OnFetchRecordUnbuffered %d times (after Close returned and every pending hook call had time to finish)", r.Topic, r.Partition, r.Offset, u)
			}
		}
		if finalRecs != 0 || finalBytes != 0 {
			fail("after Close: BufferedFetchRecords=%d BufferedFetchBytes=%d", finalRecs, finalBytes)
		}
		ev.Case(fmt.Sprintf("S|%+v", p), h.overlaps > 0)
		ev.Class("fetch-side-slow-hooks")
		if h.overlaps > 0 {
			ev.Class("fetch-hook-activity-while-an-unbuffered-hook-was-sleeping")
		}
		ev.ClassN("fetch-records-buffered", int64(len(h.buf)))
	})
}
