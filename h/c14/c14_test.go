package c14

import (
	"fmt"
	"sync/atomic"
	"testing"

	"pgregory.net/rapid"

	"verif/h/bubble"
	"verif/h/ev"
	"verif/h/wl"
)

func TestMain(m *testing.M) { ev.Main(m, "C14") }

// TestProduceHooksPair: every record passed to OnProduceRecordBuffered is passed exactly
// once to OnProduceRecordUnbuffered, with the error its promise receives.
func TestProduceHooksPair(t *testing.T) {
	rapid.Check(t, func(rt *rapid.T) {
		plan := wl.GenProdPlan(rt, wl.ProdFocus{})
		var o *wl.ProdObs
		bubble.Run(t, rt, func(e *bubble.Env) {
			o = wl.RunProd(e, plan)
			fail := func(format string, a ...any) {
				rt.Fatalf("%s\nplan: %s\nhistory tail:\n%s", fmt.Sprintf(format, a...), plan.Brief(), o.Log.Dump(40))
			}
			if n := o.UnknownPromise.Load(); n != 0 {
				fail("a produce hook was called for a record never handed to the client (%d)", n)
			}
			for _, rs := range o.Recs {
				b, u := atomic.LoadInt32(&rs.Buffered), atomic.LoadInt32(&rs.Unbuffered)
				if b > 1 {
					fail("record %d: OnProduceRecordBuffered called %d times", rs.ID, b)
				}
				if b == 1 && u != 1 {
					fail("record %d (mode %s, topic %s): buffered hook once, unbuffered hook %d times (after Close and %v)", rs.ID, rs.Mode, rs.Topic, u, 2*wl.Bound)
				}
				if b == 0 && u != 0 {
					fail("record %d: unbuffered hook %d times without a buffered hook", rs.ID, u)
				}
				if u == 1 && atomic.LoadInt32(&rs.Promises) == 1 && !wl.ErrIs(rs.UnbufErr, rs.PromiseErr) {
					fail("record %d: OnProduceRecordUnbuffered error %v differs from the promise's error %v", rs.ID, rs.UnbufErr, rs.PromiseErr)
				}
			}
		})
		nt := len(o.FailurePaths) > 0 && o.InflightAtFailure
		ev.Case("P|"+o.Digest(), nt)
		ev.Class("produce-side")
		for k := range o.FailurePaths {
			ev.Class("produce-path:" + k)
		}
		if nt {
			ev.SampleIf(func() any {
				return map[string]any{"side": "produce", "steps": o.StepKinds, "records": len(o.Recs), "failure_paths": o.FailurePaths}
			})
		}
	})
}

// TestFetchHooksPair: every record passed to OnFetchRecordBuffered is passed exactly once
// to OnFetchRecordUnbuffered (polled or discarded), and the buffered gauges return to zero.
func TestFetchHooksPair(t *testing.T) {
	rapid.Check(t, func(rt *rapid.T) {
		plan := wl.GenConsPlan(rt, wl.ConsFocus{Txn: rapid.Bool().Draw(rt, "withtxn")})
		var o *wl.ConsObs
		spun := false
		bubble.Run(t, rt, func(e *bubble.Env) {
			o = wl.RunCons(e, plan)
			if s, _ := e.Net.Spinning(); s {
				spun = true
				return
			}
			fail := func(format string, a ...any) {
				rt.Fatalf("%s\nplan: %s\nhistory tail:\n%s", fmt.Sprintf(format, a...), plan.Brief(), o.Log.Dump(40))
			}
			if o.HookOrderBad != "" {
				fail("%s", o.HookOrderBad)
			}
			if mm := o.HookMismatches(); len(mm) > 0 {
				fail("fetch hooks do not pair up after Close (%d records), first: %s", len(mm), mm[0])
			}
			if o.FinalBufferedRecs != 0 || o.FinalBufferedBytes != 0 {
				fail("after Close with nothing buffered: BufferedFetchRecords=%d BufferedFetchBytes=%d", o.FinalBufferedRecs, o.FinalBufferedBytes)
			}
		})
		discarded := 0
		if !spun {
			for r := range o.UnbufCount {
				if !o.UnbufPolled[r] {
					discarded++
				}
			}
		}
		nt := !spun && discarded > 0
		ev.Case("F|"+o.Digest(), nt)
		ev.Class("fetch-side")
		if spun {
			ev.Class("inconclusive-request-spin")
		}
		if discarded > 0 {
			ev.Class("fetch-records-discarded-unpolled")
		}
		if o.PauseStrip {
			ev.Class("pause-while-buffered")
		}
		ev.ClassN("fetch-records-buffered", int64(len(o.BufCount)))
		if nt {
			ev.SampleIf(func() any {
				return map[string]any{"side": "fetch", "steps": o.StepKinds, "buffered_records": len(o.BufCount), "discarded_without_poll": discarded}
			})
		}
	})
}
