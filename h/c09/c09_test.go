package c09

import (
	"context"
	"fmt"
	"sync"
	"testing"
	"time"

	"github.com/twmb/franz-go/pkg/kerr"
	"github.com/twmb/franz-go/pkg/kgo"
	"github.com/twmb/franz-go/pkg/kmsg"
	"pgregory.net/rapid"

	"verif/h/bubble"
	"verif/h/ev"
)

func TestMain(m *testing.M) { ev.Main(m, "C09") }

type commitStep struct {
	Kind  string // async | sync | records | second-join | second-leave | sleep
	Tag   int64  // unique tag: offsets are Tag*1000 + partition
	Parts []int32
	Delay time.Duration // broker-side delay of this commit's first arrival
	Code  int16         // whole-response retriable coordinator error injected once (0 = none)
	PCode int16         // per-partition (first listed partition) non-retriable error injected once
	Gap   time.Duration // app-side pause before the step
	Ctx   time.Duration // deadline of the context handed to the commit call (0 = none)
}

type plan struct {
	Brokers int
	NParts  int32
	Steps   []commitStep
}

var coordCodes = []int16{kerr.CoordinatorLoadInProgress.Code, kerr.CoordinatorNotAvailable.Code, kerr.NotCoordinator.Code, kerr.RequestTimedOut.Code}
var partCodes = []int16{kerr.OffsetMetadataTooLarge.Code, kerr.InvalidCommitOffsetSize.Code, kerr.TopicAuthorizationFailed.Code}

func genPlan(t *rapid.T) plan {
	p := plan{Brokers: rapid.IntRange(1, 3).Draw(t, "brokers"), NParts: int32(rapid.IntRange(1, 3).Draw(t, "parts"))}
	n := rapid.IntRange(2, 12).Draw(t, "ncommits")
	tags := rapid.Permutation(func() []int64 {
		var x []int64
		for i := 1; i <= n; i++ {
			x = append(x, int64(i))
		}
		return x
	}()).Draw(t, "tags")
	second := rapid.IntRange(0, 3).Draw(t, "second") == 0
	for i := 0; i < n; i++ {
		s := commitStep{Kind: rapid.SampledFrom([]string{"async", "async", "sync", "records"}).Draw(t, "kind"), Tag: tags[i]}
		for pt := int32(0); pt < p.NParts; pt++ {
			if pt == 0 && p.NParts == 1 || rapid.IntRange(0, 3).Draw(t, "incl") != 0 {
				s.Parts = append(s.Parts, pt)
			}
		}
		if len(s.Parts) == 0 {
			s.Parts = []int32{0}
		}
		s.Delay = rapid.SampledFrom([]time.Duration{0, 0, 50 * time.Millisecond, 2 * time.Second}).Draw(t, "delay")
		switch rapid.IntRange(0, 5).Draw(t, "fault") {
		case 0:
			s.Code = rapid.SampledFrom(coordCodes).Draw(t, "code")
		case 1:
			s.PCode = rapid.SampledFrom(partCodes).Draw(t, "pcode")
		}
		s.Gap = rapid.SampledFrom([]time.Duration{0, 0, time.Millisecond, 300 * time.Millisecond}).Draw(t, "gap")
		s.Ctx = rapid.SampledFrom([]time.Duration{0, 0, 0, 0, time.Millisecond, 30 * time.Millisecond, 500 * time.Millisecond}).Draw(t, "ctx")
		p.Steps = append(p.Steps, s)
		if second && i == n/2 {
			p.Steps = append(p.Steps, commitStep{Kind: "second-join"})
		}
	}
	if second {
		p.Steps = append(p.Steps, commitStep{Kind: "second-leave"})
	}
	return p
}

type outcome struct {
	tag    int64
	respOK map[int32]bool // partition -> committed without error
	err    error
	done   bool
}

// status of one commit for one partition
const (
	stFailed = iota // the coordinator did not apply it (it never got there, or the harness answered with an error)
	stMaybe         // the client reported a failure, but a request carrying it was handed to the coordinator
	stOK            // the client reported success
)

func TestCommitOrder(t *testing.T) {
	rapid.Check(t, func(rt *rapid.T) {
		p := genPlan(rt)
		var delayedBehind, faults, nMaybe, nCtx int
		bubble.Run(t, rt, func(e *bubble.Env) {
			e.StartCluster(bubble.ClusterOpts{Brokers: p.Brokers, Topics: map[string]int32{"c": p.NParts}})
			var mu sync.Mutex
			firstArrival := map[int64]int{} // tag -> log index of first arrival at the broker
			byTag := map[int64]*commitStep{}
			for i := range p.Steps {
				if p.Steps[i].Tag != 0 {
					byTag[p.Steps[i].Tag] = &p.Steps[i]
				}
			}
			injected := map[int64]bool{}
			passed := map[int64]bool{} // tag -> some request carrying it was handed to kfake's own handler
			e.Cluster.ControlKey(int16(kmsg.OffsetCommit), func(kreq kmsg.Request) (kmsg.Response, error, bool) {
				e.Cluster.KeepControl()
				req := kreq.(*kmsg.OffsetCommitRequest)
				if req.Group != "g9" || len(req.Topics) == 0 || len(req.Topics[0].Partitions) == 0 {
					return nil, nil, false
				}
				tag := req.Topics[0].Partitions[0].Offset / 1000
				mu.Lock()
				_, seen := firstArrival[tag]
				if !seen {
					firstArrival[tag] = e.Log.Add("commit-arrive", tag, "", nil, 0, 0)
				}
				st := byTag[tag]
				inj := injected[tag]
				injected[tag] = true
				mu.Unlock()
				if st == nil || seen {
					mu.Lock()
					passed[tag] = true
					mu.Unlock()
					return nil, nil, false
				}
				if st.Delay > 0 {
					e.Cluster.SleepControl(func() { time.Sleep(st.Delay) })
				}
				if inj {
					mu.Lock()
					passed[tag] = true
					mu.Unlock()
					return nil, nil, false
				}
				if st.Code != 0 || st.PCode != 0 {
					resp := req.ResponseKind().(*kmsg.OffsetCommitResponse)
					for _, rt := range req.Topics {
						t := kmsg.NewOffsetCommitResponseTopic()
						t.Topic, t.TopicID = rt.Topic, rt.TopicID
						for i, rp := range rt.Partitions {
							pp := kmsg.NewOffsetCommitResponseTopicPartition()
							pp.Partition = rp.Partition
							if st.Code != 0 {
								pp.ErrorCode = st.Code
							} else if i == 0 {
								pp.ErrorCode = st.PCode
							}
							t.Partitions = append(t.Partitions, pp)
						}
						resp.Topics = append(resp.Topics, t)
					}
					if st.PCode != 0 {
						// partial failure answered by the harness: the other partitions are NOT committed either,
						// so report them as failed too (keeps the oracle exact)
						for i := range resp.Topics {
							for j := range resp.Topics[i].Partitions {
								resp.Topics[i].Partitions[j].ErrorCode = st.PCode
							}
						}
					}
					return resp, nil, true
				}
				mu.Lock()
				passed[tag] = true
				mu.Unlock()
				return nil, nil, false
			})
			opts := []kgo.Opt{kgo.ConsumerGroup("g9"), kgo.ConsumeTopics("c"), kgo.ConsumeResetOffset(kgo.NewOffset().AtStart()), kgo.DisableAutoCommit(), kgo.Balancers(kgo.CooperativeStickyBalancer()), kgo.HeartbeatInterval(300 * time.Millisecond), kgo.SessionTimeout(20 * time.Second)}
			cl := e.NewClient(opts...)
			// Realistic precondition: the application commits offsets of partitions it consumes.
			// Every partition holds records and the member polls all of them before committing.
			prod := e.NewClient(kgo.RecordPartitioner(kgo.ManualPartitioner()))
			for pt := int32(0); pt < p.NParts; pt++ {
				if err := prod.ProduceSync(context.Background(), &kgo.Record{Topic: "c", Partition: pt, Value: []byte("x")}, &kgo.Record{Topic: "c", Partition: pt, Value: []byte("y")}).FirstErr(); err != nil {
					panic(fmt.Sprintf("VERIF-INFRA: prefill: %v", err))
				}
			}
			seenParts := map[int32]bool{}
			for dl := time.Now().Add(2 * time.Minute); len(seenParts) < int(p.NParts) && time.Now().Before(dl); {
				ctxj, cancelj := context.WithTimeout(context.Background(), 2*time.Second)
				cl.PollFetches(ctxj).EachRecord(func(r *kgo.Record) { seenParts[r.Partition] = true })
				cancelj()
			}
			if len(seenParts) < int(p.NParts) {
				panic("VERIF-INFRA: member did not consume every partition within 2 virtual minutes")
			}
			time.Sleep(time.Second)
			var outs []*outcome
			var wg sync.WaitGroup
			var second *kgo.Client
			for i := range p.Steps {
				s := p.Steps[i]
				if s.Gap > 0 {
					time.Sleep(s.Gap)
				}
				switch s.Kind {
				case "second-join":
					second = e.NewClient(append(opts, kgo.ClientID("second"))...)
					continue
				case "second-leave":
					if second != nil {
						second.Close()
					}
					continue
				}
				out := &outcome{tag: s.Tag, respOK: map[int32]bool{}}
				outs = append(outs, out)
				offs := map[string]map[int32]kgo.EpochOffset{"c": {}}
				var recs []*kgo.Record
				for _, pt := range s.Parts {
					o := s.Tag*1000 + int64(pt)
					offs["c"][pt] = kgo.EpochOffset{Epoch: -1, Offset: o}
					recs = append(recs, &kgo.Record{Topic: "c", Partition: pt, Offset: o - 1, LeaderEpoch: -1})
				}
				onDone := func(_ *kgo.Client, _ *kmsg.OffsetCommitRequest, resp *kmsg.OffsetCommitResponse, err error) {
					mu.Lock()
					defer mu.Unlock()
					out.err, out.done = err, true
					if err == nil && resp != nil {
						for _, t := range resp.Topics {
							for _, pp := range t.Partitions {
								out.respOK[pp.Partition] = pp.ErrorCode == 0
							}
						}
					}
					e.Log.Add("commit-done", s.Tag, "", err, 0, 0)
				}
				e.Log.Add("commit-issue", s.Tag, fmt.Sprintf("%s ctx=%v", s.Kind, s.Ctx), nil, 0, 0)
				cctx := context.Background()
				if s.Ctx > 0 {
					var ccancel context.CancelFunc
					cctx, ccancel = context.WithTimeout(cctx, s.Ctx)
					e.OnTeardown(ccancel)
				}
				switch s.Kind {
				case "async":
					wg.Add(1)
					cl.CommitOffsets(cctx, offs, func(c *kgo.Client, rq *kmsg.OffsetCommitRequest, rs *kmsg.OffsetCommitResponse, err error) {
						onDone(c, rq, rs, err)
						wg.Done()
					})
				case "sync":
					cl.CommitOffsetsSync(cctx, offs, onDone)
				case "records":
					err := cl.CommitRecords(cctx, recs...)
					mu.Lock()
					out.err, out.done = err, true
					for _, pt := range s.Parts {
						out.respOK[pt] = err == nil
					}
					mu.Unlock()
					e.Log.Add("commit-done", s.Tag, "records", err, 0, 0)
				}
			}
			wdone := make(chan struct{})
			go func() { wg.Wait(); close(wdone) }()
			if !bubble.WaitTimeout(wdone, 10*time.Minute) {
				rt.Fatalf("async commit callbacks did not all run within 10 virtual minutes\nplan: %+v\n%s", p, e.Log.Dump(40))
			}
			time.Sleep(5 * time.Second)
			e.Settle()
			fail := func(format string, a ...any) {
				rt.Fatalf("%s\nplan: %+v\nhistory tail:\n%s", fmt.Sprintf(format, a...), p, e.Log.Dump(60))
			}
			// (1) arrival order == issue order
			last := -1
			var lastTag int64
			for _, o := range outs {
				at, ok := firstArrival[o.tag]
				if !ok {
					if o.err == nil && o.done {
						fail("commit %d finished without error but never reached the coordinator", o.tag)
					}
					continue
				}
				if at < last {
					fail("commit %d was issued after commit %d but reached the coordinator first (log #%d < #%d)", o.tag, lastTag, at, last)
				}
				last, lastTag = at, o.tag
			}
			// (2) broker state == last successful commit per partition; (3) CommittedOffsets agrees.
			// A commit the client reported as failed although a request carrying it was handed to the
			// coordinator (context expired mid-flight, coordinator-side rejection) may or may not have
			// been applied, now or later: its offset stays an admissible final value.
			status := func(o *outcome, pt int32) int {
				if o.respOK[pt] {
					return stOK
				}
				if passed[o.tag] {
					return stMaybe
				}
				return stFailed
			}
			admissible := map[int32]map[int64]bool{} // partition -> admissible final offsets (-1 = none committed)
			want := map[int32]int64{}
			unsure := map[int32]bool{}
			maybes := map[int32]map[int64]bool{}
			for pt := int32(0); pt < p.NParts; pt++ {
				admissible[pt] = map[int64]bool{-1: true}
			}
			for _, o := range outs {
				if !o.done {
					fail("commit %d never completed", o.tag)
				}
				for _, pt := range byTag[o.tag].Parts {
					off := o.tag*1000 + int64(pt)
					switch status(o, pt) {
					case stOK:
						admissible[pt] = map[int64]bool{off: true}
						for m := range maybes[pt] {
							admissible[pt][m] = true
						}
						want[pt] = off
					case stMaybe:
						// An abandoned request that reached the coordinator can be applied at any later
						// time (after the client gave up on it, on a connection the client has already
						// replaced), so it stays admissible even when successful commits follow.
						admissible[pt][off] = true
						if maybes[pt] == nil {
							maybes[pt] = map[int64]bool{}
						}
						maybes[pt][off] = true
						unsure[pt] = true
						nMaybe++
					}
				}
			}
			raw := e.RawClient()
			freq := kmsg.NewPtrOffsetFetchRequest()
			freq.Group = "g9"
			rg := kmsg.NewOffsetFetchRequestGroup()
			rg.Group = "g9"
			freq.Groups = append(freq.Groups, rg)
			ctx, cancel := context.WithTimeout(context.Background(), time.Minute)
			fresp, err := freq.RequestWith(ctx, raw)
			cancel()
			if err != nil {
				panic(fmt.Sprintf("VERIF-INFRA: OffsetFetch: %v", err))
			}
			got := map[int32]int64{}
			for _, g := range fresp.Groups {
				for _, t := range g.Topics {
					for _, pp := range t.Partitions {
						if pp.ErrorCode == 0 && pp.Offset >= 0 {
							got[pp.Partition] = pp.Offset
						}
					}
				}
			}
			for _, t := range fresp.Topics {
				for _, pp := range t.Partitions {
					if pp.ErrorCode == 0 && pp.Offset >= 0 {
						got[pp.Partition] = pp.Offset
					}
				}
			}
			for pt := int32(0); pt < p.NParts; pt++ {
				g, gok := got[pt]
				if !gok {
					g = -1
				}
				if !admissible[pt][g] {
					w, wok := want[pt]
					fail("partition %d: coordinator has committed offset %d (-1 = none) but the last successful commit was %d (present=%v); admissible final values given unconfirmed commits: %v", pt, g, w, wok, admissible[pt])
				}
			}
			if second == nil { // with a second member the first may not own every partition any more
				co := cl.CommittedOffsets()["c"]
				for pt, w := range want {
					if unsure[pt] {
						continue
					}
					if eo, ok := co[pt]; !ok || eo.Offset != w {
						fail("partition %d: CommittedOffsets reports %v (present=%v) but the last successful commit was %d", pt, eo.Offset, ok, w)
					}
				}
			}
			for i, o := range outs {
				st := byTag[o.tag]
				if st.Delay > 0 && i+1 < len(outs) {
					delayedBehind++
				}
				if st.Code != 0 || st.PCode != 0 {
					faults++
				}
			}
		})
		kinds := ""
		for _, s := range p.Steps {
			kinds += s.Kind[:1]
		}
		ev.Case(fmt.Sprintf("%s|%d|%d|%v", kinds, p.NParts, p.Brokers, p.Steps), delayedBehind > 0)
		if delayedBehind > 0 {
			ev.Class("delayed-commit-with-later-commit-behind-it")
		}
		if faults > 0 {
			ev.Class("commit-error-injected")
		}
		for _, st := range p.Steps {
			if st.Ctx > 0 {
				nCtx++
			}
		}
		if nCtx > 0 {
			ev.Class("commit-with-context-deadline")
		}
		if nMaybe > 0 {
			ev.Class("commit-reported-failed-but-handed-to-coordinator")
		}
		ev.ClassN("commits", int64(len(p.Steps)))
		if delayedBehind > 0 {
			ev.SampleIf(func() any { return map[string]any{"steps": fmt.Sprintf("%+v", p.Steps), "partitions": p.NParts} })
		}
	})
}
