package c09

import (
	"context"
	"fmt"
	"sync"
	"testing"
	"time"

	"github.com/twmb/franz-go/pkg/kgo"
	"github.com/twmb/franz-go/pkg/kmsg"
	"pgregory.net/rapid"

	"verif/h/bubble"
	"verif/h/ev"
)

// TestRecommitSameOffsets: commit sequences whose VALUES repeat. TestCommitOrder gives every
// commit a unique offset so that requests on the wire can be attributed; an application that
// rewinds (commits 5, then 10, then 5 again after deciding to reprocess) issues a commit whose
// offsets equal ones it committed before, possibly while a newer commit is still in flight.
// No faults are injected here, so every commit must succeed and the oracle is exact: after all
// callbacks have run, the coordinator holds, per partition, the offset of the LAST commit
// issued for it, and CommittedOffsets agrees. Requests are delayed broker-side by arrival
// ordinal (generated), so that later commits are issued while earlier ones are in flight.

type reStep struct {
	Kind  string // async | sync | records
	Val   int64  // offset = Val*10 + partition
	Parts []int32
	Gap   time.Duration
}

type rePlan struct {
	Brokers int
	NParts  int32
	Steps   []reStep
	Delays  []time.Duration // broker-side delay of the k-th OffsetCommit request to arrive
}

func genRePlan(t *rapid.T) rePlan {
	p := rePlan{Brokers: rapid.IntRange(1, 3).Draw(t, "brokers"), NParts: int32(rapid.IntRange(1, 2).Draw(t, "parts"))}
	n := rapid.IntRange(3, 10).Draw(t, "ncommits")
	for i := 0; i < n; i++ {
		s := reStep{Kind: rapid.SampledFrom([]string{"async", "async", "async", "sync", "records"}).Draw(t, "kind"), Val: int64(rapid.IntRange(1, 3).Draw(t, "val")),
			Gap: rapid.SampledFrom([]time.Duration{0, 0, 0, time.Millisecond, 100 * time.Millisecond, time.Second}).Draw(t, "gap")}
		for pt := int32(0); pt < p.NParts; pt++ {
			if rapid.IntRange(0, 3).Draw(t, "incl") != 0 {
				s.Parts = append(s.Parts, pt)
			}
		}
		if len(s.Parts) == 0 {
			s.Parts = []int32{0}
		}
		p.Steps = append(p.Steps, s)
		p.Delays = append(p.Delays, rapid.SampledFrom([]time.Duration{0, 0, 50 * time.Millisecond, 500 * time.Millisecond, 2 * time.Second}).Draw(t, "delay"))
	}
	return p
}

func TestRecommitSameOffsets(t *testing.T) {
	rapid.Check(t, func(rt *rapid.T) {
		p := genRePlan(rt)
		rewindInFlight := false
		bubble.Run(t, rt, func(e *bubble.Env) {
			e.StartCluster(bubble.ClusterOpts{Brokers: p.Brokers, Topics: map[string]int32{"c": p.NParts}})
			var mu sync.Mutex
			arrivals := 0
			e.Cluster.ControlKey(int16(kmsg.OffsetCommit), func(kreq kmsg.Request) (kmsg.Response, error, bool) {
				e.Cluster.KeepControl()
				req := kreq.(*kmsg.OffsetCommitRequest)
				if req.Group != "g9r" {
					return nil, nil, false
				}
				mu.Lock()
				k := arrivals
				arrivals++
				mu.Unlock()
				var offs []string
				for _, t := range req.Topics {
					for _, pp := range t.Partitions {
						offs = append(offs, fmt.Sprintf("p%d=%d", pp.Partition, pp.Offset))
					}
				}
				e.Log.Add("commit-arrive", int64(k), fmt.Sprint(offs), nil, 0, 0)
				if k < len(p.Delays) && p.Delays[k] > 0 {
					d := p.Delays[k]
					e.Cluster.SleepControl(func() { time.Sleep(d) })
				}
				return nil, nil, false
			})
			cl := e.NewClient(kgo.ConsumerGroup("g9r"), kgo.ConsumeTopics("c"), kgo.ConsumeResetOffset(kgo.NewOffset().AtStart()), kgo.DisableAutoCommit(), kgo.Balancers(kgo.CooperativeStickyBalancer()),
				kgo.HeartbeatInterval(300*time.Millisecond), kgo.SessionTimeout(30*time.Second))
			prod := e.NewClient(kgo.RecordPartitioner(kgo.ManualPartitioner()))
			for pt := int32(0); pt < p.NParts; pt++ {
				if err := prod.ProduceSync(context.Background(), &kgo.Record{Topic: "c", Partition: pt, Value: []byte("x")}).FirstErr(); err != nil {
					panic(fmt.Sprintf("VERIF-INFRA: prefill: %v", err))
				}
			}
			seen := map[int32]bool{}
			for dl := time.Now().Add(2 * time.Minute); len(seen) < int(p.NParts) && time.Now().Before(dl); {
				pc, cancel := context.WithTimeout(context.Background(), 2*time.Second)
				cl.PollFetches(pc).EachRecord(func(r *kgo.Record) { seen[r.Partition] = true })
				cancel()
			}
			if len(seen) < int(p.NParts) {
				panic("VERIF-INFRA: member did not consume every partition within 2 virtual minutes")
			}
			time.Sleep(time.Second)
			fail := func(format string, a ...any) {
				rt.Fatalf("%s\nplan: %+v\nhistory tail:\n%s", fmt.Sprintf(format, a...), p, e.Log.Dump(60))
			}
			var wg sync.WaitGroup
			var errs []string
			pending := 0 // commits issued whose callback has not run yet
			want := map[int32]int64{}
			everCommitted := map[int32]map[int64]bool{}
			for i, s := range p.Steps {
				time.Sleep(s.Gap)
				offs := map[string]map[int32]kgo.EpochOffset{"c": {}}
				var recs []*kgo.Record
				mu.Lock()
				inflight := pending
				mu.Unlock()
				for _, pt := range s.Parts {
					o := s.Val*10 + int64(pt)
					offs["c"][pt] = kgo.EpochOffset{Epoch: -1, Offset: o}
					recs = append(recs, &kgo.Record{Topic: "c", Partition: pt, Offset: o - 1, LeaderEpoch: -1})
					if everCommitted[pt][o] && want[pt] != o && inflight > 0 {
						rewindInFlight = true // back to an offset committed earlier, with another commit still in flight
					}
					if everCommitted[pt] == nil {
						everCommitted[pt] = map[int64]bool{}
					}
					everCommitted[pt][o] = true
					want[pt] = o
				}
				e.Log.Add("commit-issue", int64(i), fmt.Sprintf("%s val=%d parts=%v", s.Kind, s.Val, s.Parts), nil, 0, 0)
				done := func(i int) func(*kgo.Client, *kmsg.OffsetCommitRequest, *kmsg.OffsetCommitResponse, error) {
					return func(_ *kgo.Client, _ *kmsg.OffsetCommitRequest, resp *kmsg.OffsetCommitResponse, err error) {
						mu.Lock()
						defer mu.Unlock()
						pending--
						if err != nil {
							errs = append(errs, fmt.Sprintf("commit %d: %v", i, err))
						} else if resp != nil {
							for _, t := range resp.Topics {
								for _, pp := range t.Partitions {
									if pp.ErrorCode != 0 {
										errs = append(errs, fmt.Sprintf("commit %d partition %d: code %d", i, pp.Partition, pp.ErrorCode))
									}
								}
							}
						}
						e.Log.Add("commit-done", int64(i), "", err, 0, 0)
					}
				}(i)
				mu.Lock()
				pending++
				mu.Unlock()
				switch s.Kind {
				case "async":
					wg.Add(1)
					cl.CommitOffsets(context.Background(), offs, func(c *kgo.Client, rq *kmsg.OffsetCommitRequest, rs *kmsg.OffsetCommitResponse, err error) {
						done(c, rq, rs, err)
						wg.Done()
					})
				case "sync":
					cl.CommitOffsetsSync(context.Background(), offs, done)
				case "records":
					err := cl.CommitRecords(context.Background(), recs...)
					done(nil, nil, nil, err)
				}
			}
			wd := make(chan struct{})
			go func() { wg.Wait(); close(wd) }()
			if !bubble.WaitTimeout(wd, 10*time.Minute) {
				fail("commit callbacks did not all run within 10 virtual minutes")
			}
			time.Sleep(5 * time.Second)
			mu.Lock()
			es := append([]string(nil), errs...)
			mu.Unlock()
			if len(es) > 0 {
				// no fault was injected; a failed commit makes the final value undetermined, not wrong
				ev.Class("recommit:commit-failed-without-injected-fault (not judged)")
				return
			}
			raw := e.RawClient()
			freq := kmsg.NewPtrOffsetFetchRequest()
			freq.Group = "g9r"
			rg := kmsg.NewOffsetFetchRequestGroup()
			rg.Group = "g9r"
			freq.Groups = append(freq.Groups, rg)
			ctx, cancel := context.WithTimeout(context.Background(), time.Minute)
			fresp, err := freq.RequestWith(ctx, raw)
			cancel()
			if err != nil {
				panic(fmt.Sprintf("VERIF-INFRA: OffsetFetch: %v", err))
			}
			got := map[int32]int64{}
			for _, g := range fresp.Groups {
				for _, t := range g.Topics {
					for _, pp := range t.Partitions {
						if pp.ErrorCode == 0 && pp.Offset >= 0 {
							got[pp.Partition] = pp.Offset
						}
					}
				}
			}
			for _, t := range fresp.Topics {
				for _, pp := range t.Partitions {
					if pp.ErrorCode == 0 && pp.Offset >= 0 {
						got[pp.Partition] = pp.Offset
					}
				}
			}
			co := cl.CommittedOffsets()["c"]
			for pt, w := range want {
				if g, ok := got[pt]; !ok || g != w {
					fail("partition %d: every commit was reported successful and the last one issued committed offset %d, but the coordinator holds %d (present=%v)", pt, w, g, ok)
				}
				if eo, ok := co[pt]; !ok || eo.Offset != w {
					fail("partition %d: CommittedOffsets reports %d (present=%v) but the last commit issued (and reported successful) was %d", pt, eo.Offset, ok, w)
				}
			}
		})
		ev.Case(fmt.Sprintf("recommit|%+v", p), rewindInFlight)
		ev.Class("recommit")
		if rewindInFlight {
			ev.Class("recommit:back-to-an-earlier-committed-offset-while-another-commit-is-in-flight")
		}
	})
}
