// Package c20 checks property C20: a stream written by kgo.RecordFormatter is read back,
// record by record and field by field, by a kgo.RecordReader with the same layout, for
// every layout of the size-prefixed / fixed-width grammar that both constructors accept.
//
// Grammar generated here (see NewRecordFormatter / NewRecordReader documentation):
//
//	layout  := lit? ( verb lit? )+            every ascii number is followed by a literal
//	                                          whose first byte is not a decimal digit
//	verb    := size | text | num | hcount | headers
//	size    := %T | %K | %V            + numfmt      (must precede the text verb it sizes)
//	text    := %t | %k | %v            + "" | {} | {hex} | {base64}
//	num     := %p | %o | %e | %d | %x | %y   + numfmt
//	hcount  := %H + numfmt            (must precede %h)
//	headers := %h{ lit? ( (%K|%V)+numfmt | (%k|%v)+textmod , lit? )+ }
//	numfmt  := "" | {ascii} | {number} | {hex4..hex64} | {big8..big64} | {little8..little64} | {byte}
//	lit     := raw bytes, \t \n \r \\ \xNN, %% %{ %}
//
// Not in the common grammar (one side rejects them): {hex} numbers, {base64raw}, {unpack},
// {bool} is accepted by both but not named by the property and is not generated; %v{3}
// fixed sizes, json and regular expressions exist only in the reader.
package c20

import (
	"bytes"
	"encoding/hex"
	"encoding/json"
	"fmt"
	"io"
	"os"
	"strings"
	"testing"
	"testing/iotest"
	"time"

	"github.com/twmb/franz-go/pkg/kgo"
	"pgregory.net/rapid"

	"verif/h/ev"
)

func TestMain(m *testing.M) { ev.Main(m, "C20") }

const knownKey = "sized-field-with-hex-or-base64-text-modifier-and-non-empty-content"

// ---------------------------------------------------------------------------
// layout AST

type numFmt struct {
	Spec  string // rendered modifier, "" = none (ascii by default)
	ASCII bool
	Bits  int // field width in bits for fixed formats
}

var asciiFmts = []numFmt{{"", true, 0}, {"{ascii}", true, 0}, {"{number}", true, 0}}

var fixedFmts = []numFmt{
	{"{hex4}", false, 4}, {"{hex8}", false, 8}, {"{hex16}", false, 16}, {"{hex32}", false, 32}, {"{hex64}", false, 64},
	{"{big8}", false, 8}, {"{big16}", false, 16}, {"{big32}", false, 32}, {"{big64}", false, 64},
	{"{little8}", false, 8}, {"{little16}", false, 16}, {"{little32}", false, 32}, {"{little64}", false, 64},
	{"{byte}", false, 8},
}

type elem struct {
	Verb  byte   // 0 = literal
	Num   numFmt // size / number verbs
	Enc   string // text verbs: "", "{}", "{hex}", "{base64}"
	Lit   []byte
	Inner []elem // %h
}

func (e elem) encoded() bool { return e.Enc == "{hex}" || e.Enc == "{base64}" }

func isSizeVerb(v byte) bool { return v == 'T' || v == 'K' || v == 'V' || v == 'H' }
func isTextVerb(v byte) bool { return v == 't' || v == 'k' || v == 'v' }
func isNumVerb(v byte) bool  { return strings.IndexByte("poedxy", v) >= 0 }

// renderLit writes literal bytes in layout syntax. style selects among equivalent spellings.
func renderLit(sb *strings.Builder, lit []byte, inner bool, style []byte) {
	for i, c := range lit {
		st := byte(0)
		if i < len(style) {
			st = style[i]
		}
		switch {
		case c == '%' || c == '{' || c == '}':
			// inside %h{...} the brace matcher looks at raw bytes: spell them as \xNN there
			if inner || st%2 == 1 {
				fmt.Fprintf(sb, "\\x%02x", c)
			} else {
				sb.WriteByte('%')
				sb.WriteByte(c)
			}
		case c == '\\':
			sb.WriteString("\\\\")
		case c == '\t' && st%2 == 0:
			sb.WriteString("\\t")
		case c == '\n' && st%2 == 0:
			sb.WriteString("\\n")
		case c == '\r' && st%2 == 0:
			sb.WriteString("\\r")
		case c >= 0x20 && c < 0x7f && st%4 != 3:
			sb.WriteByte(c)
		case c >= 0x80 && st%4 == 2:
			sb.WriteByte(c) // raw non-ASCII byte in the layout
		default:
			fmt.Fprintf(sb, "\\x%02x", c)
		}
	}
}

func render(es []elem, inner bool, style []byte) string {
	var sb strings.Builder
	for _, e := range es {
		switch {
		case e.Verb == 0:
			renderLit(&sb, e.Lit, inner, style)
		case e.Verb == 'h':
			sb.WriteString("%h{")
			sb.WriteString(render(e.Inner, true, style))
			sb.WriteString("}")
		case isTextVerb(e.Verb):
			sb.WriteByte('%')
			sb.WriteByte(e.Verb)
			sb.WriteString(e.Enc)
		default:
			sb.WriteByte('%')
			sb.WriteByte(e.Verb)
			sb.WriteString(e.Num.Spec)
		}
	}
	return sb.String()
}

// ---------------------------------------------------------------------------
// generators

func genNumFmt() *rapid.Generator[numFmt] {
	return rapid.OneOf(rapid.SampledFrom(asciiFmts), rapid.SampledFrom(fixedFmts), rapid.SampledFrom(fixedFmts))
}

var litCommon = []byte{' ', ',', ':', ';', '\t', '\n', '\r', '|', '-', '+', '.', 'a', 'Z', 'x', '%', '{', '}', '\\', 0, 0xff, 0x80, '0', '9', '5', 't', 'f', '"'}

func genLit(t *rapid.T, afterASCII bool) []byte {
	b := rapid.SliceOfN(rapid.OneOf(rapid.SampledFrom(litCommon), rapid.Byte()), 1, 4).Draw(t, "lit")
	if afterASCII && b[0] >= '0' && b[0] <= '9' {
		// a decimal digit would be read as part of the preceding ascii number
		b[0] = rapid.SampledFrom([]byte{' ', ',', ':', '\n', '\t', '-', 0, 0xff, 'a', '%', '}'}).Draw(t, "nondigit")
	}
	return b
}

func genEnc() *rapid.Generator[string] {
	return rapid.SampledFrom([]string{"", "", "", "{}", "{hex}", "{base64}"})
}

// order puts every size/count verb before the verb it sizes.
func order(vs []elem) {
	pos := func(v byte) int {
		for i, e := range vs {
			if e.Verb == v {
				return i
			}
		}
		return -1
	}
	for _, p := range [][2]byte{{'T', 't'}, {'K', 'k'}, {'V', 'v'}, {'H', 'h'}} {
		a, b := pos(p[0]), pos(p[1])
		if a >= 0 && b >= 0 && b < a {
			vs[a], vs[b] = vs[b], vs[a]
		}
	}
}

func withLits(t *rapid.T, vs []elem) []elem {
	var out []elem
	if rapid.IntRange(0, 2).Draw(t, "leadLit") == 0 {
		out = append(out, elem{Lit: genLit(t, false)})
	}
	for _, v := range vs {
		out = append(out, v)
		ascii := (isSizeVerb(v.Verb) || isNumVerb(v.Verb)) && v.Num.ASCII
		if ascii || rapid.IntRange(0, 2).Draw(t, "sepLit") == 0 {
			out = append(out, elem{Lit: genLit(t, ascii)})
		}
	}
	return out
}

func genVerbs(t *rapid.T, textVerbs string, nums string, headers bool) []elem {
	var vs []elem
	for _, tv := range []byte(textVerbs) {
		if rapid.IntRange(0, 9).Draw(t, "has_"+string(tv)) < 6 {
			vs = append(vs, elem{Verb: tv - 'a' + 'A', Num: genNumFmt().Draw(t, "sizefmt")})
			if rapid.IntRange(0, 11).Draw(t, "sizeOnly") != 0 {
				vs = append(vs, elem{Verb: tv, Enc: genEnc().Draw(t, "enc")})
			}
		}
	}
	for _, nv := range []byte(nums) {
		if rapid.IntRange(0, 9).Draw(t, "has_"+string(nv)) < 3 {
			vs = append(vs, elem{Verb: nv, Num: genNumFmt().Draw(t, "numfmt")})
		}
	}
	if headers && rapid.IntRange(0, 9).Draw(t, "has_h") < 5 {
		vs = append(vs, elem{Verb: 'H', Num: genNumFmt().Draw(t, "hcountfmt")})
		if rapid.IntRange(0, 11).Draw(t, "countOnly") != 0 {
			var in []elem
			for len(in) == 0 {
				in = genVerbs(t, "kv", "", false)
			}
			vs = append(vs, elem{Verb: 'h', Inner: in})
		}
	}
	if len(vs) == 0 {
		return nil
	}
	perm := rapid.Permutation(vs).Draw(t, "perm")
	order(perm)
	return withLits(t, perm)
}

func genLayout(t *rapid.T) []elem {
	for {
		if es := genVerbs(t, "tkv", "poedxy", true); es != nil {
			return es
		}
	}
}

func find(es []elem, v byte) *elem {
	for i := range es {
		if es[i].Verb == v {
			return &es[i]
		}
	}
	return nil
}

// maxFor is the largest length/count a size verb of this format can carry.
func maxFor(e *elem, dflt int) int {
	if e == nil || e.Num.ASCII || e.Num.Bits >= 31 {
		return dflt
	}
	return min(dflt, 1<<e.Num.Bits-1)
}

var patterns = [][]byte{[]byte("0123456789"), {0}, {0xff, 0xfe}, []byte("abc\n"), []byte("true"), []byte(" ,:;|"), {0x80, 0x00, 0x0a, 0x25, 0x7b, 0x7d}}

// genBytes draws content of at most maxLen bytes; the rare multi-kilobyte classes cross
// bufio refills and the reader's 64 KiB chunking (big makes the 64 KiB class 4x as likely).
func genBytes(t *rapid.T, label string, maxLen int, big bool) []byte {
	cls := rapid.IntRange(0, 99).Draw(t, label+"_class")
	var n int
	switch {
	case cls < 14 || maxLen == 0:
		if rapid.Bool().Draw(t, label+"_nil") {
			return nil
		}
		return []byte{}
	case cls < 60:
		n = rapid.IntRange(1, 8).Draw(t, label+"_len")
	case cls < 80:
		n = rapid.IntRange(9, 40).Draw(t, label+"_len")
	case cls < 94:
		n = rapid.SampledFrom([]int{14, 15, 16, 17, 254, 255, 256, 257}).Draw(t, label+"_len")
	case cls < 97:
		n = rapid.IntRange(41, 300).Draw(t, label+"_len")
	case cls < 99 || (!big && rapid.IntRange(0, 3).Draw(t, label+"_quickbig") != 0):
		n = rapid.IntRange(4000, 5000).Draw(t, label+"_len")
	default:
		n = rapid.SampledFrom([]int{65535, 65536, 65537, 70001}).Draw(t, label+"_len")
	}
	n = min(n, maxLen)
	if n <= 40 && rapid.IntRange(0, 3).Draw(t, label+"_arb") != 0 {
		return rapid.SliceOfN(rapid.Byte(), n, n).Draw(t, label)
	}
	pat := rapid.OneOf(rapid.SampledFrom(patterns), rapid.SliceOfN(rapid.Byte(), 1, 7)).Draw(t, label+"_pat")
	b := make([]byte, n)
	for i := range b {
		b[i] = pat[i%len(pat)]
	}
	return b
}

// genNum draws a value of a fieldBits-wide signed record field that the format can carry:
// ascii carries the non-negative values, a fixed format at least as wide as the field every
// value (two's complement), a narrower one the values 0..2^bits-1.
func genNum(t *rapid.T, label string, f numFmt, fieldBits int, lo, hi int64) int64 {
	if f.ASCII {
		lo = 0
	} else if f.Bits < fieldBits {
		lo, hi = 0, min(hi, int64(1)<<f.Bits-1)
	}
	switch rapid.IntRange(0, 5).Draw(t, label+"_class") {
	case 0:
		return lo
	case 1:
		return hi
	case 2:
		if lo < 0 {
			return -1
		}
		return min(hi, 1)
	case 3:
		return rapid.Int64Range(max(lo, -300), min(hi, 300)).Draw(t, label)
	default:
		return rapid.Int64Range(lo, hi).Draw(t, label)
	}
}

const maxMillis = 9_000_000_000_000 // |ms| below 2^63 ns so that UnixNano is defined

type rec struct {
	R  *kgo.Record
	Ms int64
}

func genRecord(t *rapid.T, es []elem, big bool, excluded *bool) rec {
	r := &kgo.Record{}
	text := func(size, verb byte, in []elem, label string) []byte {
		b := genBytes(t, label, maxFor(find(in, size), 1<<20), big)
		if tv := find(in, verb); tv != nil && tv.encoded() && len(b) > 0 {
			// KNOWN FINDING class: never generated in the asserted search
			*excluded = true
			if rapid.Bool().Draw(t, label+"_emptyNil") {
				return nil
			}
			return []byte{}
		}
		return b
	}
	r.Topic = string(text('T', 't', es, "topic"))
	r.Key = text('K', 'k', es, "key")
	r.Value = text('V', 'v', es, "value")
	nh := rapid.IntRange(0, 5).Draw(t, "nheaders")
	if rapid.IntRange(0, 30).Draw(t, "manyHeaders") == 0 {
		nh = rapid.IntRange(14, 20).Draw(t, "nheaders2")
	}
	nh = min(nh, maxFor(find(es, 'H'), 1<<20))
	var inner []elem
	if h := find(es, 'h'); h != nil {
		inner = h.Inner
	}
	for i := 0; i < nh; i++ {
		r.Headers = append(r.Headers, kgo.RecordHeader{
			Key:   string(text('K', 'k', inner, "hkey")),
			Value: text('V', 'v', inner, "hval"),
		})
	}
	nf := func(v byte) numFmt {
		if e := find(es, v); e != nil {
			return e.Num
		}
		return numFmt{Bits: 64}
	}
	r.Partition = int32(genNum(t, "partition", nf('p'), 32, -1<<31, 1<<31-1))
	r.Offset = genNum(t, "offset", nf('o'), 64, -1<<63, 1<<63-1)
	r.LeaderEpoch = int32(genNum(t, "epoch", nf('e'), 32, -1<<31, 1<<31-1))
	r.ProducerID = genNum(t, "pid", nf('x'), 64, -1<<63, 1<<63-1)
	r.ProducerEpoch = int16(genNum(t, "pepoch", nf('y'), 16, -1<<15, 1<<15-1))
	ms := genNum(t, "millis", nf('d'), 64, -maxMillis, maxMillis)
	r.Timestamp = time.UnixMilli(ms)
	return rec{r, ms}
}

// ---------------------------------------------------------------------------
// readers that deliver the same bytes in different ways

type chunkReader struct {
	b     []byte
	sizes []int
	i     int
}

func (c *chunkReader) Read(p []byte) (int, error) {
	if len(c.b) == 0 {
		return 0, io.EOF
	}
	n := min(len(p), len(c.b), c.sizes[c.i%len(c.sizes)])
	c.i++
	copy(p, c.b[:n])
	c.b = c.b[n:]
	return n, nil
}

func mkReader(kind int, sizes []int, b []byte) io.Reader {
	switch kind {
	case 1:
		return iotest.OneByteReader(bytes.NewReader(b))
	case 2:
		return iotest.DataErrReader(bytes.NewReader(b))
	case 3:
		return &chunkReader{b: b, sizes: sizes}
	case 4:
		return iotest.HalfReader(bytes.NewReader(b))
	}
	return bytes.NewReader(b)
}

// ---------------------------------------------------------------------------
// oracle

func short(b []byte) string {
	if len(b) > 48 {
		return fmt.Sprintf("%x...(%d bytes)", b[:48], len(b))
	}
	return fmt.Sprintf("%x", b)
}

// compare reports the first field, among those the layout carries, that differs.
func compare(es []elem, want rec, got *kgo.Record) string {
	has := func(in []elem, v byte) bool { return find(in, v) != nil }
	if has(es, 't') && got.Topic != want.R.Topic {
		return fmt.Sprintf("topic %s want %s", short([]byte(got.Topic)), short([]byte(want.R.Topic)))
	}
	if has(es, 'k') && !bytes.Equal(got.Key, want.R.Key) {
		return fmt.Sprintf("key %s want %s", short(got.Key), short(want.R.Key))
	}
	if has(es, 'v') && !bytes.Equal(got.Value, want.R.Value) {
		return fmt.Sprintf("value %s want %s", short(got.Value), short(want.R.Value))
	}
	if h := find(es, 'h'); h != nil {
		if len(got.Headers) != len(want.R.Headers) {
			return fmt.Sprintf("%d headers want %d", len(got.Headers), len(want.R.Headers))
		}
		for i := range got.Headers {
			if has(h.Inner, 'k') && got.Headers[i].Key != want.R.Headers[i].Key {
				return fmt.Sprintf("header %d key %s want %s", i, short([]byte(got.Headers[i].Key)), short([]byte(want.R.Headers[i].Key)))
			}
			if has(h.Inner, 'v') && !bytes.Equal(got.Headers[i].Value, want.R.Headers[i].Value) {
				return fmt.Sprintf("header %d value %s want %s", i, short(got.Headers[i].Value), short(want.R.Headers[i].Value))
			}
		}
	}
	if has(es, 'p') && got.Partition != want.R.Partition {
		return fmt.Sprintf("partition %d want %d", got.Partition, want.R.Partition)
	}
	if has(es, 'o') && got.Offset != want.R.Offset {
		return fmt.Sprintf("offset %d want %d", got.Offset, want.R.Offset)
	}
	if has(es, 'e') && got.LeaderEpoch != want.R.LeaderEpoch {
		return fmt.Sprintf("leader epoch %d want %d", got.LeaderEpoch, want.R.LeaderEpoch)
	}
	if has(es, 'x') && got.ProducerID != want.R.ProducerID {
		return fmt.Sprintf("producer id %d want %d", got.ProducerID, want.R.ProducerID)
	}
	if has(es, 'y') && got.ProducerEpoch != want.R.ProducerEpoch {
		return fmt.Sprintf("producer epoch %d want %d", got.ProducerEpoch, want.R.ProducerEpoch)
	}
	if has(es, 'd') && (got.Timestamp.UnixMilli() != want.Ms || !got.Timestamp.Equal(want.R.Timestamp)) {
		return fmt.Sprintf("timestamp %d ms want %d ms", got.Timestamp.UnixMilli(), want.Ms)
	}
	return ""
}

// roundTrip formats recs with layout and reads them back; "" = property holds.
func roundTrip(layout string, es []elem, recs []rec, rkind int, sizes []int, partitionAPI bool) (stream []byte, problem string) {
	defer func() {
		if p := recover(); p != nil {
			problem = fmt.Sprintf("panic: %v", p)
		}
	}()
	f, err := kgo.NewRecordFormatter(layout)
	if err != nil {
		return nil, "NewRecordFormatter rejects the layout: " + err.Error()
	}
	for _, r := range recs {
		if partitionAPI {
			stream = f.AppendPartitionRecord(stream, &kgo.FetchPartition{Partition: r.R.Partition}, r.R)
		} else {
			stream = f.AppendRecord(stream, r.R)
		}
	}
	rd, err := kgo.NewRecordReader(mkReader(rkind, sizes, append([]byte{}, stream...)), layout)
	if err != nil {
		return stream, "NewRecordReader rejects the layout: " + err.Error()
	}
	for i, want := range recs {
		got, err := rd.ReadRecord()
		if err != nil {
			return stream, fmt.Sprintf("record %d of %d: ReadRecord error %q", i, len(recs), err)
		}
		if d := compare(es, want, got); d != "" {
			return stream, fmt.Sprintf("record %d of %d: %s", i, len(recs), d)
		}
	}
	for k := 0; k < 2; k++ {
		if _, err := rd.ReadRecord(); err != io.EOF {
			return stream, fmt.Sprintf("ReadRecord call %d after the last of %d records: error %v, want io.EOF", k+1, len(recs), err)
		}
	}
	return stream, ""
}

func binaryContent(r *kgo.Record) bool {
	bin := func(b []byte) bool {
		for _, c := range b {
			if c < 0x20 || c >= 0x7f {
				return true
			}
		}
		return false
	}
	if bin([]byte(r.Topic)) || bin(r.Key) || bin(r.Value) {
		return true
	}
	for _, h := range r.Headers {
		if bin([]byte(h.Key)) || bin(h.Value) {
			return true
		}
	}
	return false
}

func classes(es []elem, inner bool) {
	for _, e := range es {
		switch {
		case e.Verb == 0:
		case e.Verb == 'h':
			ev.Class("layout_headers")
			classes(e.Inner, true)
		case isTextVerb(e.Verb):
			name := map[string]string{"": "plain", "{}": "plain", "{hex}": "hex", "{base64}": "base64"}[e.Enc]
			ev.Class("text_" + name)
		default:
			k := "num_"
			if isSizeVerb(e.Verb) {
				k = "size_"
			}
			if e.Num.ASCII {
				ev.Class(k + "ascii")
			} else {
				ev.Class(k + strings.Trim(strings.TrimRight(e.Num.Spec, "0123456789}"), "{") + fmt.Sprint(e.Num.Bits))
			}
		}
	}
}

func TestRoundTrip(t *testing.T) {
	big := ev.Thorough()
	rapid.Check(t, func(t *rapid.T) {
		es := genLayout(t)
		style := rapid.SliceOfN(rapid.Byte(), 0, 6).Draw(t, "style")
		layout := render(es, false, style)
		n := rapid.IntRange(1, 5).Draw(t, "nrecords")
		excluded := false
		var recs []rec
		for i := 0; i < n; i++ {
			recs = append(recs, genRecord(t, es, big, &excluded))
		}
		rkind := rapid.IntRange(0, 4).Draw(t, "reader")
		sizes := rapid.SliceOfN(rapid.IntRange(1, 9), 1, 4).Draw(t, "chunks")
		papi := rapid.Bool().Draw(t, "partitionAPI")
		if excluded {
			ev.Excluded(knownKey)
		}
		stream, problem := roundTrip(layout, es, recs, rkind, sizes, papi)
		if problem != "" {
			t.Fatalf("layout %q, %d records, stream %s: %s", layout, len(recs), short(stream), problem)
		}
		nt := len(recs) >= 2
		for _, r := range recs {
			if binaryContent(r.R) && (find(es, 't') != nil || find(es, 'k') != nil || find(es, 'v') != nil || find(es, 'h') != nil) {
				nt = true
			}
			if len(r.R.Headers) > 0 && find(es, 'h') != nil {
				nt = true
				ev.Class("record_with_headers_read_back")
			}
			if len(r.R.Value) > 4096 || len(r.R.Key) > 4096 || len(r.R.Topic) > 4096 {
				ev.Class("content_above_4KiB")
			}
			if len(r.R.Value) > 65536 || len(r.R.Key) > 65536 || len(r.R.Topic) > 65536 {
				ev.Class("content_above_64KiB")
			}
		}
		ev.Case(layout+"|"+hex.EncodeToString(stream[:min(len(stream), 4096)])+fmt.Sprint(len(stream)), nt)
		classes(es, false)
		ev.Class(fmt.Sprintf("records_%d", len(recs)))
		ev.Class(fmt.Sprintf("reader_kind_%d", rkind))
		ev.SampleIf(func() any {
			return map[string]any{"layout": layout, "records": len(recs), "stream_hex": short(stream), "first_record": map[string]any{
				"topic": recs[0].R.Topic, "key_hex": short(recs[0].R.Key), "value_hex": short(recs[0].R.Value), "headers": len(recs[0].R.Headers),
				"partition": recs[0].R.Partition, "offset": recs[0].R.Offset, "timestamp_ms": recs[0].Ms}}
		})
	})
}

// TestEncodedEmptyAndSizedPlain pins the two neighbours of the known finding that must hold:
// hex/base64 text with EMPTY content behind every size format, and sized plain text with
// binary content behind every size format.
func TestEncodedEmptyAndSizedPlain(t *testing.T) {
	fmts := append(append([]numFmt{}, asciiFmts...), fixedFmts...)
	for _, nf := range fmts {
		sep := ""
		if nf.ASCII {
			sep = " "
		}
		for _, enc := range []string{"", "{}", "{hex}", "{base64}"} {
			for _, fld := range []string{"T:t", "K:k", "V:v", "h"} {
				var layout string
				var es []elem
				if fld == "h" {
					in := []elem{{Verb: 'K', Num: nf}, {Lit: []byte(sep)}, {Verb: 'k', Enc: enc}, {Verb: 'V', Num: nf}, {Lit: []byte(sep)}, {Verb: 'v', Enc: enc}}
					es = []elem{{Verb: 'H', Num: nf}, {Lit: []byte(sep)}, {Verb: 'h', Inner: in}}
				} else {
					es = []elem{{Verb: fld[0], Num: nf}, {Lit: []byte(sep)}, {Verb: fld[2], Enc: enc}, {Lit: []byte("\n")}}
				}
				layout = render(es, false, nil)
				content := []byte("va\nl\x00\xff9")
				if enc == "{hex}" || enc == "{base64}" {
					content = nil
				}
				var recs []rec
				for i := 0; i < 3; i++ {
					r := &kgo.Record{Topic: string(content), Key: content, Value: content, Headers: []kgo.RecordHeader{{Key: string(content), Value: content}, {Key: string(content), Value: content}}}
					recs = append(recs, rec{R: r})
				}
				stream, problem := roundTrip(layout, es, recs, 0, nil, false)
				if problem != "" {
					ev.Replay("c20-pinned.txt", fmt.Sprintf("layout %q stream %x: %s", layout, stream, problem))
					t.Fatalf("layout %q, stream %s: %s", layout, short(stream), problem)
				}
				ev.Case("pinned|"+layout, true)
				if content == nil {
					ev.Class("pinned_encoded_text_empty_content")
				} else {
					ev.Class("pinned_sized_plain_text_binary_content")
				}
			}
		}
	}
}

// TestKnownFindingWitness re-confirms the open finding on its recorded witness and on one
// member of the class per (field, encoding); it prints the KNOWN-FINDING line only while the
// witness still fails to round-trip.
func TestKnownFindingWitness(t *testing.T) {
	layout, value := "%V{big32}%v{hex}", []byte("va\nl")
	if p := os.Getenv("VERIF_KNOWN"); p != "" {
		if b, err := os.ReadFile(p); err == nil {
			var k struct {
				Findings []struct {
					Property string `json:"property"`
					Key      string `json:"key"`
					Witness  struct {
						Layout   string `json:"layout"`
						ValueHex string `json:"value_hex"`
					} `json:"witness"`
				} `json:"findings"`
			}
			if json.Unmarshal(b, &k) == nil {
				for _, f := range k.Findings {
					if f.Property == "C20" && f.Key == knownKey && f.Witness.Layout != "" {
						if v, err := hex.DecodeString(f.Witness.ValueHex); err == nil {
							layout, value = f.Witness.Layout, v
						}
					}
				}
			}
		}
	}
	es := []elem{{Verb: 'V', Num: numFmt{"{big32}", false, 32}}, {Verb: 'v', Enc: "{hex}"}}
	if layout != render(es, false, nil) {
		es = []elem{{Verb: 'v'}} // compare the value whatever the witness layout is
	}
	recs := []rec{{R: &kgo.Record{Value: value}}, {R: &kgo.Record{Value: value}}}
	_, problem := roundTrip(layout, es, recs, 0, nil, false)
	if problem != "" {
		ev.KnownFinding("C20", knownKey+" witness layout "+layout+" value "+hex.EncodeToString(value)+" does not read back: "+strings.ReplaceAll(problem, "\n", " "))
		ev.Class("known_finding_witness_still_fails")
	} else {
		t.Logf("known finding %s no longer reproduces on its witness", knownKey)
		ev.Class("known_finding_witness_round_trips")
	}
	// the excluded class, one member per field and encoding: recorded, not asserted
	for _, enc := range []string{"{hex}", "{base64}"} {
		for _, fld := range []string{"Tt", "Kk", "Vv"} {
			for _, nf := range []numFmt{{"{big32}", false, 32}, {"{ascii}", true, 0}, {"{hex8}", false, 8}} {
				es := []elem{{Verb: fld[0], Num: nf}, {Lit: []byte(" ")}, {Verb: fld[1], Enc: enc}, {Lit: []byte("\n")}}
				r := &kgo.Record{Topic: "ab", Key: []byte("ab"), Value: []byte("ab")}
				if _, p := roundTrip(render(es, false, nil), es, []rec{{R: r}, {R: r}}, 0, nil, false); p != "" {
					ev.Class("excluded_class_member_fails")
				} else {
					ev.Class("excluded_class_member_round_trips")
					t.Logf("member of the excluded class round-trips: %q", render(es, false, nil))
				}
			}
		}
	}
}
