package c01

import (
	"context"
	"fmt"
	"sync"
	"sync/atomic"
	"testing"
	"time"

	"github.com/twmb/franz-go/pkg/kgo"
	"pgregory.net/rapid"

	"verif/h/bubble"
	"verif/h/ev"
)

// TestPromiseQueueSaturation covers a corner the fault workload does not reach: the promise
// worker is stalled inside a (slow) user promise while records keep failing before they are
// buffered, until the client's promise queue is full and the failing calls park on it
// (documented back-pressure). When the slow promise returns, every parked call must resume
// and every promise must run exactly once.
func TestPromiseQueueSaturation(t *testing.T) {
	rapid.Check(t, func(rt *rapid.T) {
		maxBuf := rapid.SampledFrom([]int{1, 100, 9000}).Draw(rt, "maxbuffered")
		parked := rapid.IntRange(2, 40).Draw(rt, "parked")
		each := rapid.IntRange(1, 3).Draw(rt, "each")
		mode := rapid.SampledFrom([]string{"try", "produce"}).Draw(rt, "mode")
		var handed, promised, twice atomic.Int64
		saturatedAt := int64(0)
		bubble.Run(t, rt, func(e *bubble.Env) {
			e.StartCluster(bubble.ClusterOpts{Brokers: 1, Topics: map[string]int32{"t0": 1}})
			cl := e.NewClient(kgo.MaxBufferedRecords(maxBuf))
			ctx := context.Background()
			produce := func(p func(*kgo.Record, error)) {
				handed.Add(1)
				if mode == "try" {
					cl.TryProduce(ctx, &kgo.Record{}, p) // no topic: fails before buffering
				} else {
					cl.Produce(ctx, &kgo.Record{}, p)
				}
			}
			once := func() func(*kgo.Record, error) {
				var n atomic.Int32
				return func(*kgo.Record, error) {
					if n.Add(1) > 1 {
						twice.Add(1)
					}
					promised.Add(1)
				}
			}
			gate := make(chan struct{})
			first := once()
			produce(func(r *kgo.Record, err error) { <-gate; first(r, err) })
			stop := make(chan struct{})
			var wg sync.WaitGroup
			var fillerReturned atomic.Int64
			wg.Add(1)
			e.Go(func() {
				defer wg.Done()
				for {
					select {
					case <-stop:
						return
					default:
					}
					produce(once())
					fillerReturned.Add(1)
				}
			})
			e.Settle() // the filler is parked on the full promise queue (or something else is wrong)
			saturatedAt = fillerReturned.Load()
			for i := 0; i < parked; i++ {
				wg.Add(1)
				e.Go(func() {
					defer wg.Done()
					for j := 0; j < each; j++ {
						produce(once())
					}
				})
			}
			e.Settle()
			close(stop)
			close(gate)
			done := make(chan struct{})
			go func() { wg.Wait(); close(done) }()
			if !bubble.WaitTimeout(done, 10*time.Minute) {
				rt.Fatalf("the slow promise returned 10 virtual minutes ago, but %d of the %d calls that were parked on the full promise queue (saturated after %d failed records; MaxBufferedRecords %d) have not returned: %d records handed over, %d promises run", int64(parked)+1-0, parked+1, saturatedAt, maxBuf, handed.Load(), promised.Load())
			}
			e.Settle()
			if h, p := handed.Load(), promised.Load(); h != p || twice.Load() != 0 {
				rt.Fatalf("%d records handed to the client, %d promises run, %d promises run more than once (promise queue saturated after %d failed records)", h, p, twice.Load(), saturatedAt)
			}
			if r, b := cl.BufferedProduceRecords(), cl.BufferedProduceBytes(); r != 0 || b != 0 {
				rt.Fatalf("all promises ran but BufferedProduceRecords=%d BufferedProduceBytes=%d", r, b)
			}
		})
		ev.Case(fmt.Sprintf("saturation|%d|%d|%d|%s", maxBuf, parked, each, mode), saturatedAt >= 1000)
		ev.Class("promise-queue-saturation")
		if saturatedAt >= 1000 {
			ev.Class("promise-queue-saturation:calls-parked-on-full-queue")
		}
		ev.ClassN("saturation-records", handed.Load())
	})
}
