package c01

import (
	"fmt"
	"sync/atomic"
	"testing"

	"pgregory.net/rapid"

	"verif/h/bubble"
	"verif/h/ev"
	"verif/h/wl"
)

func TestMain(m *testing.M) { ev.Main(m, "C01") }

// TestPromiseExactlyOnce: generated produce histories with faults; every record handed to
// the client gets exactly one promise call, nothing else is promised, buffered gauges
// return to zero and pending flushes return once all promises ran, and after Close every
// outstanding promise is called.
func TestPromiseExactlyOnce(t *testing.T) {
	rapid.Check(t, func(rt *rapid.T) {
		plan := wl.GenProdPlan(rt, wl.ProdFocus{MutateInPromise: true})
		var o *wl.ProdObs
		bubble.Run(t, rt, func(e *bubble.Env) {
			o = wl.RunProd(e, plan)
			check(rt, o)
		})
		nt := o.InflightAtFailure && len(o.FailurePaths) > 0
		ev.Case(o.Digest(), nt)
		for k := range o.FailurePaths {
			ev.Class("path:" + k)
		}
		ev.Class("final:" + plan.Final)
		if plan.Cfg.MutatePromise {
			ev.Class("promise-recycles-record")
		}
		if o.InflightAtFailure {
			ev.Class("failure-while-buffered")
		}
		ev.ClassN("records", int64(len(o.Recs)))
		if nt {
			ev.SampleIf(func() any {
				return map[string]any{"steps": o.StepKinds, "cfg": fmt.Sprintf("%+v", plan.Cfg), "final": plan.Final, "records": len(o.Recs), "failure_paths": o.FailurePaths}
			})
		}
	})
}

func check(rt *rapid.T, o *wl.ProdObs) {
	fail := func(format string, a ...any) {
		rt.Fatalf("%s\nplan: %s\nhistory tail:\n%s", fmt.Sprintf(format, a...), o.Plan.Brief(), o.Log.Dump(40))
	}
	if n := o.DoublePromise.Load(); n != 0 {
		fail("a promise was called more than once (%d extra calls)", n)
	}
	if n := o.UnknownPromise.Load(); n != 0 {
		fail("hook/promise invoked for a record that was never handed to the client (%d)", n)
	}
	for _, rs := range o.Recs {
		c := atomic.LoadInt32(&rs.Promises)
		if c > 1 {
			fail("record %d: promise called %d times", rs.ID, c)
		}
		if c == 0 {
			fail("record %d (topic %s p%d mode %s): promise never called, even after Close and %v of virtual time", rs.ID, rs.Topic, rs.Partition, rs.Mode, 2*wl.Bound)
		}
		if rs.WrongRec {
			fail("record %d: promise invoked with a different *Record", rs.ID)
		}
	}
	// all promises have run now: gauges are zero and no Flush is still pending
	cl := o.Client
	if r, b := cl.BufferedProduceRecords(), cl.BufferedProduceBytes(); r != 0 || b != 0 {
		fail("all promises ran but BufferedProduceRecords=%d BufferedProduceBytes=%d", r, b)
	}
	for i, f := range o.Flushes {
		if !f.Returned {
			fail("flush #%d still pending after all promises ran", i)
		}
	}
	if o.Plan.Final == "flushclose" && o.QuiescentChecked {
		if !o.AllPromisedAtQuiescence {
			fail("Flush returned nil after every produce call had returned, but some record had no promise yet")
		}
		if o.FinalBufferedRecs != 0 || o.FinalBufferedBytes != 0 {
			fail("after a nil Flush with all promises run: BufferedProduceRecords=%d BufferedProduceBytes=%d", o.FinalBufferedRecs, o.FinalBufferedBytes)
		}
	}
}
