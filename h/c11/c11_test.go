package c11

import (
	"context"
	"encoding/binary"
	"errors"
	"fmt"
	"strings"
	"testing"
	"time"

	"github.com/twmb/franz-go/pkg/kerr"
	"github.com/twmb/franz-go/pkg/kfake"
	"github.com/twmb/franz-go/pkg/kgo"
	"github.com/twmb/franz-go/pkg/kmsg"
	"github.com/twmb/franz-go/pkg/kversion"
	"pgregory.net/rapid"

	"verif/h/bubble"
	"verif/h/ev"
	"verif/h/wl"
)

func TestMain(m *testing.M) { ev.Main(m, "C11") }

type fault struct {
	When string // before-produce | before-end
	Key  int16
	Kind string // kill-before | drop-response | code | timeout
	Code int16
}

type txn struct {
	Parts  []int32
	N      int
	Commit bool
	Faults []fault
}

type plan struct {
	Brokers int
	Old     bool // broker capped at 3.6 (no KIP-890 part 2)
	NParts  int32
	TxnTO   time.Duration
	Txns    []txn
}

var keys = []int16{22, 24, 0, 26}
var retriable = []int16{kerr.ConcurrentTransactions.Code, kerr.CoordinatorLoadInProgress.Code, kerr.NotCoordinator.Code, kerr.CoordinatorNotAvailable.Code}
var fatal = []int16{kerr.InvalidProducerEpoch.Code, kerr.ProducerFenced.Code, kerr.InvalidTxnState.Code, kerr.UnknownServerError.Code, kerr.TransactionAbortable.Code, kerr.InvalidProducerIDMapping.Code}

func genPlan(t *rapid.T) plan {
	p := plan{Brokers: rapid.IntRange(1, 3).Draw(t, "brokers"), Old: rapid.IntRange(0, 2).Draw(t, "old") == 0, NParts: int32(rapid.IntRange(1, 3).Draw(t, "parts")), TxnTO: rapid.SampledFrom([]time.Duration{15 * time.Second, 60 * time.Second}).Draw(t, "txnto")}
	n := rapid.IntRange(2, 6).Draw(t, "ntxns")
	for i := 0; i < n; i++ {
		x := txn{N: rapid.IntRange(1, 4).Draw(t, "n"), Commit: rapid.IntRange(0, 3).Draw(t, "commit") != 0}
		for pt := int32(0); pt < p.NParts; pt++ {
			if rapid.Bool().Draw(t, "incl") {
				x.Parts = append(x.Parts, pt)
			}
		}
		if len(x.Parts) == 0 {
			x.Parts = []int32{0}
		}
		nf := rapid.IntRange(0, 3).Draw(t, "nfaults")
		for j := 0; j < nf; j++ {
			f := fault{When: rapid.SampledFrom([]string{"before-produce", "before-end", "before-end"}).Draw(t, "when"), Key: rapid.SampledFrom(keys).Draw(t, "key"), Kind: rapid.SampledFrom([]string{"kill-before", "drop-response", "drop-response", "code", "code", "timeout"}).Draw(t, "fkind")}
			if p.Brokers > 1 && rapid.IntRange(0, 5).Draw(t, "move") == 0 {
				// the produce response is held on the wire while the partitions' leaders move and the
				// client applies the new metadata: the acknowledgement arrives on the old connection
				f = fault{When: "before-produce", Key: 0, Kind: "move-inflight"}
			}
			if f.Kind == "code" && f.Key != 0 && rapid.IntRange(0, 3).Draw(t, "sticky") == 0 {
				// a coordinator that keeps answering with a retriable code for longer than the client retries
				f.Kind, f.Key = "code-sticky", 26
				f.Code = rapid.SampledFrom(retriable).Draw(t, "stickycode")
			}
			if f.Kind == "code" {
				if rapid.Bool().Draw(t, "fatal") {
					f.Code = rapid.SampledFrom(fatal).Draw(t, "code")
				} else {
					f.Code = rapid.SampledFrom(retriable).Draw(t, "code")
				}
				if f.Key == 24 {
					f.Key = 26 // AddPartitionsToTxn error shapes differ by version; error codes go to EndTxn/Init/Produce
				}
			}
			x.Faults = append(x.Faults, f)
		}
		p.Txns = append(p.Txns, x)
	}
	return p
}

type outcome struct {
	id            int64
	result        string         // commit | abort | unknown
	acked         map[int64]bool // record ids whose promise succeeded
	all           map[int64]bool // every record id handed to the client in this txn
	fromReq       int            // net request index at begin
	toReq         int            // net request index when the next txn began (or end)
	commitHandled bool           // an EndTxn(commit=true) of this window was handled by the broker
}

func TestEndResultsTruthful(t *testing.T) {
	rapid.Check(t, func(rt *rapid.T) {
		p := genPlan(rt)
		var lostAfterHandling, restarts, movedInflight, stickyCodes int
		bubble.Run(t, rt, func(e *bubble.Env) {
			var extra []kfake.Opt
			if p.Old {
				extra = append(extra, kfake.MaxVersions(kversion.V3_6_0()))
			}
			e.Net.KeepFrames()
			e.StartCluster(bubble.ClusterOpts{Brokers: p.Brokers, Topics: map[string]int32{"x": p.NParts}, Extra: extra})
			newClient := func() *kgo.Client {
				return e.NewClient(kgo.TransactionalID("tx11"), kgo.TransactionTimeout(p.TxnTO), kgo.RecordPartitioner(kgo.ManualPartitioner()), kgo.ProducerLinger(0), kgo.ProducerBatchCompression(kgo.NoCompression()),
					kgo.RequestRetries(3), kgo.RetryTimeout(20*time.Second))
			}
			cl := newClient()
			raw := e.RawClient()
			var outs []*outcome
			var nextID int64
			visible := func() map[int64]bool {
				vis := map[int64]bool{}
				for pt := int32(0); pt < p.NParts; pt++ {
					recs, _, err := e.ReadLog(raw, "x", pt, 0)
					if err != nil {
						panic(fmt.Sprintf("VERIF-INFRA: raw read: %v", err))
					}
					aborted, open := wl.ClassifyTxn(recs)
					for _, r := range recs {
						if r.Control || !r.Txn || aborted[r.Offset] || open[r.Offset] || len(r.Value) < 8 {
							continue
						}
						vis[int64(binary.BigEndian.Uint64(r.Value))] = true
					}
				}
				return vis
			}
			rawLogs := func() string {
				var b strings.Builder
				for pt := int32(0); pt < p.NParts; pt++ {
					recs, hwm, err := e.ReadLog(raw, "x", pt, 0)
					fmt.Fprintf(&b, "  x/%d (hwm %d, err %v):", pt, hwm, err)
					for _, r := range recs {
						switch {
						case r.Control:
							typ := "?"
							if len(r.Key) >= 4 {
								typ = map[byte]string{0: "ABORT", 1: "COMMIT"}[r.Key[3]]
							}
							fmt.Fprintf(&b, " %d:%s(%d.%d)", r.Offset, typ, r.PID%1000, r.Epoch)
						case r.Txn && len(r.Value) >= 8:
							fmt.Fprintf(&b, " %d:t%d(%d.%d)", r.Offset, binary.BigEndian.Uint64(r.Value), r.PID%1000, r.Epoch)
						default:
							fmt.Fprintf(&b, " %d:d", r.Offset)
						}
					}
					b.WriteString("\n")
				}
				return b.String()
			}
			reqTrace := func() string {
				var b strings.Builder
				body := func(ri *bubble.ReqInfo, flexible bool) []byte {
					if len(ri.Frame) < 14 {
						return nil
					}
					x := ri.Frame[12:]
					cidLen := int(int16(binary.BigEndian.Uint16(x)))
					x = x[2:]
					if cidLen > 0 && cidLen <= len(x) {
						x = x[cidLen:]
					}
					if flexible && len(x) > 0 {
						x = x[1:]
					}
					return x
				}
				for _, ri := range e.Net.Requests() {
					switch ri.Key {
					case 22:
						rq := kmsg.NewPtrInitProducerIDRequest()
						rq.Version = ri.Version
						if rq.ReadFrom(body(ri, rq.IsFlexible())) == nil {
							fmt.Fprintf(&b, "  #%d conn%d InitProducerID v%d pid=%d epoch=%d act=%s handled=%v\n", ri.Seq, ri.Conn, ri.Version, rq.ProducerID%1000, rq.ProducerEpoch, ri.Act, ri.Handled)
						}
					case 26:
						rq := kmsg.NewPtrEndTxnRequest()
						rq.Version = ri.Version
						if rq.ReadFrom(body(ri, rq.IsFlexible())) == nil {
							fmt.Fprintf(&b, "  #%d conn%d EndTxn v%d pid=%d epoch=%d commit=%v act=%s handled=%v\n", ri.Seq, ri.Conn, ri.Version, rq.ProducerID%1000, rq.ProducerEpoch, rq.Commit, ri.Act, ri.Handled)
						}
					case 24:
						fmt.Fprintf(&b, "  #%d conn%d AddPartitionsToTxn v%d act=%s handled=%v\n", ri.Seq, ri.Conn, ri.Version, ri.Act, ri.Handled)
					case 0:
						fmt.Fprintf(&b, "  #%d conn%d Produce v%d act=%s handled=%v\n", ri.Seq, ri.Conn, ri.Version, ri.Act, ri.Handled)
					}
				}
				return b.String()
			}
			fail := func(format string, a ...any) {
				rt.Fatalf("%s\nplan: %+v\nraw logs:\n%stransactional requests on the wire:\n%shistory tail:\n%s", fmt.Sprintf(format, a...), p, rawLogs(), reqTrace(), e.Log.Dump(50))
			}
			checkAll := func(when string) {
				vis := visible()
				for _, o := range outs {
					nvis := 0
					for id := range o.all {
						if vis[id] {
							nvis++
						}
					}
					switch {
					case o.result == "commit":
						for id := range o.acked {
							if !vis[id] {
								fail("%s: transaction %d was reported committed but its acknowledged record %d is not visible to a read_committed reader", when, o.id, id)
							}
						}
					case !o.commitHandled:
						if nvis > 0 {
							fail("%s: transaction %d ended as %q (no EndTxn commit was ever handled by the broker for it) but %d of its records are visible to a read_committed reader", when, o.id, o.result, nvis)
						}
					}
				}
			}
			var curParts []int32
			inject := func(f fault) {
				switch f.Kind {
				case "move-inflight":
					movedInflight++
					e.Net.AddRuleNext(0, bubble.DelayResponse, time.Second)
					parts, c := curParts, cl
					e.Go(func() {
						time.Sleep(200 * time.Millisecond)
						for _, pt := range parts {
							e.Cluster.MoveTopicPartition("x", pt, (e.Cluster.LeaderFor("x", pt)+1)%int32(p.Brokers))
						}
						c.ForceMetadataRefresh()
					})
				case "kill-before":
					e.Net.AddRuleNext(f.Key, bubble.KillBefore, 0)
				case "drop-response":
					e.Net.AddRuleNext(f.Key, bubble.DropResponse, 0)
				case "code-sticky":
					code, left := f.Code, 4 // the client is configured with 3 request retries: exactly one EndTransaction call sees nothing else
					stickyCodes++
					e.Cluster.ControlKey(26, func(kreq kmsg.Request) (kmsg.Response, error, bool) {
						left--
						if left > 0 {
							e.Cluster.KeepControl()
						} else {
							e.Cluster.DropControl() // KeepControl is a standing mark
						}
						resp := kreq.ResponseKind().(*kmsg.EndTxnResponse)
						resp.ErrorCode = code
						resp.ProducerID, resp.ProducerEpoch = -1, -1
						return resp, nil, true
					})
				case "timeout":
					time.Sleep(p.TxnTO + 2*time.Second)
				case "code":
					code := f.Code
					e.Cluster.ControlKey(f.Key, func(kreq kmsg.Request) (kmsg.Response, error, bool) {
						switch r := kreq.(type) {
						case *kmsg.InitProducerIDRequest:
							resp := r.ResponseKind().(*kmsg.InitProducerIDResponse)
							resp.ErrorCode = code
							resp.ProducerID, resp.ProducerEpoch = -1, -1
							return resp, nil, true
						case *kmsg.EndTxnRequest:
							resp := r.ResponseKind().(*kmsg.EndTxnResponse)
							resp.ErrorCode = code
							resp.ProducerID, resp.ProducerEpoch = -1, -1
							return resp, nil, true
						case *kmsg.ProduceRequest:
							return wl.ProduceErrResp(r, code), nil, true
						}
						return nil, nil, false
					})
				}
				e.Log.Add("fault", int64(f.Key), f.Kind, nil, int64(f.Code), 0)
			}
			ctxFor := func() (context.Context, context.CancelFunc) {
				return context.WithTimeout(context.Background(), 3*time.Minute)
			}
			for ti, x := range p.Txns {
				o := &outcome{id: int64(ti + 1), acked: map[int64]bool{}, all: map[int64]bool{}, fromReq: len(e.Net.Requests())}
				outs = append(outs, o)
				if err := cl.BeginTransaction(); err != nil {
					// producer unusable: restart with the same transactional id
					cl.Close()
					cl = newClient()
					restarts++
					if err := cl.BeginTransaction(); err != nil {
						o.result = "unknown"
						continue
					}
				}
				curParts = x.Parts
				for _, f := range x.Faults {
					if f.When == "before-produce" {
						inject(f)
					}
				}
				var recs []*kgo.Record
				for i := 0; i < x.N; i++ {
					for _, pt := range x.Parts {
						nextID++
						v := make([]byte, 8)
						binary.BigEndian.PutUint64(v, uint64(nextID))
						recs = append(recs, &kgo.Record{Topic: "x", Partition: pt, Value: v})
						o.all[nextID] = true
					}
				}
				ctx, cancel := ctxFor()
				res := cl.ProduceSync(ctx, recs...)
				cancel()
				produceFailed := false
				for _, r := range res {
					id := int64(binary.BigEndian.Uint64(r.Record.Value))
					if r.Err == nil {
						o.acked[id] = true
					} else {
						produceFailed = true
					}
				}
				for _, f := range x.Faults {
					if f.When == "before-end" {
						inject(f)
					}
				}
				// documented policy: commit only if everything was produced; on an error retry with TryAbort
				try := kgo.TryAbort
				if x.Commit && !produceFailed {
					try = kgo.TryCommit
				}
				ctx, cancel = ctxFor()
				err := cl.EndTransaction(ctx, try)
				cancel()
				e.Log.Add("end", o.id, fmt.Sprint(bool(try)), err, 0, 0)
				switch {
				case err == nil && try == kgo.TryCommit:
					o.result = "commit"
				case err == nil:
					o.result = "abort"
				default:
					o.result = "unknown"
					for attempt := 0; attempt < 2 && o.result == "unknown"; attempt++ {
						ctx, cancel = ctxFor()
						err2 := cl.EndTransaction(ctx, kgo.TryAbort)
						cancel()
						e.Log.Add("end-retry-abort", o.id, "", err2, 0, 0)
						if err2 == nil {
							o.result = "abort"
						} else if !errors.Is(err2, kerr.OperationNotAttempted) && !errors.Is(err2, kerr.TransactionAbortable) {
							break
						}
					}
					if o.result == "unknown" {
						// give up on this client: a new one with the same id fences and aborts
						cl.Close()
						cl = newClient()
						restarts++
					}
				}
				e.Net.ClearRules()
				// which EndTxn(commit) requests of this window did the broker handle?
				reqs := e.Net.Requests()
				o.toReq = len(reqs)
				for _, ri := range reqs[o.fromReq:] {
					if ri.Key != 26 || !ri.Handled || len(ri.Frame) < 14 {
						continue
					}
					if ri.Act == bubble.DropResponse {
						lostAfterHandling++
					}
					rq := kmsg.NewPtrEndTxnRequest()
					rq.Version = ri.Version
					b := ri.Frame[12:]
					cidLen := int(int16(binary.BigEndian.Uint16(b)))
					b = b[2:]
					if cidLen > 0 {
						b = b[cidLen:]
					}
					if rq.IsFlexible() {
						b = b[1:]
					}
					if rq.ReadFrom(b) == nil && rq.Commit {
						o.commitHandled = true
					}
				}
				for _, ri := range reqs[o.fromReq:] {
					if ri.Key == 0 && ri.Act == bubble.DropResponse && ri.Handled {
						lostAfterHandling++
					}
				}
				time.Sleep(time.Second)
				checkAll(fmt.Sprintf("after transaction %d (%s)", o.id, o.result))
			}
			// let any dangling transaction time out, then a last look
			time.Sleep(p.TxnTO + 5*time.Second)
			checkAll("at the end")
			var kinds []string
			for _, o := range outs {
				kinds = append(kinds, o.result)
				ev.Class("outcome:" + o.result)
				if o.commitHandled && o.result != "commit" {
					ev.Class("commit-handled-but-not-reported (not judged)")
				}
			}
			_ = strings.Join(kinds, ",")
		})
		ev.Case(fmt.Sprintf("%+v", p), lostAfterHandling > 0)
		if lostAfterHandling > 0 {
			ev.Class("response-lost-after-handling")
		}
		if movedInflight > 0 {
			ev.Class("leader-moved-while-produce-response-in-flight")
		}
		if stickyCodes > 0 {
			ev.Class("EndTxn-answered-with-a-retriable-code-beyond-the-client's-retries")
		}
		if restarts > 0 {
			ev.Class("client-restarted-with-same-transactional-id")
		}
		if p.Old {
			ev.Class("broker-without-kip890p2")
		}
		if lostAfterHandling > 0 {
			ev.SampleIf(func() any { return map[string]any{"plan": fmt.Sprintf("%+v", p)} })
		}
	})
}
