package c11

import (
	"context"
	"encoding/binary"
	"fmt"
	"testing"
	"time"

	"github.com/twmb/franz-go/pkg/kfake"
	"github.com/twmb/franz-go/pkg/kgo"
	"github.com/twmb/franz-go/pkg/kmsg"
	"github.com/twmb/franz-go/pkg/kversion"
	"pgregory.net/rapid"

	"verif/h/bubble"
	"verif/h/ev"
	"verif/h/wl"
)

// The GroupTransactSession half of C11: "when End reports a successful commit, the
// transaction's records AND OFFSETS are committed". One member consumes "in" and writes
// "out"; each transaction produces an output for all, some or none of the inputs it
// polled (a filter stage that drops a whole batch commits offsets only) and ends with
// TryCommit or TryAbort, with faults on the offset-commit / end path.

type sessTxn struct {
	Max     int    // PollRecords limit
	Produce string // all | none | odd
	Commit  bool
	Fault   *fault // placed right before End
	Gap     time.Duration
}

type sessPlan struct {
	Brokers   int
	Old       bool
	NParts    int32
	Inputs    int
	PollFirst bool
	Txns      []sessTxn
}

func genSessPlan(t *rapid.T) sessPlan {
	p := sessPlan{Brokers: rapid.IntRange(1, 3).Draw(t, "brokers"), Old: rapid.IntRange(0, 2).Draw(t, "old") == 0, NParts: int32(rapid.IntRange(1, 2).Draw(t, "parts")),
		Inputs: rapid.IntRange(4, 20).Draw(t, "inputs"), PollFirst: rapid.Bool().Draw(t, "pollfirst")}
	n := rapid.IntRange(2, 8).Draw(t, "ntxns")
	for i := 0; i < n; i++ {
		x := sessTxn{Max: rapid.IntRange(1, 4).Draw(t, "max"), Produce: rapid.SampledFrom([]string{"all", "all", "none", "none", "odd"}).Draw(t, "produce"), Commit: rapid.IntRange(0, 4).Draw(t, "commit") != 0,
			Gap: rapid.SampledFrom([]time.Duration{0, 0, 100 * time.Millisecond, 2 * time.Second}).Draw(t, "gap")}
		if rapid.IntRange(0, 2).Draw(t, "faulted") == 0 {
			x.Fault = &fault{Key: rapid.SampledFrom([]int16{25, 28, 28, 26, 26}).Draw(t, "key"), Kind: rapid.SampledFrom([]string{"kill-before", "drop-response", "code"}).Draw(t, "fkind")}
			if x.Fault.Kind == "code" {
				x.Fault.Code = rapid.SampledFrom(retriable).Draw(t, "code")
				x.Fault.Key = 26
			}
		}
		p.Txns = append(p.Txns, x)
	}
	return p
}

func TestSessionEndCommitsOffsets(t *testing.T) {
	rapid.Check(t, func(rt *rapid.T) {
		p := genSessPlan(rt)
		var consumeOnlyCommits, verified, restarts, aborts int
		bubble.Run(t, rt, func(e *bubble.Env) {
			var extra []kfake.Opt
			if p.Old {
				extra = append(extra, kfake.MaxVersions(kversion.V3_6_0()))
			}
			e.StartCluster(bubble.ClusterOpts{Brokers: p.Brokers, Topics: map[string]int32{"in": p.NParts, "out": 1}, Extra: extra})
			ctx := context.Background()
			prod := e.NewClient(kgo.RecordPartitioner(kgo.ManualPartitioner()))
			var recs []*kgo.Record
			for i := 1; i <= p.Inputs; i++ {
				k := make([]byte, 8)
				binary.BigEndian.PutUint64(k, uint64(i))
				recs = append(recs, &kgo.Record{Topic: "in", Partition: int32(i) % p.NParts, Key: k, Value: []byte("v")})
			}
			if err := prod.ProduceSync(ctx, recs...).FirstErr(); err != nil {
				panic("VERIF-INFRA: prefill: " + err.Error())
			}
			raw := e.RawClient()
			fail := func(format string, a ...any) {
				rt.Fatalf("%s\nplan: %+v\nhistory tail:\n%s", fmt.Sprintf(format, a...), p, e.Log.Dump(50))
			}
			committed := func() (map[int32]int64, bool) {
				freq := kmsg.NewPtrOffsetFetchRequest()
				freq.Group = "g11"
				rg := kmsg.NewOffsetFetchRequestGroup()
				rg.Group = "g11"
				freq.Groups = append(freq.Groups, rg)
				fc, cancel := context.WithTimeout(ctx, 30*time.Second)
				defer cancel()
				fresp, err := freq.RequestWith(fc, raw)
				if err != nil {
					return nil, false
				}
				got := map[int32]int64{}
				for _, g := range fresp.Groups {
					if g.ErrorCode != 0 {
						return nil, false
					}
					for _, t := range g.Topics {
						for _, pp := range t.Partitions {
							if pp.ErrorCode != 0 {
								return nil, false
							}
							got[pp.Partition] = pp.Offset
						}
					}
				}
				for _, t := range fresp.Topics {
					for _, pp := range t.Partitions {
						if pp.ErrorCode != 0 {
							return nil, false
						}
						got[pp.Partition] = pp.Offset
					}
				}
				return got, true
			}
			newSess := func() *kgo.GroupTransactSession {
				opts := append(e.BaseOpts(), kgo.ConsumerGroup("g11"), kgo.ConsumeTopics("in"), kgo.TransactionalID("tx11s"), kgo.ConsumeResetOffset(kgo.NewOffset().AtStart()),
					kgo.FetchIsolationLevel(kgo.ReadCommitted()), kgo.RequireStableFetchOffsets(), kgo.TransactionTimeout(60*time.Second), kgo.FetchMaxWait(200*time.Millisecond),
					kgo.RecordPartitioner(kgo.ManualPartitioner()), kgo.ProducerLinger(0), kgo.HeartbeatInterval(300*time.Millisecond), kgo.SessionTimeout(20*time.Second))
				s, err := kgo.NewGroupTransactSession(opts...)
				if err != nil {
					panic("VERIF-INFRA: NewGroupTransactSession: " + err.Error())
				}
				return s
			}
			sess := newSess()
			closeSess := func() {
				d := make(chan struct{})
				go func() { sess.Close(); close(d) }()
				bubble.WaitTimeout(d, 10*time.Minute)
			}
			defer func() { closeSess() }()
			mustBeVisible := map[string]int{} // output tag -> transaction index reported committed
			mustNotBeVisible := map[string]int{}
			for ti, x := range p.Txns {
				time.Sleep(x.Gap)
				begin := func() bool {
					if err := sess.Begin(); err != nil {
						e.Log.Add("begin-err", int64(ti), "", err, 0, 0)
						return false
					}
					return true
				}
				ok := true
				if !p.PollFirst {
					ok = begin()
				}
				var fs kgo.Fetches
				if ok {
					pc, cancel := context.WithTimeout(ctx, 2*time.Second)
					fs = sess.PollRecords(pc, x.Max)
					cancel()
					if p.PollFirst {
						ok = begin()
					}
				}
				if !ok {
					closeSess()
					sess = newSess()
					restarts++
					continue
				}
				firstErr := kgo.AbortingFirstErrPromise(sess.Client()) // documented policy: abort if any produce fails
				polledTo := map[int32]int64{}
				var tags []string
				n := 0
				fs.EachRecord(func(r *kgo.Record) {
					n++
					if r.Offset+1 > polledTo[r.Partition] {
						polledTo[r.Partition] = r.Offset + 1
					}
					k := binary.BigEndian.Uint64(r.Key)
					if x.Produce == "none" || x.Produce == "odd" && k%2 == 0 {
						return
					}
					tag := fmt.Sprintf("t%d-k%d", ti, k)
					tags = append(tags, tag)
					sess.Produce(ctx, &kgo.Record{Topic: "out", Partition: 0, Value: []byte(tag)}, firstErr.Promise())
				})
				if x.Fault != nil {
					switch x.Fault.Kind {
					case "kill-before":
						e.Net.AddRuleNext(x.Fault.Key, bubble.KillBefore, 0)
					case "drop-response":
						e.Net.AddRuleNext(x.Fault.Key, bubble.DropResponse, 0)
					case "code":
						code := x.Fault.Code
						e.Cluster.ControlKey(26, func(kreq kmsg.Request) (kmsg.Response, error, bool) {
							resp := kreq.ResponseKind().(*kmsg.EndTxnResponse)
							resp.ErrorCode = code
							return resp, nil, true
						})
					}
				}
				try := kgo.TryAbort
				if x.Commit && firstErr.Err() == nil {
					try = kgo.TryCommit
				}
				ec, cancel := context.WithTimeout(ctx, 5*time.Minute)
				wasCommitted, err := sess.End(ec, try)
				cancel()
				e.Net.ClearRules()
				e.Log.Add("end", int64(ti), fmt.Sprintf("polled=%d produced=%d try-commit=%v committed=%v", n, len(tags), x.Commit, wasCommitted), err, 0, 0)
				switch {
				case err != nil:
					// do not continue with this session (documented); the outcome is not judged
					closeSess()
					sess = newSess()
					restarts++
				case wasCommitted:
					for _, tag := range tags {
						mustBeVisible[tag] = ti
					}
					if n > 0 {
						if len(tags) == 0 {
							consumeOnlyCommits++
						}
						got, ok := committed()
						if ok {
							verified++
							for pt, want := range polledTo {
								if got[pt] < want {
									fail("transaction %d: End returned committed=true, err=nil after consuming in/%d up to offset %d (outputs produced: %d), but the group's committed offset for that partition is %d right afterwards", ti, pt, want-1, len(tags), got[pt])
								}
							}
						}
					}
				default:
					aborts++
					for _, tag := range tags {
						mustNotBeVisible[tag] = ti
					}
				}
			}
			closeSess()
			time.Sleep(90 * time.Second) // anything left open times out and is aborted
			recsOut, _, err := e.ReadLog(raw, "out", 0, 0)
			if err != nil {
				panic("VERIF-INFRA: raw read: " + err.Error())
			}
			aborted, open := wl.ClassifyTxn(recsOut)
			vis := map[string]int{}
			for _, r := range recsOut {
				if r.Control || aborted[r.Offset] || open[r.Offset] {
					continue
				}
				vis[string(r.Value)]++
			}
			for tag, ti := range mustBeVisible {
				if vis[tag] != 1 {
					fail("End of transaction %d reported a successful commit, but its output %q is visible %d time(s) to a read_committed reader", ti, tag, vis[tag])
				}
			}
			for tag, ti := range mustNotBeVisible {
				if vis[tag] != 0 {
					fail("End of transaction %d reported an abort, but its output %q is visible to a read_committed reader", ti, tag)
				}
			}
		})
		ev.Case(fmt.Sprintf("sess|%+v", p), consumeOnlyCommits > 0 || restarts > 0)
		ev.Class("session")
		if consumeOnlyCommits > 0 {
			ev.Class("session-consume-only-transaction-committed")
		}
		if restarts > 0 {
			ev.Class("session-restarted-after-End-error")
		}
		if aborts > 0 {
			ev.Class("session-transaction-aborted")
		}
		if p.Old {
			ev.Class("session-broker-without-KIP-890p2")
		}
		ev.ClassN("session-committed-offsets-verified", int64(verified))
	})
}
