package c11

import (
	"context"
	"encoding/binary"
	"fmt"
	"runtime"
	"testing"
	"time"

	"github.com/twmb/franz-go/pkg/kfake"
	"github.com/twmb/franz-go/pkg/kgo"
	"github.com/twmb/franz-go/pkg/kmsg"
	"github.com/twmb/franz-go/pkg/kversion"

	"verif/h/bubble"
	"verif/h/ev"
)

type yieldLogger struct{ n int }

func (yieldLogger) Level() kgo.LogLevel { return kgo.LogLevelDebug }
func (l yieldLogger) Log(kgo.LogLevel, string, ...any) {
	for i := 0; i < l.n; i++ {
		runtime.Gosched()
	}
}

// TestRegressFirstTransactionOnNewTopic replays the history behind "fixed: property=C11 ...
// first transaction to a topic the client has not produced to before": a fresh client begins
// a transaction, produces one record to a topic it must load first, and ends the transaction
// as soon as the record is acknowledged. The partitions of a newly loaded topic used to be
// published only after the waiting records had been released, so EndTransaction could scan an
// empty partition list, conclude that nothing was produced, and either send no EndTxn at all
// (brokers without KIP-890 part 2: the transaction stayed open and its records were committed
// by the NEXT transaction's commit) or turn the requested commit into an abort while returning
// nil (KIP-890 part 2). The window depends on real scheduling under CPU oversubscription
// (it was found with 16 shards running at once, about once in a hundred replays); this
// replay is a cheap smoke test, the reverse patch is NOT reliably caught by it.
func TestRegressFirstTransactionOnNewTopic(t *testing.T) {
	n := 1000
	if ev.Thorough() {
		n = 20000
	}
	for i := 0; i < n; i++ {
		old := i%2 == 0
		var problem string
		bubble.Run(t, nil, func(e *bubble.Env) {
			var extra []kfake.Opt
			if old {
				extra = append(extra, kfake.MaxVersions(kversion.V3_6_0()))
			}
			e.Net.KeepFrames()
			e.StartCluster(bubble.ClusterOpts{Brokers: 1 + i%3, Topics: map[string]int32{"x": 1 + int32(i%2)}, Extra: extra})
			// a logger that yields at every log call of the client: cheap schedule perturbation
			// at each of the client's (dense) debug log points
			cl := e.NewClient(kgo.TransactionalID("tx11r"), kgo.RecordPartitioner(kgo.ManualPartitioner()), kgo.ProducerLinger(0), kgo.WithLogger(yieldLogger{i % 4}))
			ctx, cancel := context.WithTimeout(context.Background(), time.Minute)
			defer cancel()
			if err := cl.BeginTransaction(); err != nil {
				panic("VERIF-INFRA: BeginTransaction: " + err.Error())
			}
			if err := cl.ProduceSync(ctx, &kgo.Record{Topic: "x", Value: []byte("first")}).FirstErr(); err != nil {
				panic("VERIF-INFRA: produce: " + err.Error())
			}
			try := kgo.TryCommit
			if old {
				try = kgo.TryAbort
			}
			if err := cl.EndTransaction(ctx, try); err != nil {
				panic("VERIF-INFRA: EndTransaction: " + err.Error())
			}
			// what went over the wire
			sent, commitFlag := 0, false
			for _, ri := range e.Net.Requests() {
				if ri.Key != 26 || len(ri.Frame) < 14 {
					continue
				}
				rq := kmsg.NewPtrEndTxnRequest()
				rq.Version = ri.Version
				b := ri.Frame[12:]
				cidLen := int(int16(binary.BigEndian.Uint16(b)))
				b = b[2:]
				if cidLen > 0 {
					b = b[cidLen:]
				}
				if rq.IsFlexible() {
					b = b[1:]
				}
				if rq.ReadFrom(b) == nil {
					sent++
					commitFlag = rq.Commit
				}
			}
			switch {
			case sent == 0:
				problem = "EndTransaction returned nil for a transaction with an acknowledged record but sent no EndTxn request: the transaction stays open on the broker and is ended by the next transaction's EndTxn"
			case !old && !commitFlag:
				problem = "EndTransaction(TryCommit) returned nil for a transaction with an acknowledged record but sent EndTxn with commit=false"
			}
		})
		ev.Case(fmt.Sprintf("regress-first-transaction-on-new-topic-old=%v-%d", old, i%6), true)
		if problem != "" {
			t.Fatalf("iteration %d (broker without KIP-890p2: %v): %s", i, old, problem)
		}
	}
	ev.Class("regression-replays")
}
