// Package logmodel is a reference model of the Kafka log formats: message set v0,
// message set v1 (plain messages and compressed wrapper messages) and record batch
// v2. A Log is a *logical* description (offsets, timestamps, keys, values, headers,
// producer fields, flags, compaction gaps). Two independent things are derived from
// it and from nothing else:
//
//   - Encode: the bytes a broker would put in FetchResponse.RecordBatches
//     (hand-written serializer, see encode.go);
//   - Expect: what a consumer must see (records and next offset), computed from the
//     logical description, never by decoding bytes.
//
// Format rules stated here (sources: Kafka protocol guide "Record Batch"/"Message
// sets", KIP-32 (timestamps), KIP-98 (transactions), KIP-31 (relative offsets),
// KAFKA-5443 (empty compacted batches), Kafka's AbstractLegacyRecordBatch
// deep iterator for the wrapper conventions):
//
//	v0 message   offset int64, size int32, crc uint32 (IEEE, over magic..end), magic 0,
//	             attributes int8 (bits 0-2 codec), key bytes, value bytes (int32 length, -1 null)
//	v1 message   as v0 plus timestamp int64 after attributes; attribute bit 3 = log append time
//	wrapper      a v0/v1 message with a codec whose value is the compressed concatenation of
//	             inner messages. v0: inner offsets are absolute. v1: absolute offset of an
//	             inner message = wrapperOffset - lastInnerStoredOffset + storedOffset, except
//	             wrapper offset 0 which means "use stored offsets as they are". A v1 wrapper
//	             with log-append-time gives every inner record the wrapper's timestamp and
//	             timestamp type.
//	v2 batch     baseOffset int64, batchLength int32, partitionLeaderEpoch int32, magic 2,
//	             crc uint32 (Castagnoli, over attributes..end), attributes int16 (bits 0-2 codec,
//	             3 timestamp type, 4 transactional, 5 control, 6 delete horizon), lastOffsetDelta,
//	             baseTimestamp, maxTimestamp, producerId, producerEpoch, baseSequence,
//	             recordCount, records (possibly compressed). Record offset = baseOffset +
//	             offsetDelta; timestamp = baseTimestamp + delta, or maxTimestamp with log append time.
//	             The batch covers [baseOffset, baseOffset+lastOffsetDelta] even if compaction
//	             removed records (also all of them: recordCount 0).
//	control      a control batch holds one record whose key is int16 version, int16 type
//	             (0 abort, 1 commit).
package logmodel

import (
	"fmt"
	"sort"
	"strings"
)

// Format is the magic value of a batch.
type Format int8

const (
	V0 Format = 0
	V1 Format = 1
	V2 Format = 2
)

// Codec is the compression codec id stored in the attributes.
type Codec int8

const (
	None   Codec = 0
	Gzip   Codec = 1
	Snappy Codec = 2
	LZ4    Codec = 3
	Zstd   Codec = 4
)

func (c Codec) String() string {
	return [...]string{"none", "gzip", "snappy", "lz4", "zstd"}[c]
}

// Header is a v2 record header. A nil Value is a null value.
type Header struct {
	Key   string
	Value []byte
}

// Record is one logical record. Offset is absolute.
type Record struct {
	Offset    int64
	Timestamp int64 // create time in ms (v1, v2); meaningless for v0
	Key       []byte
	Value     []byte // nil = null (tombstone), empty = empty
	Headers   []Header
}

// InnerMode says how a legacy wrapper stores the offsets of its inner messages.
type InnerMode int8

const (
	// InnerRelative (v1): stored = absolute - first absolute + Bias, wrapper offset = last absolute.
	InnerRelative InnerMode = iota
	// InnerAbsolute: stored = absolute, wrapper offset = last absolute (the only v0
	// convention; for v1 the base computes to zero).
	InnerAbsolute
	// InnerAbsoluteZeroWrapper (v1): stored = absolute, wrapper offset 0.
	InnerAbsoluteZeroWrapper
)

// Marker kinds of a control batch.
const (
	NoMarker     int8 = -1
	AbortMarker  int8 = 0
	CommitMarker int8 = 1
)

// Batch is one v2 record batch, or one top-level legacy message (plain when
// Codec == None: exactly one record; a wrapper otherwise: >= 1 inner records).
type Batch struct {
	Format  Format
	Codec   Codec
	Records []Record

	// Snappy framing: xerial (what the Java client writes) with the given chunk size,
	// or one raw snappy block. SnappyLiteral uses the hand-written literal-only
	// snappy block writer instead of the library.
	Xerial        bool
	XerialChunk   int
	SnappyLiteral bool

	// LogAppendTime: v1 attribute bit 3 / v2 attribute bit 3. AppendTime is then the
	// (wrapper) message timestamp for v1 and MaxTimestamp for v2.
	LogAppendTime bool
	AppendTime    int64

	// legacy wrappers
	Inner InnerMode
	Bias  int64

	// v2 only
	BaseOffset      int64
	LastOffsetDelta int32
	BaseTimestamp   int64
	MaxTimestamp    int64 // create-time batches: informational
	LeaderEpoch     int32
	ProducerID      int64
	ProducerEpoch   int16
	BaseSequence    int32
	Transactional   bool
	Control         bool
	Marker          int8 // NoMarker unless Control
	DeleteHorizon   bool

	// Logical fact, never serialized: this transactional data batch belongs to a
	// transaction that ends (inside or after the response) with an abort marker.
	// Used only to cross-check the declarative abort rule against the generator.
	TxnAborted bool

	// Damage applied by the serializer to model a batch whose header is intact (length
	// and CRC valid) but whose record section is short: CutRecords drops that many
	// bytes from the end of the uncompressed records (v2) / inner messages (wrapper);
	// CutPayload drops bytes from the end of the compressed payload.
	CutRecords int
	CutPayload int

	// Hostile v2 batches (valid framing, length and CRC around a record section the
	// format does not allow): RawRecords, when non-nil, replaces the encoded records
	// (before compression); CountOverride, when non-nil, replaces the record count.
	RawRecords    []byte
	CountOverride *int32
}

// First is the first offset covered by the batch.
func (b *Batch) First() int64 {
	if b.Format == V2 {
		return b.BaseOffset
	}
	return b.Records[0].Offset
}

// Last is the last offset covered by the batch.
func (b *Batch) Last() int64 {
	if b.Format == V2 {
		return b.BaseOffset + int64(b.LastOffsetDelta)
	}
	return b.Records[len(b.Records)-1].Offset
}

// IsWrapper reports whether a legacy batch is a compressed wrapper.
func (b *Batch) IsWrapper() bool { return b.Format != V2 && b.Codec != None }

// Damaged reports whether the serializer shortens the record section.
func (b *Batch) Damaged() bool { return b.CutRecords > 0 || b.CutPayload > 0 }

// Aborted is one FetchResponse AbortedTransactions entry. LastOffset is the broker's
// knowledge of where the transaction's abort marker sits (math.MaxInt64 when it
// lies beyond the response); it is not part of the wire entry.
type Aborted struct {
	ProducerID  int64
	FirstOffset int64
	LastOffset  int64
}

func (a Aborted) String() string {
	return fmt.Sprintf("{pid=%d first=%d}", a.ProducerID, a.FirstOffset)
}

// Log is a partition response: batches in offset order and everything the broker's
// aborted-transaction index knows around them, in presentation order.
type Log struct {
	Batches []Batch
	Aborted []Aborted
}

// AbortedFor returns the list a broker attaches to a fetch at fetchOffset: aborted
// transactions whose abort marker is at or after the fetch offset (Kafka's
// collectAbortedTxns: lastOffset >= fetchOffset), in the log's presentation order.
func (l *Log) AbortedFor(fetchOffset int64) []Aborted {
	var out []Aborted
	for _, a := range l.Aborted {
		if a.LastOffset >= fetchOffset {
			out = append(out, a)
		}
	}
	return out
}

// Query is what the consumer asked for, plus the aborted list it was given.
type Query struct {
	Offset        int64
	ReadCommitted bool
	KeepControl   bool
	Aborted       []Aborted
}

// Want is one consumer-visible record.
type Want struct {
	Offset        int64
	HasTimestamp  bool // false for v0 (the format has no timestamp)
	Timestamp     int64
	Key           []byte
	Value         []byte
	Headers       []Header
	TimestampType int8 // -1 v0, 0 create time, 1 log append time
	Codec         uint8
	Transactional bool
	Control       bool
	V2            bool // producer fields and leader epoch are defined
	ProducerID    int64
	ProducerEpoch int16
	LeaderEpoch   int32
	Batch         int // index of the batch the record came from
}

// BatchAborted states the read_committed rule declaratively: a transactional batch
// of producer p at base offset o is aborted iff the aborted list holds an entry
// (p, F) with F <= o < M, where M is the base offset of the first abort marker of p
// at or after F (infinite if there is none in the log). The order of the list does
// not enter.
func (l *Log) BatchAborted(i int, list []Aborted) bool {
	b := &l.Batches[i]
	if b.Format != V2 || !b.Transactional {
		return false
	}
	o := b.BaseOffset
	for _, e := range list {
		if e.ProducerID != b.ProducerID || e.FirstOffset > o {
			continue
		}
		ended := false
		for j := range l.Batches {
			m := &l.Batches[j]
			if m.Format == V2 && m.Control && m.Marker == AbortMarker && m.ProducerID == b.ProducerID &&
				m.BaseOffset >= e.FirstOffset && m.BaseOffset <= o {
				// the marker itself (m.BaseOffset == o) is not inside [F, M)
				ended = true
				break
			}
		}
		if !ended {
			return true
		}
	}
	return false
}

// views returns the consumer-visible form of every record of batch i (no filtering).
func (l *Log) views(i int) []Want {
	b := &l.Batches[i]
	out := make([]Want, 0, len(b.Records))
	for _, r := range b.Records {
		w := Want{Offset: r.Offset, Key: r.Key, Value: r.Value, Codec: uint8(b.Codec), Batch: i}
		switch b.Format {
		case V0:
			w.TimestampType = -1
		case V1:
			w.HasTimestamp = true
			switch {
			case b.LogAppendTime:
				// plain: the broker overwrote the message timestamp; wrapper: every inner
				// record takes the wrapper's timestamp and type (KIP-32).
				w.Timestamp, w.TimestampType = b.AppendTime, 1
			default:
				w.Timestamp, w.TimestampType = r.Timestamp, 0
			}
		case V2:
			w.HasTimestamp = true
			if b.LogAppendTime {
				w.Timestamp, w.TimestampType = b.AppendTime, 1
			} else {
				w.Timestamp, w.TimestampType = r.Timestamp, 0
			}
			w.Headers = r.Headers
			w.Transactional, w.Control = b.Transactional, b.Control
			w.V2 = true
			w.ProducerID, w.ProducerEpoch, w.LeaderEpoch = b.ProducerID, b.ProducerEpoch, b.LeaderEpoch
		}
		out = append(out, w)
	}
	return out
}

// Wanted reports whether the consumer wants record w of batch i under q.
func (l *Log) wanted(i int, w *Want, q Query, aborted bool) bool {
	if w.Offset < q.Offset {
		return false
	}
	if w.Control {
		return q.KeepControl
	}
	if q.ReadCommitted && aborted {
		return false
	}
	return true
}

// Expect returns what a consumer asking q must get from the first n batches of the
// log taken as whole batches: the records in order and the next offset to ask for.
//
// Next offset: the consumer starts at q.Offset; every whole batch whose last
// covered offset is at or above the current position moves the position to that
// last offset + 1 (v2: baseOffset+lastOffsetDelta, also for empty batches and when
// the tail was compacted away; legacy: the last (inner) message's offset).
func (l *Log) Expect(q Query, n int) (recs []Want, next int64) {
	next = q.Offset
	for i := 0; i < n && i < len(l.Batches); i++ {
		b := &l.Batches[i]
		aborted := q.ReadCommitted && l.BatchAborted(i, q.Aborted)
		for _, w := range l.views(i) {
			if l.wanted(i, &w, q, aborted) {
				recs = append(recs, w)
			}
		}
		if last := b.Last(); last >= next {
			next = last + 1
		}
	}
	return recs, next
}

// FirstWanted returns the smallest wanted offset in batch i, if any.
func (l *Log) FirstWanted(q Query, i int) (int64, bool) {
	aborted := q.ReadCommitted && l.BatchAborted(i, q.Aborted)
	for _, w := range l.views(i) {
		if l.wanted(i, &w, q, aborted) {
			return w.Offset, true
		}
	}
	return 0, false
}

// Formats returns the set of formats in the log as a sorted string like "v0v2".
func (l *Log) Formats() string {
	var seen [3]bool
	for i := range l.Batches {
		seen[l.Batches[i].Format] = true
	}
	s := ""
	for f, ok := range seen {
		if ok {
			s += fmt.Sprintf("v%d", f)
		}
	}
	return s
}

// Producers returns the number of distinct producer ids (>= 0) in v2 batches.
func (l *Log) Producers() int {
	m := map[int64]bool{}
	for i := range l.Batches {
		if b := &l.Batches[i]; b.Format == V2 && b.ProducerID >= 0 {
			m[b.ProducerID] = true
		}
	}
	return len(m)
}

// OutOfOrder reports whether an aborted list is not ascending by first offset.
func OutOfOrder(list []Aborted) bool {
	return !sort.SliceIsSorted(list, func(i, j int) bool { return list[i].FirstOffset < list[j].FirstOffset })
}

// SameProducerOutOfOrder reports whether some producer has two entries of which the
// later-listed one has the smaller first offset.
func SameProducerOutOfOrder(list []Aborted) bool {
	for i := range list {
		for j := i + 1; j < len(list); j++ {
			if list[i].ProducerID == list[j].ProducerID && list[j].FirstOffset < list[i].FirstOffset {
				return true
			}
		}
	}
	return false
}

// Describe is a compact human-readable rendering used in samples and failures.
func (l *Log) Describe() string {
	var sb strings.Builder
	for i := range l.Batches {
		b := &l.Batches[i]
		fmt.Fprintf(&sb, "#%d v%d %s", i, b.Format, b.Codec)
		if b.Format == V2 {
			fmt.Fprintf(&sb, " base=%d lod=%d pid=%d/%d le=%d", b.BaseOffset, b.LastOffsetDelta, b.ProducerID, b.ProducerEpoch, b.LeaderEpoch)
			if b.Transactional {
				sb.WriteString(" txn")
				if b.TxnAborted {
					sb.WriteString("(aborted)")
				}
			}
			if b.Control {
				fmt.Fprintf(&sb, " control(marker=%d)", b.Marker)
			}
			if b.DeleteHorizon {
				sb.WriteString(" dh")
			}
		} else if b.IsWrapper() {
			fmt.Fprintf(&sb, " wrapper(inner=%d bias=%d)", b.Inner, b.Bias)
		}
		if b.LogAppendTime {
			fmt.Fprintf(&sb, " logappend=%d", b.AppendTime)
		}
		if b.Codec == Snappy {
			fmt.Fprintf(&sb, " xerial=%v/%d lit=%v", b.Xerial, b.XerialChunk, b.SnappyLiteral)
		}
		if b.Damaged() {
			fmt.Fprintf(&sb, " cut(records=%d,payload=%d)", b.CutRecords, b.CutPayload)
		}
		sb.WriteString(" offs=[")
		for j, r := range b.Records {
			if j > 0 {
				sb.WriteByte(' ')
			}
			fmt.Fprintf(&sb, "%d", r.Offset)
		}
		sb.WriteString("]\n")
	}
	fmt.Fprintf(&sb, "aborted=%v\n", l.Aborted)
	return sb.String()
}
