package logmodel

import (
	"bytes"
	"compress/gzip"
	"encoding/binary"
	"hash/crc32"
	"sync"

	"github.com/klauspost/compress/snappy"
	"github.com/klauspost/compress/zstd"
	"github.com/pierrec/lz4/v4"
)

// Hand-written serializer. It shares no code with /repo: fixed-width fields go
// through encoding/binary, varints are written here, CRCs come from hash/crc32,
// compression from the stdlib (gzip), klauspost (snappy, zstd) and pierrec (lz4)
// encoders or from the literal-only snappy writer below.

var castagnoli = crc32.MakeTable(crc32.Castagnoli)

func be16(dst []byte, v uint16) []byte { return binary.BigEndian.AppendUint16(dst, v) }
func be32(dst []byte, v uint32) []byte { return binary.BigEndian.AppendUint32(dst, v) }
func be64(dst []byte, v uint64) []byte { return binary.BigEndian.AppendUint64(dst, v) }

// uvarint: little-endian base-128, 7 bits per byte, high bit = continuation.
func uvarint(dst []byte, u uint64) []byte {
	for u >= 0x80 {
		dst = append(dst, byte(u)|0x80)
		u >>= 7
	}
	return append(dst, byte(u))
}

// varint / varlong: zigzag then uvarint (Kafka "varint"/"varlong").
func varint(dst []byte, v int32) []byte {
	return uvarint(dst, uint64(uint32(v<<1)^uint32(v>>31)))
}

func varlong(dst []byte, v int64) []byte {
	return uvarint(dst, uint64(v<<1)^uint64(v>>63))
}

func varBytes(dst, b []byte) []byte {
	if b == nil {
		return varint(dst, -1)
	}
	dst = varint(dst, int32(len(b)))
	return append(dst, b...)
}

func nullableBytes32(dst, b []byte) []byte {
	if b == nil {
		return be32(dst, 0xffffffff)
	}
	dst = be32(dst, uint32(len(b)))
	return append(dst, b...)
}

// encodeRecord writes one v2 record relative to its batch.
func encodeRecord(dst []byte, r *Record, baseOffset, baseTimestamp int64) []byte {
	var body []byte
	body = append(body, 0) // record attributes: unused
	body = varlong(body, r.Timestamp-baseTimestamp)
	body = varint(body, int32(r.Offset-baseOffset))
	body = varBytes(body, r.Key)
	body = varBytes(body, r.Value)
	body = varint(body, int32(len(r.Headers)))
	for _, h := range r.Headers {
		body = varint(body, int32(len(h.Key)))
		body = append(body, h.Key...)
		body = varBytes(body, h.Value)
	}
	dst = varint(dst, int32(len(body)))
	return append(dst, body...)
}

// Attributes returns the v2 attributes word / legacy attributes byte of the batch.
func (b *Batch) Attributes() uint16 {
	a := uint16(b.Codec) & 7
	if b.LogAppendTime && b.Format != V0 {
		a |= 1 << 3
	}
	if b.Format == V2 {
		if b.Transactional {
			a |= 1 << 4
		}
		if b.Control {
			a |= 1 << 5
		}
		if b.DeleteHorizon {
			a |= 1 << 6
		}
	}
	return a
}

func cut(b []byte, n int) []byte {
	if n <= 0 {
		return b
	}
	if n >= len(b) {
		return b[:0]
	}
	return b[:len(b)-n]
}

// Encode serializes the batch.
func (b *Batch) Encode() []byte {
	if b.Format == V2 {
		return b.encodeV2()
	}
	return b.encodeLegacy()
}

// EncodedRecords returns the uncompressed record section: the v2 records, or the
// concatenated inner messages of a legacy wrapper (nil for a plain legacy message).
func (b *Batch) EncodedRecords() []byte {
	var recs []byte
	if b.Format == V2 {
		for i := range b.Records {
			recs = encodeRecord(recs, &b.Records[i], b.BaseOffset, b.BaseTimestamp)
		}
		return recs
	}
	if !b.IsWrapper() {
		return nil
	}
	first := b.Records[0].Offset
	for i := range b.Records {
		r := &b.Records[i]
		stored := r.Offset
		if b.Format == V1 && b.Inner == InnerRelative {
			stored = r.Offset - first + b.Bias
		}
		// inner messages carry no codec and their own (create time) timestamp
		recs = legacyMessage(recs, b.Format, stored, 0, r.Timestamp, r.Key, r.Value)
	}
	return recs
}

func (b *Batch) encodeV2() []byte {
	recs := b.EncodedRecords()
	if b.RawRecords != nil {
		recs = b.RawRecords
	}
	recs = cut(recs, b.CutRecords)
	payload := cut(b.compress(recs), b.CutPayload)
	count := int32(len(b.Records))
	if b.CountOverride != nil {
		count = *b.CountOverride
	}

	maxTs := b.MaxTimestamp
	if b.LogAppendTime {
		maxTs = b.AppendTime
	}
	var body []byte // everything the CRC covers
	body = be16(body, b.Attributes())
	body = be32(body, uint32(b.LastOffsetDelta))
	body = be64(body, uint64(b.BaseTimestamp))
	body = be64(body, uint64(maxTs))
	body = be64(body, uint64(b.ProducerID))
	body = be16(body, uint16(b.ProducerEpoch))
	body = be32(body, uint32(b.BaseSequence))
	body = be32(body, uint32(count))
	body = append(body, payload...)

	var out []byte
	out = be64(out, uint64(b.BaseOffset))
	out = be32(out, uint32(4+1+4+len(body))) // leader epoch + magic + crc + body
	out = be32(out, uint32(b.LeaderEpoch))
	out = append(out, 2)
	out = be32(out, crc32.Checksum(body, castagnoli))
	return append(out, body...)
}

// legacyMessage writes one v0/v1 message (offset, size, crc, magic, attributes,
// [timestamp], key, value).
func legacyMessage(dst []byte, f Format, offset int64, attrs byte, ts int64, key, value []byte) []byte {
	var body []byte // everything the CRC covers
	body = append(body, byte(f), attrs)
	if f == V1 {
		body = be64(body, uint64(ts))
	}
	body = nullableBytes32(body, key)
	body = nullableBytes32(body, value)
	dst = be64(dst, uint64(offset))
	dst = be32(dst, uint32(4+len(body)))
	dst = be32(dst, crc32.ChecksumIEEE(body))
	return append(dst, body...)
}

func (b *Batch) encodeLegacy() []byte {
	attrs := byte(b.Attributes())
	if !b.IsWrapper() {
		r := &b.Records[0]
		ts := r.Timestamp
		if b.LogAppendTime {
			ts = b.AppendTime
		}
		return legacyMessage(nil, b.Format, r.Offset, attrs, ts, r.Key, r.Value)
	}
	last := b.Records[len(b.Records)-1].Offset
	maxTs := int64(-1)
	for i := range b.Records {
		if ts := b.Records[i].Timestamp; ts > maxTs {
			maxTs = ts
		}
	}
	inner := b.EncodedRecords()
	if b.RawRecords != nil {
		inner = b.RawRecords
	}
	inner = cut(inner, b.CutRecords)
	payload := cut(b.compress(inner), b.CutPayload)
	wrapperOffset := last
	if b.Format == V1 && b.Inner == InnerAbsoluteZeroWrapper {
		wrapperOffset = 0
	}
	ts := maxTs
	if b.LogAppendTime {
		ts = b.AppendTime
	}
	return legacyMessage(nil, b.Format, wrapperOffset, attrs, ts, nil, payload)
}

// Encode serializes all batches; ends[i] is the byte position just after batch i.
func (l *Log) Encode() (out []byte, ends []int) {
	for i := range l.Batches {
		out = append(out, l.Batches[i].Encode()...)
		ends = append(ends, len(out))
	}
	return out, ends
}

var (
	zstdOnce sync.Once
	zstdEnc  *zstd.Encoder
)

func (b *Batch) compress(raw []byte) []byte {
	switch b.Codec {
	case None:
		return raw
	case Gzip:
		var buf bytes.Buffer
		w := gzip.NewWriter(&buf)
		w.Write(raw)
		w.Close()
		return buf.Bytes()
	case Snappy:
		block := func(p []byte) []byte {
			if b.SnappyLiteral {
				return snappyLiteral(p)
			}
			return snappy.Encode(nil, p)
		}
		if !b.Xerial {
			return block(raw)
		}
		// xerial framing (snappy-java SnappyOutputStream): magic, version 1,
		// compatible version 1, then [int32 length][snappy block] chunks.
		out := []byte{0x82, 'S', 'N', 'A', 'P', 'P', 'Y', 0}
		out = be32(out, 1)
		out = be32(out, 1)
		chunk := b.XerialChunk
		if chunk <= 0 {
			chunk = 32 << 10
		}
		for len(raw) > 0 {
			n := min(chunk, len(raw))
			blk := block(raw[:n])
			out = be32(out, uint32(len(blk)))
			out = append(out, blk...)
			raw = raw[n:]
		}
		return out
	case LZ4:
		var buf bytes.Buffer
		w := lz4.NewWriter(&buf)
		w.Write(raw)
		w.Close()
		return buf.Bytes()
	case Zstd:
		zstdOnce.Do(func() {
			zstdEnc, _ = zstd.NewWriter(nil, zstd.WithEncoderConcurrency(1), zstd.WithEncoderLevel(zstd.SpeedFastest))
		})
		return zstdEnc.EncodeAll(raw, nil)
	}
	panic("logmodel: unknown codec")
}

// snappyLiteral writes a valid snappy block that consists of literal elements only:
// uvarint(uncompressed length), then per chunk of at most 60 bytes a tag byte
// (len-1)<<2 | 0b00 followed by the bytes.
func snappyLiteral(p []byte) []byte {
	out := uvarint(nil, uint64(len(p)))
	for len(p) > 0 {
		n := min(60, len(p))
		out = append(out, byte(n-1)<<2)
		out = append(out, p[:n]...)
		p = p[n:]
	}
	return out
}
