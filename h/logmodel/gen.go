package logmodel

import (
	"math"
	"sort"

	"pgregory.net/rapid"
)

// GenConfig bounds the generated logs.
type GenConfig struct {
	MaxBatches int      // default 8
	MaxRecords int      // per batch, default 6
	Formats    []Format // allowed formats; default all
}

type producer struct {
	id        int64
	epoch     int16
	seq       int32
	open      bool
	first     int64
	willAbort bool
	entry     int // index in Log.Aborted of the open transaction's entry, if willAbort
}

func genBytes(t *rapid.T, label string) []byte {
	switch rapid.IntRange(0, 9).Draw(t, label+"Kind") {
	case 0:
		return nil
	case 1:
		return []byte{}
	case 2: // longer and compressible
		n := rapid.IntRange(40, 400).Draw(t, label+"Len")
		unit := rapid.SliceOfN(rapid.Byte(), 1, 6).Draw(t, label+"Unit")
		out := make([]byte, 0, n)
		for len(out) < n {
			out = append(out, unit...)
		}
		return out[:n]
	default:
		return rapid.SliceOfN(rapid.Byte(), 1, 12).Draw(t, label)
	}
}

func genHeaders(t *rapid.T) []Header {
	n := rapid.SampledFrom([]int{0, 0, 0, 1, 2, 3}).Draw(t, "nHeaders")
	var hs []Header
	for i := 0; i < n; i++ {
		k := rapid.SampledFrom([]string{"", "k", "trace-id", "hé世", "a b"}).Draw(t, "hKey")
		var v []byte
		switch rapid.IntRange(0, 3).Draw(t, "hValKind") {
		case 0:
			v = nil
		case 1:
			v = []byte{}
		default:
			v = rapid.SliceOfN(rapid.Byte(), 1, 8).Draw(t, "hVal")
		}
		hs = append(hs, Header{Key: k, Value: v})
	}
	return hs
}

func genTimestamp(t *rapid.T, base int64) int64 {
	switch rapid.IntRange(0, 11).Draw(t, "tsKind") {
	case 0:
		return -1 // NO_TIMESTAMP is a legal stored value
	case 1:
		return 0
	default:
		return base + rapid.Int64Range(-5000, 5000).Draw(t, "tsDelta")
	}
}

// genOffsets draws n strictly increasing offsets starting at or after base;
// gaps model compaction. Returns the offsets and the position after the last one.
func genOffsets(t *rapid.T, base int64, n int, gaps bool) []int64 {
	offs := make([]int64, n)
	cur := base
	for i := 0; i < n; i++ {
		if gaps && rapid.IntRange(0, 4).Draw(t, "gap?") == 0 {
			cur += rapid.Int64Range(1, 4).Draw(t, "gap")
		}
		offs[i] = cur
		cur++
	}
	return offs
}

func genCodec(t *rapid.T, b *Batch, legacy bool) {
	if legacy {
		b.Codec = rapid.SampledFrom([]Codec{Gzip, Snappy, LZ4}).Draw(t, "codec")
	} else {
		b.Codec = rapid.SampledFrom([]Codec{None, None, Gzip, Snappy, LZ4, Zstd}).Draw(t, "codec")
	}
	if b.Codec == Snappy {
		b.Xerial = rapid.Bool().Draw(t, "xerial")
		if b.Xerial {
			b.XerialChunk = rapid.SampledFrom([]int{0, 16, 64, 1000}).Draw(t, "xerialChunk")
		}
		b.SnappyLiteral = rapid.IntRange(0, 3).Draw(t, "snappyLiteral") == 0
	}
}

// GenLog generates a logical partition response.
func GenLog(cfg GenConfig) *rapid.Generator[*Log] {
	if cfg.MaxBatches == 0 {
		cfg.MaxBatches = 8
	}
	if cfg.MaxRecords == 0 {
		cfg.MaxRecords = 6
	}
	return rapid.Custom(func(t *rapid.T) *Log {
		l := &Log{}
		var pos int64
		switch rapid.IntRange(0, 5).Draw(t, "startKind") {
		case 0:
			pos = 0
		case 1, 2:
			pos = rapid.Int64Range(0, 60).Draw(t, "start")
		case 3:
			pos = rapid.Int64Range(1000, 1_000_000).Draw(t, "start")
		case 4:
			pos = (1 << 31) - rapid.Int64Range(0, 40).Draw(t, "startBelow2p31") // crosses the int32 range
		default:
			pos = (1 << 40) + rapid.Int64Range(0, 1<<20).Draw(t, "startBig")
		}
		start := pos

		// which formats this log mixes
		allowed := cfg.Formats
		if len(allowed) == 0 {
			switch rapid.IntRange(0, 9).Draw(t, "mix") {
			case 0:
				allowed = []Format{V0}
			case 1:
				allowed = []Format{V1}
			case 2, 3, 4:
				allowed = []Format{V2}
			case 5:
				allowed = []Format{V0, V1}
			case 6:
				allowed = []Format{V1, V2}
			default:
				allowed = []Format{V0, V1, V2, V2}
			}
		}

		// transactional producers
		np := rapid.IntRange(0, 3).Draw(t, "nTxnProducers")
		pidPool := []int64{0, 1, 2, 7, 1000, 1001, 1 << 40, (1 << 40) + 1, 1<<62 + 5}
		start0 := rapid.IntRange(0, len(pidPool)-1).Draw(t, "pidStart")
		prods := make([]*producer, np)
		for i := range prods {
			p := &producer{id: pidPool[(start0+i)%len(pidPool)]}
			p.epoch = rapid.SampledFrom([]int16{0, 1, 5, 32767}).Draw(t, "epoch")
			p.seq = rapid.SampledFrom([]int32{0, 3, 1 << 20, (1 << 31) - 2}).Draw(t, "seq")
			// the response may start in the middle of a transaction
			if pos > 0 && rapid.IntRange(0, 3).Draw(t, "preOpen") == 0 {
				p.open = true
				p.first = pos - rapid.Int64Range(1, min(pos, 30)).Draw(t, "preOpenBack")
				p.willAbort = rapid.Bool().Draw(t, "preOpenAbort")
				if p.willAbort {
					p.entry = len(l.Aborted)
					l.Aborted = append(l.Aborted, Aborted{p.id, p.first, math.MaxInt64})
				}
			}
			prods[i] = p
		}
		idemPid := pidPool[(start0+np)%len(pidPool)]
		leaderEpoch := rapid.SampledFrom([]int32{-1, 0, 3, 1 << 20}).Draw(t, "leaderEpoch")
		tsBase := int64(1_600_000_000_000) + rapid.Int64Range(0, 1<<30).Draw(t, "tsBase")

		nb := rapid.IntRange(1, cfg.MaxBatches).Draw(t, "nBatches")
		for bi := 0; bi < nb; bi++ {
			f := rapid.SampledFrom(allowed).Draw(t, "format")
			if rapid.IntRange(0, 5).Draw(t, "batchGap?") == 0 {
				pos += rapid.Int64Range(1, 5).Draw(t, "batchGap")
			}
			b := Batch{Format: f, Marker: NoMarker, ProducerID: -1, ProducerEpoch: -1, BaseSequence: -1, LeaderEpoch: -1}
			if f != V0 {
				b.LogAppendTime = rapid.IntRange(0, 3).Draw(t, "logAppend") == 0
				b.AppendTime = tsBase + rapid.Int64Range(0, 100000).Draw(t, "appendTime")
			}
			genRecord := func(off int64, headers bool) Record {
				r := Record{Offset: off, Timestamp: genTimestamp(t, tsBase), Key: genBytes(t, "key"), Value: genBytes(t, "value")}
				if headers {
					r.Headers = genHeaders(t)
				}
				return r
			}
			if f != V2 {
				if rapid.Bool().Draw(t, "wrapper") {
					genCodec(t, &b, true)
					n := rapid.IntRange(1, cfg.MaxRecords).Draw(t, "nInner")
					for _, off := range genOffsets(t, pos, n, true) {
						b.Records = append(b.Records, genRecord(off, false))
					}
					if f == V0 {
						b.Inner = InnerAbsolute
					} else {
						b.Inner = rapid.SampledFrom([]InnerMode{InnerRelative, InnerRelative, InnerRelative, InnerAbsolute, InnerAbsoluteZeroWrapper}).Draw(t, "innerMode")
						// The stored offsets need not start at 0: any base works as long as the
						// wrapper offset (last absolute) is not below the last stored offset,
						// i.e. bias <= first absolute offset (Kafka rejects the set otherwise).
						if first := b.First(); b.Inner == InnerRelative && first >= 1 && rapid.IntRange(0, 4).Draw(t, "bias?") == 0 {
							b.Bias = rapid.Int64Range(1, min(9, first)).Draw(t, "bias")
						}
					}
				} else {
					b.Records = []Record{genRecord(pos, false)}
				}
				pos = b.Last() + 1
				l.Batches = append(l.Batches, b)
				continue
			}

			// v2
			b.LeaderEpoch = leaderEpoch
			if rapid.IntRange(0, 9).Draw(t, "epochBump") == 0 && leaderEpoch < 1<<30 {
				leaderEpoch++
			}
			b.BaseOffset = pos
			b.BaseTimestamp = tsBase + rapid.Int64Range(-1000, 1000).Draw(t, "baseTs")
			b.MaxTimestamp = b.BaseTimestamp + rapid.Int64Range(0, 5000).Draw(t, "maxTs")

			// kinds: 0 plain, 1 idempotent, 2 txn data, 3 marker, 4 empty compacted
			kinds := []int{0, 0, 1, 4}
			var openIdx []int
			for i, p := range prods {
				kinds = append(kinds, 2, 2)
				if p.open {
					openIdx = append(openIdx, i)
				}
			}
			if len(prods) > 0 {
				kinds = append(kinds, 2)
			}
			if len(openIdx) > 0 {
				kinds = append(kinds, 3, 3, 3)
			}
			kind := rapid.SampledFrom(kinds).Draw(t, "v2kind")
			switch kind {
			case 3:
				p := prods[rapid.SampledFrom(openIdx).Draw(t, "markerProducer")]
				b.Control, b.Transactional = true, true
				b.ProducerID, b.ProducerEpoch = p.id, p.epoch
				b.BaseSequence = -1
				typ := CommitMarker
				if p.willAbort {
					typ = AbortMarker
					l.Aborted[p.entry].LastOffset = pos
				}
				b.Marker = typ
				coordEpoch := rapid.Int32Range(0, 9).Draw(t, "coordEpoch")
				val := be32(be16(nil, 0), uint32(coordEpoch))
				b.Records = []Record{{Offset: pos, Timestamp: genTimestamp(t, tsBase), Key: []byte{0, 0, 0, byte(typ)}, Value: val}}
				b.LastOffsetDelta = 0
				b.DeleteHorizon = rapid.IntRange(0, 7).Draw(t, "markerDeleteHorizon") == 0
				p.open = false
			case 4:
				// KAFKA-5443: every record compacted away, the batch keeps its offset range
				b.LastOffsetDelta = rapid.Int32Range(0, 9).Draw(t, "emptyLOD")
				if rapid.Bool().Draw(t, "emptyIdem") {
					b.ProducerID, b.ProducerEpoch, b.BaseSequence = idemPid, 0, rapid.Int32Range(0, 100).Draw(t, "seq")
				}
				b.DeleteHorizon = rapid.Bool().Draw(t, "emptyDeleteHorizon")
			default:
				genCodec(t, &b, false)
				n := rapid.IntRange(1, cfg.MaxRecords).Draw(t, "nRecords")
				compacted := rapid.IntRange(0, 2).Draw(t, "compacted") == 0
				first := pos
				if compacted && rapid.IntRange(0, 2).Draw(t, "headGone") == 0 {
					first += rapid.Int64Range(1, 3).Draw(t, "headGap") // first records removed, base offset stays
				}
				for _, off := range genOffsets(t, first, n, compacted) {
					b.Records = append(b.Records, genRecord(off, true))
				}
				lod := b.Records[n-1].Offset - pos
				if compacted && rapid.IntRange(0, 2).Draw(t, "tailGone") == 0 {
					lod += rapid.Int64Range(1, 5).Draw(t, "tailGap") // last records removed, lastOffsetDelta stays
				}
				b.LastOffsetDelta = int32(lod)
				b.DeleteHorizon = compacted && rapid.IntRange(0, 3).Draw(t, "deleteHorizon") == 0
				switch kind {
				case 1:
					b.ProducerID, b.ProducerEpoch = idemPid, 0
					b.BaseSequence = rapid.Int32Range(0, 1000).Draw(t, "seq")
				case 2:
					p := prods[rapid.IntRange(0, len(prods)-1).Draw(t, "txnProducer")]
					b.Transactional = true
					b.ProducerID, b.ProducerEpoch, b.BaseSequence = p.id, p.epoch, p.seq
					p.seq = int32((int64(p.seq) + int64(n)) & 0x7fffffff)
					if !p.open {
						p.open = true
						p.first = b.BaseOffset
						p.willAbort = rapid.Bool().Draw(t, "txnAborts")
						if p.willAbort {
							p.entry = len(l.Aborted)
							l.Aborted = append(l.Aborted, Aborted{p.id, p.first, math.MaxInt64})
						}
					}
					b.TxnAborted = p.willAbort
				}
			}
			pos = b.Last() + 1
			l.Batches = append(l.Batches, b)
		}

		// entries that do not concern the returned range: unknown producers, and
		// transactions that start beyond the returned data (the broker collects the
		// list up to an upper bound that may lie past what fit into the response).
		nNoise := rapid.SampledFrom([]int{0, 0, 1, 2, 3}).Draw(t, "nNoise")
		for i := 0; i < nNoise; i++ {
			if len(prods) > 0 && rapid.Bool().Draw(t, "noiseKnownPid") {
				p := prods[rapid.IntRange(0, len(prods)-1).Draw(t, "noisePid")]
				l.Aborted = append(l.Aborted, Aborted{p.id, pos + rapid.Int64Range(0, 50).Draw(t, "noiseBeyond") + int64(i)*100, math.MaxInt64})
			} else {
				l.Aborted = append(l.Aborted, Aborted{9_000_000 + int64(i), rapid.Int64Range(max(0, start-10), pos+10).Draw(t, "noiseFirst"), math.MaxInt64})
			}
		}
		switch rapid.IntRange(0, 3).Draw(t, "abortedOrder") {
		case 0: // ascending by first offset
			sort.SliceStable(l.Aborted, func(i, j int) bool { return l.Aborted[i].FirstOffset < l.Aborted[j].FirstOffset })
		case 1: // descending (newest first)
			sort.SliceStable(l.Aborted, func(i, j int) bool { return l.Aborted[i].FirstOffset > l.Aborted[j].FirstOffset })
		case 2: // generation order (by producer, then noise)
		default:
			if n := len(l.Aborted); n > 1 {
				perm := rapid.Permutation(l.Aborted).Draw(t, "abortedPerm")
				l.Aborted = perm
			}
		}
		return l
	})
}

// InterestingOffset draws a requested offset: log start, any record offset, inside
// compaction gaps, in the middle of batches, the end, beyond the end, before the
// first batch.
func InterestingOffset(t *rapid.T, l *Log) int64 {
	first := l.Batches[0].First()
	last := l.Batches[len(l.Batches)-1].Last()
	switch rapid.IntRange(0, 9).Draw(t, "offsetKind") {
	case 0:
		return first
	case 1:
		return max(0, first-rapid.Int64Range(0, 5).Draw(t, "before"))
	case 2:
		return last + rapid.Int64Range(0, 3).Draw(t, "after")
	case 3:
		return 0
	case 4, 5: // exactly a record offset (often mid-batch)
		b := &l.Batches[rapid.IntRange(0, len(l.Batches)-1).Draw(t, "offBatch")]
		if len(b.Records) == 0 {
			return b.First() + rapid.Int64Range(0, b.Last()-b.First()).Draw(t, "inEmpty")
		}
		return b.Records[rapid.IntRange(0, len(b.Records)-1).Draw(t, "offRec")].Offset
	case 6: // inside a batch's covered range, possibly in a gap or in the compacted tail
		b := &l.Batches[rapid.IntRange(0, len(l.Batches)-1).Draw(t, "offBatch")]
		return b.First() + rapid.Int64Range(0, b.Last()-b.First()).Draw(t, "inBatch")
	default:
		return rapid.Int64Range(max(0, first-2), last+2).Draw(t, "anywhere")
	}
}
