package c28

// Reference hash/partition arithmetic, written independently of pkg/kgo/partitioner.go.

// javaMurmur2 is a transliteration of org.apache.kafka.common.utils.Utils.murmur2
// (Apache Kafka Java client) keeping Java's types: byte is signed, int is 32-bit
// two's-complement with wrapping arithmetic, `>>>` is the unsigned shift.
//
//	int length = data.length; int seed = 0x9747b28c; final int m = 0x5bd1e995; final int r = 24;
//	int h = seed ^ length; int length4 = length / 4;
//	for (int i = 0; i < length4; i++) { final int i4 = i * 4;
//	    int k = (data[i4+0]&0xff) + ((data[i4+1]&0xff)<<8) + ((data[i4+2]&0xff)<<16) + ((data[i4+3]&0xff)<<24);
//	    k *= m; k ^= k >>> r; k *= m; h *= m; h ^= k; }
//	switch (length % 4) {
//	    case 3: h ^= (data[(length & ~3) + 2] & 0xff) << 16;
//	    case 2: h ^= (data[(length & ~3) + 1] & 0xff) << 8;
//	    case 1: h ^= data[length & ~3] & 0xff; h *= m; }
//	h ^= h >>> 13; h *= m; h ^= h >>> 15; return h;
func javaMurmur2(data []byte) int32 {
	jb := func(i int32) int32 { return int32(int8(data[i])) } // Java byte -> int promotion
	length := int32(len(data))
	seedBits := uint32(0x9747b28c)
	seed := int32(seedBits)
	const m int32 = 0x5bd1e995
	const r = 24
	h := seed ^ length
	length4 := length / 4
	for i := int32(0); i < length4; i++ {
		i4 := i * 4
		k := (jb(i4+0) & 0xff) + ((jb(i4+1) & 0xff) << 8) + ((jb(i4+2) & 0xff) << 16) + ((jb(i4+3) & 0xff) << 24)
		k *= m
		k ^= urs(k, r)
		k *= m
		h *= m
		h ^= k
	}
	base := length &^ 3
	switch length % 4 {
	case 3:
		h ^= (jb(base+2) & 0xff) << 16
		fallthrough
	case 2:
		h ^= (jb(base+1) & 0xff) << 8
		fallthrough
	case 1:
		h ^= jb(base) & 0xff
		h *= m
	}
	h ^= urs(h, 13)
	h *= m
	h ^= urs(h, 15)
	return h
}

// urs is Java's `x >>> s` on int.
func urs(x int32, s uint) int32 { return int32(uint32(x) >> s) }

// javaToPositive is Utils.toPositive: number & 0x7fffffff.
func javaToPositive(n int32) int32 { return n & 0x7fffffff }

// refKafkaPartition is BuiltInPartitioner.partitionForKey / DefaultPartitioner:
// Utils.toPositive(Utils.murmur2(serializedKey)) % numPartitions.
func refKafkaPartition(key []byte, n int) int {
	return int(javaToPositive(javaMurmur2(key)) % int32(n))
}

// refKafkaFromHash: the same placement for an arbitrary 32-bit hash value.
func refKafkaFromHash(h uint32, n int) int { return int(javaToPositive(int32(h)) % int32(n)) }

// refSaramaFromHash is Sarama's hashPartitioner without referenceAbs:
//
//	partition = int32(hasher.Sum32()) % numPartitions; if partition < 0 { partition = -partition }
//
// stated mathematically: the magnitude of the truncated remainder of the signed 32-bit
// reading of the hash is |v| mod n (computed in 64 bits so nothing can overflow).
func refSaramaFromHash(h uint32, n int) int {
	v := int64(int32(h))
	if v < 0 {
		v = -v
	}
	return int(v % int64(n))
}

// refUnsignedMod is what kgo.SaramaHasher documents for 64-bit platforms: the hash as an
// unsigned number modulo n (librdkafka's consistent partitioner arithmetic).
func refUnsignedMod(h uint32, n int) int { return int(uint64(h) % uint64(n)) }

// refFnv1a32 is 32-bit FNV-1a (offset basis 2166136261, prime 16777619), Sarama's default hash.
func refFnv1a32(b []byte) uint32 {
	h := uint32(2166136261)
	for _, c := range b {
		h ^= uint32(c)
		h *= 16777619
	}
	return h
}
