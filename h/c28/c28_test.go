// Package c28 checks property C28: every built-in partitioner of pkg/kgo returns an index
// in [0, n), equal keys go to equal partitions, the default key hasher places keys exactly
// like the Apache Kafka Java client and SaramaCompatHasher like Sarama.
package c28

import (
	"fmt"
	"hash/crc32"
	"hash/fnv"
	"strconv"
	"strings"
	"testing"

	"github.com/twmb/franz-go/pkg/kgo"
	"pgregory.net/rapid"

	"verif/h/ev"
)

func TestMain(m *testing.M) { ev.Main(m, "C28") }

// ---------------------------------------------------------------------------------
// generators

func genN() *rapid.Generator[int] {
	return rapid.OneOf(
		rapid.IntRange(1, 8),
		rapid.IntRange(1, 64),
		rapid.IntRange(1, 10000),
		rapid.SampledFrom([]int{1, 2, 3, 7, 10, 16, 100, 1000, 4096, 9999, 10000}),
	)
}

func genByte() *rapid.Generator[byte] {
	return rapid.OneOf(rapid.Byte(), rapid.SampledFrom([]byte{0x00, 0x7f, 0x80, 0xff}))
}

// genKey generates non-nil keys: empty, every length class modulo 4, bytes with the sign bit set.
func genKey() *rapid.Generator[[]byte] {
	return rapid.Custom(func(t *rapid.T) []byte {
		var k []byte
		switch rapid.IntRange(0, 3).Draw(t, "keyclass") {
		case 0:
			k = rapid.SliceOfN(genByte(), 0, 8).Draw(t, "key")
		case 1:
			k = rapid.SliceOfN(genByte(), 0, 70).Draw(t, "key")
		case 2:
			k = []byte(rapid.StringMatching(`[a-z0-9\-]{0,40}`).Draw(t, "key"))
		default:
			k = rapid.SliceOfN(rapid.Byte(), 0, 20).Draw(t, "key")
		}
		if k == nil {
			k = []byte{}
		}
		return k
	})
}

func stdFnv32a(b []byte) uint32 {
	h := fnv.New32a()
	h.Reset()
	h.Write(b)
	return h.Sum32()
}

type hashFn struct {
	name string
	fn   func([]byte) uint32
}

func genHashFn() *rapid.Generator[hashFn] {
	return rapid.Custom(func(t *rapid.T) hashFn {
		switch rapid.IntRange(0, 4).Draw(t, "hashkind") {
		case 0:
			return hashFn{"fnv32a", stdFnv32a}
		case 1:
			return hashFn{"crc32", crc32.ChecksumIEEE}
		case 2:
			return hashFn{"murmur2ref", func(b []byte) uint32 { return uint32(javaMurmur2(b)) }}
		case 3:
			v := rapid.SampledFrom([]uint32{0, 1, 0x7fffffff, 0x80000000, 0x80000001, 0xfffffffe, 0xffffffff, 0x80002710, 0xffffd8f0}).Draw(t, "consthash")
			return hashFn{"const:" + strconv.FormatUint(uint64(v), 16), func([]byte) uint32 { return v }}
		default:
			v := rapid.Uint32().Draw(t, "consthash")
			return hashFn{"const:" + strconv.FormatUint(uint64(v), 16), func([]byte) uint32 { return v }}
		}
	})
}

// fakeIter is a TopicBackupIter shaped like the client's own (indices from n-1 down to 0).
type fakeIter struct {
	rem    int
	backup func(int) int64
	calls  int
	over   bool
}

func (f *fakeIter) Next() (int, int64) {
	if f.rem == 0 {
		f.over = true // the real iterator would panic; recorded and reported instead
		return 0, 0
	}
	f.rem--
	f.calls++
	return f.rem, f.backup(f.rem)
}
func (f *fakeIter) Rem() int { return f.rem }

// pick asks tp for a partition the way Client.doPartition does: PartitionByBackup when the
// partitioner implements TopicBackupPartitioner, Partition otherwise.
func pick(t *rapid.T, tp kgo.TopicPartitioner, r *kgo.Record, n int, backup func(int) int64) int {
	if bp, ok := tp.(kgo.TopicBackupPartitioner); ok {
		it := &fakeIter{rem: n, backup: backup}
		p := bp.PartitionByBackup(r, n, it)
		if it.over {
			t.Fatalf("PartitionByBackup(n=%d) called the backup iterator's Next more than n times", n)
		}
		return p
	}
	return tp.Partition(r, n)
}

func zeroBackup(int) int64 { return 0 }

// ---------------------------------------------------------------------------------
// reference self-test (infrastructure, not the property)

// Kafka's own UtilsTest.testMurmur2 vectors.
var murmurVectors = []struct {
	in   string
	want int32
}{
	{"21", -973932308},
	{"foobar", -790332482},
	{"a-little-bit-long-string", -985981536},
	{"a-little-bit-longer-string", -1486304829},
	{"lkjh234lh9fiuh90y23oiuhsafujhadof229phr9h19h89h8", -58897971},
	{"abc", 479470107},
}

func TestMurmurVectors(t *testing.T) {
	for _, v := range murmurVectors {
		if got := javaMurmur2([]byte(v.in)); got != v.want {
			fmt.Printf("VERIF-INFRA: reference murmur2(%q)=%d, Kafka's UtilsTest says %d\n", v.in, got, v.want)
			t.Fatalf("VERIF-INFRA: reference murmur2 is wrong")
		}
	}
	if refFnv1a32([]byte("a")) != 0xe40c292c || refFnv1a32(nil) != 0x811c9dc5 {
		fmt.Println("VERIF-INFRA: reference fnv1a is wrong")
		t.Fatalf("VERIF-INFRA: reference fnv1a is wrong")
	}
	// With n = 2^31-1 (a valid Java int partition count) the chosen partition reveals the
	// masked hash itself, so the golden vectors are compared without going through ref.go.
	const n = 1<<31 - 1
	for _, v := range murmurVectors {
		want := int(v.want&0x7fffffff) % n
		tp := kgo.StickyKeyPartitioner(nil).ForTopic("t")
		got := tp.Partition(&kgo.Record{Key: []byte(v.in)}, n)
		ev.Case("vector:"+v.in, true)
		if got != want {
			msg := fmt.Sprintf("StickyKeyPartitioner(nil) key %q n=%d -> %d, the Java client picks %d", v.in, n, got, want)
			ev.Replay("c28-murmur-vector.txt", msg)
			t.Fatalf("%s", msg)
		}
	}
	ev.Class("golden_vectors")
}

// ---------------------------------------------------------------------------------
// stateless hashers

func TestHashers(t *testing.T) {
	is64 := strconv.IntSize == 64
	rapid.Check(t, func(t *rapid.T) {
		key := genKey().Draw(t, "key")
		n := genN().Draw(t, "n")
		hf := genHashFn().Draw(t, "hash")
		topic := rapid.SampledFrom([]string{"t", "topic-b", ""}).Draw(t, "topic")
		th := rapid.SampledFrom([]int{0, 1, 64, 1 << 20}).Draw(t, "uniformBytes")
		adaptive := rapid.Bool().Draw(t, "adaptive")
		rec := &kgo.Record{Key: key, Topic: topic, Value: []byte("v")}
		inRange := func(what string, p int) {
			if p < 0 || p >= n {
				t.Fatalf("%s key=%x n=%d -> %d, outside [0,%d)", what, key, n, p, n)
			}
		}

		// 1. default hasher == Java client
		wantK := refKafkaPartition(key, n)
		def := kgo.StickyKeyPartitioner(nil).ForTopic(topic)
		gotK := pick(t, def, rec, n, zeroBackup)
		inRange("StickyKeyPartitioner(nil)", gotK)
		if gotK != wantK {
			t.Fatalf("StickyKeyPartitioner(nil) key=%x n=%d -> %d; Java: toPositive(murmur2(key))%%n = %d (murmur2=%d)", key, n, gotK, wantK, javaMurmur2(key))
		}
		if !def.RequiresConsistency(rec) {
			t.Fatalf("StickyKeyPartitioner(nil).RequiresConsistency is false for a record with a non-nil key (len %d): equal keys could be mapped over different partition sets", len(key))
		}
		ub := kgo.UniformBytesPartitioner(th, adaptive, true, nil).ForTopic(topic)
		gotU := pick(t, ub, rec, n, zeroBackup)
		inRange("UniformBytesPartitioner(keys=true,nil hasher)", gotU)
		if gotU != wantK {
			t.Fatalf("UniformBytesPartitioner(%d,%v,keys=true,nil) key=%x n=%d -> %d; Java default hashing gives %d", th, adaptive, key, n, gotU, wantK)
		}
		if !ub.RequiresConsistency(rec) {
			t.Fatalf("UniformBytesPartitioner(keys=true).RequiresConsistency is false for a record with a non-nil key")
		}

		// 2. KafkaHasher over any hash function: int32 reading, sign bit masked, % n
		h := hf.fn(key)
		if got, want := kgo.KafkaHasher(hf.fn)(key, n), refKafkaFromHash(h, n); got != want {
			t.Fatalf("KafkaHasher(%s) key=%x hash=%#x n=%d -> %d, want (hash&0x7fffffff)%%n = %d", hf.name, key, h, n, got, want)
		}
		viaPart := pick(t, kgo.StickyKeyPartitioner(kgo.KafkaHasher(hf.fn)).ForTopic(topic), rec, n, zeroBackup)
		if want := refKafkaFromHash(h, n); viaPart != want {
			t.Fatalf("StickyKeyPartitioner(KafkaHasher(%s)) key=%x hash=%#x n=%d -> %d, want %d", hf.name, key, h, n, viaPart, want)
		}

		// 3. SaramaCompatHasher: Sarama's signed arithmetic
		gotS := kgo.SaramaCompatHasher(hf.fn)(key, n)
		inRange("SaramaCompatHasher("+hf.name+")", gotS)
		if want := refSaramaFromHash(h, n); gotS != want {
			t.Fatalf("SaramaCompatHasher(%s) key=%x hash=%#x n=%d -> %d, Sarama (int32(hash)%%n, negated if negative) gives %d", hf.name, key, h, n, gotS, want)
		}
		gotSF := pick(t, kgo.StickyKeyPartitioner(kgo.SaramaCompatHasher(stdFnv32a)).ForTopic(topic), rec, n, zeroBackup)
		inRange("StickyKeyPartitioner(SaramaCompatHasher(fnv32a))", gotSF)
		if want := refSaramaFromHash(refFnv1a32(key), n); gotSF != want {
			t.Fatalf("StickyKeyPartitioner(SaramaCompatHasher(fnv32a)) key=%x n=%d -> %d, Sarama's default partitioner gives %d (fnv1a=%#x)", key, n, gotSF, want, refFnv1a32(key))
		}

		// 4. SaramaHasher: documented for 64-bit platforms as the unsigned modulo
		if is64 {
			gotSH := kgo.SaramaHasher(hf.fn)(key, n)
			inRange("SaramaHasher("+hf.name+")", gotSH)
			if want := refUnsignedMod(h, n); gotSH != want {
				t.Fatalf("SaramaHasher(%s) key=%x hash=%#x n=%d -> %d, documented (64-bit) unsigned modulo gives %d", hf.name, key, h, n, gotSH, want)
			}
		}

		// 5. equal keys => equal partition at equal n (another instance, another topic, a copy of the key)
		key2 := append([]byte{}, key...)
		rec2 := &kgo.Record{Key: key2, Topic: topic + "x", Value: []byte("other value")}
		other := kgo.StickyKeyPartitioner(nil).ForTopic(topic + "x")
		_ = pick(t, other, &kgo.Record{Key: []byte("warm-up"), Topic: topic + "x"}, n, zeroBackup)
		if tb, ok := other.(kgo.TopicPartitionerOnNewBatch); ok {
			tb.OnNewBatch()
		}
		if again := pick(t, other, rec2, n, zeroBackup); again != gotK {
			t.Fatalf("equal keys %x at n=%d went to partitions %d and %d", key, n, gotK, again)
		}
		if again := pick(t, def, rec2, n, zeroBackup); again != gotK {
			t.Fatalf("equal keys %x at n=%d went to partitions %d and %d on the same topic partitioner", key, n, gotK, again)
		}

		ev.Case(fmt.Sprintf("hash:%s:%x:%d", hf.name, key, n), len(key) >= 1 && n >= 2)
		ev.Class(fmt.Sprintf("keylen_mod4_%d", len(key)%4))
		if len(key) == 0 {
			ev.Class("key_empty")
		}
		if len(key) >= 5 && len(key)%4 != 0 {
			ev.Class("key_loop_and_tail")
		}
		if n == 1 {
			ev.Class("n_1")
		} else if n >= 1000 {
			ev.Class("n_ge_1000")
		}
		if h&0x80000000 != 0 {
			ev.Class("generic_hash_sign_bit_set")
		}
		if javaMurmur2(key) < 0 {
			ev.Class("murmur2_negative")
		}
		ev.SampleIf(func() any {
			return map[string]any{"key_hex": fmt.Sprintf("%x", key), "n": n, "java_murmur2": javaMurmur2(key), "default_partition": gotK, "generic_hash": hf.name, "sarama_compat_partition": gotS}
		})
	})
}

// ---------------------------------------------------------------------------------
// stateful partitioners under n / OnNewBatch / backup sequences

type pkind int

const (
	kSticky pkind = iota
	kStickyKey
	kRoundRobin
	kLeastBackup
	kUniform
	kManual
	kBasic
	nKinds
)

var kindNames = [...]string{"sticky", "stickykey", "roundrobin", "leastbackup", "uniformbytes", "manual", "basicconsistent"}

// inst is one TopicPartitioner (one topic) with the oracle's view of it.
type inst struct {
	tp      kgo.TopicPartitioner
	topic   string
	n       int
	hasPrev bool // an unkeyed pick was made before
	prev    int
	prevN   int
	newB    bool // OnNewBatch since prev
	upper   int64
	seenKey map[string]int // key+"/"+n -> partition
}

type setup struct {
	kind      pkind
	desc      string
	keyed     func(*kgo.Record) bool      // record is placed by key hashing
	hashRef   func(key []byte, n int) int // expected placement of a keyed record
	threshold int                         // uniform bytes
	basicRet  *int                        // value the BasicConsistent function returns next
	basicGot  *[]basicCall
	basicTop  *[]string
}

type basicCall struct {
	r *kgo.Record
	n int
}

func upperSize(r *kgo.Record) int64 {
	s := int64(len(r.Key) + len(r.Value))
	for _, h := range r.Headers {
		s += int64(len(h.Key)+len(h.Value)) + 16
	}
	return 64 + 2*s
}

func TestStateful(t *testing.T) {
	is64 := strconv.IntSize == 64
	rapid.Check(t, func(t *rapid.T) {
		var su setup
		var p kgo.Partitioner
		su.kind = pkind(rapid.IntRange(0, int(nKinds)-1).Draw(t, "kind"))
		su.keyed = func(*kgo.Record) bool { return false }
		switch su.kind {
		case kSticky:
			p = kgo.StickyPartitioner()
			su.desc = "StickyPartitioner()"
		case kStickyKey:
			su.keyed = func(r *kgo.Record) bool { return r.Key != nil }
			hk := rapid.IntRange(0, 3).Draw(t, "hasher")
			if hk == 3 && !is64 {
				hk = 0
			}
			switch hk {
			case 0:
				p, su.hashRef, su.desc = kgo.StickyKeyPartitioner(nil), refKafkaPartition, "StickyKeyPartitioner(nil)"
			case 1:
				p = kgo.StickyKeyPartitioner(kgo.KafkaHasher(crc32.ChecksumIEEE))
				su.hashRef = func(k []byte, n int) int { return refKafkaFromHash(crc32.ChecksumIEEE(k), n) }
				su.desc = "StickyKeyPartitioner(KafkaHasher(crc32))"
			case 2:
				p = kgo.StickyKeyPartitioner(kgo.SaramaCompatHasher(stdFnv32a))
				su.hashRef = func(k []byte, n int) int { return refSaramaFromHash(refFnv1a32(k), n) }
				su.desc = "StickyKeyPartitioner(SaramaCompatHasher(fnv32a))"
			default:
				p = kgo.StickyKeyPartitioner(kgo.SaramaHasher(crc32.ChecksumIEEE))
				su.hashRef = func(k []byte, n int) int { return refUnsignedMod(crc32.ChecksumIEEE(k), n) }
				su.desc = "StickyKeyPartitioner(SaramaHasher(crc32))"
			}
		case kRoundRobin:
			p = kgo.RoundRobinPartitioner()
			su.desc = "RoundRobinPartitioner()"
		case kLeastBackup:
			p = kgo.LeastBackupPartitioner()
			su.desc = "LeastBackupPartitioner()"
		case kUniform:
			su.threshold = rapid.OneOf(rapid.SampledFrom([]int{0, 1, 16}), rapid.IntRange(2, 300), rapid.IntRange(300, 20000), rapid.SampledFrom([]int{1 << 20, 1 << 30}), rapid.SampledFrom([]int{1 << 16, 1 << 30})).Draw(t, "bytes")
			adaptive := rapid.Bool().Draw(t, "adaptive")
			keys := rapid.Bool().Draw(t, "keys")
			var hasher kgo.PartitionerHasher
			su.hashRef = refKafkaPartition
			hname := "nil"
			if rapid.Bool().Draw(t, "customhasher") {
				hasher = kgo.SaramaCompatHasher(stdFnv32a)
				su.hashRef = func(k []byte, n int) int { return refSaramaFromHash(refFnv1a32(k), n) }
				hname = "SaramaCompatHasher(fnv32a)"
			}
			if keys {
				su.keyed = func(r *kgo.Record) bool { return r.Key != nil }
			}
			p = kgo.UniformBytesPartitioner(su.threshold, adaptive, keys, hasher)
			su.desc = fmt.Sprintf("UniformBytesPartitioner(%d,adaptive=%v,keys=%v,%s)", su.threshold, adaptive, keys, hname)
		case kManual:
			p = kgo.ManualPartitioner()
			su.desc = "ManualPartitioner()"
		case kBasic:
			ret, got, tops := new(int), new([]basicCall), new([]string)
			su.basicRet, su.basicGot, su.basicTop = ret, got, tops
			p = kgo.BasicConsistentPartitioner(func(topic string) func(*kgo.Record, int) int {
				*tops = append(*tops, topic)
				return func(r *kgo.Record, n int) int {
					*got = append(*got, basicCall{r, n})
					return *ret
				}
			})
			su.desc = "BasicConsistentPartitioner(fn)"
		}

		ninst := rapid.IntRange(1, 2).Draw(t, "topics")
		insts := make([]*inst, ninst)
		for i := range insts {
			topic := fmt.Sprintf("topic-%d", i)
			insts[i] = &inst{tp: p.ForTopic(topic), topic: topic, n: genN().Draw(t, "n0"), seenKey: map[string]int{}}
			if insts[i].tp == nil {
				t.Fatalf("%s.ForTopic returned nil", su.desc)
			}
		}
		if su.kind == kBasic {
			if len(*su.basicTop) != ninst || (*su.basicTop)[0] != "topic-0" || (*su.basicTop)[ninst-1] != fmt.Sprintf("topic-%d", ninst-1) {
				t.Fatalf("BasicConsistentPartitioner: ForTopic passed topics %v to the function, want one call per ForTopic with its topic", *su.basicTop)
			}
		}

		keyPool := [][]byte{genKey().Draw(t, "poolkey"), genKey().Draw(t, "poolkey"), {}}
		steps := rapid.IntRange(1, 40).Draw(t, "steps")
		var trace strings.Builder
		parts, nChanges, newBatches, invalidated, repickTies := 0, 0, 0, 0, 0

		for s := 0; s < steps; s++ {
			in := insts[0]
			if ninst == 2 {
				in = insts[rapid.IntRange(0, 1).Draw(t, "topic")]
			}
			if onb, ok := in.tp.(kgo.TopicPartitionerOnNewBatch); ok && rapid.IntRange(0, 4).Draw(t, "op") == 0 {
				onb.OnNewBatch()
				in.newB = true
				newBatches++
				trace.WriteString("B,")
				continue
			}

			// next n for this topic
			oldN := in.n
			switch rapid.IntRange(0, 9).Draw(t, "nstep") {
			case 0, 1, 2, 3:
			case 4, 5:
				if in.hasPrev && in.prev >= 1 { // shrink to at or below the pinned index
					hi := in.prev
					if hi > in.n {
						hi = in.n
					}
					in.n = rapid.IntRange(1, hi).Draw(t, "nshrinkpin")
				} else {
					in.n = rapid.IntRange(1, in.n).Draw(t, "nshrink")
				}
			case 6:
				in.n = rapid.IntRange(1, in.n).Draw(t, "nshrink")
			case 7:
				in.n = rapid.IntRange(in.n, 10000).Draw(t, "ngrow")
			case 8:
				if in.n < 10000 {
					in.n++
				}
			default:
				in.n = genN().Draw(t, "nfresh")
			}
			n := in.n
			if n != oldN {
				nChanges++
			}

			// record
			r := &kgo.Record{Topic: in.topic}
			switch rapid.IntRange(0, 5).Draw(t, "keykind") {
			case 0, 1, 2:
			case 3:
				r.Key = keyPool[rapid.IntRange(0, len(keyPool)-1).Draw(t, "pool")]
			default:
				r.Key = genKey().Draw(t, "key")
			}
			if rapid.IntRange(0, 5).Draw(t, "bigvalue") == 0 {
				r.Value = make([]byte, rapid.IntRange(0, 400).Draw(t, "valuelen"))
			} else {
				r.Value = make([]byte, rapid.IntRange(0, 30).Draw(t, "valuelen"))
			}
			if rapid.IntRange(0, 4).Draw(t, "headers") == 0 {
				r.Headers = []kgo.RecordHeader{{Key: "h", Value: make([]byte, rapid.IntRange(0, 20).Draw(t, "hlen"))}}
			}

			// backups: a cheap pure function of a few drawn numbers
			vals := rapid.SliceOfN(rapid.OneOf(rapid.Int64Range(0, 3), rapid.Int64Range(0, 1<<40)), 1, 4).Draw(t, "backupvals")
			a, b := rapid.IntRange(0, 7).Draw(t, "ba"), rapid.IntRange(0, 7).Draw(t, "bb")
			over := map[int]int64{}
			for i, no := 0, rapid.IntRange(0, 2).Draw(t, "noverrides"); i < no; i++ {
				over[rapid.IntRange(0, n-1).Draw(t, "oidx")] = rapid.Int64Range(0, 5).Draw(t, "oval")
			}
			backup := func(i int) int64 {
				if v, ok := over[i]; ok {
					return v
				}
				return vals[(i*a+b)%len(vals)]
			}

			if su.kind == kManual {
				r.Partition = rapid.OneOf(rapid.Int32Range(-3, int32(n)+3), rapid.Int32()).Draw(t, "recpartition")
			}
			if su.kind == kBasic {
				*su.basicRet = rapid.OneOf(rapid.IntRange(-2, n+2), rapid.Int()).Draw(t, "fnret")
				*su.basicGot = (*su.basicGot)[:0]
			}

			got := pick(t, in.tp, r, n, backup)
			parts++
			keyed := su.keyed(r)
			fmt.Fprintf(&trace, "%s:n%d:k%d,", in.topic[6:], n, func() int {
				if r.Key == nil {
					return -1
				}
				return len(r.Key)
			}())
			ctx := func() string {
				return fmt.Sprintf("%s topic=%s step %d (trace %s) n=%d key=%x(nil=%v)", su.desc, in.topic, s, trace.String(), n, r.Key, r.Key == nil)
			}

			switch su.kind {
			case kManual:
				if got != int(r.Partition) {
					t.Fatalf("%s: Record.Partition=%d but partitioner returned %d", ctx(), r.Partition, got)
				}
				if !in.tp.RequiresConsistency(r) {
					t.Fatalf("%s: ManualPartitioner does not require consistency, so the index would be taken over writable partitions only", ctx())
				}
				continue
			case kBasic:
				if got != *su.basicRet {
					t.Fatalf("%s: user function returned %d, partitioner returned %d", ctx(), *su.basicRet, got)
				}
				if c := *su.basicGot; len(c) != 1 || c[0].r != r || c[0].n != n {
					t.Fatalf("%s: user function calls %v, want exactly one with the record and n=%d", ctx(), c, n)
				}
				if !in.tp.RequiresConsistency(r) {
					t.Fatalf("%s: BasicConsistentPartitioner does not require consistency", ctx())
				}
				continue
			}

			// every other built-in: the index is valid
			if got < 0 || got >= n {
				t.Fatalf("%s: returned %d, outside [0,%d) (previous pick %d at n=%d, newBatchSince=%v)", ctx(), got, n, in.prev, in.prevN, in.newB)
			}

			if keyed {
				if want := su.hashRef(r.Key, n); got != want {
					t.Fatalf("%s: keyed record placed at %d, reference hashing gives %d", ctx(), got, want)
				}
				if !in.tp.RequiresConsistency(r) {
					t.Fatalf("%s: RequiresConsistency is false for a keyed record", ctx())
				}
				id := string(r.Key) + "/" + strconv.Itoa(n)
				if was, ok := in.seenKey[id]; ok && was != got {
					t.Fatalf("%s: equal keys at equal n went to %d earlier and %d now", ctx(), was, got)
				}
				in.seenKey[id] = got
				continue // keyed records do not touch the pin
			}

			pinnedValid := in.hasPrev && !in.newB && in.prev < n
			if in.hasPrev && in.prev >= n {
				invalidated++
			}
			switch su.kind {
			case kSticky, kStickyKey:
				// "pins a partition ... Only when rolling to new batches does this partitioner switch"
				if pinnedValid && got != in.prev {
					t.Fatalf("%s: switched from pinned partition %d to %d without a new batch while %d < n", ctx(), in.prev, got, in.prev)
				}
			case kRoundRobin:
				if in.hasPrev && n == in.prevN && got != (in.prev+1)%n {
					t.Fatalf("%s: round robin went from %d to %d at constant n", ctx(), in.prev, got)
				}
			case kLeastBackup:
				if pinnedValid {
					if got != in.prev {
						t.Fatalf("%s: switched from pinned partition %d to %d without a new batch", ctx(), in.prev, got)
					}
				} else {
					least, cnt := backup(0), 0
					for i := 0; i < n; i++ {
						if v := backup(i); v < least {
							least = v
						}
					}
					for i := 0; i < n; i++ {
						if backup(i) == least {
							cnt++
						}
					}
					if cnt > 1 {
						repickTies++
					}
					if backup(got) != least {
						t.Fatalf("%s: new pick %d has %d buffered records, the least backed up partition has %d", ctx(), got, backup(got), least)
					}
				}
			case kUniform:
				in.upper += upperSize(r)
				if pinnedValid && in.upper < int64(su.threshold) && got != in.prev {
					t.Fatalf("%s: switched from %d to %d although at most %d bytes were produced, below the threshold %d", ctx(), in.prev, got, in.upper, su.threshold)
				}
			}
			in.hasPrev, in.prev, in.prevN, in.newB = true, got, n, false
		}

		nt := parts >= 3 && (nChanges > 0 || newBatches > 0)
		ev.Case(kindNames[su.kind]+"|"+su.desc+"|"+trace.String(), nt)
		ev.Class("kind_" + kindNames[su.kind])
		if invalidated > 0 {
			ev.Class("pin_invalidated_by_shrink")
		}
		if newBatches > 0 {
			ev.Class("has_new_batch")
		}
		if repickTies > 0 {
			ev.Class("leastbackup_repick_with_ties")
		}
		if ninst == 2 {
			ev.Class("two_topics")
		}
		if su.kind == kUniform {
			switch {
			case su.threshold <= 300:
				ev.Class("uniform_threshold_small")
			case su.threshold <= 20000:
				ev.Class("uniform_threshold_mid")
			default:
				ev.Class("uniform_threshold_huge")
			}
		}
		if nt {
			ev.SampleIf(func() any {
				return map[string]any{"partitioner": su.desc, "trace": trace.String(), "partition_calls": parts, "n_changes": nChanges, "new_batches": newBatches, "pins_invalidated_by_shrink": invalidated}
			})
		}
	})
}
