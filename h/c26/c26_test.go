// Package c26 checks property C26: sticky balancing is optimal and keeps balanced
// assignments. Both sticky balancers are driven through the public
// kgo.GroupBalancer API (verif/h/balsim); for cooperative-sticky the optimality
// oracle is applied to the plan the group settles on (rounds simulated with the
// real balancer until no member has to revoke).
package c26

import (
	"encoding/json"
	"fmt"
	"os"
	"slices"
	"strings"
	"testing"

	"pgregory.net/rapid"

	bs "verif/h/balsim"
	"verif/h/ev"
)

func TestMain(m *testing.M) { ev.Main(m, "C26") }

const maxRounds = 8

func fail(t bs.TB, kind int, what string, in bs.Input, plan bs.Plan, detail string) {
	t.Helper()
	msg := fmt.Sprintf("C26 %s %s: %s\ninput: %s\nplan:  %s", bs.Names[kind], what, detail, in, plan)
	ev.Replay("c26-witness.json", bs.Witness{Check: "C26", Balancer: bs.Names[kind], What: what, Input: in, Plan: plan, Text: msg})
	t.Fatalf("%s", msg)
}

// finalPlan returns the plan the group ends up with: the balancer's plan for the
// eager sticky balancer, the settled plan for cooperative-sticky. ok=false means
// the precondition of the optimality oracle does not hold (the plan is not a
// valid complete assignment, which is property C25's subject, or the cooperative
// group did not settle within maxRounds, which is C27's subject); both are
// counted in the evidence.
func finalPlan(t bs.TB, kind int, in bs.Input) (bs.Plan, bool) {
	if kind == bs.Sticky {
		plan, err := bs.Run(bs.Balancer(kind), in)
		if err != nil {
			if _, infra := err.(*bs.InfraError); infra {
				t.Fatalf("%v", err)
			}
			// no plan at all (error, panic or a call that never returns) is not an optimal plan
			fail(t, kind, "no plan produced", in, nil, err.Error())
			return nil, false
		}
		if _, err := bs.CheckValid(in, plan, false); err != nil {
			ev.Class("skipped_invalid_plan_is_C25")
			return nil, false
		}
		return plan, true
	}
	members := bs.CloneMembers(in.Members)
	rounds, stable, err := bs.Settle(bs.Balancer(kind), members, in.Counts, maxRounds)
	if err != nil {
		if _, infra := err.(*bs.InfraError); infra {
			t.Fatalf("%v", err)
		}
		fail(t, kind, "no plan produced", in, nil, err.Error())
		return nil, false
	}
	if !stable {
		ev.Class("skipped_cooperative_not_settled_is_C27")
		return nil, false
	}
	ev.Class(fmt.Sprintf("cooperative_settled_after_%d_rounds", len(rounds)))
	plan := rounds[len(rounds)-1].Plan
	if _, err := bs.CheckValid(in, plan, false); err != nil {
		ev.Class("skipped_invalid_plan_is_C25")
		return nil, false
	}
	return plan, true
}

func sharedTopic(in bs.Input) bool {
	for t, n := range in.Counts {
		if n == 0 {
			continue
		}
		c := 0
		for _, m := range in.Members {
			if slices.Contains(m.Topics, t) {
				c++
			}
		}
		if c >= 2 {
			return true
		}
	}
	return false
}

func assignable(in bs.Input) int {
	sub := map[string]bool{}
	for _, m := range in.Members {
		for _, t := range m.Topics {
			sub[t] = true
		}
	}
	n := 0
	for t := range sub {
		n += int(in.Counts[t])
	}
	return n
}

func nontrivial(in bs.Input) bool {
	return len(in.Members) >= 2 && assignable(in) >= 2 && sharedTopic(in)
}

func optimalOne(t bs.TB, kind int, in bs.Input, digest string) {
	plan, ok := finalPlan(t, kind, in)
	if !ok {
		return
	}
	if chain := bs.AugmentingChain(in, plan); chain != "" {
		fail(t, kind, "not optimally balanced", in, plan, "augmenting chain: "+chain)
	}
	s := bs.Describe(in)
	if s.Uneven {
		ev.Class("optimal_uneven_subscriptions")
	}
	if s.StaleConflict || s.EqualConflict {
		ev.Class("optimal_conflicting_claims")
	}
	if s.HasPrior {
		ev.Class("optimal_with_prior")
	}
	ev.Class("optimal_" + bs.Names[kind])
	ev.Case("opt|"+bs.Names[kind]+"|"+digest, nontrivial(in))
}

// stableOne feeds a valid, optimally balanced assignment back as every member's
// current assignment (one generation for all, subscriptions unchanged) and
// requires the identical plan.
func stableOne(t bs.TB, kind int, base bs.Input, current bs.Plan, digest string) {
	in := bs.Input{Members: bs.CloneMembers(base.Members), Counts: base.Counts}
	for i := range in.Members {
		m := &in.Members[i]
		m.Gen = 3
		m.Owned = map[string][]int32{}
		for tn, ps := range current[m.ID] {
			if len(ps) > 0 {
				c := slices.Clone(ps)
				slices.Sort(c)
				m.Owned[tn] = c
			}
		}
	}
	plan, err := bs.Run(bs.Balancer(kind), in)
	if err != nil {
		if _, infra := err.(*bs.InfraError); infra {
			t.Fatalf("%v", err)
		}
		fail(t, kind, "balanced assignment not kept", in, plan, err.Error())
	}
	if d := bs.SamePlan(in, current, plan); d != "" {
		fail(t, kind, "balanced assignment not kept", in, plan, "current assignment is valid and optimally balanced, but the plan differs: (current vs plan) "+d)
	}
	if bs.Describe(in).Uneven {
		ev.Class("stable_uneven_subscriptions")
	}
	ev.Class("stable_" + bs.Names[kind])
	ev.Case("stable|"+bs.Names[kind]+"|"+digest, nontrivial(in))
}

// stableStaleOne is stableOne with members that missed a rebalance: a stale member presents
// its claim at an older generation and additionally still claims partitions that have since
// moved to other members (who claim them at the current generation). The current assignment
// is what the highest-generation claims say, i.e. still `current`: valid and optimally
// balanced, so the plan must leave every partition where it is (re-sticking a stale claim is
// only ever justified by an imbalance, and there is none).
func stableStaleOne(t bs.TB, kind int, base bs.Input, current bs.Plan, stale map[string]map[string][]int32, digest string) {
	in := bs.Input{Members: bs.CloneMembers(base.Members), Counts: base.Counts}
	nstale := 0
	for i := range in.Members {
		m := &in.Members[i]
		m.Gen = 3
		m.Owned = map[string][]int32{}
		for tn, ps := range current[m.ID] {
			if len(ps) > 0 {
				m.Owned[tn] = slices.Clone(ps)
			}
		}
		if extra, ok := stale[m.ID]; ok {
			m.Gen = 2
			for tn, ps := range extra {
				m.Owned[tn] = append(m.Owned[tn], ps...)
				nstale += len(ps)
			}
		}
		for tn := range m.Owned {
			slices.Sort(m.Owned[tn])
		}
	}
	plan, err := bs.Run(bs.Balancer(kind), in)
	if err != nil {
		if _, infra := err.(*bs.InfraError); infra {
			t.Fatalf("%v", err)
		}
		fail(t, kind, "balanced assignment not kept (stale claims present)", in, plan, err.Error())
	}
	if d := bs.SamePlan(in, current, plan); d != "" {
		fail(t, kind, "balanced assignment not kept (stale claims present)", in, plan, "the highest-generation claims form a valid and optimally balanced assignment, but the plan differs: (current vs plan) "+d)
	}
	ev.Class("stable_with_stale_claims_" + bs.Names[kind])
	ev.Case("stale|"+bs.Names[kind]+"|"+digest, nstale > 0)
}

var kinds = []int{bs.Sticky, bs.CoopSticky}

// TestOptimalSmallExhaustive: the whole small space x the bounded family of
// prior-ownership patterns.
func TestOptimalSmallExhaustive(t *testing.T) {
	sh, nsh := ev.Shard()
	idx := 0
	bs.EachSmall(func(c bs.SmallCfg) {
		idx++
		if idx%nsh != sh {
			return
		}
		for k := 0; k < bs.NumOwnPatterns; k++ {
			in := c.Input()
			bs.ApplyOwnPattern(&in, k)
			for _, kind := range kinds {
				optimalOne(t, kind, in, fmt.Sprintf("%s own%d", c.Key(), k))
			}
		}
	})
	ev.Exhaustive(true)
}

// TestStableSmallExhaustive: for every small configuration, every complete valid
// assignment (each partition to one of its subscribers) that is optimally
// balanced by the oracle is fed back as the current assignment.
func TestStableSmallExhaustive(t *testing.T) {
	sh, nsh := ev.Shard()
	idx := 0
	sampled := false
	bs.EachSmall(func(c bs.SmallCfg) {
		idx++
		if idx%nsh != sh {
			return
		}
		in := c.Input()
		var ts []string
		var ps []int32
		var subs [][]int
		ats, aps := bs.SmallParts(in)
		for x := range ats {
			var s []int
			for i, m := range in.Members {
				if slices.Contains(m.Topics, ats[x]) {
					s = append(s, i)
				}
			}
			if len(s) == 0 {
				continue // nobody subscribes: stays unassigned in every valid assignment
			}
			ts, ps, subs = append(ts, ats[x]), append(ps, aps[x]), append(subs, s)
		}
		choice := make([]int, len(ts))
		for {
			cur := bs.Plan{}
			for _, m := range in.Members {
				cur[m.ID] = map[string][]int32{}
			}
			for x := range ts {
				id := in.Members[subs[x][choice[x]]].ID
				cur[id][ts[x]] = append(cur[id][ts[x]], ps[x])
			}
			if bs.FindChain(in, cur) == nil {
				for _, kind := range kinds {
					stableOne(t, kind, in, cur, fmt.Sprintf("%s asg%v", c.Key(), choice))
				}
				if !sampled && c.N == 3 && len(ts) == 5 && c.Subs == [3]int{3, 1, 3} {
					sampled = true
					ev.Sample(map[string]any{"kind": "stability, small space", "input": in.String(), "current_and_required_plan": cur.String()})
				}
			} else {
				ev.Class("stable_small_candidate_not_optimal_skipped")
			}
			x := 0
			for ; x < len(choice); x++ {
				choice[x]++
				if choice[x] < len(subs[x]) {
					break
				}
				choice[x] = 0
			}
			if x == len(choice) {
				break
			}
		}
	})
	ev.Exhaustive(true)
}

func genOpts() bs.GenOpts {
	if ev.Thorough() {
		return bs.GenOpts{MaxMembers: 20, MaxTopics: 5, MaxParts: 12, Priors: true, Hostile: true}
	}
	return bs.GenOpts{MaxMembers: 12, MaxTopics: 5, MaxParts: 10, Priors: true, Hostile: true}
}

// TestOptimalRandom: arbitrary member sets, subscriptions and prior claims.
func TestOptimalRandom(t *testing.T) {
	n := 0
	rapid.Check(t, func(t *rapid.T) {
		in := bs.GenInput(t, genOpts())
		d := in.String()
		for _, kind := range kinds {
			optimalOne(t, kind, in, d)
		}
		n++
		if n%97 == 7 && bs.Describe(in).Uneven && nontrivial(in) && assignable(in) >= 6 {
			ev.SampleIf(func() any {
				p, _ := bs.Run(bs.Balancer(bs.Sticky), in)
				return map[string]any{"kind": "optimality, random", "balancer": "sticky", "input": d, "plan": p.String(), "loads": bs.Loads(in, p)}
			})
		}
	})
}

// TestStableRandom: a random complete assignment is made optimal by the harness
// (augmenting chains applied until none is left) or taken from the sticky
// balancer itself, then fed back.
func TestStableRandom(t *testing.T) {
	rapid.Check(t, func(t *rapid.T) {
		o := genOpts()
		o.Priors = false
		in := bs.GenInput(t, o)
		var cur bs.Plan
		src := rapid.IntRange(0, 3).Draw(t, "source")
		if src == 0 {
			p, ok := finalPlan(t, bs.Sticky, in)
			if !ok || bs.FindChain(in, p) != nil {
				ev.Class("stable_random_balancer_plan_unusable_skipped")
				return
			}
			cur = p
			ev.Class("stable_source_balancer_plan")
		} else {
			cur = bs.Plan{}
			for _, m := range in.Members {
				cur[m.ID] = map[string][]int32{}
			}
			names := make([]string, 0, len(in.Counts))
			for tn := range in.Counts {
				names = append(names, tn)
			}
			slices.Sort(names)
			for _, tn := range names {
				var s []int
				for i, m := range in.Members {
					if slices.Contains(m.Topics, tn) {
						s = append(s, i)
					}
				}
				if len(s) == 0 {
					continue
				}
				for p := int32(0); p < in.Counts[tn]; p++ {
					id := in.Members[s[rapid.IntRange(0, len(s)-1).Draw(t, "owner")]].ID
					cur[id][tn] = append(cur[id][tn], p)
				}
			}
			bs.Optimize(in, cur)
			ev.Class("stable_source_harness_optimized_random_assignment")
		}
		d := in.String() + " cur " + cur.String()
		for _, kind := range kinds {
			stableOne(t, kind, in, cur, d)
		}
		// members that missed the last rebalance: older generation, stale claims on partitions
		// that now belong to others
		owner := map[string]map[int32]string{}
		for id, ts := range cur {
			for tn, ps := range ts {
				if owner[tn] == nil {
					owner[tn] = map[int32]string{}
				}
				for _, p := range ps {
					owner[tn][p] = id
				}
			}
		}
		stale := map[string]map[string][]int32{}
		sd := ""
		isStale := map[string]bool{}
		for _, m := range in.Members {
			isStale[m.ID] = rapid.IntRange(0, 2).Draw(t, "stale?") == 0
		}
		for _, m := range in.Members {
			if !isStale[m.ID] {
				continue
			}
			extra := map[string][]int32{}
			for _, tn := range m.Topics {
				for p := int32(0); p < in.Counts[tn]; p++ {
					// only partitions whose owner claims them at the current generation: a claim
					// that ties with the owner's own generation would make "current" ambiguous
					if o, ok := owner[tn][p]; ok && !isStale[o] && rapid.IntRange(0, 3).Draw(t, "staleclaim") == 0 {
						extra[tn] = append(extra[tn], p)
					}
				}
			}
			stale[m.ID] = extra
			sd += fmt.Sprintf(" %s:%v", m.ID, extra)
		}
		if len(stale) > 0 && len(stale) < len(in.Members) {
			for _, kind := range kinds {
				stableStaleOne(t, kind, in, cur, stale, d+" stale"+sd)
			}
		}
	})
}

// TestReplay re-evaluates a witness (./check C26 --replay <c26-witness.json>).
func TestReplay(t *testing.T) {
	p := os.Getenv("VERIF_REPLAY")
	if p == "" || !strings.HasSuffix(p, ".json") {
		t.Skip("no JSON witness to replay")
	}
	raw, err := os.ReadFile(p)
	if err != nil {
		t.Fatalf("VERIF-INFRA: %v", err)
	}
	var w bs.Witness
	if err := json.Unmarshal(raw, &w); err != nil {
		t.Fatalf("VERIF-INFRA: %v", err)
	}
	kind := slices.Index(bs.Names, w.Balancer)
	if w.What == "balanced assignment not kept" {
		cur := bs.Plan{}
		for _, m := range w.Input.Members {
			cur[m.ID] = m.Owned
		}
		stableOne(t, kind, w.Input, cur, "replay")
		return
	}
	optimalOne(t, kind, w.Input, "replay")
}
