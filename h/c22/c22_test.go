//go:build synctests

// Package c22 checks property C22: each request issued through the client gets exactly one
// response or error, a response is delivered only to the request whose correlation id it
// carries, and malformed / truncated / oversized / mismatched replies, throttles and
// disconnects produce errors, never panics or waits beyond the configured timeouts.
//
// The broker is verif/h/scriptbroker: it records every request frame and every byte it
// sends. The oracle re-parses, per connection, the byte stream the broker sent (reference
// framing: int32 size, correlation id, optional tagged fields, body) and pairs the i-th
// complete reply frame with the i-th request frame written on that connection. A call may
// return success only with exactly the response that this reference pairing yields for one
// of its own frames; everything else must be an error. Time is virtual (synctest).
package c22

import (
	"bytes"
	"context"
	"encoding/binary"
	"encoding/hex"
	"encoding/json"
	"fmt"
	"sort"
	"strings"
	"sync"
	"testing"
	"time"

	"github.com/twmb/franz-go/pkg/kgo"
	"github.com/twmb/franz-go/pkg/kmsg"
	"pgregory.net/rapid"

	"verif/h/ev"
	sb "verif/h/scriptbroker"
)

func TestMain(m *testing.M) { ev.Main(m, "C22") }

// ---- plan ----

const (
	kindMetadata = iota
	kindDescribeGroups
	kindListOffsets
	kindCreateTopics
	kindApiVersions // a user-issued ApiVersions request: answered on the pipelined path, not by the connection handshake
	nKinds
)

const (
	pathBroker      = iota // Client.SeedBrokers()[0].Request
	pathBrokerRetry        // ... .RetriableRequest
	pathClient             // Client.Request (Metadata only: no routing needed)
)

type callPlan struct {
	Kind     int           `json:"kind"`
	Path     int           `json:"path"`
	Token    string        `json:"token"`
	StartAt  time.Duration `json:"start_at"`
	CancelAt time.Duration `json:"cancel_at"`  // <0: never
	Timeout  int32         `json:"timeout_ms"` // CreateTopics TimeoutMillis
}

const (
	actOK = iota
	actHold
	actReleaseInOrder
	actReleaseReversed
	actWrongCorr
	actTrunc
	actOversize
	actNegative
	actRandom
	actGarbageBody
	actClose
	actNone
	actDup
	nActs
)

var actNames = []string{"ok", "hold", "release_in_order", "release_reversed", "wrong_corr", "truncated", "oversize_len", "negative_len", "random_bytes", "garbage_body", "disconnect", "no_reply", "duplicate_reply"}

type action struct {
	Kind     int    `json:"kind"`
	Throttle int32  `json:"throttle_ms,omitempty"`
	Cut      int    `json:"cut,omitempty"` // permyriad of the reply length
	Hang     bool   `json:"hang,omitempty"`
	Delta    int32  `json:"delta,omitempty"`
	Size     int32  `json:"size,omitempty"`
	Bytes    []byte `json:"bytes,omitempty"`
	Then     bool   `json:"then_close,omitempty"`
}

type plan struct {
	Overhead  time.Duration `json:"request_timeout_overhead"`
	Retries   int           `json:"retries"`
	RetryTO   time.Duration `json:"retry_timeout"`
	Idle      time.Duration `json:"conn_idle_timeout"`
	MaxRead   int32         `json:"max_read_bytes"`
	Calls     []callPlan    `json:"calls"`
	Actions   []action      `json:"actions"`
	HostileHS int           `json:"hostile_handshake_nth"` // <0: never; else the n-th handshake gets Actions-like treatment
	// Stream mode (fuzz target): ignore Actions; once StreamAfter+1 user frames arrived on a
	// connection, send Stream verbatim (then disconnect if StreamClose).
	// Honest: every reply is correct (throttles allowed), nothing is cancelled, the idle
	// reaper is far away: every call must then succeed with its own response.
	Honest      bool   `json:"honest,omitempty"`
	Stream      []byte `json:"stream,omitempty"`
	StreamAfter int    `json:"stream_after,omitempty"`
	StreamClose bool   `json:"stream_close,omitempty"`
}

func genAction(t *rapid.T, maxRead int32) action {
	a := action{Kind: rapid.SampledFrom([]int{actOK, actOK, actOK, actOK, actHold, actHold, actReleaseInOrder, actReleaseReversed, actWrongCorr, actTrunc, actTrunc, actOversize, actNegative, actRandom, actGarbageBody, actGarbageBody, actClose, actNone, actDup}).Draw(t, "act")}
	switch a.Kind {
	case actOK:
		if rapid.IntRange(0, 3).Draw(t, "thr?") == 0 {
			a.Throttle = int32(rapid.SampledFrom([]int{-5, 1, 50, 400, 1500}).Draw(t, "throttle"))
		}
	case actWrongCorr:
		a.Delta = int32(rapid.SampledFrom([]int{1, -1, 2, 7, 1 << 20, -(1 << 30)}).Draw(t, "delta"))
	case actTrunc:
		a.Cut = rapid.IntRange(0, 9999).Draw(t, "cut")
		a.Hang = rapid.Bool().Draw(t, "hang")
	case actOversize:
		a.Size = maxRead + int32(rapid.SampledFrom([]int{1, 2, 1000, 1 << 20}).Draw(t, "over"))
		if rapid.IntRange(0, 3).Draw(t, "max") == 0 {
			a.Size = 0x7fffffff
		}
		if rapid.IntRange(0, 5).Draw(t, "http") == 0 {
			a.Size = 0x48545450
		}
	case actNegative:
		a.Size = -int32(rapid.SampledFrom([]int{1, 2, 1 << 16, 1 << 30}).Draw(t, "neg"))
		if rapid.IntRange(0, 3).Draw(t, "min") == 0 {
			a.Size = -1 << 31
		}
	case actRandom:
		a.Bytes, _ = sanitize(rapid.SliceOfN(rapid.Byte(), 0, 40).Draw(t, "bytes"))
		a.Then = rapid.Bool().Draw(t, "then_close")
	case actGarbageBody:
		a.Bytes, _ = sanitize(rapid.SliceOfN(rapid.Byte(), 0, 60).Draw(t, "body"))
	}
	return a
}

// sanitize clears the continuation bit of every second consecutive byte >= 0x80, so that no
// varint in hostile bytes exceeds 2^14. Reason (side finding, kmsg, outside C22):
// kmsg.ReadTags/SkipTags/internalReadTags iterate the DECLARED tag count (up to 2^32-1) even
// after the reader is exhausted, so a 100-byte reply with a 5-byte count burns 8s..minutes of
// CPU inside handleResp. Virtual time does not see that, but wall time of the check would.
func sanitize(b []byte) (out []byte, changed bool) {
	out = append([]byte(nil), b...)
	run := 0
	for i, x := range out {
		if x&0x80 != 0 {
			run++
			if run == 2 {
				out[i] &= 0x7f
				changed = true
				run = 0
			}
		} else {
			run = 0
		}
	}
	return out, changed
}

func genPlan(t *rapid.T) *plan {
	p := &plan{}
	p.Overhead = time.Duration(rapid.SampledFrom([]int{100, 250, 1000}).Draw(t, "overhead_ms")) * time.Millisecond
	p.Retries = rapid.IntRange(0, 3).Draw(t, "retries")
	p.RetryTO = time.Duration(rapid.SampledFrom([]int{200, 1000, 5000}).Draw(t, "retry_to_ms")) * time.Millisecond
	p.Idle = time.Duration(rapid.SampledFrom([]int{100, 1000, 20000}).Draw(t, "idle_ms")) * time.Millisecond
	p.MaxRead = int32(rapid.SampledFrom([]int{1 << 10, 4 << 10, 1 << 20}).Draw(t, "max_read"))
	k := rapid.IntRange(2, 10).Draw(t, "k")
	burst := rapid.IntRange(0, 2).Draw(t, "burst") // 0: all at t=0; else spread
	for i := 0; i < k; i++ {
		c := callPlan{Kind: rapid.IntRange(0, nKinds-1).Draw(t, "kind"), Token: fmt.Sprintf("tok-%d-%s", i, rapid.StringMatching(`[a-z]{1,6}`).Draw(t, "tok")), CancelAt: -1}
		c.Path = rapid.SampledFrom([]int{pathBroker, pathBroker, pathBrokerRetry, pathClient}).Draw(t, "path")
		if c.Path == pathClient {
			c.Kind = kindMetadata
		}
		if c.Kind == kindCreateTopics {
			c.Timeout = int32(rapid.SampledFrom([]int{0, 100, 700}).Draw(t, "timeout_ms"))
		}
		if burst != 0 {
			c.StartAt = time.Duration(rapid.IntRange(0, 300).Draw(t, "start_ms")) * time.Millisecond
		}
		if rapid.IntRange(0, 3).Draw(t, "cancel?") == 0 {
			c.CancelAt = time.Duration(rapid.SampledFrom([]int{0, 1, 50, 150, 600}).Draw(t, "cancel_ms")) * time.Millisecond
		}
		p.Calls = append(p.Calls, c)
	}
	n := k*(p.Retries+1) + 4
	for i := 0; i < n; i++ {
		p.Actions = append(p.Actions, genAction(t, p.MaxRead))
	}
	p.HostileHS = -1
	if rapid.IntRange(0, 5).Draw(t, "hostile_hs") == 0 {
		p.HostileHS = rapid.IntRange(0, 3).Draw(t, "hostile_hs_nth")
	}
	if rapid.IntRange(0, 5).Draw(t, "honest") == 0 {
		p.Honest = true
		p.HostileHS = -1
		p.Idle = 20 * time.Second
		for i := range p.Calls {
			p.Calls[i].CancelAt = -1
		}
		for i := range p.Actions {
			thr := p.Actions[i].Throttle
			if p.Actions[i].Kind != actOK {
				thr = 0
			}
			p.Actions[i] = action{Kind: actOK, Throttle: thr}
		}
	}
	return p
}

// ---- requests and tokens ----

func buildReq(c callPlan) kmsg.Request {
	switch c.Kind {
	case kindMetadata:
		r := kmsg.NewPtrMetadataRequest()
		rt := kmsg.NewMetadataRequestTopic()
		rt.Topic = kmsg.StringPtr(c.Token)
		r.Topics = append(r.Topics, rt)
		return r
	case kindDescribeGroups:
		r := kmsg.NewPtrDescribeGroupsRequest()
		r.Groups = []string{c.Token}
		return r
	case kindListOffsets:
		r := kmsg.NewPtrListOffsetsRequest()
		r.ReplicaID = -1
		rt := kmsg.NewListOffsetsRequestTopic()
		rt.Topic = c.Token
		rp := kmsg.NewListOffsetsRequestTopicPartition()
		rp.Timestamp = -1
		rt.Partitions = append(rt.Partitions, rp)
		r.Topics = append(r.Topics, rt)
		return r
	case kindApiVersions:
		r := kmsg.NewPtrApiVersionsRequest()
		r.ClientSoftwareName = c.Token
		r.ClientSoftwareVersion = "1.0"
		return r
	default:
		r := kmsg.NewPtrCreateTopicsRequest()
		r.TimeoutMillis = c.Timeout
		rt := kmsg.NewCreateTopicsRequestTopic()
		rt.Topic = c.Token
		rt.NumPartitions = 1
		rt.ReplicationFactor = 1
		r.Topics = append(r.Topics, rt)
		return r
	}
}

// tokenOfRequest extracts the token from a recorded request frame ("" if none).
func tokenOfRequest(f *sb.Frame) string {
	if f.BadVersion || f.Malformed != "" {
		return ""
	}
	req, err := sb.ParseRequest(f)
	if err != nil {
		return ""
	}
	switch r := req.(type) {
	case *kmsg.ApiVersionsRequest:
		if strings.HasPrefix(r.ClientSoftwareName, "tok-") { // the client's own handshake carries its software name
			return r.ClientSoftwareName
		}
	case *kmsg.MetadataRequest:
		if len(r.Topics) == 1 && r.Topics[0].Topic != nil {
			return *r.Topics[0].Topic
		}
	case *kmsg.DescribeGroupsRequest:
		if len(r.Groups) == 1 {
			return r.Groups[0]
		}
	case *kmsg.ListOffsetsRequest:
		if len(r.Topics) == 1 {
			return r.Topics[0].Topic
		}
	case *kmsg.CreateTopicsRequest:
		if len(r.Topics) == 1 {
			return r.Topics[0].Topic
		}
	}
	return ""
}

// reply is correctReply; outside honest cases the -1 / math.MinInt32 defaults of the
// response are zeroed so that an ok reply survives sanitize unchanged.
func (h *hostile) reply(f *sb.Frame, throttle int32) []byte {
	if h.p.Honest {
		return correctReply(f, throttle, false)
	}
	if throttle < 0 {
		throttle = 0
	}
	return correctReply(f, throttle, true)
}

// correctReply builds the honest response for f, echoing its token. plain zeroes the
// fields whose defaults encode as 0xff / 0x80 runs.
func correctReply(f *sb.Frame, throttle int32, plain bool) []byte {
	req, err := sb.ParseRequest(f)
	if err != nil {
		return sb.EncodeResponse(f, sb.ResponseFor(f))
	}
	var resp kmsg.Response
	switch r := req.(type) {
	case *kmsg.MetadataRequest:
		m := kmsg.NewPtrMetadataResponse()
		b := kmsg.NewMetadataResponseBroker()
		b.NodeID, b.Host, b.Port = 1, "localhost", 9092
		m.Brokers = append(m.Brokers, b)
		m.ControllerID = 1
		for _, t := range r.Topics {
			mt := kmsg.NewMetadataResponseTopic()
			mt.Topic = t.Topic
			mt.TopicID = [16]byte{1, 2, 3}
			mp := kmsg.NewMetadataResponseTopicPartition()
			if plain {
				mp.LeaderEpoch = 0
				mt.AuthorizedOperations = 0
				m.AuthorizedOperations = 0
			}
			mp.Leader = 1
			mp.Replicas, mp.ISR = []int32{1}, []int32{1}
			mt.Partitions = append(mt.Partitions, mp)
			m.Topics = append(m.Topics, mt)
		}
		resp = m
	case *kmsg.DescribeGroupsRequest:
		d := kmsg.NewPtrDescribeGroupsResponse()
		for _, g := range r.Groups {
			dg := kmsg.NewDescribeGroupsResponseGroup()
			dg.Group = g
			dg.State = "Empty"
			if plain {
				dg.AuthorizedOperations = 0
			}
			d.Groups = append(d.Groups, dg)
		}
		resp = d
	case *kmsg.ListOffsetsRequest:
		l := kmsg.NewPtrListOffsetsResponse()
		for _, t := range r.Topics {
			lt := kmsg.NewListOffsetsResponseTopic()
			lt.Topic = t.Topic
			for _, p := range t.Partitions {
				lp := kmsg.NewListOffsetsResponseTopicPartition()
				lp.Partition = p.Partition
				lp.Offset = 42
				if plain {
					lp.LeaderEpoch = 0
					lp.Timestamp = 0
				}
				lt.Partitions = append(lt.Partitions, lp)
			}
			l.Topics = append(l.Topics, lt)
		}
		resp = l
	case *kmsg.ApiVersionsRequest:
		a := kmsg.NewPtrApiVersionsResponse()
		for _, k := range []int16{0, 1, 3, 18} {
			ak := kmsg.NewApiVersionsResponseApiKey()
			ak.ApiKey, ak.MinVersion, ak.MaxVersion = k, 0, kmsg.RequestForKey(k).MaxVersion()
			a.ApiKeys = append(a.ApiKeys, ak)
		}
		if f.Version >= 3 && strings.HasPrefix(r.ClientSoftwareName, "tok-") {
			sf := kmsg.NewApiVersionsResponseSupportedFeature()
			sf.Name, sf.MinVersion, sf.MaxVersion = r.ClientSoftwareName, 0, 1
			a.SupportedFeatures = append(a.SupportedFeatures, sf)
		}
		if plain {
			a.FinalizedFeaturesEpoch = 0
		}
		resp = a
	case *kmsg.CreateTopicsRequest:
		c := kmsg.NewPtrCreateTopicsResponse()
		for _, t := range r.Topics {
			ct := kmsg.NewCreateTopicsResponseTopic()
			ct.Topic = t.Topic
			ct.NumPartitions = 1
			ct.ReplicationFactor = 1
			if plain {
				ct.ConfigErrorCode = 0
			}
			c.Topics = append(c.Topics, ct)
		}
		resp = c
	default:
		resp = sb.ResponseFor(f)
	}
	resp.SetVersion(f.Version)
	if throttle != 0 {
		if tr, ok := resp.(kmsg.SetThrottleResponse); ok {
			tr.SetThrottle(throttle)
		}
	}
	return sb.EncodeResponse(f, resp)
}

// tokenOfResponse extracts the echoed token of a response ("" if none).
func tokenOfResponse(r kmsg.Response) string {
	switch t := r.(type) {
	case *kmsg.MetadataResponse:
		if len(t.Topics) == 1 && t.Topics[0].Topic != nil {
			return *t.Topics[0].Topic
		}
	case *kmsg.DescribeGroupsResponse:
		if len(t.Groups) == 1 {
			return t.Groups[0].Group
		}
	case *kmsg.ListOffsetsResponse:
		if len(t.Topics) == 1 {
			return t.Topics[0].Topic
		}
	case *kmsg.CreateTopicsResponse:
		if len(t.Topics) == 1 {
			return t.Topics[0].Topic
		}
	case *kmsg.ApiVersionsResponse:
		if len(t.SupportedFeatures) == 1 {
			return t.SupportedFeatures[0].Name
		}
	}
	return ""
}

// ---- the scripted broker for this property ----

type connSt struct {
	hsDone bool
	held   []*sb.Frame
}

type hostile struct {
	mu      sync.Mutex
	p       *plan
	api     *sb.Script
	nUser   int
	nHS     int
	applied []string // action names in application order
	pipeHot bool     // a non-ok action hit a connection with >=2 unanswered user frames
	pending map[int]int
}

func (h *hostile) handle(c *sb.Conn, f *sb.Frame) {
	st, _ := c.State.(*connSt)
	if st == nil {
		st = &connSt{}
		c.State = st
	}
	h.mu.Lock()
	defer h.mu.Unlock()
	if f.Key == 18 && !st.hsDone {
		n := h.nHS
		h.nHS++
		st.hsDone = true
		if h.p.HostileHS >= 0 && n == h.p.HostileHS && len(h.p.Actions) > 0 {
			h.apply(c, st, f, h.p.Actions[len(h.p.Actions)-1], h.api.ApiVersionsReply(f), "handshake:")
			return
		}
		h.send(c, h.api.ApiVersionsReply(f), 0)
		return
	}
	if h.p.Stream != nil {
		st.held = append(st.held, f)
		if len(st.held) == h.p.StreamAfter+1 {
			h.applied = append(h.applied, "stream")
			c.Send(h.p.Stream)
			if h.p.StreamClose {
				c.CloseAfterSend()
			}
		}
		return
	}
	var a action
	if h.nUser < len(h.p.Actions) {
		a = h.p.Actions[h.nUser]
	}
	h.nUser++
	h.pending[c.ID()]++
	if a.Kind != actOK && h.pending[c.ID()] >= 2 {
		h.pipeHot = true
	}
	h.apply(c, st, f, a, h.reply(f, a.Throttle), "")
}

// send queues b on c. Outside honest cases every byte string is sanitized (see sanitize):
// truncated, duplicated or unsolicited replies make the client parse honest bytes at the
// wrong alignment, and 0xff runs (-1 fields, null strings) would then be read as tag counts.
// keep is the number of leading bytes left untouched (a deliberately hostile length prefix).
func (h *hostile) send(c *sb.Conn, b []byte, keep int) {
	if h.p.Honest {
		c.Send(b)
		return
	}
	out, changed := sanitize(b[keep:])
	if changed {
		ev.Class("sent_bytes_sanitized")
	}
	c.Send(append(append([]byte(nil), b[:keep]...), out...))
}

func (h *hostile) apply(c *sb.Conn, st *connSt, f *sb.Frame, a action, good []byte, pfx string) {
	h.applied = append(h.applied, pfx+actNames[a.Kind])
	switch a.Kind {
	case actOK:
		h.send(c, good, 0)
		h.pending[c.ID()]--
	case actHold:
		st.held = append(st.held, f)
	case actReleaseInOrder:
		for _, hf := range st.held {
			h.send(c, h.reply(hf, 0), 0)
		}
		st.held = nil
		h.send(c, good, 0)
		h.pending[c.ID()] = 0
	case actReleaseReversed:
		h.send(c, good, 0)
		for i := len(st.held) - 1; i >= 0; i-- {
			h.send(c, h.reply(st.held[i], 0), 0)
		}
		st.held = nil
	case actWrongCorr:
		b := append([]byte(nil), good...)
		binary.BigEndian.PutUint32(b[4:], uint32(f.CorrID+a.Delta))
		h.send(c, b, 0)
	case actTrunc:
		cut := len(good) * a.Cut / 10000
		h.send(c, good[:cut], 0)
		if !a.Hang {
			c.CloseAfterSend()
		}
	case actOversize, actNegative:
		b := binary.BigEndian.AppendUint32(nil, uint32(a.Size))
		b = append(b, good[4:]...)
		h.send(c, b, 4)
	case actRandom:
		h.send(c, a.Bytes, 0)
		if a.Then {
			c.CloseAfterSend()
		}
	case actGarbageBody:
		h.send(c, sb.EncodeRaw(f.CorrID, sb.FlexibleResponseHeader(f), a.Bytes), 0)
	case actClose:
		c.CloseAfterSend()
	case actNone:
	case actDup:
		h.send(c, good, 0)
		h.send(c, good, 0)
	}
}

// ---- reference pairing of the sent stream with the written requests ----

type refReply struct {
	ok   bool   // the frame is complete, within limits, addressed to the paired request
	body []byte // response body (after header)
	why  string
}

// pairStream parses sent (all bytes the broker queued on one connection) the way the wire
// format prescribes and pairs reply i with request i. Pairing stops at the first reply that
// a correct client must reject.
func pairStream(sent []byte, reqs []sb.Frame, maxRead int32) []refReply {
	var out []refReply
	for i := 0; i < len(reqs); i++ {
		if len(sent) < 4 {
			break
		}
		size := int32(binary.BigEndian.Uint32(sent))
		if size < 0 || size > maxRead {
			break
		}
		if len(sent)-4 < int(size) {
			break
		}
		fr := sent[4 : 4+size]
		sent = sent[4+size:]
		if len(fr) < 4 {
			break
		}
		if int32(binary.BigEndian.Uint32(fr)) != reqs[i].CorrID {
			break
		}
		body := fr[4:]
		if sb.FlexibleResponseHeader(&reqs[i]) {
			rest, ok := skipTags(body)
			if !ok {
				break
			}
			body = rest
		}
		out = append(out, refReply{ok: true, body: body})
	}
	return out
}

func uvarint(b []byte) (uint32, int) {
	var x uint64
	for i := 0; i < len(b) && i < 5; i++ {
		x |= uint64(b[i]&0x7f) << (7 * uint(i))
		if b[i]&0x80 == 0 {
			if x > 0xffffffff {
				return 0, -1
			}
			return uint32(x), i + 1
		}
	}
	return 0, -1
}

func skipTags(b []byte) ([]byte, bool) {
	n, u := uvarint(b)
	if u <= 0 {
		return nil, false
	}
	b = b[u:]
	for i := uint32(0); i < n; i++ {
		_, u1 := uvarint(b)
		if u1 <= 0 {
			return nil, false
		}
		b = b[u1:]
		l, u2 := uvarint(b)
		if u2 <= 0 || uint64(l) > uint64(len(b)-u2) {
			return nil, false
		}
		b = b[u2+int(l):]
	}
	return b, true
}

// ---- running one case ----

var dbgDump bool

var (
	seenMu  sync.Mutex
	seenMax time.Duration
)

func maxSeen(d time.Duration) int64 {
	seenMu.Lock()
	defer seenMu.Unlock()
	if d > seenMax {
		seenMax = d
	}
	return seenMax.Milliseconds()
}

type callResult struct {
	returned int
	resp     kmsg.Response
	err      error
	took     time.Duration
}

func runPlan(tt *testing.T, p *plan) (errs []string, digest string, nontrivial bool) {
	results := make([]callResult, len(p.Calls))
	var frames []sb.Frame
	var sents [][]byte
	var h *hostile
	var mu sync.Mutex
	sb.Run(tt, func(e *sb.Env) {
		api := &sb.Script{Table: map[int16][2]int16{}, Understands: 4}
		for k := int16(0); k <= kmsg.MaxKey; k++ {
			if r := kmsg.RequestForKey(k); r != nil {
				api.Table[k] = [2]int16{0, r.MaxVersion()}
				api.Order = append(api.Order, k)
			}
		}
		h = &hostile{p: p, api: api, pending: map[int]int{}}
		br := e.Listen(9092, h.handle)
		cl, err := e.Client(
			kgo.SeedBrokers("localhost:9092"),
			kgo.RequestTimeoutOverhead(p.Overhead),
			kgo.RequestRetries(p.Retries),
			kgo.RetryTimeout(p.RetryTO),
			kgo.RetryBackoffFn(func(int) time.Duration { return 20 * time.Millisecond }),
			kgo.ConnIdleTimeout(p.Idle),
			kgo.BrokerMaxReadBytes(p.MaxRead),
			kgo.FetchMaxBytes(p.MaxRead),
			kgo.DisableClientMetrics(),
			kgo.MetadataMinAge(10*time.Millisecond),
		)
		if err != nil {
			panic(fmt.Sprintf("VERIF-INFRA: NewClient: %v", err))
		}
		seed := cl.SeedBrokers()[0]
		var wg sync.WaitGroup
		for i := range p.Calls {
			i, c := i, p.Calls[i]
			wg.Add(1)
			go func() {
				defer wg.Done()
				time.Sleep(c.StartAt)
				ctx, cancel := context.WithCancel(context.Background())
				defer cancel()
				if c.CancelAt >= 0 {
					tm := time.AfterFunc(c.CancelAt, cancel)
					defer tm.Stop()
				}
				req := buildReq(c)
				t0 := time.Now()
				var resp kmsg.Response
				var err error
				switch c.Path {
				case pathBroker:
					resp, err = seed.Request(ctx, req)
				case pathBrokerRetry:
					resp, err = seed.RetriableRequest(ctx, req)
				default:
					resp, err = cl.Request(ctx, req)
				}
				mu.Lock()
				results[i].returned++
				results[i].resp, results[i].err, results[i].took = resp, err, time.Since(t0)
				mu.Unlock()
			}()
		}
		done := make(chan struct{})
		go func() { wg.Wait(); close(done) }()
		// generous virtual bound: used only to report a hang
		if !sb.WaitTimeout(done, 2*time.Hour) {
			mu.Lock()
			for i := range results {
				if results[i].returned == 0 {
					errs = append(errs, fmt.Sprintf("call %d (%+v) did not return within 2h of virtual time", i, p.Calls[i]))
				}
			}
			mu.Unlock()
			br.KillConns()
			sb.WaitTimeout(done, time.Hour)
		}
		e.Settle()
		frames = br.Frames()
		for _, c := range br.Conns() {
			s, _ := c.Sent()
			sents = append(sents, s)
		}
	})
	mu.Lock()
	defer mu.Unlock()

	if dbgDump {
		for _, f := range frames {
			fmt.Printf("frame seq=%d conn=%d connseq=%d key=%d v=%d corr=%d tok=%q\n", f.Seq, f.Conn, f.ConnSeq, f.Key, f.Version, f.CorrID, tokenOfRequest(&f))
		}
		for i, s := range sents {
			fmt.Printf("conn %d sent %d bytes\n", i, len(s))
		}
		for i, r := range results {
			fmt.Printf("call %d err=%v took=%v\n", i, r.err, r.took)
		}
	}
	// reference pairing per connection
	byConn := map[int][]sb.Frame{}
	for _, f := range frames {
		byConn[f.Conn] = append(byConn[f.Conn], f)
	}
	type offer struct {
		frame sb.Frame
		body  []byte
	}
	var maxThrottle time.Duration
	offers := map[string][]offer{} // token -> replies the reference addresses to that token's frames
	for ci, fs := range byConn {
		var sent []byte
		if ci < len(sents) {
			sent = sents[ci]
		}
		for i, r := range pairStream(sent, fs, p.MaxRead) {
			if !r.ok {
				continue
			}
			if tok := tokenOfRequest(&fs[i]); tok != "" {
				offers[tok] = append(offers[tok], offer{fs[i], r.body})
			}
			// throttles a correct client honours
			if ref := sb.ResponseFor(&fs[i]); ref.ReadFrom(r.body) == nil {
				if tr, ok := ref.(kmsg.ThrottleResponse); ok {
					if ms, _ := tr.Throttle(); ms > 0 {
						if d := time.Duration(ms) * time.Millisecond; d > maxThrottle {
							maxThrottle = d
						}
						ev.Class("honoured_throttle_replies")
					}
				}
			}
		}
	}

	// Time bound. The scripted broker never sleeps, so every wait inside the client is one
	// of: a read or write timeout on some frame (<= overhead + the request's TimeoutMillis,
	// at most once per frame written, plus once per dial); a throttle the broker sent in a
	// well-formed, correctly addressed reply (KIP-219: the next write on that connection
	// waits it out, but the waiting connection is idle and is reaped after at most
	// 2 x ConnIdleTimeout, after which the request moves to a fresh connection); or a retry
	// backoff (20ms). Requests to one broker are written serially, so a call may also sit
	// behind the waits of others: the bound is the worst single wait times the number of
	// things that happened in the case, doubled and padded. It only has to separate
	// "bounded by the configured timeouts" from "waits on something else"; a true hang is
	// caught by the 2h virtual limit above / the bubble's deadlock detector.
	var maxTimeout time.Duration
	for _, c := range p.Calls {
		if d := time.Duration(c.Timeout) * time.Millisecond; d > maxTimeout {
			maxTimeout = d
		}
	}
	perWait := p.Overhead + maxTimeout
	if maxThrottle > 0 {
		tw := maxThrottle
		if lim := 2*p.Idle + time.Second; tw > lim {
			tw = lim
		}
		if tw > perWait {
			perWait = tw
		}
	}
	events := len(frames) + len(sents) + len(p.Calls)*(p.Retries+2) + 2
	caseBound := 2*(time.Duration(events)*perWait+time.Duration(len(p.Calls)*(p.Retries+1))*20*time.Millisecond) + time.Second
	nsucc, nerr := 0, 0
	var outcome []string
	for i, c := range p.Calls {
		r := results[i]
		if r.returned != 1 {
			errs = append(errs, fmt.Sprintf("call %d (%s) returned %d times", i, c.Token, r.returned))
			continue
		}
		if r.took > caseBound {
			errs = append(errs, fmt.Sprintf("call %d (%s, path %d) took %v of virtual time; the configured timeouts bound every call of this case by %v (overhead %v, retries %d, %d frames, %d connections, largest honoured throttle %v); err=%v", i, c.Token, c.Path, r.took, caseBound, p.Overhead, p.Retries, len(frames), len(sents), maxThrottle, r.err))
		}
		ev.Extra("max_call_virtual_ms_seen", maxSeen(r.took))
		if r.err != nil {
			nerr++
			outcome = append(outcome, "e")
			if p.Honest {
				errs = append(errs, fmt.Sprintf("call %d (token %s, path %d): every reply of this case was correct and correctly addressed, nothing was cancelled, yet the call returned an error: %v", i, c.Token, c.Path, r.err))
			}
			continue
		}
		nsucc++
		outcome = append(outcome, "s")
		if r.resp == nil {
			errs = append(errs, fmt.Sprintf("call %d (%s) returned neither a response nor an error", i, c.Token))
			continue
		}
		if c.Kind == kindApiVersions && r.resp.GetVersion() < 3 {
			// ApiVersions v0-v2 requests have no fields: the token is not on the wire, so the reply
			// cannot be attributed to one call (happens after a hostile handshake left the client
			// with a low version for key 18)
			ev.Class("apiversions_call_below_v3_not_attributable")
			continue
		}
		got := r.resp.AppendTo(nil)
		matched := false
		var cands []string
		for _, o := range offers[c.Token] {
			ref := sb.ResponseFor(&o.frame)
			if ref.ReadFrom(o.body) != nil {
				continue
			}
			if ref.GetVersion() == r.resp.GetVersion() && bytes.Equal(ref.AppendTo(nil), got) {
				matched = true
				break
			}
			cands = append(cands, hex.EncodeToString(o.body))
		}
		if !matched {
			errs = append(errs, fmt.Sprintf("call %d (token %s, path %d) returned success with a response (echoed token %q, v%d, %x) that the broker never addressed to one of its frames in stream order; well-formed replies addressed to it: %v", i, c.Token, c.Path, tokenOfResponse(r.resp), r.resp.GetVersion(), got, cands))
		}
	}
	kinds := map[string]bool{}
	for _, a := range h.applied {
		kinds[a] = true
		ev.Class("action_" + a)
	}
	var ks []string
	for k := range kinds {
		ks = append(ks, k)
	}
	sort.Strings(ks)
	ev.ClassN("calls_success", int64(nsucc))
	ev.ClassN("calls_error", int64(nerr))
	if h.pipeHot {
		ev.Class("hostile_action_on_pipelined_connection")
	}
	if p.Honest {
		ev.Class("honest_broker_cases")
	}
	digest = fmt.Sprintf("k%d|%s|%s|r%d", len(p.Calls), strings.Join(h.applied, ","), strings.Join(outcome, ""), p.Retries)
	nontrivial = h.pipeHot
	return errs, digest, nontrivial
}

func TestHostileReplies(t *testing.T) {
	rapid.Check(t, func(rt *rapid.T) {
		p := genPlan(rt)
		errs, digest, nt := runPlan(t, p)
		ev.Case(digest, nt)
		ev.SampleIf(func() any { return map[string]any{"plan": p, "digest": digest} })
		if len(errs) > 0 {
			js, _ := json.Marshal(p)
			rt.Fatalf("C22 violated:\n  %s\nplan: %s", strings.Join(errs, "\n  "), js)
		}
	})
}

// fuzzPlan is the fixed scenario of the fuzz target: three pipelined Metadata requests on
// one connection (issued 1ms apart so that their order is fixed), no retries.
func fuzzPlan(data []byte) *plan {
	p := &plan{Overhead: 100 * time.Millisecond, Retries: 0, RetryTO: 200 * time.Millisecond, Idle: 20 * time.Second, MaxRead: 4 << 10, HostileHS: -1}
	for i := 0; i < 3; i++ {
		p.Calls = append(p.Calls, callPlan{Kind: kindMetadata, Path: pathBroker, Token: fmt.Sprintf("tok-%d", i), StartAt: time.Duration(i) * time.Millisecond, CancelAt: -1})
	}
	flags := byte(0)
	if len(data) > 0 {
		flags, data = data[0], data[1:]
	}
	p.StreamClose = flags&1 != 0
	p.StreamAfter = int(flags>>1) % 3
	p.Stream, _ = sanitize(data)
	return p
}

// fuzzSeedStream builds the honest reply stream for the three requests of fuzzPlan
// (correlation ids 1..3 after the handshake's 0), optionally damaged.
func fuzzSeedStream(mut int) []byte {
	var out []byte
	for i := 0; i < 3; i++ {
		req := buildReq(callPlan{Kind: kindMetadata, Token: fmt.Sprintf("tok-%d", i)})
		req.SetVersion(req.MaxVersion())
		f := &sb.Frame{Key: 3, Version: req.MaxVersion(), CorrID: int32(i + 1), Body: req.AppendTo(nil)}
		b := correctReply(f, 0, false)
		switch {
		case mut == 1 && i == 1:
			binary.BigEndian.PutUint32(b[4:], 9)
		case mut == 2 && i == 2:
			b = b[:len(b)/2]
		case mut == 3 && i == 0:
			binary.BigEndian.PutUint32(b, uint32(len(b)+3))
		}
		out = append(out, b...)
	}
	return out
}

func FuzzReplyStream(f *testing.F) {
	for flags := byte(0); flags < 6; flags++ {
		for mut := 0; mut < 4; mut++ {
			f.Add(append([]byte{flags}, fuzzSeedStream(mut)...))
		}
	}
	f.Add([]byte{0})
	f.Add([]byte{1, 0xff, 0xff, 0xff, 0xff})
	f.Fuzz(func(t *testing.T, data []byte) {
		if len(data) > 8<<10 {
			return
		}
		p := fuzzPlan(data)
		errs, _, _ := runPlan(t, p)
		if len(errs) > 0 {
			ev.Replay("c22-fuzz-stream.hex", hex.EncodeToString(data))
			t.Fatalf("C22 violated (fuzz):\n  %s\nstream=%x", strings.Join(errs, "\n  "), data)
		}
	})
}

// TestFuzzSeeds runs the fuzz target's seed corpus as ordinary cases (quick tier).
func TestFuzzSeeds(t *testing.T) {
	for flags := byte(0); flags < 6; flags++ {
		for mut := 0; mut < 4; mut++ {
			data := append([]byte{flags}, fuzzSeedStream(mut)...)
			p := fuzzPlan(data)
			errs, digest, _ := runPlan(t, p)
			ev.Case(fmt.Sprintf("seed|%d|%d|%s", flags, mut, digest), mut != 0)
			if len(errs) > 0 {
				ev.Replay("c22-fuzz-seed.hex", hex.EncodeToString(data))
				t.Fatalf("C22 violated on fuzz seed flags=%d mut=%d:\n  %s", flags, mut, strings.Join(errs, "\n  "))
			}
		}
	}
}
