package c23

import (
	"context"
	"fmt"
	"sort"
	"strings"
	"testing"
	"time"

	"github.com/twmb/franz-go/pkg/kerr"
	"github.com/twmb/franz-go/pkg/kgo"
	"github.com/twmb/franz-go/pkg/kmsg"
	"pgregory.net/rapid"

	"verif/h/bubble"
	"verif/h/ev"
)

func TestMain(m *testing.M) { ev.Main(m, "C23") }

type plan struct {
	Brokers int
	Kind    string
	TPs     [][2]int // topic index, partition (may be out of range / unknown topic index 3)
	Names   []int    // group / key / txn-id indices (9 = very unlikely known)
	Dup     bool
	Split   bool     // a topic may appear in several topic entries of the request (one per run of items)
	Moves   [][3]int // topic, partition, node - applied after a warm-up request (stale cache)
	Rehash  bool
	Inject  bool // answer one shard once with a retriable NOT_LEADER / NOT_COORDINATOR
	Parts   []int32
	// Leaderless partition numbers: the client's view of the cluster (Metadata responses are
	// rewritten on the wire) shows them with leader -1, with LEADER_NOT_AVAILABLE or with no
	// error code at all.
	Leaderless     []int
	LeaderlessCode bool
}

var kinds = []string{"ListOffsets", "DeleteRecords", "OffsetForLeaderEpoch", "DescribeProducers", "DescribeGroups", "DeleteGroups", "OffsetFetch", "FindCoordinator", "DescribeTransactions"}

func genPlan(t *rapid.T) plan {
	p := plan{Brokers: rapid.IntRange(1, 5).Draw(t, "brokers"), Kind: rapid.SampledFrom(kinds).Draw(t, "kind")}
	for i := 0; i < 3; i++ {
		p.Parts = append(p.Parts, int32(rapid.IntRange(1, 6).Draw(t, "parts")))
	}
	n := rapid.IntRange(1, 10).Draw(t, "nitems")
	maxTopic := 2
	if rapid.IntRange(0, 2).Draw(t, "allow-unknown-topic") == 0 {
		maxTopic = 3
	}
	for i := 0; i < n; i++ {
		p.TPs = append(p.TPs, [2]int{rapid.IntRange(0, maxTopic).Draw(t, "topic"), rapid.IntRange(0, 7).Draw(t, "partition")})
		p.Names = append(p.Names, rapid.IntRange(0, 9).Draw(t, "name"))
	}
	p.Dup = rapid.IntRange(0, 3).Draw(t, "dup") == 0
	p.Split = rapid.IntRange(0, 2).Draw(t, "split") == 0
	nm := rapid.IntRange(0, 4).Draw(t, "nmoves")
	for i := 0; i < nm; i++ {
		p.Moves = append(p.Moves, [3]int{rapid.IntRange(0, 2).Draw(t, "mt"), rapid.IntRange(0, 5).Draw(t, "mp"), rapid.IntRange(0, p.Brokers-1).Draw(t, "node")})
	}
	if rapid.IntRange(0, 2).Draw(t, "leaderless?") == 0 {
		// metadata shows these partition numbers (of every topic) without a leader: -1 and, in half
		// of the cases, no error code either (an election in progress as some brokers report it)
		p.Leaderless = rapid.SliceOfNDistinct(rapid.IntRange(0, 5), 1, 3, rapid.ID[int]).Draw(t, "leaderless")
		p.LeaderlessCode = rapid.Bool().Draw(t, "leaderless-code")
	}
	p.Rehash = rapid.Bool().Draw(t, "rehash")
	p.Inject = rapid.Bool().Draw(t, "inject")
	return p
}

func topicName(i int) string { return []string{"ta", "tb", "tc", "unknown"}[i] }

// build returns the request and the distinct requested items.
func build(p plan) (kmsg.Request, []string) {
	tps := p.TPs
	names := p.Names
	if p.Dup && len(tps) > 0 {
		tps = append(tps, tps[0])
		names = append(names, names[0])
	}
	set := map[string]bool{}
	byTopic := map[string][]int32{}
	var order []string
	// order holds entry keys "topic" or, in split plans, "topic#k": a new topic entry starts
	// whenever the topic of consecutive items changes, so one topic can have several entries
	prev, run := "", 0
	for _, x := range tps {
		t := topicName(x[0])
		set[fmt.Sprintf("%s/%d", t, x[1])] = true
		key := t
		if p.Split {
			if t != prev {
				run++
			}
			prev = t
			key = fmt.Sprintf("%s#%d", t, run)
		}
		if _, ok := byTopic[key]; !ok {
			order = append(order, key)
		}
		byTopic[key] = append(byTopic[key], int32(x[1]))
	}
	topicOf := func(key string) string {
		if i := strings.IndexByte(key, '#'); i >= 0 {
			return key[:i]
		}
		return key
	}
	nameSet := map[string]bool{}
	var nameList []string
	for _, n := range names {
		s := fmt.Sprintf("n%d", n)
		nameList = append(nameList, s)
		nameSet[s] = true
	}
	items := func(m map[string]bool) []string {
		var out []string
		for k := range m {
			out = append(out, k)
		}
		sort.Strings(out)
		return out
	}
	switch p.Kind {
	case "ListOffsets":
		req := kmsg.NewPtrListOffsetsRequest()
		req.ReplicaID = -1
		for _, t := range order {
			rt := kmsg.NewListOffsetsRequestTopic()
			rt.Topic = topicOf(t)
			for _, pt := range byTopic[t] {
				rp := kmsg.NewListOffsetsRequestTopicPartition()
				rp.Partition, rp.Timestamp, rp.CurrentLeaderEpoch = pt, -1, -1
				rt.Partitions = append(rt.Partitions, rp)
			}
			req.Topics = append(req.Topics, rt)
		}
		return req, items(set)
	case "DeleteRecords":
		req := kmsg.NewPtrDeleteRecordsRequest()
		req.TimeoutMillis = 5000
		for _, t := range order {
			rt := kmsg.NewDeleteRecordsRequestTopic()
			rt.Topic = topicOf(t)
			for _, pt := range byTopic[t] {
				rp := kmsg.NewDeleteRecordsRequestTopicPartition()
				rp.Partition, rp.Offset = pt, 0
				rt.Partitions = append(rt.Partitions, rp)
			}
			req.Topics = append(req.Topics, rt)
		}
		return req, items(set)
	case "OffsetForLeaderEpoch":
		req := kmsg.NewPtrOffsetForLeaderEpochRequest()
		req.ReplicaID = -1
		for _, t := range order {
			rt := kmsg.NewOffsetForLeaderEpochRequestTopic()
			rt.Topic = topicOf(t)
			for _, pt := range byTopic[t] {
				rp := kmsg.NewOffsetForLeaderEpochRequestTopicPartition()
				rp.Partition, rp.CurrentLeaderEpoch, rp.LeaderEpoch = pt, -1, 0
				rt.Partitions = append(rt.Partitions, rp)
			}
			req.Topics = append(req.Topics, rt)
		}
		return req, items(set)
	case "DescribeProducers":
		req := kmsg.NewPtrDescribeProducersRequest()
		for _, t := range order {
			rt := kmsg.NewDescribeProducersRequestTopic()
			rt.Topic = topicOf(t)
			rt.Partitions = byTopic[t]
			req.Topics = append(req.Topics, rt)
		}
		return req, items(set)
	case "DescribeGroups":
		req := kmsg.NewPtrDescribeGroupsRequest()
		req.Groups = nameList
		return req, items(nameSet)
	case "DeleteGroups":
		req := kmsg.NewPtrDeleteGroupsRequest()
		req.Groups = nameList
		return req, items(nameSet)
	case "OffsetFetch":
		req := kmsg.NewPtrOffsetFetchRequest()
		for _, g := range nameList {
			rg := kmsg.NewOffsetFetchRequestGroup()
			rg.Group = g
			req.Groups = append(req.Groups, rg)
		}
		return req, items(nameSet)
	case "FindCoordinator":
		req := kmsg.NewPtrFindCoordinatorRequest()
		req.CoordinatorType = 0
		req.CoordinatorKeys = nameList
		return req, items(nameSet)
	case "DescribeTransactions":
		req := kmsg.NewPtrDescribeTransactionsRequest()
		req.TransactionalIDs = nameList
		return req, items(nameSet)
	}
	panic("kind")
}

// itemsOf extracts the items a request or response talks about.
func itemsOf(v any) []string {
	var out []string
	tp := func(t string, p int32) { out = append(out, fmt.Sprintf("%s/%d", t, p)) }
	switch x := v.(type) {
	case *kmsg.ListOffsetsRequest:
		for _, t := range x.Topics {
			for _, p := range t.Partitions {
				tp(t.Topic, p.Partition)
			}
		}
	case *kmsg.ListOffsetsResponse:
		for _, t := range x.Topics {
			for _, p := range t.Partitions {
				tp(t.Topic, p.Partition)
			}
		}
	case *kmsg.DeleteRecordsRequest:
		for _, t := range x.Topics {
			for _, p := range t.Partitions {
				tp(t.Topic, p.Partition)
			}
		}
	case *kmsg.DeleteRecordsResponse:
		for _, t := range x.Topics {
			for _, p := range t.Partitions {
				tp(t.Topic, p.Partition)
			}
		}
	case *kmsg.OffsetForLeaderEpochRequest:
		for _, t := range x.Topics {
			for _, p := range t.Partitions {
				tp(t.Topic, p.Partition)
			}
		}
	case *kmsg.OffsetForLeaderEpochResponse:
		for _, t := range x.Topics {
			for _, p := range t.Partitions {
				tp(t.Topic, p.Partition)
			}
		}
	case *kmsg.DescribeProducersRequest:
		for _, t := range x.Topics {
			for _, p := range t.Partitions {
				tp(t.Topic, p)
			}
		}
	case *kmsg.DescribeProducersResponse:
		for _, t := range x.Topics {
			for _, p := range t.Partitions {
				tp(t.Topic, p.Partition)
			}
		}
	case *kmsg.DescribeGroupsRequest:
		out = append(out, x.Groups...)
	case *kmsg.DescribeGroupsResponse:
		for _, g := range x.Groups {
			out = append(out, g.Group)
		}
	case *kmsg.DeleteGroupsRequest:
		out = append(out, x.Groups...)
	case *kmsg.DeleteGroupsResponse:
		for _, g := range x.Groups {
			out = append(out, g.Group)
		}
	case *kmsg.OffsetFetchRequest:
		for _, g := range x.Groups {
			out = append(out, g.Group)
		}
		if len(x.Groups) == 0 && x.Group != "" {
			out = append(out, x.Group)
		}
	case *kmsg.OffsetFetchResponse:
		for _, g := range x.Groups {
			out = append(out, g.Group)
		}
	case *kmsg.FindCoordinatorRequest:
		out = append(out, x.CoordinatorKeys...)
		if len(x.CoordinatorKeys) == 0 && x.CoordinatorKey != "" {
			out = append(out, x.CoordinatorKey)
		}
	case *kmsg.FindCoordinatorResponse:
		for _, c := range x.Coordinators {
			out = append(out, c.Key)
		}
	case *kmsg.DescribeTransactionsRequest:
		out = append(out, x.TransactionalIDs...)
	case *kmsg.DescribeTransactionsResponse:
		for _, s := range x.TransactionStates {
			out = append(out, s.TransactionalID)
		}
	default:
		panic(fmt.Sprintf("VERIF-INFRA: itemsOf %T", v))
	}
	return out
}

func TestShardedAccounting(t *testing.T) {
	rapid.Check(t, func(rt *rapid.T) {
		p := genPlan(rt)
		nshards := 0
		var moved bool
		bubble.Run(t, rt, func(e *bubble.Env) {
			e.StartCluster(bubble.ClusterOpts{Brokers: p.Brokers, Topics: map[string]int32{"ta": p.Parts[0], "tb": p.Parts[1], "tc": p.Parts[2]}})
			if len(p.Leaderless) > 0 {
				less := map[int32]bool{}
				for _, n := range p.Leaderless {
					less[int32(n)] = true
				}
				withCode := p.LeaderlessCode
				e.Net.AddRule(bubble.Rule{Key: 3, Always: true, Act: bubble.RewriteResponse, Rewrite: func(ri *bubble.ReqInfo, body []byte) []byte {
					resp := kmsg.NewPtrMetadataResponse()
					resp.Version = ri.Version
					hdr := 4
					if resp.IsFlexible() {
						hdr = 5
					}
					if len(body) < hdr || resp.ReadFrom(body[hdr:]) != nil {
						return nil
					}
					for i := range resp.Topics {
						for j := range resp.Topics[i].Partitions {
							if pp := &resp.Topics[i].Partitions[j]; less[pp.Partition] {
								pp.Leader = -1
								if withCode {
									pp.ErrorCode = kerr.LeaderNotAvailable.Code
								}
							}
						}
					}
					return resp.AppendTo(append([]byte(nil), body[:hdr]...))
				}})
			}
			cl := e.NewClient(kgo.MetadataMinAge(time.Second), kgo.MetadataMaxAge(time.Minute)) // caches stay stale across the moves
			ctx, cancel := context.WithTimeout(context.Background(), 3*time.Minute)
			defer cancel()
			req, want := build(p)
			// warm the metadata / coordinator caches with the same kind of request
			warm, _ := build(p)
			cl.RequestSharded(ctx, warm)
			for _, m := range p.Moves {
				if int32(m[1]) < p.Parts[m[0]] {
					if e.Cluster.MoveTopicPartition(topicName(m[0]), int32(m[1]), int32(m[2])) == nil {
						moved = true
					}
				}
			}
			if p.Rehash {
				e.Cluster.RehashCoordinators()
				moved = true
			}
			if p.Inject {
				e.Cluster.ControlKey(req.Key(), func(kreq kmsg.Request) (kmsg.Response, error, bool) {
					resp := kreq.ResponseKind()
					switch r := resp.(type) {
					case *kmsg.ListOffsetsResponse:
						q := kreq.(*kmsg.ListOffsetsRequest)
						for _, t := range q.Topics {
							rt2 := kmsg.NewListOffsetsResponseTopic()
							rt2.Topic = t.Topic
							for _, pp := range t.Partitions {
								rp := kmsg.NewListOffsetsResponseTopicPartition()
								rp.Partition, rp.ErrorCode = pp.Partition, kerr.NotLeaderForPartition.Code
								rt2.Partitions = append(rt2.Partitions, rp)
							}
							r.Topics = append(r.Topics, rt2)
						}
						return r, nil, true
					case *kmsg.DescribeGroupsResponse:
						q := kreq.(*kmsg.DescribeGroupsRequest)
						for _, g := range q.Groups {
							rg := kmsg.NewDescribeGroupsResponseGroup()
							rg.Group, rg.ErrorCode = g, kerr.NotCoordinator.Code
							r.Groups = append(r.Groups, rg)
						}
						return r, nil, true
					case *kmsg.DescribeTransactionsResponse:
						q := kreq.(*kmsg.DescribeTransactionsRequest)
						for _, id := range q.TransactionalIDs {
							st := kmsg.NewDescribeTransactionsResponseTransactionState()
							st.TransactionalID, st.ErrorCode = id, kerr.NotCoordinator.Code
							r.TransactionStates = append(r.TransactionStates, st)
						}
						return r, nil, true
					}
					return nil, nil, false
				})
			}
			fail := func(format string, a ...any) {
				rt.Fatalf("%s\nplan: %+v\nrequested: %v", fmt.Sprintf(format, a...), p, want)
			}
			wantSet := map[string]bool{}
			for _, w := range want {
				wantSet[w] = true
			}
			// ---- RequestSharded ----
			shards := cl.RequestSharded(ctx, req)
			nshards = len(shards)
			where := map[string]int{}
			for si, sh := range shards {
				var its []string
				if sh.Err != nil || sh.Resp == nil {
					if sh.Req == nil {
						fail("shard %d has an error (%v) but no request to account its items", si, sh.Err)
					}
					its = itemsOf(sh.Req)
				} else {
					its = itemsOf(sh.Resp)
				}
				seenHere := map[string]bool{}
				for _, it := range its {
					if !wantSet[it] {
						fail("shard %d (broker %d, err %v) accounts for %q, which was not requested", si, sh.Meta.NodeID, sh.Err, it)
					}
					if seenHere[it] {
						continue // multiplicity of duplicates the caller listed is not asserted
					}
					seenHere[it] = true
					if prev, ok := where[it]; ok {
						fail("item %q appears in shard %d and in shard %d", it, prev, si)
					}
					where[it] = si
				}
			}
			for _, w := range want {
				if _, ok := where[w]; !ok {
					var desc []string
					for si, sh := range shards {
						desc = append(desc, fmt.Sprintf("shard %d broker %d err=%v", si, sh.Meta.NodeID, sh.Err))
					}
					fail("requested item %q is in no returned shard (%s)", w, strings.Join(desc, "; "))
				}
			}
			// ---- Request (merged) ----
			req2, _ := build(p)
			listed := map[string]int{}
			for _, it := range itemsOf(req2) {
				listed[it]++
			}
			resp, err := cl.Request(ctx, req2)
			if resp != nil {
				cnt := map[string]int{}
				for _, it := range itemsOf(resp) {
					cnt[it]++
				}
				for it, n := range cnt {
					if !wantSet[it] {
						fail("merged response contains %q, which was not requested", it)
					}
					if n > 1 && listed[it] <= 1 { // multiplicity of items the caller listed twice is not asserted
						fail("merged response contains %q %d times (err=%v)", it, n, err)
					}
				}
				if err == nil {
					for _, w := range want {
						if cnt[w] == 0 {
							fail("merged response (nil error) misses requested item %q", w)
						}
					}
				}
			} else if err == nil {
				fail("Request returned neither a response nor an error")
			}
		})
		ev.Case(fmt.Sprintf("%+v", p), nshards >= 2 || moved)
		ev.Class("kind:" + p.Kind)
		if len(p.Leaderless) > 0 {
			ev.Class("metadata-shows-partitions-without-a-leader")
		}
		if nshards >= 2 {
			ev.Class("split-into-2+-shards")
		}
		if moved {
			ev.Class("leader-or-coordinator-moved-after-cache-warmup")
		}
		if p.Inject {
			ev.Class("retriable-error-injected")
		}
		if p.Split {
			ev.Class("topic-repeated-in-several-request-entries")
		}
		ev.SampleIf(func() any { return map[string]any{"plan": fmt.Sprintf("%+v", p), "shards": nshards} })
	})
}
