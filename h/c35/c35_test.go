package c35

// C35: kadm.CalculateGroupLag / CalculateGroupLagWithStartOffsets against the reference in
// ref.go.
//
// DescribedGroup carries member metadata/assignments in unexported fields, so described
// groups are obtained the way users obtain them: kadm.Client.DescribeGroups against a
// kfake cluster whose DescribeGroups handler is replaced (Cluster.ControlKey) by one that
// returns the generated group, with member metadata/assignment bytes built by
// kmsg.ConsumerMemberMetadata / ConsumerMemberAssignment AppendTo. The lag functions
// themselves are pure and are called directly with generated commits and listed offsets.

import (
	"context"
	"errors"
	"fmt"
	"sort"
	"strings"
	"sync"
	"testing"

	"github.com/twmb/franz-go/pkg/kadm"
	"github.com/twmb/franz-go/pkg/kerr"
	"github.com/twmb/franz-go/pkg/kfake"
	"github.com/twmb/franz-go/pkg/kgo"
	"github.com/twmb/franz-go/pkg/kmsg"
	"pgregory.net/rapid"

	"verif/h/ev"
)

func TestMain(m *testing.M) { ev.Main(m, "C35") }

// ---------------------------------------------------------------------------------
// described groups through the public API
// ---------------------------------------------------------------------------------

type describer struct {
	c   *kfake.Cluster
	adm *kadm.Client

	mu   sync.Mutex
	next kmsg.DescribeGroupsResponseGroup
}

var (
	descOnce sync.Once
	desc     *describer
	descErr  error
)

const groupName = "g"

type failer interface {
	Fatalf(format string, args ...any)
}

func infra(t failer, format string, a ...any) {
	fmt.Printf("VERIF-INFRA: "+format+"\n", a...)
	t.Fatalf("VERIF-INFRA: "+format, a...)
}

func getDescriber(t failer) *describer {
	descOnce.Do(func() {
		c, err := kfake.NewCluster(kfake.NumBrokers(1))
		if err != nil {
			descErr = err
			return
		}
		d := &describer{c: c}
		c.ControlKey(int16(kmsg.DescribeGroups), func(kreq kmsg.Request) (kmsg.Response, error, bool) {
			c.KeepControl()
			req := kreq.(*kmsg.DescribeGroupsRequest)
			resp := req.ResponseKind().(*kmsg.DescribeGroupsResponse)
			d.mu.Lock()
			g := d.next
			d.mu.Unlock()
			for _, name := range req.Groups {
				rg := g
				rg.Group = name
				resp.Groups = append(resp.Groups, rg)
			}
			return resp, nil, true
		})
		cl, err := kgo.NewClient(kgo.SeedBrokers(c.ListenAddrs()...))
		if err != nil {
			descErr = err
			return
		}
		d.adm = kadm.NewClient(cl)
		desc = d
	})
	if descErr != nil {
		infra(t, "describer setup: %v", descErr)
	}
	return desc
}

func (d *describer) describe(t failer, g kmsg.DescribeGroupsResponseGroup) kadm.DescribedGroup {
	d.mu.Lock()
	d.next = g
	d.mu.Unlock()
	dgs, err := d.adm.DescribeGroups(context.Background(), groupName)
	if err != nil {
		infra(t, "DescribeGroups: %v", err)
	}
	dg, ok := dgs[groupName]
	if !ok {
		infra(t, "DescribeGroups: group missing from %v", dgs.Names())
	}
	return dg
}

// ---------------------------------------------------------------------------------
// generated input
// ---------------------------------------------------------------------------------

type member struct {
	ID         string
	Instance   *string
	Join       []string
	JoinV      int16
	Assign     []kmsg.ConsumerMemberAssignmentTopic
	NoAssign   bool // empty assignment bytes (member of a rebalancing group)
	RawGarbage []byte
}

type plan struct {
	Protocol string // "consumer", "connect" or something unknown
	State    string
	Members  []member
	Commits  kadm.OffsetResponses
	Start    kadm.ListedOffsets // nil: none given
	End      kadm.ListedOffsets
	Short    bool // call CalculateGroupLag (only when Start == nil)
}

var (
	topics   = []string{"t0", "t1", "t2", "t3"}
	errPool  = []error{kerr.UnknownTopicOrPartition, kerr.NotLeaderForPartition, kerr.CoordinatorLoadInProgress, kerr.UnstableOffsetCommit, errors.New("harness: some other error")}
	maxParts = int32(4)
)

func genErr(t *rapid.T, label string, oneIn int) error {
	if rapid.IntRange(0, oneIn-1).Draw(t, label+"-errored") != 0 {
		return nil
	}
	return rapid.SampledFrom(errPool).Draw(t, label+"-err")
}

func genParts(t *rapid.T, label string, keep int, extras bool) []int32 {
	var ps []int32
	for p := int32(0); p < maxParts; p++ {
		if rapid.IntRange(0, 9).Draw(t, fmt.Sprintf("%s-p%d", label, p)) < keep {
			ps = append(ps, p)
		}
	}
	if extras && rapid.IntRange(0, 5).Draw(t, label+"-extra") == 0 {
		ps = append(ps, maxParts+rapid.Int32Range(0, 1).Draw(t, label+"-extra-p"))
	}
	return ps
}

func genPlan(t *rapid.T) plan {
	var pl plan
	switch rapid.IntRange(0, 11).Draw(t, "protocol") {
	case 0:
		pl.Protocol = "connect"
	case 1:
		pl.Protocol = rapid.SampledFrom([]string{"", "mystery"}).Draw(t, "protocol-name")
	default:
		pl.Protocol = "consumer"
	}
	nm := rapid.SampledFrom([]int{0, 1, 1, 2, 2, 3}).Draw(t, "members")
	pl.State = "Stable"
	if nm == 0 {
		pl.State = rapid.SampledFrom([]string{"Empty", "Dead"}).Draw(t, "state")
	} else if rapid.IntRange(0, 5).Draw(t, "rebalancing") == 0 {
		pl.State = "PreparingRebalance"
	}

	// per-partition base end offsets so that commits / starts land around them
	base := map[TP]int64{}
	for _, tn := range topics {
		for p := int32(0); p < maxParts+2; p++ {
			var b int64
			switch rapid.IntRange(0, 3).Draw(t, "base-kind") {
			case 0:
				b = rapid.Int64Range(0, 3).Draw(t, "base")
			case 1:
				b = int64(1)<<40 + rapid.Int64Range(0, 1000).Draw(t, "base")
			default:
				b = rapid.Int64Range(0, 1000).Draw(t, "base")
			}
			base[TP{tn, p}] = b
		}
	}
	around := func(label string, tp TP, allowNeg bool) int64 {
		b := base[tp]
		var v int64
		switch rapid.IntRange(0, 5).Draw(t, label+"-kind") {
		case 0:
			v = 0
		case 1:
			v = b
		case 2:
			v = b + rapid.Int64Range(1, 20).Draw(t, label+"-past")
		default:
			v = b - rapid.Int64Range(0, 20).Draw(t, label+"-before")
		}
		if v < 0 && !allowNeg {
			v = 0
		}
		return v
	}

	for i := 0; i < nm; i++ {
		m := member{ID: fmt.Sprintf("m%d-%d", i, rapid.IntRange(0, 9).Draw(t, "member-id"))}
		if rapid.IntRange(0, 3).Draw(t, "static") == 0 {
			s := fmt.Sprintf("inst%d", rapid.IntRange(0, 3).Draw(t, "instance"))
			m.Instance = &s
		}
		m.JoinV = int16(rapid.IntRange(0, 3).Draw(t, "join-version"))
		for _, tn := range topics {
			if rapid.IntRange(0, 9).Draw(t, "join-"+tn) < 4 {
				m.Join = append(m.Join, tn)
			}
		}
		if rapid.IntRange(0, 9).Draw(t, "no-assignment-yet") == 0 {
			m.NoAssign = true
		} else {
			for _, tn := range topics {
				if rapid.IntRange(0, 9).Draw(t, "assign-"+tn) < 4 {
					at := kmsg.NewConsumerMemberAssignmentTopic()
					at.Topic = tn
					at.Partitions = genParts(t, "assign-"+tn, 4, false)
					m.Assign = append(m.Assign, at)
				}
			}
		}
		if pl.Protocol != "consumer" && rapid.Bool().Draw(t, "garbage-bytes") {
			m.RawGarbage = rapid.SliceOfN(rapid.Byte(), 0, 12).Draw(t, "garbage")
		}
		pl.Members = append(pl.Members, m)
	}

	if rapid.IntRange(0, 9).Draw(t, "commits-nil") != 0 {
		pl.Commits = kadm.OffsetResponses{}
		for _, tn := range topics {
			if rapid.IntRange(0, 9).Draw(t, "commit-"+tn) >= 5 {
				continue
			}
			ps := map[int32]kadm.OffsetResponse{}
			for _, p := range genParts(t, "commit-"+tn, 5, true) {
				tp := TP{tn, p}
				o := kadm.OffsetResponse{Offset: kadm.Offset{Topic: tn, Partition: p, LeaderEpoch: int32(rapid.IntRange(-1, 5).Draw(t, "commit-epoch"))}}
				if rapid.IntRange(0, 5).Draw(t, "commit-none") == 0 {
					o.At = -1 // what OffsetFetch answers for "nothing committed"
				} else {
					o.At = around("commit", tp, false)
				}
				if o.Err = genErr(t, "commit", 6); o.Err != nil && rapid.Bool().Draw(t, "commit-err-at-minus1") {
					o.At = -1
				}
				ps[p] = o
			}
			pl.Commits[tn] = ps
		}
	}

	genListed := func(label string, topicKeep, partKeep int, isStart bool) kadm.ListedOffsets {
		l := kadm.ListedOffsets{}
		for _, tn := range topics {
			if rapid.IntRange(0, 9).Draw(t, label+"-"+tn) >= topicKeep {
				continue
			}
			ps := map[int32]kadm.ListedOffset{}
			for _, p := range genParts(t, label+"-"+tn, partKeep, true) {
				tp := TP{tn, p}
				lo := kadm.ListedOffset{Topic: tn, Partition: p, Timestamp: -1, LeaderEpoch: int32(rapid.IntRange(-1, 5).Draw(t, label+"-epoch"))}
				if isStart {
					lo.Offset = around(label, tp, false)
				} else {
					lo.Offset = base[tp]
				}
				if lo.Err = genErr(t, label, 7); lo.Err != nil && rapid.Bool().Draw(t, label+"-err-offset-minus1") {
					lo.Offset = -1
				}
				ps[p] = lo
			}
			l[tn] = ps
		}
		return l
	}
	if rapid.IntRange(0, 14).Draw(t, "end-nil") != 0 {
		pl.End = genListed("end", 8, 8, false)
	}
	if rapid.IntRange(0, 2).Draw(t, "start-nil") != 0 {
		pl.Start = genListed("start", 7, 7, true)
	} else {
		pl.Short = rapid.Bool().Draw(t, "call-CalculateGroupLag")
	}
	return pl
}

func (pl plan) wire() kmsg.DescribeGroupsResponseGroup {
	g := kmsg.NewDescribeGroupsResponseGroup()
	g.Group = groupName
	g.State = pl.State
	g.ProtocolType = pl.Protocol
	g.Protocol = "range"
	for _, m := range pl.Members {
		wm := kmsg.NewDescribeGroupsResponseGroupMember()
		wm.MemberID = m.ID
		wm.InstanceID = m.Instance
		wm.ClientID = "client"
		wm.ClientHost = "/127.0.0.1"
		if m.RawGarbage != nil {
			wm.ProtocolMetadata = m.RawGarbage
			wm.MemberAssignment = m.RawGarbage
		} else {
			meta := kmsg.NewConsumerMemberMetadata()
			meta.Version = m.JoinV
			meta.Topics = m.Join
			wm.ProtocolMetadata = meta.AppendTo(nil)
			if !m.NoAssign {
				as := kmsg.NewConsumerMemberAssignment()
				as.Topics = m.Assign
				wm.MemberAssignment = as.AppendTo(nil)
			}
		}
		g.Members = append(g.Members, wm)
	}
	return g
}

// input reduces the plan to what the reference talks about.
func (pl plan) input() (Input, map[string]map[TP]bool) {
	in := Input{Assigned: map[TP]bool{}, Commits: map[TP]Commit{}, End: map[TP]Listed{}}
	byMember := map[string]map[TP]bool{}
	if pl.Protocol == "consumer" {
		for _, m := range pl.Members {
			if m.NoAssign {
				continue
			}
			for _, at := range m.Assign {
				for _, p := range at.Partitions {
					in.Assigned[TP{at.Topic, p}] = true
					if byMember[m.ID] == nil {
						byMember[m.ID] = map[TP]bool{}
					}
					byMember[m.ID][TP{at.Topic, p}] = true
				}
			}
		}
	}
	for tn, ps := range pl.Commits {
		for p, o := range ps {
			in.Commits[TP{tn, p}] = Commit{At: o.At, Err: o.Err}
		}
	}
	if pl.Start != nil {
		in.Start = map[TP]Listed{}
		for tn, ps := range pl.Start {
			for p, o := range ps {
				in.Start[TP{tn, p}] = Listed{o.Offset, o.Err}
			}
		}
	}
	for tn, ps := range pl.End {
		for p, o := range ps {
			in.End[TP{tn, p}] = Listed{o.Offset, o.Err}
		}
	}
	return in, byMember
}

func errStr(err error) string {
	if err == nil {
		return "-"
	}
	if ke := (*kerr.Error)(nil); errors.As(err, &ke) {
		return ke.Message
	}
	return err.Error()
}

// describe renders the plan canonically (also the case digest).
func (pl plan) String() string {
	var b strings.Builder
	fmt.Fprintf(&b, "group{protocol=%q state=%s", pl.Protocol, pl.State)
	for _, m := range pl.Members {
		fmt.Fprintf(&b, " member{%s join=%v", m.ID, m.Join)
		switch {
		case m.RawGarbage != nil:
			fmt.Fprintf(&b, " raw=%x", m.RawGarbage)
		case m.NoAssign:
			b.WriteString(" assignment-bytes-empty")
		default:
			for _, at := range m.Assign {
				fmt.Fprintf(&b, " %s%v", at.Topic, at.Partitions)
			}
		}
		b.WriteString("}")
	}
	b.WriteString("}")
	sortedTPs := func(n int, each func(func(TP, string))) {
		type kv struct {
			tp TP
			s  string
		}
		kvs := make([]kv, 0, n)
		each(func(tp TP, s string) { kvs = append(kvs, kv{tp, s}) })
		sort.Slice(kvs, func(i, j int) bool {
			if kvs[i].tp.T != kvs[j].tp.T {
				return kvs[i].tp.T < kvs[j].tp.T
			}
			return kvs[i].tp.P < kvs[j].tp.P
		})
		for _, e := range kvs {
			fmt.Fprintf(&b, " %s/%d:%s", e.tp.T, e.tp.P, e.s)
		}
	}
	if pl.Commits == nil {
		b.WriteString(" commits=nil")
	} else {
		b.WriteString(" commits{")
		var empty []string
		for tn, ps := range pl.Commits {
			if len(ps) == 0 {
				empty = append(empty, tn)
			}
		}
		sort.Strings(empty)
		if len(empty) > 0 {
			fmt.Fprintf(&b, " empty-topics=%v", empty)
		}
		sortedTPs(0, func(f func(TP, string)) {
			for tn, ps := range pl.Commits {
				for p, o := range ps {
					f(TP{tn, p}, fmt.Sprintf("%d/%s", o.At, errStr(o.Err)))
				}
			}
		})
		b.WriteString("}")
	}
	listed := func(name string, l kadm.ListedOffsets) {
		if l == nil {
			fmt.Fprintf(&b, " %s=nil", name)
			return
		}
		fmt.Fprintf(&b, " %s{", name)
		sortedTPs(0, func(f func(TP, string)) {
			for tn, ps := range l {
				for p, o := range ps {
					f(TP{tn, p}, fmt.Sprintf("%d/%s", o.Offset, errStr(o.Err)))
				}
			}
		})
		b.WriteString("}")
	}
	listed("start", pl.Start)
	listed("end", pl.End)
	if pl.Short {
		b.WriteString(" via CalculateGroupLag")
	}
	return b.String()
}

// ---------------------------------------------------------------------------------
// the property
// ---------------------------------------------------------------------------------

func TestGroupLag(t *testing.T) {
	d := getDescriber(t)
	rapid.Check(t, func(t *rapid.T) {
		pl := genPlan(t)
		in, byMember := pl.input()
		if knownOpen() {
			if n := excludeKnown(&pl, in); n > 0 {
				in, byMember = pl.input()
				ev.Excluded(knownKey)
			}
		}
		dg := d.describe(t, pl.wire())

		// harness sanity: the described group carries the generated assignment
		if pl.Protocol == "consumer" {
			got := dg.AssignedPartitions()
			n := 0
			for tn, ps := range got {
				for p := range ps {
					n++
					if !in.Assigned[TP{tn, p}] {
						infra(t, "described group assigns %s/%d which was not generated: %s", tn, p, pl)
					}
				}
			}
			if n != len(in.Assigned) || len(dg.Members) != len(pl.Members) {
				infra(t, "described group does not carry the generated assignment (%d of %d partitions, %d of %d members): %s", n, len(in.Assigned), len(dg.Members), len(pl.Members), pl)
			}
		}

		var lag kadm.GroupLag
		if pl.Short {
			lag = kadm.CalculateGroupLag(dg, pl.Commits, pl.End)
		} else {
			lag = kadm.CalculateGroupLagWithStartOffsets(dg, pl.Commits, pl.Start, pl.End)
		}
		fail := func(format string, a ...any) {
			t.Fatalf("%s\ninput: %s", fmt.Sprintf(format, a...), pl)
		}

		// 1. every required partition is present; every present entry is keyed by its own
		// topic/partition (so it is listed exactly once)
		required := Required(in)
		for _, tp := range required {
			if _, ok := lag.Lookup(tp.T, tp.P); !ok {
				fail("partition %s/%d is assigned or committed but missing from the result", tp.T, tp.P)
			}
		}
		entries := 0
		for tn, ps := range lag {
			for p, l := range ps {
				entries++
				if l.Topic != tn || l.Partition != p {
					fail("entry stored under %s/%d says it is %s/%d", tn, p, l.Topic, l.Partition)
				}
			}
		}
		sorted := lag.Sorted()
		if len(sorted) != entries {
			fail("Sorted() has %d entries, the result has %d", len(sorted), entries)
		}
		for i := range sorted {
			if i > 0 {
				a, b := sorted[i-1], sorted[i]
				if !(a.Topic < b.Topic || a.Topic == b.Topic && a.Partition < b.Partition) {
					fail("Sorted() not strictly ascending by topic then partition at %d: %s/%d then %s/%d", i, a.Topic, a.Partition, b.Topic, b.Partition)
				}
			}
		}

		// 2. the lag rule, for required partitions and for any extra the code lists
		var total int64
		byTopic := map[string]int64{}
		var nErrored, nCommittedUnassigned, nExtras, nFloored, nStartUsed int
		isRequired := map[TP]bool{}
		for _, tp := range required {
			isRequired[tp] = true
		}
		for _, l := range sorted {
			tp := TP{l.Topic, l.Partition}
			want := Lag(in, tp)
			if want.Errored {
				if l.Lag != -1 || l.Err == nil {
					fail("%s/%d: lag %d err %v; the end offset is missing/errored or the commit errored, want lag -1 with a non-nil error", tp.T, tp.P, l.Lag, l.Err)
				}
				if want.ErrKnown && l.Err != want.Err {
					fail("%s/%d: err %v, want %v (commit error first, else the end offset's error)", tp.T, tp.P, l.Err, want.Err)
				}
				nErrored++
			} else {
				if l.Lag != want.Lag || l.Err != nil {
					fail("%s/%d: lag %d err %v, want lag %d and no error", tp.T, tp.P, l.Lag, l.Err, want.Lag)
				}
				total += l.Lag
				byTopic[tp.T] += l.Lag
				c, haveC := in.Commits[tp]
				if !(haveC && c.At >= 0) {
					if s, ok := in.Start[tp]; ok && s.Err == nil {
						nStartUsed++
					}
				}
				if want.Lag == 0 {
					nFloored++
				}
			}
			if !isRequired[tp] {
				nExtras++
			}
			if c, ok := in.Commits[tp]; ok && (c.At >= 0 || c.Err != nil) && !in.Assigned[tp] {
				nCommittedUnassigned++
			}

			// documented fields of the entry
			if e, ok := pl.End.Lookup(tp.T, tp.P); ok && l.End != e {
				fail("%s/%d: End %+v is not the listed end offset %+v", tp.T, tp.P, l.End, e)
			}
			if c, ok := pl.Commits.Lookup(tp.T, tp.P); ok && l.Commit != c.Offset {
				fail("%s/%d: Commit %+v is not the fetched commit %+v", tp.T, tp.P, l.Commit, c.Offset)
			}
			if s, ok := pl.Start.Lookup(tp.T, tp.P); ok {
				if l.Start != s {
					fail("%s/%d: Start %+v is not the listed start offset %+v", tp.T, tp.P, l.Start, s)
				}
			} else if l.Start.Err == nil {
				fail("%s/%d: no start offset was provided but Start.Err is nil", tp.T, tp.P)
			}
			if l.Member != nil {
				if !byMember[l.Member.MemberID][tp] {
					fail("%s/%d: Member %s is not assigned this partition", tp.T, tp.P, l.Member.MemberID)
				}
			} else if in.Assigned[tp] {
				fail("%s/%d: assigned to a member but Member is nil", tp.T, tp.P)
			}
		}

		// 3. totals
		if got := lag.Total(); got != total {
			fail("Total() = %d, want the sum of the non-negative lags %d", got, total)
		}
		tbt := lag.TotalByTopic()
		var tbtSum int64
		for tn, tl := range tbt {
			if _, ok := lag[tn]; !ok {
				fail("TotalByTopic() has topic %q which is not in the result", tn)
			}
			if tl.Topic != tn || tl.Lag != byTopic[tn] {
				fail("TotalByTopic()[%q] = %+v, want lag %d", tn, tl, byTopic[tn])
			}
			tbtSum += tl.Lag
		}
		for tn, want := range byTopic {
			if tbt[tn].Lag != want {
				fail("TotalByTopic()[%q].Lag = %d, want %d", tn, tbt[tn].Lag, want)
			}
		}
		if tbtSum != total {
			fail("TotalByTopic() sums to %d, Total() is %d", tbtSum, total)
		}

		// ---- evidence
		nt := nErrored > 0 && nCommittedUnassigned > 0
		ev.Case(pl.String(), nt)
		ev.Class("protocol_" + map[bool]string{true: pl.Protocol, false: "unnamed"}[pl.Protocol != ""])
		ev.Class(fmt.Sprintf("members_%d", len(pl.Members)))
		if pl.Start == nil {
			ev.Class("start_offsets_nil")
			if pl.Short {
				ev.Class("via_CalculateGroupLag")
			}
		}
		if pl.Commits == nil {
			ev.Class("commits_nil")
		}
		if pl.End == nil {
			ev.Class("end_offsets_nil")
		}
		ev.ClassN("partitions_checked", int64(len(sorted)))
		ev.ClassN("partitions_required", int64(len(required)))
		ev.ClassN("partitions_errored", int64(nErrored))
		ev.ClassN("partitions_committed_but_unassigned", int64(nCommittedUnassigned))
		ev.ClassN("partitions_extra_only_in_end_offsets", int64(nExtras))
		ev.ClassN("partitions_lag_zero", int64(nFloored))
		ev.ClassN("partitions_lag_from_start_offset", int64(nStartUsed))
		if nt {
			ev.Class("cases_nontrivial")
			ev.SampleIf(func() any {
				out := []string{}
				for _, l := range sorted {
					out = append(out, fmt.Sprintf("%s/%d lag=%d err=%s", l.Topic, l.Partition, l.Lag, errStr(l.Err)))
				}
				return map[string]any{"input": pl.String(), "result": out, "total": total}
			})
		}
	})
}
