// Package c35 holds the reference for kadm's group lag calculation, written from the
// property statement and the documentation of CalculateGroupLag,
// CalculateGroupLagWithStartOffsets and GroupMemberLag - not from the code.
package c35

import "sort"

// TP is a topic partition.
type TP struct {
	T string
	P int32
}

// Listed is one listed (start or end) offset as the reference sees it.
type Listed struct {
	Offset int64
	Err    error
}

// Commit is one fetched commit. At < 0 means "nothing committed".
type Commit struct {
	At  int64
	Err error
}

// Input is what the lag functions are given, reduced to what the statement talks about.
type Input struct {
	Assigned map[TP]bool     // partitions assigned to some member (consumer protocol only)
	Commits  map[TP]Commit   // every entry of the commit set
	Start    map[TP]Listed   // nil map: no start offsets given
	End      map[TP]Listed
}

// Want is the reference result for one partition.
type Want struct {
	Lag      int64 // -1 iff Errored
	Errored  bool
	Err      error // the documented error when it is determined by the inputs, else nil
	ErrKnown bool  // whether Err is determined (false: only "non-nil" is documented)
}

// Required lists the partitions that must be reported: assigned to a member, or committed
// by the group (an entry with an offset >= 0), or whose commit fetch errored (the statement
// gives such partitions a lag of -1 with an error, so they are reported).
func Required(in Input) []TP {
	set := map[TP]bool{}
	for tp := range in.Assigned {
		set[tp] = true
	}
	for tp, c := range in.Commits {
		if c.At >= 0 || c.Err != nil {
			set[tp] = true
		}
	}
	out := make([]TP, 0, len(set))
	for tp := range set {
		out = append(out, tp)
	}
	sort.Slice(out, func(i, j int) bool {
		if out[i].T != out[j].T {
			return out[i].T < out[j].T
		}
		return out[i].P < out[j].P
	})
	return out
}

// Lag is the lag rule for one partition:
//
//	errored (lag -1, non-nil error) exactly when the end offset is missing or errored, or
//	the commit errored; the error is the commit error first, else the end list error
//	(for a missing end offset the documentation only promises "an error indicating it is
//	missing");
//	otherwise lag = end - commit when something is committed, else end - start when a start
//	offset is given without error, else end; floored at zero.
func Lag(in Input, tp TP) Want {
	end, haveEnd := in.End[tp]
	c, haveCommit := in.Commits[tp]
	switch {
	case !haveEnd:
		return Want{Lag: -1, Errored: true}
	case haveCommit && c.Err != nil:
		return Want{Lag: -1, Errored: true, Err: c.Err, ErrKnown: true}
	case end.Err != nil:
		return Want{Lag: -1, Errored: true, Err: end.Err, ErrKnown: true}
	}
	lag := end.Offset
	if haveCommit && c.At >= 0 {
		lag = end.Offset - c.At
	} else if s, ok := in.Start[tp]; ok && s.Err == nil {
		lag = end.Offset - s.Offset
	}
	if lag < 0 {
		lag = 0
	}
	return Want{Lag: lag}
}
