package c35

import (
	"encoding/json"
	"fmt"
	"os"
	"sync"
	"testing"

	"github.com/twmb/franz-go/pkg/kadm"
	"github.com/twmb/franz-go/pkg/kerr"

	"verif/h/ev"
)

// Finding first seen with this check and since repaired in /repo ("fix: kadm group lag stays
// -1 ..."; the reverse patch is /verif/seeded/orig-C35/patch.diff): for a partition that is neither assigned nor committed
// but listed because it appears in the end offsets of a topic of interest, an ERRORED end
// offset together with a good start offset yields Lag = max(0, end.Offset-start.Offset)
// with Err set, instead of Lag = -1.
//
// The check stays strict unless the finding is listed as open in $VERIF_KNOWN under this
// key AND still reproduces on the witness; only then is that input class excluded by
// construction (the start entry is dropped) and counted.
const knownKey = "errored-end-offset-with-good-start-offset-on-unassigned-uncommitted-partition"

// witness runs the minimal input and reports (lag, err) of t0/1.
func witness() (int64, error) {
	commits := kadm.OffsetResponses{"t0": {0: {Offset: kadm.Offset{Topic: "t0", Partition: 0, At: 5}}}}
	start := kadm.ListedOffsets{"t0": {1: {Topic: "t0", Partition: 1, Offset: 0}}}
	end := kadm.ListedOffsets{"t0": {
		0: {Topic: "t0", Partition: 0, Offset: 10},
		1: {Topic: "t0", Partition: 1, Offset: -1, Err: kerr.UnknownTopicOrPartition},
	}}
	l, _ := kadm.CalculateGroupLagWithStartOffsets(kadm.DescribedGroup{}, commits, start, end).Lookup("t0", 1)
	return l.Lag, l.Err
}

var (
	knownOnce   sync.Once
	knownActive bool
)

func knownOpen() bool {
	knownOnce.Do(func() {
		raw, err := os.ReadFile(os.Getenv("VERIF_KNOWN"))
		if err != nil {
			return
		}
		var k struct {
			Findings []struct {
				Property string `json:"property"`
				Key      string `json:"key"`
				Status   string `json:"status"`
			} `json:"findings"`
		}
		if json.Unmarshal(raw, &k) != nil {
			return
		}
		listed := false
		for _, f := range k.Findings {
			if f.Property == "C35" && f.Key == knownKey && f.Status == "open" {
				listed = true
			}
		}
		if !listed {
			return
		}
		lag, err := witness()
		if lag != -1 && err != nil {
			knownActive = true
			ev.KnownFinding("C35", fmt.Sprintf("%s: witness commits{t0/0:5} start{t0/1:0} end{t0/0:10 t0/1:-1/UNKNOWN_TOPIC_OR_PARTITION} gives t0/1 lag=%d err=%v, want lag -1", knownKey, lag, err))
			ev.Class("known_finding_witness_still_fails")
		} else {
			ev.Class("known_finding_listed_but_witness_passes_check_is_strict")
		}
	})
	return knownActive
}

// excludeKnown removes, by construction, the known finding's input class from a plan:
// start entries of partitions that are neither assigned nor in the commit set and whose
// end offset is errored. Returns how many entries were dropped.
func excludeKnown(pl *plan, in Input) int {
	n := 0
	for tn, ps := range pl.Start {
		for p, s := range ps {
			tp := TP{tn, p}
			e, haveEnd := in.End[tp]
			_, haveCommit := in.Commits[tp]
			if s.Err == nil && haveEnd && e.Err != nil && !haveCommit && !in.Assigned[tp] {
				delete(ps, p)
				n++
			}
		}
	}
	return n
}

// TestKnownFindingWitness keeps the witness in the evidence whichever way it goes.
func TestKnownFindingWitness(t *testing.T) {
	lag, err := witness()
	if knownOpen() {
		return // announced above
	}
	if err == nil {
		ev.Replay("c35-witness.txt", fmt.Sprintf("witness: t0/1 has an errored end offset but err=nil lag=%d", lag))
		t.Fatalf("witness: t0/1 has an errored end offset but Err is nil (lag %d)", lag)
	}
	if lag != -1 {
		ev.Replay("c35-witness.txt", fmt.Sprintf("commits{t0/0:5} start{t0/1:0} end{t0/0:10 t0/1:-1/UNKNOWN_TOPIC_OR_PARTITION}: t0/1 lag=%d err=%v, want lag -1", lag, err))
		t.Fatalf("unassigned, uncommitted partition t0/1 with an errored end offset and a good start offset: lag %d err %v, want lag -1 (commits{t0/0:5} start{t0/1:0} end{t0/0:10 t0/1:-1/UNKNOWN_TOPIC_OR_PARTITION})", lag, err)
	}
	ev.Class("witness_errored_end_with_good_start_gives_minus1")
}
