// Package registry maps the name of every kmsg type that has AppendTo and ReadFrom
// methods to a constructor. The map is filled by registry_gen.go, which the pregen
// step of C15/C16 writes from <repo>/pkg/kmsg at check time (git-ignored).
package registry

// Types maps a kmsg type name to a constructor returning a pointer to a value with
// Default() applied.
var Types map[string]func() any

// Structs lists every exported struct type declared in pkg/kmsg's generated.go, api.go
// and record.go (with or without a codec).
var Structs []string

// News maps a struct type name to a function returning (pointer to kmsg.New<Name>()'s
// result, pointer to new(T) with Default() applied); NewPtrs does the same for
// kmsg.NewPtr<Name>().
var News, NewPtrs map[string]func() (any, any)
