package c15

import (
	"bytes"
	"encoding/hex"
	"fmt"
	"hash/fnv"
	"reflect"
	"sort"
	"strings"
	"sync"
	"testing"

	"pgregory.net/rapid"

	"verif/h/c15/registry"
	"verif/h/ev"
	"verif/h/krammar"
)

func TestMain(m *testing.M) { ev.Main(m, "C15") }

var (
	loadOnce sync.Once
	schema   *krammar.Schema
	binds    []*krammar.Binding
	bindErrs []string
	loadErr  error
)

func load(t testing.TB) {
	loadOnce.Do(func() {
		schema, loadErr = krammar.Load(ev.Repo())
		if loadErr != nil {
			return
		}
		binds, bindErrs = krammar.Bind(schema, registry.Types)
	})
	if loadErr != nil {
		fmt.Println("VERIF-INFRA: cannot read the definitions:", loadErr)
		t.Fatalf("VERIF-INFRA: %v", loadErr)
	}
}

func violation(t testing.TB, name string, detail map[string]any, format string, a ...any) {
	t.Helper()
	msg := fmt.Sprintf(format, a...)
	if detail == nil {
		detail = map[string]any{}
	}
	detail["message"] = msg
	ev.Replay("c15-"+name+".json", detail)
	t.Fatalf("VERIF-VIOLATION C15 %s", msg)
}

// TestSchema: the definitions parse without inconsistencies, every definition with an
// encoding has a Go type and vice versa, Go struct fields and definition fields match,
// Default() gives the definition defaults, and IsFlexible agrees at every version.
func TestSchema(t *testing.T) {
	load(t)
	if len(schema.Problems) > 0 {
		violation(t, "schema", map[string]any{"problems": schema.Problems}, "definition files are inconsistent: %s", strings.Join(schema.Problems, "; "))
	}
	if len(bindErrs) > 0 {
		violation(t, "registry", map[string]any{"problems": bindErrs}, "definitions and Go types do not match: %s", strings.Join(bindErrs, "; "))
	}
	for _, b := range binds {
		if p := krammar.CheckShape(b.S, b.Type, b.Br); len(p) > 0 {
			violation(t, "shape-"+b.Name, map[string]any{"problems": p}, "%s: Go struct and definition differ: %s", b.Name, strings.Join(p, "; "))
		}
		if p := krammar.CheckDefaults(b.S, b.Type, b.Versions(), b.Br); len(p) > 0 {
			violation(t, "defaults-"+b.Name, map[string]any{"problems": p}, "%s", strings.Join(p, "; "))
		}
		if b.Kind != "standalone" {
			for _, v := range b.Versions() {
				p := b.New()
				b.SetVersion(p, v)
				if got := p.(interface{ IsFlexible() bool }).IsFlexible(); got != b.S.Flexible(v) {
					violation(t, "flexible-"+b.Name, nil, "%s version %d: IsFlexible()=%v, definition says %v", b.Name, v, got, b.S.Flexible(v))
				}
			}
		}
		if sh, _ := ev.Shard(); sh == 0 {
			ev.Case("schema:"+b.Name, len(b.Versions()) > 1)
			ev.Class("types_" + b.Kind)
		}
	}
	// 'no encoding' named structs have no codec of their own; they are exercised through
	// the types that embed them, and must at least exist as Go types.
	neProblems, embedded, unreferenced := krammar.CheckNoEncoding(schema, binds, registry.Structs)
	if len(neProblems) > 0 {
		violation(t, "no-encoding", map[string]any{"problems": neProblems}, "definitions and Go types do not match: %s", strings.Join(neProblems, "; "))
	}
	// New<Name>() / NewPtr<Name>() are documented as "a default <Name>": they must equal
	// new(T) + Default() for every struct type of the package.
	for _, m := range []map[string]func() (any, any){registry.News, registry.NewPtrs} {
		for _, n := range sortedKeys(m) {
			got, want := m[n]()
			if !reflect.DeepEqual(got, want) {
				violation(t, "ctor-"+n, nil, "kmsg.New%s / NewPtr%s returns %+v, new(%s)+Default() gives %+v", n, n, got, n, want)
			}
		}
	}
	if sh, _ := ev.Shard(); sh != 0 {
		return
	}
	ev.ClassN("constructors_compared_with_Default", int64(len(registry.News)+len(registry.NewPtrs)))
	types, cells := map[string]int{}, map[string]int{}
	for _, b := range binds {
		types[b.Kind]++
		cells[b.Kind] += len(b.Versions())
	}
	ev.Extra("grid", map[string]any{
		"types_with_codec":                 len(binds),
		"types_request":                    types["request"],
		"types_response":                   types["response"],
		"types_standalone":                 types["standalone"],
		"cells_request":                    cells["request"],
		"cells_response":                   cells["response"],
		"cells_standalone":                 cells["standalone"],
		"cells_total":                      cells["request"] + cells["response"] + cells["standalone"],
		"definitions_named":                len(schema.Order),
		"definitions_no_encoding_embedded": embedded,
		"definitions_no_encoding_unreferenced_by_any_codec_type": unreferenced,
		"go_struct_types_in_kmsg":                                len(registry.Structs),
	})
	ev.SampleIf(func() any {
		return map[string]any{"schema": "parsed", "structs": len(schema.Order), "enums": len(schema.Enums), "bound_types": len(binds)}
	})
}

func sortedKeys(m map[string]func() (any, any)) []string {
	out := make([]string, 0, len(m))
	for k := range m {
		out = append(out, k)
	}
	sort.Strings(out)
	return out
}

// checkValue runs the whole C15 oracle on one Go value p of binding b at version v.
// It returns "" or a description of the violation, plus the encoding.
func checkValue(b *krammar.Binding, v int, p any) (string, []byte, map[string]any) {
	detail := map[string]any{"type": b.Name, "version": v}
	in, err := b.Tree(p, v)
	if err != nil {
		return "harness: cannot read the generated value: " + err.Error(), nil, detail
	}
	ref, err := krammar.Encode(b.S, v, in, true)
	if err != nil {
		return "harness: reference encoder rejected the generated value: " + err.Error(), nil, detail
	}
	c := p.(krammar.Codec)
	got := c.AppendTo(nil)
	detail["appendto_hex"] = hexCap(got)
	detail["reference_hex"] = hexCap(ref.Buf)
	detail["value"] = capStr(fmt.Sprintf("%+v", p), 4000)
	if !bytes.Equal(got, ref.Buf) {
		off := 0
		for off < len(got) && off < len(ref.Buf) && got[off] == ref.Buf[off] {
			off++
		}
		where := "(end)"
		for _, m := range ref.Marks {
			if m.Off <= off {
				where = m.Path
			}
		}
		return fmt.Sprintf("AppendTo bytes differ from the reference encoding of the definition at offset %d (reference field path %s): AppendTo %d bytes, reference %d bytes", off, where, len(got), len(ref.Buf)), got, detail
	}
	if pre := c.AppendTo([]byte{0xAA, 0x55}); len(pre) != len(got)+2 || pre[0] != 0xAA || pre[1] != 0x55 || !bytes.Equal(pre[2:], got) {
		return "AppendTo(dst) does not append the same encoding after dst", got, detail
	}
	// reference decoder on AppendTo's bytes
	dt, n, err := krammar.Decode(b.S, v, got)
	if err != nil {
		return "reference decoder cannot decode AppendTo's bytes: " + err.Error(), got, detail
	}
	if n != len(got) {
		return fmt.Sprintf("reference decoder consumed %d of %d AppendTo bytes", n, len(got)), got, detail
	}
	if d := krammar.Diff(in, dt, b.Name); d != "" {
		return "reference decoder recovers a different value from AppendTo's bytes (input vs decoded): " + d, got, detail
	}
	// ReadFrom / UnsafeReadFrom
	for _, unsafe := range []bool{false, true} {
		q := b.New()
		if b.Kind != "standalone" {
			b.SetVersion(q, v)
		}
		src := append([]byte(nil), got...)
		name := "ReadFrom"
		if unsafe {
			name = "UnsafeReadFrom"
			u, ok := q.(krammar.UnsafeCodec)
			if !ok {
				return b.Name + " has no UnsafeReadFrom", got, detail
			}
			err = u.UnsafeReadFrom(src)
		} else {
			err = q.(krammar.Codec).ReadFrom(src)
		}
		if err != nil {
			return fmt.Sprintf("%s of AppendTo's bytes fails: %v", name, err), got, detail
		}
		qt, err := b.Tree(q, v)
		if err != nil {
			return "harness: " + err.Error(), got, detail
		}
		if d := krammar.Diff(in, qt, b.Name); d != "" {
			detail["decoded"] = capStr(fmt.Sprintf("%+v", q), 4000)
			return fmt.Sprintf("%s does not recover the input (input vs decoded): %s", name, d), got, detail
		}
		if gv, ok := q.(interface{ GetVersion() int16 }); ok && int(gv.GetVersion()) != v {
			return fmt.Sprintf("%s changed the version to %d", name, gv.GetVersion()), got, detail
		}
		if d := krammar.CheckAbsent(b.S, v, reflect.ValueOf(q).Elem(), b.Br, b.Name); d != "" {
			return fmt.Sprintf("after %s: %s", name, d), got, detail
		}
		if !bytes.Equal(src, got) {
			return name + " modified its input", got, detail
		}
	}
	return "", got, detail
}

func hexCap(b []byte) string {
	if len(b) > 6000 {
		return hex.EncodeToString(b[:6000]) + fmt.Sprintf("...(%d bytes)", len(b))
	}
	return hex.EncodeToString(b)
}

func capStr(s string, n int) string {
	if len(s) > n {
		return s[:n] + "..."
	}
	return s
}

func digest(b *krammar.Binding, v, mode int, enc []byte) string {
	h := fnv.New64a()
	h.Write(enc)
	return fmt.Sprintf("%s/v%d/m%d/%x", b.Name, v, mode, h.Sum64())
}

func record(c krammar.Cell, mode int, enc []byte) {
	ev.Case(digest(c.B, c.V, mode, enc), c.Nontrivial())
	ev.Class(fmt.Sprintf("mode_%d", mode))
	if c.B.S.Flexible(c.V) {
		ev.Class("cell_flexible")
	} else {
		ev.Class("cell_not_flexible")
	}
	ev.SampleIf(func() any {
		return map[string]any{"type": c.B.Name, "version": c.V, "mode": mode, "encoded_len": len(enc), "encoded_hex_prefix": hex.EncodeToString(enc[:min(len(enc), 48)]), "nontrivial": c.Nontrivial()}
	})
}

// TestCodec enumerates the whole (type, version) grid (sharded by index) and checks,
// per cell, three systematic values (minimal / empty / full) and -rapid.checks random
// values.
func TestCodec(t *testing.T) {
	load(t)
	grid := krammar.Grid(binds)
	sh, nsh := ev.Shard()
	cells, nt := 0, 0
	for i, c := range grid {
		if i%nsh != sh {
			continue
		}
		cells++
		if c.Nontrivial() {
			nt++
		}
		for mode := 0; mode < krammar.ModeRandom; mode++ {
			mode := mode
			gen := rapid.Custom(func(rt *rapid.T) any { return c.B.Generate(rt, c.V, mode, nil) })
			p := gen.Example(int(ev.Seed()%1000003)*7 + mode)
			// class counters for the systematic values come from a second, counted pass
			msg, enc, detail := checkValue(c.B, c.V, p)
			if msg != "" {
				detail["mode"] = mode
				violation(t, fmt.Sprintf("%s-v%d-m%d", c.B.Name, c.V, mode), detail, "%s version %d (systematic value, mode %d): %s", c.B.Name, c.V, mode, msg)
			}
			record(c, mode, enc)
		}
		rapid.Check(t, func(rt *rapid.T) {
			p := c.B.Generate(rt, c.V, krammar.ModeRandom, ev.Class)
			msg, enc, _ := checkValue(c.B, c.V, p)
			if msg != "" {
				rt.Fatalf("VERIF-VIOLATION C15 %s version %d: %s", c.B.Name, c.V, msg)
			}
			record(c, krammar.ModeRandom, enc)
		})
		if t.Failed() {
			return
		}
	}
	ev.ClassN("cells", int64(cells))
	ev.ClassN("cells_nontrivial", int64(nt))
	ev.Extra("grid_cells_total", fmt.Sprint(len(grid)))
	ev.Exhaustive(false)
}
