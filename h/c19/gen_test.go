package c19

// Generators for the C19 check: payload recipes (expanded deterministically from
// rapid-drawn parameters, so large payloads stay cheap to draw and shrink), codec
// preference lists with levels, compress flags, frame builders and byte mutations.

import (
	"bytes"
	"encoding/binary"
	"fmt"
	"hash/fnv"
	"math"

	kgzip "github.com/klauspost/compress/gzip"
	"github.com/klauspost/compress/zstd"
	"github.com/twmb/franz-go/pkg/kgo"
	"pgregory.net/rapid"
)

var codecName = [...]string{"none", "gzip", "snappy", "lz4", "zstd"}

// ---- deterministic expander (pure function of rapid-drawn values) ------------------

type xs64 uint64

func (x *xs64) next() uint64 {
	v := uint64(*x)
	v ^= v << 13
	v ^= v >> 7
	v ^= v << 17
	*x = xs64(v)
	return v * 0x2545F4914F6CDD1D
}
func (x *xs64) intn(n int) int { return int(x.next() % uint64(n)) }

func newXS(seed uint64) *xs64 {
	x := xs64(seed*0x9E3779B97F4A7C15 + 0x7F4A7C15)
	if x == 0 {
		x = 1
	}
	return &x
}

type payloadSpec struct {
	Kind  string
	Len   int
	Seed  uint64
	Param int
	Raw   []byte // Kind "raw" only
}

func (p payloadSpec) String() string {
	if p.Kind == "raw" {
		return fmt.Sprintf("raw:%x", p.Raw)
	}
	return fmt.Sprintf("%s:len=%d,seed=%d,param=%d", p.Kind, p.Len, p.Seed, p.Param)
}

func (p payloadSpec) bytes() []byte {
	n := p.Len
	r := newXS(p.Seed)
	out := make([]byte, 0, n)
	switch p.Kind {
	case "raw":
		return append([]byte(nil), p.Raw...)
	case "rand":
		for len(out) < n {
			out = binary.LittleEndian.AppendUint64(out, r.next())
		}
	case "same":
		for len(out) < n {
			out = append(out, byte(p.Param))
		}
	case "period":
		pat := make([]byte, p.Param)
		for i := range pat {
			pat[i] = byte(r.next())
		}
		for len(out) < n {
			out = append(out, pat...)
		}
	case "lowent":
		for len(out) < n {
			out = append(out, "etaoin shrdlu"[r.intn(p.Param)])
		}
	case "records":
		// record-batch-like repeated structures: length, attrs, deltas, key, value, headers
		for i := 0; len(out) < n; i++ {
			key := fmt.Sprintf("key-%06d", i%1000)
			val := fmt.Sprintf(`{"id":%d,"user":"user-%d","ok":true,"blob":"%x"}`, i, r.intn(50), r.next()>>(uint(p.Param)%64))
			rec := []byte{0}
			rec = binary.AppendVarint(rec, int64(i*3))
			rec = binary.AppendVarint(rec, int64(i))
			rec = binary.AppendVarint(rec, int64(len(key)))
			rec = append(rec, key...)
			rec = binary.AppendVarint(rec, int64(len(val)))
			rec = append(rec, val...)
			rec = binary.AppendVarint(rec, 0)
			out = binary.AppendVarint(out, int64(len(rec)))
			out = append(out, rec...)
		}
	case "mixed":
		// literal stretches, byte runs and copies from arbitrary (also far) earlier positions
		for len(out) < n {
			switch r.intn(4) {
			case 0:
				k := 1 + r.intn(2000)
				for j := 0; j < k; j++ {
					out = append(out, byte(r.next()))
				}
			case 1:
				k := 1 + r.intn(3000)
				b := byte(r.next())
				for j := 0; j < k; j++ {
					out = append(out, b)
				}
			default:
				if len(out) == 0 {
					out = append(out, byte(r.next()))
					continue
				}
				dist := 1 + r.intn(len(out))
				if r.intn(3) == 0 && dist > p.Param && p.Param > 0 {
					dist = 1 + r.intn(p.Param)
				}
				k := 4 + r.intn(5000)
				for j := 0; j < k; j++ {
					out = append(out, out[len(out)-dist])
				}
			}
		}
	default:
		panic("unknown payload kind " + p.Kind)
	}
	return out[:n]
}

func genLen(t *rapid.T, maxLen int) int {
	switch rapid.IntRange(0, 9).Draw(t, "lenClass") {
	case 0:
		return rapid.IntRange(0, 2).Draw(t, "lenTiny")
	case 1, 2:
		return rapid.IntRange(0, min(300, maxLen)).Draw(t, "lenSmall")
	case 3, 4:
		return rapid.IntRange(0, min(8192, maxLen)).Draw(t, "lenMedium")
	case 5, 6:
		// around block / window boundaries of the codecs
		var bs []int
		for _, b := range []int{1 << 15, 1 << 16, 1 << 17, 1 << 18, 1 << 20} {
			if b-2 <= maxLen {
				bs = append(bs, b)
			}
		}
		if len(bs) == 0 {
			return rapid.IntRange(0, maxLen).Draw(t, "lenAny")
		}
		b := rapid.SampledFrom(bs).Draw(t, "lenBoundary")
		return min(maxLen, b+rapid.IntRange(-2, 2).Draw(t, "lenBoundaryDelta"))
	case 7:
		return rapid.IntRange(0, min(70000, maxLen)).Draw(t, "lenTo70k")
	default:
		return rapid.IntRange(0, maxLen).Draw(t, "lenAny")
	}
}

func genPayloadLen(t *rapid.T, n int) payloadSpec {
	kind := rapid.SampledFrom([]string{"raw", "rand", "same", "period", "lowent", "records", "mixed", "mixed", "records"}).Draw(t, "payloadKind")
	p := payloadSpec{Kind: kind, Len: n}
	switch kind {
	case "raw":
		if n > 512 {
			p.Kind = "rand"
			p.Seed = rapid.Uint64().Draw(t, "seed")
		} else {
			p.Raw = rapid.SliceOfN(rapid.Byte(), n, n).Draw(t, "raw")
		}
	case "same":
		p.Param = rapid.IntRange(0, 255).Draw(t, "byte")
	case "period":
		p.Param = rapid.IntRange(1, 300).Draw(t, "period")
		p.Seed = rapid.Uint64().Draw(t, "seed")
	case "lowent":
		p.Param = rapid.IntRange(2, 13).Draw(t, "alphabet")
		p.Seed = rapid.Uint64().Draw(t, "seed")
	case "records":
		p.Param = rapid.IntRange(0, 63).Draw(t, "blobShift")
		p.Seed = rapid.Uint64().Draw(t, "seed")
	case "mixed":
		p.Param = rapid.SampledFrom([]int{0, 16, 2047, 2048, 65535, 65536}).Draw(t, "nearDist")
		p.Seed = rapid.Uint64().Draw(t, "seed")
	default:
		p.Seed = rapid.Uint64().Draw(t, "seed")
	}
	return p
}

func genPayload(t *rapid.T, maxLen int) payloadSpec { return genPayloadLen(t, genLen(t, maxLen)) }

// ---- codec preference lists -----------------------------------------------------------

type prefItem struct {
	Kind     int // kgo.CompressionCodecType value 0..4
	SetLevel bool
	Level    int
}

func (p prefItem) String() string {
	if p.SetLevel {
		return fmt.Sprintf("%s@%d", codecName[p.Kind], p.Level)
	}
	return codecName[p.Kind]
}

func (p prefItem) codec() kgo.CompressionCodec {
	var c kgo.CompressionCodec
	switch p.Kind {
	case 0:
		c = kgo.NoCompression()
	case 1:
		c = kgo.GzipCompression()
	case 2:
		c = kgo.SnappyCompression()
	case 3:
		c = kgo.Lz4Compression()
	case 4:
		c = kgo.ZstdCompression()
	}
	if p.SetLevel {
		c = c.WithLevel(p.Level)
	}
	return c
}

// levelValid says whether the library behind the codec accepts the level as given (for
// class counters only; invalid levels must simply fall back to a default).
func (p prefItem) levelValid() bool {
	if !p.SetLevel {
		return true
	}
	switch p.Kind {
	case 1:
		return p.Level >= -2 && p.Level <= 9
	case 3:
		if p.Level <= 0 {
			return true // clamped to 0 = fast
		}
		for n := 1; n <= 9; n++ {
			if p.Level == 1<<(8+n) {
				return true
			}
		}
		return false
	case 4:
		return p.Level >= 1 && p.Level <= 4
	}
	return true
}

var levelPool = map[int][]int{
	0: {0, 1, -1},
	1: {-3, -2, -1, 0, 1, 2, 3, 4, 5, 6, 7, 8, 9, 10, 100, -100, math.MaxInt32, math.MinInt32},
	2: {0, 1, -1, 9, 1000},
	3: {0, -1, -512, 1, 9, 256, 511, 512, 1024, 2048, 4096, 8192, 16384, 32768, 65536, 131072, 262144, 513, math.MaxInt32, math.MinInt32},
	4: {0, 1, 2, 3, 4, 5, -1, 11, 19, 22, 1000, math.MaxInt32, math.MinInt32},
}

func genPrefItem(t *rapid.T, kind int) prefItem {
	p := prefItem{Kind: kind}
	switch rapid.IntRange(0, 9).Draw(t, "levelMode") {
	case 0, 1:
	case 2:
		p.SetLevel = true
		p.Level = rapid.IntRange(-40, 40).Draw(t, "levelAny")
	default:
		p.SetLevel = true
		p.Level = rapid.SampledFrom(levelPool[kind]).Draw(t, "level")
	}
	return p
}

func genPrefs(t *rapid.T) []prefItem {
	n := rapid.IntRange(1, 4).Draw(t, "nPrefs")
	out := make([]prefItem, n)
	for i := range out {
		// none is rarer (it ends the list), zstd more frequent (it interacts with the flag)
		k := rapid.SampledFrom([]int{1, 2, 3, 4, 4, 1, 2, 3, 4, 0}).Draw(t, "codec")
		out[i] = genPrefItem(t, k)
	}
	return out
}

// modelOptions is the documented construction rule of DefaultCompressor: one entry per
// codec type (the first wins), preference order kept, nothing after "none" is reachable.
func modelOptions(prefs []prefItem) []prefItem {
	seen := map[int]bool{}
	var out []prefItem
	for _, p := range prefs {
		if seen[p.Kind] {
			continue
		}
		seen[p.Kind] = true
		out = append(out, p)
		if p.Kind == 0 {
			break
		}
	}
	return out
}

// modelUse: the first preferred codec the flags allow; "none" if nothing is left.
func modelUse(options []prefItem, disableZstd bool) prefItem {
	for _, o := range options {
		if o.Kind == 4 && disableZstd {
			continue
		}
		return o
	}
	return prefItem{Kind: 0}
}

func genFlags(t *rapid.T) ([]kgo.CompressFlag, bool) {
	var fl []kgo.CompressFlag
	switch rapid.IntRange(0, 7).Draw(t, "flagMode") {
	case 0, 1, 2:
	case 3, 4:
		fl = []kgo.CompressFlag{kgo.CompressDisableZstd}
	case 5:
		fl = []kgo.CompressFlag{kgo.CompressFlag(rapid.IntRange(2, 65535).Draw(t, "unknownFlag")), kgo.CompressDisableZstd}
	case 6:
		fl = []kgo.CompressFlag{kgo.CompressFlag(rapid.IntRange(2, 65535).Draw(t, "unknownFlag"))}
	case 7:
		fl = []kgo.CompressFlag{kgo.CompressDisableZstd, kgo.CompressFlag(0), kgo.CompressDisableZstd}
	}
	dis := false
	for _, f := range fl {
		if f == kgo.CompressDisableZstd {
			dis = true
		}
	}
	return fl, dis
}

// ---- user pool for the decompressor ------------------------------------------------

type decPool struct {
	ln, cp int
	gets   int
}

func (p *decPool) GetDecompressBytes(_ []byte, _ kgo.CompressionCodecType) []byte {
	p.gets++
	s := make([]byte, p.cp)
	for i := range s {
		s[i] = 0xEE // stale content that must never show up in the output
	}
	return s[:p.ln]
}
func (p *decPool) PutDecompressBytes([]byte) {}

func genPool(t *rapid.T) *decPool {
	cp := rapid.SampledFrom([]int{0, 1, 16, 100, 4096, 70000}).Draw(t, "poolCap")
	ln := 0
	if cp > 0 {
		ln = rapid.SampledFrom([]int{0, 1, cp / 2, cp}).Draw(t, "poolLen")
	}
	return &decPool{ln: ln, cp: cp}
}

// ---- frame builders ---------------------------------------------------------------------

var frameCompressors = map[prefItem]kgo.Compressor{}

// kgoFrame compresses x with the default compressor configured for exactly one codec.
func kgoFrame(p prefItem, x []byte) []byte {
	// frame building is input preparation: the compressors are cached per (codec, level)
	// so that the hostile/limit tests do not pay an encoder construction per case
	c := frameCompressors[p]
	if c == nil {
		var err error
		c, err = kgo.DefaultCompressor(p.codec())
		if err != nil || c == nil {
			panic(fmt.Sprintf("VERIF-INFRA: cannot build a compressor for %v: %v", p, err))
		}
		frameCompressors[p] = c
	}
	out, ct := c.Compress(new(bytes.Buffer), x)
	if int(ct) != p.Kind {
		panic(fmt.Sprintf("single codec %v reported as %d", p, ct))
	}
	return append([]byte(nil), out...)
}

// xerialFrame cuts x into chunks and frames them; enc selects the chunk encoder.
func xerialFrame(x []byte, chunk int, enc int, version, compat uint32) ([]byte, int) {
	var chunks [][]byte
	one := func(b []byte) []byte {
		switch enc {
		case 0:
			return refSnappyEncode(b)
		case 1:
			return kgoFrame(prefItem{Kind: 2}, b)
		default:
			return snappyLiteralOnly(b)
		}
	}
	if len(x) == 0 {
		chunks = append(chunks, one(nil))
	}
	for i := 0; i < len(x); i += chunk {
		chunks = append(chunks, one(x[i:min(len(x), i+chunk)]))
	}
	return refXerial(version, compat, chunks...), len(chunks)
}

func lz4Header(flg, bd byte) []byte {
	h := []byte{0x04, 0x22, 0x4D, 0x18, flg, bd}
	return append(h, byte(refXXH32(h[4:6], 0)>>8))
}

// lz4BombFrame: hand-built frame whose blocks are "one literal + a very long overlapping
// match"; total decoded size = blocks * perBlock. No checksums.
func lz4BombFrame(blocks, perBlock int, bdCode byte) []byte {
	out := lz4Header(0x60, bdCode<<4)
	for b := 0; b < blocks; b++ {
		ml := perBlock - 1 - 4 - 5 // one literal up front, 5 literals at the end (format rule)
		if ml < 15 {
			ml = 15
		}
		blk := []byte{0x1F, 'A', 1, 0}
		rem := ml - 15
		for rem >= 255 {
			blk = append(blk, 255)
			rem -= 255
		}
		blk = append(blk, byte(rem))
		blk = append(blk, 0x50, 'B', 'B', 'B', 'B', 'B')
		out = binary.LittleEndian.AppendUint32(out, uint32(len(blk)))
		out = append(out, blk...)
	}
	return binary.LittleEndian.AppendUint32(out, 0)
}

// lz4StoredFrame: hand-built frame of stored (uncompressed) blocks with content checksum.
func lz4StoredFrame(x []byte, blockLen int) []byte {
	out := lz4Header(0x64, 0x70)
	for i := 0; i < len(x); i += blockLen {
		b := x[i:min(len(x), i+blockLen)]
		out = binary.LittleEndian.AppendUint32(out, uint32(len(b))|0x80000000)
		out = append(out, b...)
	}
	out = binary.LittleEndian.AppendUint32(out, 0)
	return binary.LittleEndian.AppendUint32(out, refXXH32(x, 0))
}

var zstdStreamEncoders = map[int]*zstd.Encoder{}

// zstdStreamFrame: a zstd frame with a chosen window produced by the streaming encoder
// (several blocks and no declared content size once the payload exceeds one block); an
// input builder, not an oracle. Encoders are kept per window size (input preparation).
func zstdStreamFrame(x []byte, window int) []byte {
	var buf bytes.Buffer
	w := zstdStreamEncoders[window]
	if w == nil {
		var err error
		w, err = zstd.NewWriter(&buf, zstd.WithWindowSize(window), zstd.WithEncoderConcurrency(1))
		if err != nil {
			panic("VERIF-INFRA: zstd stream encoder: " + err.Error())
		}
		zstdStreamEncoders[window] = w
	} else {
		w.Reset(&buf)
	}
	if _, err := w.Write(x); err != nil {
		panic("VERIF-INFRA: zstd stream encoder: " + err.Error())
	}
	if err := w.Close(); err != nil {
		panic("VERIF-INFRA: zstd stream encoder: " + err.Error())
	}
	return append([]byte(nil), buf.Bytes()...)
}

// kgzipFrame: a gzip member written by klauspost/compress (kgo compresses with the
// standard library), optionally with the optional header fields set.
func kgzipFrame(x []byte, level int, headerFields bool) []byte {
	var buf bytes.Buffer
	w, err := kgzip.NewWriterLevel(&buf, level)
	if err != nil {
		panic("VERIF-INFRA: klauspost gzip writer: " + err.Error())
	}
	if headerFields {
		w.Name = "batch.bin"
		w.Comment = "c19"
		w.Extra = []byte{'A', 'P', 2, 0, 0x12, 0x34}
	}
	if _, err := w.Write(x); err != nil {
		panic("VERIF-INFRA: klauspost gzip writer: " + err.Error())
	}
	if err := w.Close(); err != nil {
		panic("VERIF-INFRA: klauspost gzip writer: " + err.Error())
	}
	return buf.Bytes()
}

// snappyLiteralOnly: a raw snappy block that stores x in literals of at most 60 bytes.
func snappyLiteralOnly(b []byte) []byte {
	out := binary.AppendUvarint(nil, uint64(len(b)))
	for len(b) > 0 {
		k := min(len(b), 60)
		out = append(out, byte(k-1)<<2)
		out = append(out, b[:k]...)
		b = b[k:]
	}
	return out
}

// ---- byte mutations ----------------------------------------------------------------

func genPos(t *rapid.T, n int) int {
	if n <= 0 {
		return 0
	}
	if rapid.Bool().Draw(t, "posInHeader") {
		return rapid.IntRange(0, min(n-1, 40)).Draw(t, "posHead")
	}
	return rapid.IntRange(0, n-1).Draw(t, "pos")
}

var interesting32 = []uint32{0, 1, 0x7f, 0x80, 0xff, 0xffff, 0x10000, 0x10001, 0x7fffffff, 0x80000000, 0xffffffff, 0xfffffff0}

// mutate applies one generated mutation and names it.
func mutate(t *rapid.T, b []byte, limit int64) ([]byte, string) {
	b = append([]byte(nil), b...)
	n := len(b)
	switch m := rapid.IntRange(0, 9).Draw(t, "mutation"); {
	case m == 0 && n > 0:
		p := genPos(t, n)
		b[p] ^= 1 << uint(rapid.IntRange(0, 7).Draw(t, "bit"))
		return b, "flipbit"
	case m == 1 && n > 0:
		p := genPos(t, n)
		b[p] = rapid.SampledFrom([]byte{0, 1, 0x7f, 0x80, 0xfe, 0xff}).Draw(t, "setTo")
		return b, "setbyte"
	case m == 2 && n > 0:
		return b[:rapid.IntRange(0, n-1).Draw(t, "truncTo")], "truncate"
	case m == 3 && n > 1:
		p := genPos(t, n)
		k := rapid.IntRange(1, min(n-p, 64)).Draw(t, "delLen")
		return append(b[:p], b[p+k:]...), "delete"
	case m == 4:
		p := genPos(t, n+1)
		if p > n {
			p = n
		}
		ins := rapid.SliceOfN(rapid.Byte(), 1, 16).Draw(t, "insert")
		out := append(append(append([]byte(nil), b[:p]...), ins...), b[p:]...)
		return out, "insert"
	case m == 5 && n > 1:
		p := genPos(t, n)
		k := rapid.IntRange(1, min(n-p, 256)).Draw(t, "dupLen")
		out := append(append(append([]byte(nil), b[:p+k]...), b[p:p+k]...), b[p+k:]...)
		return out, "duprange"
	case m == 6 && n >= 4:
		p := genPos(t, n-3)
		v := rapid.SampledFrom(append(append([]uint32(nil), interesting32...), uint32(limit-1), uint32(limit), uint32(limit+1))).Draw(t, "u32")
		if rapid.Bool().Draw(t, "bigEndian") {
			binary.BigEndian.PutUint32(b[p:], v)
		} else {
			binary.LittleEndian.PutUint32(b[p:], v)
		}
		return b, "setu32"
	case m == 7:
		return append(b, b...), "appendself"
	case m == 8:
		return append(b, rapid.SliceOfN(rapid.Byte(), 1, 32).Draw(t, "garbage")...), "appendgarbage"
	case m == 9 && n > 0:
		// rewrite a leading uvarint-looking region (snappy preamble, etc.)
		v := rapid.SampledFrom([]uint64{0, 1, uint64(limit - 1), uint64(limit), uint64(limit + 1), 1 << 31, 1<<32 - 1, 1 << 32, 1 << 40}).Draw(t, "uvarint")
		k := 0
		for k < n && k < 10 && b[k] >= 0x80 {
			k++
		}
		if k < n {
			k++
		}
		return append(binary.AppendUvarint(nil, v), b[k:]...), "setpreamble"
	}
	return b, "none"
}

func hash64(b []byte) uint64 {
	h := fnv.New64a()
	h.Write(b)
	return h.Sum64()
}
