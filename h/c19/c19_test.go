package c19

// C19: compression round-trips and decompression is bounded (pkg/kgo/compression.go).
//
//  TestRoundTrip   Decompress(Compress(x), reported codec) == x for generated payloads,
//                  preference lists, levels (valid and invalid) and flags; the reported
//                  codec is the first preferred codec the flags allow; zstd is never
//                  reported under CompressDisableZstd; the output decodes with an
//                  independent implementation (klauspost gzip - kgo uses the standard
//                  library's -, hand-written snappy block and LZ4 frame decoders).
//  TestXerial      xerial-framed snappy (hand-framed, three chunk encoders) decodes to
//                  the original bytes.
//  TestLimit       with the maximum decompressed size lowered through the verif hook:
//                  payloads just below / at / above the limit for every codec (and
//                  xerial): <= limit round-trips, > limit is an error, never data.
//  TestHostile     arbitrary bytes, mutated valid frames, hand-built bombs and
//                  multi-frame inputs for every codec: data or error, no panic, and
//                  len(output) <= limit.
//  FuzzDecompress / FuzzRoundTrip  native fuzz targets with the same oracles (thorough).

import (
	"bytes"
	"fmt"
	"io"
	"os"
	"strings"
	"testing"
	"time"

	kgzip "github.com/klauspost/compress/gzip"
	"github.com/twmb/franz-go/pkg/kgo"
	"pgregory.net/rapid"

	"verif/h/ev"
)

func TestMain(m *testing.M) { ev.Main(m, "C19") }

func maxPayload() int {
	if ev.Thorough() {
		return 1 << 20
	}
	return 64<<10 + 64
}

// safeDecompress turns a panic of the code under test into a reportable string.
func safeDecompress(d kgo.Decompressor, src []byte, ct kgo.CompressionCodecType) (out []byte, err error, panicked string) {
	defer func() {
		if r := recover(); r != nil {
			panicked = fmt.Sprint(r)
		}
	}()
	out, err = d.Decompress(src, ct)
	return
}

func safeCompress(c kgo.Compressor, dst *bytes.Buffer, src []byte, flags ...kgo.CompressFlag) (out []byte, ct kgo.CompressionCodecType, panicked string) {
	defer func() {
		if r := recover(); r != nil {
			panicked = fmt.Sprint(r)
		}
	}()
	out, ct = c.Compress(dst, src, flags...)
	return
}

func short(b []byte) string {
	if len(b) <= 48 {
		return fmt.Sprintf("%x", b)
	}
	return fmt.Sprintf("%x..(%d bytes, fnv %x)", b[:48], len(b), hash64(b))
}

func firstDiff(a, b []byte) string {
	n := min(len(a), len(b))
	for i := 0; i < n; i++ {
		if a[i] != b[i] {
			return fmt.Sprintf("len %d vs %d, first difference at byte %d (%#x vs %#x)", len(a), len(b), i, a[i], b[i])
		}
	}
	return fmt.Sprintf("len %d vs %d, common prefix equal", len(a), len(b))
}

// independentDecode decodes a compressed form with an implementation that shares no
// code with the one kgo uses. ok=false: no independent implementation (zstd).
func independentDecode(kind int, comp []byte, wantLen int) (out []byte, ok bool, err error) {
	switch kind {
	case 0:
		return comp, true, nil
	case 1:
		r, err := kgzip.NewReader(bytes.NewReader(comp))
		if err != nil {
			return nil, true, err
		}
		out, err = io.ReadAll(r)
		return out, true, err
	case 2:
		out, err = refSnappyDecode(comp, wantLen)
		return out, true, err
	case 3:
		out, _, err = refLZ4FrameDecode(comp, wantLen)
		return out, true, err
	}
	return nil, false, nil
}

// TestRefSelf: the reference encoder/decoder pair and the hand-built frames are
// consistent with each other (a failure here is a harness defect, not a violation).
func TestRefSelf(t *testing.T) {
	if got := refXXH32(nil, 0); got != 0x02CC5D05 {
		t.Fatalf("VERIF-INFRA: xxh32 of empty input = %#x", got)
	}
	if got := refXXH32([]byte("Nobody inspects the spammish repetition"), 0); got != 0xE2293B2F {
		t.Fatalf("VERIF-INFRA: xxh32 test vector = %#x", got)
	}
	for _, p := range []payloadSpec{{Kind: "rand", Len: 70000, Seed: 3}, {Kind: "same", Len: 70001, Param: 7}, {Kind: "records", Len: 30000, Seed: 5, Param: 8}, {Kind: "mixed", Len: 200000, Seed: 9, Param: 2047}, {Kind: "period", Len: 5000, Seed: 1, Param: 3}, {Kind: "rand", Len: 0}} {
		x := p.bytes()
		if len(x) != p.Len {
			t.Fatalf("VERIF-INFRA: payload %v expanded to %d bytes", p, len(x))
		}
		enc := refSnappyEncode(x)
		dec, err := refSnappyDecode(enc, len(x))
		if err != nil || !bytes.Equal(dec, x) {
			t.Fatalf("VERIF-INFRA: reference snappy pair does not round-trip %v: %v", p, err)
		}
		if dec, err := refSnappyDecode(snappyLiteralOnly(x), len(x)); err != nil || !bytes.Equal(dec, x) {
			t.Fatalf("VERIF-INFRA: literal-only snappy block does not decode with the reference decoder %v: %v", p, err)
		}
		if r, err := kgzip.NewReader(bytes.NewReader(kgzipFrame(x, kgzip.HuffmanOnly, true))); err != nil {
			t.Fatalf("VERIF-INFRA: klauspost gzip frame %v: %v", p, err)
		} else if dec, err := io.ReadAll(r); err != nil || !bytes.Equal(dec, x) {
			t.Fatalf("VERIF-INFRA: klauspost gzip frame does not round-trip %v: %v", p, err)
		}
		st := lz4StoredFrame(x, 1<<20)
		dec, _, err = refLZ4FrameDecode(st, len(x))
		if err != nil || !bytes.Equal(dec, x) {
			t.Fatalf("VERIF-INFRA: reference lz4 stored frame does not round-trip %v: %v", p, err)
		}
	}
	bomb := lz4BombFrame(3, 100000, 7)
	dec, info, err := refLZ4FrameDecode(bomb, -1)
	if err != nil || len(dec) != 300000 || info.Blocks != 3 {
		t.Fatalf("VERIF-INFRA: hand-built lz4 bomb decodes to %d bytes in %d blocks: %v", len(dec), info.Blocks, err)
	}
}

type rtCall struct {
	Payload payloadSpec
	Flags   []kgo.CompressFlag
	x, dec  []byte
}

func TestRoundTrip(t *testing.T) {
	shared := kgo.DefaultDecompressor() // one decompressor across all cases: its pools are reused
	maxLen := maxPayload()
	rapid.Check(t, func(t *rapid.T) {
		prefs := genPrefs(t)
		codecs := make([]kgo.CompressionCodec, len(prefs))
		for i, p := range prefs {
			codecs[i] = p.codec()
		}
		options := modelOptions(prefs)
		desc := fmt.Sprintf("prefs=%v", prefs)

		comp, err := kgo.DefaultCompressor(codecs...)
		if err != nil {
			t.Fatalf("DefaultCompressor(%v) failed for constructor-built codecs: %v", prefs, err)
		}
		if options[0].Kind == 0 {
			// documented: "If ... the specified codec is CodecNone, this returns 'nil, nil'"
			ev.Class("nil_compressor_none_first")
			ev.Case("rt|nil|"+desc, false)
			if comp != nil {
				t.Fatalf("%s: first preference is none, DefaultCompressor must return a nil compressor", desc)
			}
			return
		}
		if comp == nil {
			t.Fatalf("%s: DefaultCompressor returned a nil compressor although the first preference is %v", desc, options[0])
		}

		dec := shared
		var pool *decPool
		if rapid.IntRange(0, 3).Draw(t, "userPool") == 0 {
			pool = genPool(t)
			dec = kgo.DefaultDecompressor(pool)
			ev.Class("decompressor_with_user_pool")
		}
		dstMode := rapid.SampledFrom([]string{"fresh", "shared", "pool8k"}).Draw(t, "dstMode")
		var dst *bytes.Buffer
		switch dstMode {
		case "shared":
			dst = new(bytes.Buffer)
		case "pool8k":
			dst = bytes.NewBuffer(make([]byte, 8<<10)) // what the client's internal pool hands out
		}
		nCalls := rapid.IntRange(1, 3).Draw(t, "nCalls")
		calls := make([]*rtCall, 0, nCalls)
		for ci := 0; ci < nCalls; ci++ {
			call := &rtCall{Payload: genPayload(t, maxLen)}
			var disable bool
			call.Flags, disable = genFlags(t)
			calls = append(calls, call)
			x := call.Payload.bytes()
			call.x = x
			want := modelUse(options, disable)
			cdesc := fmt.Sprintf("%s flags=%v payload=%v (call %d, dst %s)", desc, call.Flags, call.Payload, ci, dstMode)

			d := dst
			if dstMode == "fresh" {
				d = new(bytes.Buffer)
			} else {
				d.Reset() // the client resets the pooled buffer before each use
			}
			out, ct, pan := safeCompress(comp, d, x, call.Flags...)
			if pan != "" {
				t.Fatalf("%s: Compress panicked: %s", cdesc, pan)
			}
			if disable && ct == kgo.CodecZstd {
				t.Fatalf("%s: zstd was chosen although CompressDisableZstd was passed", cdesc)
			}
			if int(ct) != want.Kind {
				t.Fatalf("%s: reported codec %d, want %d (%s): the first preferred codec the flags allow", cdesc, ct, want.Kind, codecName[want.Kind])
			}
			cbytes := append([]byte(nil), out...) // dst may be reused by the next call

			got, err, pan := safeDecompress(dec, cbytes, ct)
			if pan != "" {
				t.Fatalf("%s: Decompress panicked: %s", cdesc, pan)
			}
			if err != nil {
				t.Fatalf("%s: Decompress of the compressor's own output failed: %v (compressed %s)", cdesc, err, short(cbytes))
			}
			if !bytes.Equal(got, x) {
				t.Fatalf("%s: round trip changed the data: %s", cdesc, firstDiff(got, x))
			}
			call.dec = got

			ind, have, err := independentDecode(want.Kind, cbytes, len(x))
			if have {
				if err != nil {
					t.Fatalf("%s: independent %s decoder rejects the compressor's output: %v (compressed %s)", cdesc, codecName[want.Kind], err, short(cbytes))
				}
				if !bytes.Equal(ind, x) {
					t.Fatalf("%s: independent %s decoder yields different data: %s", cdesc, codecName[want.Kind], firstDiff(ind, x))
				}
			} else {
				ev.Class("no_independent_decoder_zstd")
			}

			nt := want.Kind != 0 && (len(cbytes) < len(x) || len(x) > 64<<10)
			ev.Case(fmt.Sprintf("rt|%v|dz=%v|%v", want, disable, call.Payload), nt)
			ev.Class("reported_" + codecName[want.Kind])
			ev.Class("payload_" + call.Payload.Kind)
			if len(x) > 64<<10 {
				ev.Class("payload_gt_64KiB")
			}
			if len(x) == 0 {
				ev.Class("payload_empty")
			}
			if len(cbytes) >= len(x) && want.Kind != 0 {
				ev.Class("incompressible_output_not_smaller")
			}
			if disable {
				ev.Class("flag_disable_zstd")
				if options[0].Kind == 4 {
					ev.Class("zstd_preferred_but_disabled")
					if want.Kind == 0 {
						ev.Class("zstd_only_and_disabled_falls_to_none")
					}
				}
			}
			if !want.levelValid() {
				ev.Class("level_out_of_range_" + codecName[want.Kind])
			} else if want.SetLevel {
				ev.Class("level_explicit_valid_" + codecName[want.Kind])
			}
			if nt {
				ev.SampleIf(func() any {
					return map[string]any{"test": "roundtrip", "prefs": fmt.Sprint(prefs), "flags": fmt.Sprint(call.Flags), "payload": call.Payload.String(), "reported": codecName[want.Kind], "compressed_len": len(cbytes), "payload_len": len(x)}
				})
			}
		}
		// the data handed out earlier must still be intact after later calls (records keep
		// referencing decompressed bytes while the client decompresses further batches)
		for ci, call := range calls {
			if !bytes.Equal(call.dec, call.x) {
				t.Fatalf("%s: data returned by Decompress call %d was overwritten by a later call: %s", desc, ci, firstDiff(call.dec, call.x))
			}
		}
	})
}

func TestXerial(t *testing.T) {
	shared := kgo.DefaultDecompressor()
	maxLen := maxPayload()
	rapid.Check(t, func(t *rapid.T) {
		p := genPayload(t, maxLen)
		x := p.bytes()
		var chunk int
		switch rapid.IntRange(0, 3).Draw(t, "chunkMode") {
		case 0:
			chunk = 32 << 10 // snappy-java's default block size
		case 1:
			chunk = rapid.IntRange(1, 64).Draw(t, "chunkTiny")
			if len(x) > 20000 {
				chunk *= 512
			}
		default:
			chunk = rapid.IntRange(1, max(1, len(x))).Draw(t, "chunk")
			if len(x)/chunk > 300 {
				chunk = len(x)/300 + 1
			}
		}
		enc := rapid.IntRange(0, 2).Draw(t, "chunkEncoder")
		ver := rapid.SampledFrom([]uint32{1, 1, 0, 2, 0xffffffff}).Draw(t, "version")
		compat := rapid.SampledFrom([]uint32{1, 1, 0, 0xffffffff}).Draw(t, "compat")
		frame, nChunks := xerialFrame(x, chunk, enc, ver, compat)
		desc := fmt.Sprintf("xerial payload=%v chunk=%d encoder=%d version=%d compat=%d", p, chunk, enc, ver, compat)
		dec := shared
		if rapid.IntRange(0, 2).Draw(t, "userPool") == 0 {
			dec = kgo.DefaultDecompressor(genPool(t))
			ev.Class("xerial_with_user_pool")
		}
		got, err, pan := safeDecompress(dec, frame, kgo.CodecSnappy)
		if pan != "" {
			t.Fatalf("%s: Decompress panicked: %s", desc, pan)
		}
		if err != nil {
			t.Fatalf("%s: valid xerial frame rejected: %v (frame %s)", desc, err, short(frame))
		}
		if !bytes.Equal(got, x) {
			t.Fatalf("%s: xerial frame decoded to different data: %s", desc, firstDiff(got, x))
		}
		ev.Case(fmt.Sprintf("xerial|%v|%d|%d", p, chunk, enc), nChunks >= 2)
		ev.Class(fmt.Sprintf("xerial_chunk_encoder_%d", enc))
		if nChunks >= 2 {
			ev.Class("xerial_multi_chunk")
		}
	})
}

// ---- lowered limit --------------------------------------------------------------------

// withLimit lowers the maximum decompressed size, builds a decompressor (the zstd decoder
// captures the limit when it is constructed) and returns a restore function.
func withLimit(limit int64, pools ...kgo.Pool) (kgo.Decompressor, func()) {
	old := kgo.VerifSetMaxDecompressedSize(limit)
	d := kgo.DefaultDecompressor(pools...)
	// force the lazily built zstd decoder into existence while the limit is in force
	d.Decompress([]byte{0x28, 0xb5, 0x2f, 0xfd, 0x20, 0x00, 0x01, 0x00, 0x00}, kgo.CodecZstd)
	return d, func() { kgo.VerifSetMaxDecompressedSize(old) }
}

func genLimit(t *rapid.T) int64 {
	// never below 64 KiB: kgo's own zstd encoder declares a 64 KiB window, and the zstd
	// decoder also caps the accepted window by the same number (an artefact of lowering
	// the limit far below what the production value 2^31-1 can ever be)
	switch rapid.IntRange(0, 3).Draw(t, "limitMode") {
	case 0, 1:
		return 64 << 10
	case 2:
		return int64(rapid.IntRange(64<<10, 96<<10).Draw(t, "limit"))
	default:
		return 128 << 10
	}
}

func TestLimit(t *testing.T) {
	rapid.Check(t, func(t *rapid.T) {
		limit := genLimit(t)
		var pools []kgo.Pool
		if rapid.IntRange(0, 3).Draw(t, "userPool") == 0 {
			pools = append(pools, genPool(t))
		}
		dec, restore := withLimit(limit, pools...)
		defer restore()

		var n int
		switch rapid.IntRange(0, 5).Draw(t, "sizeMode") {
		case 0, 1, 2:
			n = int(limit) + rapid.IntRange(-3, 3).Draw(t, "delta")
		case 3:
			n = int(limit) + rapid.IntRange(-2000, 2000).Draw(t, "deltaWide")
		case 4:
			n = int(limit) * rapid.IntRange(2, 4).Draw(t, "factor")
		default:
			n = rapid.IntRange(0, int(limit)).Draw(t, "below")
		}
		p := genPayloadLen(t, n)
		x := p.bytes()
		// 1..4 = the default compressor's own frame of that codec, 5 = xerial-framed snappy,
		// 6..9 = a valid frame written by a different encoder than the one kgo links for
		// compression (what other producers put on the wire): LZ4 frame of stored blocks,
		// zstd streaming frame (several blocks, usually no declared content size), gzip by
		// klauspost/compress (stored / huffman-only / dynamic blocks, optional header
		// fields), raw snappy block by the reference encoder
		kind := rapid.IntRange(1, 9).Draw(t, "codec")
		var frame []byte
		var ct kgo.CompressionCodecType
		var desc string
		name := ""
		foreign := kind >= 6
		switch {
		case kind == 6:
			bl := rapid.SampledFrom([]int{1 << 10, 64 << 10, int(limit), int(limit) + 1, 4 << 20}).Draw(t, "storedBlock")
			frame = lz4StoredFrame(x, bl)
			ct, name = kgo.CodecLz4, "lz4-stored"
			desc = fmt.Sprintf("limit=%d lz4 frame of stored blocks of %d bytes payload=%v", limit, bl, p)
		case kind == 7:
			w := rapid.SampledFrom([]int{1 << 10, 8 << 10, 32 << 10, 64 << 10}).Draw(t, "window")
			frame = zstdStreamFrame(x, w)
			ct, name = kgo.CodecZstd, "zstd-stream"
			desc = fmt.Sprintf("limit=%d zstd streaming-encoder frame window=%d payload=%v", limit, w, p)
		case kind == 8:
			lvl := rapid.SampledFrom([]int{kgzip.NoCompression, kgzip.BestSpeed, kgzip.DefaultCompression, kgzip.BestCompression, kgzip.HuffmanOnly, kgzip.StatelessCompression}).Draw(t, "kgzipLevel")
			hdr := rapid.Bool().Draw(t, "gzipHeaderFields")
			frame = kgzipFrame(x, lvl, hdr)
			ct, name = kgo.CodecGzip, "gzip-klauspost"
			desc = fmt.Sprintf("limit=%d klauspost gzip level=%d headerFields=%v payload=%v", limit, lvl, hdr, p)
		case kind == 9:
			if rapid.Bool().Draw(t, "literalOnly") {
				frame = snappyLiteralOnly(x)
			} else {
				frame = refSnappyEncode(x)
			}
			ct, name = kgo.CodecSnappy, "snappy-ref"
			desc = fmt.Sprintf("limit=%d raw snappy block by the reference encoder payload=%v", limit, p)
		}
		if kind == 5 {
			chunk := rapid.SampledFrom([]int{32 << 10, 1 << 10, int(limit), int(limit) / 2, int(limit) - 1, n + 1, 7777}).Draw(t, "chunk")
			if chunk < 1 {
				chunk = 1
			}
			enc := rapid.IntRange(0, 1).Draw(t, "chunkEncoder")
			frame, _ = xerialFrame(x, chunk, enc, 1, 1)
			ct = kgo.CodecSnappy
			desc = fmt.Sprintf("limit=%d xerial chunk=%d encoder=%d payload=%v", limit, chunk, enc, p)
			name = "xerial"
		} else if kind < 5 {
			pi := genPrefItem(t, kind)
			frame = kgoFrame(pi, x)
			ct = kgo.CompressionCodecType(kind)
			desc = fmt.Sprintf("limit=%d codec=%v payload=%v", limit, pi, p)
			name = codecName[kind]
		}
		got, err, pan := safeDecompress(dec, frame, ct)
		if pan != "" {
			t.Fatalf("%s: Decompress panicked: %s", desc, pan)
		}
		if int64(n) > limit {
			if err == nil {
				t.Fatalf("%s: a valid frame of %d bytes (> maximum decompressed size %d) was decompressed to %d bytes instead of being rejected", desc, n, limit, len(got))
			}
			ev.Class("limit_above_rejected_" + name)
		} else if foreign && err != nil {
			// Acceptance of other encoders' valid frames is not part of the property text
			// (it speaks of the default compressor's output): counted, not asserted.
			ev.Class("foreign_valid_frame_rejected_" + name)
		} else {
			if err != nil {
				t.Fatalf("%s: a valid frame of %d bytes (<= maximum decompressed size %d) was rejected: %v", desc, n, limit, err)
			}
			if !bytes.Equal(got, x) {
				t.Fatalf("%s: round trip under a lowered limit changed the data: %s", desc, firstDiff(got, x))
			}
			ev.Class("limit_at_or_below_accepted_" + name)
			if int64(n) == limit {
				ev.Class("limit_exactly_at_" + name)
			}
		}
		ev.Case(fmt.Sprintf("limit|%d|%s|%v", limit, name, p), true)
		ev.SampleIf(func() any {
			return map[string]any{"test": "limit", "limit": limit, "codec": name, "payload": p.String(), "frame_len": len(frame), "rejected": err != nil}
		})
	})
}

// ---- hostile inputs -------------------------------------------------------------------

var magics = map[int][][]byte{
	1: {{0x1f, 0x8b, 0x08}, {0x1f, 0x8b, 0x08, 0, 0, 0, 0, 0, 0, 0xff}},
	2: {{0x82, 'S', 'N', 'A', 'P', 'P', 'Y', 0}, {0x82, 'S', 'N', 'A', 'P', 'P', 'Y', 0, 0, 0, 0, 1, 0, 0, 0, 1}},
	3: {{0x04, 0x22, 0x4D, 0x18}, {0x04, 0x22, 0x4D, 0x18, 0x64, 0x70, 0xb9}, {0x04, 0x22, 0x4D, 0x18, 0x60, 0x40, 0x82}, {0x50, 0x2A, 0x4D, 0x18}},
	4: {{0x28, 0xb5, 0x2f, 0xfd}, {0x50, 0x2a, 0x4d, 0x18}, {0x37, 0xa4, 0x30, 0xec}},
}

// genHostile builds one hostile input for decoder `kind` (1..4) and says how.
func genHostile(t *rapid.T, kind int, limit int64) (in []byte, how string, mutatedValid bool) {
	smallOrNear := func() int {
		switch rapid.IntRange(0, 5).Draw(t, "hLenMode") {
		case 0:
			return int(limit) + rapid.IntRange(-2, 3).Draw(t, "hDelta")
		case 1:
			return rapid.IntRange(0, int(limit)*2).Draw(t, "hLenWide")
		default:
			return rapid.IntRange(0, 3000).Draw(t, "hLenSmall")
		}
	}
	switch mode := rapid.IntRange(0, 9).Draw(t, "hostileMode"); {
	case mode == 0:
		b := rapid.SliceOfN(rapid.Byte(), 0, 200).Draw(t, "arbitrary")
		return b, "arbitrary", false
	case mode == 1:
		m := rapid.SampledFrom(magics[kind]).Draw(t, "magic")
		b := rapid.SliceOfN(rapid.Byte(), 0, 200).Draw(t, "afterMagic")
		return append(append([]byte(nil), m...), b...), "magic+arbitrary", false
	case mode <= 5:
		// a valid frame of this codec (or, rarely, of another one), then 1..4 mutations
		src := kind
		if rapid.IntRange(0, 9).Draw(t, "crossCodec") == 0 {
			src = rapid.IntRange(1, 4).Draw(t, "otherCodec")
		}
		p := genPayloadLen(t, smallOrNear())
		x := p.bytes()
		var b []byte
		how = "valid-" + codecName[src]
		if src == 2 && rapid.Bool().Draw(t, "xerial") {
			chunk := rapid.SampledFrom([]int{64, 1000, 32 << 10, int(limit)}).Draw(t, "chunk")
			b, _ = xerialFrame(x, chunk, rapid.IntRange(0, 2).Draw(t, "chunkEncoder"), 1, 1)
			how = "valid-xerial"
		} else {
			b = kgoFrame(genPrefItem(t, src), x)
		}
		nm := rapid.IntRange(1, 4).Draw(t, "nMutations")
		for i := 0; i < nm; i++ {
			var m string
			b, m = mutate(t, b, limit)
			how += "+" + m
		}
		return b, how, src == kind
	case mode == 6:
		// several valid frames in a row: each below the limit, the sum may exceed it
		k := rapid.IntRange(2, 5).Draw(t, "nFrames")
		var b []byte
		for i := 0; i < k; i++ {
			n := rapid.IntRange(0, int(limit)).Draw(t, "frameLen")
			b = append(b, kgoFrame(genPrefItem(t, kind), genPayloadLen(t, n).bytes())...)
		}
		return b, fmt.Sprintf("concat-%d-frames", k), false
	case mode == 7:
		// hand-built bombs per codec
		switch kind {
		case 2:
			claim := rapid.SampledFrom([]uint64{uint64(limit), uint64(limit) + 1, 1 << 20, 1<<31 - 1, 1 << 31, 1<<32 - 1}).Draw(t, "claim")
			variant := rapid.IntRange(0, 2).Draw(t, "snappyBomb")
			if variant == 2 {
				// a valid raw block: a few dozen bytes that expand to a long run
				n := rapid.SampledFrom([]int{int(limit), int(limit) + 1, 2 * int(limit), 1 << 20}).Draw(t, "bombLen")
				return refSnappyEncode(bytes.Repeat([]byte{byte(n)}, n)), "snappy-bomb", false
			}
			if variant == 0 {
				// many chunks, each claiming up to the limit
				k := rapid.IntRange(2, 6).Draw(t, "nChunks")
				per := rapid.SampledFrom([]int{int(limit), int(limit)/2 + 1, int(limit) - 1, 1000}).Draw(t, "perChunk")
				var chunks [][]byte
				for i := 0; i < k; i++ {
					chunks = append(chunks, refSnappyEncode(make([]byte, per)))
				}
				if rapid.Bool().Draw(t, "lastChunkClaims") {
					chunks = append(chunks, append(appendUvarint(nil, claim), 0x00, 'x'))
				}
				return refXerial(1, 1, chunks...), "xerial-bomb", false
			}
			body := rapid.SliceOfN(rapid.Byte(), 0, 40).Draw(t, "body")
			return append(appendUvarint(nil, claim), body...), "snappy-claim", false
		case 3:
			blocks := rapid.IntRange(1, 6).Draw(t, "bombBlocks")
			per := rapid.SampledFrom([]int{int(limit) / 2, int(limit) - 1, int(limit), int(limit) + 1, 1 << 20, 4 << 20}).Draw(t, "perBlock")
			bd := byte(rapid.IntRange(4, 7).Draw(t, "bd"))
			return lz4BombFrame(blocks, per, bd), "lz4-bomb", false
		case 4:
			n := rapid.SampledFrom([]int{int(limit), int(limit) + 1, int(limit) * 3, 1 << 20}).Draw(t, "streamLen")
			w := rapid.SampledFrom([]int{1 << 10, 64 << 10, 128 << 10, 1 << 20, 8 << 20}).Draw(t, "window")
			p := genPayloadLen(t, n)
			return zstdStreamFrame(p.bytes(), w), "zstd-stream-no-content-size", false
		default:
			n := rapid.SampledFrom([]int{int(limit) + 1, int(limit) * 4, 1 << 20, 4 << 20}).Draw(t, "bombLen")
			return kgoFrame(prefItem{Kind: 1, SetLevel: true, Level: 9}, make([]byte, n)), "gzip-bomb", false
		}
	case mode == 8 && kind == 3:
		n := smallOrNear()
		bl := rapid.SampledFrom([]int{1, 100, 64 << 10, 4 << 20}).Draw(t, "storedBlock")
		if n/bl > 2000 {
			bl = n/2000 + 1
		}
		b := lz4StoredFrame(genPayloadLen(t, n).bytes(), bl)
		if rapid.Bool().Draw(t, "mutateStored") {
			b, _ = mutate(t, b, limit)
		}
		return b, "lz4-stored", false
	default:
		// structured xerial damage for the snappy decoder, otherwise header + arbitrary
		if kind == 2 {
			k := rapid.IntRange(0, 4).Draw(t, "nChunks")
			out := append([]byte(nil), magics[2][1]...)
			for i := 0; i < k; i++ {
				sz := rapid.SampledFrom(append(append([]uint32(nil), interesting32...), 3, 5, 20)).Draw(t, "chunkSize")
				out = append(out, byte(sz>>24), byte(sz>>16), byte(sz>>8), byte(sz))
				out = append(out, rapid.SliceOfN(rapid.Byte(), 0, 24).Draw(t, "chunkBody")...)
			}
			return out, "xerial-structured", false
		}
		m := rapid.SampledFrom(magics[kind]).Draw(t, "magic")
		b := rapid.SliceOfN(rapid.Byte(), 0, 64).Draw(t, "afterMagic")
		return append(append([]byte(nil), m...), b...), "magic+arbitrary", false
	}
}

func appendUvarint(b []byte, v uint64) []byte {
	for v >= 0x80 {
		b = append(b, byte(v)|0x80)
		v >>= 7
	}
	return append(b, byte(v))
}

// checkHostile is the hostile-side oracle shared with the fuzz target.
func checkHostile(d kgo.Decompressor, in []byte, kind int, limit int64) (outLen int, err error, violation string) {
	out, err, pan := safeDecompress(d, in, kgo.CompressionCodecType(kind))
	if pan != "" {
		return 0, nil, "Decompress panicked: " + pan
	}
	if err == nil && int64(len(out)) > limit {
		return len(out), nil, fmt.Sprintf("Decompress returned %d bytes, more than the maximum decompressed size %d", len(out), limit)
	}
	return len(out), err, ""
}

func TestHostile(t *testing.T) {
	rapid.Check(t, func(t *rapid.T) {
		limit := genLimit(t)
		var pools []kgo.Pool
		if rapid.IntRange(0, 4).Draw(t, "userPool") == 0 {
			pools = append(pools, genPool(t))
		}
		dec, restore := withLimit(limit, pools...)
		defer restore()
		kind := rapid.IntRange(1, 4).Draw(t, "decoder")
		in, how, mutatedValid := genHostile(t, kind, limit)
		n, err, viol := checkHostile(dec, in, kind, limit)
		if viol != "" {
			t.Fatalf("limit=%d decoder=%s input(%s)=%s: %s", limit, codecName[kind], how, short(in), viol)
		}
		survived := mutatedValid && err == nil && strings.Contains(how, "+") && !strings.HasSuffix(how, "+none")
		ev.Case(fmt.Sprintf("hostile|%s|%x|%d", codecName[kind], hash64(in), len(in)), survived)
		base := how
		if i := strings.IndexByte(how, '+'); i >= 0 && strings.HasPrefix(how, "valid-") {
			base = how[:i] + "+mutations"
		}
		ev.Class("hostile_" + codecName[kind] + "_" + base)
		if err == nil {
			ev.Class("hostile_decoded_ok_" + codecName[kind])
			if int64(n) == limit {
				ev.Class("hostile_decoded_exactly_limit")
			}
		} else {
			ev.Class("hostile_error_" + codecName[kind])
			if strings.Contains(err.Error(), "exceeds") {
				ev.Class("hostile_rejected_as_too_large_" + codecName[kind])
			}
		}
		if survived {
			ev.Class("mutated_valid_frame_still_decodes_" + codecName[kind])
			ev.SampleIf(func() any {
				return map[string]any{"test": "hostile", "limit": limit, "decoder": codecName[kind], "how": how, "input": short(in), "decoded_len": n}
			})
		}
	})
}

// ---- native fuzz targets (thorough tier) --------------------------------------------

const fuzzLimit = 64 << 10

func fuzzSeedPayloads() [][]byte {
	return [][]byte{
		nil,
		[]byte("hello"),
		payloadSpec{Kind: "same", Len: 1000, Param: 0}.bytes(),
		payloadSpec{Kind: "rand", Len: 3000, Seed: 11}.bytes(),
		payloadSpec{Kind: "records", Len: 5000, Seed: 12, Param: 40}.bytes(),
		payloadSpec{Kind: "mixed", Len: 70000, Seed: 13, Param: 2048}.bytes(),
	}
}

// FuzzDecompress: data or error, no panic, len(output) <= limit, for every codec.
// sel: 0..3 -> gzip, snappy, lz4, zstd on the raw bytes; 4 -> snappy with a xerial
// header put in front; anything else -> all four decoders.
func FuzzDecompress(f *testing.F) {
	dec, restore := withLimit(fuzzLimit)
	defer restore()
	for _, x := range fuzzSeedPayloads() {
		for kind := 1; kind <= 4; kind++ {
			f.Add(kgoFrame(prefItem{Kind: kind}, x), byte(kind-1))
		}
		fr, _ := xerialFrame(x, 1000, 0, 1, 1)
		f.Add(fr, byte(1))
		f.Add(fr[16:], byte(4))
		f.Add(lz4StoredFrame(x, 100), byte(2))
		f.Add(kgzipFrame(x, kgzip.NoCompression, true), byte(0))
		f.Add(zstdStreamFrame(x, 1<<10), byte(3))
	}
	f.Add(lz4BombFrame(2, fuzzLimit, 7), byte(2))
	f.Add(zstdStreamFrame(make([]byte, fuzzLimit+1), 128<<10), byte(3))
	f.Fuzz(func(t *testing.T, data []byte, sel byte) { fuzzDecompressOne(t, dec, data, sel) })
}

func fuzzDecompressOne(t testing.TB, dec kgo.Decompressor, data []byte, sel byte) {
	// Diagnosis aid only (never part of a verdict): the go fuzzing engine kills a worker
	// whose single execution takes more than 10 s of wall time (it then reports "fuzzing
	// process hung or terminated unexpectedly") and discards the worker's stderr. With
	// VERIF_FUZZ_TRACE=<dir> the input in flight is kept in <dir>/exec-<pid> and slow
	// executions in <dir>/slow-*.
	if d := os.Getenv("VERIF_FUZZ_TRACE"); d != "" {
		fn := fmt.Sprintf("%s/exec-%d", d, os.Getpid())
		os.WriteFile(fn, append([]byte{sel}, data...), 0o644)
		st := time.Now()
		defer func() {
			if el := time.Since(st); el > time.Second {
				os.WriteFile(fmt.Sprintf("%s/slow-%d-%d", d, os.Getpid(), el.Milliseconds()), append([]byte{sel}, data...), 0o644)
			}
			os.Remove(fn)
		}()
	}
	kinds := []int{1, 2, 3, 4}
	in := data
	switch {
	case sel < 4:
		kinds = []int{int(sel) + 1}
	case sel == 4:
		kinds = []int{2}
		in = append(append([]byte(nil), magics[2][1]...), data...)
	}
	for _, k := range kinds {
		if _, _, viol := checkHostile(dec, in, k, fuzzLimit); viol != "" {
			t.Fatalf("decoder=%s input=%x: %s", codecName[k], in, viol)
		}
	}
}

var fuzzCompressors = map[[2]prefItem]kgo.Compressor{}

// FuzzRoundTrip: the round-trip and independent-decoder oracle on fuzzer-chosen payloads.
func FuzzRoundTrip(f *testing.F) {
	dec := kgo.DefaultDecompressor()
	for i, x := range fuzzSeedPayloads() {
		for kind := 0; kind < 4; kind++ { // sel%4: 0 gzip, 1 snappy, 2 lz4, 3 zstd
			f.Add(x, byte(kind), int16(i), false)
			f.Add(x, byte(kind), int16(7*i+3), false)
		}
		f.Add(x, byte(3), int16(3), true) // zstd first, gzip second, zstd disabled
	}
	f.Fuzz(func(t *testing.T, x []byte, sel byte, level int16, disable bool) {
		fuzzRoundTripOne(t, dec, x, sel, level, disable)
	})
}

func fuzzRoundTripOne(t testing.TB, dec kgo.Decompressor, x []byte, sel byte, level int16, disable bool) {
	// The level selects from the codec's level pool (valid levels, edges, far outside), so
	// the set of distinct compressors is small and every one of them is built once per
	// worker process. The fuzzing engine kills a worker whose single execution exceeds 10 s
	// of wall time and reports that as a failure; building encoders per execution makes
	// that reachable on a busy machine. For the same reason zstd's "best" level (4: tens of
	// megabytes of tables to clear whenever the encoder pool was emptied by a GC cycle) is
	// left to TestRoundTrip, which has no watchdog.
	first := prefItem{Kind: 1 + int(sel)%4}
	if level != 0 {
		pool := levelPool[first.Kind]
		first.SetLevel, first.Level = true, pool[int(uint16(level))%len(pool)]
		if first.Kind == 4 && first.Level == 4 {
			first.Level = 3
		}
	}
	prefs := []prefItem{first, {Kind: 1 + int(sel>>2)%4}}
	key := [2]prefItem{prefs[0], prefs[1]}
	comp := fuzzCompressors[key]
	if comp == nil {
		var err error
		comp, err = kgo.DefaultCompressor(prefs[0].codec(), prefs[1].codec())
		if err != nil || comp == nil {
			t.Fatalf("DefaultCompressor(%v) = %v, %v", prefs, comp, err)
		}
		fuzzCompressors[key] = comp
	}
	var flags []kgo.CompressFlag
	if disable {
		flags = append(flags, kgo.CompressDisableZstd)
	}
	want := modelUse(modelOptions(prefs), disable)
	out, ct := comp.Compress(new(bytes.Buffer), x, flags...)
	if int(ct) != want.Kind {
		t.Fatalf("prefs=%v disable=%v: reported codec %d, want %d", prefs, disable, ct, want.Kind)
	}
	cbytes := append([]byte(nil), out...)
	got, err := dec.Decompress(cbytes, ct)
	if err != nil || !bytes.Equal(got, x) {
		t.Fatalf("prefs=%v disable=%v payload=%x: round trip failed: err=%v %s", prefs, disable, x, err, firstDiff(got, x))
	}
	if ind, have, err := independentDecode(want.Kind, cbytes, len(x)); have && (err != nil || !bytes.Equal(ind, x)) {
		t.Fatalf("prefs=%v payload=%x: independent %s decoder: err=%v %s", prefs, x, codecName[want.Kind], err, firstDiff(ind, x))
	}
}
