package c19

import (
	"go/ast"
	"go/parser"
	"go/token"
	"os"
	"strconv"
	"strings"
	"testing"

	"github.com/twmb/franz-go/pkg/kgo"
)

// TestReplayFuzzCrasher re-runs a saved native-fuzz crasher (./check C19 --replay <file>):
// the corpus file ("go test fuzz v1" + one Go literal per argument) is parsed and pushed
// through the oracle of the target it belongs to: two arguments ([]byte, byte) =
// FuzzDecompress, four ([]byte, byte, int16, bool) = FuzzRoundTrip. Rapid .fail files are
// replayed by rapid itself; without VERIF_REPLAY this test does nothing.
func TestReplayFuzzCrasher(t *testing.T) {
	p := os.Getenv("VERIF_REPLAY")
	if p == "" || strings.HasSuffix(p, ".fail") {
		return
	}
	raw, err := os.ReadFile(p)
	if err != nil {
		t.Fatalf("VERIF-INFRA: cannot read replay file: %v", err)
	}
	lines := strings.Split(strings.TrimSpace(string(raw)), "\n")
	if !strings.HasPrefix(lines[0], "go test fuzz v1") || (len(lines) != 3 && len(lines) != 5) {
		t.Fatalf("VERIF-INFRA: %s is not a corpus file of FuzzDecompress or FuzzRoundTrip", p)
	}
	// lit returns the conversion's type name and the literal's source text
	lit := func(s string) (typ, val string) {
		e, err := parser.ParseExpr(s)
		if err != nil {
			t.Fatalf("VERIF-INFRA: cannot parse corpus line %q: %v", s, err)
		}
		c, ok := e.(*ast.CallExpr)
		if !ok || len(c.Args) != 1 {
			t.Fatalf("VERIF-INFRA: unexpected corpus line %q", s)
		}
		neg, arg := "", c.Args[0]
		if u, ok := arg.(*ast.UnaryExpr); ok && u.Op == token.SUB {
			neg, arg = "-", u.X
		}
		switch f := c.Fun.(type) {
		case *ast.Ident:
			typ = f.Name
		case *ast.ArrayType:
			typ = "[]byte"
		}
		switch a := arg.(type) {
		case *ast.BasicLit:
			return typ, neg + a.Value
		case *ast.Ident: // true / false
			return typ, a.Name
		}
		t.Fatalf("VERIF-INFRA: unexpected corpus line %q", s)
		return "", ""
	}
	bytesOf := func(s string) []byte {
		typ, v := lit(s)
		u, err := strconv.Unquote(v)
		if typ != "[]byte" || err != nil {
			t.Fatalf("VERIF-INFRA: want a []byte literal, got %q", s)
		}
		return []byte(u)
	}
	byteOf := func(s string) byte {
		typ, v := lit(s)
		if typ != "byte" {
			t.Fatalf("VERIF-INFRA: want a byte literal, got %q", s)
		}
		if strings.HasPrefix(v, "'") {
			r, _, _, err := strconv.UnquoteChar(v[1:len(v)-1], '\'')
			if err != nil {
				t.Fatalf("VERIF-INFRA: byte literal %q: %v", s, err)
			}
			return byte(r)
		}
		n, err := strconv.ParseUint(v, 0, 8)
		if err != nil {
			t.Fatalf("VERIF-INFRA: byte literal %q: %v", s, err)
		}
		return byte(n)
	}
	data, sel := bytesOf(lines[1]), byteOf(lines[2])
	if len(lines) == 3 {
		t.Logf("replaying FuzzDecompress input: %d bytes, selector %d", len(data), sel)
		dec, restore := withLimit(fuzzLimit)
		defer restore()
		fuzzDecompressOne(t, dec, data, sel)
		return
	}
	typ, lv := lit(lines[3])
	level, err := strconv.ParseInt(lv, 0, 16)
	if typ != "int16" || err != nil {
		t.Fatalf("VERIF-INFRA: want an int16 literal, got %q", lines[3])
	}
	typ, bv := lit(lines[4])
	if typ != "bool" || (bv != "true" && bv != "false") {
		t.Fatalf("VERIF-INFRA: want a bool literal, got %q", lines[4])
	}
	t.Logf("replaying FuzzRoundTrip input: %d bytes, selector %d, level %d, disableZstd %s", len(data), sel, level, bv)
	fuzzRoundTripOne(t, kgo.DefaultDecompressor(), data, sel, int16(level), bv == "true")
}
