// Package c19 holds the independent reference decoders used by the C19 check. They are
// written from the format descriptions only (snappy format_description.txt, LZ4 frame
// format 1.6.x + LZ4 block format, xxHash32 specification) and share no code with the
// libraries kgo links (klauspost/compress/s2, pierrec/lz4).
package c19

import (
	"encoding/binary"
	"errors"
	"fmt"
)

// ---------------------------------------------------------------------------------
// Snappy block format (raw, unframed): uvarint(decoded length) then elements.
//   tag&3 == 0  literal: len-1 = tag>>2 if < 60, else stored little-endian in the
//               following (tag>>2)-59 bytes
//   tag&3 == 1  copy, len = 4 + (tag>>2)&7, offset = (tag>>5)<<8 | next byte
//   tag&3 == 2  copy, len = 1 + tag>>2, offset = next 2 bytes little-endian
//   tag&3 == 3  copy, len = 1 + tag>>2, offset = next 4 bytes little-endian
// offset 0 and offsets beyond the bytes produced so far are invalid; copies may overlap
// their own output. The number of bytes produced must equal the preamble.

func refSnappyDecode(src []byte, maxLen int) ([]byte, error) {
	// uvarint, at most 5 bytes, value < 2^32
	var n uint64
	i := 0
	for shift := uint(0); ; shift += 7 {
		if i >= len(src) {
			return nil, errors.New("snappy: truncated length preamble")
		}
		if i >= 5 {
			return nil, errors.New("snappy: length preamble longer than 5 bytes")
		}
		b := src[i]
		i++
		n |= uint64(b&0x7f) << shift
		if b < 0x80 {
			break
		}
	}
	if n > 0xffffffff {
		return nil, errors.New("snappy: decoded length exceeds 2^32-1")
	}
	if maxLen >= 0 && n > uint64(maxLen) {
		return nil, fmt.Errorf("snappy: decoded length %d larger than the reference decoder's limit %d", n, maxLen)
	}
	out := make([]byte, 0, n)
	for i < len(src) {
		tag := src[i]
		i++
		var length, offset int
		switch tag & 3 {
		case 0:
			l := int(tag >> 2)
			if l >= 60 {
				nb := l - 59
				if i+nb > len(src) {
					return nil, errors.New("snappy: truncated literal length")
				}
				l = 0
				for k := 0; k < nb; k++ {
					l |= int(src[i+k]) << (8 * uint(k))
				}
				i += nb
			}
			l++
			if l <= 0 || i+l > len(src) || i+l < i {
				return nil, errors.New("snappy: literal runs past the input")
			}
			if uint64(len(out)+l) > n {
				return nil, errors.New("snappy: output longer than the preamble says")
			}
			out = append(out, src[i:i+l]...)
			i += l
			continue
		case 1:
			if i >= len(src) {
				return nil, errors.New("snappy: truncated copy-1")
			}
			length = 4 + int(tag>>2)&7
			offset = int(tag>>5)<<8 | int(src[i])
			i++
		case 2:
			if i+2 > len(src) {
				return nil, errors.New("snappy: truncated copy-2")
			}
			length = 1 + int(tag>>2)
			offset = int(binary.LittleEndian.Uint16(src[i:]))
			i += 2
		case 3:
			if i+4 > len(src) {
				return nil, errors.New("snappy: truncated copy-4")
			}
			length = 1 + int(tag>>2)
			offset = int(binary.LittleEndian.Uint32(src[i:]))
			i += 4
		}
		if offset <= 0 || offset > len(out) {
			return nil, fmt.Errorf("snappy: copy offset %d invalid at output position %d", offset, len(out))
		}
		if uint64(len(out)+length) > n {
			return nil, errors.New("snappy: output longer than the preamble says")
		}
		for k := 0; k < length; k++ {
			out = append(out, out[len(out)-offset])
		}
	}
	if uint64(len(out)) != n {
		return nil, fmt.Errorf("snappy: produced %d bytes, preamble says %d", len(out), n)
	}
	return out, nil
}

// refSnappyEncode is a deliberately simple snappy block encoder (greedy 4-byte hash
// matcher within 64 KiB, literals otherwise), used to build xerial chunks and hostile
// frames without going through the library under test.
func refSnappyEncode(src []byte) []byte {
	dst := binary.AppendUvarint(nil, uint64(len(src)))
	emitLit := func(lit []byte) {
		for len(lit) > 0 {
			chunk := lit
			if len(chunk) > 1<<16 {
				chunk = chunk[:1<<16]
			}
			n := len(chunk) - 1
			switch {
			case n < 60:
				dst = append(dst, byte(n)<<2)
			case n < 1<<8:
				dst = append(dst, 60<<2, byte(n))
			default:
				dst = append(dst, 61<<2, byte(n), byte(n>>8))
			}
			dst = append(dst, chunk...)
			lit = lit[len(chunk):]
		}
	}
	var table [1 << 12]int32
	for k := range table {
		table[k] = -1
	}
	litStart := 0
	i := 0
	for i+4 <= len(src) {
		h := (binary.LittleEndian.Uint32(src[i:]) * 0x1e35a7bd) >> 20
		cand := int(table[h])
		table[h] = int32(i)
		if cand >= 0 && i-cand < 1<<16 && binary.LittleEndian.Uint32(src[cand:]) == binary.LittleEndian.Uint32(src[i:]) {
			l := 4
			for i+l < len(src) && src[cand+l] == src[i+l] {
				l++
			}
			emitLit(src[litStart:i])
			off := i - cand
			rem := l
			for rem > 0 {
				c := rem
				if c > 64 {
					c = 64
				}
				if rem-c > 0 && rem-c < 4 { // keep the tail representable
					c = rem - 4
				}
				if c >= 4 && c <= 11 && off < 2048 {
					dst = append(dst, byte(off>>8)<<5|byte(c-4)<<2|1, byte(off))
				} else {
					dst = append(dst, byte(c-1)<<2|2, byte(off), byte(off>>8))
				}
				rem -= c
			}
			i += l
			litStart = i
			continue
		}
		i++
	}
	emitLit(src[litStart:])
	return dst
}

// refXerial wraps snappy blocks into xerial (snappy-java) framing: 8 byte magic
// "\x82SNAPPY\x00", 4 byte version, 4 byte compatible version, then per chunk a
// big-endian uint32 length and the block.
func refXerial(version, compat uint32, chunks ...[]byte) []byte {
	out := []byte{0x82, 'S', 'N', 'A', 'P', 'P', 'Y', 0}
	out = binary.BigEndian.AppendUint32(out, version)
	out = binary.BigEndian.AppendUint32(out, compat)
	for _, c := range chunks {
		out = binary.BigEndian.AppendUint32(out, uint32(len(c)))
		out = append(out, c...)
	}
	return out
}

// ---------------------------------------------------------------------------------
// xxHash32 (used by the LZ4 frame format for the header, block and content checksums).

const (
	xxP1 uint32 = 2654435761
	xxP2 uint32 = 2246822519
	xxP3 uint32 = 3266489917
	xxP4 uint32 = 668265263
	xxP5 uint32 = 374761393
)

func xxRotl(x uint32, r uint) uint32 { return x<<r | x>>(32-r) }

func refXXH32(b []byte, seed uint32) uint32 {
	n := len(b)
	var h uint32
	if n >= 16 {
		v1, v2, v3, v4 := seed+xxP1+xxP2, seed+xxP2, seed, seed-xxP1
		for len(b) >= 16 {
			v1 = xxRotl(v1+binary.LittleEndian.Uint32(b[0:])*xxP2, 13) * xxP1
			v2 = xxRotl(v2+binary.LittleEndian.Uint32(b[4:])*xxP2, 13) * xxP1
			v3 = xxRotl(v3+binary.LittleEndian.Uint32(b[8:])*xxP2, 13) * xxP1
			v4 = xxRotl(v4+binary.LittleEndian.Uint32(b[12:])*xxP2, 13) * xxP1
			b = b[16:]
		}
		h = xxRotl(v1, 1) + xxRotl(v2, 7) + xxRotl(v3, 12) + xxRotl(v4, 18)
	} else {
		h = seed + xxP5
	}
	h += uint32(n)
	for len(b) >= 4 {
		h = xxRotl(h+binary.LittleEndian.Uint32(b)*xxP3, 17) * xxP4
		b = b[4:]
	}
	for _, c := range b {
		h = xxRotl(h+uint32(c)*xxP5, 11) * xxP1
	}
	h ^= h >> 15
	h *= xxP2
	h ^= h >> 13
	h *= xxP3
	h ^= h >> 16
	return h
}

// ---------------------------------------------------------------------------------
// LZ4 frame format. Frame: magic 0x184D2204 (LE), FLG, BD, [content size u64],
// [dict id u32], HC; data blocks (u32 LE size, bit 31 = stored uncompressed, 0 =
// EndMark) each optionally followed by a block checksum; optional content checksum.
// Skippable frames (magic 0x184D2A50..5F + u32 size) are skipped. Zero or more frames.

type refLZ4Info struct {
	Frames, Blocks, StoredBlocks int
	BlockIndependent             bool
	BlockChecksum, ContentSum    bool
	ContentSize                  bool
	BlockMax                     int
}

func refLZ4FrameDecode(src []byte, maxLen int) ([]byte, refLZ4Info, error) {
	var info refLZ4Info
	var out []byte
	for len(src) > 0 {
		if len(src) < 4 {
			return nil, info, errors.New("lz4: truncated magic")
		}
		magic := binary.LittleEndian.Uint32(src)
		src = src[4:]
		if magic&0xfffffff0 == 0x184D2A50 {
			if len(src) < 4 {
				return nil, info, errors.New("lz4: truncated skippable frame")
			}
			sz := binary.LittleEndian.Uint32(src)
			src = src[4:]
			if uint64(sz) > uint64(len(src)) {
				return nil, info, errors.New("lz4: skippable frame runs past the input")
			}
			src = src[sz:]
			continue
		}
		if magic != 0x184D2204 {
			return nil, info, fmt.Errorf("lz4: bad magic %#x", magic)
		}
		info.Frames++
		if len(src) < 3 {
			return nil, info, errors.New("lz4: truncated frame descriptor")
		}
		flg, bd := src[0], src[1]
		if flg>>6 != 1 {
			return nil, info, fmt.Errorf("lz4: version bits %d, want 1", flg>>6)
		}
		if flg&0x02 != 0 {
			return nil, info, errors.New("lz4: reserved FLG bit set")
		}
		if bd&0x8f != 0 {
			return nil, info, errors.New("lz4: reserved BD bits set")
		}
		bIndep := flg&0x20 != 0
		bSum := flg&0x10 != 0
		cSize := flg&0x08 != 0
		cSum := flg&0x04 != 0
		dict := flg&0x01 != 0
		var blockMax int
		switch bd >> 4 & 7 {
		case 4:
			blockMax = 64 << 10
		case 5:
			blockMax = 256 << 10
		case 6:
			blockMax = 1 << 20
		case 7:
			blockMax = 4 << 20
		default:
			return nil, info, fmt.Errorf("lz4: invalid block maximum size code %d", bd>>4&7)
		}
		info.BlockIndependent, info.BlockChecksum, info.ContentSum, info.ContentSize, info.BlockMax = bIndep, bSum, cSum, cSize, blockMax
		dlen := 2
		if cSize {
			dlen += 8
		}
		if dict {
			dlen += 4
		}
		if len(src) < dlen+1 {
			return nil, info, errors.New("lz4: truncated frame descriptor")
		}
		var wantSize uint64
		if cSize {
			wantSize = binary.LittleEndian.Uint64(src[2:])
		}
		if dict {
			return nil, info, errors.New("lz4: frame needs a dictionary")
		}
		if hc := byte(refXXH32(src[:dlen], 0) >> 8); hc != src[dlen] {
			return nil, info, fmt.Errorf("lz4: header checksum %#x, computed %#x", src[dlen], hc)
		}
		src = src[dlen+1:]
		frameStart := len(out)
		for {
			if len(src) < 4 {
				return nil, info, errors.New("lz4: truncated block size (missing EndMark)")
			}
			bs := binary.LittleEndian.Uint32(src)
			src = src[4:]
			if bs == 0 {
				break
			}
			stored := bs&0x80000000 != 0
			n := int(bs & 0x7fffffff)
			if n > blockMax {
				return nil, info, fmt.Errorf("lz4: block of %d bytes larger than the block maximum %d", n, blockMax)
			}
			if n > len(src) {
				return nil, info, errors.New("lz4: block runs past the input")
			}
			data := src[:n]
			src = src[n:]
			if bSum {
				if len(src) < 4 {
					return nil, info, errors.New("lz4: truncated block checksum")
				}
				if got, want := binary.LittleEndian.Uint32(src), refXXH32(data, 0); got != want {
					return nil, info, fmt.Errorf("lz4: block checksum %#x, computed %#x", got, want)
				}
				src = src[4:]
			}
			info.Blocks++
			blockStart := len(out)
			if stored {
				info.StoredBlocks++
				out = append(out, data...)
			} else {
				// a dependent block may reference up to 64 KiB of the previous blocks of this frame
				histStart := blockStart
				if !bIndep {
					histStart = frameStart
				}
				var err error
				if out, err = refLZ4BlockDecode(out, histStart, data, blockMax); err != nil {
					return nil, info, err
				}
			}
			if len(out)-blockStart > blockMax {
				return nil, info, errors.New("lz4: block decodes to more than the block maximum")
			}
			if maxLen >= 0 && len(out) > maxLen {
				return nil, info, errors.New("lz4: output larger than the reference decoder's limit")
			}
		}
		if cSum {
			if len(src) < 4 {
				return nil, info, errors.New("lz4: truncated content checksum")
			}
			if got, want := binary.LittleEndian.Uint32(src), refXXH32(out[frameStart:], 0); got != want {
				return nil, info, fmt.Errorf("lz4: content checksum %#x, computed %#x", got, want)
			}
			src = src[4:]
		}
		if cSize && wantSize != uint64(len(out)-frameStart) {
			return nil, info, fmt.Errorf("lz4: content size %d, decoded %d", wantSize, len(out)-frameStart)
		}
	}
	return out, info, nil
}

// refLZ4BlockDecode appends the decoded block to out. Sequences: token (high nibble
// literal length, low nibble match length - 4, 15 = continued in 255-valued bytes),
// literals, 2 byte little-endian offset, match. The last sequence ends after its
// literals. Matches may not reach before out[histStart].
func refLZ4BlockDecode(out []byte, histStart int, src []byte, blockMax int) ([]byte, error) {
	start := len(out)
	i := 0
	for {
		if i >= len(src) {
			return nil, errors.New("lz4: block ends where a token is expected")
		}
		tok := src[i]
		i++
		lit := int(tok >> 4)
		if lit == 15 {
			for {
				if i >= len(src) {
					return nil, errors.New("lz4: truncated literal length")
				}
				b := src[i]
				i++
				lit += int(b)
				if b != 255 {
					break
				}
			}
		}
		if i+lit > len(src) {
			return nil, errors.New("lz4: literals run past the block")
		}
		out = append(out, src[i:i+lit]...)
		i += lit
		if len(out)-start > blockMax {
			return nil, errors.New("lz4: block decodes to more than the block maximum")
		}
		if i == len(src) {
			return out, nil // last sequence: literals only
		}
		if i+2 > len(src) {
			return nil, errors.New("lz4: truncated match offset")
		}
		off := int(binary.LittleEndian.Uint16(src[i:]))
		i += 2
		ml := int(tok & 15)
		if ml == 15 {
			for {
				if i >= len(src) {
					return nil, errors.New("lz4: truncated match length")
				}
				b := src[i]
				i++
				ml += int(b)
				if b != 255 {
					break
				}
			}
		}
		ml += 4
		if off == 0 || off > len(out)-histStart {
			return nil, fmt.Errorf("lz4: match offset %d invalid with %d bytes of history", off, len(out)-histStart)
		}
		if len(out)-start+ml > blockMax {
			return nil, errors.New("lz4: block decodes to more than the block maximum")
		}
		for k := 0; k < ml; k++ {
			out = append(out, out[len(out)-off])
		}
	}
}
