module verif/h

go 1.25.0

require (
	github.com/klauspost/compress v1.18.7
	github.com/pierrec/lz4/v4 v4.1.26
	github.com/twmb/franz-go v1.21.1
	github.com/twmb/franz-go/pkg/kadm v1.18.0
	github.com/twmb/franz-go/pkg/kfake v0.0.0
	github.com/twmb/franz-go/pkg/kmsg v1.13.1
	github.com/twmb/franz-go/pkg/sr v1.0.0
	pgregory.net/rapid v1.3.0
)

replace (
	github.com/twmb/franz-go => /repo
	github.com/twmb/franz-go/pkg/kadm => /repo/pkg/kadm
	github.com/twmb/franz-go/pkg/kfake => /repo/pkg/kfake
	github.com/twmb/franz-go/pkg/kmsg => /repo/pkg/kmsg
	github.com/twmb/franz-go/pkg/sr => /repo/pkg/sr
)
