//go:build synctests

package c21

import (
	"context"
	"encoding/json"
	"fmt"
	"strings"
	"testing"
	"time"

	"github.com/twmb/franz-go/pkg/kgo"
	"github.com/twmb/franz-go/pkg/kmsg"
	"pgregory.net/rapid"

	"verif/h/ev"
	sb "verif/h/scriptbroker"
)

// TestTxnPins reaches the internal pins through the public path that sets them: a
// transactional producer. Without KIP-890 part 2 (finalized feature transaction.version >= 2,
// and - if the user caps versions - Produce >= 12, EndTxn >= 5, TxnOffsetCommit >= 5) the
// client pins EndTxn <= 4 and Produce <= 11 and sends AddPartitionsToTxn pinned <= 3; with it,
// Produce may go to 13 (12 without topic ids) and EndTxn to 5. When the client starts using
// the feature is its own business (it latches at BeginTransaction), so for pinned keys the
// oracle asserts every bound and the pin bound, and that the version is the maximum for one
// of the admissible pin states; for every other key the exact value.
type txnPlan struct {
	Table map[int16]rng   `json:"table"` // only the keys that matter are generated tight
	TxnV  int16           `json:"transaction_version"`
	UMax  map[int16]int16 `json:"user_max,omitempty"` // nil: MaxVersions(nil)
	Txns  int             `json:"txns"`
	Recs  int             `json:"recs"`
}

var txnKeys = []int16{0, 3, 10, 22, 24, 26}

func genTxnPlan(t *rapid.T) *txnPlan {
	p := &txnPlan{Table: map[int16]rng{}}
	for _, k := range allKeys {
		p.Table[k] = rng{0, clientMax(k)}
	}
	for _, k := range txnKeys {
		cm := int(clientMax(k))
		if rapid.IntRange(0, 2).Draw(t, "tight") == 0 {
			continue
		}
		lo := 0
		if rapid.IntRange(0, 3).Draw(t, "lo?") == 0 {
			lo = rapid.IntRange(0, cm).Draw(t, "lo")
		}
		hi := rapid.IntRange(lo, cm).Draw(t, "hi")
		if k == 0 && hi < 3 {
			hi = 3 // a transactional id needs produce v3+
		}
		if k == 0 && lo > hi {
			lo = hi
		}
		p.Table[k] = rng{int16(lo), int16(hi)}
	}
	p.TxnV = int16(rapid.IntRange(0, 2).Draw(t, "txn_version"))
	if rapid.IntRange(0, 2).Draw(t, "umax?") == 0 {
		p.UMax = map[int16]int16{}
		for _, k := range allKeys {
			p.UMax[k] = clientMax(k)
		}
		for _, k := range []int16{0, 24, 26, 28} {
			if rapid.Bool().Draw(t, "cap") {
				v := rapid.IntRange(0, int(clientMax(k))).Draw(t, "ucap")
				if k == 0 && v < 3 {
					v = 3
				}
				p.UMax[k] = int16(v)
			}
		}
	}
	p.Txns = rapid.IntRange(1, 3).Draw(t, "txns")
	p.Recs = rapid.IntRange(1, 4).Draw(t, "recs")
	return p
}

func (p *txnPlan) umax(k int16) int16 {
	if p.UMax == nil {
		return clientMax(k)
	}
	return p.UMax[k]
}

// may890: the client is allowed to use the KIP-890p2 versions in this configuration.
func (p *txnPlan) may890() bool {
	if p.TxnV < 2 {
		return false
	}
	if p.UMax != nil && (p.UMax[0] < 12 || p.UMax[26] < 5 || p.UMax[28] < 5) {
		return false
	}
	return true
}

// top returns min(client max, broker max, user max, pin) and the lower bound.
func (p *txnPlan) top(k int16, pin int16) (hi, lo int16) {
	hi = clientMax(k)
	if r := p.Table[k]; r.Max < hi {
		hi = r.Max
	}
	if u := p.umax(k); u < hi {
		hi = u
	}
	if pin >= 0 && pin < hi {
		hi = pin
	}
	return hi, p.Table[k].Min
}

func TestTxnPins(t *testing.T) {
	rapid.Check(t, func(rt *rapid.T) {
		p := genTxnPlan(rt)
		var errs []string
		bad := func(format string, a ...any) { errs = append(errs, fmt.Sprintf(format, a...)) }
		seen := map[string]bool{}
		sb.Run(t, func(e *sb.Env) {
			s := &sb.Script{Table: map[int16][2]int16{}, Understands: 4, NodeID: 1, Host: "localhost", Port: 9092, PID: 4000,
				Topics: []sb.Topic{{Name: "t", ID: [16]byte{7}, Partitions: 2}}}
			for _, k := range allKeys {
				s.Table[k] = [2]int16{p.Table[k].Min, p.Table[k].Max}
				s.Order = append(s.Order, k)
			}
			if p.TxnV > 0 {
				s.Features = map[string]int16{"transaction.version": p.TxnV}
				s.FeatureOrder = []string{"transaction.version"}
			}
			br := e.Listen(9092, s.Handle)
			opts := []kgo.Opt{kgo.SeedBrokers("localhost:9092"), kgo.DisableClientMetrics(), kgo.TransactionalID("txn-c21"),
				kgo.RecordPartitioner(kgo.ManualPartitioner()), kgo.RequestRetries(1), kgo.RecordRetries(2),
				kgo.RetryBackoffFn(func(int) time.Duration { return 10 * time.Millisecond }), kgo.RetryTimeout(2 * time.Second),
				kgo.MetadataMinAge(10 * time.Millisecond), kgo.ProducerLinger(0)}
			if p.UMax == nil {
				opts = append(opts, kgo.MaxVersions(nil))
			} else {
				opts = append(opts, kgo.MaxVersions(userVersions(p.UMax)))
			}
			cl, err := e.Client(opts...)
			if err != nil {
				panic(fmt.Sprintf("VERIF-INFRA: NewClient: %v", err))
			}
			for i := 0; i < p.Txns; i++ {
				if err := cl.BeginTransaction(); err != nil {
					break
				}
				for r := 0; r < p.Recs; r++ {
					cl.Produce(context.Background(), &kgo.Record{Topic: "t", Partition: int32(r % 2), Value: []byte("v")}, func(*kgo.Record, error) {})
				}
				ctx, cancel := context.WithTimeout(context.Background(), time.Minute)
				ferr := cl.Flush(ctx)
				eerr := cl.EndTransaction(ctx, kgo.TryCommit)
				cancel()
				if ferr != nil || eerr != nil {
					ev.Class("txn_ended_with_error")
					// an abort after a failed commit is the documented recovery; ignore its result
					ctx2, cancel2 := context.WithTimeout(context.Background(), time.Minute)
					cl.EndTransaction(ctx2, kgo.TryAbort)
					cancel2()
				} else {
					ev.Class("txn_committed")
				}
			}
			e.Settle()
			conns := map[int]bool{}
			for _, f := range br.Frames() {
				if f.Key == 18 && !conns[f.Conn] {
					conns[f.Conn] = true // handshake (generous table: always v4 and answered)
					continue
				}
				conns[f.Conn] = true
				name := kmsg.NameForKey(f.Key)
				var allowed []int16
				var lo int16
				switch f.Key {
				case 26: // EndTxn: pin 4 unless 890p2
					h4, l := p.top(26, 4)
					allowed, lo = []int16{h4}, l
					if p.may890() {
						h, _ := p.top(26, -1)
						allowed = append(allowed, h)
					}
				case 0: // Produce: 11 without 890p2; 13 with topic ids, 12 without
					h11, l := p.top(0, 11)
					allowed, lo = []int16{h11}, l
					if p.may890() {
						h12, _ := p.top(0, 12)
						h13, _ := p.top(0, 13)
						allowed = append(allowed, h12, h13)
					}
				case 24: // AddPartitionsToTxn from the producer: single transaction, pinned <= 3
					h3, l := p.top(24, 3)
					allowed, lo = []int16{h3}, l
				default:
					h, l := p.top(f.Key, -1)
					allowed, lo = []int16{h}, l
				}
				ok := false
				for _, a := range allowed {
					if f.Version == a && a >= lo {
						ok = true
					}
				}
				if !ok {
					bad("frame #%d: key %d (%s) v%d; admissible: %v with minimum %d (broker [%d,%d], user max %d, transaction.version %d, KIP-890p2 allowed %v)", f.Seq, f.Key, name, f.Version, allowed, lo, p.Table[f.Key].Min, p.Table[f.Key].Max, p.umax(f.Key), p.TxnV, p.may890())
				}
				pinned := f.Key == 26 || f.Key == 0 || f.Key == 24
				d := fmt.Sprintf("k%d|v%d|%v|b%d-%d|u%d|tv%d", f.Key, f.Version, p.may890(), p.Table[f.Key].Min, p.Table[f.Key].Max, p.umax(f.Key), p.TxnV)
				if !seen[d] {
					seen[d] = true
					ev.Case("txn|"+d, pinned)
				}
				if pinned {
					ev.Class(fmt.Sprintf("txn_path_%s_v%d", name, f.Version))
				}
			}
		})
		ev.SampleIf(func() any { return map[string]any{"txn_plan": p} })
		if len(errs) > 0 {
			js, _ := json.Marshal(p)
			rt.Fatalf("C21 violated (transactional path):\n  %s\nplan: %s", strings.Join(errs, "\n  "), js)
		}
	})
}
