//go:build synctests

// Package c21 checks property C21: every request the client writes uses the highest version
// within the client's own maximum, the broker's advertised range, the user's
// MinVersions/MaxVersions and internal pins; when no such version exists the call fails and
// nothing is written. The broker is verif/h/scriptbroker (records every frame).
package c21

import (
	"context"
	"encoding/json"
	"fmt"
	"os"
	"sort"
	"strings"
	"sync"
	"testing"
	"time"

	"github.com/twmb/franz-go/pkg/kgo"
	"github.com/twmb/franz-go/pkg/kmsg"
	"github.com/twmb/franz-go/pkg/kversion"
	"pgregory.net/rapid"

	"verif/h/ev"
	sb "verif/h/scriptbroker"
)

func TestMain(m *testing.M) { ev.Main(m, "C21") }

// knownMin18 is the one open known finding of this property: the connection-setup
// ApiVersions request ignores kgo.MinVersions for key 18. The check stays strict unless the
// finding is listed as open in $VERIF_KNOWN under this key AND still reproduces on the
// witness; only then are user MinVersions entries for key 18 excluded by construction.
//
// knownMissingKey / knownMax18 only label violation messages: both defects were repaired in
// /repo ("fix:" commits 81ee17b, 9be22f8; reverse patches in /verif/seeded/orig-C21-*), are
// not excluded and are asserted strictly.
const (
	knownMissingKey = "broker-table-without-produce-key-unlisted-request-key-is-written"
	knownMin18      = "apiversions-handshake-ignores-user-minversions"
	knownMax18      = "apiversions-handshake-exceeds-client-max-when-user-maxversions-is-higher"
)

// min18Active is decided once per process by decideKnown (listed && witness reproduces).
var min18Active bool

// ---- known findings plumbing ----

var (
	knownOnce sync.Once
	knownSet  = map[string]bool{}
)

func knownListed(key string) bool {
	knownOnce.Do(func() {
		raw, err := os.ReadFile(os.Getenv("VERIF_KNOWN"))
		if err != nil {
			return
		}
		var k struct {
			Findings []struct {
				Property string `json:"property"`
				Key      string `json:"key"`
				Status   string `json:"status"`
			} `json:"findings"`
		}
		if json.Unmarshal(raw, &k) != nil {
			return
		}
		for _, f := range k.Findings {
			if f.Property == "C21" && f.Status == "open" {
				knownSet[f.Key] = true
			}
		}
	})
	return knownSet[key]
}

// ---- case description ----

type rng struct {
	Min, Max int16
}

type plan struct {
	// broker
	Close       bool             `json:"close_on_apiversions"`
	Table       map[int16]rng    `json:"table"`
	Order       []int16          `json:"-"`
	Understands int16            `json:"understands"`
	Dance       int              `json:"dance"`
	Dance18     int16            `json:"dance18"`
	Feat        map[string]int16 `json:"features,omitempty"`
	// user
	MaxMode int             `json:"max_mode"` // 0 default(Stable) 1 nil 2 generated
	UMax    map[int16]int16 `json:"user_max,omitempty"`
	UMin    map[int16]int16 `json:"user_min,omitempty"`
	// requests
	Reqs []reqPlan `json:"reqs"`
	// ClientMetrics leaves the KIP-714 loop on (background GetTelemetrySubscriptions/PushTelemetry frames).
	ClientMetrics bool `json:"client_metrics"`
}

type reqPlan struct {
	Key    int16 `json:"key"`
	Direct bool  `json:"direct"`
}

var allKeys = func() []int16 {
	var ks []int16
	for k := int16(0); k <= kmsg.MaxKey; k++ {
		if kmsg.RequestForKey(k) != nil {
			ks = append(ks, k)
		}
	}
	return ks
}()

func clientMax(k int16) int16 { return kmsg.RequestForKey(k).MaxVersion() }

// shaped: keys whose version is also shaped by request content in the sharders
// (OffsetFetch <=7 / >=8, FindCoordinator <=3 / >=4, AddPartitionsToTxn <=3 / >=4).
func shaped(k int16) bool { return k == 9 || k == 10 || k == 24 }

func genPlan(t *rapid.T) *plan {
	p := &plan{Table: map[int16]rng{}}
	p.Close = rapid.IntRange(0, 19).Draw(t, "close") == 0
	p.Understands = int16(rapid.SampledFrom([]int{4, 4, 4, 3, 2, 1, 0}).Draw(t, "understands"))
	p.Dance = rapid.IntRange(0, 2).Draw(t, "dance")
	p.Dance18 = int16(rapid.IntRange(0, 5).Draw(t, "dance18"))
	if rapid.IntRange(0, 2).Draw(t, "dance18rel") > 0 {
		p.Dance18 = p.Understands // the honest answer
	}
	// which keys the requests of this case use; the generated tables concentrate on them
	nreq := rapid.IntRange(4, 24).Draw(t, "nreq")
	for i := 0; i < nreq; i++ {
		k := allKeys[rapid.IntRange(0, len(allKeys)-1).Draw(t, "key")]
		if rapid.IntRange(0, 9).Draw(t, "key18") == 0 {
			k = 18
		}
		p.Reqs = append(p.Reqs, reqPlan{Key: k, Direct: rapid.IntRange(0, 3).Draw(t, "direct") > 0})
	}
	p.ClientMetrics = rapid.IntRange(0, 3).Draw(t, "client_metrics") == 0
	listProduce := rapid.IntRange(0, 3).Draw(t, "list_produce") > 0
	tableStyle := rapid.IntRange(0, 3).Draw(t, "table_style") // 0: generous, else tight
	for _, k := range allKeys {
		cm := int(clientMax(k))
		miss := rapid.IntRange(0, 6).Draw(t, "bmiss") == 0
		if k == 0 {
			miss = !listProduce
		}
		if miss {
			continue
		}
		var r rng
		if tableStyle == 0 {
			r = rng{0, int16(cm + rapid.IntRange(0, 2).Draw(t, "bslack"))}
		} else {
			lo := rapid.IntRange(0, cm+1).Draw(t, "bmin")
			if rapid.IntRange(0, 1).Draw(t, "bmin0") == 0 {
				lo = 0
			}
			hi := rapid.IntRange(lo-1, cm+3).Draw(t, "bmax")
			if hi < 0 {
				hi = 0
			}
			r = rng{int16(lo), int16(hi)}
		}
		p.Table[k] = r
	}
	// advertised order is a generated permutation
	order := append([]int16(nil), allKeys...)
	perm := rapid.Permutation(order).Draw(t, "order")
	for _, k := range perm {
		if _, ok := p.Table[k]; ok {
			p.Order = append(p.Order, k)
		}
	}
	if rapid.IntRange(0, 2).Draw(t, "feat") == 0 {
		p.Feat = map[string]int16{"transaction.version": int16(rapid.IntRange(0, 2).Draw(t, "txv"))}
	}
	p.MaxMode = rapid.SampledFrom([]int{0, 1, 2, 2, 2}).Draw(t, "max_mode")
	if p.MaxMode == 2 {
		p.UMax = map[int16]int16{}
		no18 := rapid.IntRange(0, 5).Draw(t, "pre_apiversions_user") == 0
		for _, k := range allKeys {
			cm := int(clientMax(k))
			if rapid.IntRange(0, 9).Draw(t, "umiss") == 0 {
				continue
			}
			v := rapid.IntRange(0, cm+2).Draw(t, "umax")
			if rapid.IntRange(0, 2).Draw(t, "umaxhi") == 0 {
				v = cm
			}
			p.UMax[k] = int16(v)
		}
		if no18 {
			delete(p.UMax, 18)
		} else if _, ok := p.UMax[18]; !ok {
			p.UMax[18] = int16(rapid.IntRange(0, 4).Draw(t, "umax18"))
		}
	}
	if rapid.IntRange(0, 1).Draw(t, "min_mode") == 1 {
		p.UMin = map[int16]int16{}
		for _, k := range allKeys {
			cm := int(clientMax(k))
			if rapid.IntRange(0, 2).Draw(t, "uminmiss") > 0 {
				continue
			}
			p.UMin[k] = int16(rapid.IntRange(0, cm+1).Draw(t, "umin"))
		}
		if min18Active {
			if _, ok := p.UMin[18]; ok {
				delete(p.UMin, 18)
				ev.Excluded(knownMin18)
			}
		}
	}
	return p
}

// ---- the oracle's model of the configuration ----

type model struct {
	p         *plan
	userMaxOn bool
	umax      map[int16]int16
	handshake bool  // the client performs the ApiVersions handshake on new connections
	first18   int16 // version of the first handshake frame
	loaded    bool  // the handshake ends with a loaded table
	connFails bool  // the handshake ends in an error: nothing else may be written
}

func newModel(p *plan) *model {
	m := &model{p: p}
	switch p.MaxMode {
	case 0:
		m.userMaxOn = true
		m.umax = map[int16]int16{}
		kversion.Stable().EachMaxKeyVersion(func(k, v int16) { m.umax[k] = v })
	case 2:
		m.userMaxOn = true
		m.umax = p.UMax
	}
	_, has18 := m.umax[18]
	m.handshake = !m.userMaxOn || has18
	if !m.handshake {
		return m
	}
	// internal pin of the handshake: v4; capped by the user's MaxVersions
	m.first18 = 4
	if m.userMaxOn && m.umax[18] < 4 {
		m.first18 = m.umax[18]
	}
	cur := m.first18
	for {
		out, next := m.handshakeStep(cur)
		if out == hsNext {
			cur = next
			continue
		}
		m.loaded = out == hsLoaded
		m.connFails = out == hsFail
		break
	}
	return m
}

const (
	hsLoaded = iota
	hsFail
	hsNext
)

// handshakeStep is what the scripted broker's answer to an ApiVersions frame of version v
// means per the ApiVersions protocol (KIP-511).
func (m *model) handshakeStep(v int16) (int, int16) {
	p := m.p
	if p.Close {
		return hsFail, 0
	}
	if v <= p.Understands {
		if len(p.Table) == 0 {
			return hsFail, 0
		}
		return hsLoaded, 0
	}
	switch p.Dance {
	case sb.DanceKey18:
		if p.Dance18 >= 0 && p.Dance18 < v {
			return hsNext, p.Dance18
		}
		return hsFail, 0
	case sb.DanceEmpty:
		return hsNext, 0
	default: // full table with the error
		if len(p.Table) == 0 {
			return hsNext, 0
		}
		if len(p.Table) == 1 {
			if r, ok := p.Table[18]; ok {
				if r.Max >= 0 && r.Max < v {
					return hsNext, r.Max
				}
				return hsFail, 0
			}
		}
		return hsLoaded, 0
	}
}

type expectation struct {
	Feasible bool
	V, Lo    int16
	Why      string
	Binding  string // which bound decides V
}

// expect computes, for a request of key k with no internal pin, the version the property
// demands, or that none exists.
func (m *model) expect(k int16) expectation {
	cm := clientMax(k)
	if m.userMaxOn {
		if _, ok := m.umax[k]; !ok {
			return expectation{Why: "key not in user MaxVersions"}
		}
	}
	if m.connFails {
		return expectation{Why: "ApiVersions handshake fails"}
	}
	v, lo, bind := cm, int16(0), "client"
	if m.loaded {
		r, ok := m.p.Table[k]
		if !ok {
			return expectation{Why: "broker does not advertise the key"}
		}
		if r.Max < v {
			v, bind = r.Max, "broker"
		}
		if r.Min > lo {
			lo = r.Min
		}
	}
	if m.userMaxOn && m.umax[k] < v {
		v, bind = m.umax[k], "user"
	}
	if um, ok := m.p.UMin[k]; ok && um > lo {
		lo = um
	}
	if v < lo || v < 0 {
		return expectation{V: v, Lo: lo, Why: fmt.Sprintf("max %d below min %d", v, lo)}
	}
	return expectation{Feasible: true, V: v, Lo: lo, Binding: bind}
}

// ---- frame classification ----

type connState struct {
	cur  int16
	done bool
	dead bool
}

type checker struct {
	m     *model
	conns map[int]*connState
	next  int // next frame seq to classify
	errs  []string
}

func (c *checker) violate(format string, a ...any) {
	c.errs = append(c.errs, fmt.Sprintf(format, a...))
}

// feed classifies new frames; returns the user-phase frames among them.
func (c *checker) feed(frames []sb.Frame) []sb.Frame {
	var user []sb.Frame
	for ; c.next < len(frames); c.next++ {
		f := frames[c.next]
		if f.HdrErr != "" {
			c.violate("frame #%d on conn %d: unparsable request header: %s", f.Seq, f.Conn, f.HdrErr)
			continue
		}
		if f.Malformed != "" {
			ev.Class("side_finding_malformed_frame:" + f.Malformed)
		}
		st := c.conns[f.Conn]
		if st == nil {
			st = &connState{cur: c.m.first18, done: !c.m.handshake}
			c.conns[f.Conn] = st
		}
		if st.done || st.dead {
			user = append(user, f)
			continue
		}
		// handshake phase
		if f.Key != 18 {
			c.violate("frame #%d on conn %d: key %d v%d written before the ApiVersions handshake completed", f.Seq, f.Conn, f.Key, f.Version)
			user = append(user, f)
			continue
		}
		ev.Class("handshake_frames")
		if f.Version != st.cur && f.Version > clientMax(18) {
			c.violate("[%s] handshake frame #%d on conn %d: ApiVersions v%d exceeds the client's own maximum %d (user max %v)", knownMax18, f.Seq, f.Conn, f.Version, clientMax(18), c.m.umax[18])
		} else if f.Version != st.cur {
			c.violate("handshake frame #%d on conn %d: ApiVersions v%d, want v%d (pin 4, user max %v, broker understands <=%d, dance %d/%d)", f.Seq, f.Conn, f.Version, st.cur, c.m.umax[18], c.m.p.Understands, c.m.p.Dance, c.m.p.Dance18)
		}
		if um, ok := c.m.p.UMin[18]; ok && f.Version < um {
			c.violate("[%s] handshake frame #%d on conn %d: ApiVersions v%d written below the user's MinVersions %d", knownMin18, f.Seq, f.Conn, f.Version, um)
		}
		out, next := c.m.handshakeStep(f.Version)
		switch out {
		case hsLoaded:
			st.done = true
		case hsFail:
			st.dead = true
		case hsNext:
			st.cur = next
			ev.Class("handshake_downgrades")
		}
	}
	return user
}

// checkFrame checks one user-phase frame against the model. exact says whether maximality
// is asserted too.
func (c *checker) checkFrame(f sb.Frame, exact bool) {
	e := c.m.expect(f.Key)
	if !e.Feasible {
		tag := ""
		if e.Why == "broker does not advertise the key" {
			tag = "[" + knownMissingKey + "] "
		}
		c.violate("%sframe #%d: key %d (%s) v%d was written although no version satisfies all bounds: %s", tag, f.Seq, f.Key, kmsg.NameForKey(f.Key), f.Version, e.Why)
		return
	}
	if f.Version > e.V || f.Version < e.Lo {
		c.violate("frame #%d: key %d (%s) v%d outside the allowed range [%d,%d] (%s)", f.Seq, f.Key, kmsg.NameForKey(f.Key), f.Version, e.Lo, e.V, c.describe(f.Key))
		return
	}
	if exact && f.Version != e.V {
		c.violate("frame #%d: key %d (%s) v%d is not the highest allowed version %d (%s)", f.Seq, f.Key, kmsg.NameForKey(f.Key), f.Version, e.V, c.describe(f.Key))
	}
}

func (c *checker) describe(k int16) string {
	m := c.m
	var b strings.Builder
	fmt.Fprintf(&b, "client max %d", clientMax(k))
	if m.loaded {
		if r, ok := m.p.Table[k]; ok {
			fmt.Fprintf(&b, ", broker [%d,%d]", r.Min, r.Max)
		} else {
			b.WriteString(", broker: key not advertised")
		}
	} else {
		b.WriteString(", no broker table")
	}
	if m.userMaxOn {
		if v, ok := m.umax[k]; ok {
			fmt.Fprintf(&b, ", user max %d", v)
		} else {
			b.WriteString(", user max: key missing")
		}
	}
	if v, ok := m.p.UMin[k]; ok {
		fmt.Fprintf(&b, ", user min %d", v)
	}
	return b.String()
}

// ---- the property ----

func userVersions(m map[int16]int16) *kversion.Versions {
	vs := new(kversion.Versions)
	keys := make([]int16, 0, len(m))
	for k := range m {
		keys = append(keys, k)
	}
	sort.Slice(keys, func(i, j int) bool { return keys[i] < keys[j] })
	for _, k := range keys {
		vs.SetMaxKeyVersion(k, m[k])
	}
	return vs
}

func runCase(t *rapid.T, tt *testing.T, p *plan) {
	m := newModel(p)
	var errs []string
	var samples []map[string]any
	sampled := map[string]bool{}
	sb.Run(tt, func(e *sb.Env) {
		s := &sb.Script{
			CloseOnApiVersions: p.Close,
			Table:              map[int16][2]int16{},
			Order:              p.Order,
			Understands:        p.Understands,
			Dance:              p.Dance,
			Dance18Max:         p.Dance18,
			Features:           p.Feat,
			NodeID:             1, Host: "localhost", Port: 9092,
			PID: 7000, Epoch: 0,
		}
		for n := range p.Feat {
			s.FeatureOrder = append(s.FeatureOrder, n)
		}
		for k, r := range p.Table {
			s.Table[k] = [2]int16{r.Min, r.Max}
		}
		br := e.Listen(9092, s.Handle)
		opts := []kgo.Opt{
			kgo.SeedBrokers("localhost:9092"),
			kgo.RequestRetries(1),
			kgo.RetryBackoffFn(func(int) time.Duration { return 10 * time.Millisecond }),
			kgo.RetryTimeout(2 * time.Second),
			kgo.MetadataMinAge(10 * time.Millisecond),
		}
		if !p.ClientMetrics {
			opts = append(opts, kgo.DisableClientMetrics())
		} else {
			ev.Class("client_metrics_loop_on")
		}
		switch p.MaxMode {
		case 1:
			opts = append(opts, kgo.MaxVersions(nil))
		case 2:
			opts = append(opts, kgo.MaxVersions(userVersions(p.UMax)))
		}
		if p.UMin != nil {
			opts = append(opts, kgo.MinVersions(userVersions(p.UMin)))
		}
		cl, err := e.Client(opts...)
		if err != nil {
			panic(fmt.Sprintf("VERIF-INFRA: NewClient: %v", err))
		}
		ck := &checker{m: m, conns: map[int]*connState{}}
		seed := cl.SeedBrokers()[0]
		for i, rp := range p.Reqs {
			req := kmsg.RequestForKey(rp.Key)
			ctx, cancel := context.WithTimeout(context.Background(), 5*time.Minute)
			var err error
			if rp.Direct {
				_, err = seed.Request(ctx, req)
			} else {
				_, err = cl.Request(ctx, req)
			}
			cancel()
			e.Settle()
			user := ck.feed(br.Frames())
			ex := m.expect(rp.Key)
			var mine []sb.Frame
			for _, f := range user {
				exactFrame := rp.Direct || !shaped(f.Key)
				ck.checkFrame(f, exactFrame)
				if f.Key == rp.Key {
					mine = append(mine, f)
				}
			}
			where := fmt.Sprintf("request %d (key %d %s, %s)", i, rp.Key, kmsg.NameForKey(rp.Key), map[bool]string{true: "Broker.Request", false: "Client.Request"}[rp.Direct])
			if !ex.Feasible {
				if err == nil {
					tag := ""
					if ex.Why == "broker does not advertise the key" {
						tag = "[" + knownMissingKey + "] "
					}
					ck.violate("%s%s returned no error although no version satisfies all bounds: %s (%s)", tag, where, ex.Why, ck.describe(rp.Key))
				}
			} else if rp.Direct {
				if len(mine) == 0 {
					ck.violate("%s: version %d satisfies all bounds (%s) but no frame with that key was written (err=%v)", where, ex.V, ck.describe(rp.Key), err)
				}
			}
			// evidence
			nt := !ex.Feasible || ex.V < clientMax(rp.Key) || ex.Lo > 0
			outcome := "err"
			if ex.Feasible {
				outcome = fmt.Sprintf("v%d/%s", ex.V, ex.Binding)
			}
			ev.Case(fmt.Sprintf("k%d|%v|%s|lo%d|%s", rp.Key, rp.Direct, outcome, ex.Lo, ex.Why), nt)
			switch {
			case !ex.Feasible:
				why := ex.Why
				if strings.HasPrefix(why, "max ") {
					why = "highest admissible version below the required minimum"
				}
				ev.Class("expect_error:" + why)
			default:
				ev.Class("expect_written_bound_by_" + ex.Binding)
				if ex.Lo > 0 {
					ev.Class("expect_written_with_positive_min")
				}
			}
			if rp.Direct {
				ev.Class("path_broker_request")
			} else {
				ev.Class("path_client_request")
			}
			if err != nil {
				ev.Class("call_returned_error")
			} else {
				ev.Class("call_returned_response")
			}
			if nt && len(samples) < 3 && !sampled[outcome+ex.Why[:min(len(ex.Why), 12)]] {
				sampled[outcome+ex.Why[:min(len(ex.Why), 12)]] = true
				vs := []int16{}
				for _, f := range mine {
					vs = append(vs, f.Version)
				}
				samples = append(samples, map[string]any{"key": rp.Key, "name": kmsg.NameForKey(rp.Key), "direct": rp.Direct, "bounds": ck.describe(rp.Key), "expect": outcome, "why": ex.Why, "written_versions": vs, "err": fmt.Sprint(err)})
			}
		}
		// anything written after the last call returned
		e.Settle()
		for _, f := range ck.feed(br.Frames()) {
			ck.checkFrame(f, !shaped(f.Key))
		}
		errs = ck.errs
		if !m.handshake {
			ev.Class("mode_user_pre_apiversions")
			for _, f := range br.Frames() {
				if f.Key == 18 {
					errs = append(errs, fmt.Sprintf("frame #%d: ApiVersions v%d written although the user's MaxVersions has no ApiVersions key", f.Seq, f.Version))
				}
			}
		} else if m.connFails {
			ev.Class("mode_handshake_fails")
		} else {
			ev.Class("mode_table_loaded")
			if _, ok := p.Table[0]; !ok {
				ev.Class("mode_table_loaded_without_produce_key")
			}
		}
	})
	for _, s := range samples {
		s := s
		ev.SampleIf(func() any { return s })
	}
	if len(errs) > 0 {
		js, _ := json.Marshal(p)
		t.Fatalf("C21 violated:\n  %s\nplan: %s", strings.Join(errs, "\n  "), js)
	}
}

// witnessMin18 runs the recorded witness (MaxVersions{18:0} + MinVersions{18:1}, one direct
// Metadata request) and reports the versions of the ApiVersions frames the client wrote.
func witnessMin18(tt *testing.T) (written []int16, callErr error) {
	sb.Run(tt, func(e *sb.Env) {
		s := &sb.Script{Table: map[int16][2]int16{}, Understands: 4, NodeID: 1, Host: "localhost", Port: 9092}
		for _, k := range allKeys {
			s.Table[k] = [2]int16{0, clientMax(k)}
			s.Order = append(s.Order, k)
		}
		br := e.Listen(9092, s.Handle)
		cl, err := e.Client(kgo.SeedBrokers("localhost:9092"), kgo.DisableClientMetrics(),
			kgo.MaxVersions(userVersions(map[int16]int16{18: 0, 3: clientMax(3)})),
			kgo.MinVersions(userVersions(map[int16]int16{18: 1})))
		if err != nil {
			panic(fmt.Sprintf("VERIF-INFRA: NewClient: %v", err))
		}
		ctx, cancel := context.WithTimeout(context.Background(), time.Minute)
		defer cancel()
		_, callErr = cl.SeedBrokers()[0].Request(ctx, kmsg.NewPtrMetadataRequest())
		for _, f := range br.Frames() {
			if f.Key == 18 {
				written = append(written, f.Version)
			}
		}
	})
	return written, callErr
}

var decideOnce sync.Once

// decideKnown activates the exclusion iff the finding is listed open and the witness still
// shows it; it announces the finding once.
func decideKnown(tt *testing.T) {
	decideOnce.Do(func() {
		if !knownListed(knownMin18) {
			return
		}
		written, err := witnessMin18(tt)
		if len(written) > 0 {
			min18Active = true
			ev.KnownFinding("C21", fmt.Sprintf("%s: witness MaxVersions{18:0}+MinVersions{18:1}: the handshake wrote ApiVersions %v although no version is >= the user's minimum 1 (call err=%v)", knownMin18, written, err))
			ev.Class("known_finding_witness_still_fails")
		} else {
			ev.Class("known_finding_listed_but_witness_passes_check_is_strict")
		}
	})
}

// TestKnownFindingWitness keeps the witness in the evidence whichever way it goes: when the
// finding is not (or no longer) listed, the witness is asserted like any other case.
func TestKnownFindingWitness(t *testing.T) {
	decideKnown(t)
	if min18Active {
		return
	}
	written, err := witnessMin18(t)
	if len(written) > 0 {
		msg := fmt.Sprintf("[%s] witness MaxVersions{18:0}+MinVersions{18:1}: ApiVersions %v written although no version satisfies the user's minimum (call err=%v)", knownMin18, written, err)
		ev.Replay("c21-witness.txt", msg)
		t.Fatalf("%s", msg)
	}
	if err == nil {
		msg := "witness MaxVersions{18:0}+MinVersions{18:1}: nothing written but the call returned no error"
		ev.Replay("c21-witness.txt", msg)
		t.Fatalf("%s", msg)
	}
	ev.Class("witness_handshake_respects_user_min")
}

func TestNegotiation(t *testing.T) {
	decideKnown(t)
	rapid.Check(t, func(rt *rapid.T) {
		p := genPlan(rt)
		runCase(rt, t, p)
	})
}
