package c21

import (
	"context"
	"fmt"
	"sort"
	"sync"
	"testing"
	"time"

	"github.com/twmb/franz-go/pkg/kgo"
	"github.com/twmb/franz-go/pkg/kmsg"
	"pgregory.net/rapid"

	"verif/h/ev"
	sb "verif/h/scriptbroker"
)

// TestBrokerRoll: the broker's advertised version ranges change while the client keeps running
// (a broker process restarted on an older or newer release behind the same address). All of
// the client's connections die at the roll; every connection opened afterwards is answered
// with the new table. Every request written on a post-roll connection must be within the
// table that connection's ApiVersions exchange advertised (which, since no pre-roll connection
// survives, is the only table the client may still believe), or the call must fail.

type rollPlan struct {
	Before map[int16][2]int16
	After  map[int16][2]int16
	Keys   []int16 // request kinds issued in each phase, in order
}

var rollKeys = []int16{3, 2, 15, 19, 20, 32} // Metadata, ListOffsets, DescribeGroups, CreateTopics, DeleteTopics, DescribeConfigs

func genRoll(t *rapid.T) rollPlan {
	p := rollPlan{Before: map[int16][2]int16{}, After: map[int16][2]int16{}}
	for k := int16(0); k <= kmsg.MaxKey; k++ {
		r := kmsg.RequestForKey(k)
		if r == nil {
			continue
		}
		p.Before[k] = [2]int16{0, r.MaxVersion()}
		p.After[k] = [2]int16{0, r.MaxVersion()}
	}
	for _, k := range rollKeys {
		max := kmsg.RequestForKey(k).MaxVersion()
		b := int16(rapid.IntRange(0, int(max)).Draw(t, "before-max"))
		a := int16(rapid.IntRange(0, int(max)).Draw(t, "after-max"))
		amin := int16(0)
		if rapid.IntRange(0, 3).Draw(t, "raise-min") == 0 {
			amin = int16(rapid.IntRange(0, int(a)).Draw(t, "after-min"))
		}
		p.Before[k] = [2]int16{0, b}
		p.After[k] = [2]int16{amin, a}
		if rapid.IntRange(0, 7).Draw(t, "drop-key") == 0 {
			delete(p.After, k)
		}
	}
	n := rapid.IntRange(2, 8).Draw(t, "ncalls")
	for i := 0; i < n; i++ {
		p.Keys = append(p.Keys, rapid.SampledFrom(rollKeys).Draw(t, "key"))
	}
	return p
}

func rollReq(k int16, i int) kmsg.Request {
	name := fmt.Sprintf("roll-%d", i)
	switch k {
	case 3:
		r := kmsg.NewPtrMetadataRequest()
		rt := kmsg.NewMetadataRequestTopic()
		rt.Topic = kmsg.StringPtr(name)
		r.Topics = append(r.Topics, rt)
		return r
	case 2:
		r := kmsg.NewPtrListOffsetsRequest()
		r.ReplicaID = -1
		rt := kmsg.NewListOffsetsRequestTopic()
		rt.Topic = name
		rp := kmsg.NewListOffsetsRequestTopicPartition()
		rp.Timestamp = -1
		rt.Partitions = append(rt.Partitions, rp)
		r.Topics = append(r.Topics, rt)
		return r
	case 15:
		r := kmsg.NewPtrDescribeGroupsRequest()
		r.Groups = []string{name}
		return r
	case 19:
		r := kmsg.NewPtrCreateTopicsRequest()
		rt := kmsg.NewCreateTopicsRequestTopic()
		rt.Topic, rt.NumPartitions, rt.ReplicationFactor = name, 1, 1
		r.Topics = append(r.Topics, rt)
		return r
	case 20:
		r := kmsg.NewPtrDeleteTopicsRequest()
		r.TopicNames = []string{name}
		rt := kmsg.NewDeleteTopicsRequestTopic()
		rt.Topic = kmsg.StringPtr(name)
		r.Topics = append(r.Topics, rt)
		return r
	default:
		r := kmsg.NewPtrDescribeConfigsRequest()
		rr := kmsg.NewDescribeConfigsRequestResource()
		rr.ResourceType, rr.ResourceName = kmsg.ConfigResourceTypeTopic, name
		r.Resources = append(r.Resources, rr)
		return r
	}
}

func TestBrokerRoll(t *testing.T) {
	rapid.Check(t, func(rt *rapid.T) {
		p := genRoll(rt)
		var violations []string
		lowered, postRollFrames := 0, 0
		sb.Run(t, func(e *sb.Env) {
			var mu sync.Mutex
			rolled := false
			tableOf := map[int]map[int16][2]int16{} // connection id -> table its handshake advertised
			mk := func(tab map[int16][2]int16) *sb.Script {
				s := &sb.Script{Table: tab, Understands: 4, NodeID: 1, Host: "localhost", Port: 9092}
				for k := range tab {
					s.Order = append(s.Order, k)
				}
				sort.Slice(s.Order, func(i, j int) bool { return s.Order[i] < s.Order[j] })
				return s
			}
			before, after := mk(p.Before), mk(p.After)
			br := e.Listen(9092, func(c *sb.Conn, f *sb.Frame) {
				mu.Lock()
				s, tab := before, p.Before
				if rolled {
					s, tab = after, p.After
				}
				if f.Key == 18 {
					if _, seen := tableOf[c.ID()]; !seen {
						tableOf[c.ID()] = tab
					}
				} else if mine, ok := tableOf[c.ID()]; ok && rolled && sameTable(mine, p.After) {
					postRollFrames++
					r, listed := mine[f.Key]
					switch {
					case !listed:
						violations = append(violations, fmt.Sprintf("request key %d v%d written on a connection whose ApiVersions exchange (after the roll) did not list key %d", f.Key, f.Version, f.Key))
					case f.Version < r[0] || f.Version > r[1]:
						violations = append(violations, fmt.Sprintf("request key %d written at v%d on a connection whose ApiVersions exchange (after the roll) advertised [%d,%d] for it (before the roll: %v)", f.Key, f.Version, r[0], r[1], p.Before[f.Key]))
					}
				}
				mu.Unlock()
				s.Handle(c, f)
			})
			cl, err := e.Client(kgo.SeedBrokers("localhost:9092"), kgo.RequestRetries(2), kgo.RetryBackoffFn(func(int) time.Duration { return 20 * time.Millisecond }),
				kgo.MetadataMinAge(10*time.Millisecond), kgo.DisableClientMetrics())
			if err != nil {
				panic(fmt.Sprintf("VERIF-INFRA: NewClient: %v", err))
			}
			issue := func(phase int) {
				for i, k := range p.Keys {
					ctx, cancel := context.WithTimeout(context.Background(), 30*time.Second)
					cl.Request(ctx, rollReq(k, phase*100+i)) // errors are fine: no common version
					cancel()
				}
			}
			issue(0)
			mu.Lock()
			rolled = true
			mu.Unlock()
			br.KillConns()
			time.Sleep(100 * time.Millisecond)
			issue(1)
			issue(2)
		})
		for _, k := range rollKeys {
			if a, ok := p.After[k]; !ok || a[1] < p.Before[k][1] || a[0] > 0 {
				lowered++
			}
		}
		ev.Case(fmt.Sprintf("roll|%v|%v|%v", p.Keys, subset(p.Before), subset(p.After)), lowered > 0 && postRollFrames > 0)
		ev.Class("broker-roll")
		if lowered > 0 {
			ev.Class("broker-roll:range-lowered-or-key-dropped")
		}
		ev.ClassN("broker-roll:post-roll-frames-checked", int64(postRollFrames))
		if len(violations) > 0 {
			rt.Fatalf("%s\n(%d violations) plan: keys %v before %v after %v", violations[0], len(violations), p.Keys, subset(p.Before), subset(p.After))
		}
	})
}

func sameTable(a, b map[int16][2]int16) bool {
	if len(a) != len(b) {
		return false
	}
	for k, v := range a {
		if b[k] != v {
			return false
		}
	}
	return true
}

func subset(t map[int16][2]int16) map[int16][2]int16 {
	out := map[int16][2]int16{}
	for _, k := range rollKeys {
		if v, ok := t[k]; ok {
			out[k] = v
		}
	}
	return out
}
