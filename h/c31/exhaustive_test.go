package c31

import (
	"fmt"
	"os"
	"testing"

	"verif/h/ev"
	"verif/h/sched"
)

// Systematic part. For each configuration below every schedule is executed: depth-first
// enumeration of the complete choice tree (at every synchronisation operation of every
// thread, every enabled thread is tried as the next one to run, and every waiter as the
// target of a Signal). Configurations with a preemption bound K enumerate every schedule
// with at most K preemptions instead (a preemption = taking the baton from a thread that
// could have continued; switches at blocking points are free). The same oracle as in the
// random part judges each schedule.

type exhCfg struct {
	gate     *gateProg
	mu       *muProg
	bound    int   // sched.Unbounded or K
	est      int64 // measured number of schedules (for shard balancing only)
	thorough bool  // only in the thorough tier
}

func (c exhCfg) name() string {
	var n string
	if c.gate != nil {
		n = c.gate.String()
	} else {
		n = c.mu.String()
	}
	if c.bound >= 0 {
		n += fmt.Sprintf(" (<=%d preemptions)", c.bound)
	}
	return n
}

// gp: contract-mode gate program; self = the single poller calls AllowRebalance itself.
func gp(self bool, reb []int, rounds ...[]string) *gateProg {
	return &gateProg{SelfAllow: self, Rebalancers: reb, Rounds: rounds}
}

// gr: race-mode gate program.
func gr(reb []int, allowers []int, rounds ...[]string) *gateProg {
	return &gateProg{Race: true, SelfAllow: true, Rebalancers: reb, Allowers: allowers, Rounds: rounds}
}

func mx(threads ...string) *muProg { return &muProg{Threads: threads} }
func rw(threads ...string) *muProg { return &muProg{RW: true, Threads: threads} }
func rdv(n int) *muProg {
	p := &muProg{RW: true, Rendezvous: true}
	for i := 0; i < n; i++ {
		p.Threads = append(p.Threads, "R")
	}
	return p
}

type S = []string

const U = sched.Unbounded

func exhConfigs() []exhCfg {
	return []exhCfg{
		// gate, contract mode, complete trees
		{gate: gp(true, []int{1}, S{"r"}), bound: U, est: 42},
		{gate: gp(true, []int{1}, S{"e"}), bound: U, est: 150},
		{gate: gp(true, []int{1}, S{"re"}), bound: U, est: 116},
		{gate: gp(true, []int{1}, S{"r"}, S{"r"}), bound: U, est: 163},
		{gate: gp(true, []int{2}, S{"r"}, S{"e"}), bound: U, est: 4214},
		{gate: gp(true, []int{1, 1}, S{"r"}), bound: U, est: 53374},
		{gate: gp(false, []int{1}, S{"r"}), bound: U, est: 13955},
		// gate, race mode (AllowRebalance racing in-flight polls), complete trees
		{gate: gr([]int{1}, []int{1}, S{"e"}), bound: U, est: 7478},
		{gate: gr([]int{1}, []int{1}, S{"r"}), bound: U, est: 7478},
		{gate: gr(nil, []int{1}, S{"e", "e"}), bound: U, est: 16944},
		// gate, bounded preemptions
		{gate: gp(true, []int{1, 1}, S{"r"}, S{"r"}), bound: 2, est: 2530},
		{gate: gp(true, []int{1, 1}, S{"r"}, S{"r"}), bound: 3, est: 13274},
		{gate: gp(false, []int{1}, S{"r", "e"}), bound: 2, est: 172623},
		{gate: gp(false, []int{1}, S{"r", "r"}), bound: 2, est: 98482},
		{gate: gr([]int{1}, []int{1}, S{"e", "e"}), bound: 2, est: 31746},
		{gate: gr([]int{1}, []int{2}, S{"ee"}), bound: 2, est: 2135},
		{gate: gr([]int{1}, []int{2}, S{"ee"}), bound: 3, est: 11595},
		{gate: gr([]int{1}, []int{1}, S{"e", "e"}), bound: 3, est: 239694, thorough: true},
		{gate: gp(false, []int{1}, S{"r", "e"}), bound: 3, est: 1647910, thorough: true},
		{gate: gp(false, []int{1}, S{"r", "r"}), bound: 3, est: 766874, thorough: true},
		// gate, larger complete trees (thorough tier)
		{gate: gp(true, []int{1, 1}, S{"r"}, S{"r"}), bound: U, est: 647630, thorough: true},
		{gate: gr([]int{1}, []int{2}, S{"ee"}), bound: U, est: 474362, thorough: true},
		// gr([]int{1}, []int{1}, S{"e", "e"}) has 25,723,128 schedules and rw("R", "Y", "L") 25,514,915
		// (measured once, all passed); they are enumerated up to 3 preemptions to keep the
		// thorough tier near 10 minutes
		// xsync.Mutex, complete trees
		{mu: mx("L", "L"), bound: U, est: 40},
		{mu: mx("L", "T"), bound: U, est: 68},
		{mu: mx("L", "L", "L"), bound: U, est: 5130},
		{mu: mx("L", "L", "T"), bound: U, est: 9842},
		{mu: mx("LL", "LT"), bound: U, est: 264},
		{mu: mx("LT", "TL", "L"), bound: U, est: 124621},
		// xsync.RWMutex, complete trees
		{mu: rw("L", "L"), bound: U, est: 96},
		{mu: rw("L", "R"), bound: U, est: 1452},
		{mu: rw("R", "R"), bound: U, est: 3156},
		{mu: rw("L", "T"), bound: U, est: 246},
		{mu: rw("L", "Y"), bound: U, est: 1602},
		{mu: rw("R", "T"), bound: U, est: 1560},
		{mu: rw("R", "Y"), bound: U, est: 3228},
		{mu: rw("RR", "L"), bound: U, est: 4536},
		{mu: rw("RL", "R"), bound: U, est: 39768},
		{mu: rw("RR", "LT"), bound: U, est: 64296},
		// xsync.RWMutex, larger complete trees (thorough tier)
		{mu: rw("R", "L", "L"), bound: U, est: 746856, thorough: true},
		{mu: rdv(2), bound: U, est: 591844, thorough: true},
		{mu: rw("R", "T", "L"), bound: U, est: 2361313, thorough: true},
		{mu: rw("R", "R", "L"), bound: U, est: 24313902, thorough: true},
		// xsync.RWMutex, bounded preemptions
		{mu: rdv(3), bound: 2, est: 843048, thorough: true},
		{mu: rw("R", "R", "L"), bound: 2, est: 4422},
		{mu: rw("R", "L", "L"), bound: 2, est: 3780},
		{mu: rdv(2), bound: 2, est: 4324},
		{mu: rw("R", "Y", "L"), bound: 2, est: 3890},
		{mu: rw("R", "T", "L"), bound: 2, est: 3322},
		{mu: rw("R", "R", "L"), bound: 3, est: 33988},
		{mu: rw("R", "L", "L"), bound: 3, est: 21722},
		{mu: rdv(2), bound: 3, est: 22764},
		{mu: rw("R", "Y", "L"), bound: 3, est: 30261},
		{mu: rw("R", "T", "L"), bound: 3, est: 20500},
	}
}

var exh struct {
	states, transitions, schedules, complete, bounded, deadlocks int64
}

func publish() {
	ev.Extra("states", exh.states)
	ev.Extra("transitions", exh.transitions)
	ev.Extra("traces_validated_against_impl", exh.schedules)
	ev.Extra("schedules_enumerated", exh.schedules)
	ev.Extra("configurations_enumerated_completely", exh.complete)
	ev.Extra("configurations_enumerated_up_to_a_preemption_bound", exh.bounded)
	ev.Extra("deadlocks_found", exh.deadlocks)
}

func TestExhaustive(t *testing.T) {
	if os.Getenv("VERIF_REPLAY") != "" {
		t.Skip("replay run")
	}
	var cfgs []exhCfg
	var est []int64
	for _, c := range exhConfigs() {
		if c.thorough && !ev.Thorough() {
			continue
		}
		cfgs = append(cfgs, c)
		est = append(est, c.est)
	}
	shard, n := ev.Shard()
	publish()
	for _, i := range sched.Assign(est, shard, n) {
		c := cfgs[i]
		cfg := sched.Config{MaxPreemptions: c.bound}
		name := c.name()
		sampled := false
		st, bad := sched.Exhaust(0, func(choose func(int) int) *sched.Result {
			var res *sched.Result
			var nt bool
			if c.gate != nil {
				var in gateInfo
				res, in = runGate(cfg, *c.gate, choose)
				nt = gateNontrivial(res, in)
				gateClasses(*c.gate, res, in)
			} else {
				var in muInfo
				res, in = runMu(cfg, *c.mu, choose)
				nt = muNontrivial(res, in)
				muClasses(*c.mu, res, in)
			}
			ev.Case(name+"|"+res.ChoiceString(), nt)
			if nt && !sampled && res.Preemptions >= 2 {
				sampled = true
				ev.SampleIf(func() any { return mkSample(progOf(c), name, res, "enumerated") })
			}
			return res
		})
		exh.states += st.States
		exh.transitions += st.Transitions
		exh.schedules += st.Schedules
		exh.deadlocks += st.Deadlocks
		ev.ClassN("schedules:enumerated", st.Schedules)
		if bad != nil {
			publish()
			rf := replayFile{Kind: "gate", Gate: c.gate, MaxPre: c.bound}
			if c.mu != nil {
				rf = replayFile{Kind: "mutex", Mu: c.mu, MaxPre: c.bound}
			}
			report(t, bad, name, rf, true)
		}
		if !st.Complete {
			t.Fatalf("VERIF-INFRA: enumeration of %s did not complete", name)
		}
		if c.bound < 0 {
			exh.complete++
		} else {
			exh.bounded++
		}
		ev.Extra("enumerated: "+name, st.Schedules)
		publish()
		t.Logf("%s: %d schedules, %d states, depth %d", name, st.Schedules, st.States, st.MaxDepth)
	}
}

func progOf(c exhCfg) any {
	if c.gate != nil {
		return c.gate
	}
	return c.mu
}
