// Package x holds the code under test of C31: gate_gen.go (the poll/rebalance gate
// methods of kgo's consumer) and xsync_gen.go (the channel-based Mutex/RWMutex of
// kgo/internal/xsync) are generated at check time from the repository (see
// verif/h/sched/extract; git-ignored). This file is the scaffolding the gate methods
// refer to (c.cl.cfg.blockRebalanceOnPoll, c.cl.cfg.onBlocked, c.cl.ctx) and exports
// what the harness needs; it adds no behaviour.
package x

import (
	"context"

	"verif/h/sched"
)

type Client struct {
	cfg      cfg
	ctx      context.Context
	consumer consumer
}

type cfg struct {
	blockRebalanceOnPoll bool
	onBlocked            func(context.Context, *Client)
}

type Gate = consumer

// NewGate mirrors consumer.init for the gate fields, with BlockRebalanceOnPoll set and
// no OnPartitionsCallbackBlocked callback.
func NewGate() *Gate {
	cl := &Client{ctx: context.Background()}
	cl.cfg.blockRebalanceOnPoll = true
	c := &cl.consumer
	c.cl = cl
	c.pollWaitC = sched.NewCond(&c.pollWaitMu)
	return c
}

func (c *consumer) WaitAndAddPoller()    { c.waitAndAddPoller() }
func (c *consumer) UnaddPoller()         { c.unaddPoller() }
func (c *consumer) AllowRebalance()      { c.allowRebalance() }
func (c *consumer) WaitAndAddRebalance() { c.waitAndAddRebalance() }
func (c *consumer) UnaddRebalance()      { c.unaddRebalance() }

// Observation without synchronisation: only one logical thread runs at a time.
func (c *consumer) State() uint64        { return c.pollWaitState }
func (c *consumer) CondPtr() *sched.Cond { return c.pollWaitC }
