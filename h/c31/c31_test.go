// Package c31 checks property C31: the BlockRebalanceOnPoll gate of kgo's consumer and
// the channel-based Mutex/RWMutex of kgo/internal/xsync exclude correctly and never
// deadlock. The code under test is extracted from the repository at check time
// (x/*_gen.go) with only its synchronisation types and channel operations swapped for
// verif/h/sched's, and is driven by generated programs under generated schedules: random
// (rapid, with shrinking) and, for the configurations listed in exhaustive_test.go,
// every schedule (complete choice tree) or every schedule with a bounded number of
// preemptions.
package c31

import (
	"encoding/json"
	"fmt"
	"os"
	"runtime"
	"strings"
	"testing"

	"pgregory.net/rapid"

	"verif/h/c31/x"
	"verif/h/ev"
	"verif/h/sched"
)

func TestMain(m *testing.M) {
	runtime.GOMAXPROCS(1) // one logical thread runs at a time; parallelism = driver shards
	ev.Main(m, "C31")
}

var unb = sched.Config{MaxPreemptions: sched.Unbounded}

// ---------------------------------------------------------------------------------
// poll / rebalance gate

// gateProg is a generated gate program.
//
// Contract mode (Race=false) follows the documented use of BlockRebalanceOnPoll: the
// pollers of a round poll (a poll that "returned records" stays registered, an empty one
// unregisters itself exactly as PollRecords does), and AllowRebalance is called only when
// every poller of the round is done (by the single poller itself, or by a separate
// thread that the pollers hand off to). Every round ends with AllowRebalance, so every
// record-returning poll is eventually followed by AllowRebalance.
//
// With two pollers the program contains a single rebalance (see genGateProg for why).
//
// Race mode (Race=true) adds threads that call AllowRebalance at arbitrary moments,
// also while another goroutine's poll is in flight. That is a documented contract
// violation; only the no-underflow guard is checked there (state returns to zero, nothing
// deadlocks), not exclusion.
type gateProg struct {
	Race        bool       `json:"race"`
	Rounds      [][]string `json:"rounds"`      // [round][poller] -> polls of that poller in that round: 'r' returned records, 'e' empty
	SelfAllow   bool       `json:"self_allow"`  // single poller calls AllowRebalance itself (else a separate thread after a hand-off)
	Rebalancers []int      `json:"rebalancers"` // per rebalancer thread: number of rebalances
	Allowers    []int      `json:"allowers"`    // race mode: per extra thread the number of AllowRebalance calls
}

func (p gateProg) String() string {
	mode := "contract"
	if p.Race {
		mode = "race"
	}
	return fmt.Sprintf("gate %s rounds=%v selfAllow=%v rebalancers=%v allowers=%v", mode, p.Rounds, p.SelfAllow, p.Rebalancers, p.Allowers)
}

type gateInfo struct {
	pollWaited, rebWaited     int
	polls, rebalances, allows int
}

func runGate(cfg sched.Config, p gateProg, choose func(int) int) (*sched.Result, gateInfo) {
	var (
		g    *x.Gate
		info gateInfo
		// conservative SUBSET of "registered": raised after waitAndAddPoller returned, lowered
		// before the release call is made
		registered int
		// conservative SUPERSET: raised before waitAndAddPoller is called, lowered after the
		// release call returned
		maybeRegistered int
		inCS            int // rebalancers between waitAndAddRebalance's return and the call of unaddRebalance
		rebSeq          int
		defPending      = map[int]bool{} // rebalance id -> definitely counted in the gate (parked in Wait, or in its critical section)
		released        = map[int]bool{} // rebalance id -> unaddRebalance has been called
		curReb          = map[int]int{}  // thread id -> rebalance id while inside waitAndAddRebalance
		inPollCall      = map[int]bool{}
	)
	npollers := 0
	if len(p.Rounds) > 0 {
		npollers = len(p.Rounds[0])
	}
	res := sched.Run(cfg, choose, func(s *sched.S) {
		g = x.NewGate()
		s.OnOp = func(t *sched.Thread, op sched.Op) {
			if op.Kind != sched.OpCondWait || op.Obj != any(g.CondPtr()) {
				return
			}
			if id, ok := curReb[t.ID]; ok {
				defPending[id] = true // it has added itself and now waits for the pollers
				info.rebWaited++
			} else if inPollCall[t.ID] {
				info.pollWaited++
			}
		}
		poll := func(th *sched.Thread, kind byte, mine *int) {
			info.polls++
			// "polls wait while a rebalance is pending": if no poller can be registered
			// now and some rebalance is definitely counted, this poll may only return after
			// each of those rebalances has been released.
			var mustWaitFor []int
			if !p.Race && maybeRegistered == 0 {
				for id := 1; id <= rebSeq; id++ {
					if defPending[id] {
						mustWaitFor = append(mustWaitFor, id)
					}
				}
			}
			maybeRegistered++
			inPollCall[th.ID] = true
			g.WaitAndAddPoller()
			inPollCall[th.ID] = false
			registered++
			if !p.Race {
				for _, id := range mustWaitFor {
					if !released[id] {
						s.Failf("%s: poll returned although rebalance #%d was pending (no poller was registered when the poll began) and has not finished", th.Name, id)
					}
				}
				if inCS != 0 {
					s.Failf("%s: poll returned while %d rebalance(s) are in their critical section", th.Name, inCS)
				}
			}
			sched.Yield() // the poll / the processing of its records takes time
			if kind == 'e' {
				// PollRecords: `defer func() { if len(fetches) == 0 { c.unaddPoller() } }()`
				registered--
				g.UnaddPoller()
				maybeRegistered--
			} else {
				*mine++
			}
		}
		allow := func(mine *int) {
			info.allows++
			if !p.Race {
				registered = 0
			} else if mine != nil {
				registered -= *mine
			}
			g.AllowRebalance()
			if !p.Race {
				maybeRegistered = 0
			}
			if mine != nil {
				*mine = 0
			}
		}
		var done *sched.Chan
		var next []*sched.Chan
		handoff := !p.Race && !(p.SelfAllow && npollers == 1)
		if handoff {
			done = sched.NewChan(npollers)
			for i := 0; i < npollers; i++ {
				next = append(next, sched.NewChan(1))
			}
		}
		for pi := 0; pi < npollers; pi++ {
			pi := pi
			var th *sched.Thread
			th = s.Go(fmt.Sprintf("poller%d", pi), func() {
				mine := 0
				for _, round := range p.Rounds {
					for _, k := range []byte(round[pi]) {
						poll(th, k, &mine)
					}
					switch {
					case handoff:
						done.Send()
						next[pi].Recv()
					case p.Race:
						if mine > 0 {
							allow(&mine) // its own record-returning polls are followed by AllowRebalance
						}
					default:
						allow(&mine)
					}
				}
			})
		}
		if handoff {
			s.Go("allower", func() {
				for range p.Rounds {
					for i := 0; i < npollers; i++ {
						done.Recv()
					}
					allow(nil) // every poller of the round is done
					for i := 0; i < npollers; i++ {
						next[i].Send()
					}
				}
			})
		}
		for ri, n := range p.Rebalancers {
			ri, n := ri, n
			var th *sched.Thread
			th = s.Go(fmt.Sprintf("rebalancer%d", ri), func() {
				for k := 0; k < n; k++ {
					info.rebalances++
					rebSeq++
					id := rebSeq
					curReb[th.ID] = id
					g.WaitAndAddRebalance()
					delete(curReb, th.ID)
					defPending[id] = true
					inCS++
					if !p.Race && registered != 0 {
						s.Failf("%s: rebalance #%d entered its critical section while %d poll(s) are registered (a poll that returned records is outstanding, or a poll is in flight)", th.Name, id, registered)
					}
					sched.Yield() // the revocation callback takes time
					inCS--
					defPending[id] = false
					released[id] = true
					g.UnaddRebalance()
				}
			})
		}
		for ai, n := range p.Allowers {
			n := n
			s.Go(fmt.Sprintf("allowRacer%d", ai), func() {
				for k := 0; k < n; k++ {
					info.allows++
					g.AllowRebalance()
				}
			})
		}
	})
	if res.Kind != sched.OK {
		return res, info
	}
	if st := g.State(); st != 0 {
		res.Fail("all threads finished (every poll released or allowed, every rebalance un-added) but the gate state is %#x: pollers=%d rebalances=%d", st, uint32(st), st>>32)
	}
	return res, info
}

func genPolls(t *rapid.T, max int) string {
	n := rapid.IntRange(1, max).Draw(t, "npolls")
	var b []byte
	for i := 0; i < n; i++ {
		b = append(b, rapid.SampledFrom([]byte{'r', 'r', 'e'}).Draw(t, "poll"))
	}
	return string(b)
}

func genGateProg(t *rapid.T) gateProg {
	var p gateProg
	p.Race = rapid.IntRange(0, 3).Draw(t, "race") == 0
	np := rapid.IntRange(1, 2).Draw(t, "pollers")
	nr := rapid.IntRange(1, 2).Draw(t, "rounds")
	for r := 0; r < nr; r++ {
		var round []string
		for i := 0; i < np; i++ {
			round = append(round, genPolls(t, 2))
		}
		p.Rounds = append(p.Rounds, round)
	}
	p.SelfAllow = rapid.Bool().Draw(t, "selfAllow")
	if !p.Race && np > 1 {
		// Several polling goroutines that honour the contract (AllowRebalance only once no
		// other poll is in flight) cannot promise "every record-returning poll is eventually
		// followed by AllowRebalance" when two rebalances overlap a poll that waits at the
		// gate: the waiting poll keeps waiting for the second rebalance (rebalances take
		// priority), which waits for the AllowRebalance, which waits for the waiting poll.
		// That circular wait is the program's, not the gate's; with a single rebalance in
		// the program it cannot arise.
		p.Rebalancers = []int{1}
	} else {
		nreb := rapid.IntRange(1, 2).Draw(t, "rebalancers")
		for i := 0; i < nreb; i++ {
			p.Rebalancers = append(p.Rebalancers, rapid.IntRange(1, 2).Draw(t, "nreb"))
		}
	}
	if p.Race {
		na := rapid.IntRange(1, 2).Draw(t, "allowers")
		for i := 0; i < na; i++ {
			p.Allowers = append(p.Allowers, rapid.IntRange(1, 2).Draw(t, "nallow"))
		}
	}
	return p
}

func gateNontrivial(res *sched.Result, in gateInfo) bool {
	// a poll or a rebalance really had to wait at the gate, under a schedule with a preemption
	return in.pollWaited+in.rebWaited >= 1 && res.Preemptions >= 1
}

func gateClasses(p gateProg, res *sched.Result, in gateInfo) {
	ev.Class("gate:cases")
	if p.Race {
		ev.Class("gate:race-mode")
	} else {
		ev.Class("gate:contract-mode")
	}
	if in.pollWaited > 0 {
		ev.Class("gate:poll-waited-for-rebalance")
	}
	if in.rebWaited > 0 {
		ev.Class("gate:rebalance-waited-for-pollers")
	}
}

// ---------------------------------------------------------------------------------
// xsync Mutex / RWMutex

// muProg is a generated lock program. Ops per thread: 'L' Lock..Unlock, 'T' TryLock (on
// success ..Unlock), and for the RWMutex also 'R' RLock..RUnlock, 'Y' TryRLock (on
// success ..RUnlock). Rendezvous (RWMutex, readers only): every thread RLocks and holds
// its read lock until all of them hold one - readers must be able to share.
type muProg struct {
	RW         bool     `json:"rw"`
	Threads    []string `json:"threads"`
	Rendezvous bool     `json:"rendezvous"`
}

func (p muProg) String() string {
	k := "Mutex"
	if p.RW {
		k = "RWMutex"
	}
	if p.Rendezvous {
		k += " reader-rendezvous"
	}
	return fmt.Sprintf("xsync.%s %v", k, p.Threads)
}

type muInfo struct {
	tryFailed, tryOK, blocked int
	readersShared             bool
}

type thrState struct {
	inCall bool // inside a method of the mutex under test
	inTry  bool // that method is TryLock / TryRLock
}

func runMu(cfg sched.Config, p muProg, choose func(int) int) (*sched.Result, muInfo) {
	var (
		info             muInfo
		writers, readers int
	)
	res := sched.Run(cfg, choose, func(s *sched.S) {
		var mu x.Mutex
		var rw x.RWMutex
		// "TryLock never blocks": a thread inside TryLock/TryRLock may be held up only by
		// another thread that is itself inside an operation of the mutex and can run (the
		// short internal sections); it must never wait for a lock HOLDER, i.e. be unable
		// to proceed while no thread inside a mutex operation can run.
		s.OnSchedule = func(s *sched.S) {
			for _, t := range s.Threads() {
				st, _ := t.User.(*thrState)
				if st == nil || t.Done() || !st.inTry || t.Enabled() {
					continue
				}
				helped := false
				for _, u := range s.Threads() {
					us, _ := u.User.(*thrState)
					if u != t && us != nil && !u.Done() && us.inCall && u.Enabled() {
						helped = true
					}
				}
				if !helped {
					s.Failf("%s is blocked inside a Try operation (%s) and no thread inside a mutex operation can run: TryLock/TryRLock waits for a lock holder", t.Name, t.Pending().Kind)
				}
			}
		}
		wcs := func(name string) {
			writers++
			if writers != 1 || readers != 0 {
				s.Failf("%s holds the write lock together with %d other writer(s) and %d reader(s)", name, writers-1, readers)
			}
			sched.Yield()
			writers--
		}
		rcs := func(name string) {
			readers++
			if writers != 0 {
				s.Failf("%s holds a read lock while a writer holds the write lock", name)
			}
			if readers >= 2 {
				info.readersShared = true
			}
			sched.Yield()
			readers--
		}
		var arrived, release *sched.Chan
		if p.Rendezvous {
			arrived, release = sched.NewChan(len(p.Threads)), sched.NewChan(len(p.Threads))
			s.Go("coordinator", func() {
				for range p.Threads {
					arrived.Recv()
				}
				for range p.Threads {
					release.Send()
				}
			})
		}
		for ti, ops := range p.Threads {
			ti, ops := ti, ops
			st := &thrState{}
			var th *sched.Thread
			th = s.Go(fmt.Sprintf("t%d", ti), func() {
				name := th.Name
				call := func(try bool, f func()) {
					st.inCall, st.inTry = true, try
					b0 := th.Blocked
					f()
					if th.Blocked > b0 {
						info.blocked++
					}
					st.inCall, st.inTry = false, false
				}
				for _, op := range []byte(ops) {
					var ok bool
					switch {
					case p.Rendezvous:
						call(false, rw.RLock)
						readers++
						if readers >= 2 {
							info.readersShared = true
						}
						arrived.Send()
						release.Recv()
						readers--
						call(false, rw.RUnlock)
					case !p.RW && op == 'L':
						call(false, mu.Lock)
						wcs(name)
						call(false, mu.Unlock)
					case !p.RW && op == 'T':
						call(true, func() { ok = mu.TryLock() })
						if ok {
							info.tryOK++
							wcs(name)
							call(false, mu.Unlock)
						} else {
							info.tryFailed++
						}
					case p.RW && op == 'L':
						call(false, rw.Lock)
						wcs(name)
						call(false, rw.Unlock)
					case p.RW && op == 'T':
						call(true, func() { ok = rw.TryLock() })
						if ok {
							info.tryOK++
							wcs(name)
							call(false, rw.Unlock)
						} else {
							info.tryFailed++
						}
					case p.RW && op == 'R':
						call(false, rw.RLock)
						rcs(name)
						call(false, rw.RUnlock)
					case p.RW && op == 'Y':
						call(true, func() { ok = rw.TryRLock() })
						if ok {
							info.tryOK++
							rcs(name)
							call(false, rw.RUnlock)
						} else {
							info.tryFailed++
						}
					default:
						panic("VERIF-INFRA: bad op in muProg")
					}
				}
			})
			th.User = st
		}
	})
	return res, info
}

func genMuProg(t *rapid.T) muProg {
	var p muProg
	p.RW = rapid.IntRange(0, 3).Draw(t, "rw") != 0
	nt := rapid.IntRange(2, 3).Draw(t, "threads")
	if p.RW && rapid.IntRange(0, 7).Draw(t, "rendezvous") == 0 {
		p.Rendezvous = true
		for i := 0; i < nt; i++ {
			p.Threads = append(p.Threads, "R")
		}
		return p
	}
	alpha := []byte("LLT")
	if p.RW {
		alpha = []byte("LRRTY")
	}
	for i := 0; i < nt; i++ {
		n := rapid.IntRange(1, 3).Draw(t, "nops")
		var b []byte
		for k := 0; k < n; k++ {
			b = append(b, rapid.SampledFrom(alpha).Draw(t, "op"))
		}
		p.Threads = append(p.Threads, string(b))
	}
	return p
}

func muNontrivial(res *sched.Result, in muInfo) bool {
	// some operation had to wait or a Try failed (contention was real), with a preemption
	return (in.blocked >= 1 || in.tryFailed >= 1 || in.readersShared) && res.Preemptions >= 1
}

func muClasses(p muProg, res *sched.Result, in muInfo) {
	k := "mutex"
	if p.RW {
		k = "rwmutex"
	}
	ev.Class(k + ":cases")
	if in.blocked > 0 {
		ev.Class(k + ":an-operation-blocked")
	}
	if in.tryFailed > 0 {
		ev.Class(k + ":try-failed")
	}
	if in.tryOK > 0 {
		ev.Class(k + ":try-succeeded")
	}
	if in.readersShared {
		ev.Class(k + ":two-readers-inside")
	}
	if p.Rendezvous {
		ev.Class(k + ":rendezvous")
	}
}

// ---------------------------------------------------------------------------------

type sample struct {
	Program  any    `json:"program"`
	Text     string `json:"text"`
	Schedule string `json:"schedule"`
	Steps    int    `json:"steps"`
	Preempt  int    `json:"preemptions"`
	Mode     string `json:"mode"`
}

func mkSample(prog any, text string, res *sched.Result, mode string) any {
	return sample{prog, text, res.TraceString(), res.Steps, res.Preemptions, mode}
}

type replayFile struct {
	Kind    string    `json:"kind"` // gate | mutex
	Gate    *gateProg `json:"gate,omitempty"`
	Mu      *muProg   `json:"mutex,omitempty"`
	MaxPre  int       `json:"max_preemptions"` // -1 = unbounded; part of the meaning of choices
	Choices []int32   `json:"choices"`
	Msg     string    `json:"message"`
	Trace   string    `json:"trace"`
}

func report(t interface{ Fatalf(string, ...any) }, res *sched.Result, text string, rf replayFile, writeReplay bool) {
	if res.Kind == sched.OK {
		return
	}
	if res.Kind == sched.Infra {
		t.Fatalf("VERIF-INFRA: %s: %s", text, res.Msg)
	}
	rf.Choices, rf.Msg, rf.Trace = res.Choices, res.Msg, res.TraceString()
	if writeReplay {
		ev.Replay("c31-"+rf.Kind+"-schedule.json", rf)
	}
	t.Fatalf("C31 violated by %s\n  %s\n  schedule: %s\n  choices: %s", text, res.Msg, res.TraceString(), res.ChoiceString())
}

func rapidChooser(t *rapid.T) func(int) int {
	return func(n int) int { return rapid.IntRange(0, n-1).Draw(t, "c") }
}

func scheduleReplay() bool {
	r := os.Getenv("VERIF_REPLAY")
	return r != "" && !strings.HasSuffix(r, ".fail")
}

func TestGateRapid(t *testing.T) {
	if scheduleReplay() {
		t.Skip("schedule replay runs in TestReplay")
	}
	rapid.Check(t, func(t *rapid.T) {
		p := genGateProg(t)
		res, in := runGate(unb, p, rapidChooser(t))
		nt := gateNontrivial(res, in)
		ev.Case(p.String()+"|"+res.ChoiceString(), nt)
		gateClasses(p, res, in)
		ev.ClassN("schedules:random", 1)
		if res.Deadlock {
			ev.Class("deadlocks-found")
		}
		if nt {
			ev.SampleIf(func() any { return mkSample(p, p.String(), res, "random") })
		}
		report(t, res, p.String(), replayFile{Kind: "gate", Gate: &p, MaxPre: -1}, false)
	})
}

func TestMutexRapid(t *testing.T) {
	if scheduleReplay() {
		t.Skip("schedule replay runs in TestReplay")
	}
	rapid.Check(t, func(t *rapid.T) {
		p := genMuProg(t)
		res, in := runMu(unb, p, rapidChooser(t))
		nt := muNontrivial(res, in)
		ev.Case(p.String()+"|"+res.ChoiceString(), nt)
		muClasses(p, res, in)
		ev.ClassN("schedules:random", 1)
		if res.Deadlock {
			ev.Class("deadlocks-found")
		}
		if nt {
			ev.SampleIf(func() any { return mkSample(p, p.String(), res, "random") })
		}
		report(t, res, p.String(), replayFile{Kind: "mutex", Mu: &p, MaxPre: -1}, false)
	})
}

// TestReplay re-executes a schedule replay file written by an exhaustive run
// (./check C31 --replay <file.json>). Rapid failures replay through -rapid.failfile.
func TestReplay(t *testing.T) {
	if !scheduleReplay() {
		t.Skip("no schedule replay file")
	}
	b, err := os.ReadFile(os.Getenv("VERIF_REPLAY"))
	if err != nil {
		t.Fatalf("VERIF-INFRA: %v", err)
	}
	var rf replayFile
	if err := json.Unmarshal(b, &rf); err != nil {
		t.Fatalf("VERIF-INFRA: replay file: %v", err)
	}
	cfg := sched.Config{MaxPreemptions: rf.MaxPre}
	switch rf.Kind {
	case "gate":
		res, _ := runGate(cfg, *rf.Gate, sched.Replay(rf.Choices))
		ev.Case(rf.Gate.String()+"|"+res.ChoiceString(), true)
		ev.Nontrivial("replay")
		ev.Sample(mkSample(rf.Gate, rf.Gate.String(), res, "replay"))
		report(t, res, rf.Gate.String(), rf, true)
	case "mutex":
		res, _ := runMu(cfg, *rf.Mu, sched.Replay(rf.Choices))
		ev.Case(rf.Mu.String()+"|"+res.ChoiceString(), true)
		ev.Nontrivial("replay")
		ev.Sample(mkSample(rf.Mu, rf.Mu.String(), res, "replay"))
		report(t, res, rf.Mu.String(), rf, true)
	default:
		t.Fatalf("VERIF-INFRA: unknown replay kind %q", rf.Kind)
	}
}
