package c04

import (
	"fmt"
	"testing"

	"pgregory.net/rapid"

	"verif/h/bubble"
	"verif/h/ev"
	"verif/h/wl"
)

func TestMain(m *testing.M) { ev.Main(m, "C04") }

func TestDirectConsumerOnceInOrder(t *testing.T) {
	rapid.Check(t, func(rt *rapid.T) {
		plan := wl.GenConsPlan(rt, wl.ConsFocus{Txn: rapid.Bool().Draw(rt, "withtxn")})
		var o *wl.ConsObs
		spun := false
		bubble.Run(t, rt, func(e *bubble.Env) {
			o = wl.RunCons(e, plan)
			if spin, _ := e.Net.Spinning(); spin {
				spun = true
				return // >20000 requests at one virtual instant: not a listed property; counted, not judged
			}
			Check(rt, o)
		})
		nt := !spun && o.TruthStable && !o.ClosedEarly && (o.FaultWhileBuffered || o.PartialTake || o.SessionErr || o.Moves > 0)
		ev.Case(o.Digest(), nt)
		if o.FaultWhileBuffered {
			ev.Class("fault-or-pause-while-buffered")
		}
		if o.PauseStrip {
			ev.Class("pause-while-buffered")
		}
		if o.PartialTake {
			ev.Class("partial-pollrecords-take")
		}
		if o.SessionErr {
			ev.Class("fetch-session-error")
		}
		if o.Moves > 0 {
			ev.Class("leader-move")
		}
		if !o.TruthStable && !spun {
			ev.Class("inconclusive-log-kept-growing")
		}
		if spun {
			ev.Class("inconclusive-request-spin")
		}
		if plan.Cfg.ReadCommitted {
			ev.Class("read-committed")
		}
		if plan.NTxn > 0 {
			ev.Class("with-transactions")
		}
		ev.ClassN("records-returned", int64(len(o.Returned)))
		if nt {
			ev.SampleIf(func() any {
				return map[string]any{"steps": o.StepKinds, "cfg": fmt.Sprintf("%+v", plan.Cfg), "start": plan.Start, "returned": len(o.Returned), "poll_errors": len(o.PollErrs)}
			})
		}
	})
}

// Check is the C04 oracle (exported for reuse by the race variant).
func Check(rt *rapid.T, o *wl.ConsObs) {
	fail := func(format string, a ...any) {
		rt.Fatalf("%s\nplan: %s\npoll errors: %v\nhistory tail:\n%s", fmt.Sprintf(format, a...), o.Plan.Brief(), o.PollErrs, o.Log.Dump(40))
	}
	if o.OrderViolation != "" {
		fail("offsets not strictly increasing: %s", o.OrderViolation)
	}
	if o.ClosedEarly {
		return // closed without draining: only the per-poll order invariant applies
	}
	if !o.TruthStable {
		return // the log kept growing while draining: no stable ground truth (inconclusive)
	}
	for ti, topic := range o.Plan.Topics {
		for pi := int32(0); pi < o.Plan.Parts[ti]; pi++ {
			tp := wl.TP{Topic: topic, Part: pi}
			start := int64(0)
			if !o.Plan.Cfg.ByTopic {
				start = o.Plan.Start[ti][pi]
			}
			exp := o.Expected(tp, start)
			got := o.ByTP[tp]
			want := map[int64]bool{}
			for _, x := range exp {
				want[x] = true
			}
			seen := map[int64]int{}
			for _, r := range got {
				seen[r.Offset]++
				if seen[r.Offset] > 1 {
					fail("%s: offset %d returned %d times", tp, r.Offset, seen[r.Offset])
				}
				if r.Control && !o.Plan.Cfg.KeepControl {
					fail("%s: control record at offset %d returned without KeepControlRecords", tp, r.Offset)
				}
				if !want[r.Offset] {
					why := "not a wanted record"
					switch {
					case r.Offset < start:
						why = fmt.Sprintf("below the start offset %d", start)
					case o.Aborted[tp][r.Offset]:
						why = "aborted transactional data under read_committed"
					case o.OpenTxn[tp][r.Offset]:
						why = "data of a still-open transaction under read_committed"
					}
					fail("%s: offset %d returned but %s (expected set %v)\nraw log:%s", tp, r.Offset, why, exp, o.LogSummary(tp))
				}
			}
			for _, x := range exp {
				if seen[x] == 0 {
					fail("%s: offset %d never returned within %v of virtual time after healing (expected %v, got %d records, drained=%v)\nraw log:%s", tp, x, wl.Bound, exp, len(got), o.Drained, o.LogSummary(tp))
				}
			}
		}
	}
}
