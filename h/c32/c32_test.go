package c32

// C32: kfake behaves like a Kafka partition log.
//
// Stateful model-based PBT. Every case starts a kfake cluster inside a testing/synctest
// bubble (virtual clock, net.Pipe) and drives it ONLY with raw protocol requests (kmsg
// requests through kgo.Client.Broker(id).Request: transport only). After every step the
// response is compared with the reference model in model.go and the partition bounds
// (log start, high watermark, last stable offset) of every partition are re-read with
// ListOffsets and compared.

import (
	"bytes"
	"fmt"
	"sort"
	"strings"
	"testing"
	"testing/synctest"
	"time"

	"github.com/twmb/franz-go/pkg/kerr"
	"github.com/twmb/franz-go/pkg/kgo"
	"github.com/twmb/franz-go/pkg/kversion"
	"pgregory.net/rapid"

	"verif/h/bubble"
	"verif/h/ev"
)

func TestMain(m *testing.M) { ev.Main(m, "C32") }

// Input classes that are excluded by construction because kfake answers them differently
// from a Kafka broker in ways the property does not cover (reported to the lead, see the
// final report). Flip to true to see the divergence.
const (
	// A transactional Produce v12+ with a STALE producer epoch, sent while the
	// transactional id has no open transaction, is rejected (INVALID_PRODUCER_EPOCH) but
	// still begins a transaction in kfake (pids.get adds the partition before the epoch is
	// compared); that empty transaction later times out, writes an ABORT marker and bumps
	// the epoch, fencing the live producer.
	genStaleEpochImplicitAdd = false
	// InitProducerID for a transactional id that has an open transaction, sent without
	// producer id/epoch (a restarted producer), only bumps the epoch in kfake; the open
	// transaction stays open and is committed by the new incarnation's EndTxn. A Kafka
	// coordinator aborts it first.
	genReinitWhileOpen = false
)

func versions(legacy bool) *kversion.Versions {
	v := kversion.Stable()
	v.SetMaxKeyVersion(24, 3) // AddPartitionsToTxn: v4+ is the broker-to-broker form
	if legacy {
		v.SetMaxKeyVersion(0, 11) // Produce without KIP-890 implicit partition addition
		v.SetMaxKeyVersion(26, 4) // EndTxn without epoch bump
		v.SetMaxKeyVersion(22, 4)
	}
	return v
}

// ---------------------------------------------------------------------------------
// world
// ---------------------------------------------------------------------------------

type sentBatch struct {
	Epoch    int16
	FirstSeq int32
	Count    int32
	Base     int64
	Bytes    []byte
}

type producer struct {
	Name      string
	Kind      int // 0 plain, 1 idempotent, 2 transactional
	Legacy    bool
	TxID      string
	Coord     int32
	TimeoutMs int32
	PID       int64
	Epoch     int16 // the client's view
	SrvEpoch  int16 // the model's view of the coordinator's epoch
	InTx      bool
	TxStart   time.Time
	TxParts   map[int32]bool
	LastParts map[int32]bool // partitions of the transaction that timed out last
	Sent      map[int32][]sentBatch
	Tag       byte
}

func (p *producer) stale() bool { return p.Kind == 2 && p.Epoch != p.SrvEpoch }

type sessPart struct {
	Off      int64
	Max      int32
	LastHWM  int64
	LastLogS int64
	LastEnd  int64 // end of the data returned last (a consumer's next fetch offset)
}

type mSession struct {
	Node  int32
	ID    int32
	Epoch int32
	Parts map[int32]*sessPart
}

type world struct {
	rt    *rapid.T
	e     *bubble.Env
	xNew  *transport
	xOld  *transport
	tm    topicMeta
	parts []*mPart
	nodes []int32
	prods []*producer
	sess  []*mSession
	hist  []string
	kinds []string

	nsteps int

	ntAbortOverlap   bool
	ntTimeoutOverlap bool
	ntDup            bool
	ntIncrChange     bool
	fullMid          bool
}

func (w *world) logf(format string, a ...any) {
	w.hist = append(w.hist, fmt.Sprintf("#%d t=%dms %s", len(w.hist), w.nowMs()-946684800000, fmt.Sprintf(format, a...)))
}

func (w *world) nowMs() int64 { return time.Now().UnixMilli() }

func (w *world) dump() string {
	var b strings.Builder
	b.WriteString("history:\n")
	for _, h := range w.hist {
		b.WriteString("  " + h + "\n")
	}
	b.WriteString("model:\n")
	for _, p := range w.parts {
		b.WriteString("  " + p.String())
	}
	for _, pr := range w.prods {
		fmt.Fprintf(&b, "  producer %s kind=%d legacy=%v txid=%q pid=%d epoch=%d srvEpoch=%d inTx=%v parts=%v timeout=%dms\n", pr.Name, pr.Kind, pr.Legacy, pr.TxID, pr.PID, pr.Epoch, pr.SrvEpoch, pr.InTx, keys(pr.TxParts), pr.TimeoutMs)
	}
	for _, s := range w.sess {
		fmt.Fprintf(&b, "  session node=%d id=%d epoch=%d:", s.Node, s.ID, s.Epoch)
		for _, k := range sessKeys(s) {
			sp := s.Parts[k]
			fmt.Fprintf(&b, " p%d{off=%d max=%d lastHWM=%d lastStart=%d}", k, sp.Off, sp.Max, sp.LastHWM, sp.LastLogS)
		}
		b.WriteString("\n")
	}
	return b.String()
}

func (w *world) fail(format string, a ...any) {
	msg := fmt.Sprintf("%s\n%s", fmt.Sprintf(format, a...), w.dump())
	// rapid re-runs shrunk bit streams; where kfake itself is not a function of the
	// requests (map iteration order in fetch sessions) a re-run can take another path, so
	// the shortest failing history seen is kept and printed at the end of the test
	if shortest == "" || len(w.hist) < shortestLen {
		shortest, shortestLen = msg, len(w.hist)
	}
	w.rt.Fatalf("%s", msg)
}

var (
	shortest    string
	shortestLen int
)

func keys(m map[int32]bool) []int32 {
	var out []int32
	for k := range m {
		out = append(out, k)
	}
	sort.Slice(out, func(i, j int) bool { return out[i] < out[j] })
	return out
}

func sessKeys(s *mSession) []int32 {
	var out []int32
	for k := range s.Parts {
		out = append(out, k)
	}
	sort.Slice(out, func(i, j int) bool { return out[i] < out[j] })
	return out
}

func (w *world) xfor(pr *producer) *transport {
	if pr.Legacy {
		return w.xOld
	}
	return w.xNew
}

func (w *world) partsOf(node int32) []int32 {
	var out []int32
	for _, p := range w.parts {
		if p.Leader == node {
			out = append(out, p.ID)
		}
	}
	return out
}

// ---------------------------------------------------------------------------------
// the property
// ---------------------------------------------------------------------------------

func TestPartitionLog(t *testing.T) {
	defer func() {
		if shortest != "" {
			fmt.Printf("C32: shortest failing history observed (%d steps):\n%s\n", shortestLen, shortest)
		}
	}()
	rapid.Check(t, func(rt *rapid.T) {
		var w *world
		bubble.Run(t, rt, func(e *bubble.Env) {
			defer func() {
				if r := recover(); r != nil {
					if ie, ok := r.(infraErr); ok {
						panic(ie.msg)
					}
					panic(r)
				}
			}()
			w = &world{rt: rt, e: e}
			w.run()
		})
		nt := w.ntAbortOverlap || w.ntTimeoutOverlap || w.ntDup || w.ntIncrChange
		ev.Case(strings.Join(w.kinds, ";"), nt)
		if w.ntAbortOverlap {
			ev.Class("nt:aborted-txn-overlapped-read-committed")
		}
		if w.ntTimeoutOverlap {
			ev.Class("nt:timed-out-txn-overlapped-read-committed")
		}
		if w.ntDup {
			ev.Class("nt:duplicate-retry")
		}
		if w.ntIncrChange {
			ev.Class("nt:incremental-fetch-after-change")
		}
		if w.fullMid {
			ev.Class("case:read-committed-response-cut-inside-partition")
		}
		if nt {
			ev.SampleIf(func() any {
				h := w.hist
				if len(h) > 14 {
					h = h[:14]
				}
				return map[string]any{"brokers": len(w.nodes), "partitions": len(w.parts), "history_head": h}
			})
		}
	})
}

func (w *world) run() {
	rt := w.rt
	nb := rapid.IntRange(1, 2).Draw(rt, "brokers")
	np := rapid.IntRange(1, 3).Draw(rt, "partitions")
	w.e.StartCluster(bubble.ClusterOpts{Brokers: nb, Topics: map[string]int32{topic: int32(np)}})
	// kfake picks leaders with math/rand: pin them to generated brokers so that a case
	// is a function of the rapid bit stream only
	for p := 0; p < np; p++ {
		leader := int32(rapid.IntRange(0, nb-1).Draw(rt, "leader"))
		if err := w.e.Cluster.MoveTopicPartition(topic, int32(p), leader); err != nil {
			infra("MoveTopicPartition: %v", err)
		}
		w.parts = append(w.parts, newPart(int32(p), leader))
	}
	w.xNew = &transport{cl: w.e.NewClient(kgo.MaxVersions(versions(false)))}
	w.xOld = &transport{cl: w.e.NewClient(kgo.MaxVersions(versions(true)))}
	w.tm = w.xNew.metadata()
	w.xOld.metadata()
	if len(w.tm.leaders) != np {
		infra("metadata lists %d partitions, want %d", len(w.tm.leaders), np)
	}
	seen := map[int32]bool{}
	for p, l := range w.tm.leaders {
		if l != w.parts[p].Leader {
			infra("metadata leader of p%d is %d, want %d", p, l, w.parts[p].Leader)
		}
		if !seen[l] {
			seen[l] = true
			w.nodes = append(w.nodes, l)
		}
	}
	sort.Slice(w.nodes, func(i, j int) bool { return w.nodes[i] < w.nodes[j] })

	// producers
	w.prods = append(w.prods, &producer{Name: "plain", Kind: 0, PID: -1, Epoch: -1, Tag: 'p'})
	nIdem := rapid.IntRange(0, 2).Draw(rt, "idempotent-producers")
	nTxn := rapid.IntRange(1, 3).Draw(rt, "transactional-producers")
	for i := 0; i < nIdem; i++ {
		pr := &producer{Name: fmt.Sprintf("idem%d", i), Kind: 1, Sent: map[int32][]sentBatch{}, Tag: byte('i' + i)}
		ec, pid, ep := w.xNew.initPID(w.nodes[0], "", 0, -1, -1)
		if ec != 0 || pid < 0 || ep != 0 {
			w.fail("InitProducerID (idempotent): error %d pid %d epoch %d", ec, pid, ep)
		}
		pr.PID, pr.Epoch, pr.SrvEpoch = pid, ep, ep
		w.prods = append(w.prods, pr)
	}
	for i := 0; i < nTxn; i++ {
		pr := &producer{Name: fmt.Sprintf("txn%d", i), Kind: 2, TxID: fmt.Sprintf("x%d", i), Sent: map[int32][]sentBatch{}, Tag: byte('A' + i)}
		pr.Legacy = rapid.Bool().Draw(rt, "legacy")
		// distinct timeouts that never coincide with a multiple of 100 ms: expiry instants
		// of different producers differ and never equal one of the harness's wake-ups
		pr.TimeoutMs = int32(1000 + 10*(i+1))
		if rapid.IntRange(0, 3).Draw(rt, "long-timeout") == 0 {
			pr.TimeoutMs += 60000
		}
		pr.Coord = w.xNew.findTxnCoordinator(w.nodes[0], pr.TxID)
		ec, pid, ep := w.xfor(pr).initPID(pr.Coord, pr.TxID, pr.TimeoutMs, -1, -1)
		if ec != 0 || pid < 0 || ep != 0 {
			w.fail("InitProducerID(%s): error %d pid %d epoch %d", pr.TxID, ec, pid, ep)
		}
		pr.PID, pr.Epoch, pr.SrvEpoch = pid, ep, ep
		for _, o := range w.prods {
			if o.PID == pid {
				w.fail("InitProducerID(%s) returned producer id %d already owned by %s", pr.TxID, pid, o.Name)
			}
		}
		w.prods = append(w.prods, pr)
	}
	w.logf("setup brokers=%d partitions=%d leaders=%v producers=%d idem + %d txn", nb, np, w.tm.leaders, nIdem, nTxn)
	w.probeBounds("setup")

	steps := rapid.IntRange(8, 60).Draw(rt, "steps")
	for i := 0; i < steps; i++ {
		w.step()
		w.probeBounds("after step")
	}
	// final: read everything back, both isolation levels
	for _, p := range w.parts {
		w.fetchWhole(p, 0)
		w.fetchWhole(p, 1)
	}
}

// probeBounds: the oracle run after every step.
func (w *world) probeBounds(when string) {
	for _, node := range w.nodes {
		ps := w.partsOf(node)
		early := w.xNew.listOffsets(node, ps, -2, 0)
		late := w.xNew.listOffsets(node, ps, -1, 0)
		stable := w.xNew.listOffsets(node, ps, -1, 1)
		for _, id := range ps {
			p := w.parts[id]
			a, b, c := early[id], late[id], stable[id]
			if a.Err != 0 || b.Err != 0 || c.Err != 0 {
				w.fail("%s: ListOffsets p%d errors earliest=%d latest=%d latest(read_committed)=%d", when, id, a.Err, b.Err, c.Err)
			}
			if c.Offset > b.Offset {
				w.fail("%s: p%d last stable offset %d exceeds the high watermark %d", when, id, c.Offset, b.Offset)
			}
			if a.Offset != p.LogStart || b.Offset != p.HWM || c.Offset != p.LSO() {
				w.fail("%s: p%d bounds (log start, high watermark, last stable offset) = (%d, %d, %d), model (%d, %d, %d)", when, id, a.Offset, b.Offset, c.Offset, p.LogStart, p.HWM, p.LSO())
			}
		}
	}
}

type action struct {
	name   string
	weight int
	run    func()
}

func (w *world) step() {
	rt := w.rt
	var acts []action
	add := func(name string, weight int, run func()) {
		if weight > 0 {
			acts = append(acts, action{name, weight, run})
		}
	}
	var idem, txn, txnOpen, txnStale []*producer
	for _, pr := range w.prods {
		switch pr.Kind {
		case 1:
			idem = append(idem, pr)
		case 2:
			txn = append(txn, pr)
			if pr.stale() {
				txnStale = append(txnStale, pr)
			} else if pr.InTx {
				txnOpen = append(txnOpen, pr)
			}
		}
	}
	add("produce-plain", 3, func() { w.actProducePlain() })
	if len(idem) > 0 {
		add("produce-idem", 5, func() { w.actProduceSeq(idem[w.pick(len(idem), "producer")]) })
	}
	add("produce-txn", 9, func() { w.actProduceTxn(txn[w.pick(len(txn), "producer")]) })
	add("add-partitions", 2, func() { w.actAddPartitions(txn[w.pick(len(txn), "producer")]) })
	if len(txnOpen) > 0 {
		add("end-txn", 5, func() { w.actEndTxn(txnOpen[w.pick(len(txnOpen), "producer")]) })
		add("reinit-kip360", 1, func() { w.actReinit(txnOpen[w.pick(len(txnOpen), "producer")], true) })
	}
	if len(txnStale) > 0 {
		add("end-txn-stale", 2, func() { w.actEndTxnStale(txnStale[w.pick(len(txnStale), "producer")]) })
		add("reinit-stale", 4, func() { w.actReinit(txnStale[w.pick(len(txnStale), "producer")], false) })
	}
	add("reinit", 1, func() { w.actReinit(txn[w.pick(len(txn), "producer")], rapid.Bool().Draw(rt, "kip360")) })
	sleepW := 1
	if len(txnOpen) > 0 {
		sleepW = 3
	}
	add("sleep", sleepW, func() { w.actSleep() })
	add("delete-records", 2, func() { w.actDeleteRecords() })
	add("list-offsets", 1, func() { w.actListOffsets() })
	add("fetch", 12, func() { w.actFetch() })
	add("fetch-whole", 1, func() {
		p := w.parts[rapid.IntRange(0, len(w.parts)-1).Draw(rt, "partition")]
		w.fetchWhole(p, int8(rapid.IntRange(0, 1).Draw(rt, "isolation")))
	})
	total := 0
	for _, a := range acts {
		total += a.weight
	}
	// rapid's integer generators favour small values; rotating by the step number spreads
	// that preference over all actions while the choice stays a function of the bit stream
	x := (rapid.IntRange(0, total-1).Draw(rt, "action") + w.nsteps*17) % total
	w.nsteps++
	for _, a := range acts {
		if x < a.weight {
			a.run()
			return
		}
		x -= a.weight
	}
}

func (w *world) pick(n int, label string) int { return rapid.IntRange(0, n-1).Draw(w.rt, label) }

func (w *world) kind(k string) {
	w.kinds = append(w.kinds, k)
	ev.Class("step:" + k)
}

// ---------------------------------------------------------------------------------
// produce
// ---------------------------------------------------------------------------------

func (w *world) drawPart(label string) *mPart {
	return w.parts[rapid.IntRange(0, len(w.parts)-1).Draw(w.rt, label)]
}

func (w *world) drawShape() (int32, int) {
	n := int32(rapid.IntRange(1, 3).Draw(w.rt, "records"))
	valLen := rapid.SampledFrom([]int{0, 5, 20, 60}).Draw(w.rt, "value-len")
	return n, valLen
}

func (w *world) actProducePlain() {
	p := w.drawPart("partition")
	n, vl := w.drawShape()
	b := buildBatch(-1, -1, -1, n, false, w.nowMs(), vl, 'p')
	ec, base, _ := w.xNew.produce(p.Leader, w.tm.id, p.ID, b, "")
	w.logf("produce plain p%d n=%d size=%d -> err=%d base=%d", p.ID, n, len(b), ec, base)
	w.kind("produce-plain")
	if ec != 0 {
		w.fail("plain produce to p%d failed with error %d", p.ID, ec)
	}
	if base != p.HWM {
		w.fail("plain produce to p%d got base offset %d, the high watermark was %d", p.ID, base, p.HWM)
	}
	p.appendData(mBatch{Count: n, PID: -1, Epoch: -1, FirstSeq: -1, Size: len(b), Tail: b[21:], TS: w.nowMs()})
}

// clientNextSeq: the sequence an in-sync idempotent client uses next on partition p.
func clientNextSeq(pr *producer, p *mPart) (int32, bool) {
	win := p.Windows[pr.PID]
	if win == nil || !win.Seen {
		return 0, false
	}
	if win.Epoch != pr.Epoch {
		return 0, true // new epoch: sequences restart at 0
	}
	return win.Next, true
}

// actProduceSeq: one idempotent (or, with txn, transactional) produce with a generated
// sequence variant. The caller has made sure the producer may write to p.
func (w *world) actProduceSeq(pr *producer) {
	p := w.drawPart("partition")
	w.produceSeq(pr, p, false)
}

func (w *world) produceSeq(pr *producer, p *mPart, txn bool) { w.produceSeqVariants(pr, p, txn, false) }

func (w *world) produceSeqVariants(pr *producer, p *mPart, txn, onlyNext bool) {
	rt := w.rt
	x := w.xfor(pr)
	win := p.window(pr.PID)
	next, seen := clientNextSeq(pr, p)
	sameEpoch := win.Seen && win.Epoch == pr.Epoch
	determined := p.windowDetermined(pr.PID)

	// retry candidates: accepted batches of the current epoch on this partition
	var recent, evicted []sentBatch
	if sameEpoch && determined {
		all := pr.Sent[p.ID]
		var cur []sentBatch
		for _, s := range all {
			if s.Epoch == pr.Epoch {
				cur = append(cur, s)
			}
		}
		if len(cur) > 5 {
			evicted, recent = cur[:len(cur)-5], cur[len(cur)-5:]
		} else {
			recent = cur
		}
	}
	variants := []string{"next", "next", "next", "next", "next"}
	if len(recent) > 0 {
		variants = append(variants, "dup", "dup", "resized")
	}
	if sameEpoch && determined {
		variants = append(variants, "gap")
	}
	if len(evicted) > 0 {
		variants = append(variants, "evicted")
	}
	if txn && pr.SrvEpoch > 0 {
		variants = append(variants, "old-epoch")
	}
	if onlyNext {
		variants = variants[:1]
	}
	v := rapid.SampledFrom(variants).Draw(rt, "variant")
	txid := ""
	if txn {
		txid = pr.TxID
	}
	tag := pr.Tag
	switch v {
	case "next":
		if seen && !txn && rapid.IntRange(0, 3).Draw(rt, "burst") == 3 {
			// several in-sequence batches in a row, so that older ones leave the
			// five-batch window
			for i := 0; i < 4; i++ {
				w.sendNext(pr, p, false, true)
			}
		}
		w.sendNext(pr, p, txn, seen)
	case "dup":
		s := recent[w.pick(len(recent), "resend")]
		ec, base, _ := x.produce(p.Leader, w.tm.id, p.ID, s.Bytes, txid)
		w.logf("produce %s p%d RESEND seq=%d n=%d (original base %d) -> err=%d base=%d", pr.Name, p.ID, s.FirstSeq, s.Count, s.Base, ec, base)
		w.kind("produce-dup")
		w.ntDup = true
		if ec != 0 {
			w.fail("%s: resend of one of the last five batches (seq %d, n %d) on p%d answered with error %d (%v)", pr.Name, s.FirstSeq, s.Count, p.ID, ec, kerr.ErrorForCode(ec))
		}
		if base != s.Base {
			w.fail("%s: resend of batch (seq %d, n %d) on p%d answered base offset %d, the original append got %d", pr.Name, s.FirstSeq, s.Count, p.ID, base, s.Base)
		}
	case "gap", "resized", "evicted":
		var seq, n int32
		switch v {
		case "gap":
			g := int32(rapid.IntRange(1, 3).Draw(rt, "gap"))
			seq = int32((int64(next) + int64(g)) % two31)
			n = 1
		case "resized":
			s := recent[w.pick(len(recent), "resend")]
			seq = s.FirstSeq
			n = s.Count%3 + 1
		case "evicted":
			s := evicted[w.pick(len(evicted), "resend")]
			seq, n = s.FirstSeq, s.Count
		}
		b := buildBatch(pr.PID, pr.Epoch, seq, n, txn, w.nowMs(), 5, tag)
		ec, base, _ := x.produce(p.Leader, w.tm.id, p.ID, b, txid)
		w.logf("produce %s p%d %s seq=%d n=%d (next expected %d) -> err=%d base=%d", pr.Name, p.ID, v, seq, n, next, ec, base)
		w.kind("produce-" + v)
		if v == "gap" {
			if ec != kerr.OutOfOrderSequenceNumber.Code {
				w.fail("%s: batch with sequence %d (expected next %d) on p%d answered %d (%v), want OUT_OF_ORDER_SEQUENCE_NUMBER", pr.Name, seq, next, p.ID, ec, kerr.ErrorForCode(ec))
			}
		} else if ec != kerr.OutOfOrderSequenceNumber.Code && ec != kerr.DuplicateSequenceNumber.Code {
			w.fail("%s: batch with wrong sequence %d n %d (%s; next expected %d) on p%d answered %d (%v), want a sequence error", pr.Name, seq, n, v, next, p.ID, ec, kerr.ErrorForCode(ec))
		}
	case "old-epoch":
		b := buildBatch(pr.PID, pr.SrvEpoch-1, 0, 1, txn, w.nowMs(), 5, tag)
		ec, base, _ := x.produce(p.Leader, w.tm.id, p.ID, b, txid)
		w.logf("produce %s p%d OLD EPOCH %d (current %d) -> err=%d base=%d", pr.Name, p.ID, pr.SrvEpoch-1, pr.SrvEpoch, ec, base)
		w.kind("produce-old-epoch")
		if ec == 0 {
			w.fail("%s: batch with fenced epoch %d (current %d) on p%d was accepted at offset %d", pr.Name, pr.SrvEpoch-1, pr.SrvEpoch, p.ID, base)
		}
		ev.Class(fmt.Sprintf("old-epoch-error:%d", ec))
	}
}

// sendNext sends the batch an in-sync producer sends next and requires it to be appended
// at the high watermark.
func (w *world) sendNext(pr *producer, p *mPart, txn, seen bool) {
	rt := w.rt
	x := w.xfor(pr)
	next, _ := clientNextSeq(pr, p)
	hwm := p.HWM
	tag := pr.Tag
	txid := ""
	if txn {
		txid = pr.TxID
	}
	n, vl := w.drawShape()
	seq := next
	if !seen && !txn {
		// a broker accepts any first sequence from a producer it has no state for
		seq = rapid.SampledFrom([]int32{0, 0, 7, int32(two31 - 2), int32(two31 - 1)}).Draw(rt, "first-sequence")
	}
	b := buildBatch(pr.PID, pr.Epoch, seq, n, txn, w.nowMs(), vl, tag)
	ec, base, _ := x.produce(p.Leader, w.tm.id, p.ID, b, txid)
	w.logf("produce %s p%d seq=%d n=%d epoch=%d txn=%v size=%d -> err=%d base=%d", pr.Name, p.ID, seq, n, pr.Epoch, txn, len(b), ec, base)
	w.kind("produce-next")
	if ec != 0 {
		w.fail("%s: in-sequence batch (seq %d, epoch %d) to p%d rejected with error %d (%v)", pr.Name, seq, pr.Epoch, p.ID, ec, kerr.ErrorForCode(ec))
	}
	if base != hwm {
		w.fail("%s: appended batch got base offset %d, the high watermark of p%d was %d", pr.Name, base, p.ID, hwm)
	}
	p.appendData(mBatch{Count: n, PID: pr.PID, Epoch: pr.Epoch, FirstSeq: seq, Txn: txn, Size: len(b), Tail: b[21:], TS: w.nowMs()})
	p.recordSeq(pr.PID, pr.Epoch, seq, n, base)
	pr.Sent[p.ID] = append(pr.Sent[p.ID], sentBatch{pr.Epoch, seq, n, base, b})
}

func (w *world) actAddPartitions(pr *producer) {
	if pr.stale() {
		w.actReinit(pr, false)
		return
	}
	k := rapid.IntRange(1, len(w.parts)).Draw(w.rt, "n-partitions")
	perm := rapid.Permutation(partIDs(w.parts)).Draw(w.rt, "partitions")[:k]
	codes := w.xfor(pr).addPartitions(pr.Coord, pr.TxID, pr.PID, pr.Epoch, perm)
	w.logf("AddPartitionsToTxn %s %v -> %v", pr.Name, perm, codes)
	w.kind("add-partitions")
	for i, c := range codes {
		if c != 0 {
			w.fail("%s: AddPartitionsToTxn p%d failed with %d (%v)", pr.Name, perm[i], c, kerr.ErrorForCode(c))
		}
	}
	w.beginIfNeeded(pr)
	for _, id := range perm {
		pr.TxParts[id] = true
	}
}

func partIDs(ps []*mPart) []int32 {
	out := make([]int32, len(ps))
	for i, p := range ps {
		out[i] = p.ID
	}
	return out
}

func (w *world) beginIfNeeded(pr *producer) {
	if !pr.InTx {
		pr.InTx = true
		pr.TxStart = time.Now()
		pr.TxParts = map[int32]bool{}
	}
}

func (w *world) actProduceTxn(pr *producer) {
	rt := w.rt
	if pr.stale() {
		// the natural next write of a producer that does not know it was fenced
		if pr.Legacy && len(pr.LastParts) > 0 {
			id := rapid.SampledFrom(keys(pr.LastParts)).Draw(rt, "partition")
			p := w.parts[id]
			b := buildBatch(pr.PID, pr.Epoch, 0, 1, true, w.nowMs(), 5, pr.Tag)
			ec, base, _ := w.xfor(pr).produce(p.Leader, w.tm.id, p.ID, b, pr.TxID)
			w.logf("produce %s p%d FENCED epoch %d (current %d) -> err=%d base=%d", pr.Name, p.ID, pr.Epoch, pr.SrvEpoch, ec, base)
			w.kind("produce-fenced")
			if ec == 0 {
				w.fail("%s: batch of a producer fenced by a transaction timeout (epoch %d, current %d) was accepted on p%d at offset %d", pr.Name, pr.Epoch, pr.SrvEpoch, p.ID, base)
			}
			return
		}
		if !pr.Legacy && !genStaleEpochImplicitAdd {
			ev.Excluded("stale-epoch-produce-v12-outside-transaction")
			w.actReinit(pr, false)
			return
		}
		if !pr.Legacy {
			// a broker rejects the batch and nothing changes: no transaction begins
			p := w.drawPart("partition")
			b := buildBatch(pr.PID, pr.Epoch, 0, 1, true, w.nowMs(), 5, pr.Tag)
			ec, base, _ := w.xfor(pr).produce(p.Leader, w.tm.id, p.ID, b, pr.TxID)
			w.logf("produce %s p%d FENCED epoch %d (current %d), Produce v12+ outside a transaction -> err=%d base=%d", pr.Name, p.ID, pr.Epoch, pr.SrvEpoch, ec, base)
			w.kind("produce-fenced-v12")
			if ec == 0 {
				w.fail("%s: batch with fenced epoch %d (current %d) was accepted on p%d at offset %d", pr.Name, pr.Epoch, pr.SrvEpoch, p.ID, base)
			}
			return
		}
		w.actReinit(pr, false)
		return
	}
	var p *mPart
	if pr.Legacy {
		// without KIP-890 the partition has to be added first
		if !pr.InTx || len(pr.TxParts) == 0 {
			w.actAddPartitions(pr)
			return
		}
		p = w.parts[rapid.SampledFrom(keys(pr.TxParts)).Draw(rt, "partition")]
	} else {
		p = w.drawPart("partition")
		if !(pr.InTx && pr.TxParts[p.ID]) {
			// Produce v12+: the partition is added implicitly and the transaction begins.
			// Only an in-sequence batch is sent in that situation: what a rejected batch
			// leaves behind at the coordinator is not part of the property.
			w.beginIfNeeded(pr)
			pr.TxParts[p.ID] = true
			w.produceSeqVariants(pr, p, true, true)
			return
		}
	}
	w.produceSeq(pr, p, true)
}

// ---------------------------------------------------------------------------------
// transactions
// ---------------------------------------------------------------------------------

// finish writes the markers of pr's transaction into the model.
func (w *world) finish(pr *producer, commit, timeout bool, markerEpoch int16, ts int64) {
	for _, id := range keys(pr.TxParts) {
		w.parts[id].endTxn(pr.PID, markerEpoch, commit, timeout, ts)
	}
	if timeout {
		pr.LastParts = pr.TxParts
	}
	pr.InTx = false
	pr.TxParts = nil
}

func (w *world) actEndTxn(pr *producer) {
	commit := rapid.Bool().Draw(w.rt, "commit")
	ec, pid, ep, ver := w.xfor(pr).endTxn(pr.Coord, pr.TxID, pr.PID, pr.Epoch, commit)
	w.logf("EndTxn %s commit=%v parts=%v -> err=%d epoch=%d (v%d)", pr.Name, commit, keys(pr.TxParts), ec, ep, ver)
	if commit {
		w.kind("end-txn-commit")
	} else {
		w.kind("end-txn-abort")
	}
	if ec != 0 {
		w.fail("%s: EndTxn(commit=%v) of an open transaction failed with %d (%v)", pr.Name, commit, ec, kerr.ErrorForCode(ec))
	}
	w.finish(pr, commit, false, pr.Epoch, w.nowMs())
	if ver >= 5 {
		// KIP-890: the epoch is bumped with every EndTxn
		if pid != pr.PID || ep <= pr.Epoch {
			w.fail("%s: EndTxn v%d answered producer (%d, epoch %d), had (%d, epoch %d): the epoch must increase", pr.Name, ver, pid, ep, pr.PID, pr.Epoch)
		}
		pr.Epoch, pr.SrvEpoch = ep, ep
	}
}

func (w *world) actEndTxnStale(pr *producer) {
	commit := rapid.Bool().Draw(w.rt, "commit")
	ec, _, ep, ver := w.xfor(pr).endTxn(pr.Coord, pr.TxID, pr.PID, pr.Epoch, commit)
	w.logf("EndTxn %s FENCED epoch %d (current %d) commit=%v -> err=%d epoch=%d (v%d)", pr.Name, pr.Epoch, pr.SrvEpoch, commit, ec, ep, ver)
	w.kind("end-txn-fenced")
	if commit && ec == 0 {
		w.fail("%s: EndTxn(commit) with epoch %d succeeded although the transaction was aborted by its timeout (current epoch %d)", pr.Name, pr.Epoch, pr.SrvEpoch)
	}
	if ec == 0 && ver >= 5 && ep == pr.SrvEpoch {
		// abort of an already aborted transaction acknowledged as a retry: the client
		// learns the current epoch
		pr.Epoch = ep
	}
}

func (w *world) actReinit(pr *producer, kip360 bool) {
	if pr.InTx && !kip360 && !genReinitWhileOpen {
		ev.Excluded("init-producer-id-without-epoch-while-transaction-open")
		kip360 = true
	}
	if pr.stale() {
		kip360 = false // KIP-360 recovery with a fenced epoch is not modelled
	}
	pid, ep := int64(-1), int16(-1)
	if kip360 {
		pid, ep = pr.PID, pr.Epoch
	}
	ec, npid, nep := w.xfor(pr).initPID(pr.Coord, pr.TxID, pr.TimeoutMs, pid, ep)
	w.logf("InitProducerID %s kip360=%v inTx=%v -> err=%d pid-same=%v epoch=%d", pr.Name, kip360, pr.InTx, ec, npid == pr.PID, nep)
	w.kind("reinit")
	if ec != 0 {
		w.fail("%s: InitProducerID failed with %d (%v)", pr.Name, ec, kerr.ErrorForCode(ec))
	}
	if npid != pr.PID || nep <= pr.SrvEpoch {
		w.fail("%s: InitProducerID answered (%d, epoch %d), the transactional id had (%d, epoch %d): the epoch must increase", pr.Name, npid, nep, pr.PID, pr.SrvEpoch)
	}
	if pr.InTx {
		// the coordinator aborts the open transaction before handing out the new epoch
		w.finish(pr, false, false, pr.SrvEpoch, w.nowMs())
	}
	pr.Epoch, pr.SrvEpoch = nep, nep
}

func (w *world) actSleep() {
	d := rapid.SampledFrom([]time.Duration{100 * time.Millisecond, 200 * time.Millisecond, 500 * time.Millisecond, 1100 * time.Millisecond, 2500 * time.Millisecond}).Draw(w.rt, "sleep")
	time.Sleep(d)
	synctest.Wait()
	now := time.Now()
	type exp struct {
		pr *producer
		at time.Time
	}
	var expired []exp
	for _, pr := range w.prods {
		if pr.Kind == 2 && pr.InTx {
			at := pr.TxStart.Add(time.Duration(pr.TimeoutMs) * time.Millisecond)
			if !at.After(now) {
				expired = append(expired, exp{pr, at})
			}
		}
	}
	sort.Slice(expired, func(i, j int) bool { return expired[i].at.Before(expired[j].at) })
	var names []string
	for _, x := range expired {
		// the coordinator bumps the epoch (fencing the producer) and aborts
		x.pr.SrvEpoch++
		w.finish(x.pr, false, true, x.pr.SrvEpoch, x.at.UnixMilli())
		names = append(names, x.pr.Name)
	}
	w.logf("sleep %v -> timed out: %v", d, names)
	w.kind("sleep")
	if len(names) > 0 {
		ev.ClassN("txn-timeouts", int64(len(names)))
	}
}

// ---------------------------------------------------------------------------------
// DeleteRecords, ListOffsets
// ---------------------------------------------------------------------------------

func (w *world) actDeleteRecords() {
	rt := w.rt
	p := w.drawPart("partition")
	lso := p.LSO()
	var off int64
	wantErr := int16(0)
	newStart := int64(0)
	switch rapid.IntRange(0, 5).Draw(rt, "delete-kind") {
	case 0:
		if len(p.Open) == 0 {
			off, newStart = -1, p.HWM // -1: up to the high watermark
		} else {
			off, newStart = lso, lso
		}
	case 1:
		off = p.HWM + int64(rapid.IntRange(1, 5).Draw(rt, "beyond"))
		wantErr = kerr.OffsetOutOfRange.Code
	default:
		// records of a still-open transaction are never deleted here: what a broker's
		// last stable offset does then is outside the property
		off = rapid.Int64Range(p.LogStart, lso).Draw(rt, "delete-to")
		newStart = off
	}
	ec, low := w.xNew.deleteRecords(p.Leader, p.ID, off)
	w.logf("DeleteRecords p%d to %d -> err=%d low=%d", p.ID, off, ec, low)
	w.kind("delete-records")
	if ec != wantErr {
		w.fail("DeleteRecords p%d to %d (log start %d, high watermark %d) answered %d (%v), want %d", p.ID, off, p.LogStart, p.HWM, ec, kerr.ErrorForCode(ec), wantErr)
	}
	if wantErr == 0 {
		if low != newStart {
			w.fail("DeleteRecords p%d to %d answered low watermark %d, want %d", p.ID, off, low, newStart)
		}
		if newStart != p.LogStart {
			ev.Class("log-start-moved")
		}
		p.LogStart = newStart
	}
}

func (w *world) actListOffsets() {
	rt := w.rt
	p := w.drawPart("partition")
	// read_uncommitted only: a broker bounds read_committed lookups by the last stable
	// offset, which is outside the property
	iso := int8(0)
	w.kind("list-offsets")
	// earliest/latest are compared after every step (probeBounds); here: max-timestamp
	// and timestamp lookups
	if rapid.IntRange(0, 3).Draw(rt, "max-timestamp") == 0 {
		r := w.xNew.listOffsets(p.Leader, []int32{p.ID}, -3, iso)[p.ID]
		w.logf("ListOffsets p%d max-timestamp -> err=%d off=%d ts=%d", p.ID, r.Err, r.Offset, r.Timestamp)
		if r.Err != 0 {
			w.fail("ListOffsets(max timestamp) p%d: error %d", p.ID, r.Err)
		}
		// KIP-734: offset and timestamp of the record with the highest timestamp;
		// which of several records sharing it is named is not asserted
		maxTS, any := int64(-1), false
		for i := range p.Batches {
			b := &p.Batches[i]
			if b.last() >= p.LogStart && (!any || b.TS > maxTS) {
				maxTS, any = b.TS, true
			}
		}
		if !any {
			if r.Offset != -1 {
				w.fail("ListOffsets(max timestamp) on empty p%d answered offset %d", p.ID, r.Offset)
			}
			return
		}
		if r.Timestamp != maxTS {
			w.fail("ListOffsets(max timestamp) p%d answered timestamp %d, the log's highest timestamp is %d", p.ID, r.Timestamp, maxTS)
		}
		if r.Offset < p.LogStart || r.Offset >= p.HWM || p.Batches[p.batchIndexAt(r.Offset)].TS != maxTS {
			w.fail("ListOffsets(max timestamp) p%d answered offset %d whose record does not carry the highest timestamp %d", p.ID, r.Offset, maxTS)
		}
		return
	}
	// timestamp lookup: the first offset (>= log start) whose timestamp is >= target
	var cands []int64
	for i := range p.Batches {
		b := &p.Batches[i]
		if b.last() >= p.LogStart {
			cands = append(cands, b.TS-1, b.TS, b.TS+1)
		}
	}
	if len(cands) == 0 {
		cands = []int64{w.nowMs()}
	}
	target := rapid.SampledFrom(cands).Draw(rt, "timestamp")
	wantOff, wantTS := int64(-1), int64(-1)
	var hit *mBatch
	for i := range p.Batches {
		b := &p.Batches[i]
		if b.last() >= p.LogStart && b.TS >= target {
			hit = b
			wantOff, wantTS = b.Base, b.TS
			if wantOff < p.LogStart {
				wantOff = p.LogStart
			}
			break
		}
	}
	if hit != nil && hit.TS == target && hit.Count > 1 {
		// kfake names the LAST record of the batch that carries exactly the target
		// timestamp (a broker names the first); outside the property, reported
		ev.Excluded("timestamp-lookup-equal-to-multi-record-batch")
		return
	}
	if hit != nil && hit.Base < p.LogStart {
		ev.Excluded("timestamp-lookup-hits-batch-straddling-log-start")
		return
	}
	r := w.xNew.listOffsets(p.Leader, []int32{p.ID}, target, iso)[p.ID]
	w.logf("ListOffsets p%d timestamp %d -> err=%d off=%d ts=%d", p.ID, target, r.Err, r.Offset, r.Timestamp)
	if r.Err != 0 {
		w.fail("ListOffsets(timestamp %d) p%d: error %d", target, p.ID, r.Err)
	}
	if r.Offset != wantOff || (wantOff >= 0 && r.Timestamp != wantTS) {
		w.fail("ListOffsets(timestamp %d) p%d answered (offset %d, timestamp %d), want (%d, %d)", target, p.ID, r.Offset, r.Timestamp, wantOff, wantTS)
	}
}

// ---------------------------------------------------------------------------------
// fetch
// ---------------------------------------------------------------------------------

func (w *world) drawOffset(p *mPart, sp *sessPart) int64 {
	rt := w.rt
	var opts []int64
	opts = append(opts, p.LogStart, p.LogStart, p.HWM, p.LSO())
	if p.HWM > p.LogStart {
		opts = append(opts, rapid.Int64Range(p.LogStart, p.HWM).Draw(rt, "offset-in-log"), rapid.Int64Range(p.LogStart, p.HWM).Draw(rt, "offset-in-log2"))
	}
	if sp != nil {
		opts = append(opts, sp.LastEnd, sp.LastEnd, sp.LastEnd)
	}
	if p.LogStart > 0 {
		opts = append(opts, p.LogStart-1)
	}
	opts = append(opts, p.HWM+1)
	return rapid.SampledFrom(opts).Draw(rt, "fetch-offset")
}

func (w *world) drawMax(label string) int32 {
	return rapid.SampledFrom([]int32{1 << 20, 150, 1, 300, 90, 200, 450, 700}).Draw(w.rt, label)
}

func (w *world) actFetch() {
	rt := w.rt
	node := rapid.SampledFrom(w.nodes).Draw(rt, "node")
	ps := w.partsOf(node)
	var mine []*mSession
	for _, s := range w.sess {
		if s.Node == node {
			mine = append(mine, s)
		}
	}
	var kinds []string
	if len(mine) > 0 {
		kinds = append(kinds, "incremental", "incremental", "incremental", "incremental")
	}
	kinds = append(kinds, "new-session", "sessionless", "sessionless")
	if len(mine) > 0 {
		kinds = append(kinds, "close-session", "bad-epoch")
	}
	kinds = append(kinds, "unknown-session")
	k := rapid.SampledFrom(kinds).Draw(rt, "fetch-kind")
	fr := fetchReq{Node: node, Isolation: int8(rapid.IntRange(0, 1).Draw(rt, "isolation")), MaxBytes: w.drawMax("max-bytes")}
	var s *mSession
	if k == "incremental" || k == "bad-epoch" || k == "close-session" {
		s = mine[w.pick(len(mine), "session")]
	}
	// request partitions
	switch k {
	case "sessionless", "new-session", "close-session", "unknown-session":
		n := rapid.IntRange(1, len(ps)).Draw(rt, "n-partitions")
		for _, id := range rapid.Permutation(ps).Draw(rt, "partitions")[:n] {
			fr.Parts = append(fr.Parts, fetchPart{id, w.drawOffset(w.parts[id], nil), w.drawMax("partition-max-bytes")})
		}
	case "incremental", "bad-epoch":
		// a subset of partitions is (re)sent, some session partitions are forgotten
		for _, id := range rapid.Permutation(ps).Draw(rt, "partitions") {
			sp := s.Parts[id]
			switch rapid.IntRange(0, 5).Draw(rt, "incr-choice") {
			case 0, 1: // (re)send with an offset
				max := w.drawMax("partition-max-bytes")
				if sp != nil && rapid.Bool().Draw(rt, "keep-max") {
					max = sp.Max
				}
				fr.Parts = append(fr.Parts, fetchPart{id, w.drawOffset(w.parts[id], sp), max})
			case 2: // consumer-like: advance to the end of what was returned
				if sp != nil && sp.LastEnd != sp.Off {
					fr.Parts = append(fr.Parts, fetchPart{id, sp.LastEnd, sp.Max})
				}
			case 3:
				if sp != nil && rapid.IntRange(0, 2).Draw(rt, "forget") == 0 {
					fr.Forgotten = append(fr.Forgotten, id)
				}
			}
		}
	}
	switch k {
	case "sessionless":
		fr.SessionID, fr.Epoch = 0, -1
	case "new-session":
		fr.SessionID, fr.Epoch = 0, 0
	case "incremental":
		fr.SessionID, fr.Epoch = s.ID, s.Epoch
	case "bad-epoch":
		fr.SessionID, fr.Epoch = s.ID, s.Epoch+int32(rapid.SampledFrom([]int{-1, 1, 2}).Draw(rt, "epoch-delta"))
		if fr.Epoch <= 0 {
			fr.Epoch = s.Epoch + 1
		}
	case "close-session":
		fr.SessionID, fr.Epoch = s.ID, -1
	case "unknown-session":
		fr.SessionID, fr.Epoch = 1<<20+int32(rapid.IntRange(0, 5).Draw(rt, "sid")), int32(rapid.IntRange(1, 3).Draw(rt, "sepoch"))
	}
	w.doFetch(k, fr, s)
}

// fetchWhole reads partition p from its log start with generous limits and compares the
// complete log (or committed view) with the model.
func (w *world) fetchWhole(p *mPart, iso int8) {
	fr := fetchReq{Node: p.Leader, Isolation: iso, MaxBytes: 1 << 24, SessionID: 0, Epoch: -1, Parts: []fetchPart{{p.ID, p.LogStart, 1 << 24}}}
	resp := w.doFetch("whole", fr, nil)
	end := p.HWM
	if iso == 1 {
		end = p.LSO()
	}
	if len(resp.Parts) != 1 {
		w.fail("whole-log fetch of p%d returned %d partitions", p.ID, len(resp.Parts))
	}
	got := int64(p.LogStart)
	if bs := resp.Parts[0].Batches; len(bs) > 0 {
		got = bs[len(bs)-1].Base + int64(bs[len(bs)-1].Count)
	}
	if got != end && p.LogStart < end {
		w.fail("whole-log fetch (isolation %d, limits 16 MiB) of p%d ended at offset %d, the readable log ends at %d", iso, p.ID, got, end)
	}
}

type expPart struct {
	fp        fetchPart
	p         *mPart
	wantErr   int16
	avail     int // upper bound of readable bytes from the fetch offset
	firstSize int
	nAvail    int
}

func (w *world) doFetch(kind string, fr fetchReq, s *mSession) fetchResp {
	rc := fr.Isolation == 1
	resp := w.xNew.fetch(w.tm.id, fr)
	w.logf("Fetch %s node=%d iso=%d max=%d session=(%d,%d) parts=%v forgotten=%v -> err=%d session=%d %s", kind, fr.Node, fr.Isolation, fr.MaxBytes, fr.SessionID, fr.Epoch, fr.Parts, fr.Forgotten, resp.Err, resp.SessionID, briefResp(resp))
	w.kind("fetch-" + kind)

	// session-level expectations
	switch kind {
	case "bad-epoch":
		if resp.Err != kerr.InvalidFetchSessionEpoch.Code {
			w.fail("incremental fetch with session epoch %d (session %d is at epoch %d) answered %d (%v), want INVALID_FETCH_SESSION_EPOCH", fr.Epoch, s.ID, s.Epoch, resp.Err, kerr.ErrorForCode(resp.Err))
		}
		return resp
	case "unknown-session":
		if resp.Err != kerr.FetchSessionIDNotFound.Code {
			w.fail("incremental fetch naming unknown session %d answered %d (%v), want FETCH_SESSION_ID_NOT_FOUND", fr.SessionID, resp.Err, kerr.ErrorForCode(resp.Err))
		}
		return resp
	}
	if resp.Err != 0 {
		w.fail("fetch (%s) answered top-level error %d (%v)", kind, resp.Err, kerr.ErrorForCode(resp.Err))
	}

	// effective partition set
	incremental := kind == "incremental"
	var eff []expPart
	if incremental {
		for _, id := range fr.Forgotten {
			delete(s.Parts, id)
		}
		for _, fp := range fr.Parts {
			if sp := s.Parts[fp.Part]; sp != nil {
				sp.Off, sp.Max = fp.Offset, fp.MaxBytes
			} else {
				s.Parts[fp.Part] = &sessPart{Off: fp.Offset, Max: fp.MaxBytes, LastHWM: -1, LastLogS: -1, LastEnd: fp.Offset}
			}
		}
		inReq := map[int32]bool{}
		for _, fp := range fr.Parts {
			inReq[fp.Part] = true
			eff = append(eff, expPart{fp: fp})
		}
		for _, id := range sessKeys(s) {
			if !inReq[id] {
				eff = append(eff, expPart{fp: fetchPart{id, s.Parts[id].Off, s.Parts[id].Max}})
			}
		}
	} else {
		for _, fp := range fr.Parts {
			eff = append(eff, expPart{fp: fp})
		}
	}
	totalAvail := 0
	anyAvail := false
	byID := map[int32]*expPart{}
	for i := range eff {
		x := &eff[i]
		x.p = w.parts[x.fp.Part]
		if x.fp.Offset < x.p.LogStart || x.fp.Offset > x.p.HWM {
			x.wantErr = kerr.OffsetOutOfRange.Code
		} else {
			x.avail, x.firstSize, x.nAvail = x.p.availableBytes(x.fp.Offset, rc)
		}
		totalAvail += x.avail
		if x.nAvail > 0 {
			anyAvail = true
		}
		byID[x.fp.Part] = x
	}

	// was there a change for an incremental session to report?
	if incremental {
		for i := range eff {
			x := &eff[i]
			sp := s.Parts[x.fp.Part]
			if x.wantErr != 0 || x.nAvail > 0 || sp.LastHWM != x.p.HWM || sp.LastLogS != x.p.LogStart {
				w.ntIncrChange = true
			}
		}
	}

	// every returned partition against the model
	seen := map[int32]bool{}
	returnedBytes := 0
	firstBatchSeen := false
	for ri := range resp.Parts {
		rp := &resp.Parts[ri]
		x := byID[rp.Part]
		if x == nil {
			w.fail("fetch response names p%d, which is neither in the request nor in the session", rp.Part)
		}
		if seen[rp.Part] {
			w.fail("fetch response names p%d twice", rp.Part)
		}
		seen[rp.Part] = true
		p := x.p
		if rp.ParseErr != nil {
			w.fail("fetch p%d: %v", p.ID, rp.ParseErr)
		}
		if rp.Err != x.wantErr {
			w.fail("fetch p%d at offset %d (log start %d, high watermark %d) answered error %d (%v), want %d", p.ID, x.fp.Offset, p.LogStart, p.HWM, rp.Err, kerr.ErrorForCode(rp.Err), x.wantErr)
		}
		if rp.Err != 0 {
			if len(rp.Batches) > 0 {
				w.fail("fetch p%d answered error %d together with %d batches", p.ID, rp.Err, len(rp.Batches))
			}
			continue
		}
		if rp.LSO > rp.HWM {
			w.fail("fetch p%d: last stable offset %d exceeds high watermark %d", p.ID, rp.LSO, rp.HWM)
		}
		if rp.HWM != p.HWM || rp.LSO != p.LSO() || rp.LogStart != p.LogStart {
			w.fail("fetch p%d reports (log start, high watermark, last stable offset) = (%d, %d, %d), model (%d, %d, %d)", p.ID, rp.LogStart, rp.HWM, rp.LSO, p.LogStart, p.HWM, p.LSO())
		}
		if len(rp.Batches) == 0 {
			continue
		}
		idx := p.batchIndexAt(x.fp.Offset)
		partBytes := 0
		for j, wb := range rp.Batches {
			if idx+j >= len(p.Batches) {
				w.fail("fetch p%d returned a batch at offset %d beyond the model's log end %d", p.ID, wb.Base, p.HWM)
			}
			mb := &p.Batches[idx+j]
			if !wb.CRCOK {
				w.fail("fetch p%d: batch at offset %d has a wrong CRC", p.ID, wb.Base)
			}
			if wb.Base != mb.Base || wb.Count != mb.Count || wb.PID != mb.PID || wb.Control != mb.Control || wb.Txn != mb.Txn {
				w.fail("fetch p%d at offset %d: batch #%d is (base %d, count %d, pid %d, control %v, txn %v), model has (base %d, count %d, pid %d, control %v, txn %v)", p.ID, x.fp.Offset, j, wb.Base, wb.Count, wb.PID, wb.Control, wb.Txn, mb.Base, mb.Count, mb.PID, mb.Control, mb.Txn)
			}
			if mb.Control {
				if wb.Abort != mb.Abort {
					w.fail("fetch p%d: control batch at offset %d is abort=%v, model abort=%v", p.ID, wb.Base, wb.Abort, mb.Abort)
				}
			} else {
				if wb.Epoch != mb.Epoch || wb.FirstSeq != mb.FirstSeq || !bytes.Equal(wb.Tail, mb.Tail) {
					w.fail("fetch p%d: data batch at offset %d differs from what was produced (epoch %d/%d, first sequence %d/%d, payload equal %v)", p.ID, wb.Base, wb.Epoch, mb.Epoch, wb.FirstSeq, mb.FirstSeq, bytes.Equal(wb.Tail, mb.Tail))
				}
			}
			if rc && mb.Base >= p.LSO() {
				w.fail("read_committed fetch p%d returned the batch at offset %d, at or above the last stable offset %d", p.ID, wb.Base, p.LSO())
			}
			// documented size limits: only the very first batch of a response may exceed them
			returnedBytes += wb.Size
			partBytes += wb.Size
			if firstBatchSeen {
				if returnedBytes > int(fr.MaxBytes) {
					w.fail("fetch response holds %d bytes of batches, MaxBytes is %d (only the first batch may exceed it)", returnedBytes, fr.MaxBytes)
				}
				if partBytes > int(x.fp.MaxBytes) {
					w.fail("fetch p%d holds %d bytes of batches, PartitionMaxBytes is %d (only the first batch of the response may exceed it)", p.ID, partBytes, x.fp.MaxBytes)
				}
			}
			firstBatchSeen = true
		}
		// the consumer's view of the returned range
		lastB := rp.Batches[len(rp.Batches)-1]
		end := lastB.Base + int64(lastB.Count)
		got := clientFilter(rp.Batches, rp.Aborted, x.fp.Offset, rc)
		var want []int64
		if rc {
			want = p.committedOffsets(x.fp.Offset, end)
		} else {
			for i := range p.Batches {
				b := &p.Batches[i]
				if !b.Control {
					for o := b.Base; o <= b.last(); o++ {
						if o >= x.fp.Offset && o < end {
							want = append(want, o)
						}
					}
				}
			}
		}
		if !equal64(got, want) {
			w.fail("fetch p%d (isolation %d) offsets [%d, %d): a standard client-side filter over the returned batches and AbortedTransactions %v delivers offsets %v, the %s view is %v", p.ID, fr.Isolation, x.fp.Offset, end, rp.Aborted, got, map[bool]string{true: "committed", false: "complete"}[rc], want)
		}
		if rc {
			w.noteOverlap(p, idx, len(rp.Batches))
			if idx+len(rp.Batches) < len(p.Batches) && p.Batches[idx+len(rp.Batches)].Base < p.LSO() {
				for j := 0; j < len(rp.Batches); j++ {
					if p.Batches[idx+j].State == txAborted {
						w.fullMid = true
					}
				}
			}
		}
	}

	// presence and progress. A response that may have been cut by MaxBytes is allowed to
	// leave partitions out; it cannot have been cut when everything readable fits or when
	// it holds no data at all.
	strict := totalAvail <= int(fr.MaxBytes) || returnedBytes == 0
	if anyAvail && returnedBytes == 0 {
		// minOneMessage: the first non-empty partition always returns a batch
		noErrAvail := false
		for i := range eff {
			if eff[i].wantErr == 0 && eff[i].nAvail > 0 {
				noErrAvail = true
			}
		}
		if noErrAvail {
			w.fail("fetch (%s, isolation %d) returned no data although readable batches exist at the requested offsets: progress is impossible", kind, fr.Isolation)
		}
	}
	if !incremental {
		// the first partition (request order) with readable data must return a batch
		for i := range eff {
			x := &eff[i]
			if x.wantErr == 0 && x.nAvail > 0 {
				ok := false
				for _, rp := range resp.Parts {
					if rp.Part == x.fp.Part && len(rp.Batches) > 0 {
						ok = true
					}
				}
				if !ok {
					w.fail("fetch (%s): p%d is the first requested partition with readable data at offset %d but returned none", kind, x.fp.Part, x.fp.Offset)
				}
				break
			}
		}
		if strict {
			for i := range eff {
				if !seen[eff[i].fp.Part] {
					w.fail("fetch (%s): requested p%d is missing in the response although everything readable (%d bytes at most) fits MaxBytes %d", kind, eff[i].fp.Part, totalAvail, fr.MaxBytes)
				}
			}
		}
	} else if strict {
		for i := range eff {
			x := &eff[i]
			if seen[x.fp.Part] {
				continue
			}
			sp := s.Parts[x.fp.Part]
			var why string
			switch {
			case x.wantErr != 0:
				why = fmt.Sprintf("its fetch offset %d is out of range", x.fp.Offset)
			case sp.LastHWM != x.p.HWM:
				why = fmt.Sprintf("its high watermark moved from %d to %d", sp.LastHWM, x.p.HWM)
			case sp.LastLogS != x.p.LogStart:
				why = fmt.Sprintf("its log start moved from %d to %d", sp.LastLogS, x.p.LogStart)
			case x.nAvail > 0 && x.firstSize <= int(x.fp.MaxBytes):
				why = fmt.Sprintf("it has %d readable batches at its fetch offset %d", x.nAvail, x.fp.Offset)
			}
			if why != "" {
				w.fail("incremental fetch (session %d epoch %d, isolation %d) omitted p%d although %s since the session's last response (everything readable, at most %d bytes, fits MaxBytes %d)", s.ID, fr.Epoch, fr.Isolation, x.fp.Part, why, totalAvail, fr.MaxBytes)
			}
		}
	}

	// session bookkeeping
	record := func(s *mSession) {
		for ri := range resp.Parts {
			rp := &resp.Parts[ri]
			sp := s.Parts[rp.Part]
			if sp == nil {
				continue
			}
			if rp.Err != 0 {
				sp.LastHWM, sp.LastLogS = -1, -1
			} else {
				sp.LastHWM, sp.LastLogS = rp.HWM, rp.LogStart
			}
			if n := len(rp.Batches); n > 0 {
				sp.LastEnd = rp.Batches[n-1].Base + int64(rp.Batches[n-1].Count)
			}
		}
	}
	switch kind {
	case "new-session":
		if resp.SessionID <= 0 {
			w.fail("full fetch with session epoch 0 did not create a session (session id %d)", resp.SessionID)
		}
		for _, o := range w.sess {
			if o.Node == fr.Node && o.ID == resp.SessionID {
				w.fail("new fetch session got id %d, which is already in use on broker %d", resp.SessionID, fr.Node)
			}
		}
		ns := &mSession{Node: fr.Node, ID: resp.SessionID, Epoch: 1, Parts: map[int32]*sessPart{}}
		for _, fp := range fr.Parts {
			ns.Parts[fp.Part] = &sessPart{Off: fp.Offset, Max: fp.MaxBytes, LastHWM: -1, LastLogS: -1, LastEnd: fp.Offset}
		}
		record(ns)
		w.sess = append(w.sess, ns)
		if len(w.sess) > 4 {
			w.sess = w.sess[1:] // the oldest is simply never used again
		}
	case "incremental":
		if resp.SessionID != s.ID {
			w.fail("incremental fetch of session %d answered session id %d", s.ID, resp.SessionID)
		}
		record(s)
		s.Epoch++
	case "close-session":
		for i, o := range w.sess {
			if o == s {
				w.sess = append(w.sess[:i:i], w.sess[i+1:]...)
				break
			}
		}
	}
	return resp
}

// noteOverlap records whether a read_committed response covered an aborted transaction
// that another producer's data interleaves (the non-trivial rule).
func (w *world) noteOverlap(p *mPart, idx, n int) {
	for _, a := range p.Aborted {
		first, marker := -1, -1
		for j := idx; j < idx+n; j++ {
			b := &p.Batches[j]
			if !b.Control && b.PID == a.PID && b.State == txAborted && b.Base >= a.First && b.Base < a.Marker && first < 0 {
				first = j
			}
			if b.Control && b.Base == a.Marker {
				marker = j
			}
		}
		if first < 0 {
			continue
		}
		hi := idx + n
		if marker >= 0 {
			hi = marker
		}
		for j := first; j < hi; j++ {
			b := &p.Batches[j]
			if !b.Control && b.PID != a.PID {
				mk := p.Batches[p.batchIndexAt(a.Marker)]
				if mk.Timeout {
					w.ntTimeoutOverlap = true
				} else {
					w.ntAbortOverlap = true
				}
			}
		}
	}
}

func equal64(a, b []int64) bool {
	if len(a) != len(b) {
		return false
	}
	for i := range a {
		if a[i] != b[i] {
			return false
		}
	}
	return true
}

func briefResp(r fetchResp) string {
	var b strings.Builder
	for _, p := range r.Parts {
		fmt.Fprintf(&b, "[p%d err=%d hwm=%d lso=%d start=%d aborted=%v batches=", p.Part, p.Err, p.HWM, p.LSO, p.LogStart, p.Aborted)
		for _, x := range p.Batches {
			fmt.Fprintf(&b, "%d+%d(%dB) ", x.Base, x.Count, x.Size)
		}
		b.WriteString("]")
	}
	return b.String()
}
