package c32

// Raw protocol plumbing: every request of the check is a kmsg request sent through
// kgo.Client.Broker(id).Request, i.e. the client is a transport only (no producer,
// consumer, sharding or retry logic of kgo is involved). Record batches are built and
// parsed here by hand.

import (
	"context"
	"fmt"
	"hash/crc32"
	"time"

	"github.com/twmb/franz-go/pkg/kgo"
	"github.com/twmb/franz-go/pkg/kmsg"
)

const topic = "t"

var castagnoli = crc32.MakeTable(crc32.Castagnoli)

// infraErr is panicked for transport-level problems: never a property violation.
type infraErr struct{ msg string }

func infra(format string, a ...any) {
	msg := fmt.Sprintf("VERIF-INFRA: "+format, a...)
	fmt.Println(msg)
	panic(infraErr{msg})
}

// buildBatch builds one v2 RecordBatch with n records (each with the given value
// length), all carrying timestamp ts.
func buildBatch(pid int64, epoch int16, firstSeq int32, n int32, txn bool, ts int64, valLen int, tag byte) []byte {
	var recs []byte
	for i := int32(0); i < n; i++ {
		val := make([]byte, valLen)
		for j := range val {
			val[j] = tag
		}
		r := kmsg.Record{OffsetDelta: i, Key: []byte{tag, byte(i)}, Value: val}
		// Length is a varint that counts everything after itself: encode once with
		// Length 0 (one byte), measure the body, encode again.
		body := r.AppendTo(nil)[1:]
		r.Length = int32(len(body))
		recs = append(recs, r.AppendTo(nil)...)
	}
	var attrs int16
	if txn {
		attrs |= 0x10
	}
	b := kmsg.RecordBatch{
		FirstOffset:          0,
		PartitionLeaderEpoch: -1,
		Magic:                2,
		Attributes:           attrs,
		LastOffsetDelta:      n - 1,
		FirstTimestamp:       ts,
		MaxTimestamp:         ts,
		ProducerID:           pid,
		ProducerEpoch:        epoch,
		FirstSequence:        firstSeq,
		NumRecords:           n,
		Records:              recs,
	}
	raw := b.AppendTo(nil)
	b.Length = int32(len(raw) - 12)
	b.CRC = int32(crc32.Checksum(raw[21:], castagnoli))
	return b.AppendTo(raw[:0])
}

func readVarint(in []byte) (int32, int) {
	var x uint32
	for i := 0; i < len(in) && i < 5; i++ {
		x |= uint32(in[i]&0x7f) << (7 * uint(i))
		if in[i]&0x80 == 0 {
			return int32((x >> 1) ^ -(x & 1)), i + 1
		}
	}
	return 0, 0
}

// wireBatch is one batch parsed out of a fetch response.
type wireBatch struct {
	Base     int64
	Count    int32 // LastOffsetDelta+1
	NumRecs  int32
	PID      int64
	Epoch    int16
	FirstSeq int32
	Txn      bool
	Control  bool
	Abort    bool // control batch with an ABORT marker
	Commit   bool // control batch with a COMMIT marker
	Size     int
	CRCOK    bool
	Tail     []byte // bytes from the attributes field onwards (CRC-covered)
}

// parseBatches splits a fetch response's record bytes into batches. A truncated trailing
// batch (allowed by the protocol) is ignored.
func parseBatches(data []byte) ([]wireBatch, error) {
	var out []wireBatch
	for len(data) >= 61 {
		var b kmsg.RecordBatch
		if err := b.ReadFrom(data); err != nil {
			break
		}
		total := int(b.Length) + 12
		if total > len(data) || total < 61 {
			break
		}
		raw := data[:total]
		data = data[total:]
		w := wireBatch{
			Base: b.FirstOffset, Count: b.LastOffsetDelta + 1, NumRecs: b.NumRecords, PID: b.ProducerID, Epoch: b.ProducerEpoch,
			FirstSeq: b.FirstSequence, Txn: b.Attributes&0x10 != 0, Control: b.Attributes&0x20 != 0, Size: total,
			CRCOK: b.CRC == int32(crc32.Checksum(raw[21:], castagnoli)),
			Tail:  raw[21:],
		}
		if b.Magic != 2 {
			return nil, fmt.Errorf("batch at offset %d has magic %d", b.FirstOffset, b.Magic)
		}
		if w.Control {
			// control record: key = version int16, type int16 (0 abort, 1 commit)
			recs := b.Records
			l, n := readVarint(recs)
			if n > 0 && int(l) <= len(recs)-n {
				var r kmsg.Record
				if err := r.ReadFrom(recs[:n+int(l)]); err == nil && len(r.Key) >= 4 {
					typ := int16(r.Key[2])<<8 | int16(r.Key[3])
					w.Abort = typ == 0
					w.Commit = typ == 1
				}
			}
			if !w.Abort && !w.Commit {
				return nil, fmt.Errorf("control batch at offset %d has no readable marker", b.FirstOffset)
			}
		}
		out = append(out, w)
	}
	return out, nil
}

// transport wraps a kgo client used only to move kmsg requests.
type transport struct {
	cl *kgo.Client
}

func (x *transport) do(node int32, req kmsg.Request) kmsg.Response {
	ctx, cancel := context.WithTimeout(context.Background(), 5*time.Minute) // virtual
	defer cancel()
	resp, err := x.cl.Broker(int(node)).Request(ctx, req)
	if err != nil {
		infra("request key %d to broker %d: %v", req.Key(), node, err)
	}
	return resp
}

type topicMeta struct {
	id      [16]byte
	leaders []int32 // by partition
}

func (x *transport) metadata() topicMeta {
	ctx, cancel := context.WithTimeout(context.Background(), 5*time.Minute)
	defer cancel()
	mreq := kmsg.NewPtrMetadataRequest()
	mt := kmsg.NewMetadataRequestTopic()
	mt.Topic = kmsg.StringPtr(topic)
	mreq.Topics = append(mreq.Topics, mt)
	mresp, err := mreq.RequestWith(ctx, x.cl)
	if err != nil {
		infra("metadata: %v", err)
	}
	if len(mresp.Topics) != 1 || mresp.Topics[0].ErrorCode != 0 {
		infra("metadata: unexpected response %+v", mresp.Topics)
	}
	tm := topicMeta{id: mresp.Topics[0].TopicID, leaders: make([]int32, len(mresp.Topics[0].Partitions))}
	for _, p := range mresp.Topics[0].Partitions {
		if int(p.Partition) >= len(tm.leaders) || p.ErrorCode != 0 {
			infra("metadata: partition %+v", p)
		}
		tm.leaders[p.Partition] = p.Leader
	}
	return tm
}

func (x *transport) findTxnCoordinator(anyNode int32, txid string) int32 {
	req := kmsg.NewPtrFindCoordinatorRequest()
	req.CoordinatorType = 1
	req.CoordinatorKey = txid
	req.CoordinatorKeys = []string{txid}
	resp := x.do(anyNode, req).(*kmsg.FindCoordinatorResponse)
	if len(resp.Coordinators) == 1 {
		if resp.Coordinators[0].ErrorCode != 0 {
			infra("FindCoordinator(%s): error %d", txid, resp.Coordinators[0].ErrorCode)
		}
		return resp.Coordinators[0].NodeID
	}
	if resp.ErrorCode != 0 {
		infra("FindCoordinator(%s): error %d", txid, resp.ErrorCode)
	}
	return resp.NodeID
}

func (x *transport) initPID(node int32, txid string, timeoutMs int32, pid int64, epoch int16) (int16, int64, int16) {
	req := kmsg.NewPtrInitProducerIDRequest()
	if txid != "" {
		req.TransactionalID = kmsg.StringPtr(txid)
		req.TransactionTimeoutMillis = timeoutMs
	}
	req.ProducerID, req.ProducerEpoch = pid, epoch
	resp := x.do(node, req).(*kmsg.InitProducerIDResponse)
	return resp.ErrorCode, resp.ProducerID, resp.ProducerEpoch
}

func (x *transport) produce(node int32, tid [16]byte, part int32, batch []byte, txid string) (int16, int64, int64) {
	req := kmsg.NewPtrProduceRequest()
	req.Acks = -1
	req.TimeoutMillis = 10000
	if txid != "" {
		req.TransactionID = kmsg.StringPtr(txid)
	}
	rt := kmsg.NewProduceRequestTopic()
	rt.Topic, rt.TopicID = topic, tid
	rp := kmsg.NewProduceRequestTopicPartition()
	rp.Partition = part
	rp.Records = batch
	rt.Partitions = append(rt.Partitions, rp)
	req.Topics = append(req.Topics, rt)
	resp := x.do(node, req).(*kmsg.ProduceResponse)
	if len(resp.Topics) != 1 || len(resp.Topics[0].Partitions) != 1 || resp.Topics[0].Partitions[0].Partition != part {
		infra("Produce: response shape %+v", resp.Topics)
	}
	p := resp.Topics[0].Partitions[0]
	return p.ErrorCode, p.BaseOffset, p.LogStartOffset
}

func (x *transport) addPartitions(node int32, txid string, pid int64, epoch int16, parts []int32) []int16 {
	req := kmsg.NewPtrAddPartitionsToTxnRequest()
	req.TransactionalID = txid
	req.ProducerID, req.ProducerEpoch = pid, epoch
	rt := kmsg.NewAddPartitionsToTxnRequestTopic()
	rt.Topic = topic
	rt.Partitions = parts
	req.Topics = append(req.Topics, rt)
	resp := x.do(node, req).(*kmsg.AddPartitionsToTxnResponse)
	out := make([]int16, len(parts))
	for i := range out {
		out[i] = -1
	}
	for _, t := range resp.Topics {
		for _, p := range t.Partitions {
			for i, want := range parts {
				if want == p.Partition {
					out[i] = p.ErrorCode
				}
			}
		}
	}
	for i, c := range out {
		if c == -1 {
			infra("AddPartitionsToTxn: partition %d missing in response %+v", parts[i], resp)
		}
	}
	return out
}

func (x *transport) endTxn(node int32, txid string, pid int64, epoch int16, commit bool) (int16, int64, int16, int16) {
	req := kmsg.NewPtrEndTxnRequest()
	req.TransactionalID = txid
	req.ProducerID, req.ProducerEpoch = pid, epoch
	req.Commit = commit
	resp := x.do(node, req).(*kmsg.EndTxnResponse)
	return resp.ErrorCode, resp.ProducerID, resp.ProducerEpoch, resp.Version
}

func (x *transport) deleteRecords(node int32, part int32, off int64) (int16, int64) {
	req := kmsg.NewPtrDeleteRecordsRequest()
	req.TimeoutMillis = 10000
	rt := kmsg.NewDeleteRecordsRequestTopic()
	rt.Topic = topic
	rp := kmsg.NewDeleteRecordsRequestTopicPartition()
	rp.Partition = part
	rp.Offset = off
	rt.Partitions = append(rt.Partitions, rp)
	req.Topics = append(req.Topics, rt)
	resp := x.do(node, req).(*kmsg.DeleteRecordsResponse)
	if len(resp.Topics) != 1 || len(resp.Topics[0].Partitions) != 1 {
		infra("DeleteRecords: response shape %+v", resp.Topics)
	}
	p := resp.Topics[0].Partitions[0]
	return p.ErrorCode, p.LowWatermark
}

type listed struct {
	Err       int16
	Offset    int64
	Timestamp int64
}

// listOffsets asks one broker about several partitions with one timestamp selector.
func (x *transport) listOffsets(node int32, parts []int32, ts int64, isolation int8) map[int32]listed {
	req := kmsg.NewPtrListOffsetsRequest()
	req.ReplicaID = -1
	req.IsolationLevel = isolation
	rt := kmsg.NewListOffsetsRequestTopic()
	rt.Topic = topic
	for _, p := range parts {
		rp := kmsg.NewListOffsetsRequestTopicPartition()
		rp.Partition = p
		rp.Timestamp = ts
		rp.CurrentLeaderEpoch = -1
		rt.Partitions = append(rt.Partitions, rp)
	}
	req.Topics = append(req.Topics, rt)
	resp := x.do(node, req).(*kmsg.ListOffsetsResponse)
	out := map[int32]listed{}
	for _, t := range resp.Topics {
		for _, p := range t.Partitions {
			out[p.Partition] = listed{p.ErrorCode, p.Offset, p.Timestamp}
		}
	}
	for _, p := range parts {
		if _, ok := out[p]; !ok {
			infra("ListOffsets: partition %d missing in response", p)
		}
	}
	return out
}

// fetchPart is one partition entry of a fetch request.
type fetchPart struct {
	Part     int32 `json:"p"`
	Offset   int64 `json:"off"`
	MaxBytes int32 `json:"max"`
}

type fetchReq struct {
	Node      int32
	Isolation int8
	MaxBytes  int32
	SessionID int32
	Epoch     int32
	Parts     []fetchPart
	Forgotten []int32
}

type fetchedPart struct {
	Part     int32
	Err      int16
	HWM      int64
	LSO      int64
	LogStart int64
	Aborted  []abortedEntry
	Batches  []wireBatch
	ParseErr error
}

type abortedEntry struct {
	PID   int64
	First int64
}

type fetchResp struct {
	Err       int16
	SessionID int32
	Parts     []fetchedPart // in response order
}

func (x *transport) fetch(tid [16]byte, fr fetchReq) fetchResp {
	req := kmsg.NewPtrFetchRequest()
	req.ReplicaID = -1
	req.MaxWaitMillis = 0
	req.MinBytes = 0
	req.MaxBytes = fr.MaxBytes
	req.IsolationLevel = fr.Isolation
	req.SessionID = fr.SessionID
	req.SessionEpoch = fr.Epoch
	if len(fr.Parts) > 0 {
		ft := kmsg.NewFetchRequestTopic()
		ft.Topic, ft.TopicID = topic, tid
		for _, p := range fr.Parts {
			fp := kmsg.NewFetchRequestTopicPartition()
			fp.Partition = p.Part
			fp.FetchOffset = p.Offset
			fp.CurrentLeaderEpoch = -1
			fp.LastFetchedEpoch = -1
			fp.LogStartOffset = -1
			fp.PartitionMaxBytes = p.MaxBytes
			ft.Partitions = append(ft.Partitions, fp)
		}
		req.Topics = append(req.Topics, ft)
	}
	if len(fr.Forgotten) > 0 {
		ft := kmsg.NewFetchRequestForgottenTopic()
		ft.Topic, ft.TopicID = topic, tid
		ft.Partitions = fr.Forgotten
		req.ForgottenTopics = append(req.ForgottenTopics, ft)
	}
	resp := x.do(fr.Node, req).(*kmsg.FetchResponse)
	out := fetchResp{Err: resp.ErrorCode, SessionID: resp.SessionID}
	for _, t := range resp.Topics {
		if t.Topic != topic && t.TopicID != tid {
			infra("Fetch: response names another topic %q %x", t.Topic, t.TopicID)
		}
		for _, p := range t.Partitions {
			fp := fetchedPart{Part: p.Partition, Err: p.ErrorCode, HWM: p.HighWatermark, LSO: p.LastStableOffset, LogStart: p.LogStartOffset}
			for _, a := range p.AbortedTransactions {
				fp.Aborted = append(fp.Aborted, abortedEntry{a.ProducerID, a.FirstOffset})
			}
			fp.Batches, fp.ParseErr = parseBatches(p.RecordBatches)
			out.Parts = append(out.Parts, fp)
		}
	}
	return out
}
