package c32

// Reference model of Kafka partition logs as seen through the protocol. Grounding:
//   - log append: offsets are assigned contiguously from the log end (= high watermark on
//     a single-replica log);
//   - transactions: a transactional batch opens its producer's transaction on the
//     partition; EndTxn / the coordinator's timeout abort writes one control batch
//     (COMMIT/ABORT marker, one offset) to every partition of the transaction; the last
//     stable offset is the first offset of the earliest still-open transaction, else the
//     high watermark; aborted transactions are indexed by (producer id, first offset,
//     marker offset) and reported to read_committed fetches that overlap them;
//   - idempotence: per (producer id, partition) the broker keeps the producer epoch, the
//     next expected sequence (mod 2^31) and the (first sequence, last sequence, offset)
//     of the last five batches; an exact resend of one of those is acknowledged with the
//     original offset, any other non-successor sequence is OUT_OF_ORDER_SEQUENCE_NUMBER, a
//     new epoch must start at sequence 0;
//   - DeleteRecords moves the log start offset (<= high watermark).

import (
	"fmt"
	"sort"
)

const two31 = int64(1) << 31

type txnState int8

const (
	txNone txnState = iota
	txOpen
	txCommitted
	txAborted
)

type mBatch struct {
	Base     int64
	Count    int32
	PID      int64
	Epoch    int16
	FirstSeq int32
	Txn      bool
	Control  bool
	Abort    bool // control: abort marker (else commit marker)
	State    txnState
	Size     int    // data batches: wire size; control batches: 0 (unknown to the model)
	Tail     []byte // data batches: CRC-covered bytes
	TS       int64
	Timeout  bool // control: written by a transaction timeout
}

func (b *mBatch) last() int64 { return b.Base + int64(b.Count) - 1 }

type mAborted struct {
	PID    int64
	First  int64
	Marker int64
}

type winEntry struct {
	FirstSeq int32
	Count    int32
	Base     int64
}

type mWindow struct {
	Seen    bool
	Epoch   int16
	Next    int32
	Entries []winEntry // newest last, at most 5
	// LastOffset is the last offset of the newest accepted batch. When the log start
	// moves past it a real broker may have dropped the producer's state ("accept any
	// sequence"), so duplicate/gap expectations are no longer determined.
	LastOffset int64
}

type mPart struct {
	ID       int32
	Leader   int32
	LogStart int64
	HWM      int64
	Batches  []mBatch
	Open     map[int64]int64 // producer id -> first offset of its open transaction here
	Aborted  []mAborted
	Windows  map[int64]*mWindow
}

func newPart(id, leader int32) *mPart {
	return &mPart{ID: id, Leader: leader, Open: map[int64]int64{}, Windows: map[int64]*mWindow{}}
}

// LSO: first offset of the earliest open transaction, else the high watermark.
func (p *mPart) LSO() int64 {
	lso := p.HWM
	for _, first := range p.Open {
		if first < lso {
			lso = first
		}
	}
	return lso
}

func (p *mPart) window(pid int64) *mWindow {
	w := p.Windows[pid]
	if w == nil {
		w = &mWindow{}
		p.Windows[pid] = w
	}
	return w
}

// windowDetermined: the producer's newest batch is still in the log.
func (p *mPart) windowDetermined(pid int64) bool {
	w := p.Windows[pid]
	if w == nil || !w.Seen {
		return true
	}
	return w.LastOffset >= p.LogStart
}

// appendData appends an accepted data batch and returns its base offset.
func (p *mPart) appendData(b mBatch) int64 {
	b.Base = p.HWM
	if b.Txn {
		b.State = txOpen
		if _, ok := p.Open[b.PID]; !ok {
			p.Open[b.PID] = b.Base
		}
	}
	p.Batches = append(p.Batches, b)
	p.HWM += int64(b.Count)
	return b.Base
}

// recordSeq updates the idempotence window for an accepted batch.
func (p *mPart) recordSeq(pid int64, epoch int16, firstSeq, count int32, base int64) {
	w := p.window(pid)
	next := int32((int64(firstSeq) + int64(count)) % two31)
	if !w.Seen || w.Epoch != epoch {
		w.Seen, w.Epoch, w.Entries = true, epoch, nil
	}
	w.Next = next
	w.Entries = append(w.Entries, winEntry{firstSeq, count, base})
	if len(w.Entries) > 5 {
		w.Entries = w.Entries[len(w.Entries)-5:]
	}
	w.LastOffset = base + int64(count) - 1
}

// endTxn writes the marker of producer pid on this partition.
func (p *mPart) endTxn(pid int64, epoch int16, commit, timeout bool, ts int64) {
	first, had := p.Open[pid]
	if had {
		for i := range p.Batches {
			b := &p.Batches[i]
			if b.PID == pid && b.State == txOpen {
				if commit {
					b.State = txCommitted
				} else {
					b.State = txAborted
				}
			}
		}
		delete(p.Open, pid)
		if !commit {
			p.Aborted = append(p.Aborted, mAborted{pid, first, p.HWM})
		}
	}
	p.Batches = append(p.Batches, mBatch{Base: p.HWM, Count: 1, PID: pid, Epoch: epoch, FirstSeq: -1, Txn: true, Control: true, Abort: !commit, TS: ts, Timeout: timeout})
	p.HWM++
}

// visibleFrom returns the index of the batch containing offset off (logStart <= off < HWM).
func (p *mPart) batchIndexAt(off int64) int {
	return sort.Search(len(p.Batches), func(i int) bool { return p.Batches[i].last() >= off })
}

// committedOffsets lists the offsets in [from, to) that a read_committed consumer must
// see: data records that are non-transactional or belong to a committed transaction.
func (p *mPart) committedOffsets(from, to int64) []int64 {
	var out []int64
	for i := range p.Batches {
		b := &p.Batches[i]
		if b.last() < from || b.Base >= to || b.Control {
			continue
		}
		if b.Txn && b.State != txCommitted {
			continue
		}
		for o := b.Base; o <= b.last(); o++ {
			if o >= from && o < to {
				out = append(out, o)
			}
		}
	}
	return out
}

// availableBytes is an upper bound of the bytes a fetch at off could return (isolation
// aware); control batches, whose size the model does not fix, count with ctlUpper.
const ctlUpper = 256

func (p *mPart) availableBytes(off int64, readCommitted bool) (total int, first int, n int) {
	if off < p.LogStart || off >= p.HWM {
		return 0, 0, 0
	}
	end := p.HWM
	if readCommitted {
		end = p.LSO()
	}
	for i := p.batchIndexAt(off); i < len(p.Batches); i++ {
		b := &p.Batches[i]
		if b.Base >= end {
			break
		}
		sz := b.Size
		if b.Control {
			sz = ctlUpper
		}
		if n == 0 {
			first = sz
		}
		total += sz
		n++
	}
	return total, first, n
}

func (p *mPart) String() string {
	s := fmt.Sprintf("p%d(leader %d) start=%d hwm=%d lso=%d open=%v aborted=%v\n", p.ID, p.Leader, p.LogStart, p.HWM, p.LSO(), p.Open, p.Aborted)
	for _, b := range p.Batches {
		kind := "data"
		if b.Control {
			kind = "COMMIT"
			if b.Abort {
				kind = "ABORT"
			}
			if b.Timeout {
				kind += "(timeout)"
			}
		}
		s += fmt.Sprintf("    [%d..%d] %s pid=%d epoch=%d seq=%d txn=%v state=%d size=%d\n", b.Base, b.last(), kind, b.PID%1000, b.Epoch, b.FirstSeq, b.Txn, b.State, b.Size)
	}
	return s
}

// ---------------------------------------------------------------------------------
// client-side read_committed filter (what a standard consumer does with a fetch
// response: KafkaConsumer's CompletedFetch / kgo's source): aborted transactions are
// consumed in first-offset order as batches are reached; a transactional batch of a
// producer in the aborted set is dropped; the abort marker removes the producer from the
// set; control batches are never delivered.
// ---------------------------------------------------------------------------------

func clientFilter(batches []wireBatch, aborted []abortedEntry, fetchOffset int64, readCommitted bool) []int64 {
	ab := append([]abortedEntry(nil), aborted...)
	sort.SliceStable(ab, func(i, j int) bool { return ab[i].First < ab[j].First })
	set := map[int64]bool{}
	var out []int64
	for _, b := range batches {
		last := b.Base + int64(b.Count) - 1
		if readCommitted && b.PID >= 0 {
			for len(ab) > 0 && ab[0].First <= last {
				set[ab[0].PID] = true
				ab = ab[1:]
			}
			if b.Control && b.Abort {
				delete(set, b.PID)
			} else if b.Txn && !b.Control && set[b.PID] {
				continue
			}
		}
		if b.Control {
			continue
		}
		for o := b.Base; o <= last; o++ {
			if o >= fetchOffset {
				out = append(out, o)
			}
		}
	}
	return out
}
