//go:build verif

package c33

import (
	"bytes"
	"encoding/binary"
	"encoding/json"
	"fmt"
	"hash/crc32"
	"sort"

	"github.com/twmb/franz-go/pkg/kmsg"

	"verif/h/crashfs"
)

// ---- protocol-visible snapshot --------------------------------------------------

type maxTS struct {
	Offset int64 `json:"offset"`
	TS     int64 `json:"ts"`
}

// PartSnap is what the protocol shows about one partition.
type PartSnap struct {
	Earliest  int64            `json:"earliest"`  // ListOffsets -2
	Latest    int64            `json:"latest"`    // ListOffsets -1 read_uncommitted
	LatestRC  int64            `json:"latest_rc"` // ListOffsets -1 read_committed
	MaxTS     maxTS            `json:"max_ts"`    // ListOffsets -3
	HWM       int64            `json:"hwm"`       // Fetch
	LSO       int64            `json:"lso"`       // Fetch
	LogStart  int64            `json:"log_start"` // Fetch
	Batches   [][]byte         `json:"batches"`   // Fetch read_uncommitted from Earliest, split
	Committed [][]byte         `json:"committed"` // Fetch read_committed from Earliest, split
	Aborted   []aborted        `json:"aborted"`   // of the read_committed fetch
	Producers []activeProducer `json:"producers"` // DescribeProducers
}

// Snap is the protocol-visible state the property talks about: topics, partition
// logs, committed offsets, producer and transaction state.
type Snap struct {
	Topics  []topicMeta          `json:"topics"`
	Parts   map[string]*PartSnap `json:"parts"`
	Offsets map[string]string    `json:"offsets"` // commitKey -> "offset/epoch/meta" or "none"
	Txns    []txnState           `json:"txns"`
	Probes  []string             `json:"probes"` // "code/base" per model probe (dup, gap)
	// Cfgs: topic -> explicitly set (dynamic topic) configuration as DescribeConfigs
	// shows it, canonical "k=v,..."; topics with nothing set have no entry.
	Cfgs map[string]string `json:"cfgs,omitempty"`
}

// splitBatches splits concatenated RecordBatch bytes and validates every batch
// (length, magic, CRC, decodability). A trailing partial batch is an error: the
// fetches here are large enough to hold the whole (tiny) log.
func splitBatches(raw []byte) ([][]byte, error) {
	var out [][]byte
	for pos := 0; pos < len(raw); {
		if pos+12 > len(raw) {
			return nil, fmt.Errorf("trailing %d bytes are not a batch header", len(raw)-pos)
		}
		l := int(int32(binary.BigEndian.Uint32(raw[pos+8 : pos+12])))
		if l < 49 || pos+12+l > len(raw) {
			return nil, fmt.Errorf("batch at byte %d has length field %d with %d bytes left", pos, l, len(raw)-pos-12)
		}
		b := raw[pos : pos+12+l]
		if b[16] != 2 {
			return nil, fmt.Errorf("batch at byte %d has magic %d", pos, b[16])
		}
		if got, want := crc32.Checksum(b[21:], castagnoli), binary.BigEndian.Uint32(b[17:21]); got != want {
			return nil, fmt.Errorf("batch at byte %d (first offset %d) has CRC %08x, its content checksums to %08x", pos, int64(binary.BigEndian.Uint64(b[0:8])), want, got)
		}
		var rb kmsg.RecordBatch
		if err := rb.ReadFrom(b); err != nil {
			return nil, fmt.Errorf("batch at byte %d does not decode: %v", pos, err)
		}
		if rb.NumRecords < 1 || rb.LastOffsetDelta != rb.NumRecords-1 {
			return nil, fmt.Errorf("batch at byte %d: NumRecords %d LastOffsetDelta %d", pos, rb.NumRecords, rb.LastOffsetDelta)
		}
		// every record must decode too
		recs := rb.Records
		for i := int32(0); i < rb.NumRecords; i++ {
			rl, n := binary.Varint(recs)
			if n <= 0 || rl < 0 || n+int(rl) > len(recs) {
				return nil, fmt.Errorf("batch at byte %d record %d: bad length %d with %d bytes left", pos, i, rl, len(recs))
			}
			var r kmsg.Record
			if err := r.ReadFrom(recs[:n+int(rl)]); err != nil {
				return nil, fmt.Errorf("batch at byte %d record %d does not decode: %v", pos, i, err)
			}
			recs = recs[n+int(rl):]
		}
		if len(recs) != 0 {
			return nil, fmt.Errorf("batch at byte %d has %d bytes after its %d records", pos, len(recs), rb.NumRecords)
		}
		out = append(out, append([]byte(nil), b...))
		pos += 12 + l
	}
	return out, nil
}

func batchRange(b []byte) (first, next int64) {
	first = int64(binary.BigEndian.Uint64(b[0:8]))
	return first, first + int64(int32(binary.BigEndian.Uint32(b[23:27]))) + 1
}

// sameBatch compares two stored batches ignoring PartitionLeaderEpoch (bytes
// 12..16, outside the CRC, owned by the broker).
func sameBatch(a, b []byte) bool {
	return len(a) == len(b) && bytes.Equal(a[:12], b[:12]) && bytes.Equal(a[16:], b[16:])
}

func describeBatch(b []byte) string {
	var rb kmsg.RecordBatch
	if err := rb.ReadFrom(b); err != nil {
		return fmt.Sprintf("undecodable %d bytes", len(b))
	}
	return fmt.Sprintf("[%d..%d] pid=%d epoch=%d seq=%d attrs=%#x", rb.FirstOffset, rb.FirstOffset+int64(rb.LastOffsetDelta), rb.ProducerID, rb.ProducerEpoch, rb.FirstSequence, uint16(rb.Attributes))
}

func readPartition(n *node, topic string, id [16]byte, part int32) (*PartSnap, error) {
	ps := &PartSnap{}
	var err error
	if ps.Earliest, _, _, err = n.listOffset(topic, part, -2, 0); err != nil {
		return nil, err
	}
	if ps.Latest, _, _, err = n.listOffset(topic, part, -1, 0); err != nil {
		return nil, err
	}
	if ps.LatestRC, _, _, err = n.listOffset(topic, part, -1, 1); err != nil {
		return nil, err
	}
	if ps.MaxTS.Offset, ps.MaxTS.TS, _, err = n.listOffset(topic, part, -3, 0); err != nil {
		return nil, err
	}
	f, err := n.fetch(topic, id, part, ps.Earliest, 0)
	if err != nil {
		return nil, err
	}
	ps.HWM, ps.LSO, ps.LogStart = f.HWM, f.LSO, f.LogStart
	if ps.Batches, err = splitBatches(f.Raw); err != nil {
		return nil, fmt.Errorf("%s-%d read_uncommitted fetch from %d: %w", topic, part, ps.Earliest, err)
	}
	fc, err := n.fetch(topic, id, part, ps.Earliest, 1)
	if err != nil {
		return nil, err
	}
	if ps.Committed, err = splitBatches(fc.Raw); err != nil {
		return nil, fmt.Errorf("%s-%d read_committed fetch from %d: %w", topic, part, ps.Earliest, err)
	}
	ps.Aborted = fc.Aborted
	if ps.Producers, err = n.describeProducers(topic, part); err != nil {
		return nil, err
	}
	return ps, nil
}

// snapshot reads everything back. withProbes additionally sends the model's
// idempotent-producer probes (only meaningful on a cleanly restarted cluster).
func snapshot(n *node, m *Model, withProbes bool) (*Snap, error) {
	s := &Snap{Parts: map[string]*PartSnap{}, Offsets: map[string]string{}}
	var err error
	if s.Topics, err = n.metadata(); err != nil {
		return nil, err
	}
	for _, t := range s.Topics {
		for p := int32(0); p < t.Parts; p++ {
			ps, err := readPartition(n, t.Name, t.ID, p)
			if err != nil {
				return nil, err
			}
			s.Parts[tpKey(t.Name, p)] = ps
		}
	}
	ids := map[string][16]byte{}
	var names []string
	for _, t := range s.Topics {
		ids[t.Name] = t.ID
		names = append(names, t.Name)
	}
	cfgs, err := n.topicConfigs(names)
	if err != nil {
		return nil, err
	}
	for t, c := range cfgs {
		if c != "" {
			if s.Cfgs == nil {
				s.Cfgs = map[string]string{}
			}
			s.Cfgs[t] = c
		}
	}
	for _, k := range m.commitKeys() {
		g, t, p := splitCommitKey(k)
		id, ok := ids[t]
		if !ok {
			s.Offsets[k] = "topic-missing"
			continue
		}
		v, ok, err := n.offsetFetch(g, t, id, p)
		if err != nil {
			return nil, err
		}
		if !ok {
			s.Offsets[k] = "none"
		} else {
			s.Offsets[k] = fmt.Sprintf("%d/%d/%v/%s", v.Offset, v.Epoch, v.HasMeta, v.Meta)
		}
	}
	if s.Txns, err = n.transactions(); err != nil {
		return nil, err
	}
	for _, pr := range m.Probes {
		if !withProbes {
			break
		}
		if _, ok := ids[pr.Topic]; !ok {
			s.Probes = append(s.Probes, "topic-missing", "topic-missing")
			continue
		}
		for _, b := range [][]byte{pr.Dup, pr.Gap} {
			code, base, err := n.produce(pr.Topic, pr.ID, pr.Part, nil, b)
			if err != nil {
				return nil, err
			}
			if code != 0 {
				base = -1
			}
			s.Probes = append(s.Probes, fmt.Sprintf("%d/%d", code, base))
		}
	}
	return s, nil
}

// diffSnap returns "" if equal, else a description of the first difference.
func diffSnap(a, b *Snap) string {
	if d := diffJSON("topics", a.Topics, b.Topics); d != "" {
		return d
	}
	if d := diffJSON("explicitly set topic configurations (DescribeConfigs)", a.Cfgs, b.Cfgs); d != "" {
		return d
	}
	keys := map[string]bool{}
	for k := range a.Parts {
		keys[k] = true
	}
	for k := range b.Parts {
		keys[k] = true
	}
	ks := make([]string, 0, len(keys))
	for k := range keys {
		ks = append(ks, k)
	}
	sort.Strings(ks)
	for _, k := range ks {
		pa, pb := a.Parts[k], b.Parts[k]
		if pa == nil || pb == nil {
			return fmt.Sprintf("partition %s exists on one side only", k)
		}
		if len(pa.Batches) != len(pb.Batches) {
			return fmt.Sprintf("partition %s: %d batches before, %d after", k, len(pa.Batches), len(pb.Batches))
		}
		for i := range pa.Batches {
			if !bytes.Equal(pa.Batches[i], pb.Batches[i]) {
				return fmt.Sprintf("partition %s batch %d differs: before %s, after %s", k, i, describeBatch(pa.Batches[i]), describeBatch(pb.Batches[i]))
			}
		}
		ca, cb := *pa, *pb
		ca.Batches, cb.Batches = nil, nil
		if d := diffJSON("partition "+k, ca, cb); d != "" {
			return d
		}
	}
	if d := diffJSON("committed offsets", a.Offsets, b.Offsets); d != "" {
		return d
	}
	if d := diffJSON("transactions", a.Txns, b.Txns); d != "" {
		return d
	}
	return diffJSON("idempotent-producer probes (dup, gap)", a.Probes, b.Probes)
}

func diffJSON(what string, a, b any) string {
	ja, _ := json.Marshal(a)
	jb, _ := json.Marshal(b)
	if bytes.Equal(ja, jb) {
		return ""
	}
	return fmt.Sprintf("%s differ:\n  before: %s\n  after:  %s", what, ja, jb)
}

// ---- crash oracle ---------------------------------------------------------------

// Case is one crash state: the process stopped before op K; Cuts says what
// survives of each dirty inode's unsynced operations (absent = everything).
type Case struct {
	K    int                 `json:"k"`
	Cuts map[int]crashfs.Cut `json:"cuts,omitempty"`
	// Then, if set, is a second crash: the process restarted on the state above
	// stops again before op Then.K of ITS op log (genesis ops + recovery writes).
	Then *Case `json:"then,omitempty"`
}

func (c Case) String() string {
	inos := make([]int, 0, len(c.Cuts))
	for i := range c.Cuts {
		inos = append(inos, i)
	}
	sort.Ints(inos)
	s := fmt.Sprintf("k=%d", c.K)
	for _, i := range inos {
		s += fmt.Sprintf(" ino%d:keep(ops=%d,bytes=%d,zero=%v)", i, c.Cuts[i].Ops, c.Cuts[i].Bytes, c.Cuts[i].Zero)
	}
	if c.Then != nil {
		s += " then{" + c.Then.String() + "}"
	}
	return s
}

// violation is a property violation found by the oracle.
type violation struct{ msg string }

func (v *violation) Error() string { return v.msg }

func violf(format string, a ...any) error { return &violation{fmt.Sprintf(format, a...)} }

// outcome describes what recovery made of the crash state (for class counters).
type outcome struct {
	lostUnacked int // acknowledged-later batches that did not survive
	keptUnacked int // batches present although not acknowledged at the crash point
	createsLost int // CreateTopics/CreatePartitions acknowledged <= k but not visible (counted, not asserted)
	createsKept int
	snap        *Snap
	recEnd      int // op-log length of fs when NewCluster had returned (recovery writes end here)
}

// checkCrash restarts kfake on the materialised state and checks the crash half
// of the property. It returns a *violation, an *infraErr, or nil.
func checkCrash(m *Model, fs *crashfs.FS, k int) (out outcome, err error) {
	n, serr := startNode(fs, m.Script.Bcfg)
	if serr != nil {
		if isInfra(serr) {
			return out, serr
		}
		return out, violf("restart failed: kfake.NewCluster on the crash state returned: %v", serr)
	}
	defer n.stop()
	out.recEnd = fs.Len()
	s, rerr := snapshot(n, m, false)
	if rerr != nil {
		if isInfra(rerr) {
			return out, rerr
		}
		return out, violf("the restarted cluster cannot be read back: %v", rerr)
	}
	out.snap = s

	// topics: only ones that were really created, with their real id and a
	// partition count the topic really had
	seen := map[string]topicMeta{}
	for _, t := range s.Topics {
		seen[t.Name] = t
		th := m.Topics[t.Name]
		if th == nil {
			return out, violf("topic %q is visible after restart but was never created", t.Name)
		}
		if th.ID != t.ID {
			return out, violf("topic %q has id %x after restart, it was created with id %x", t.Name, t.ID, th.ID)
		}
		ok := false
		for _, c := range th.Counts {
			ok = ok || c.Parts == t.Parts
		}
		if !ok {
			return out, violf("topic %q has %d partitions after restart; it only ever had %v", t.Name, t.Parts, th.Counts)
		}
	}
	// topic configuration: what DescribeConfigs shows as explicitly set on a topic
	// is the state after one of the workload's configuration changes, and not an
	// older one than the last change acknowledged at index <= k
	for _, t := range s.Topics {
		got, hist := s.Cfgs[t.Name], m.Cfgs[t.Name]
		last := -1
		for i, c := range hist {
			if c.Ack <= k {
				last = i
			}
		}
		ok := last < 0 && got == m.CfgBase[t.Name]
		for i := max(last, 0); i < len(hist) && !ok; i++ {
			// a later change can only show if its request was sent before the stop
			ok = (i == last || hist[i].Sent < k) && got == hist[i].After
		}
		if ok {
			continue
		}
		older := last >= 0 && got == m.CfgBase[t.Name]
		for i := 0; i < last; i++ {
			older = older || got == hist[i].After
		}
		if older {
			return out, violf("acknowledged configuration change lost: topic %q shows the explicitly set configuration {%s} after restart, but %s was acknowledged at op index %d <= %d and makes it {%s} (changes of this topic: %+v)", t.Name, got, hist[last].What, hist[last].Ack, k, hist[last].After, hist)
		}
		return out, violf("topic %q shows the explicitly set configuration {%s} after restart, which no acknowledged or in-flight configuration change of the workload produces (before the changes: {%s}; changes of this topic: %+v)", t.Name, got, m.CfgBase[t.Name], hist)
	}
	for name, th := range m.Topics {
		need := int32(0)
		for _, c := range th.Counts {
			if c.Ack <= k {
				need = c.Parts
			}
		}
		if need == 0 {
			continue
		}
		if t, ok := seen[name]; ok && t.Parts >= need {
			out.createsKept++
		} else {
			out.createsLost++
		}
	}

	// partition logs
	ackedEnd := map[string]int64{}
	ackedBy := map[string]prodAck{}
	for _, a := range m.Produced {
		if a.Ack <= k {
			key := tpKey(a.Topic, a.Part)
			if e := a.Base + int64(a.N); e > ackedEnd[key] {
				ackedEnd[key], ackedBy[key] = e, a
			}
		}
	}
	for key, end := range ackedEnd {
		if s.Parts[key] == nil {
			a := ackedBy[key]
			return out, violf("acknowledged produce lost: %s does not exist after restart, but a produce of %d records at offset %d was acknowledged at op index %d <= %d (log end must be >= %d)", key, a.N, a.Base, a.Ack, k, end)
		}
	}
	for key, ps := range s.Parts {
		ref := m.Ref[key]
		if ps.Earliest != 0 || ps.LogStart != 0 {
			return out, violf("%s: log start is %d (ListOffsets) / %d (Fetch) after restart; nothing was ever deleted", key, ps.Earliest, ps.LogStart)
		}
		next := ps.Earliest
		for i, b := range ps.Batches {
			first, nx := batchRange(b)
			if first != next {
				return out, violf("%s: offsets not contiguous after restart: batch %d starts at %d, expected %d", key, i, first, next)
			}
			next = nx
			if i >= len(ref) {
				return out, violf("%s: batch %d %s is visible after restart but was never written by the workload (%d batches)", key, i, describeBatch(b), len(ref))
			}
			if !sameBatch(b, ref[i]) {
				return out, violf("%s: batch %d after restart is %s, the workload wrote %s", key, i, describeBatch(b), describeBatch(ref[i]))
			}
		}
		if ps.Latest != next || ps.HWM != next {
			return out, violf("%s: log end after restart is %d (ListOffsets) / %d (Fetch high watermark) but the fetched batches end at %d", key, ps.Latest, ps.HWM, next)
		}
		if end := ackedEnd[key]; next < end {
			a := ackedBy[key]
			return out, violf("acknowledged produce lost: %s ends at %d after restart, but a produce of %d records at offset %d was acknowledged at op index %d <= %d (log end must be >= %d)", key, next, a.N, a.Base, a.Ack, k, end)
		}
		// the read_committed view must be made of batches of the same log
		ci := 0
		for _, b := range ps.Committed {
			for ci < len(ps.Batches) && !bytes.Equal(ps.Batches[ci], b) {
				ci++
			}
			if ci == len(ps.Batches) {
				return out, violf("%s: read_committed fetch returns batch %s that the read_uncommitted fetch does not", key, describeBatch(b))
			}
		}
		for _, a := range m.Produced {
			if tpKey(a.Topic, a.Part) != key || a.Ack <= k {
				continue
			}
			if next >= a.Base+int64(a.N) {
				out.keptUnacked++
			} else {
				out.lostUnacked++
			}
		}
	}
	// committed offsets
	for _, key := range m.commitKeys() {
		hist := m.Commits[key]
		last := -1
		for i, c := range hist {
			if c.Ack <= k {
				last = i
			}
		}
		got := s.Offsets[key]
		if got == "none" || got == "topic-missing" {
			if last >= 0 {
				return out, violf("acknowledged offset commit lost: %s has no committed offset after restart (%s), but offset %d was acknowledged at op index %d <= %d", key, got, hist[last].Offset, hist[last].Ack, k)
			}
			continue
		}
		match := -1
		for i, c := range hist {
			if got == fmt.Sprintf("%d/%d/%v/%s", c.Offset, -1, true, c.Meta) {
				match = i
			}
		}
		if match < 0 {
			return out, violf("%s: committed offset after restart is %q (offset/epoch/hasMeta/meta), which no commit of the workload wrote: %+v", key, got, hist)
		}
		if match < last {
			return out, violf("acknowledged offset commit lost: %s is back at %q after restart, but the later commit of offset %d was acknowledged at op index %d <= %d", key, got, hist[last].Offset, hist[last].Ack, k)
		}
	}
	if m.Sessions > 0 {
		// multi-session histories (sessions_test.go): outcomes of acknowledged
		// EndTxn requests, and a new produce after the recovery
		if err := checkOutcomes(m, s, k); err != nil {
			return out, err
		}
		s2, err := produceAfterRecovery(n, m, s, ackedEnd)
		if err != nil {
			return out, err
		}
		out.snap = s2
	}
	return out, nil
}

// inFlightPIDs returns the producer ids that have a transactional data batch
// without a later control batch in some partition log of the snapshot: their
// transaction was in flight when the process stopped.
func inFlightPIDs(s *Snap) map[int64]bool {
	out := map[int64]bool{}
	for _, ps := range s.Parts {
		open := map[int64]bool{}
		for _, b := range ps.Batches {
			attrs := binary.BigEndian.Uint16(b[21:23])
			pid := int64(binary.BigEndian.Uint64(b[43:51]))
			switch {
			case attrs&0x20 != 0:
				delete(open, pid)
			case attrs&0x10 != 0:
				open[pid] = true
			}
		}
		for pid := range open {
			out[pid] = true
		}
	}
	return out
}
