//go:build verif

package c33

import (
	"encoding/binary"
	"fmt"
	"strings"
	"sync"

	"verif/h/ev"
)

// Third finding of the multi-session histories (reported to the lead; the input
// class is excluded while the witness below reproduces it):
//
// loadPartitionFullReplay aborts a transaction that was in flight at the crash
// by adding an abortedTxns entry only; no abort marker is written (same root as
// knownKey). Fetch keeps returning that entry in AbortedTransactions, and a
// read_committed consumer (kgo's aborter, the Java client alike) drops every
// transactional batch of that producer id from the entry's first offset until
// it sees an abort marker of that producer id - which never comes. When the
// same transactional id is re-initialised after the recovery (same producer id,
// higher epoch) and COMMITS a transaction into the same partition, the records
// of that acknowledged, committed transaction are dropped by the consumer
// whenever they arrive in the same fetch response as the crash-aborted ones.
const markerKey = "crash-aborted-transaction-without-abort-marker-hides-later-committed-records-of-same-producer-id"

var markerWitness = History{Name: "marker-witness", Prods: []int{prodTxn}, Sessions: []Session{
	{Steps: []Step{topic("a", 1), produce(0, "a", 0, 2)}, End: Ending{Crash: true, Step: 2, After: true}},
	{Steps: []Step{produce(0, "a", 0, 1), end(0, true)}},
}}

// unmarkedPIDs returns the producer ids that have, in this partition log, a
// transaction that was never ended by a control batch and was followed by a
// transactional batch of the same producer id with a higher epoch.
func unmarkedPIDs(ps *PartSnap) map[int64]bool {
	out := map[int64]bool{}
	open := map[int64]int16{}
	for _, b := range ps.Batches {
		attrs := binary.BigEndian.Uint16(b[21:23])
		pid := int64(binary.BigEndian.Uint64(b[43:51]))
		epoch := int16(binary.BigEndian.Uint16(b[51:53]))
		switch {
		case attrs&0x20 != 0:
			delete(open, pid)
		case attrs&0x10 != 0:
			if e, ok := open[pid]; ok && epoch > e {
				out[pid] = true
			}
			open[pid] = epoch
		}
	}
	return out
}

// batchPID returns the producer id of the batch starting at offset first.
func batchPID(ps *PartSnap, first int64) (int64, bool) {
	for _, b := range ps.Batches {
		if f, _ := batchRange(b); f == first {
			return int64(binary.BigEndian.Uint64(b[43:51])), true
		}
	}
	return 0, false
}

// witnessRun evaluates fn with a tb that captures the first Fatalf.
func witnessRun(fn func(t tb)) string {
	c := &capture{}
	func() {
		defer func() {
			if r := recover(); r != nil {
				if _, ok := r.(captured); !ok {
					panic(r)
				}
			}
		}()
		fn(c)
	}()
	return c.msg
}

func announce(key, witness, msg, from string) {
	txt := msg[strings.Index(msg, from):]
	if j := strings.Index(txt, "\nreplay file"); j > 0 {
		txt = txt[:j]
	}
	line := fmt.Sprintf("key=%s confirmed on witness [%s]: %s", key, witness, strings.Join(strings.Fields(txt), " "))
	if len(line) > 1000 {
		line = line[:1000] + "..."
	}
	if findingListed(key) {
		ev.KnownFinding("C33", line)
	} else {
		fmt.Println("C33 NEW-FINDING (input class excluded and counted, not listed in KNOWN_FINDINGS.json): " + line)
	}
}

var (
	markerOnce   sync.Once
	markerActive bool
)

// markerOpen reports whether the finding still reproduces on the witness (run
// strictly, without the exclusions).
func markerOpen() bool {
	if witnessing.Load() {
		return false
	}
	if !findingListed(markerKey) {
		return false // not listed as open in $VERIF_KNOWN: the check stays strict
	}
	markerOnce.Do(func() {
		witnessing.Store(true)
		defer witnessing.Store(false)
		msg := witnessRun(func(t tb) {
			e := runHistoryOpt(t, markerWitness, true)
			defer e.p.done()
			if len(e.m.Ends) != 1 {
				return
			}
			// the state after the clean Close of the second session (the partition
			// snapshot keeps the abortedTxns entry; a full replay after a crash
			// right behind the EndTxn would instead pair the commit marker with the
			// crash-aborted records and deliver those as committed too)
			report(t, e.eval(Case{K: len(e.l.Ops)}, false, false))
		})
		if strings.Contains(msg, "C33 violated (crash)") && strings.Contains(msg, "acknowledged transaction outcome lost") {
			markerActive = true
			announce(markerKey, "topic a(1), transactional produce a-0, crash after its acknowledgement | recovery, InitProducerID, transactional produce a-0, EndTxn(commit) acknowledged, clean Close | restart", msg, "acknowledged transaction outcome lost")
		}
	})
	return markerActive
}
