//go:build verif

package c33

// Raw-protocol access to one kfake cluster that persists into a crashfs.FS.
// Everything goes through kgo.Broker.Request on the seed broker (no routing, no
// retries) over a per-cluster kfake.VirtualNetwork (net.Pipe: no sockets, no ports).

import (
	"context"
	"errors"
	"fmt"
	"hash/crc32"
	"sort"
	"time"

	"github.com/twmb/franz-go/pkg/kfake"
	"github.com/twmb/franz-go/pkg/kgo"
	"github.com/twmb/franz-go/pkg/kmsg"

	"verif/h/crashfs"
)

const dataDir = "/data"

// infraErr marks harness/transport problems: never a property violation.
type infraErr struct{ msg string }

func (e *infraErr) Error() string { return e.msg }

func infraf(format string, a ...any) error { return &infraErr{fmt.Sprintf(format, a...)} }

func isInfra(err error) bool {
	var ie *infraErr
	return errors.As(err, &ie)
}

type node struct {
	c  *kfake.Cluster
	cl *kgo.Client
	br *kgo.Broker
	fs *crashfs.FS
}

// startNode starts a 1-broker kfake on fs with DataDir+SyncWrites. A NewCluster
// error or panic is returned as a plain error (the oracle decides what it means).
func startNode(fs *crashfs.FS, bcfg map[string]string) (n *node, err error) {
	vn := new(kfake.VirtualNetwork)
	opts := []kfake.Opt{
		kfake.NumBrokers(1),
		kfake.Ports(9092),
		kfake.ListenFn(vn.Listen),
		kfake.DataDir(dataDir),
		kfake.SyncWrites(),
		kfake.VerifWithFS(fs),
	}
	if len(bcfg) > 0 {
		opts = append(opts, kfake.BrokerConfigs(bcfg))
	}
	var c *kfake.Cluster
	func() {
		defer func() {
			if r := recover(); r != nil {
				err = fmt.Errorf("panic in kfake.NewCluster: %v", r)
			}
		}()
		c, err = kfake.NewCluster(opts...)
	}()
	if err != nil {
		return nil, err
	}
	cl, cerr := kgo.NewClient(
		kgo.SeedBrokers("127.0.0.1:9092"),
		kgo.Dialer(vn.DialContext),
		kgo.MetadataMinAge(30*time.Minute), kgo.MetadataMaxAge(time.Hour),
		kgo.DisableClientMetrics(), // no KIP-714 telemetry push (gzip) on every client Close
		// the read deadline of a request is this overhead (default 10 s): on a machine
		// with a load of 100+ a broker goroutine can be off the CPU for longer
		kgo.RequestTimeoutOverhead(3*time.Minute),
	)
	if cerr != nil {
		c.Close()
		return nil, infraf("kgo.NewClient: %v", cerr)
	}
	return &node{c: c, cl: cl, br: cl.SeedBrokers()[0], fs: fs}, nil
}

func (n *node) stop() {
	n.cl.Close()
	n.c.Close()
}

func (n *node) req(r kmsg.Request) (kmsg.Response, error) {
	ctx, cancel := context.WithTimeout(context.Background(), 4*time.Minute)
	defer cancel()
	resp, err := n.br.Request(ctx, r)
	if err != nil {
		return nil, infraf("request %T: %v", r, err)
	}
	return resp, nil
}

// ---- admin ----------------------------------------------------------------

func (n *node) createTopic(name string, parts int32) (id [16]byte, code int16, err error) {
	r := kmsg.NewPtrCreateTopicsRequest()
	r.TimeoutMillis = 10000
	t := kmsg.NewCreateTopicsRequestTopic()
	t.Topic, t.NumPartitions, t.ReplicationFactor = name, parts, 1
	r.Topics = append(r.Topics, t)
	kr, err := n.req(r)
	if err != nil {
		return id, 0, err
	}
	resp := kr.(*kmsg.CreateTopicsResponse)
	if len(resp.Topics) != 1 {
		return id, 0, infraf("CreateTopics: %d topics in response", len(resp.Topics))
	}
	return resp.Topics[0].TopicID, resp.Topics[0].ErrorCode, nil
}

func (n *node) createPartitions(name string, count int32) (int16, error) {
	r := kmsg.NewPtrCreatePartitionsRequest()
	r.TimeoutMillis = 10000
	t := kmsg.NewCreatePartitionsRequestTopic()
	t.Topic, t.Count = name, count
	r.Topics = append(r.Topics, t)
	kr, err := n.req(r)
	if err != nil {
		return 0, err
	}
	resp := kr.(*kmsg.CreatePartitionsResponse)
	if len(resp.Topics) != 1 {
		return 0, infraf("CreatePartitions: %d topics in response", len(resp.Topics))
	}
	return resp.Topics[0].ErrorCode, nil
}

// ---- topic configuration ------------------------------------------------------

// incrAlterTopic sends IncrementalAlterConfigs with one SET (val != nil) or
// DELETE (val == nil) for the topic resource.
func (n *node) incrAlterTopic(topic, key string, val *string) (int16, error) {
	r := kmsg.NewPtrIncrementalAlterConfigsRequest()
	rr := kmsg.NewIncrementalAlterConfigsRequestResource()
	rr.ResourceType, rr.ResourceName = kmsg.ConfigResourceTypeTopic, topic
	rc := kmsg.NewIncrementalAlterConfigsRequestResourceConfig()
	rc.Name, rc.Value = key, val
	rc.Op = kmsg.IncrementalAlterConfigOpSet
	if val == nil {
		rc.Op = kmsg.IncrementalAlterConfigOpDelete
	}
	rr.Configs = append(rr.Configs, rc)
	r.Resources = append(r.Resources, rr)
	kr, err := n.req(r)
	if err != nil {
		return 0, err
	}
	resp := kr.(*kmsg.IncrementalAlterConfigsResponse)
	if len(resp.Resources) != 1 {
		return 0, infraf("IncrementalAlterConfigs: %d resources in response", len(resp.Resources))
	}
	return resp.Resources[0].ErrorCode, nil
}

// legacyAlterTopic sends AlterConfigs (non-incremental): the topic's dynamic
// configuration becomes exactly cfgs.
func (n *node) legacyAlterTopic(topic string, cfgs map[string]string) (int16, error) {
	r := kmsg.NewPtrAlterConfigsRequest()
	rr := kmsg.NewAlterConfigsRequestResource()
	rr.ResourceType, rr.ResourceName = kmsg.ConfigResourceTypeTopic, topic
	keys := make([]string, 0, len(cfgs))
	for k := range cfgs {
		keys = append(keys, k)
	}
	sort.Strings(keys)
	for _, k := range keys {
		rc := kmsg.NewAlterConfigsRequestResourceConfig()
		rc.Name, rc.Value = k, kmsg.StringPtr(cfgs[k])
		rr.Configs = append(rr.Configs, rc)
	}
	r.Resources = append(r.Resources, rr)
	kr, err := n.req(r)
	if err != nil {
		return 0, err
	}
	resp := kr.(*kmsg.AlterConfigsResponse)
	if len(resp.Resources) != 1 {
		return 0, infraf("AlterConfigs: %d resources in response", len(resp.Resources))
	}
	return resp.Resources[0].ErrorCode, nil
}

// topicConfigs reads the configuration of the topics back with DescribeConfigs
// and returns, per topic, the entries whose source is the dynamic topic
// configuration (what was explicitly set on the topic), rendered canonically
// as "k=v,k=v" with sorted keys ("" = nothing set).
func (n *node) topicConfigs(topics []string) (map[string]string, error) {
	out := map[string]string{}
	if len(topics) == 0 {
		return out, nil
	}
	r := kmsg.NewPtrDescribeConfigsRequest()
	for _, t := range topics {
		rr := kmsg.NewDescribeConfigsRequestResource()
		rr.ResourceType, rr.ResourceName = kmsg.ConfigResourceTypeTopic, t
		rr.ConfigNames = nil // all
		r.Resources = append(r.Resources, rr)
	}
	kr, err := n.req(r)
	if err != nil {
		return nil, err
	}
	resp := kr.(*kmsg.DescribeConfigsResponse)
	if len(resp.Resources) != len(topics) {
		return nil, infraf("DescribeConfigs: %d resources in response, asked for %d", len(resp.Resources), len(topics))
	}
	for _, res := range resp.Resources {
		if res.ErrorCode != 0 {
			return nil, fmt.Errorf("DescribeConfigs topic %s: error code %d", res.ResourceName, res.ErrorCode)
		}
		set := map[string]string{}
		for _, c := range res.Configs {
			if c.Source != kmsg.ConfigSourceDynamicTopicConfig {
				continue
			}
			v := "<null>"
			if c.Value != nil {
				v = *c.Value
			}
			if _, dup := set[c.Name]; dup {
				return nil, fmt.Errorf("DescribeConfigs topic %s: config %s is listed twice", res.ResourceName, c.Name)
			}
			set[c.Name] = v
		}
		out[res.ResourceName] = canonCfg(set)
	}
	return out, nil
}

// canonCfg renders a set of explicitly set topic configs canonically.
func canonCfg(set map[string]string) string {
	keys := make([]string, 0, len(set))
	for k := range set {
		keys = append(keys, k)
	}
	sort.Strings(keys)
	s := ""
	for i, k := range keys {
		if i > 0 {
			s += ","
		}
		s += k + "=" + set[k]
	}
	return s
}

type topicMeta struct {
	Name  string   `json:"name"`
	ID    [16]byte `json:"id"`
	Parts int32    `json:"parts"`
	// Leaders/epochs are part of the clean-restart comparison.
	Leaders []int32 `json:"leaders"`
	Epochs  []int32 `json:"epochs"`
}

func (n *node) metadata() ([]topicMeta, error) {
	r := kmsg.NewPtrMetadataRequest()
	r.Topics = nil // all topics
	kr, err := n.req(r)
	if err != nil {
		return nil, err
	}
	resp := kr.(*kmsg.MetadataResponse)
	var out []topicMeta
	for _, t := range resp.Topics {
		if t.ErrorCode != 0 || t.Topic == nil {
			return nil, fmt.Errorf("Metadata: topic %v error code %d", t.Topic, t.ErrorCode)
		}
		tm := topicMeta{Name: *t.Topic, ID: t.TopicID, Parts: int32(len(t.Partitions))}
		ps := append([]kmsg.MetadataResponseTopicPartition(nil), t.Partitions...)
		sort.Slice(ps, func(i, j int) bool { return ps[i].Partition < ps[j].Partition })
		for i, p := range ps {
			if p.Partition != int32(i) {
				return nil, fmt.Errorf("Metadata: topic %s partitions are not 0..n-1: %v at %d", tm.Name, p.Partition, i)
			}
			if p.ErrorCode != 0 {
				return nil, fmt.Errorf("Metadata: topic %s partition %d error code %d", tm.Name, i, p.ErrorCode)
			}
			tm.Leaders = append(tm.Leaders, p.Leader)
			tm.Epochs = append(tm.Epochs, p.LeaderEpoch)
		}
		out = append(out, tm)
	}
	sort.Slice(out, func(i, j int) bool { return out[i].Name < out[j].Name })
	return out, nil
}

// ---- produce ----------------------------------------------------------------

var castagnoli = crc32.MakeTable(crc32.Castagnoli)

const baseTimestamp = 1_700_000_000_000

// craftBatch builds a v2 RecordBatch with n records whose values are
// "<tag>/<i>". seq/pid/epoch -1 = non-idempotent.
func craftBatch(tag string, n int, pid int64, epoch int16, seq int32, txn bool, ts int64) []byte {
	return craftBatchPad(tag, n, 0, pid, epoch, seq, txn, ts)
}

// craftBatchPad is craftBatch with pad further bytes (a fixed non-repeating
// pattern) appended to the value of the first record: batches of a chosen size.
func craftBatchPad(tag string, n, pad int, pid int64, epoch int16, seq int32, txn bool, ts int64) []byte {
	var recs []byte
	for i := 0; i < n; i++ {
		r := kmsg.Record{OffsetDelta: int32(i), Key: []byte(fmt.Sprintf("k%d", i)), Value: []byte(fmt.Sprintf("%s/%d", tag, i))}
		if i == 0 {
			for j := 0; j < pad; j++ {
				r.Value = append(r.Value, byte('A'+(j*7+j/26)%26))
			}
		}
		body := r.AppendTo(nil)
		r.Length = int32(len(body) - 1) // Length 0 encodes as one varint byte
		recs = r.AppendTo(recs)
	}
	b := kmsg.RecordBatch{
		PartitionLeaderEpoch: -1,
		Magic:                2,
		LastOffsetDelta:      int32(n - 1),
		FirstTimestamp:       ts,
		MaxTimestamp:         ts,
		ProducerID:           pid,
		ProducerEpoch:        epoch,
		FirstSequence:        seq,
		NumRecords:           int32(n),
		Records:              recs,
	}
	if txn {
		b.Attributes |= 0x0010
	}
	raw := b.AppendTo(nil)
	b.Length = int32(len(raw) - 12)
	b.CRC = int32(crc32.Checksum(raw[21:], castagnoli))
	return b.AppendTo(raw[:0])
}

func (n *node) produce(topic string, id [16]byte, part int32, txid *string, batch []byte) (code int16, base int64, err error) {
	r := kmsg.NewPtrProduceRequest()
	r.Acks = -1
	r.TimeoutMillis = 10000
	r.TransactionID = txid
	rt := kmsg.NewProduceRequestTopic()
	rt.Topic, rt.TopicID = topic, id
	rp := kmsg.NewProduceRequestTopicPartition()
	rp.Partition = part
	rp.Records = batch
	rt.Partitions = append(rt.Partitions, rp)
	r.Topics = append(r.Topics, rt)
	kr, err := n.req(r)
	if err != nil {
		return 0, 0, err
	}
	resp := kr.(*kmsg.ProduceResponse)
	if len(resp.Topics) != 1 || len(resp.Topics[0].Partitions) != 1 {
		return 0, 0, infraf("Produce: response shape %+v", resp.Topics)
	}
	p := resp.Topics[0].Partitions[0]
	return p.ErrorCode, p.BaseOffset, nil
}

func (n *node) initPID(txid *string, pid int64, epoch int16) (int64, int16, int16, error) {
	r := kmsg.NewPtrInitProducerIDRequest()
	r.TransactionalID = txid
	r.TransactionTimeoutMillis = 600000
	r.ProducerID, r.ProducerEpoch = pid, epoch
	kr, err := n.req(r)
	if err != nil {
		return 0, 0, 0, err
	}
	resp := kr.(*kmsg.InitProducerIDResponse)
	return resp.ProducerID, resp.ProducerEpoch, resp.ErrorCode, nil
}

// endTxn returns the error code and the producer epoch to use afterwards.
func (n *node) endTxn(txid string, pid int64, epoch int16, commit bool) (int16, int16, error) {
	r := kmsg.NewPtrEndTxnRequest()
	r.TransactionalID, r.ProducerID, r.ProducerEpoch, r.Commit = txid, pid, epoch, commit
	kr, err := n.req(r)
	if err != nil {
		return 0, 0, err
	}
	resp := kr.(*kmsg.EndTxnResponse)
	ne := epoch
	if resp.Version >= 5 && resp.ErrorCode == 0 {
		ne = resp.ProducerEpoch
	}
	return resp.ErrorCode, ne, nil
}

// ---- group offsets ------------------------------------------------------------

func (n *node) offsetCommit(group, topic string, id [16]byte, part int32, offset int64, meta string) (int16, error) {
	r := kmsg.NewPtrOffsetCommitRequest()
	r.Group = group
	r.Generation = -1
	rt := kmsg.NewOffsetCommitRequestTopic()
	rt.Topic, rt.TopicID = topic, id
	rp := kmsg.NewOffsetCommitRequestTopicPartition()
	rp.Partition, rp.Offset, rp.LeaderEpoch = part, offset, -1
	rp.Metadata = kmsg.StringPtr(meta)
	rt.Partitions = append(rt.Partitions, rp)
	r.Topics = append(r.Topics, rt)
	kr, err := n.req(r)
	if err != nil {
		return 0, err
	}
	resp := kr.(*kmsg.OffsetCommitResponse)
	if len(resp.Topics) != 1 || len(resp.Topics[0].Partitions) != 1 {
		return 0, infraf("OffsetCommit: response shape %+v", resp.Topics)
	}
	return resp.Topics[0].Partitions[0].ErrorCode, nil
}

func (n *node) txnOffsetCommit(txid string, pid int64, epoch int16, group, topic string, part int32, offset int64, meta string) (int16, error) {
	r := kmsg.NewPtrTxnOffsetCommitRequest()
	r.TransactionalID, r.Group, r.ProducerID, r.ProducerEpoch = txid, group, pid, epoch
	r.Generation = -1
	rt := kmsg.NewTxnOffsetCommitRequestTopic()
	rt.Topic = topic
	rp := kmsg.NewTxnOffsetCommitRequestTopicPartition()
	rp.Partition, rp.Offset, rp.LeaderEpoch = part, offset, -1
	rp.Metadata = kmsg.StringPtr(meta)
	rt.Partitions = append(rt.Partitions, rp)
	r.Topics = append(r.Topics, rt)
	kr, err := n.req(r)
	if err != nil {
		return 0, err
	}
	resp := kr.(*kmsg.TxnOffsetCommitResponse)
	if len(resp.Topics) != 1 || len(resp.Topics[0].Partitions) != 1 {
		return 0, infraf("TxnOffsetCommit: response shape %+v", resp.Topics)
	}
	return resp.Topics[0].Partitions[0].ErrorCode, nil
}

type committed struct {
	Offset  int64  `json:"offset"`
	Epoch   int32  `json:"epoch"`
	Meta    string `json:"meta"`
	HasMeta bool   `json:"has_meta"`
}

// offsetFetch returns the committed offset of one (group, topic, partition);
// ok=false means "nothing committed" (offset -1).
func (n *node) offsetFetch(group, topic string, id [16]byte, part int32) (v committed, ok bool, err error) {
	r := kmsg.NewPtrOffsetFetchRequest()
	r.Group = group
	ot := kmsg.NewOffsetFetchRequestTopic()
	ot.Topic = topic
	ot.Partitions = []int32{part}
	r.Topics = append(r.Topics, ot)
	g := kmsg.NewOffsetFetchRequestGroup()
	g.Group = group
	gt := kmsg.NewOffsetFetchRequestGroupTopic()
	gt.Topic, gt.TopicID = topic, id
	gt.Partitions = []int32{part}
	g.Topics = append(g.Topics, gt)
	r.Groups = append(r.Groups, g)
	kr, err := n.req(r)
	if err != nil {
		return v, false, err
	}
	resp := kr.(*kmsg.OffsetFetchResponse)
	var off int64
	var le int32
	var md *string
	var code int16
	if resp.Version >= 8 {
		if len(resp.Groups) != 1 {
			return v, false, infraf("OffsetFetch: %d groups in response", len(resp.Groups))
		}
		rg := resp.Groups[0]
		if rg.ErrorCode == 69 { // GROUP_ID_NOT_FOUND: the group has no state at all
			return v, false, nil
		}
		if rg.ErrorCode != 0 {
			return v, false, fmt.Errorf("OffsetFetch group %s: error code %d", group, rg.ErrorCode)
		}
		if len(rg.Topics) == 0 {
			return v, false, nil
		}
		if len(rg.Topics) != 1 || len(rg.Topics[0].Partitions) != 1 {
			return v, false, infraf("OffsetFetch: response shape %+v", rg.Topics)
		}
		p := rg.Topics[0].Partitions[0]
		off, le, md, code = p.Offset, p.LeaderEpoch, p.Metadata, p.ErrorCode
	} else {
		if resp.ErrorCode == 69 {
			return v, false, nil
		}
		if resp.ErrorCode != 0 {
			return v, false, fmt.Errorf("OffsetFetch group %s: error code %d", group, resp.ErrorCode)
		}
		if len(resp.Topics) == 0 {
			return v, false, nil
		}
		if len(resp.Topics) != 1 || len(resp.Topics[0].Partitions) != 1 {
			return v, false, infraf("OffsetFetch: response shape %+v", resp.Topics)
		}
		p := resp.Topics[0].Partitions[0]
		off, le, md, code = p.Offset, p.LeaderEpoch, p.Metadata, p.ErrorCode
	}
	if code != 0 {
		return v, false, fmt.Errorf("OffsetFetch %s %s-%d: error code %d", group, topic, part, code)
	}
	if off < 0 {
		return v, false, nil
	}
	v = committed{Offset: off, Epoch: le}
	if md != nil {
		v.Meta, v.HasMeta = *md, true
	}
	return v, true, nil
}

// ---- log readback -------------------------------------------------------------

func (n *node) listOffset(topic string, part int32, ts int64, isolation int8) (off int64, tstamp int64, epoch int32, err error) {
	r := kmsg.NewPtrListOffsetsRequest()
	r.ReplicaID = -1
	r.IsolationLevel = isolation
	rt := kmsg.NewListOffsetsRequestTopic()
	rt.Topic = topic
	rp := kmsg.NewListOffsetsRequestTopicPartition()
	rp.Partition, rp.Timestamp, rp.CurrentLeaderEpoch = part, ts, -1
	rt.Partitions = append(rt.Partitions, rp)
	r.Topics = append(r.Topics, rt)
	kr, err := n.req(r)
	if err != nil {
		return 0, 0, 0, err
	}
	resp := kr.(*kmsg.ListOffsetsResponse)
	if len(resp.Topics) != 1 || len(resp.Topics[0].Partitions) != 1 {
		return 0, 0, 0, infraf("ListOffsets: response shape %+v", resp.Topics)
	}
	p := resp.Topics[0].Partitions[0]
	if p.ErrorCode != 0 {
		return 0, 0, 0, fmt.Errorf("ListOffsets %s-%d ts=%d isolation=%d: error code %d", topic, part, ts, isolation, p.ErrorCode)
	}
	return p.Offset, p.Timestamp, p.LeaderEpoch, nil
}

type aborted struct {
	PID   int64 `json:"pid"`
	First int64 `json:"first"`
}

type fetched struct {
	HWM, LSO, LogStart int64
	Aborted            []aborted
	Raw                []byte
}

// fetch issues one sessionless Fetch for one partition (returns immediately:
// MaxWaitMillis 0).
func (n *node) fetch(topic string, id [16]byte, part int32, offset int64, isolation int8) (f fetched, err error) {
	r := kmsg.NewPtrFetchRequest()
	r.ReplicaID = -1
	r.MaxWaitMillis = 0
	r.MinBytes = 0
	r.MaxBytes = 64 << 20
	r.IsolationLevel = isolation
	r.SessionID, r.SessionEpoch = 0, -1
	rt := kmsg.NewFetchRequestTopic()
	rt.Topic, rt.TopicID = topic, id
	rp := kmsg.NewFetchRequestTopicPartition()
	rp.Partition, rp.FetchOffset, rp.CurrentLeaderEpoch, rp.LastFetchedEpoch = part, offset, -1, -1
	rp.LogStartOffset = -1
	rp.PartitionMaxBytes = 64 << 20
	rt.Partitions = append(rt.Partitions, rp)
	r.Topics = append(r.Topics, rt)
	kr, err := n.req(r)
	if err != nil {
		return f, err
	}
	resp := kr.(*kmsg.FetchResponse)
	if resp.ErrorCode != 0 {
		return f, fmt.Errorf("Fetch: top-level error code %d", resp.ErrorCode)
	}
	if len(resp.Topics) != 1 || len(resp.Topics[0].Partitions) != 1 {
		return f, infraf("Fetch: response shape %+v", resp.Topics)
	}
	p := resp.Topics[0].Partitions[0]
	if p.ErrorCode != 0 {
		return f, fmt.Errorf("Fetch %s-%d@%d isolation=%d: error code %d", topic, part, offset, isolation, p.ErrorCode)
	}
	f = fetched{HWM: p.HighWatermark, LSO: p.LastStableOffset, LogStart: p.LogStartOffset, Raw: p.RecordBatches}
	for _, a := range p.AbortedTransactions {
		f.Aborted = append(f.Aborted, aborted{a.ProducerID, a.FirstOffset})
	}
	sort.Slice(f.Aborted, func(i, j int) bool {
		if f.Aborted[i].First != f.Aborted[j].First {
			return f.Aborted[i].First < f.Aborted[j].First
		}
		return f.Aborted[i].PID < f.Aborted[j].PID
	})
	return f, nil
}

// ---- producer / transaction state --------------------------------------------

type activeProducer struct {
	PID          int64 `json:"pid"`
	Epoch        int32 `json:"epoch"`
	LastSequence int32 `json:"last_seq"`
	TxnStart     int64 `json:"txn_start_offset"`
}

func (n *node) describeProducers(topic string, part int32) ([]activeProducer, error) {
	r := kmsg.NewPtrDescribeProducersRequest()
	rt := kmsg.NewDescribeProducersRequestTopic()
	rt.Topic = topic
	rt.Partitions = []int32{part}
	r.Topics = append(r.Topics, rt)
	kr, err := n.req(r)
	if err != nil {
		return nil, err
	}
	resp := kr.(*kmsg.DescribeProducersResponse)
	if len(resp.Topics) != 1 || len(resp.Topics[0].Partitions) != 1 {
		return nil, infraf("DescribeProducers: response shape %+v", resp.Topics)
	}
	p := resp.Topics[0].Partitions[0]
	if p.ErrorCode != 0 {
		return nil, fmt.Errorf("DescribeProducers %s-%d: error code %d", topic, part, p.ErrorCode)
	}
	var out []activeProducer
	for _, a := range p.ActiveProducers {
		out = append(out, activeProducer{a.ProducerID, a.ProducerEpoch, a.LastSequence, a.CurrentTxnStartOffset})
	}
	sort.Slice(out, func(i, j int) bool { return out[i].PID < out[j].PID })
	return out, nil
}

type txnState struct {
	TxID    string   `json:"txid"`
	PID     int64    `json:"pid"`
	Epoch   int16    `json:"epoch"`
	State   string   `json:"state"`
	Timeout int32    `json:"timeout"`
	Parts   []string `json:"parts"`
}

func (n *node) transactions() ([]txnState, error) {
	lr := kmsg.NewPtrListTransactionsRequest()
	lr.DurationFilterMillis = -1
	kr, err := n.req(lr)
	if err != nil {
		return nil, err
	}
	lresp := kr.(*kmsg.ListTransactionsResponse)
	if lresp.ErrorCode != 0 {
		return nil, fmt.Errorf("ListTransactions: error code %d", lresp.ErrorCode)
	}
	dr := kmsg.NewPtrDescribeTransactionsRequest()
	for _, s := range lresp.TransactionStates {
		dr.TransactionalIDs = append(dr.TransactionalIDs, s.TransactionalID)
	}
	if len(dr.TransactionalIDs) == 0 {
		return nil, nil
	}
	sort.Strings(dr.TransactionalIDs)
	kr, err = n.req(dr)
	if err != nil {
		return nil, err
	}
	dresp := kr.(*kmsg.DescribeTransactionsResponse)
	var out []txnState
	for _, s := range dresp.TransactionStates {
		if s.ErrorCode != 0 {
			return nil, fmt.Errorf("DescribeTransactions %s: error code %d", s.TransactionalID, s.ErrorCode)
		}
		st := txnState{TxID: s.TransactionalID, PID: s.ProducerID, Epoch: s.ProducerEpoch, State: s.State, Timeout: s.TimeoutMillis}
		for _, t := range s.Topics {
			for _, p := range t.Partitions {
				st.Parts = append(st.Parts, fmt.Sprintf("%s-%d", t.Topic, p))
			}
		}
		sort.Strings(st.Parts)
		out = append(out, st)
	}
	sort.Slice(out, func(i, j int) bool { return out[i].TxID < out[j].TxID })
	return out, nil
}
