//go:build verif

// Package c33 checks property C33 "kfake persistence survives crashes at any
// write" by fault enumeration: a workload runs once against kfake persisting into
// a recording crashfs.FS; every crash state (operation-log prefix x loss of
// unsynced data per file) is then materialised from the log and kfake is restarted
// on it. See check.json for the exact space and ../crashfs for the crash model.
package c33

import (
	"bufio"
	"bytes"
	"crypto/sha256"
	"encoding/json"
	"fmt"
	"os"
	"path/filepath"
	"runtime"
	"runtime/debug"
	"sort"
	"strconv"
	"strings"
	"sync"
	"testing"

	"pgregory.net/rapid"

	"verif/h/crashfs"
	"verif/h/ev"
)

func TestMain(m *testing.M) {
	debug.SetGCPercent(400) // thousands of short-lived clusters and clients: trade memory for GC time
	ev.Main(m, "C33")
}

// ---- fixed (exhaustively enumerated) workloads ----------------------------------

func topic(name string, parts int32) Step { return Step{Op: "topic", Topic: name, Parts: parts} }
func parts(name string, n int32) Step     { return Step{Op: "parts", Topic: name, Parts: n} }
func produce(prod int, t string, p int32, n int) Step {
	return Step{Op: "produce", Prod: prod, Topic: t, Part: p, N: n}
}
func commit(g, t string, p int32, off int64) Step {
	return Step{Op: "commit", Group: g, Topic: t, Part: p, Offset: off}
}
func txcommit(prod int, g, t string, p int32, off int64) Step {
	return Step{Op: "txcommit", Prod: prod, Group: g, Topic: t, Part: p, Offset: off}
}
func end(prod int, c bool) Step { return Step{Op: "end", Prod: prod, Commit: c} }

// big: a produce whose batch is pad bytes larger (see craftBatchPad).
func big(prod int, t string, p int32, n, pad int) Step {
	return Step{Op: "produce", Prod: prod, Topic: t, Part: p, N: n, Pad: pad}
}
func cfgSet(t, key, val string) Step { return Step{Op: "cfg", Topic: t, Key: key, Val: val} }
func cfgDel(t, key string) Step      { return Step{Op: "cfg", Topic: t, Key: key, Del: true} }
func cfgLegacy(t, key, val string) Step {
	return Step{Op: "cfg", Topic: t, Key: key, Val: val, Legacy: true}
}
func cfgLegacyEmpty(t string) Step { return Step{Op: "cfg", Topic: t, Legacy: true, Del: true} }

const maxBytesKey = "max.message.bytes"

// fixedScripts are the quick-sized workloads whose whole crash space is
// enumerated. The first quickScripts of them run in the quick tier.
var fixedScripts = []Script{
	{Name: "plain-idem", Prods: []int{prodPlain, prodIdem}, Steps: []Step{
		topic("a", 2),
		produce(0, "a", 0, 2), produce(1, "a", 0, 1), produce(1, "a", 1, 3),
		commit("g", "a", 0, 1), produce(0, "a", 1, 1), commit("g", "a", 0, 3), commit("g", "a", 1, 2),
		parts("a", 3), produce(1, "a", 2, 2), produce(1, "a", 0, 1),
	}},
	{Name: "txn", Prods: []int{prodTxn, prodPlain, prodTxn}, Steps: []Step{
		topic("t", 1), topic("u", 1),
		produce(0, "t", 0, 2), produce(1, "t", 0, 1), produce(0, "u", 0, 1), txcommit(0, "tg", "t", 0, 2), end(0, true),
		produce(0, "t", 0, 1), txcommit(0, "tg", "t", 0, 3), end(0, false),
		produce(2, "t", 0, 2), commit("g", "t", 0, 4), produce(0, "u", 0, 2), end(0, true),
		produce(2, "u", 0, 1), // transaction of producer 2 stays open over the clean Close
	}},
	{Name: "roll-compact", Prods: []int{prodIdem, prodTxn}, Bcfg: map[string]string{"log.segment.bytes": "150", "state.log.compact.bytes": "400"}, Steps: []Step{
		topic("r", 1),
		produce(0, "r", 0, 2), commit("g", "r", 0, 1), produce(0, "r", 0, 2), commit("g", "r", 0, 2), commit("h", "r", 0, 1),
		produce(1, "r", 0, 1), end(1, true), produce(0, "r", 0, 3), commit("g", "r", 0, 3), commit("h", "r", 0, 2),
		produce(1, "r", 0, 1), end(1, false), commit("g", "r", 0, 5), produce(0, "r", 0, 1), commit("g", "r", 0, 6),
	}},
	{Name: "many-topics", Prods: []int{prodPlain}, Steps: []Step{
		topic("x", 1), produce(0, "x", 0, 1), topic("y", 2), produce(0, "y", 1, 1), parts("x", 2), produce(0, "x", 1, 2),
		commit("g", "y", 1, 1), topic("z", 1), produce(0, "z", 0, 1), parts("y", 3), produce(0, "y", 2, 1), commit("g", "x", 1, 2),
	}},
}

const quickScripts = 3

// ---- enumeration of loss choices ----------------------------------------------

// bytePositions lists the torn-write lengths tried for a write of L bytes.
// allBytes: every proper prefix. Otherwise every prefix of writes up to 32 bytes
// and, for longer writes, the first 24 bytes (the RecordBatch/entry header), the
// middle and the last 3.
func bytePositions(L int, allBytes bool) []int {
	var out []int
	if allBytes || L <= 32 {
		for b := 1; b < L; b++ {
			out = append(out, b)
		}
		return out
	}
	for b := 1; b <= 24; b++ {
		out = append(out, b)
	}
	out = append(out, L/2, L-3, L-2, L-1)
	return out
}

// fineCuts: every operation boundary and the torn-write lengths of every write.
func fineCuts(l *crashfs.Log, d crashfs.DirtyFile, allBytes bool) []crashfs.Cut {
	var out []crashfs.Cut
	for j := 0; j <= len(d.Pending); j++ {
		out = append(out, crashfs.Cut{Ops: j})
		if j < len(d.Pending) {
			for _, b := range bytePositions(l.WriteLen(d.Pending[j]), allBytes) {
				out = append(out, crashfs.Cut{Ops: j, Bytes: b})
			}
		}
	}
	return out
}

// coarseCuts: every operation boundary and the middle of every write.
func coarseCuts(l *crashfs.Log, d crashfs.DirtyFile) []crashfs.Cut {
	var out []crashfs.Cut
	for j := 0; j <= len(d.Pending); j++ {
		out = append(out, crashfs.Cut{Ops: j})
		if j < len(d.Pending) {
			if L := l.WriteLen(d.Pending[j]); L >= 2 {
				out = append(out, crashfs.Cut{Ops: j, Bytes: L / 2})
			}
		}
	}
	return out
}

const productCap = 400

// casesAt enumerates the loss choices of crash point k:
//   - no dirty inode: the single state;
//   - else, for every dirty inode f, all of fineCuts(f) while every other dirty
//     inode keeps everything, again while every other dirty inode drops
//     everything, and again with the lost part of f zero-filled (Cut.Zero);
//   - plus the full product of coarseCuts over all dirty inodes if that product
//     has at most productCap elements.
func casesAt(l *crashfs.Log, k int, allBytes bool) []Case {
	dirty := l.Dirty(k)
	if len(dirty) == 0 {
		return []Case{{K: k}}
	}
	seen := map[string]bool{}
	var out []Case
	add := func(cuts map[int]crashfs.Cut) {
		c := Case{K: k, Cuts: cuts}
		if s := c.String(); !seen[s] {
			seen[s] = true
			out = append(out, c)
		}
	}
	for i, f := range dirty {
		// mode 0: others keep all; 1: others drop all; 2: others keep all and the
		// lost part of f keeps its size but reads as zeroes
		for mode := 0; mode < 3; mode++ {
			for _, fc := range fineCuts(l, f, allBytes) {
				if mode == 2 {
					if fc.Ops == len(f.Pending) {
						continue
					}
					fc.Zero = true
				}
				cuts := map[int]crashfs.Cut{}
				for j, g := range dirty {
					switch {
					case j == i:
						cuts[g.Ino] = fc
					case mode != 1:
						cuts[g.Ino] = g.All()
					default:
						cuts[g.Ino] = crashfs.Cut{}
					}
				}
				add(cuts)
			}
		}
	}
	opts := make([][]crashfs.Cut, len(dirty))
	total := 1
	for i, f := range dirty {
		opts[i] = coarseCuts(l, f)
		total *= len(opts[i])
		if total > productCap {
			return out
		}
	}
	idx := make([]int, len(dirty))
	for {
		cuts := map[int]crashfs.Cut{}
		for i, f := range dirty {
			cuts[f.Ino] = opts[i][idx[i]]
		}
		add(cuts)
		i := 0
		for ; i < len(idx); i++ {
			idx[i]++
			if idx[i] < len(opts[i]) {
				break
			}
			idx[i] = 0
		}
		if i == len(idx) {
			return out
		}
	}
}

// ---- replay files ------------------------------------------------------------------

// A replay file is JSON lines. Line 1 = {"model":..., "log":..., "live":...}.
// Every further line is either a case that was started {"id":n,"case":...,
// "mode":...}, the same with "msg" (the violation that was found), or
// {"done":n}. While a workload is being explored the file is kept as "pending" so
// that a crash of the whole test process inside kfake still leaves the cases
// that were in flight on disk. A replay evaluates the case that carries a msg, or
// else every case that was started and never finished.
type replayHead struct {
	Model *Model       `json:"model"`
	Log   *crashfs.Log `json:"log"`
	Live  *Snap        `json:"live,omitempty"` // protocol-visible state right before the clean Close
}

type replayCase struct {
	ID   int    `json:"id,omitempty"`
	Case Case   `json:"case"`
	Mode string `json:"mode,omitempty"` // crash | crash+restart | clean
	Msg  string `json:"msg,omitempty"`
	Done int    `json:"done,omitempty"`
	// Log2 is the op log of the restarted process, present when Case.Then is set
	// (the order of recovery writes of different partitions is not reproducible).
	Log2 *crashfs.Log `json:"log2,omitempty"`
}

type pending struct {
	mu   sync.Mutex
	path string
	f    *os.File
	w    *bufio.Writer
	next int
}

func replayDir() string {
	if d := os.Getenv("VERIF_REPLAY_DIR"); d != "" {
		return d
	}
	return os.TempDir()
}

var pendingSeq int

func newPending(name string, h replayHead) *pending {
	dir := replayDir()
	os.MkdirAll(dir, 0o755)
	pendingSeq++
	p := &pending{path: filepath.Join(dir, fmt.Sprintf("c33-%s-pid%d-%d.jsonl", name, os.Getpid(), pendingSeq))}
	f, err := os.Create(p.path)
	if err != nil {
		return p
	}
	p.f, p.w = f, bufio.NewWriter(f)
	b, _ := json.Marshal(h)
	p.w.Write(b)
	p.w.WriteByte('\n')
	p.w.Flush()
	return p
}

func (p *pending) line(rc replayCase) {
	if p.f == nil {
		return
	}
	b, _ := json.Marshal(rc)
	p.w.Write(b)
	p.w.WriteByte('\n')
	p.w.Flush()
}

// start notes a case as in flight and returns its id.
func (p *pending) start(c Case, mode string) int {
	p.mu.Lock()
	defer p.mu.Unlock()
	p.next++
	p.line(replayCase{ID: p.next, Case: c, Mode: mode})
	return p.next
}

func (p *pending) finished(id int) {
	p.mu.Lock()
	defer p.mu.Unlock()
	p.line(replayCase{Done: id})
}

func (p *pending) violated(id int, c Case, mode, msg string, l2 *crashfs.Log) {
	p.mu.Lock()
	defer p.mu.Unlock()
	p.line(replayCase{ID: id, Case: c, Mode: mode, Msg: msg, Log2: l2})
}

// done removes the pending file (nothing failed).
func (p *pending) done() {
	p.mu.Lock()
	defer p.mu.Unlock()
	if p.f != nil {
		p.f.Close()
		os.Remove(p.path)
		p.f = nil
	}
}

func loadReplay(path string) (*replayHead, []replayCase, error) {
	raw, err := os.ReadFile(path)
	if err != nil {
		return nil, nil, err
	}
	lines := bytes.Split(bytes.TrimSpace(raw), []byte("\n"))
	if len(lines) < 2 {
		return nil, nil, fmt.Errorf("%s: not a C33 replay file (%d lines)", path, len(lines))
	}
	var h replayHead
	if err := json.Unmarshal(lines[0], &h); err != nil {
		return nil, nil, fmt.Errorf("%s: head: %v", path, err)
	}
	if h.Model == nil || h.Log == nil {
		return nil, nil, fmt.Errorf("%s: not a C33 replay file", path)
	}
	open := map[int]replayCase{}
	var order []int
	for _, ln := range lines[1:] {
		var c replayCase
		if err := json.Unmarshal(ln, &c); err != nil {
			continue // a line cut short by the death of the process
		}
		switch {
		case c.Done != 0:
			delete(open, c.Done)
		case c.Msg != "":
			return &h, []replayCase{c}, nil
		default:
			if _, ok := open[c.ID]; !ok {
				order = append(order, c.ID)
			}
			open[c.ID] = c
		}
	}
	var out []replayCase
	for _, id := range order {
		if c, ok := open[id]; ok {
			out = append(out, c)
		}
	}
	if len(out) == 0 {
		return nil, nil, fmt.Errorf("%s: no unfinished or failed case recorded", path)
	}
	return &h, out, nil
}

// ---- exploring one workload ---------------------------------------------------------

type tb interface {
	Helper()
	Fatalf(format string, a ...any)
	Logf(format string, a ...any)
}

func infra(t tb, err error) {
	t.Helper()
	fmt.Printf("VERIF-INFRA: %v\n", err)
	t.Fatalf("VERIF-INFRA: %v", err)
}

// describeCase renders the crash state for the failure message: the tail of the
// op-log prefix and what happens to every dirty file.
func describeCase(l *crashfs.Log, c Case) string {
	var b strings.Builder
	fmt.Fprintf(&b, "crash before op %d of %d; op-log prefix ends with:\n", c.K, len(l.Ops))
	for i := max(0, c.K-8); i < c.K; i++ {
		fmt.Fprintf(&b, "    %4d %s\n", i, l.Ops[i])
	}
	if c.K < len(l.Ops) {
		fmt.Fprintf(&b, "   (%4d %s  <- not executed)\n", c.K, l.Ops[c.K])
	}
	last := "before the first request (initial save of NewCluster)"
	for _, m := range l.Marks {
		if m.At <= c.K {
			last = m.Label
		}
	}
	fmt.Fprintf(&b, "  workload position: %s\n", last)
	dirty := l.Dirty(c.K)
	if len(dirty) == 0 {
		fmt.Fprintf(&b, "  no file has unsynced data\n")
	}
	for _, d := range dirty {
		cut, ok := c.Cuts[d.Ino]
		if !ok {
			cut = d.All()
		}
		fmt.Fprintf(&b, "  %s (inode %d, last sync at op %d) has %d unsynced ops %v: keep the first %d", d.Name, d.Ino, d.SyncedAt, len(d.Pending), d.Pending, cut.Ops)
		if cut.Bytes > 0 {
			fmt.Fprintf(&b, " and %d of %d bytes of the write at op %d", cut.Bytes, l.WriteLen(d.Pending[cut.Ops]), d.Pending[cut.Ops])
		}
		if cut.Zero {
			fmt.Fprintf(&b, "; the lost ops keep their size effect, their data reads as zero bytes")
		}
		fmt.Fprintf(&b, "\n")
	}
	return b.String()
}

func stateHash(fs *crashfs.FS) [32]byte {
	files := fs.Files()
	names := make([]string, 0, len(files))
	for n := range files {
		names = append(names, n)
	}
	sort.Strings(names)
	h := sha256.New()
	for _, n := range names {
		fmt.Fprintf(h, "%s\x00%d\x00", n, len(files[n]))
		h.Write(files[n])
	}
	var out [32]byte
	copy(out[:], h.Sum(nil))
	return out
}

func (m *Model) acksUpTo(k int) int {
	n := 0
	for _, a := range m.Produced {
		if a.Ack <= k {
			n++
		}
	}
	for _, h := range m.Commits {
		for _, c := range h {
			if c.Ack <= k {
				n++
			}
		}
	}
	for _, th := range m.Topics {
		for _, c := range th.Counts {
			if c.Ack <= k {
				n++
			}
		}
	}
	return n + m.cfgAcksUpTo(k)
}

// failure is what a case evaluation reports back to the test goroutine.
type failure struct {
	infra bool
	text  string
}

// explorer evaluates crash cases of one executed workload. eval may be called
// from several goroutines.
type explorer struct {
	m     *Model
	l     *crashfs.Log
	live  *Snap
	p     *pending
	shape string
	first int // op index of the first request
	// onCase, if set, is called once per evaluated (not deduplicated) crash case
	// (class counters of multi-session histories).
	onCase func(Case)

	mu   sync.Mutex
	seen map[[32]byte]int // state hash -> acknowledgements required when it was evaluated
}

func (e *explorer) violation(id int, c Case, mode string, format string, a ...any) *failure {
	msg := fmt.Sprintf(format, a...)
	e.p.violated(id, c, mode, msg, nil)
	return &failure{text: fmt.Sprintf("C33 violated (%s), workload %s\n%s%s\nreplay file: %s", mode, e.m.describe(), describeCase(e.l, c), msg, e.p.path)}
}

// violation2 reports a violation found after a second crash (during recovery).
func (e *explorer) violation2(id int, c Case, l2 *crashfs.Log, format string, a ...any) *failure {
	msg := fmt.Sprintf(format, a...)
	e.p.violated(id, c, "crash", msg, l2)
	first := c
	first.Then = nil
	return &failure{text: fmt.Sprintf("C33 violated (crash during recovery), workload %s\nFIRST %sTHEN the restarted process (its log: %d synthetic ops for the state above, then its own writes) stops again:\n%s%s\nreplay file: %s",
		e.m.describe(), describeCase(e.l, first), l2.Genesis, describeCase(l2, *c.Then), msg, e.p.path)}
}

func asFailure(err error) *failure { return &failure{infra: true, text: err.Error()} }

// eval materialises and checks one crash state; restart additionally closes the
// recovered cluster cleanly and restarts it once more.
func (e *explorer) eval(c Case, restart, second bool) *failure {
	return e.evalWith(c, restart, second, false)
}

// evalStrict is eval without the known-finding exclusion.
func (e *explorer) evalStrict(c Case, restart bool) *failure {
	return e.evalWith(c, restart, false, true)
}

// recoveryCrashes crashes the restarted process at every op of its recovery
// (ops [Genesis, recEnd) of its own log l2), with every combination of
// coarseCuts for the files it left unsynced, and checks the crash half of the
// property again: what was acknowledged before the FIRST crash must still be
// there, and the third process must start.
func (e *explorer) recoveryCrashes(c Case, l2 *crashfs.Log, recEnd int) *failure {
	for k2 := l2.Genesis + 1; k2 <= recEnd; k2++ {
		for _, c2 := range casesAt(l2, k2, false) {
			fs3 := l2.Materialize(c2.K, c2.Cuts)
			acks := e.m.acksUpTo(c.K)
			h := stateHash(fs3)
			e.mu.Lock()
			prev, ok := e.seen[h]
			if !ok || prev < acks {
				e.seen[h] = acks
			}
			e.mu.Unlock()
			if ok && prev >= acks {
				ev.Class("state_already_evaluated")
				continue
			}
			both := c
			both.Then = &c2
			id := e.p.start(both, "crash")
			ev.Case(fmt.Sprintf("%s|2nd|%s|%s", e.shape, l2.Shape(max(l2.Genesis, k2-3), k2+1), c2), true)
			ev.Class("crash_during_recovery")
			if _, err := checkCrash(e.m, fs3, c.K); err != nil {
				if isInfra(err) {
					return asFailure(err)
				}
				return e.violation2(id, both, l2, "%v", err)
			}
			e.p.finished(id)
		}
	}
	return nil
}

func (e *explorer) evalWith(c Case, restart, second, strict bool) *failure {
	if c.Then != nil {
		return asFailure(fmt.Errorf("evalWith: two-level case %s needs evalSecond", c))
	}
	fs := e.l.Materialize(c.K, c.Cuts)
	dirty := e.l.Dirty(c.K)
	tmp := false
	for name := range fs.Files() {
		tmp = tmp || strings.HasSuffix(name, ".tmp")
	}
	acks := e.m.acksUpTo(c.K)
	h := stateHash(fs)
	e.mu.Lock()
	prev, ok := e.seen[h]
	if !ok || prev < acks {
		e.seen[h] = acks
	}
	e.mu.Unlock()
	if ok && prev >= acks {
		// a byte-identical directory was already restarted with at least these
		// acknowledgements required: it would be the same run of the same oracle
		ev.Class("state_already_evaluated")
		return nil
	}

	// classification
	inside := len(dirty) > 0 || tmp
	lossy, torn, zero := false, false, false
	for _, d := range dirty {
		if cut, ok := c.Cuts[d.Ino]; ok && cut.Ops < len(d.Pending) {
			lossy = true
			torn = torn || cut.Bytes > 0
			zero = zero || cut.Zero
		}
	}
	var dg strings.Builder
	fmt.Fprintf(&dg, "%s|%s|", e.shape, e.l.Shape(max(0, c.K-3), c.K+1))
	for _, d := range dirty {
		cut, ok := c.Cuts[d.Ino]
		if !ok {
			cut = d.All()
		}
		fmt.Fprintf(&dg, "%s:%d/%d+%d%v;", filepath.Base(d.Name), cut.Ops, len(d.Pending), cut.Bytes, cut.Zero)
	}
	ev.Case(dg.String(), inside)
	switch {
	case len(dirty) == 0 && !tmp:
		ev.Class("crash_between_sequences")
	case len(dirty) == 0:
		ev.Class("crash_between_tmp_sync_and_rename")
	case torn:
		ev.Class("crash_with_torn_write")
	case lossy:
		ev.Class("crash_dropping_whole_unsynced_ops")
	default:
		ev.Class("crash_keeping_all_unsynced")
	}
	if len(dirty) >= 2 {
		ev.Class("crash_with_2plus_dirty_files")
	}
	if zero {
		ev.Class("crash_with_zero_filled_loss")
	}
	switch {
	case e.m.Sessions > 1 && c.K < e.first:
		ev.Class("crash_during_startup_of_a_later_session")
	case c.K < e.first:
		ev.Class("crash_during_initial_save")
	case c.K > e.m.CloseStart:
		ev.Class("crash_during_clean_close")
	}
	if e.m.cfgAcksUpTo(c.K) > 0 || len(e.m.CfgBase) > 0 {
		ev.Class("config_altered_before_restart")
	}
	if e.m.oversizedAt(c.K) {
		ev.Class("batch_larger_than_later_max_message_bytes")
	}
	for _, h := range e.m.Cfgs {
		for _, ca := range h {
			if ca.Sent < c.K && ca.Ack > c.K {
				ev.Class("crash_with_config_change_in_flight")
			}
		}
	}
	if e.onCase != nil {
		e.onCase(c)
	}

	mode := "crash"
	if restart {
		mode = "crash+restart"
	}
	id := e.p.start(c, mode)
	out, err := checkCrash(e.m, fs, c.K)
	if err != nil {
		if isInfra(err) {
			return asFailure(err)
		}
		return e.violation(id, c, "crash", "%v", err)
	}
	ev.ClassN("unacked_batches_lost", int64(out.lostUnacked))
	ev.ClassN("unacked_batches_kept", int64(out.keptUnacked))
	ev.ClassN("acked_create_visible(not asserted)", int64(out.createsKept))
	ev.ClassN("acked_create_lost(not asserted)", int64(out.createsLost))
	if torn && len(dirty) >= 2 {
		ev.SampleIf(func() any {
			return map[string]any{"workload": e.m.Script.Name, "case": c.String(), "ops": len(e.l.Ops), "state": strings.Split(strings.TrimSpace(describeCase(e.l, c)), "\n")}
		})
	}

	// second crash: the restarted process stops again while its recovery is
	// writing (truncating torn tails, removing temp files)
	if second && c.Then == nil {
		l2 := fs.Log()
		if stateHash(l2.Materialize(len(l2.Ops), nil)) != stateHash(fs) {
			return asFailure(fmt.Errorf("crashfs: replaying the log of a materialised file system (genesis %d, %d ops) does not reproduce it", l2.Genesis, len(l2.Ops)))
		}
		if f := e.recoveryCrashes(c, l2, out.recEnd); f != nil {
			return f
		}
	}

	if restart {
		// checkCrash closed the recovered cluster cleanly (node.stop): a restart on
		// the same directory must show the same state again
		n, err := startNode(fs, e.m.Script.Bcfg)
		if err != nil {
			if isInfra(err) {
				return asFailure(err)
			}
			return e.violation(id, c, mode, "after crash recovery and a clean Close, the next restart failed: %v", err)
		}
		s2, err := snapshot(n, e.m, false)
		n.stop()
		if err != nil {
			if isInfra(err) {
				return asFailure(err)
			}
			return e.violation(id, c, mode, "after crash recovery and a clean Close, the restarted cluster cannot be read back: %v", err)
		}
		if inflight := inFlightPIDs(out.snap); len(inflight) > 0 {
			ev.Class("crash_left_transaction_in_flight")
			if !strict && knownOpen() {
				// open finding: the producer epoch of a crash-aborted transactional id
				// is left out of the comparison (everything else is still compared)
				ev.Excluded(knownKey)
				for _, sn := range []*Snap{out.snap, s2} {
					for i := range sn.Txns {
						if inflight[sn.Txns[i].PID] {
							sn.Txns[i].Epoch = -1
						}
					}
				}
			}
		}
		if d := diffSnap(out.snap, s2); d != "" {
			return e.violation(id, c, mode, "clean Close + restart of the crash-recovered cluster does not recover the identical state: %s", d)
		}
		ev.Class("recovered_then_clean_restart_identical")
	}
	e.p.finished(id)
	return nil
}

// checkClean checks the second half of the property on the uncrashed run: a
// clean Close followed by a restart recovers the identical protocol-visible state.
func (e *explorer) checkClean() *failure {
	c := Case{K: len(e.l.Ops)}
	id := e.p.start(c, "clean")
	fs := e.l.Materialize(c.K, nil)
	n, err := startNode(fs, e.m.Script.Bcfg)
	if err != nil {
		if isInfra(err) {
			return asFailure(err)
		}
		return e.violation(id, c, "clean", "restart after a clean Close failed: %v", err)
	}
	s2, err := snapshot(n, e.m, true)
	n.stop()
	if err != nil {
		if isInfra(err) {
			return asFailure(err)
		}
		return e.violation(id, c, "clean", "the cluster restarted after a clean Close cannot be read back: %v", err)
	}
	live := e.live
	if len(e.m.CrashAborted) > 0 && knownOpen() {
		// open finding, multi-session form: a transaction was in flight when an
		// EARLIER session of this history crashed; the restart re-bumps the
		// producer epoch of exactly those producer ids. Only that epoch, only when
		// it went up, is left out of the comparison.
		live = maskRebumped(e.live, s2, e.m.CrashAborted)
	}
	if d := diffSnap(live, s2); d != "" {
		return e.violation(id, c, "clean", "clean Close + restart does not recover the identical state: %s", d)
	}
	open := 0
	for _, x := range e.live.Txns {
		if x.State == "Ongoing" {
			open++
		}
	}
	ev.Case(e.shape+"|clean", open > 0)
	ev.Class("clean_close_restart")
	if open > 0 {
		ev.Class("clean_close_with_open_transaction")
	}
	if len(e.live.Probes) > 0 {
		ev.Class("clean_close_with_idempotent_probe")
	}
	if len(e.live.Cfgs) > 0 {
		ev.Class("clean_close_with_explicit_topic_config")
	}
	if e.m.cfgAcksUpTo(c.K) > 0 || len(e.m.CfgBase) > 0 {
		ev.Class("config_altered_before_restart")
	}
	if e.m.oversizedAt(c.K) {
		ev.Class("batch_larger_than_later_max_message_bytes")
		ev.Class("clean_close_with_batch_larger_than_max_message_bytes")
	}
	if n := len(e.l.Dirty(len(e.l.Ops))); n > 0 {
		ev.ClassN("files_left_unsynced_by_clean_close(not asserted)", int64(n))
	}
	e.p.finished(id)
	return nil
}

func scriptShape(s Script) string {
	h := sha256.Sum256([]byte(s.String()))
	return fmt.Sprintf("%s-%x", s.Name, h[:6])
}

func newExplorer(name string, m *Model, l *crashfs.Log, live *Snap) *explorer {
	e := &explorer{m: m, l: l, live: live, shape: scriptShape(m.Script), seen: map[[32]byte]int{}}
	if m.Sessions > 0 {
		// a session of a multi-session history: the shape is the whole history so far
		h := sha256.Sum256([]byte(m.History))
		e.shape = fmt.Sprintf("%s-S%d-%x", m.Script.Name, m.Sessions, h[:6])
	}
	for _, mk := range l.Marks {
		e.first = mk.At
		break
	}
	e.p = newPending(name, replayHead{m, l, live})
	return e
}

func explore(t tb, s Script) *explorer {
	t.Helper()
	m, liveSnap, fs, err := run(s)
	if err != nil {
		if isInfra(err) {
			infra(t, err)
		}
		// kfake refused to start on an empty directory: the property's first clause
		ev.Replay("c33-"+s.Name+"-start.txt", fmt.Sprintf("%s\n%v", s, err))
		t.Fatalf("C33 violated: %v (workload %s)", err, s)
	}
	if n := fs.UseAfterClose(); n > 0 {
		ev.ClassN("kfake_used_a_closed_file_handle(not asserted)", int64(n))
	}
	l := fs.Log()
	ev.ClassN("oplog_ops", int64(len(l.Ops)))
	// engine self-check: replaying the whole log must reproduce the live file
	// system byte for byte
	live, again := fs.Files(), l.Materialize(len(l.Ops), nil).Files()
	if len(live) != len(again) {
		infra(t, fmt.Errorf("crashfs: replaying the log gives %d files, the live file system has %d", len(again), len(live)))
	}
	for name, data := range live {
		if other, ok := again[name]; !ok || !bytes.Equal(data, other) {
			infra(t, fmt.Errorf("crashfs: replaying the log gives a different %s (%d bytes, live %d bytes, present=%v)", name, len(other), len(data), ok))
		}
	}
	return newExplorer(s.Name, m, l, liveSnap)
}

func report(t tb, f *failure) {
	t.Helper()
	if f == nil {
		return
	}
	if f.infra {
		fmt.Printf("VERIF-INFRA: %s\n", f.text)
		t.Fatalf("VERIF-INFRA: %s", f.text)
	}
	t.Fatalf("%s", f.text)
}

// ---- tests -------------------------------------------------------------------------

func replaying() string { return os.Getenv("VERIF_REPLAY") }

type job struct {
	c       Case
	restart bool // also: clean Close of the recovered cluster + restart must be the identity
	second  bool // also: crash the recovering process at each of its own writes
}

// evalAll evaluates the generated cases on a pool of workers and returns the
// first failure.
func (e *explorer) evalAll(gen func(yield func(job) bool)) *failure {
	workers := min(runtime.GOMAXPROCS(0), 16)
	if _, nshards := ev.Shard(); nshards > 1 {
		workers = 2 // the driver already runs one process per core
	}
	if w, _ := strconv.Atoi(os.Getenv("C33_WORKERS")); w > 0 {
		workers = w
	}
	jobs := make(chan job, 4*workers)
	var (
		mu    sync.Mutex
		first *failure
		wg    sync.WaitGroup
	)
	failed := func() bool { mu.Lock(); defer mu.Unlock(); return first != nil }
	for w := 0; w < workers; w++ {
		wg.Add(1)
		go func() {
			defer wg.Done()
			for j := range jobs {
				if failed() {
					continue
				}
				if f := e.eval(j.c, j.restart, j.second); f != nil {
					mu.Lock()
					if first == nil || (first.infra && !f.infra) {
						first = f
					}
					mu.Unlock()
				}
			}
		}()
	}
	gen(func(j job) bool {
		if failed() {
			return false
		}
		jobs <- j
		return true
	})
	close(jobs)
	wg.Wait()
	return first
}

// TestEnumerate: for each fixed workload, EVERY op-log prefix x the loss choices
// of casesAt, plus the clean Close + restart comparison.
func TestEnumerate(t *testing.T) {
	if replaying() != "" {
		t.Skip("replay mode")
	}
	scripts := fixedScripts[:quickScripts]
	allBytes := false
	if ev.Thorough() {
		scripts, allBytes = fixedScripts, true
	}
	for _, s := range scripts {
		e := explore(t, s)
		report(t, e.checkClean())
		n := 0
		report(t, e.evalAll(func(yield func(job) bool) {
			for k := 0; k <= len(e.l.Ops); k++ {
				for _, c := range casesAt(e.l, k, allBytes) {
					n++
					// every third lossy state is also closed cleanly and restarted again;
					// every fifth (thorough: every) lossy state is also crashed during recovery
					lossy := len(c.Cuts) > 0
					if !yield(job{c, lossy && n%3 == 0, lossy && (ev.Thorough() || n%5 == 0)}) {
						return
					}
				}
			}
		}))
		e.p.done()
	}
	ev.Exhaustive(true)
}

// genScript draws a valid workload: every request is one the broker must accept.
func genScript(t *rapid.T) Script {
	s := Script{Name: "gen"}
	nprod := rapid.IntRange(1, 4).Draw(t, "nprod")
	for i := 0; i < nprod; i++ {
		s.Prods = append(s.Prods, rapid.IntRange(0, 2).Draw(t, "prodkind"))
	}
	switch rapid.IntRange(0, 3).Draw(t, "cfg") {
	case 1:
		s.Bcfg = map[string]string{"log.segment.bytes": fmt.Sprint(rapid.IntRange(1, 400).Draw(t, "segbytes"))}
	case 2:
		s.Bcfg = map[string]string{"state.log.compact.bytes": fmt.Sprint(rapid.IntRange(100, 900).Draw(t, "compactbytes"))}
	case 3:
		s.Bcfg = map[string]string{"log.segment.bytes": fmt.Sprint(rapid.IntRange(1, 400).Draw(t, "segbytes")), "state.log.compact.bytes": fmt.Sprint(rapid.IntRange(100, 900).Draw(t, "compactbytes"))}
	}
	names := []string{"a", "b.c", "d_e"}
	counts := map[string]int32{}
	var created []string
	inTxn := make([]bool, nprod)
	next := map[string]int64{} // commit offsets grow per key so every commit is distinguishable
	limit := map[string]int{}  // max.message.bytes the cfg steps so far leave on the topic (0: not set)
	var bigTopics []string     // topic of every padded produce so far
	nsteps := rapid.IntRange(3, 24).Draw(t, "nsteps")
	s.Steps = append(s.Steps, topic(names[0], int32(rapid.IntRange(1, 3).Draw(t, "parts0"))))
	counts[names[0]] = s.Steps[0].Parts
	created = append(created, names[0])
	pickTP := func() (string, int32) {
		tn := rapid.SampledFrom(created).Draw(t, "topic")
		return tn, int32(rapid.IntRange(0, int(counts[tn])-1).Draw(t, "part"))
	}
	for len(s.Steps) < nsteps {
		switch rapid.IntRange(0, 12).Draw(t, "op") {
		case 0:
			if len(created) < len(names) {
				n := names[len(created)]
				c := int32(rapid.IntRange(1, 3).Draw(t, "parts"))
				s.Steps = append(s.Steps, topic(n, c))
				counts[n] = c
				created = append(created, n)
			}
		case 1:
			tn := rapid.SampledFrom(created).Draw(t, "topic")
			if counts[tn] < 4 {
				counts[tn]++
				s.Steps = append(s.Steps, parts(tn, counts[tn]))
			}
		case 2, 3, 4, 5:
			p := rapid.IntRange(0, nprod-1).Draw(t, "prod")
			tn, pt := pickTP()
			st := produce(p, tn, pt, rapid.IntRange(1, 4).Draw(t, "n"))
			// about every second batch is 300..1500 bytes larger (if the topic's limit, as
			// far as the script sets one, admits it: unpadded batches stay below 256)
			if rapid.Bool().Draw(t, "padded") {
				if pad := rapid.IntRange(300, 1500).Draw(t, "pad"); limit[tn] == 0 || pad+260 <= limit[tn] {
					st.Pad = pad
					bigTopics = append(bigTopics, tn)
				}
			}
			s.Steps = append(s.Steps, st)
			if s.Prods[p] == prodTxn {
				inTxn[p] = true
			}
		case 6, 7:
			g := rapid.SampledFrom([]string{"g", "h"}).Draw(t, "group")
			tn, pt := pickTP()
			k := commitKey(g, tn, pt)
			next[k] += int64(rapid.IntRange(1, 3).Draw(t, "advance"))
			s.Steps = append(s.Steps, commit(g, tn, pt, next[k]))
		case 8:
			p := rapid.IntRange(0, nprod-1).Draw(t, "prod")
			if s.Prods[p] == prodTxn {
				g := rapid.SampledFrom([]string{"g", "tg"}).Draw(t, "group")
				tn, pt := pickTP()
				k := commitKey(g, tn, pt)
				next[k] += int64(rapid.IntRange(1, 3).Draw(t, "advance"))
				s.Steps = append(s.Steps, txcommit(p, g, tn, pt, next[k]))
				inTxn[p] = true
			}
		case 9:
			p := rapid.IntRange(0, nprod-1).Draw(t, "prod")
			if inTxn[p] {
				s.Steps = append(s.Steps, end(p, rapid.Bool().Draw(t, "commit")))
				inTxn[p] = false
			}
		case 10, 11, 12:
			// change the topic's configuration; limits never go below 256 bytes, so
			// every unpadded batch (and the oracle's post-recovery produce) still fits
			tn := rapid.SampledFrom(created).Draw(t, "topic")
			if len(bigTopics) > 0 && rapid.IntRange(0, 2).Draw(t, "ofbig") < 2 {
				// mostly a topic that holds a padded batch (the latest ones first)
				tn = bigTopics[len(bigTopics)-1-rapid.IntRange(0, len(bigTopics)-1).Draw(t, "bigtopic")]
			}
			other := [][2]string{{"retention.ms", "-1"}, {"min.insync.replicas", "1"}, {"segment.bytes", fmt.Sprint(rapid.IntRange(1, 400).Draw(t, "topicsegbytes"))}}
			switch rapid.IntRange(0, 9).Draw(t, "cfgkind") {
			case 0, 1, 2: // lower
				limit[tn] = rapid.IntRange(256, 384).Draw(t, "maxbytes")
				s.Steps = append(s.Steps, cfgSet(tn, maxBytesKey, fmt.Sprint(limit[tn])))
			case 3: // AlterConfigs: the configuration becomes exactly this limit
				limit[tn] = rapid.IntRange(256, 4096).Draw(t, "maxbytes")
				s.Steps = append(s.Steps, cfgLegacy(tn, maxBytesKey, fmt.Sprint(limit[tn])))
			case 4: // raise
				limit[tn] = rapid.IntRange(2048, 8192).Draw(t, "maxbytes")
				s.Steps = append(s.Steps, cfgSet(tn, maxBytesKey, fmt.Sprint(limit[tn])))
			case 5:
				limit[tn] = 0
				s.Steps = append(s.Steps, cfgDel(tn, maxBytesKey))
			case 6:
				limit[tn] = 0
				s.Steps = append(s.Steps, cfgLegacyEmpty(tn))
			case 7:
				limit[tn] = 0
				kv := rapid.SampledFrom(other).Draw(t, "cfgkey")
				s.Steps = append(s.Steps, cfgLegacy(tn, kv[0], kv[1]))
			case 8:
				kv := rapid.SampledFrom(other).Draw(t, "cfgkey")
				s.Steps = append(s.Steps, cfgSet(tn, kv[0], kv[1]))
			case 9:
				kv := rapid.SampledFrom(other).Draw(t, "cfgkey")
				s.Steps = append(s.Steps, cfgDel(tn, kv[0]))
			}
		}
	}
	return s
}

// dirtyPoints lists the crash points k in (lo, hi] at which some inode has
// unsynced data.
func dirtyPoints(l *crashfs.Log, lo, hi int) []int {
	var out []int
	for k := lo + 1; k <= hi; k++ {
		switch l.Ops[k-1].Kind {
		case crashfs.OpWrite, crashfs.OpTruncate:
			out = append(out, k)
		case crashfs.OpSync:
			if len(l.Dirty(k)) > 0 {
				out = append(out, k)
			}
		}
	}
	return out
}

// sampledCase turns generated numbers into the loss choice of every inode that
// is dirty at crash point k.
func sampledCase(l *crashfs.Log, k int, choices []int) Case {
	c := Case{K: k}
	for i, d := range l.Dirty(k) {
		ch := choices[i%len(choices)] + i
		var cut crashfs.Cut
		switch mode := ch % 6; mode {
		case 0:
			cut = d.All()
		case 1:
			cut = crashfs.Cut{}
		default: // 2 whole ops, 3 torn, 4 whole ops + zero-filled loss, 5 torn + zero-filled loss
			cut.Ops = (ch / 6) % len(d.Pending)
			if L := l.WriteLen(d.Pending[cut.Ops]); L >= 2 && mode%2 == 1 {
				cut.Bytes = 1 + (ch/64)%(L-1)
			}
			cut.Zero = mode >= 4
		}
		if c.Cuts == nil {
			c.Cuts = map[int]crashfs.Cut{}
		}
		c.Cuts[d.Ino] = cut
	}
	return c
}

// TestGenerated: generated workloads; crash points and loss choices are sampled.
func TestGenerated(t *testing.T) {
	if replaying() != "" {
		t.Skip("replay mode")
	}
	perWorkload := 25
	if ev.Thorough() {
		perWorkload = 60
	}
	rapid.Check(t, func(t *rapid.T) {
		s := genScript(t)
		type pick struct {
			kfrac   int
			dirty   bool
			choices []int
			restart bool
			second  bool
		}
		picks := make([]pick, perWorkload)
		for i := range picks {
			picks[i] = pick{
				kfrac:   rapid.IntRange(0, 1<<20).Draw(t, "k"),
				dirty:   rapid.IntRange(0, 3).Draw(t, "wantDirty") > 0,
				choices: rapid.SliceOfN(rapid.IntRange(0, 1<<20), 4, 4).Draw(t, "cut"),
				restart: rapid.IntRange(0, 3).Draw(t, "restart") == 0,
				second:  rapid.IntRange(0, 3).Draw(t, "second") == 0,
			}
		}
		e := explore(t, s)
		report(t, e.checkClean())
		// crash points at which some inode has unsynced data
		dirtyKs := dirtyPoints(e.l, 0, len(e.l.Ops))
		for _, p := range picks {
			k := p.kfrac % (len(e.l.Ops) + 1)
			if p.dirty && len(dirtyKs) > 0 {
				k = dirtyKs[p.kfrac%len(dirtyKs)]
			}
			report(t, e.eval(sampledCase(e.l, k, p.choices), p.restart, p.second))
		}
		e.p.done()
	})
}

// TestEnumerateGenerated (thorough tier only): the complete crash space of
// casesAt for generated workloads.
func TestEnumerateGenerated(t *testing.T) {
	if replaying() != "" {
		t.Skip("replay mode")
	}
	if !ev.Thorough() {
		t.Skip("thorough tier only")
	}
	rapid.Check(t, func(t *rapid.T) {
		e := explore(t, genScript(t))
		report(t, e.checkClean())
		n := 0
		report(t, e.evalAll(func(yield func(job) bool) {
			for k := 0; k <= len(e.l.Ops); k++ {
				for _, c := range casesAt(e.l, k, false) {
					n++
					lossy := len(c.Cuts) > 0
					if !yield(job{c, lossy && n%3 == 0, lossy && n%5 == 0}) {
						return
					}
				}
			}
		}))
		ev.Class("generated_workload_enumerated_completely")
		e.p.done()
	})
}

// TestReplay re-evaluates the case(s) of a replay file (./check C33 --replay <file>).
func TestReplay(t *testing.T) {
	path := replaying()
	if path == "" {
		t.Skip("no VERIF_REPLAY")
	}
	if hist := loadHistoryReplay(path); hist != nil {
		t.Logf("replaying history %s", hist.Name)
		if e := runHistory(t, *hist); e != nil {
			enumerateLast(t, e, false)
		}
		return
	}
	h, cases, err := loadReplay(path)
	if err != nil {
		infra(t, err)
	}
	e := newExplorer("replay", h.Model, h.Log, h.Live)
	for _, rc := range cases {
		t.Logf("replaying %s case %s of workload %s\n%s", rc.Mode, rc.Case, h.Model.Script, describeCase(h.Log, rc.Case))
		if rc.Mode == "clean" {
			if h.Live == nil {
				infra(t, fmt.Errorf("%s: clean-close case without the live snapshot", path))
			}
			report(t, e.checkClean())
			continue
		}
		if rc.Case.Then != nil {
			report(t, e.evalSecond(rc))
			continue
		}
		report(t, e.eval(rc.Case, rc.Mode == "crash+restart", false))
	}
	e.p.done()
}

// evalSecond replays a two-level case: with the recorded log of the restarted
// process if the replay file has it, else by restarting on the first-level state.
func (e *explorer) evalSecond(rc replayCase) *failure {
	first := rc.Case
	first.Then = nil
	l2 := rc.Log2
	if l2 == nil {
		fs := e.l.Materialize(first.K, first.Cuts)
		n, err := startNode(fs, e.m.Script.Bcfg)
		if err != nil {
			if isInfra(err) {
				return asFailure(err)
			}
			return e.violation(0, first, "crash", "restart failed: %v", err)
		}
		n.stop()
		l2 = fs.Log()
	}
	c2 := *rc.Case.Then
	if c2.K > len(l2.Ops) {
		return asFailure(fmt.Errorf("second-level crash point %d is beyond the restarted process's log (%d ops)", c2.K, len(l2.Ops)))
	}
	fs3 := l2.Materialize(c2.K, c2.Cuts)
	id := e.p.start(rc.Case, "crash")
	if _, err := checkCrash(e.m, fs3, first.K); err != nil {
		if isInfra(err) {
			return asFailure(err)
		}
		return e.violation2(id, rc.Case, l2, "%v", err)
	}
	e.p.finished(id)
	return nil
}
