//go:build verif

package c33

// Workload scripts, their sequential execution against a live cluster, and the
// model (acknowledgements + reference state) that the crash oracle needs. The
// model is JSON-serialisable so that a replay file is self-contained.

import (
	"fmt"
	"sort"
	"strconv"
	"strings"

	"verif/h/crashfs"
	"verif/h/ev"
)

const (
	prodPlain = 0 // no producer id
	prodIdem  = 1 // idempotent, not transactional
	prodTxn   = 2 // transactional
)

// Step is one client request of a workload.
type Step struct {
	Op     string `json:"op"` // topic | parts | produce | commit | txcommit | end | cfg
	Topic  string `json:"topic,omitempty"`
	Parts  int32  `json:"parts,omitempty"`  // topic: partition count; parts: new total count
	Part   int32  `json:"part,omitempty"`   // produce/commit/txcommit
	Prod   int    `json:"prod,omitempty"`   // produce/txcommit/end: producer index
	N      int    `json:"n,omitempty"`      // produce: records in the batch
	Group  string `json:"group,omitempty"`  // commit/txcommit
	Offset int64  `json:"offset,omitempty"` // commit/txcommit
	Commit bool   `json:"commit,omitempty"` // end: commit (true) or abort
	Pad    int    `json:"pad,omitempty"`    // produce: further bytes in the first record's value (batch size)
	// cfg: change the dynamic configuration of Topic. Legacy false:
	// IncrementalAlterConfigs SET Key=Val, or DELETE Key when Del. Legacy true:
	// AlterConfigs, the configuration becomes exactly {Key: Val} (Del: empty).
	Key    string `json:"key,omitempty"`
	Val    string `json:"val,omitempty"`
	Del    bool   `json:"del,omitempty"`
	Legacy bool   `json:"legacy,omitempty"`
}

// Script is a whole workload: producers, requests, broker configuration. It ends
// with a clean Close.
type Script struct {
	Name  string            `json:"name"`
	Prods []int             `json:"prods"` // kind of each producer
	Steps []Step            `json:"steps"`
	Bcfg  map[string]string `json:"bcfg,omitempty"`
}

func (s Script) String() string {
	out := fmt.Sprintf("%s prods=%v bcfg=%v:", s.Name, s.Prods, s.Bcfg)
	for _, st := range s.Steps {
		switch st.Op {
		case "topic":
			out += fmt.Sprintf(" topic(%s,%d)", st.Topic, st.Parts)
		case "parts":
			out += fmt.Sprintf(" parts(%s,%d)", st.Topic, st.Parts)
		case "produce":
			if st.Pad > 0 {
				out += fmt.Sprintf(" produce(p%d,%s-%d,n=%d,pad=%d)", st.Prod, st.Topic, st.Part, st.N, st.Pad)
				break
			}
			out += fmt.Sprintf(" produce(p%d,%s-%d,n=%d)", st.Prod, st.Topic, st.Part, st.N)
		case "commit":
			out += fmt.Sprintf(" commit(%s,%s-%d,%d)", st.Group, st.Topic, st.Part, st.Offset)
		case "txcommit":
			out += fmt.Sprintf(" txcommit(p%d,%s,%s-%d,%d)", st.Prod, st.Group, st.Topic, st.Part, st.Offset)
		case "end":
			out += fmt.Sprintf(" end(p%d,commit=%v)", st.Prod, st.Commit)
		case "cfg":
			out += " " + st.cfgString()
		}
	}
	return out
}

func (st Step) cfgString() string {
	switch {
	case st.Legacy && st.Del:
		return fmt.Sprintf("cfg(%s,AlterConfigs{})", st.Topic)
	case st.Legacy:
		return fmt.Sprintf("cfg(%s,AlterConfigs{%s=%s})", st.Topic, st.Key, st.Val)
	case st.Del:
		return fmt.Sprintf("cfg(%s,delete %s)", st.Topic, st.Key)
	}
	return fmt.Sprintf("cfg(%s,set %s=%s)", st.Topic, st.Key, st.Val)
}

// ---- model --------------------------------------------------------------------

type countAck struct {
	Parts int32 `json:"parts"`
	Ack   int   `json:"ack"`            // op-log length when the response was received
	Sent  int   `json:"sent,omitempty"` // op-log length when the request was sent
}

type topicHist struct {
	ID     [16]byte   `json:"id"`
	Counts []countAck `json:"counts"` // initial creation, then every CreatePartitions
}

type prodAck struct {
	Topic string `json:"topic"`
	Part  int32  `json:"part"`
	Base  int64  `json:"base"`
	N     int    `json:"n"`
	Kind  int    `json:"kind"`
	Ack   int    `json:"ack"`
	Sent  int    `json:"sent,omitempty"`
	Txn   int    `json:"txn,omitempty"`  // transactional produce: number (from 1) of its transaction within the history
	Size  int    `json:"size,omitempty"` // bytes of the batch as sent (what max.message.bytes is compared with)
}

// cfgAck is one acknowledged (or in-flight) change of a topic's dynamic
// configuration. After is the whole explicitly-set configuration of the topic
// once the request is applied (canonical form of canonCfg).
type cfgAck struct {
	What  string `json:"what"`
	After string `json:"after"`
	Ack   int    `json:"ack"`
	Sent  int    `json:"sent,omitempty"`
}

type commitAck struct {
	Offset int64  `json:"offset"`
	Meta   string `json:"meta"`
	Ack    int    `json:"ack"`
	Sent   int    `json:"sent,omitempty"` // a transactional commit takes effect with its EndTxn: Sent/Ack are the EndTxn's
	Txn    bool   `json:"txn,omitempty"`
}

type endAck struct {
	Prod   int  `json:"prod"`
	Commit bool `json:"commit"`
	Ack    int  `json:"ack"`
	Sent   int  `json:"sent,omitempty"`
	Txn    int  `json:"txn,omitempty"` // number of the transaction it ended
}

type probe struct {
	Topic string   `json:"topic"`
	ID    [16]byte `json:"id"`
	Part  int32    `json:"part"`
	Dup   []byte   `json:"dup"` // the last acknowledged batch again
	Gap   []byte   `json:"gap"` // a batch far ahead of the expected sequence
}

// Model is everything the oracle knows about one executed workload.
type Model struct {
	Script   Script                 `json:"script"`
	Topics   map[string]*topicHist  `json:"topics"`
	Produced []prodAck              `json:"produced"`
	Commits  map[string][]commitAck `json:"commits"` // "group|topic|part" -> commits in issue order
	Ends     []endAck               `json:"ends"`
	// Cfgs: topic -> configuration changes in issue order. CfgBase: topic -> the
	// explicitly-set configuration before the first of them ("" if absent). Both
	// cover what the CURRENT directory can show: at the start of a session that
	// follows a crash the history of a topic is replaced by the configuration the
	// recovered cluster shows (which the crash oracle has just accepted).
	Cfgs    map[string][]cfgAck `json:"cfgs,omitempty"`
	CfgBase map[string]string   `json:"cfg_base,omitempty"`
	// BrokerMax is message.max.bytes of the broker configuration the session runs
	// with (0: kfake's default). Used for class counters and for skipping
	// produces the broker would refuse, never for an assertion.
	BrokerMax  int                 `json:"broker_max,omitempty"`
	Ref        map[string][][]byte `json:"ref"` // "topic-part" -> batches of the uncrashed run's final log
	Probes     []probe             `json:"probes,omitempty"`
	CloseStart int                 `json:"close_start"` // op-log length when Close was called
	NOps       int                 `json:"nops"`

	// Multi-session histories (sessions_test.go). Sessions > 0: the model is the
	// union of Sessions sessions on one directory; Script holds the requests of the
	// last of them, the op indexes refer to ITS log (acknowledgements of earlier
	// sessions have index 0: required at every crash point), History describes all.
	Sessions     int     `json:"sessions,omitempty"`
	History      string  `json:"history,omitempty"`
	CrashAborted []int64 `json:"crash_aborted,omitempty"` // producer ids that had a transaction in flight at a crash recovery of an earlier session
}

// never is the acknowledgement index of a request that was in flight when an
// earlier session crashed: its effect may be visible, it is never required.
const never = 1 << 30

// describe names the workload in failure messages.
func (m *Model) describe() string {
	if m.History != "" {
		return m.History
	}
	return m.Script.String()
}

func tpKey(topic string, part int32) string { return fmt.Sprintf("%s-%d", topic, part) }

func commitKey(group, topic string, part int32) string {
	return fmt.Sprintf("%s|%s|%d", group, topic, part)
}

func splitCommitKey(k string) (group, topic string, part int32) {
	var i, j int
	for i = 0; k[i] != '|'; i++ {
	}
	for j = len(k) - 1; k[j] != '|'; j-- {
	}
	var p int
	fmt.Sscanf(k[j+1:], "%d", &p)
	return k[:i], k[i+1 : j], int32(p)
}

func (m *Model) commitKeys() []string {
	ks := make([]string, 0, len(m.Commits))
	for k := range m.Commits {
		ks = append(ks, k)
	}
	sort.Strings(ks)
	return ks
}

func (m *Model) topicNames() []string {
	ns := make([]string, 0, len(m.Topics))
	for n := range m.Topics {
		ns = append(ns, n)
	}
	sort.Strings(ns)
	return ns
}

// ---- execution ----------------------------------------------------------------

type prodState struct {
	kind   int
	txid   string
	pid    int64
	epoch  int16
	inited bool
	seq    map[string]int32 // per "topic-part", reset when the epoch changes
	staged []struct {
		key string
		c   commitAck
	}
	last  map[string][]byte // last acknowledged batch per "topic-part"
	inTxn bool              // a transaction is open (multi-session bookkeeping)
	txn   int               // number of the open transaction
}

func (p *prodState) reset() {
	p.pid, p.epoch, p.inited = -1, -1, false
	p.seq, p.last = map[string]int32{}, map[string][]byte{}
	p.staged, p.inTxn, p.txn = nil, false, 0
}

// runner executes the requests of one session against a live cluster and keeps
// the model. A single-session workload (run) uses it once on an empty
// directory; a multi-session history (sessions_test.go) calls session once per
// restart with the model and the producers carried over.
type runner struct {
	name  string
	bcfg  map[string]string
	m     *Model
	prods []*prodState
	// multi-session only
	multi   bool
	sess    int              // index of the current session
	exists  map[string]int32 // topic -> partition count the running cluster shows
	txns    int              // transactions begun so far
	skipped int              // steps skipped because an earlier crash took their target away
	// cfgNow: topic -> the explicitly-set configuration the running cluster has
	// (follows the acknowledged cfg steps; after a crash: what the recovered
	// cluster shows, see resync)
	cfgNow map[string]map[string]string
}

// kfake's default for max.message.bytes / message.max.bytes.
const defMaxMessageBytes = 1048588

func parseCfg(canon string) map[string]string {
	out := map[string]string{}
	if canon == "" {
		return out
	}
	for _, kv := range strings.Split(canon, ",") {
		k, v, _ := strings.Cut(kv, "=")
		out[k] = v
	}
	return out
}

// maxBytesOf: the produce size limit that follows from a topic's explicitly-set
// configuration and the broker-level message.max.bytes (0: default).
func maxBytesOf(topicCfg map[string]string, brokerMax int) int {
	if v, ok := topicCfg["max.message.bytes"]; ok {
		if n, err := strconv.Atoi(v); err == nil {
			return n
		}
	}
	if brokerMax > 0 {
		return brokerMax
	}
	return defMaxMessageBytes
}

func brokerMaxOf(bcfg map[string]string) int {
	n, _ := strconv.Atoi(bcfg["message.max.bytes"])
	return n
}

// cfgAt returns the explicitly-set configuration of the topic that is required
// at crash point k: the state after the last change acknowledged at index <= k.
func (m *Model) cfgAt(topic string, k int) string {
	cur := m.CfgBase[topic]
	for _, c := range m.Cfgs[topic] {
		if c.Ack <= k {
			cur = c.After
		}
	}
	return cur
}

// cfgAcksUpTo counts the configuration changes acknowledged at index <= k.
func (m *Model) cfgAcksUpTo(k int) int {
	n := 0
	for _, h := range m.Cfgs {
		for _, c := range h {
			if c.Ack <= k {
				n++
			}
		}
	}
	return n
}

// oversizedAt reports whether, at crash point k, some acknowledged batch is
// larger than the max.message.bytes then in force for its topic (the limit was
// lowered after the batch was accepted).
func (m *Model) oversizedAt(k int) bool {
	for _, a := range m.Produced {
		if a.Ack <= k && a.Size > maxBytesOf(parseCfg(m.cfgAt(a.Topic, k)), m.BrokerMax) {
			return true
		}
	}
	return false
}

func newRunner(name string, kinds []int, bcfg map[string]string) *runner {
	r := &runner{name: name, bcfg: bcfg, cfgNow: map[string]map[string]string{},
		m: &Model{Topics: map[string]*topicHist{}, Commits: map[string][]commitAck{}, Ref: map[string][][]byte{}, Cfgs: map[string][]cfgAck{}, CfgBase: map[string]string{}, BrokerMax: brokerMaxOf(bcfg)}}
	for i, k := range kinds {
		p := &prodState{kind: k, txid: fmt.Sprintf("tx-%d", i)}
		p.reset()
		r.prods = append(r.prods, p)
	}
	return r
}

func txidPtr(p *prodState) *string {
	if p.kind == prodTxn {
		return &p.txid
	}
	return nil
}

// tag makes the record values and commit metadata of every step distinct.
func (r *runner) tag(si int) string {
	if r.multi {
		return fmt.Sprintf("%s/S%ds%d", r.name, r.sess, si)
	}
	return fmt.Sprintf("%s/s%d", r.name, si)
}

// rejected: in the first session on an empty directory every request of a
// script is one the broker must accept, anything else is a harness problem. In
// a later session the same request is refused by a cluster that was restarted
// on the directory: the restart did not bring back a usable state.
func (r *runner) rejected(si int, what string, code int16) error {
	if r.sess == 0 {
		return infraf("step %d %s: error code %d", si, what, code)
	}
	return violf("session %d (after a restart on the same directory) step %d: %s is refused with error code %d", r.sess, si, what, code)
}

func (r *runner) ensure(n *node, p *prodState) error {
	if p.inited || p.kind == prodPlain {
		return nil
	}
	pid, ep, code, err := n.initPID(txidPtr(p), -1, -1)
	if err != nil {
		return err
	}
	if code != 0 {
		return r.rejected(-1, fmt.Sprintf("InitProducerID(%v)", p.txid), code)
	}
	p.pid, p.epoch, p.inited = pid, ep, true
	return nil
}

// has reports whether the running cluster shows the partition (always true in a
// single-session workload).
func (r *runner) has(topic string, part int32) bool {
	if !r.multi {
		return true
	}
	return part < r.exists[topic] && r.m.Topics[topic] != nil
}

func (r *runner) step(n *node, fs *crashfs.FS, si int, st Step) error {
	m := r.m
	sent := fs.Len()
	skip := func() error { r.skipped++; return nil }
	switch st.Op {
	case "topic":
		if r.multi && (r.exists[st.Topic] > 0 || m.Topics[st.Topic] != nil) {
			return skip()
		}
		id, code, err := n.createTopic(st.Topic, st.Parts)
		if err != nil {
			return err
		}
		if code != 0 {
			return r.rejected(si, "CreateTopics "+st.Topic, code)
		}
		m.Topics[st.Topic] = &topicHist{ID: id, Counts: []countAck{{st.Parts, fs.Len(), sent}}}
		if r.multi {
			r.exists[st.Topic] = st.Parts
		}
	case "parts":
		if r.multi && (!r.has(st.Topic, 0) || r.exists[st.Topic] >= st.Parts) {
			return skip()
		}
		code, err := n.createPartitions(st.Topic, st.Parts)
		if err != nil {
			return err
		}
		if code != 0 {
			return r.rejected(si, "CreatePartitions "+st.Topic, code)
		}
		th := m.Topics[st.Topic]
		th.Counts = append(th.Counts, countAck{st.Parts, fs.Len(), sent})
		if r.multi {
			r.exists[st.Topic] = st.Parts
		}
	case "produce":
		if !r.has(st.Topic, st.Part) {
			return skip()
		}
		p := r.prods[st.Prod]
		if err := r.ensure(n, p); err != nil {
			return err
		}
		key := tpKey(st.Topic, st.Part)
		seq := int32(-1)
		if p.kind != prodPlain {
			seq = p.seq[key]
		}
		batch := craftBatchPad(r.tag(si), st.N, st.Pad, p.pid, p.epoch, seq, p.kind == prodTxn, baseTimestamp+int64(1000*r.sess+si))
		if len(batch) > maxBytesOf(r.cfgNow[st.Topic], m.BrokerMax) {
			// the broker would (rightly) refuse it: max.message.bytes was lowered
			ev.Class("produce_not_sent_above_max_message_bytes")
			return nil
		}
		if st.Pad > 0 {
			ev.Class("produce_padded_batch")
		}
		if p.kind == prodTxn && !p.inTxn {
			r.txns++
			p.inTxn, p.txn = true, r.txns
		}
		code, base, err := n.produce(st.Topic, m.Topics[st.Topic].ID, st.Part, txidPtr(p), batch)
		if err != nil {
			return err
		}
		if code != 0 {
			return r.rejected(si, fmt.Sprintf("Produce %s kind %d (producer id %d epoch %d first sequence %d)", key, p.kind, p.pid, p.epoch, seq), code)
		}
		m.Produced = append(m.Produced, prodAck{st.Topic, st.Part, base, st.N, p.kind, fs.Len(), sent, p.txn, len(batch)})
		if p.kind != prodPlain {
			p.seq[key] = seq + int32(st.N)
			p.last[key] = batch
		}
	case "commit":
		if !r.has(st.Topic, st.Part) {
			return skip()
		}
		meta := r.tag(si)
		code, err := n.offsetCommit(st.Group, st.Topic, m.Topics[st.Topic].ID, st.Part, st.Offset, meta)
		if err != nil {
			return err
		}
		if code != 0 {
			return r.rejected(si, "OffsetCommit", code)
		}
		k := commitKey(st.Group, st.Topic, st.Part)
		m.Commits[k] = append(m.Commits[k], commitAck{Offset: st.Offset, Meta: meta, Ack: fs.Len(), Sent: sent})
	case "txcommit":
		if !r.has(st.Topic, st.Part) {
			return skip()
		}
		p := r.prods[st.Prod]
		if err := r.ensure(n, p); err != nil {
			return err
		}
		if !p.inTxn {
			r.txns++
			p.inTxn, p.txn = true, r.txns
		}
		meta := r.tag(si)
		code, err := n.txnOffsetCommit(p.txid, p.pid, p.epoch, st.Group, st.Topic, st.Part, st.Offset, meta)
		if err != nil {
			return err
		}
		if code != 0 {
			return r.rejected(si, "TxnOffsetCommit", code)
		}
		p.staged = append(p.staged, struct {
			key string
			c   commitAck
		}{commitKey(st.Group, st.Topic, st.Part), commitAck{Offset: st.Offset, Meta: meta, Txn: true}})
	case "end":
		p := r.prods[st.Prod]
		if r.multi && !p.inTxn {
			return skip()
		}
		code, ne, err := n.endTxn(p.txid, p.pid, p.epoch, st.Commit)
		if err != nil {
			return err
		}
		if code != 0 {
			return r.rejected(si, fmt.Sprintf("EndTxn commit=%v (producer id %d epoch %d)", st.Commit, p.pid, p.epoch), code)
		}
		ack := fs.Len()
		m.Ends = append(m.Ends, endAck{st.Prod, st.Commit, ack, sent, p.txn})
		if st.Commit {
			// the staged offsets take effect with the EndTxn response; if the same
			// key was staged twice the last one wins
			lastOf := map[string]int{}
			for i, sc := range p.staged {
				lastOf[sc.key] = i
			}
			for i, sc := range p.staged {
				if lastOf[sc.key] == i {
					sc.c.Ack, sc.c.Sent = ack, sent
					m.Commits[sc.key] = append(m.Commits[sc.key], sc.c)
				}
			}
		}
		p.staged, p.inTxn, p.txn = nil, false, 0
		if ne != p.epoch {
			p.epoch = ne
			p.seq = map[string]int32{}
			p.last = map[string][]byte{}
		}
	case "cfg":
		if !r.has(st.Topic, 0) {
			return skip()
		}
		next := map[string]string{}
		if !st.Legacy {
			for k, v := range r.cfgNow[st.Topic] {
				next[k] = v
			}
		}
		var code int16
		var err error
		switch {
		case st.Legacy:
			if !st.Del {
				next[st.Key] = st.Val
			}
			ev.Class("cfg_AlterConfigs_replaces_all")
			code, err = n.legacyAlterTopic(st.Topic, next)
		case st.Del:
			delete(next, st.Key)
			ev.Class("cfg_incremental_delete")
			code, err = n.incrAlterTopic(st.Topic, st.Key, nil)
		default:
			next[st.Key] = st.Val
			ev.Class("cfg_incremental_set")
			v := st.Val
			code, err = n.incrAlterTopic(st.Topic, st.Key, &v)
		}
		if err != nil {
			return err
		}
		if code != 0 {
			return r.rejected(si, st.cfgString(), code)
		}
		if st.Key == "max.message.bytes" || st.Legacy {
			was, now := maxBytesOf(r.cfgNow[st.Topic], m.BrokerMax), maxBytesOf(next, m.BrokerMax)
			switch {
			case now < was:
				ev.Class("cfg_max_message_bytes_lowered")
			case now > was:
				ev.Class("cfg_max_message_bytes_raised")
			}
		}
		m.Cfgs[st.Topic] = append(m.Cfgs[st.Topic], cfgAck{What: st.cfgString(), After: canonCfg(next), Ack: fs.Len(), Sent: sent})
		r.cfgNow[st.Topic] = next
	default:
		return infraf("unknown step %q", st.Op)
	}
	return nil
}

// session executes the steps on the running node, reads the cluster back, and
// closes it cleanly. It returns the live snapshot taken right before the Close.
func (r *runner) session(n *node, fs *crashfs.FS, steps []Step) (*Snap, error) {
	m := r.m
	stopped := false
	defer func() {
		if !stopped {
			n.stop()
		}
	}()
	for si, st := range steps {
		fs.Mark(fmt.Sprintf("step %d %s", si, st.Op))
		if err := r.step(n, fs, si, st); err != nil {
			return nil, err
		}
	}
	fs.Mark("readback")
	// Probes for non-transactional idempotent producers: both leave the broker
	// state untouched whatever the answer is.
	m.Probes = nil
	for _, p := range r.prods {
		if p.kind != prodIdem {
			continue
		}
		keys := make([]string, 0, len(p.last))
		for k := range p.last {
			keys = append(keys, k)
		}
		sort.Strings(keys)
		for _, k := range keys {
			var topic string
			var part int32
			for _, a := range m.Produced {
				if tpKey(a.Topic, a.Part) == k {
					topic, part = a.Topic, a.Part
				}
			}
			m.Probes = append(m.Probes, probe{Topic: topic, ID: m.Topics[topic].ID, Part: part, Dup: p.last[k],
				Gap: craftBatch("gap", 1, p.pid, p.epoch, p.seq[k]+1000, false, baseTimestamp)})
		}
	}
	snap, err := snapshot(n, m, true)
	if err != nil {
		if isInfra(err) {
			return nil, err
		}
		if r.sess > 0 {
			return nil, violf("session %d (after a restart on the same directory): the live cluster cannot be read back: %v", r.sess, err)
		}
		return nil, infraf("reading the live workload cluster back: %v", err)
	}
	m.Ref = map[string][][]byte{}
	for k, ps := range snap.Parts {
		m.Ref[k] = ps.Batches
	}
	// (a groups.log compaction requested by an earlier commit runs after the next
	// request the broker handles, so the readback itself may add ops: fine)
	fs.Mark("close")
	m.CloseStart = fs.Len()
	stopped = true
	n.stop()
	m.NOps = fs.Len()
	return snap, nil
}

// run executes the script on a fresh recording file system and returns the
// model, the live snapshot taken right before the clean Close, and the log.
func run(s Script) (*Model, *Snap, *crashfs.FS, error) {
	fs := crashfs.New()
	n, err := startNode(fs, s.Bcfg)
	if err != nil {
		return nil, nil, nil, fmt.Errorf("starting the workload cluster on an empty directory: %w", err)
	}
	r := newRunner(s.Name, s.Prods, s.Bcfg)
	r.m.Script = s
	snap, err := r.session(n, fs, s.Steps)
	if err != nil {
		return nil, nil, nil, err
	}
	return r.m, snap, fs, nil
}
