//go:build verif

package c33

// Workload scripts, their sequential execution against a live cluster, and the
// model (acknowledgements + reference state) that the crash oracle needs. The
// model is JSON-serialisable so that a replay file is self-contained.

import (
	"fmt"
	"sort"

	"verif/h/crashfs"
)

const (
	prodPlain = 0 // no producer id
	prodIdem  = 1 // idempotent, not transactional
	prodTxn   = 2 // transactional
)

// Step is one client request of a workload.
type Step struct {
	Op     string `json:"op"` // topic | parts | produce | commit | txcommit | end
	Topic  string `json:"topic,omitempty"`
	Parts  int32  `json:"parts,omitempty"`  // topic: partition count; parts: new total count
	Part   int32  `json:"part,omitempty"`   // produce/commit/txcommit
	Prod   int    `json:"prod,omitempty"`   // produce/txcommit/end: producer index
	N      int    `json:"n,omitempty"`      // produce: records in the batch
	Group  string `json:"group,omitempty"`  // commit/txcommit
	Offset int64  `json:"offset,omitempty"` // commit/txcommit
	Commit bool   `json:"commit,omitempty"` // end: commit (true) or abort
}

// Script is a whole workload: producers, requests, broker configuration. It ends
// with a clean Close.
type Script struct {
	Name  string            `json:"name"`
	Prods []int             `json:"prods"` // kind of each producer
	Steps []Step            `json:"steps"`
	Bcfg  map[string]string `json:"bcfg,omitempty"`
}

func (s Script) String() string {
	out := fmt.Sprintf("%s prods=%v bcfg=%v:", s.Name, s.Prods, s.Bcfg)
	for _, st := range s.Steps {
		switch st.Op {
		case "topic":
			out += fmt.Sprintf(" topic(%s,%d)", st.Topic, st.Parts)
		case "parts":
			out += fmt.Sprintf(" parts(%s,%d)", st.Topic, st.Parts)
		case "produce":
			out += fmt.Sprintf(" produce(p%d,%s-%d,n=%d)", st.Prod, st.Topic, st.Part, st.N)
		case "commit":
			out += fmt.Sprintf(" commit(%s,%s-%d,%d)", st.Group, st.Topic, st.Part, st.Offset)
		case "txcommit":
			out += fmt.Sprintf(" txcommit(p%d,%s,%s-%d,%d)", st.Prod, st.Group, st.Topic, st.Part, st.Offset)
		case "end":
			out += fmt.Sprintf(" end(p%d,commit=%v)", st.Prod, st.Commit)
		}
	}
	return out
}

// ---- model --------------------------------------------------------------------

type countAck struct {
	Parts int32 `json:"parts"`
	Ack   int   `json:"ack"` // op-log length when the response was received
}

type topicHist struct {
	ID     [16]byte   `json:"id"`
	Counts []countAck `json:"counts"` // initial creation, then every CreatePartitions
}

type prodAck struct {
	Topic string `json:"topic"`
	Part  int32  `json:"part"`
	Base  int64  `json:"base"`
	N     int    `json:"n"`
	Kind  int    `json:"kind"`
	Ack   int    `json:"ack"`
}

type commitAck struct {
	Offset int64  `json:"offset"`
	Meta   string `json:"meta"`
	Ack    int    `json:"ack"`
	Txn    bool   `json:"txn,omitempty"`
}

type endAck struct {
	Prod   int  `json:"prod"`
	Commit bool `json:"commit"`
	Ack    int  `json:"ack"`
}

type probe struct {
	Topic string   `json:"topic"`
	ID    [16]byte `json:"id"`
	Part  int32    `json:"part"`
	Dup   []byte   `json:"dup"` // the last acknowledged batch again
	Gap   []byte   `json:"gap"` // a batch far ahead of the expected sequence
}

// Model is everything the oracle knows about one executed workload.
type Model struct {
	Script     Script                 `json:"script"`
	Topics     map[string]*topicHist  `json:"topics"`
	Produced   []prodAck              `json:"produced"`
	Commits    map[string][]commitAck `json:"commits"` // "group|topic|part" -> commits in issue order
	Ends       []endAck               `json:"ends"`
	Ref        map[string][][]byte    `json:"ref"` // "topic-part" -> batches of the uncrashed run's final log
	Probes     []probe                `json:"probes,omitempty"`
	CloseStart int                    `json:"close_start"` // op-log length when Close was called
	NOps       int                    `json:"nops"`
}

func tpKey(topic string, part int32) string { return fmt.Sprintf("%s-%d", topic, part) }

func commitKey(group, topic string, part int32) string {
	return fmt.Sprintf("%s|%s|%d", group, topic, part)
}

func splitCommitKey(k string) (group, topic string, part int32) {
	var i, j int
	for i = 0; k[i] != '|'; i++ {
	}
	for j = len(k) - 1; k[j] != '|'; j-- {
	}
	var p int
	fmt.Sscanf(k[j+1:], "%d", &p)
	return k[:i], k[i+1 : j], int32(p)
}

func (m *Model) commitKeys() []string {
	ks := make([]string, 0, len(m.Commits))
	for k := range m.Commits {
		ks = append(ks, k)
	}
	sort.Strings(ks)
	return ks
}

func (m *Model) topicNames() []string {
	ns := make([]string, 0, len(m.Topics))
	for n := range m.Topics {
		ns = append(ns, n)
	}
	sort.Strings(ns)
	return ns
}

// ---- execution ----------------------------------------------------------------

type prodState struct {
	kind   int
	txid   string
	pid    int64
	epoch  int16
	inited bool
	seq    map[string]int32 // per "topic-part", reset when the epoch changes
	staged []struct {
		key string
		c   commitAck
	}
	last map[string][]byte // last acknowledged batch per "topic-part"
}

// run executes the script on a fresh recording file system and returns the
// model, the live snapshot taken right before the clean Close, and the log.
func run(s Script) (*Model, *Snap, *crashfs.FS, error) {
	fs := crashfs.New()
	n, err := startNode(fs, s.Bcfg)
	if err != nil {
		return nil, nil, nil, fmt.Errorf("starting the workload cluster on an empty directory: %w", err)
	}
	stopped := false
	defer func() {
		if !stopped {
			n.stop()
		}
	}()
	m := &Model{Script: s, Topics: map[string]*topicHist{}, Commits: map[string][]commitAck{}, Ref: map[string][][]byte{}}
	prods := make([]*prodState, len(s.Prods))
	for i, k := range s.Prods {
		prods[i] = &prodState{kind: k, txid: fmt.Sprintf("tx-%d", i), pid: -1, epoch: -1, seq: map[string]int32{}, last: map[string][]byte{}}
	}
	txidPtr := func(p *prodState) *string {
		if p.kind == prodTxn {
			return &p.txid
		}
		return nil
	}
	ensure := func(p *prodState) error {
		if p.inited || p.kind == prodPlain {
			return nil
		}
		pid, ep, code, err := n.initPID(txidPtr(p), -1, -1)
		if err != nil {
			return err
		}
		if code != 0 {
			return infraf("InitProducerID: error code %d", code)
		}
		p.pid, p.epoch, p.inited = pid, ep, true
		return nil
	}
	for si, st := range s.Steps {
		fs.Mark(fmt.Sprintf("step %d %s", si, st.Op))
		switch st.Op {
		case "topic":
			id, code, err := n.createTopic(st.Topic, st.Parts)
			if err != nil {
				return nil, nil, nil, err
			}
			if code != 0 {
				return nil, nil, nil, infraf("step %d CreateTopics %s: error code %d", si, st.Topic, code)
			}
			m.Topics[st.Topic] = &topicHist{ID: id, Counts: []countAck{{st.Parts, fs.Len()}}}
		case "parts":
			code, err := n.createPartitions(st.Topic, st.Parts)
			if err != nil {
				return nil, nil, nil, err
			}
			if code != 0 {
				return nil, nil, nil, infraf("step %d CreatePartitions %s: error code %d", si, st.Topic, code)
			}
			th := m.Topics[st.Topic]
			th.Counts = append(th.Counts, countAck{st.Parts, fs.Len()})
		case "produce":
			p := prods[st.Prod]
			if err := ensure(p); err != nil {
				return nil, nil, nil, err
			}
			key := tpKey(st.Topic, st.Part)
			seq := int32(-1)
			if p.kind != prodPlain {
				seq = p.seq[key]
			}
			batch := craftBatch(fmt.Sprintf("%s/s%d", s.Name, si), st.N, p.pid, p.epoch, seq, p.kind == prodTxn, baseTimestamp+int64(si))
			code, base, err := n.produce(st.Topic, m.Topics[st.Topic].ID, st.Part, txidPtr(p), batch)
			if err != nil {
				return nil, nil, nil, err
			}
			if code != 0 {
				return nil, nil, nil, infraf("step %d Produce %s kind %d: error code %d", si, key, p.kind, code)
			}
			m.Produced = append(m.Produced, prodAck{st.Topic, st.Part, base, st.N, p.kind, fs.Len()})
			if p.kind != prodPlain {
				p.seq[key] = seq + int32(st.N)
				p.last[key] = batch
			}
		case "commit":
			meta := fmt.Sprintf("%s/s%d", s.Name, si)
			code, err := n.offsetCommit(st.Group, st.Topic, m.Topics[st.Topic].ID, st.Part, st.Offset, meta)
			if err != nil {
				return nil, nil, nil, err
			}
			if code != 0 {
				return nil, nil, nil, infraf("step %d OffsetCommit: error code %d", si, code)
			}
			k := commitKey(st.Group, st.Topic, st.Part)
			m.Commits[k] = append(m.Commits[k], commitAck{Offset: st.Offset, Meta: meta, Ack: fs.Len()})
		case "txcommit":
			p := prods[st.Prod]
			if err := ensure(p); err != nil {
				return nil, nil, nil, err
			}
			meta := fmt.Sprintf("%s/s%d", s.Name, si)
			code, err := n.txnOffsetCommit(p.txid, p.pid, p.epoch, st.Group, st.Topic, st.Part, st.Offset, meta)
			if err != nil {
				return nil, nil, nil, err
			}
			if code != 0 {
				return nil, nil, nil, infraf("step %d TxnOffsetCommit: error code %d", si, code)
			}
			p.staged = append(p.staged, struct {
				key string
				c   commitAck
			}{commitKey(st.Group, st.Topic, st.Part), commitAck{Offset: st.Offset, Meta: meta, Txn: true}})
		case "end":
			p := prods[st.Prod]
			code, ne, err := n.endTxn(p.txid, p.pid, p.epoch, st.Commit)
			if err != nil {
				return nil, nil, nil, err
			}
			if code != 0 {
				return nil, nil, nil, infraf("step %d EndTxn commit=%v: error code %d", si, st.Commit, code)
			}
			ack := fs.Len()
			m.Ends = append(m.Ends, endAck{st.Prod, st.Commit, ack})
			if st.Commit {
				// the staged offsets take effect with the EndTxn response; if the same
				// key was staged twice the last one wins
				lastOf := map[string]int{}
				for i, sc := range p.staged {
					lastOf[sc.key] = i
				}
				for i, sc := range p.staged {
					if lastOf[sc.key] == i {
						sc.c.Ack = ack
						m.Commits[sc.key] = append(m.Commits[sc.key], sc.c)
					}
				}
			}
			p.staged = nil
			if ne != p.epoch {
				p.epoch = ne
				p.seq = map[string]int32{}
				p.last = map[string][]byte{}
			}
		default:
			return nil, nil, nil, infraf("unknown step %q", st.Op)
		}
	}
	fs.Mark("readback")
	// Probes for non-transactional idempotent producers: both leave the broker
	// state untouched whatever the answer is.
	for _, p := range prods {
		if p.kind != prodIdem {
			continue
		}
		keys := make([]string, 0, len(p.last))
		for k := range p.last {
			keys = append(keys, k)
		}
		sort.Strings(keys)
		for _, k := range keys {
			var topic string
			var part int32
			for _, a := range m.Produced {
				if tpKey(a.Topic, a.Part) == k {
					topic, part = a.Topic, a.Part
				}
			}
			m.Probes = append(m.Probes, probe{Topic: topic, ID: m.Topics[topic].ID, Part: part, Dup: p.last[k],
				Gap: craftBatch("gap", 1, p.pid, p.epoch, p.seq[k]+1000, false, baseTimestamp)})
		}
	}
	before := fs.Len()
	snap, err := snapshot(n, m, true)
	if err != nil {
		if isInfra(err) {
			return nil, nil, nil, err
		}
		return nil, nil, nil, infraf("reading the live workload cluster back: %v", err)
	}
	for k, ps := range snap.Parts {
		m.Ref[k] = ps.Batches
	}
	// (a groups.log compaction requested by an earlier commit runs after the next
	// request the broker handles, so the readback itself may add ops: fine)
	_ = before
	fs.Mark("close")
	m.CloseStart = fs.Len()
	stopped = true
	n.stop()
	m.NOps = fs.Len()
	return m, snap, fs, nil
}
