//go:build verif

package c33

// Multi-session histories: the same directory is used by 2-3 kfake processes one
// after the other. Every session but the last ends either with a clean Close
// (which writes the partition snapshots, the compacted state logs and the
// session state) or with a crash at a chosen point of its operation log followed
// by the recovery of the next session. The LAST session is explored like a
// single-session workload: every prefix of its operation log x the loss choices
// of casesAt is a crash point. The oracle is the one of the single-session check
// over the union of all sessions (acknowledgements of earlier sessions are
// required at every crash point of the last one), plus: outcomes of acknowledged
// EndTxn requests, and a new produce after the recovery.
//
// Every oracle evaluation goes through an explorer of ONE session (model so far +
// the log of that session, which starts with the synthetic fully-synced creation
// of the directory the session found), so replay files stay self-contained.

import (
	"bytes"
	"encoding/binary"
	"encoding/json"
	"fmt"
	"os"
	"sort"
	"strings"
	"testing"

	"github.com/twmb/franz-go/pkg/kmsg"
	"pgregory.net/rapid"

	"verif/h/crashfs"
	"verif/h/ev"
)

// Ending says how a session that is not the last one ends.
type Ending struct {
	Crash bool `json:"crash,omitempty"` // false: clean Close
	// Crash point: Step > 0 restricts it to the file-system operations of that
	// request (1-based index into the session's steps), else anywhere in the
	// session (startup/recovery, requests, readback, clean Close). K selects the
	// point, Dirty prefers points with unsynced data, Choices select the loss per
	// dirty file (see sampledCase).
	Step    int   `json:"step,omitempty"`
	After   bool  `json:"after,omitempty"` // with Step: right after that request was acknowledged
	K       int   `json:"k,omitempty"`
	Dirty   bool  `json:"dirty,omitempty"`
	Choices []int `json:"choices,omitempty"`
}

type Session struct {
	Steps []Step `json:"steps"`
	End   Ending `json:"end"` // ignored for the last session
	// Bcfg: broker configs that change with this session: the process is started
	// with History.Bcfg overlaid by the Bcfg of every session up to this one
	// ("" = back to kfake's default). E.g. a lower message.max.bytes than the
	// one the stored batches were accepted under.
	Bcfg map[string]string `json:"bcfg,omitempty"`
}

// sessionBcfg returns the broker configs session i is started with.
func sessionBcfg(h History, i int) map[string]string {
	var out map[string]string
	put := func(m map[string]string) {
		for k, v := range m {
			if out == nil {
				out = map[string]string{}
			}
			out[k] = v
		}
	}
	put(h.Bcfg)
	for j := 0; j <= i && j < len(h.Sessions); j++ {
		put(h.Sessions[j].Bcfg)
	}
	return out
}

// History is a sequence of sessions on one directory.
type History struct {
	Name     string            `json:"name"`
	Prods    []int             `json:"prods"`
	Bcfg     map[string]string `json:"bcfg,omitempty"`
	Sessions []Session         `json:"sessions"`
}

func stepsString(steps []Step) string {
	s := Script{Steps: steps}.String()
	return strings.TrimSpace(s[strings.Index(s, ":")+1:])
}

// ---- oracle additions for multi-session models -----------------------------------

// deliveredRC applies the consumer side of read_committed to the fetched
// batches: a transactional data batch is dropped while its producer id is in the
// set built from the AbortedTransactions list (entered at FirstOffset, left at
// that producer's abort marker). It returns the first offsets of the delivered
// data batches.
func deliveredRC(ps *PartSnap) map[int64]bool {
	ab := ps.Aborted // sorted by First
	ai := 0
	aborting := map[int64]bool{}
	out := map[int64]bool{}
	for _, b := range ps.Committed {
		first, next := batchRange(b)
		attrs := binary.BigEndian.Uint16(b[21:23])
		pid := int64(binary.BigEndian.Uint64(b[43:51]))
		for ai < len(ab) && ab[ai].First < next {
			aborting[ab[ai].PID] = true
			ai++
		}
		if attrs&0x20 != 0 {
			var rb kmsg.RecordBatch
			var r kmsg.Record
			if rb.ReadFrom(b) == nil && r.ReadFrom(rb.Records) == nil && len(r.Key) >= 4 && binary.BigEndian.Uint16(r.Key[2:4]) == 0 {
				delete(aborting, pid)
			}
			continue
		}
		if attrs&0x10 != 0 && aborting[pid] {
			continue
		}
		out[first] = true
	}
	return out
}

// checkOutcomes: the records of a transaction whose EndTxn was acknowledged at
// index <= k are delivered to a read_committed consumer iff it was a commit.
func checkOutcomes(m *Model, s *Snap, k int) error {
	// finding orphanKey: a partition that recovery left with an orphaned open
	// transaction has a stuck last stable offset; exactly those partitions are
	// left out (counted) while the finding reproduces
	orphaned := map[string]bool{}
	for _, o := range orphanedTxns(s) {
		orphaned[o[:strings.IndexByte(o, ' ')]] = true
	}
	delivered := map[string]map[int64]bool{}
	unmarked := map[string]map[int64]bool{}
	for _, e := range m.Ends {
		if e.Ack > k || e.Txn == 0 {
			continue
		}
		for _, a := range m.Produced {
			if a.Txn != e.Txn || a.Ack > k {
				continue
			}
			key := tpKey(a.Topic, a.Part)
			ps := s.Parts[key]
			if ps == nil {
				continue // reported as a lost acknowledged produce by the caller
			}
			if orphaned[key] && orphanOpen() {
				ev.Excluded(orphanKey)
				continue
			}
			if unmarked[key] == nil {
				unmarked[key] = unmarkedPIDs(ps)
			}
			if pid, ok := batchPID(ps, a.Base); ok && unmarked[key][pid] && e.Commit && markerOpen() {
				// finding markerKey: committed records behind a crash-aborted
				// transaction of the same producer id in the same partition
				ev.Excluded(markerKey)
				continue
			}
			if delivered[key] == nil {
				delivered[key] = deliveredRC(ps)
			}
			got := delivered[key][a.Base]
			ev.Class("acked_txn_outcome_checked")
			if got == e.Commit {
				continue
			}
			if e.Commit && a.Base >= ps.LSO && lsoHeldByOngoing(s, ps) {
				// not delivered YET: an earlier transaction of another producer is
				// still open (restored as Ongoing) and holds the last stable offset
				ev.Class("committed_records_behind_an_ongoing_transaction")
				continue
			}
			what := "EndTxn(commit) was acknowledged, but the records are NOT delivered to a read_committed consumer"
			if !e.Commit {
				what = "EndTxn(abort) was acknowledged, but the records ARE delivered to a read_committed consumer"
			}
			return violf("acknowledged transaction outcome lost: transaction %d produced %d records at offset %d of %s; %s after restart (last stable offset %d, log end %d, aborted transactions %+v)",
				e.Txn, a.N, a.Base, key, what, ps.LSO, ps.HWM, ps.Aborted)
		}
	}
	return nil
}

// lsoHeldByOngoing: the last stable offset of the partition is the first offset
// of a transaction without a control batch whose producer id has a transaction
// in state Ongoing.
func lsoHeldByOngoing(s *Snap, ps *PartSnap) bool {
	ongoing := map[int64]bool{}
	for _, x := range s.Txns {
		if x.State == "Ongoing" {
			ongoing[x.PID] = true
		}
	}
	open := map[int64]int64{}
	for _, b := range ps.Batches {
		attrs := binary.BigEndian.Uint16(b[21:23])
		pid := int64(binary.BigEndian.Uint64(b[43:51]))
		first, _ := batchRange(b)
		switch {
		case attrs&0x20 != 0:
			delete(open, pid)
		case attrs&0x10 != 0:
			if _, ok := open[pid]; !ok {
				open[pid] = first
			}
		}
	}
	for pid, first := range open {
		if first == ps.LSO && ongoing[pid] {
			return true
		}
	}
	return false
}

// produceAfterRecovery sends one plain record to every partition of the
// recovered cluster: it must be accepted and be assigned exactly the recovered
// log end (which the caller has already shown to be >= every acknowledged
// offset), and afterwards the log must be the recovered log plus that one batch.
// It returns the snapshot taken afterwards.
func produceAfterRecovery(n *node, m *Model, s *Snap, ackedEnd map[string]int64) (*Snap, error) {
	sent := map[string][]byte{}
	for _, t := range s.Topics {
		for p := int32(0); p < t.Parts; p++ {
			key := tpKey(t.Name, p)
			ps := s.Parts[key]
			batch := craftBatch("after-recovery/"+key, 1, -1, -1, -1, false, baseTimestamp+999_999)
			code, base, err := n.produce(t.Name, t.ID, p, nil, batch)
			if err != nil {
				return nil, err
			}
			if code != 0 {
				return nil, violf("%s: a plain produce after the recovery is refused with error code %d", key, code)
			}
			if base != ps.HWM {
				return nil, violf("%s: a produce after the recovery is assigned offset %d, but the recovered log ends at %d (acknowledged records end at %d): offsets are reused or skipped", key, base, ps.HWM, ackedEnd[key])
			}
			sent[key] = batch
			ev.Class("post_recovery_produce")
		}
	}
	s2, err := snapshot(n, m, false)
	if err != nil {
		if isInfra(err) {
			return nil, err
		}
		return nil, violf("after one produce per partition the recovered cluster cannot be read back: %v", err)
	}
	for key, batch := range sent {
		a, b := s.Parts[key], s2.Parts[key]
		if b == nil || len(b.Batches) != len(a.Batches)+1 {
			return nil, violf("%s: %d batches after the recovery, one more was produced, now the log has %d", key, len(a.Batches), len(b.Batches))
		}
		for i := range a.Batches {
			if !bytes.Equal(a.Batches[i], b.Batches[i]) {
				return nil, violf("%s: batch %d changed by a produce after the recovery: %s -> %s", key, i, describeBatch(a.Batches[i]), describeBatch(b.Batches[i]))
			}
		}
		last := b.Batches[len(a.Batches)]
		first, next := batchRange(last)
		if first != a.HWM || next != a.HWM+1 || !bytes.Equal(last[16:], batch[16:]) {
			return nil, violf("%s: the record produced after the recovery reads back as %s, expected one record at offset %d", key, describeBatch(last), a.HWM)
		}
		if b.HWM != next || b.Latest != next {
			return nil, violf("%s: log end after the post-recovery produce is %d (ListOffsets) / %d (Fetch high watermark), expected %d", key, b.Latest, b.HWM, next)
		}
	}
	return s2, nil
}

// maskRebumped returns live with the producer epoch of the given producer ids
// (ListTransactions/DescribeTransactions and DescribeProducers) replaced by the
// restarted cluster's value where that value is HIGHER (the open finding
// knownKey), counting each replacement.
func maskRebumped(live, after *Snap, pids []int64) *Snap {
	in := map[int64]bool{}
	for _, p := range pids {
		in[p] = true
	}
	cp := *live
	cp.Txns = append([]txnState(nil), live.Txns...)
	for i := range cp.Txns {
		if !in[cp.Txns[i].PID] {
			continue
		}
		for _, x := range after.Txns {
			if x.TxID == cp.Txns[i].TxID && x.PID == cp.Txns[i].PID && x.Epoch > cp.Txns[i].Epoch {
				cp.Txns[i].Epoch = x.Epoch
				ev.Excluded(knownKey)
			}
		}
	}
	cp.Parts = map[string]*PartSnap{}
	for key, ps := range live.Parts {
		cp.Parts[key] = ps
		ap := after.Parts[key]
		if ap == nil {
			continue
		}
		var prods []activeProducer
		for i, pr := range ps.Producers {
			if !in[pr.PID] {
				continue
			}
			for _, x := range ap.Producers {
				if x.PID == pr.PID && x.Epoch > pr.Epoch {
					if prods == nil {
						prods = append([]activeProducer(nil), ps.Producers...)
					}
					prods[i].Epoch = x.Epoch
					ev.Excluded(knownKey)
				}
			}
		}
		if prods != nil {
			c := *ps
			c.Producers = prods
			cp.Parts[key] = &c
		}
	}
	return &cp
}

// ---- carrying the model from one session to the next -------------------------------

// afterClean: the session ended with a clean Close; everything it was told is
// acknowledged for every crash point of later sessions.
func (r *runner) afterClean() {
	m := r.m
	for i := range m.Produced {
		m.Produced[i].Ack, m.Produced[i].Sent = 0, 0
	}
	for _, h := range m.Commits {
		for i := range h {
			if h[i].Ack != never {
				h[i].Ack, h[i].Sent = 0, 0
			}
		}
	}
	for _, th := range m.Topics {
		for i := range th.Counts {
			if th.Counts[i].Ack != never {
				th.Counts[i].Ack, th.Counts[i].Sent = 0, 0
			}
		}
	}
	for i := range m.Ends {
		m.Ends[i].Ack, m.Ends[i].Sent = 0, 0
	}
	for _, h := range m.Cfgs {
		for i := range h {
			if h[i].Ack != never {
				h[i].Ack, h[i].Sent = 0, 0
			}
		}
	}
}

// carry classifies one request of a session that crashed before op k:
// acknowledged (index becomes 0), in flight (may be visible, never required),
// or never sent (dropped from the model).
func carry(ack, sent *int, k int) bool {
	switch {
	case *ack <= k:
		*ack, *sent = 0, 0
	case *sent < k:
		*ack, *sent = never, 0
	default:
		return false
	}
	return true
}

// afterCrash: the session stopped before op k of its log.
func (r *runner) afterCrash(k int) {
	m := r.m
	var prod []prodAck
	for _, a := range m.Produced {
		if a.Ack <= k {
			a.Ack, a.Sent = 0, 0
			prod = append(prod, a)
		}
	}
	m.Produced = prod
	for key, h := range m.Commits {
		var out []commitAck
		for _, c := range h {
			if carry(&c.Ack, &c.Sent, k) {
				out = append(out, c)
			}
		}
		if len(out) == 0 {
			delete(m.Commits, key)
		} else {
			m.Commits[key] = out
		}
	}
	for name, th := range m.Topics {
		var out []countAck
		for _, c := range th.Counts {
			if carry(&c.Ack, &c.Sent, k) {
				out = append(out, c)
			}
		}
		if len(out) == 0 {
			delete(m.Topics, name)
		} else {
			th.Counts = out
		}
	}
	var ends []endAck
	for _, e := range m.Ends {
		if e.Ack <= k {
			e.Ack, e.Sent = 0, 0
			ends = append(ends, e)
		}
	}
	m.Ends = ends
	for t, h := range m.Cfgs {
		var out []cfgAck
		for _, c := range h {
			if carry(&c.Ack, &c.Sent, k) {
				out = append(out, c)
			}
		}
		if len(out) == 0 {
			delete(m.Cfgs, t)
		} else {
			m.Cfgs[t] = out
		}
	}
}

// resync runs right after the restart that begins session r.sess: it learns
// which topics the cluster shows and decides how the producers go on. After a
// crash every producer starts over (idempotent: new producer id; transactional:
// InitProducerID with its transactional id). After a clean Close every producer
// continues with its producer id, epoch, sequence numbers and open transaction:
// the restart must have brought back identical producer and transaction state.
func (r *runner) resync(n *node, crashed bool) (*Snap, error) {
	s, err := snapshot(n, r.m, false)
	if err != nil {
		if isInfra(err) {
			return nil, err
		}
		return nil, violf("session %d: the restarted cluster cannot be read back: %v", r.sess, err)
	}
	r.exists = map[string]int32{}
	for _, t := range s.Topics {
		r.exists[t.Name] = t.Parts
	}
	// Every produce the model still holds was acknowledged before the previous
	// session ended (clean Close: all of them; crash: afterCrash kept those
	// acknowledged before the crash point). The check of the previous session has
	// seen them survive a restart with ITS broker configs; this process may have
	// been started with different ones (Session.Bcfg), and they must be there
	// just the same.
	for _, a := range r.m.Produced {
		key := tpKey(a.Topic, a.Part)
		ps := s.Parts[key]
		if ps == nil || ps.HWM < a.Base+int64(a.N) {
			end := int64(-1)
			if ps != nil {
				end = ps.HWM
			}
			return nil, violf("acknowledged produce lost: session %d starts on the directory the previous session left (crashed=%v) with broker configs %v: %s ends at %d, but a produce of %d records (batch of %d bytes) at offset %d was acknowledged before (log end must be >= %d; explicitly set topic configuration now {%s})",
				r.sess, crashed, r.bcfg, key, end, a.N, a.Size, a.Base, a.Base+int64(a.N), s.Cfgs[a.Topic])
		}
	}
	if crashed {
		// the crash oracle has just accepted what this directory shows as topic
		// configuration (acknowledged changes are there, a change in flight at the
		// crash may or may not be): from here on that IS the configuration, later
		// sessions change it further
		for _, t := range s.Topics {
			delete(r.m.Cfgs, t.Name)
			delete(r.m.CfgBase, t.Name)
			if c := s.Cfgs[t.Name]; c != "" {
				r.m.CfgBase[t.Name] = c
			}
			r.cfgNow[t.Name] = parseCfg(s.Cfgs[t.Name])
		}
	} else {
		for _, t := range s.Topics {
			if want := canonCfg(r.cfgNow[t.Name]); s.Cfgs[t.Name] != want {
				return nil, violf("session %d (restart after a clean Close, broker configs %v): topic %q shows the explicitly set configuration {%s}, before the Close it was {%s}", r.sess, r.bcfg, t.Name, s.Cfgs[t.Name], want)
			}
		}
	}
	if crashed {
		seen := map[int64]bool{}
		for _, pid := range r.m.CrashAborted {
			seen[pid] = true
		}
		for pid := range inFlightPIDs(s) {
			if !seen[pid] {
				r.m.CrashAborted = append(r.m.CrashAborted, pid)
			}
		}
		sort.Slice(r.m.CrashAborted, func(i, j int) bool { return r.m.CrashAborted[i] < r.m.CrashAborted[j] })
		for _, p := range r.prods {
			if p.inited {
				ev.Class("producer_reinitialised_after_crash")
			}
			p.reset()
		}
		return s, nil
	}
	for _, p := range r.prods {
		if !p.inited {
			continue
		}
		ev.Class("producer_continues_over_clean_close")
		if p.inTxn {
			ev.Class("transaction_continues_over_clean_close")
		}
	}
	if len(r.m.CrashAborted) > 0 && knownOpen() {
		// open finding knownKey: this restart re-bumped the epoch of a producer id
		// whose transaction was in flight at an EARLIER crash of this history. A
		// client holding the epoch it was given before the clean Close would be
		// fenced; exactly those producers start over instead of continuing.
		in := map[int64]bool{}
		for _, pid := range r.m.CrashAborted {
			in[pid] = true
		}
		for _, p := range r.prods {
			if p.kind != prodTxn || !p.inited || !in[p.pid] {
				continue
			}
			for _, x := range s.Txns {
				if x.TxID == p.txid && x.PID == p.pid && x.Epoch > p.epoch {
					ev.Excluded(knownKey)
					p.reset()
				}
			}
		}
	}
	return s, nil
}

// ---- running a history -------------------------------------------------------------

// historyFail is a violation found outside an explorer (a request refused after a
// restart, a later session that cannot be read back).
func historyFail(t tb, h History, desc string, err error) {
	t.Helper()
	if isInfra(err) {
		infra(t, err)
	}
	raw, _ := json.Marshal(historyReplay{History: &h})
	path := ev.Replay("c33-history-"+h.Name+".jsonl", fmt.Sprintf("%s\n%s\n%v", raw, desc, err))
	t.Fatalf("C33 violated: %v\nhistory %s\nreplay file: %s", err, desc, path)
}

// historyReplay is line 1 of the replay file of a violation found while a
// history was being executed (not at a crash case of one session): the replay
// executes the history again and enumerates its last session.
type historyReplay struct {
	History *History `json:"history"`
}

func loadHistoryReplay(path string) *History {
	raw, err := os.ReadFile(path)
	if err != nil {
		return nil
	}
	line, _, _ := bytes.Cut(raw, []byte("\n"))
	var hr historyReplay
	if json.Unmarshal(line, &hr) != nil || hr.History == nil || len(hr.History.Sessions) == 0 {
		return nil
	}
	return hr.History
}

// segmentAppends classifies what a session did to the segment files it found:
// appendAt = index of the first write that extends a non-empty *.dat file that
// existed when the session started (-1: none), rolled = a new *.dat was created
// next to an existing one.
func segmentAppends(l *crashfs.Log) (appendAt int, rolled bool) {
	pre := map[string]int{}
	dirs := map[string]bool{}
	for i := 0; i < l.Genesis; i++ {
		o := &l.Ops[i]
		if !strings.HasSuffix(o.Path, ".dat") {
			continue
		}
		if o.Kind == crashfs.OpOpen {
			pre[o.Path] = 0
			dirs[o.Path[:strings.LastIndexByte(o.Path, '/')]] = true
		} else if o.Kind == crashfs.OpWrite {
			pre[o.Path] = len(o.Data)
		}
	}
	appendAt = -1
	for i := l.Genesis; i < len(l.Ops); i++ {
		o := &l.Ops[i]
		if !strings.HasSuffix(o.Path, ".dat") {
			continue
		}
		if o.Kind == crashfs.OpWrite && pre[o.Path] > 0 && o.Pos >= int64(pre[o.Path]) && appendAt < 0 {
			appendAt = i
		}
		if o.Kind == crashfs.OpOpen && o.Created && dirs[o.Path[:strings.LastIndexByte(o.Path, '/')]] {
			rolled = true
		}
	}
	return appendAt, rolled
}

// endingCase turns the Ending of a session into a crash case of its log.
func endingCase(l *crashfs.Log, nsteps int, e Ending) Case {
	lo, hi := l.Genesis, len(l.Ops)
	if e.Step > 0 && e.Step <= nsteps {
		// marks: one per step, then "readback", then "close"
		for i, mk := range l.Marks {
			if i == e.Step-1 {
				lo = mk.At
			}
			if i == e.Step {
				hi = mk.At
			}
		}
	}
	k := lo
	if hi > lo {
		k = lo + 1 + e.K%(hi-lo)
	}
	if e.After {
		k = hi
	}
	if e.Dirty && !e.After {
		if ds := dirtyPoints(l, lo, hi); len(ds) > 0 {
			k = ds[e.K%len(ds)]
		}
	}
	ch := e.Choices
	if len(ch) == 0 {
		ch = []int{0}
	}
	return sampledCase(l, k, ch)
}

// runHistory executes the history up to and including the uncrashed run of its
// last session and returns the explorer of that last session. Every earlier
// session is checked on the way: a clean Close + restart must be the identity,
// a crash state must pass the crash oracle.
//
// It returns nil when the history was abandoned because an earlier crash put the
// directory into the state of the finding orphanKey (counted, see orphan_test.go).
func runHistory(t tb, h History) *explorer { return runHistoryOpt(t, h, false) }

func runHistoryOpt(t tb, h History, strict bool) *explorer {
	t.Helper()
	if !strict {
		orphanOpen() // settle the witnesses before any worker goroutine asks
		tailOpen()
		markerOpen()
	}
	r := newRunner(h.Name, h.Prods, h.Bcfg)
	r.multi = true
	r.exists = map[string]int32{}
	fs := crashfs.New()
	desc := fmt.Sprintf("%s prods=%v bcfg=%v:", h.Name, h.Prods, h.Bcfg)
	crashed := false
	ev.Class(fmt.Sprintf("history_with_%d_sessions", len(h.Sessions)))
	switch _, seg := h.Bcfg["log.segment.bytes"]; {
	case seg && h.Bcfg["state.log.compact.bytes"] != "":
		ev.Class("history_small_segments_and_state_log_compaction")
	case seg:
		ev.Class("history_small_segments")
	case h.Bcfg["state.log.compact.bytes"] != "":
		ev.Class("history_state_log_compaction")
	default:
		ev.Class("history_default_sizes(no roll, no compaction)")
	}
	for i, s := range h.Sessions {
		last := i == len(h.Sessions)-1
		r.sess = i
		bcfg := sessionBcfg(h, i)
		sdesc := fmt.Sprintf("%s\n  session %d [%s]", desc, i, stepsString(s.Steps))
		if len(s.Bcfg) > 0 {
			sdesc = fmt.Sprintf("%s\n  session %d (started with broker configs %v) [%s]", desc, i, bcfg, stepsString(s.Steps))
			ev.Class("session_starts_with_changed_broker_configs")
		}
		if i > 0 {
			was, now := maxBytesOf(nil, brokerMaxOf(sessionBcfg(h, i-1))), maxBytesOf(nil, brokerMaxOf(bcfg))
			switch {
			case now < was:
				ev.Class("session_starts_with_lower_broker_message_max_bytes")
			case now > was:
				ev.Class("session_starts_with_higher_broker_message_max_bytes")
			}
		}
		r.bcfg = bcfg
		n, err := startNode(fs, bcfg)
		if err != nil {
			if isInfra(err) {
				infra(t, err)
			}
			if i == 0 {
				ev.Replay("c33-"+h.Name+"-start.txt", fmt.Sprintf("%s\n%v", sdesc, err))
				t.Fatalf("C33 violated: starting the workload cluster on an empty directory: %v (history %s)", err, sdesc)
			}
			if len(s.Bcfg) > 0 {
				// same directory, other broker configs than in the check of the previous session
				historyFail(t, h, sdesc, violf("session %d: restart on the directory the previous session left fails with broker configs %v: %v", i, bcfg, err))
			}
			// the same state started once already in the check of the previous session
			infra(t, fmt.Errorf("session %d: restart failed although the same directory state restarted before: %v", i, err))
		}
		if i > 0 {
			s0, err := r.resync(n, crashed)
			if err != nil {
				n.stop()
				historyFail(t, h, sdesc, err)
			}
			if orph := orphanedTxns(s0); crashed && len(orph) > 0 {
				ev.Class("crash_recovery_leaves_orphaned_open_transaction")
				if !strict && orphanOpen() {
					// finding orphanKey: nothing further is generated on this directory
					ev.Excluded(orphanKey)
					n.stop()
					return nil
				}
			}
		}
		r.m.Script = Script{Name: h.Name, Prods: h.Prods, Steps: s.Steps, Bcfg: bcfg}
		r.m.BrokerMax = brokerMaxOf(bcfg)
		r.m.Sessions = i + 1
		r.m.History = sdesc + " -> (this session: every crash point / clean Close)"
		skippedBefore := r.skipped
		live, err := r.session(n, fs, s.Steps)
		if err != nil {
			historyFail(t, h, sdesc, err)
		}
		ev.ClassN("step_skipped_target_lost_in_earlier_crash", int64(r.skipped-skippedBefore))
		if u := fs.UseAfterClose(); u > 0 {
			ev.ClassN("kfake_used_a_closed_file_handle(not asserted)", int64(u))
		}
		l := fs.Log()
		ev.ClassN("oplog_ops", int64(len(l.Ops)-l.Genesis))
		if stateHash(l.Materialize(len(l.Ops), nil)) != stateHash(fs) {
			infra(t, fmt.Errorf("crashfs: replaying the log of session %d (genesis %d, %d ops) does not reproduce the live file system", i, l.Genesis, len(l.Ops)))
		}
		appendAt, rolled := -1, false
		if i > 0 {
			appendAt, rolled = segmentAppends(l)
			switch {
			case !crashed && appendAt >= 0:
				ev.Class("session_after_clean_close_appends_to_same_segment(no roll)")
			case crashed && appendAt >= 0:
				ev.Class("session_after_crash_appends_to_same_segment(no roll)")
			}
			if rolled {
				ev.Class("session_rolls_a_segment_found_at_startup")
			}
		}
		e := newExplorer(h.Name, r.m, l, live)
		if last {
			prevClean := i > 0 && !crashed
			e.onCase = func(c Case) {
				if appendAt >= 0 && c.K > appendAt {
					if prevClean {
						ev.Class("crash_after_append_to_segment_listed_in_snapshot_of_clean_close")
					} else {
						ev.Class("crash_after_append_to_segment_recovered_from_crash")
					}
				}
			}
			return e
		}
		if !s.End.Crash {
			report(t, e.checkClean())
			ev.Class("earlier_session_ends_with_clean_close")
			fs = l.Materialize(len(l.Ops), nil)
			r.afterClean()
			crashed = false
			desc = sdesc + " -> clean Close"
		} else {
			c := endingCase(l, len(s.Steps), s.End)
			report(t, e.eval(c, false, false))
			if bad := corruptStateLogTails(l.Materialize(c.K, c.Cuts)); len(bad) > 0 {
				ev.Class("earlier_session_crash_tears_state_log_entry")
				if !strict && tailOpen() {
					// finding tailKey: the next session is not run on a directory whose
					// groups.log/pids.log ends in a torn entry; the same crash point is
					// continued with that entry lost completely instead
					ev.Excluded(tailKey)
					c = withoutTornStateLog(l, c)
					if len(corruptStateLogTails(l.Materialize(c.K, c.Cuts))) > 0 {
						e.p.done()
						return nil
					}
					report(t, e.eval(c, false, false))
				}
			}
			ev.Class("earlier_session_ends_with_crash")
			switch {
			case c.K <= e.first:
				ev.Class("earlier_session_crash_during_startup_or_recovery")
			case c.K > r.m.CloseStart:
				ev.Class("earlier_session_crash_during_clean_close")
			default:
				ev.Class("earlier_session_crash_during_requests")
			}
			if len(c.Cuts) > 0 {
				ev.Class("earlier_session_crash_with_unsynced_data")
			}
			fs = l.Materialize(c.K, c.Cuts)
			r.afterCrash(c.K)
			crashed = true
			where := "before the first request"
			for _, mk := range l.Marks {
				if mk.At < c.K {
					where = mk.Label
				}
			}
			desc = fmt.Sprintf("%s -> CRASH %s (in/after %q)", sdesc, c, where)
		}
		e.p.done()
	}
	panic("unreachable: history without sessions")
}

// ---- fixed histories -----------------------------------------------------------------

// torn: a crash inside the given step at a point with unsynced data; the first
// dirty file keeps a torn write (sampledCase mode 3), the second drops
// everything, the third keeps whole ops with zero-filled loss.
func torn(step, k int) Ending {
	return Ending{Crash: true, Step: step, K: k, Dirty: true, Choices: []int{3 + 6*64*2, 0, 2 + 6*64*2, 5 + 6*64}}
}

var fixedHistories = []History{
	// clean Close, then more acknowledged records into the SAME segment files
	// (default sizes: nothing rolls, nothing compacts), then the crash points
	{Name: "close-append", Prods: []int{prodPlain, prodIdem}, Sessions: []Session{
		{Steps: []Step{topic("a", 2), produce(0, "a", 0, 2), produce(1, "a", 0, 1), produce(1, "a", 1, 2), commit("g", "a", 0, 1)}},
		{Steps: []Step{produce(0, "a", 0, 2), produce(1, "a", 0, 1), commit("g", "a", 0, 3), parts("a", 3), produce(1, "a", 2, 1), produce(0, "a", 1, 1)}},
	}},
	// transactions left open over a clean Close and continued; the second session
	// crashes inside a produce with a transaction in flight; third session
	{Name: "txn-close-crash", Prods: []int{prodTxn, prodPlain, prodTxn}, Sessions: []Session{
		{Steps: []Step{topic("t", 1), topic("u", 1), produce(0, "t", 0, 2), txcommit(0, "tg", "t", 0, 2), end(0, true),
			produce(0, "t", 0, 1), produce(2, "u", 0, 1), produce(1, "t", 0, 1)}},
		{Steps: []Step{produce(0, "t", 0, 1), end(0, true), end(2, false), produce(1, "u", 0, 2), produce(2, "u", 0, 1), produce(1, "t", 0, 1)}, End: torn(6, 1)},
		{Steps: []Step{produce(0, "t", 0, 1), txcommit(0, "tg", "t", 0, 5), end(0, true), produce(1, "u", 0, 1), commit("g", "u", 0, 2), produce(2, "t", 0, 1)}},
	}},
	// small segments and state-log compaction; crash, recovery + clean Close, crash points
	{Name: "crash-close-roll", Prods: []int{prodIdem, prodTxn}, Bcfg: map[string]string{"log.segment.bytes": "150", "state.log.compact.bytes": "400"}, Sessions: []Session{
		{Steps: []Step{topic("r", 1), produce(0, "r", 0, 2), commit("g", "r", 0, 1), produce(0, "r", 0, 2), commit("g", "r", 0, 2), produce(1, "r", 0, 1)}, End: torn(6, 2)},
		{Steps: []Step{produce(0, "r", 0, 1), commit("h", "r", 0, 1), produce(1, "r", 0, 1), end(1, true), commit("g", "r", 0, 4)}},
		{Steps: []Step{produce(0, "r", 0, 2), commit("g", "r", 0, 5), produce(1, "r", 0, 1), end(1, false), commit("h", "r", 0, 2), produce(0, "r", 0, 1)}},
	}},
	// the second session writes to one partition only: after its crash the other
	// partitions are recovered from the snapshots of the clean Close
	{Name: "untouched-partition", Prods: []int{prodPlain, prodTxn}, Sessions: []Session{
		{Steps: []Step{topic("p", 2), produce(0, "p", 0, 2), produce(0, "p", 1, 2), produce(1, "p", 1, 1), commit("g", "p", 1, 1)}},
		{Steps: []Step{produce(0, "p", 0, 1), commit("g", "p", 0, 2), produce(0, "p", 0, 2), end(1, true), produce(0, "p", 1, 1)}},
	}},
	// every batch rolls the segment: clean Close, then the crash points
	{Name: "close-roll-each", Prods: []int{prodPlain, prodIdem}, Bcfg: map[string]string{"log.segment.bytes": "1"}, Sessions: []Session{
		{Steps: []Step{topic("s", 1), produce(0, "s", 0, 1), produce(1, "s", 0, 2)}},
		{Steps: []Step{produce(1, "s", 0, 1), produce(0, "s", 0, 1), commit("g", "s", 0, 3)}},
	}},
	// two crashes in a row, state-log compaction only
	{Name: "crash-crash", Prods: []int{prodPlain, prodTxn}, Bcfg: map[string]string{"state.log.compact.bytes": "300"}, Sessions: []Session{
		{Steps: []Step{topic("c", 1), produce(0, "c", 0, 1), commit("g", "c", 0, 1), produce(1, "c", 0, 1), txcommit(1, "g", "c", 0, 2), end(1, true), commit("h", "c", 0, 1)}, End: torn(6, 3)},
		{Steps: []Step{produce(0, "c", 0, 2), commit("g", "c", 0, 3), produce(1, "c", 0, 1), commit("h", "c", 0, 2)}, End: Ending{Crash: true, Step: 4, K: 5, Dirty: true, Choices: []int{1, 0, 3, 2}}},
		{Steps: []Step{produce(0, "c", 0, 1), commit("g", "c", 0, 4), produce(1, "c", 0, 1), end(1, true)}},
	}},
}

const quickHistories = 4

// enumerateLast evaluates every crash point of the last session.
func enumerateLast(t tb, e *explorer, allBytes bool) {
	t.Helper()
	report(t, e.checkClean())
	n := 0
	report(t, e.evalAll(func(yield func(job) bool) {
		for k := e.l.Genesis; k <= len(e.l.Ops); k++ {
			for _, c := range casesAt(e.l, k, allBytes) {
				n++
				lossy := len(c.Cuts) > 0
				if !yield(job{c, lossy && n%3 == 0, lossy && (allBytes || n%5 == 0)}) {
					return
				}
			}
		}
	}))
	e.p.done()
}

// TestSessions: the fixed histories; EVERY op-log prefix of the last session x the
// loss choices of casesAt.
func TestSessions(t *testing.T) {
	if replaying() != "" {
		t.Skip("replay mode")
	}
	hs, allBytes := fixedHistories[:quickHistories], false
	if ev.Thorough() {
		hs, allBytes = fixedHistories, true
	}
	for _, h := range hs {
		e := runHistory(t, h)
		if e == nil {
			// a fixed history is written so that it does not run into the excluded class
			infra(t, fmt.Errorf("fixed history %s was abandoned (finding %s)", h.Name, orphanKey))
		}
		enumerateLast(t, e, allBytes)
	}
	ev.Exhaustive(true)
}

// genHistory draws a valid workload (genScript) and cuts it into 2-3 sessions.
func genHistory(t *rapid.T) History {
	s := genScript(t)
	h := History{Name: "hist", Prods: s.Prods, Bcfg: s.Bcfg}
	nsess := 2
	if len(s.Steps) >= 4 && rapid.Bool().Draw(t, "three") {
		nsess = 3
	}
	cuts := map[int]bool{}
	for len(cuts) < nsess-1 {
		cuts[rapid.IntRange(1, len(s.Steps)-1).Draw(t, "cut")] = true
	}
	var cur []Step
	for i, st := range s.Steps {
		if cuts[i] {
			h.Sessions = append(h.Sessions, Session{Steps: cur})
			cur = nil
		}
		cur = append(cur, st)
	}
	h.Sessions = append(h.Sessions, Session{Steps: cur})
	// broker-level message.max.bytes may change from one process to the next
	for i := range h.Sessions {
		var v string
		switch c := rapid.IntRange(0, 5).Draw(t, "brokermax"); {
		case (c == 1 || c == 2) && i > 0: // lower than anything a padded batch of an earlier session needed
			v = fmt.Sprint(rapid.IntRange(256, 384).Draw(t, "brokermaxlow"))
		case c == 3:
			v = "4096"
		case c == 4 && i > 0:
			v = "" // back to the default
		default:
			continue
		}
		h.Sessions[i].Bcfg = map[string]string{"message.max.bytes": v}
	}
	for i := 0; i < len(h.Sessions)-1; i++ {
		if rapid.Bool().Draw(t, "crash") {
			h.Sessions[i].End = Ending{
				Crash: true,
				// half of the crashes inside a request, the rest anywhere (startup,
				// recovery, requests, readback, clean Close)
				Step:    rapid.IntRange(-len(h.Sessions[i].Steps), len(h.Sessions[i].Steps)).Draw(t, "step"),
				K:       rapid.IntRange(0, 1<<20).Draw(t, "k"),
				Dirty:   rapid.IntRange(0, 3).Draw(t, "wantDirty") > 0,
				Choices: rapid.SliceOfN(rapid.IntRange(0, 1<<20), 4, 4).Draw(t, "cut"),
			}
		}
	}
	return h
}

// TestSessionsGenerated: generated histories; crash points of the last session
// and loss choices are sampled.
func TestSessionsGenerated(t *testing.T) {
	if replaying() != "" {
		t.Skip("replay mode")
	}
	perHistory := 20
	if ev.Thorough() {
		perHistory = 50
	}
	rapid.Check(t, func(t *rapid.T) {
		h := genHistory(t)
		type pick struct {
			kfrac   int
			dirty   bool
			choices []int
			restart bool
			second  bool
		}
		picks := make([]pick, perHistory)
		for i := range picks {
			picks[i] = pick{
				kfrac:   rapid.IntRange(0, 1<<20).Draw(t, "k"),
				dirty:   rapid.IntRange(0, 3).Draw(t, "wantDirty") > 0,
				choices: rapid.SliceOfN(rapid.IntRange(0, 1<<20), 4, 4).Draw(t, "cut"),
				restart: rapid.IntRange(0, 3).Draw(t, "restart") == 0,
				second:  rapid.IntRange(0, 3).Draw(t, "second") == 0,
			}
		}
		e := runHistory(t, h)
		if e == nil {
			return
		}
		report(t, e.checkClean())
		g := e.l.Genesis
		dirtyKs := dirtyPoints(e.l, g, len(e.l.Ops))
		for _, p := range picks {
			k := g + p.kfrac%(len(e.l.Ops)-g+1)
			if p.dirty && len(dirtyKs) > 0 {
				k = dirtyKs[p.kfrac%len(dirtyKs)]
			}
			report(t, e.eval(sampledCase(e.l, k, p.choices), p.restart, p.second))
		}
		e.p.done()
	})
}

// TestSessionsEnumerateGenerated (thorough tier only): the complete crash space of
// the last session of generated histories.
func TestSessionsEnumerateGenerated(t *testing.T) {
	if replaying() != "" {
		t.Skip("replay mode")
	}
	if !ev.Thorough() {
		t.Skip("thorough tier only")
	}
	rapid.Check(t, func(t *rapid.T) {
		e := runHistory(t, genHistory(t))
		if e == nil {
			return
		}
		enumerateLast(t, e, false)
		ev.Class("generated_history_enumerated_completely")
	})
}
