//go:build verif

package c33

import (
	"encoding/binary"
	"hash/crc32"
	"sort"
	"strings"
	"sync"
	"testing"

	"verif/h/crashfs"
	"verif/h/ev"
)

// Second finding of the multi-session histories (reported to the lead; the input
// class is excluded while the witness below reproduces it):
//
// A crash tears the last entry of an append-only state log (groups.log or
// pids.log). loadGroupsLog / loadPIDsLog notice it ("discarding N corrupt
// trailing bytes") but do not truncate the file, and persistGroupEntry /
// persistPIDEntry reopen it with O_APPEND: every entry the recovered process
// appends lands BEHIND the torn bytes. It acknowledges the offset commits /
// InitProducerID / EndTxn that wrote those entries, but the next load stops at
// the torn bytes (readEntries), so after a second crash all of them are gone:
// acknowledged offset commits are lost. Only a rewrite of the file (clean Close,
// or reaching state.log.compact.bytes) repairs it. (Segment files do not have the
// problem: loadSegmentBatches truncates the file.)
const tailKey = "torn-state-log-tail-not-truncated-later-acknowledged-entries-lost-at-next-crash"

var tailWitness = History{Name: "tail-witness", Sessions: []Session{
	{Steps: []Step{topic("a", 1), commit("g", "a", 0, 2)}, End: torn(2, 0)},
	{Steps: []Step{commit("h", "a", 0, 2)}},
}}

// corruptStateLogTails lists the state logs of the directory that do not end at
// an entry boundary (framing: u32 length, u32 CRC-32C, then length bytes;
// little-endian; see readEntries in persist.go).
func corruptStateLogTails(fs *crashfs.FS) []string {
	var out []string
	for name, raw := range fs.Files() {
		if name != dataDir+"/groups.log" && name != dataDir+"/pids.log" {
			continue
		}
		pos := 0
		for pos+10 <= len(raw) {
			l := int(binary.LittleEndian.Uint32(raw[pos : pos+4]))
			if l < 2 || pos+8+l > len(raw) || crc32.Checksum(raw[pos+8:pos+8+l], castagnoli) != binary.LittleEndian.Uint32(raw[pos+4:pos+8]) {
				break
			}
			pos += 8 + l
		}
		if pos < len(raw) {
			out = append(out, name)
		}
	}
	sort.Strings(out)
	return out
}

// withoutTornStateLog returns the case with every dirty state log cut at an
// operation boundary (no torn write, no zero-filled loss).
func withoutTornStateLog(l *crashfs.Log, c Case) Case {
	out := Case{K: c.K, Cuts: map[int]crashfs.Cut{}}
	for ino, cut := range c.Cuts {
		out.Cuts[ino] = cut
	}
	for _, d := range l.Dirty(c.K) {
		if !strings.HasSuffix(d.Name, "/groups.log") && !strings.HasSuffix(d.Name, "/pids.log") {
			continue
		}
		cut, ok := out.Cuts[d.Ino]
		if !ok {
			continue // keeps everything
		}
		out.Cuts[d.Ino] = crashfs.Cut{Ops: cut.Ops}
	}
	return out
}

var (
	tailOnce   sync.Once
	tailActive bool
)

// tailOpen reports whether the finding still reproduces on the witness (run
// strictly, without the exclusions).
func tailOpen() bool {
	if witnessing.Load() {
		return false
	}
	if !findingListed(tailKey) {
		return false // not listed as open in $VERIF_KNOWN: the check stays strict
	}
	tailOnce.Do(func() {
		witnessing.Store(true)
		defer witnessing.Store(false)
		msg := witnessRun(func(t tb) {
			e := runHistoryOpt(t, tailWitness, true)
			defer e.p.done()
			h := e.m.Commits[commitKey("h", "a", 0)]
			if len(h) != 1 {
				return
			}
			// crash right after the commit of the second session was acknowledged
			report(t, e.eval(Case{K: h[0].Ack}, false, false))
		})
		if strings.Contains(msg, "C33 violated (crash)") && strings.Contains(msg, "acknowledged offset commit lost") {
			tailActive = true
			announce(tailKey, "topic a(1), OffsetCommit g torn inside its groups.log entry by a crash | recovery, OffsetCommit h acknowledged, crash | restart", msg, "acknowledged offset commit lost")
		}
	})
	return tailActive
}

// TestRegressTornStateLogTail replays the witness of "fixed: property=C33 2099651" strictly:
// an offset commit acknowledged after a recovery that found a torn groups.log tail must
// survive the next crash.
func TestRegressTornStateLogTail(t *testing.T) {
	witnessing.Store(true)
	msg := witnessRun(func(t tb) {
		e := runHistoryOpt(t, tailWitness, true)
		defer e.p.done()
		h := e.m.Commits[commitKey("h", "a", 0)]
		if len(h) != 1 {
			t.Fatalf("VERIF-INFRA: tail witness did not record the second session's commit")
			return
		}
		report(t, e.eval(Case{K: h[0].Ack}, false, false))
	})
	witnessing.Store(false)
	ev.Case("regress-torn-state-log-tail", true)
	ev.Class("regression-replays")
	if msg != "" {
		t.Fatalf("%s", msg)
	}
}
