//go:build verif

package c33

// Configuration changes between an acknowledged produce and a restart.
//
// What a topic accepts (max.message.bytes, topic level or the broker-level
// message.max.bytes it falls back to) can change after a batch was accepted and
// acknowledged: IncrementalAlterConfigs / AlterConfigs on the topic, or a process
// that is started with other broker configs on the same directory. Stored data
// was valid when it was written; the property does not make its survival depend
// on the configuration in force at the restart. The workloads below produce
// batches of several hundred bytes (Step.Pad), lower the limit below them, and
// then go through every crash point / the clean Close like every other workload.
// The explicitly set topic configuration itself is part of the state: read back
// with DescribeConfigs (Snap.Cfgs), compared by the clean-restart identity and
// required by the crash oracle for every acknowledged change (Model.Cfgs).

import (
	"fmt"
	"testing"

	"verif/h/ev"
)

// configScripts: single-session workloads with configuration changes; their
// whole crash space is enumerated (both tiers).
var configScripts = []Script{
	{Name: "cfg-single", Prods: []int{prodPlain, prodIdem, prodTxn}, Steps: []Step{
		topic("m", 1),
		big(0, "m", 0, 2, 400),          // a batch of about 500 bytes
		cfgSet("m", maxBytesKey, "300"), // the limit goes below it
		produce(1, "m", 0, 1), commit("g", "m", 0, 2),
		cfgSet("m", "retention.ms", "-1"),
		cfgLegacy("m", maxBytesKey, "4096"), // AlterConfigs: retention.ms is gone, the limit is raised
		big(2, "m", 0, 1, 600), end(2, true),
		cfgDel("m", maxBytesKey),        // back to the default
		cfgSet("m", maxBytesKey, "256"), // and below both large batches
		produce(0, "m", 0, 1),
	}},
}

// configHistories: multi-session histories with configuration changes; every
// crash point of the last session is enumerated (both tiers).
var configHistories = []History{
	// topic-level limit lowered below stored batches, clean Close, restart, more
	// changes and records, then the crash points
	{Name: "cfg-close-lower", Prods: []int{prodPlain, prodIdem}, Sessions: []Session{
		{Steps: []Step{topic("m", 2), big(0, "m", 0, 2, 500), big(1, "m", 1, 1, 700), produce(0, "m", 0, 1),
			cfgSet("m", maxBytesKey, "300"), produce(1, "m", 1, 1), cfgSet("m", "min.insync.replicas", "1")}},
		{Steps: []Step{produce(0, "m", 0, 1), cfgSet("m", maxBytesKey, "2048"), big(1, "m", 1, 1, 900),
			cfgSet("m", maxBytesKey, "256"), commit("g", "m", 0, 3), produce(0, "m", 1, 1)}},
	}},
	// broker-level limit: the first process accepts batches under
	// message.max.bytes=4096 and crashes inside a topic configuration change; the
	// second is started with message.max.bytes=300 on that directory and closes
	// cleanly; the third is started with the default again
	{Name: "cfg-broker-lower", Prods: []int{prodPlain, prodIdem}, Bcfg: map[string]string{"message.max.bytes": "4096"}, Sessions: []Session{
		{Steps: []Step{topic("b", 1), topic("c", 1), big(0, "b", 0, 1, 800), big(1, "c", 0, 2, 1000),
			cfgSet("c", maxBytesKey, "2048"), produce(0, "b", 0, 1)}, End: torn(5, 1)},
		{Bcfg: map[string]string{"message.max.bytes": "300"},
			Steps: []Step{produce(0, "b", 0, 1), cfgSet("c", maxBytesKey, "280"), produce(1, "c", 0, 1)}},
		{Bcfg: map[string]string{"message.max.bytes": ""},
			Steps: []Step{big(0, "b", 0, 1, 500), cfgDel("c", maxBytesKey), big(1, "c", 0, 1, 400), produce(0, "b", 0, 1)}},
	}},
}

// TestConfigEnumerate: TestEnumerate for the workloads with configuration changes.
func TestConfigEnumerate(t *testing.T) {
	if replaying() != "" {
		t.Skip("replay mode")
	}
	allBytes := ev.Thorough()
	for _, s := range configScripts {
		e := explore(t, s)
		if len(e.m.Cfgs) == 0 || !e.m.oversizedAt(e.m.NOps) {
			infra(t, fmt.Errorf("workload %s does not leave an acknowledged batch above the final max.message.bytes", s.Name))
		}
		report(t, e.checkClean())
		n := 0
		report(t, e.evalAll(func(yield func(job) bool) {
			for k := 0; k <= len(e.l.Ops); k++ {
				for _, c := range casesAt(e.l, k, allBytes) {
					n++
					lossy := len(c.Cuts) > 0
					if !yield(job{c, lossy && n%3 == 0, lossy && (ev.Thorough() || n%5 == 0)}) {
						return
					}
				}
			}
		}))
		e.p.done()
	}
	ev.Exhaustive(true)
}

// TestConfigSessions: TestSessions for the histories with configuration changes.
func TestConfigSessions(t *testing.T) {
	if replaying() != "" {
		t.Skip("replay mode")
	}
	for _, h := range configHistories {
		e := runHistory(t, h)
		if e == nil {
			infra(t, fmt.Errorf("fixed history %s was abandoned (finding %s)", h.Name, orphanKey))
		}
		enumerateLast(t, e, ev.Thorough())
	}
	ev.Exhaustive(true)
}
