//go:build verif

package c33

import (
	"encoding/json"
	"fmt"
	"os"
	"strings"
	"sync"

	"verif/h/crashfs"
	"verif/h/ev"
)

// Finding (to be listed in KNOWN_FINDINGS.json by the lead, see the final report):
// a crash leaves (a) a transaction in flight (a transactional data batch without
// a control batch) and (b) a newest segment file that recovery truncates to zero
// bytes and drops from its in-memory segment list while the file stays in the
// partition directory. Recovery aborts the transaction implicitly and bumps the
// producer epoch in memory only. From then on EVERY restart - also one after a
// clean Close - finds one more .dat file than the snapshot lists, falls back to
// the full replay, aborts the same transaction implicitly again and bumps the
// epoch again, so "clean Close + restart" is not the identity on the
// transaction state (DescribeTransactions epoch N before Close, N+1 after), and
// a transactional client that re-initialised after the crash is fenced by a
// clean broker restart.
const knownKey = "restart-after-crash-recovery-rebumps-epoch-of-crash-aborted-transaction"

// knownWitness: every batch rolls the segment (log.segment.bytes=1); producer 0
// leaves a transaction open, then a plain produce opens segment 1.dat and the
// crash tears its first write after 6 bytes.
var knownWitness = Script{Name: "known-rebump", Prods: []int{prodTxn, prodPlain}, Bcfg: map[string]string{"log.segment.bytes": "1"}, Steps: []Step{
	topic("w", 1), produce(0, "w", 0, 1), produce(1, "w", 0, 1),
}}

var (
	knownOnce   sync.Once
	knownActive bool
)

func knownListed() bool { return findingListed(knownKey) }

func findingListed(key string) bool {
	raw, err := os.ReadFile(os.Getenv("VERIF_KNOWN"))
	if err != nil {
		return false
	}
	var k struct {
		Findings []struct {
			Property string `json:"property"`
			Key      string `json:"key"`
			Status   string `json:"status"`
		} `json:"findings"`
	}
	if json.Unmarshal(raw, &k) != nil {
		return false
	}
	for _, f := range k.Findings {
		if f.Property == "C33" && f.Key == key && f.Status == "open" {
			return true
		}
	}
	return false
}

// witnessCase runs the witness workload and returns the crash case.
func witnessCase() (*explorer, Case, error) {
	m, live, fs, err := run(knownWitness)
	if err != nil {
		return nil, Case{}, err
	}
	l := fs.Log()
	e := newExplorer(knownWitness.Name, m, l, live)
	for i, o := range l.Ops {
		if o.Kind == crashfs.OpWrite && strings.HasSuffix(o.Path, "/1.dat") && len(o.Data) > 6 {
			return e, Case{K: i + 1, Cuts: map[int]crashfs.Cut{o.Ino: {Ops: 0, Bytes: 6}}}, nil
		}
	}
	e.p.done()
	return nil, Case{}, fmt.Errorf("witness workload wrote no segment 1.dat")
}

// knownOpen reports whether the finding is listed as open in $VERIF_KNOWN and
// still reproduces on the witness. Only then is the producer epoch of
// crash-aborted transactional ids left out of the crash+restart comparison;
// otherwise the check is strict.
func knownOpen() bool {
	knownOnce.Do(func() {
		if !knownListed() {
			return
		}
		e, c, err := witnessCase()
		if err != nil {
			return
		}
		defer e.p.done()
		f := e.evalStrict(c, true)
		if f != nil && !f.infra && strings.Contains(f.text, "transactions differ") {
			knownActive = true
			txt := f.text[strings.Index(f.text, "transactions differ"):]
			if i := strings.Index(txt, "\nreplay file"); i > 0 {
				txt = txt[:i]
			}
			ev.KnownFinding("C33", fmt.Sprintf("key=%s confirmed on witness %s, %s: %s", knownKey, knownWitness, c, strings.Join(strings.Fields(txt), " ")))
		}
	})
	return knownActive
}
