//go:build verif

package c33

import (
	"encoding/binary"
	"fmt"
	"sort"
	"strings"
	"sync"
	"sync/atomic"
)

// Finding found by the multi-session histories (reported to the lead; listed in
// KNOWN_FINDINGS.json or not, the input class is excluded while the witness below
// reproduces it, and the check is strict again as soon as it does not):
//
// A transaction is left open over a clean Close (snapshot.json of its partitions
// records the last stable offset below its first record; session_state.json
// carries the open transaction). The next process loads and REMOVES
// session_state.json and then crashes. On the restart after the crash a
// partition of that transaction which was not written in between still matches
// its snapshot, so loadPartition takes loadPartitionFromSnapshot, and only
// loadPartitionFullReplay aborts in-flight transactions: the partition keeps the
// transaction's batches as "in a transaction" and the stale last stable offset,
// while the transaction coordinator state (pids.log) knows no open transaction.
// Nothing ever ends that transaction. From then on the protocol-visible state
// depends on when the last stable offset is next recomputed: e.g. a clean Close
// + restart (loadSessionState -> recalculateLSO) moves it past the orphaned
// records, which are then delivered to read_committed consumers without an
// AbortedTransactions entry although the transaction was never committed. So
// "clean Close + restart recovers identical logs/transaction state" fails on
// every directory in that state.
const orphanKey = "crash-after-clean-close-leaves-open-transaction-orphaned-in-snapshot-loaded-partition"

// orphanWitness: transaction open on a-0 over the clean Close; the second
// session only writes a-1 and crashes after that produce was acknowledged; the
// third session re-initialises the producer and produces to a-0 again.
var orphanWitness = History{Name: "orphan-witness", Prods: []int{prodTxn, prodPlain}, Sessions: []Session{
	{Steps: []Step{topic("a", 2), produce(0, "a", 0, 1)}},
	{Steps: []Step{produce(1, "a", 1, 1)}, End: Ending{Crash: true, Step: 1, After: true}},
	{Steps: []Step{produce(0, "a", 0, 1)}},
}}

// orphanedTxns lists "topic-part pid@offset" for every transactional data batch
// without a later control batch of its producer that the partition still counts
// as uncommitted (last stable offset <= its offset) while no transaction of that
// producer id is ongoing.
func orphanedTxns(s *Snap) []string {
	ongoing := map[int64]bool{}
	for _, x := range s.Txns {
		if x.State == "Ongoing" {
			ongoing[x.PID] = true
		}
	}
	var out []string
	for key, ps := range s.Parts {
		open := map[int64]int64{}
		for _, b := range ps.Batches {
			attrs := binary.BigEndian.Uint16(b[21:23])
			pid := int64(binary.BigEndian.Uint64(b[43:51]))
			first, _ := batchRange(b)
			switch {
			case attrs&0x20 != 0:
				delete(open, pid)
			case attrs&0x10 != 0:
				if _, ok := open[pid]; !ok {
					open[pid] = first
				}
			}
		}
		for pid, first := range open {
			if ps.LSO <= first && !ongoing[pid] {
				out = append(out, fmt.Sprintf("%s %d@%d", key, pid, first))
			}
		}
	}
	sort.Strings(out)
	return out
}

// capture is a tb that turns Fatalf into a panic carrying the message.
type capture struct{ msg string }

type captured struct{}

func (c *capture) Helper()                   {}
func (c *capture) Logf(string, ...any)       {}
func (c *capture) Fatalf(f string, a ...any) { c.msg = fmt.Sprintf(f, a...); panic(captured{}) }

// witnessing: a witness history is being evaluated strictly on this (test)
// goroutine; the exclusions are off for it. The witnesses are settled at the
// start of every history (runHistoryOpt), before worker goroutines exist.
var witnessing atomic.Bool

var (
	orphanOnce   sync.Once
	orphanActive bool
)

// orphanOpen reports whether the finding still reproduces on the witness (run
// strictly, without the exclusions).
func orphanOpen() bool {
	if witnessing.Load() {
		return false
	}
	if !findingListed(orphanKey) {
		return false // not listed as open in $VERIF_KNOWN: the check stays strict
	}
	orphanOnce.Do(func() {
		witnessing.Store(true)
		defer witnessing.Store(false)
		msg := witnessRun(func(t tb) {
			e := runHistoryOpt(t, orphanWitness, true)
			defer e.p.done()
			report(t, e.checkClean())
		})
		if strings.Contains(msg, "C33 violated (clean)") && strings.Contains(msg, "partition a-0 differ") {
			orphanActive = true
			announce(orphanKey, "topic a(2), transactional produce a-0, clean Close | plain produce a-1, crash after its acknowledgement | InitProducerID, transactional produce a-0, clean Close, restart", msg, "partition a-0 differ")
		}
	})
	return orphanActive
}
