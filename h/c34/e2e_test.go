package c34

// End-to-end part of C34: the same model is compared with what a real kfake cluster
// (EnableACLs + SASL users) answers over the wire, which also covers the part the decision
// accessors cannot: superusers are always allowed, whatever the ACLs say.
//
// Observed decisions (hook-free):
//   - Metadata with IncludeTopicAuthorizedOperations: per topic either
//     TOPIC_AUTHORIZATION_FAILED (DESCRIBE denied) or the bit field of authorized topic
//     operations (single-resource decisions for 8 operations);
//   - InitProducerID without a transactional id: allowed iff IDEMPOTENT_WRITE on the
//     cluster resource or WRITE on any topic (the any-resource decision).
//
// kgo.Client is only a transport here (Broker.Request, no retries).

import (
	"context"
	"fmt"
	"sync"
	"testing"

	"github.com/twmb/franz-go/pkg/kerr"
	"github.com/twmb/franz-go/pkg/kfake"
	"github.com/twmb/franz-go/pkg/kgo"
	"github.com/twmb/franz-go/pkg/kmsg"
	"github.com/twmb/franz-go/pkg/sasl/plain"
	"pgregory.net/rapid"

	"verif/h/ev"
)

type e2eUser struct {
	name string
	br   *kgo.Broker
	cl   *kgo.Client
}

type e2eEnv struct {
	c     *kfake.Cluster
	root  e2eUser
	users []e2eUser // a, b
}

var (
	e2eOnce sync.Once
	e2e     *e2eEnv
	e2eErr  error
)

const (
	clientIP    = "127.0.0.1" // the address kfake sees for our connections
	clusterName = "kafka-cluster"
)

var e2eTopics = []string{"a", "ab", "abc", "b", "c"}

// Kafka's supported operations of a topic resource, in bit order.
var topicOps = []string{OpRead, OpWrite, OpCreate, OpDelete, OpAlter, OpDescribe, OpDescribeConfigs, OpAlterConfigs}

func infra(t failer, format string, a ...any) {
	fmt.Printf("VERIF-INFRA: "+format+"\n", a...)
	t.Fatalf("VERIF-INFRA: "+format, a...)
}

func getE2E(t failer) *e2eEnv {
	e2eOnce.Do(func() {
		c, err := kfake.NewCluster(
			kfake.NumBrokers(1),
			kfake.SeedTopics(1, e2eTopics...),
			kfake.EnableSASL(),
			kfake.EnableACLs(),
			kfake.Superuser("PLAIN", "root", "rootpw"),
			kfake.User("PLAIN", "a", "apw"),
			kfake.User("PLAIN", "b", "bpw"),
		)
		if err != nil {
			e2eErr = err
			return
		}
		env := &e2eEnv{c: c}
		mk := func(user, pass string) (e2eUser, error) {
			cl, err := kgo.NewClient(
				kgo.SeedBrokers(c.ListenAddrs()...),
				kgo.SASL(plain.Auth{User: user, Pass: pass}.AsMechanism()),
			)
			if err != nil {
				return e2eUser{}, err
			}
			// learn the broker id (the broker list is not subject to ACLs)
			mreq := kmsg.NewPtrMetadataRequest()
			mreq.Topics = []kmsg.MetadataRequestTopic{}
			mresp, err := mreq.RequestWith(context.Background(), cl)
			if err != nil {
				return e2eUser{}, err
			}
			if len(mresp.Brokers) != 1 {
				return e2eUser{}, fmt.Errorf("metadata: %d brokers", len(mresp.Brokers))
			}
			return e2eUser{name: user, cl: cl, br: cl.Broker(int(mresp.Brokers[0].NodeID))}, nil
		}
		if env.root, err = mk("root", "rootpw"); err != nil {
			e2eErr = err
			return
		}
		for _, u := range [][2]string{{"a", "apw"}, {"b", "bpw"}} {
			x, err := mk(u[0], u[1])
			if err != nil {
				e2eErr = err
				return
			}
			env.users = append(env.users, x)
		}
		e2e = env
	})
	if e2eErr != nil {
		infra(t, "e2e setup: %v", e2eErr)
	}
	return e2e
}

// replaceACLs deletes every binding and creates the given ones, as the superuser.
func (env *e2eEnv) replaceACLs(t failer, acls []Binding) {
	del := kmsg.NewPtrDeleteACLsRequest()
	f := kmsg.NewDeleteACLsRequestFilter()
	f.ResourceType = kmsg.ACLResourceTypeAny
	f.ResourcePatternType = kmsg.ACLResourcePatternTypeAny
	f.Operation = kmsg.ACLOperationAny
	f.PermissionType = kmsg.ACLPermissionTypeAny
	del.Filters = append(del.Filters, f)
	kresp, err := env.root.br.Request(context.Background(), del)
	if err != nil {
		infra(t, "DeleteACLs: %v", err)
	}
	for _, r := range kresp.(*kmsg.DeleteACLsResponse).Results {
		if r.ErrorCode != 0 {
			// the superuser must be able to administer ACLs whatever the ACLs say
			t.Fatalf("superuser DeleteACLs failed with %v", kerr.ErrorForCode(r.ErrorCode))
		}
	}
	if len(acls) == 0 {
		return
	}
	cr := kmsg.NewPtrCreateACLsRequest()
	for _, h := range toHook(acls) {
		c := kmsg.NewCreateACLsRequestCreation()
		c.ResourceType, c.ResourceName, c.ResourcePatternType = h.ResourceType, h.ResourceName, h.Pattern
		c.Principal, c.Host, c.Operation, c.PermissionType = h.Principal, h.Host, h.Operation, h.Permission
		cr.Creations = append(cr.Creations, c)
	}
	kresp, err = env.root.br.Request(context.Background(), cr)
	if err != nil {
		infra(t, "CreateACLs: %v", err)
	}
	for i, r := range kresp.(*kmsg.CreateACLsResponse).Results {
		if r.ErrorCode != 0 {
			if r.ErrorCode == kerr.InvalidRequest.Code {
				infra(t, "CreateACLs rejected generated binding %v", acls[i])
			}
			t.Fatalf("superuser CreateACLs of %v failed with %v", acls[i], kerr.ErrorForCode(r.ErrorCode))
		}
	}
}

// topicDecisions asks Metadata for all topics with authorized operations.
func (u *e2eUser) topicDecisions(t failer) map[string]*kmsg.MetadataResponseTopic {
	req := kmsg.NewPtrMetadataRequest()
	for _, name := range e2eTopics {
		rt := kmsg.NewMetadataRequestTopic()
		rt.Topic = kmsg.StringPtr(name)
		req.Topics = append(req.Topics, rt)
	}
	req.IncludeTopicAuthorizedOperations = true
	kresp, err := u.br.Request(context.Background(), req)
	if err != nil {
		infra(t, "Metadata as %s: %v", u.name, err)
	}
	resp := kresp.(*kmsg.MetadataResponse)
	if resp.Version < 8 {
		infra(t, "Metadata negotiated v%d, authorized operations need v8+", resp.Version)
	}
	out := map[string]*kmsg.MetadataResponseTopic{}
	for i := range resp.Topics {
		if resp.Topics[i].Topic != nil {
			out[*resp.Topics[i].Topic] = &resp.Topics[i]
		}
	}
	return out
}

func (u *e2eUser) initProducerID(t failer) int16 {
	req := kmsg.NewPtrInitProducerIDRequest()
	req.ProducerID, req.ProducerEpoch = -1, -1
	kresp, err := u.br.Request(context.Background(), req)
	if err != nil {
		infra(t, "InitProducerID as %s: %v", u.name, err)
	}
	return kresp.(*kmsg.InitProducerIDResponse).ErrorCode
}

func genE2ESet(t *rapid.T) []Binding {
	n := rapid.IntRange(0, 6).Draw(t, "bindings")
	palette := []string{
		rapid.SampledFrom([]string{OpAll, OpRead, OpWrite, OpDescribe, OpAlter, OpDelete}).Draw(t, "palette-0"),
		rapid.SampledFrom([]string{OpWrite, OpAll, OpDescribeConfigs, OpAlterConfigs, OpCreate, OpIdempotentWrite}).Draw(t, "palette-1"),
		OpWrite,
	}
	acls := make([]Binding, n)
	for i := range acls {
		b := Binding{
			Principal: rapid.SampledFrom(aclPrincipals).Draw(t, "principal"),
			Host:      rapid.SampledFrom([]string{clientIP, "10.1.1.1", "*", "*"}).Draw(t, "host"),
			ResType:   "TOPIC",
			Name:      rapid.SampledFrom(aclNames).Draw(t, "name"),
			Prefixed:  rapid.Bool().Draw(t, "prefixed"),
			Op:        rapid.SampledFrom(palette).Draw(t, "op"),
			Allow:     rapid.IntRange(0, 2).Draw(t, "allow") > 0,
		}
		if rapid.IntRange(0, 7).Draw(t, "cluster-binding") == 0 {
			b.ResType, b.Name, b.Prefixed = "CLUSTER", clusterName, false
			b.Op = rapid.SampledFrom([]string{OpIdempotentWrite, OpAll, OpAlter}).Draw(t, "cluster-op")
		}
		acls[i] = b
	}
	return acls
}

func TestE2ECluster(t *testing.T) {
	env := getE2E(t)
	superusers := map[string]bool{"User:root": true}
	rapid.Check(t, func(t *rapid.T) {
		acls := genE2ESet(t)
		env.replaceACLs(t, acls)
		nt := false
		for _, u := range append([]e2eUser{env.root}, env.users...) {
			principal := "User:" + u.name
			got := u.topicDecisions(t)
			for _, topic := range e2eTopics {
				g := got[topic]
				if g == nil {
					t.Fatalf("ACLs %s\nMetadata as %s: topic %q missing from the response", setString(acls), principal, topic)
				}
				describe, why := Authorize(acls, superusers, principal, clientIP, "TOPIC", topic, OpDescribe)
				if why.DenyMatched && why.AllowMatched || why.Implied {
					nt = true
				}
				if !describe {
					if g.ErrorCode != kerr.TopicAuthorizationFailed.Code {
						t.Fatalf("ACLs %s\nMetadata as %s from %s: topic %q error %v; Kafka's authorizer denies DESCRIBE, want TOPIC_AUTHORIZATION_FAILED", setString(acls), principal, clientIP, topic, kerr.ErrorForCode(g.ErrorCode))
					}
					ev.Class("e2e/topic_describe_denied")
					continue
				}
				if g.ErrorCode != 0 {
					t.Fatalf("ACLs %s\nMetadata as %s from %s: topic %q error %v; Kafka's authorizer allows DESCRIBE (%+v)", setString(acls), principal, clientIP, topic, kerr.ErrorForCode(g.ErrorCode), why)
				}
				var want int32
				for _, op := range topicOps {
					ok, w := Authorize(acls, superusers, principal, clientIP, "TOPIC", topic, op)
					if ok {
						want |= 1 << uint(opToK[op])
					}
					if w.DenyMatched && w.AllowMatched {
						nt = true
					}
				}
				if g.AuthorizedOperations != want {
					t.Fatalf("ACLs %s\nMetadata as %s from %s: topic %q authorized operations %#b, Kafka's authorizer gives %#b (bit = ACL operation code)", setString(acls), principal, clientIP, topic, g.AuthorizedOperations, want)
				}
				ev.Class("e2e/topic_authorized_operations_compared")
			}
			idem, _ := Authorize(acls, superusers, principal, clientIP, "CLUSTER", clusterName, OpIdempotentWrite)
			anyWrite, whyAny := AuthorizeByResourceType(acls, superusers, principal, clientIP, "TOPIC", OpWrite)
			if whyAny.DominatedAllows > 0 {
				nt = true
			}
			code := u.initProducerID(t)
			switch {
			case idem || anyWrite:
				if code != 0 {
					t.Fatalf("ACLs %s\nInitProducerID as %s from %s: %v; Kafka allows it (IDEMPOTENT_WRITE on cluster: %v, WRITE on any topic: %v %+v)", setString(acls), principal, clientIP, kerr.ErrorForCode(code), idem, anyWrite, whyAny)
				}
				ev.Class("e2e/init_producer_id_allowed")
			default:
				if code != kerr.ClusterAuthorizationFailed.Code {
					t.Fatalf("ACLs %s\nInitProducerID as %s from %s: %v; Kafka answers CLUSTER_AUTHORIZATION_FAILED (no IDEMPOTENT_WRITE on cluster, WRITE on no topic: %+v)", setString(acls), principal, clientIP, kerr.ErrorForCode(code), whyAny)
				}
				ev.Class("e2e/init_producer_id_denied")
			}
			if u.name == "root" {
				ev.Class("e2e/superuser_rounds")
			}
		}
		ev.Case("e2e:"+setString(acls), nt)
		if nt {
			ev.Class("e2e/sets_nontrivial")
		}
	})
}
