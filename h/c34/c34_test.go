package c34

// C34: kfake's authorization decisions equal those of Kafka's StandardAuthorizer for the
// same ACLs. kfake side: the verif-tagged accessors VerifACLAllowed / VerifACLAnyAllowed
// (clusterACLs.allowed / anyAllowed). Oracle: model.go.
//
// Any-resource queries for DESCRIBE and DESCRIBE_CONFIGS are evaluated and tallied but not
// asserted: Kafka's authorizeByResourceType filters bindings by "operation equal or ALL"
// and only its first step (authorize on a hard-coded name) knows implied operations, while
// kfake reuses its implied-operation matcher for every binding. kfake itself only ever
// asks the any-resource question for WRITE on topics.

import (
	"fmt"
	"sort"
	"strings"
	"testing"

	"github.com/twmb/franz-go/pkg/kfake"
	"github.com/twmb/franz-go/pkg/kmsg"
	"pgregory.net/rapid"

	"verif/h/ev"
)

func TestMain(m *testing.M) { ev.Main(m, "C34") }

// ---------------------------------------------------------------------------------
// translation model -> kfake hook types
// ---------------------------------------------------------------------------------

var opToK = map[string]kmsg.ACLOperation{
	OpAll: kmsg.ACLOperationAll, OpRead: kmsg.ACLOperationRead, OpWrite: kmsg.ACLOperationWrite,
	OpCreate: kmsg.ACLOperationCreate, OpDelete: kmsg.ACLOperationDelete, OpAlter: kmsg.ACLOperationAlter,
	OpDescribe: kmsg.ACLOperationDescribe, OpClusterAction: kmsg.ACLOperationClusterAction,
	OpDescribeConfigs: kmsg.ACLOperationDescribeConfigs, OpAlterConfigs: kmsg.ACLOperationAlterConfigs,
	OpIdempotentWrite: kmsg.ACLOperationIdempotentWrite, OpCreateTokens: kmsg.ACLOperationCreateTokens,
	OpDescribeTokens: kmsg.ACLOperationDescribeTokens,
}

var typeToK = map[string]kmsg.ACLResourceType{
	"TOPIC": kmsg.ACLResourceTypeTopic, "GROUP": kmsg.ACLResourceTypeGroup, "CLUSTER": kmsg.ACLResourceTypeCluster,
	"TRANSACTIONAL_ID": kmsg.ACLResourceTypeTransactionalId,
}

func toHook(acls []Binding) []kfake.VerifACL {
	out := make([]kfake.VerifACL, len(acls))
	for i, b := range acls {
		pat, perm := kmsg.ACLResourcePatternTypeLiteral, kmsg.ACLPermissionTypeDeny
		if b.Prefixed {
			pat = kmsg.ACLResourcePatternTypePrefixed
		}
		if b.Allow {
			perm = kmsg.ACLPermissionTypeAllow
		}
		out[i] = kfake.VerifACL{Principal: b.Principal, Host: b.Host, ResourceType: typeToK[b.ResType], ResourceName: b.Name, Pattern: pat, Operation: opToK[b.Op], Permission: perm}
	}
	return out
}

func (b Binding) String() string {
	pat, perm := "LITERAL", "DENY"
	if b.Prefixed {
		pat = "PREFIXED"
	}
	if b.Allow {
		perm = "ALLOW"
	}
	return fmt.Sprintf("%s %s host=%s %s %s:%s:%q", perm, b.Principal, b.Host, b.Op, b.ResType, pat, b.Name)
}

func setString(acls []Binding) string {
	ss := make([]string, len(acls))
	for i, b := range acls {
		ss[i] = b.String()
	}
	sort.Strings(ss)
	return "[" + strings.Join(ss, "; ") + "]"
}

// ---------------------------------------------------------------------------------
// alphabets
// ---------------------------------------------------------------------------------

var (
	aclPrincipals = []string{"User:a", "User:b", "User:*"}
	aclHosts      = []string{"h1", "h2", "*"}
	aclNames      = []string{"*", "a", "ab", "abc", "b"}
	aclOps        = []string{OpAll, OpRead, OpWrite, OpCreate, OpDelete, OpAlter, OpDescribe, OpClusterAction, OpDescribeConfigs, OpAlterConfigs, OpIdempotentWrite, OpCreateTokens, OpDescribeTokens}

	qPrincipals = []string{"User:a", "User:b"}
	qHosts      = []string{"h1", "h2"}
	qNames      = []string{"a", "ab", "abc", "b", "c"}
	qOps        = aclOps[1:] // every concrete operation
)

// any-resource queries for these operations are tallied, not asserted (see file comment)
var anyNotAsserted = map[string]bool{OpDescribe: true, OpDescribeConfigs: true}

// ---------------------------------------------------------------------------------
// evaluation of one ACL set against every query
// ---------------------------------------------------------------------------------

type tally struct {
	queries, anyQueries                            int64
	allowed, denied, anyAllowed, anyDenied         int64
	denyOverAllow, implied, wildcard, prefix       int64
	anyPrincipal, anyHost                          int64
	anyDominated, anyWildcardDeny, anyWildcardAllw int64
	anyUnassertedAgree, anyUnassertedDiffer        int64
}

func (a *tally) add(b tally) {
	a.queries += b.queries
	a.anyQueries += b.anyQueries
	a.allowed += b.allowed
	a.denied += b.denied
	a.anyAllowed += b.anyAllowed
	a.anyDenied += b.anyDenied
	a.denyOverAllow += b.denyOverAllow
	a.implied += b.implied
	a.wildcard += b.wildcard
	a.prefix += b.prefix
	a.anyPrincipal += b.anyPrincipal
	a.anyHost += b.anyHost
	a.anyDominated += b.anyDominated
	a.anyWildcardDeny += b.anyWildcardDeny
	a.anyWildcardAllw += b.anyWildcardAllw
	a.anyUnassertedAgree += b.anyUnassertedAgree
	a.anyUnassertedDiffer += b.anyUnassertedDiffer
}

func (a tally) flush(prefix string) {
	for k, v := range map[string]int64{
		"queries_single": a.queries, "queries_any_asserted": a.anyQueries,
		"single_allowed": a.allowed, "single_denied": a.denied, "any_allowed": a.anyAllowed, "any_denied": a.anyDenied,
		"single_deny_overrides_matching_allow": a.denyOverAllow, "single_allow_via_implied_operation": a.implied,
		"single_match_via_wildcard_resource": a.wildcard, "single_match_via_prefix": a.prefix,
		"single_match_via_User:*": a.anyPrincipal, "single_match_via_host_*": a.anyHost,
		"any_with_dominated_allow_pattern": a.anyDominated, "any_wildcard_deny": a.anyWildcardDeny, "any_wildcard_allow": a.anyWildcardAllw,
		"any_describe_or_describe_configs_not_asserted_agree": a.anyUnassertedAgree, "any_describe_or_describe_configs_not_asserted_differ": a.anyUnassertedDiffer,
	} {
		ev.ClassN(prefix+k, v)
	}
}

// nontrivial: the set made at least one decision in which DENY precedence over a matching
// ALLOW, an implied operation, or an ALLOW pattern dominated by a DENY was exercised.
func (a tally) nontrivial() bool { return a.denyOverAllow > 0 || a.implied > 0 || a.anyDominated > 0 }

type failer interface {
	Fatalf(format string, args ...any)
}

// evalSet compares kfake with the model on every query over the given query alphabets.
func evalSet(t failer, acls []Binding, types, names, ops []string) tally {
	var ty tally
	hook := toHook(acls)
	for _, p := range qPrincipals {
		for _, h := range qHosts {
			for _, rt := range types {
				for _, op := range ops {
					for _, n := range names {
						want, why := Authorize(acls, nil, p, h, rt, n, op)
						got := kfake.VerifACLAllowed(hook, p, h, n, typeToK[rt], opToK[op])
						if got != want {
							msg := fmt.Sprintf("ACLs %s\nquery: principal=%s host=%s %s on %s %q\nkfake allowed=%v, Kafka's authorizer: %v (%+v)", setString(acls), p, h, op, rt, n, got, want, why)
							ev.Replay("c34-single.txt", msg)
							t.Fatalf("%s", msg)
						}
						ty.queries++
						if want {
							ty.allowed++
						} else {
							ty.denied++
						}
						if why.DenyMatched && why.AllowMatched {
							ty.denyOverAllow++
						}
						if why.Implied && want {
							ty.implied++
						}
						if why.Wildcard {
							ty.wildcard++
						}
						if why.Prefix {
							ty.prefix++
						}
						if why.AnyPrincipal {
							ty.anyPrincipal++
						}
						if why.AnyHost {
							ty.anyHost++
						}
					}
					want, why := AuthorizeByResourceType(acls, nil, p, h, rt, op)
					got := kfake.VerifACLAnyAllowed(hook, p, h, typeToK[rt], opToK[op])
					if anyNotAsserted[op] {
						if got == want {
							ty.anyUnassertedAgree++
						} else {
							ty.anyUnassertedDiffer++
						}
						continue
					}
					if got != want {
						msg := fmt.Sprintf("ACLs %s\nany-resource query: principal=%s host=%s %s on some %s\nkfake anyAllowed=%v, Kafka's authorizeByResourceType: %v (%+v)", setString(acls), p, h, op, rt, got, want, why)
						ev.Replay("c34-any.txt", msg)
						t.Fatalf("%s", msg)
					}
					ty.anyQueries++
					if want {
						ty.anyAllowed++
					} else {
						ty.anyDenied++
					}
					if why.DominatedAllows > 0 {
						ty.anyDominated++
					}
					if why.WildcardDeny {
						ty.anyWildcardDeny++
					}
					if why.WildcardAllow {
						ty.anyWildcardAllw++
					}
				}
			}
		}
	}
	return ty
}

// ---------------------------------------------------------------------------------
// generated ACL sets (<= 6 bindings, full alphabet)
// ---------------------------------------------------------------------------------

func genSet(t *rapid.T) []Binding {
	// a per-case palette makes bindings collide on operation / principal / host often
	// enough that precedence and domination are actually exercised
	nops := rapid.IntRange(1, 4).Draw(t, "palette-size")
	palette := make([]string, nops)
	for i := range palette {
		if rapid.IntRange(0, 3).Draw(t, "palette-any-op") == 0 {
			palette[i] = rapid.SampledFrom(aclOps).Draw(t, "palette-op")
		} else {
			palette[i] = rapid.SampledFrom([]string{OpAll, OpRead, OpWrite, OpDelete, OpAlter, OpDescribe, OpDescribeConfigs, OpAlterConfigs}).Draw(t, "palette-op")
		}
	}
	n := rapid.IntRange(0, 6).Draw(t, "bindings")
	withGroup := rapid.IntRange(0, 4).Draw(t, "second-resource-type") == 0
	acls := make([]Binding, n)
	for i := range acls {
		b := Binding{
			Principal: rapid.SampledFrom(aclPrincipals).Draw(t, "principal"),
			Host:      rapid.SampledFrom(aclHosts).Draw(t, "host"),
			ResType:   "TOPIC",
			Name:      rapid.SampledFrom(aclNames).Draw(t, "name"),
			Prefixed:  rapid.Bool().Draw(t, "prefixed"),
			Op:        rapid.SampledFrom(palette).Draw(t, "op"),
			Allow:     rapid.Bool().Draw(t, "allow"),
		}
		if rapid.IntRange(0, 9).Draw(t, "op-outside-palette") == 0 {
			b.Op = rapid.SampledFrom(aclOps).Draw(t, "op-any")
		}
		if withGroup && rapid.Bool().Draw(t, "group") {
			b.ResType = "GROUP"
		}
		acls[i] = b
	}
	return acls
}

func TestGeneratedSets(t *testing.T) {
	types := []string{"TOPIC", "GROUP"}
	var total tally
	rapid.Check(t, func(t *rapid.T) {
		acls := genSet(t)
		ty := evalSet(t, acls, types, qNames, qOps)
		total.add(ty)
		ev.Case(setString(acls), ty.nontrivial())
		ev.Class(fmt.Sprintf("generated_set_size_%d", len(acls)))
		if ty.nontrivial() {
			ev.Class("generated_sets_nontrivial")
		}
		if ty.anyDominated > 0 {
			ev.Class("generated_sets_with_dominated_allow_in_any_query")
		}
		if ty.nontrivial() {
			ev.SampleIf(func() any {
				return map[string]any{"acls": setString(acls), "single_queries": ty.queries, "single_allowed": ty.allowed, "deny_over_allow_decisions": ty.denyOverAllow, "implied_op_decisions": ty.implied, "any_queries_asserted": ty.anyQueries, "any_allowed": ty.anyAllowed, "any_with_dominated_allow": ty.anyDominated}
			})
		}
	})
	total.flush("generated/")
}

// ---------------------------------------------------------------------------------
// exhaustive sweep: every ACL set of size <= 2 over a reduced alphabet
// ---------------------------------------------------------------------------------

func sweepAlphabet() (entries []Binding, ops []string) {
	principals := []string{"User:a", "User:*"}
	hosts := []string{"h1", "*"}
	names := []string{"*", "a", "ab"}
	eops := []string{OpAll, OpRead, OpWrite, OpDescribe, OpAlterConfigs, OpDescribeConfigs}
	ops = []string{OpRead, OpWrite, OpDescribe, OpDescribeConfigs, OpAlterConfigs, OpCreate}
	if ev.Thorough() {
		principals = aclPrincipals
		hosts = aclHosts
		names = aclNames
		eops = []string{OpAll, OpRead, OpWrite, OpDelete, OpAlter, OpDescribe, OpDescribeConfigs, OpAlterConfigs, OpCreate}
		ops = []string{OpRead, OpWrite, OpDelete, OpAlter, OpDescribe, OpDescribeConfigs, OpAlterConfigs, OpCreate}
	}
	for _, p := range principals {
		for _, h := range hosts {
			for _, n := range names {
				for _, pre := range []bool{false, true} {
					for _, op := range eops {
						for _, allow := range []bool{false, true} {
							entries = append(entries, Binding{p, h, "TOPIC", n, pre, op, allow})
						}
					}
				}
			}
		}
	}
	return entries, ops
}

func TestExhaustiveSmallSets(t *testing.T) {
	entries, ops := sweepAlphabet()
	types := []string{"TOPIC"}
	sh, nsh := ev.Shard()
	var total tally
	var sets, nontrivial int64
	one := func(acls []Binding) {
		ty := evalSet(t, acls, types, qNames, ops)
		total.add(ty)
		sets++
		if ty.nontrivial() {
			nontrivial++
			if nontrivial%97 == 1 { // the bulk is counted, a spread is hashed
				ev.Nontrivial("sweep:" + setString(acls))
			}
		}
	}
	if sh == 0 {
		one(nil)
	}
	for i := range entries {
		if i%nsh != sh {
			continue
		}
		one(entries[i : i+1])
		for j := i + 1; j < len(entries); j++ {
			one([]Binding{entries[i], entries[j]})
		}
	}
	ev.Evals(sets)
	ev.Extra("sweep_complete_over_its_reduced_alphabet", true)
	ev.ClassN("sweep/sets_of_size_le_2", sets)
	ev.ClassN("sweep/sets_nontrivial", nontrivial)
	ev.Extra("sweep_alphabet_bindings", len(entries))
	total.flush("sweep/")
	ev.Sample(map[string]any{"sweep": "every ACL set of size <= 2 over the reduced alphabet, every query", "alphabet_bindings": len(entries), "sets_in_this_shard": sets, "query_operations": ops})
}
