// Package c34 holds an independent model of Apache Kafka's StandardAuthorizer decision
// procedure, written from Kafka's documented behaviour (StandardAuthorizerData.authorize /
// findResult and Authorizer.authorizeByResourceType), not from kfake's code. It shares no
// types with kfake: operations, pattern types and permissions are the model's own.
package c34

import "strings"

// Operation names as Kafka spells them.
const (
	OpAll             = "ALL"
	OpRead            = "READ"
	OpWrite           = "WRITE"
	OpCreate          = "CREATE"
	OpDelete          = "DELETE"
	OpAlter           = "ALTER"
	OpDescribe        = "DESCRIBE"
	OpClusterAction   = "CLUSTER_ACTION"
	OpDescribeConfigs = "DESCRIBE_CONFIGS"
	OpAlterConfigs    = "ALTER_CONFIGS"
	OpIdempotentWrite = "IDEMPOTENT_WRITE"
	OpCreateTokens    = "CREATE_TOKENS"
	OpDescribeTokens  = "DESCRIBE_TOKENS"
)

const (
	wildcardResource  = "*"
	wildcardPrincipal = "User:*"
	wildcardHost      = "*"
)

// Binding is one ACL binding.
type Binding struct {
	Principal string // "User:<name>" or "User:*"
	Host      string // an address or "*"
	ResType   string // "TOPIC", "GROUP", "CLUSTER", ...
	Name      string
	Prefixed  bool // false: LITERAL, true: PREFIXED
	Op        string
	Allow     bool // false: DENY
}

// IMPLIES_DESCRIBE and IMPLIES_DESCRIBE_CONFIGS of Kafka's StandardAuthorizerData.
var (
	impliesDescribe        = map[string]bool{OpDescribe: true, OpRead: true, OpWrite: true, OpDelete: true, OpAlter: true}
	impliesDescribeConfigs = map[string]bool{OpDescribeConfigs: true, OpAlterConfigs: true}
)

// Why says what a single-resource decision rested on (used for evidence only).
type Why struct {
	DenyMatched  bool // some DENY binding matched
	AllowMatched bool // some ALLOW binding matched
	Implied      bool // a matching ALLOW matched only through an implied operation
	Wildcard     bool // a matching binding matched through the literal "*" resource
	Prefix       bool // a matching binding matched as a prefix
	AnyPrincipal bool // a matching binding matched through User:*
	AnyHost      bool // a matching binding matched through host *
}

func principalMatches(b Binding, principal string) (bool, bool) {
	if b.Principal == principal {
		return true, false
	}
	if b.Principal == wildcardPrincipal {
		return true, true
	}
	return false, false
}

func hostMatches(b Binding, host string) (bool, bool) {
	if b.Host == host {
		return true, false
	}
	if b.Host == wildcardHost {
		return true, true
	}
	return false, false
}

// resourceMatches: a LITERAL binding matches its exact name, and the literal "*" matches
// every name; a PREFIXED binding matches every name that starts with it.
func resourceMatches(b Binding, resType, name string) (match, wildcard, prefix bool) {
	if b.ResType != resType {
		return false, false, false
	}
	if b.Prefixed {
		return strings.HasPrefix(name, b.Name), false, true
	}
	if b.Name == name {
		return true, false, false
	}
	if b.Name == wildcardResource {
		return true, true, false
	}
	return false, false, false
}

// opMatchesForAuthorize is StandardAuthorizerData.findResult's operation test: ALL matches
// everything; an ALLOW binding also matches DESCRIBE when its operation implies DESCRIBE and
// DESCRIBE_CONFIGS when it implies DESCRIBE_CONFIGS; a DENY binding matches only its own
// operation.
func opMatchesForAuthorize(b Binding, op string) (match, implied bool) {
	if b.Op == OpAll {
		return true, false
	}
	if !b.Allow {
		return b.Op == op, false
	}
	switch op {
	case OpDescribe:
		return impliesDescribe[b.Op], b.Op != op && impliesDescribe[b.Op]
	case OpDescribeConfigs:
		return impliesDescribeConfigs[b.Op], b.Op != op && impliesDescribeConfigs[b.Op]
	default:
		return b.Op == op, false
	}
}

// Authorize is the decision for one (principal, host, operation, resource): superusers
// are always allowed; otherwise any matching DENY denies, else any matching ALLOW allows,
// else (no matching binding, allow.everyone.if.no.acl.found=false) denied.
func Authorize(acls []Binding, superusers map[string]bool, principal, host, resType, name, op string) (bool, Why) {
	var w Why
	if superusers[principal] {
		return true, w
	}
	for _, b := range acls {
		rm, wild, pre := resourceMatches(b, resType, name)
		if !rm {
			continue
		}
		pm, anyP := principalMatches(b, principal)
		if !pm {
			continue
		}
		hm, anyH := hostMatches(b, host)
		if !hm {
			continue
		}
		om, implied := opMatchesForAuthorize(b, op)
		if !om {
			continue
		}
		if b.Allow {
			w.AllowMatched = true
		} else {
			w.DenyMatched = true
		}
		w.Implied = w.Implied || implied
		w.Wildcard = w.Wildcard || wild
		w.Prefix = w.Prefix || pre
		w.AnyPrincipal = w.AnyPrincipal || anyP
		w.AnyHost = w.AnyHost || anyH
	}
	if w.DenyMatched {
		return false, w
	}
	return w.AllowMatched, w
}

// WhyAny says what an any-resource decision rested on (evidence only).
type WhyAny struct {
	ViaHardcodedName bool // step 1 (authorize on a hard-coded literal name) allowed
	WildcardDeny     bool
	WildcardAllow    bool
	AllowPatterns    int // matching non-wildcard ALLOW patterns
	DominatedAllows  int // of those, how many were dominated by a DENY
}

// ByResourceTypePatterns is the pattern part of Authorizer.authorizeByResourceType: bindings are
// filtered by resource type, host (equal or "*"), principal (equal or User:*) and
// operation (EQUAL or ALL - no implied operations here). A DENY on the literal "*" denies;
// an ALLOW on the literal "*" allows; otherwise the result is allowed iff some ALLOW
// literal is neither DENY-literal nor has a DENY prefix that is a prefix of it, or some
// ALLOW prefix has no DENY prefix that is a prefix of it.
func ByResourceTypePatterns(acls []Binding, principal, host, resType, op string) (bool, WhyAny) {
	var w WhyAny
	denyLit, denyPre := map[string]bool{}, map[string]bool{}
	allowLit, allowPre := map[string]bool{}, map[string]bool{}
	for _, b := range acls {
		if b.ResType != resType {
			continue
		}
		if b.Host != host && b.Host != wildcardHost {
			continue
		}
		if b.Principal != principal && b.Principal != wildcardPrincipal {
			continue
		}
		if b.Op != op && b.Op != OpAll {
			continue
		}
		switch {
		case !b.Allow && !b.Prefixed && b.Name == wildcardResource:
			w.WildcardDeny = true
		case !b.Allow && !b.Prefixed:
			denyLit[b.Name] = true
		case !b.Allow:
			denyPre[b.Name] = true
		case !b.Prefixed && b.Name == wildcardResource:
			w.WildcardAllow = true
		case !b.Prefixed:
			allowLit[b.Name] = true
		default:
			allowPre[b.Name] = true
		}
	}
	if w.WildcardDeny {
		return false, w
	}
	if w.WildcardAllow {
		return true, w
	}
	// a DENY prefix dominates an allowed name when it is a (non-empty) prefix of it
	dominated := func(name string) bool {
		for i := 1; i <= len(name); i++ {
			if denyPre[name[:i]] {
				return true
			}
		}
		return false
	}
	allowed := false
	for name := range allowLit {
		w.AllowPatterns++
		if denyLit[name] || dominated(name) {
			w.DominatedAllows++
			continue
		}
		allowed = true
	}
	for name := range allowPre {
		w.AllowPatterns++
		if dominated(name) {
			w.DominatedAllows++
			continue
		}
		allowed = true
	}
	return allowed, w
}

// AuthorizeByResourceType is Kafka's complete authorizeByResourceType: first an ordinary
// authorize on a hard-coded literal name (this is how superusers, and anything else that
// authorize would let through for every name, are allowed regardless of DENY patterns),
// then the pattern procedure.
func AuthorizeByResourceType(acls []Binding, superusers map[string]bool, principal, host, resType, op string) (bool, WhyAny) {
	if ok, _ := Authorize(acls, superusers, principal, host, resType, "hardcode", op); ok {
		return true, WhyAny{ViaHardcodedName: true}
	}
	return ByResourceTypePatterns(acls, principal, host, resType, op)
}
