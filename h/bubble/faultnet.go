// Package bubble is the end-to-end engine: a kfake cluster and kgo clients inside one
// testing/synctest bubble (virtual clock, net.Pipe transport), a frame-aware fault
// injecting dialer (faultnet) and a history log.
package bubble

import (
	"context"
	"encoding/binary"
	"errors"
	"fmt"
	"io"
	"net"
	"os"
	"sync"
	"sync/atomic"
	"time"

	"github.com/twmb/franz-go/pkg/kfake"
)

// Action is what faultnet does to one request/response pair.
type Action int

const (
	Pass            Action = iota
	KillBefore             // close the connection instead of forwarding the request (broker never sees it)
	DropResponse           // forward the request, let the broker handle it, then close instead of delivering the response
	TruncResponse          // deliver only part of the response frame, then close
	DelayResponse          // hold the response for Delay (virtual time)
	RewriteResponse        // let the broker handle the request, then hand the client a rewritten response (Rule.Rewrite)
)

func (a Action) String() string {
	return [...]string{"pass", "kill-before", "drop-response", "trunc-response", "delay-response", "rewrite-response"}[a]
}

// Rule: the Nth (0-based) request with Key seen by the net (counted over all
// connections, or only for requests with Key when Key>=0) gets Act.
type Rule struct {
	Key   int16 // request key, -1 = any
	Nth   int   // which occurrence (0-based) of that key
	Act   Action
	Delay time.Duration
	Trunc int // bytes of the response frame to deliver for TruncResponse
	// Rewrite maps the response body (correlation id onwards) to the body delivered instead.
	Rewrite func(ri *ReqInfo, body []byte) []byte
	Code    int16 // informational: error code a Rewrite injects
	Always  bool  // the rule applies to every request of Key from now on (Nth is ignored)
}

func (r Rule) String() string {
	return fmt.Sprintf("{key=%d nth=%d %s}", r.Key, r.Nth, r.Act)
}

// ReqInfo is one request observed on the wire.
type ReqInfo struct {
	Conn    int
	Addr    string
	Key     int16
	Version int16
	Corr    int32
	Act     Action
	Handled bool // the broker produced a response for it (ground truth)
	Frame   []byte
	Seq     int // global order of requests
	rule    Rule
}

// Net is a VirtualNetwork plus fault injection on the client side of each pipe.
type Net struct {
	Stack kfake.VirtualNetwork

	mu      sync.Mutex
	rules   []Rule
	counts  map[int16]int
	nconn   int
	reqs    []*ReqInfo
	keep    bool                           // keep request frames
	OnReq   func(*ReqInfo)                 // observer, called with mu NOT held
	OnResp  func(ri *ReqInfo, body []byte) // observer of every response body (correlation id onwards)
	blocked bool                           // refuse all new dials (unreachable brokers)
	conns   map[*conn]struct{}
	lastAt  time.Time
	sameAt  int
	// Spin is set when more than SpinLimit requests were written at one virtual instant:
	// the client is busy-looping without any time passing. New requests then fail.
	// DelayAll delays every response by this much virtual time; Blackhole swallows every
	// response (the client sees a connection that accepts writes and never answers).
	DelayAll  time.Duration
	Blackhole bool
	Spin      bool
	SpinKey   int16
	SpinLimit int
	spinUntil time.Time // while Spin: requests and dials fail until this virtual instant, then traffic flows again
}

// NewNet returns a fault net with no rules.
func NewNet() *Net { return &Net{counts: map[int16]int{}, conns: map[*conn]struct{}{}} }

// KeepFrames makes the net retain the bytes of every request frame.
func (n *Net) KeepFrames() { n.mu.Lock(); n.keep = true; n.mu.Unlock() }

// SetRules replaces the fault plan. Counting continues from the current counts
// unless reset is true.
func (n *Net) SetRules(rules []Rule, reset bool) {
	n.mu.Lock()
	n.rules = append([]Rule(nil), rules...)
	if reset {
		n.counts = map[int16]int{}
	}
	n.mu.Unlock()
}

// AddRuleNext adds a rule hitting the next request with the given key.
func (n *Net) AddRuleNext(key int16, act Action, delay time.Duration) {
	n.mu.Lock()
	n.rules = append(n.rules, Rule{Key: key, Nth: n.counts[key], Act: act, Delay: delay})
	n.mu.Unlock()
}

// AddRule adds a fully specified rule; Nth is relative to the requests seen so far.
func (n *Net) AddRule(r Rule) {
	n.mu.Lock()
	r.Nth += n.counts[r.Key]
	n.rules = append(n.rules, r)
	n.mu.Unlock()
}

// SetOnReq installs the request observer (safe while connections are live).
func (n *Net) SetOnReq(f func(*ReqInfo)) { n.mu.Lock(); n.OnReq = f; n.mu.Unlock() }

// SetOnResp installs the response observer (safe while connections are live).
func (n *Net) SetOnResp(f func(*ReqInfo, []byte)) { n.mu.Lock(); n.OnResp = f; n.mu.Unlock() }

// SetMode sets the network-wide behaviour: every response delayed by d, and/or swallowed.
func (n *Net) SetMode(delayAll time.Duration, blackhole bool) {
	n.mu.Lock()
	n.DelayAll, n.Blackhole = delayAll, blackhole
	n.mu.Unlock()
}

// ClearRules removes all rules.
func (n *Net) ClearRules() { n.mu.Lock(); n.rules = nil; n.mu.Unlock() }

// Block makes every new dial fail and (if kill) closes all open connections.
func (n *Net) Block(kill bool) {
	n.mu.Lock()
	n.blocked = true
	var cs []*conn
	if kill {
		for c := range n.conns {
			cs = append(cs, c)
		}
	}
	n.mu.Unlock()
	for _, c := range cs {
		c.killed.Store(true)
		c.Conn.Close()
	}
}

// Unblock lets dials through again.
func (n *Net) Unblock() { n.mu.Lock(); n.blocked = false; n.mu.Unlock() }

// KillAll closes every open connection once.
func (n *Net) KillAll() {
	n.mu.Lock()
	var cs []*conn
	for c := range n.conns {
		cs = append(cs, c)
	}
	n.mu.Unlock()
	for _, c := range cs {
		c.killed.Store(true)
		c.Conn.Close()
	}
}

// Requests returns a snapshot of all requests seen.
func (n *Net) Requests() []*ReqInfo {
	n.mu.Lock()
	defer n.mu.Unlock()
	out := make([]*ReqInfo, len(n.reqs))
	for i, r := range n.reqs {
		c := *r
		out[i] = &c
	}
	return out
}

// Count returns how many requests with key were seen.
func (n *Net) Count(key int16) int { n.mu.Lock(); defer n.mu.Unlock(); return n.counts[key] }

// Listen is passed to kfake.ListenFn.
func (n *Net) Listen(network, address string) (net.Listener, error) {
	return n.Stack.Listen(network, address)
}

// DialContext is passed to kgo.Dialer.
func (n *Net) DialContext(ctx context.Context, network, address string) (net.Conn, error) {
	n.mu.Lock()
	if n.blocked || (n.Spin && time.Now().Before(n.spinUntil)) {
		n.mu.Unlock()
		return nil, errors.New("faultnet: network unreachable")
	}
	n.mu.Unlock()
	c, err := n.Stack.DialContext(ctx, network, address)
	if err != nil {
		return nil, err
	}
	n.mu.Lock()
	n.nconn++
	fc := &conn{Conn: c, n: n, id: n.nconn, addr: address, pending: map[int32]*ReqInfo{}}
	n.conns[fc] = struct{}{}
	n.mu.Unlock()
	return fc, nil
}

type conn struct {
	net.Conn
	n    *Net
	id   int
	addr string

	wmu  sync.Mutex
	wbuf []byte

	rmu     sync.Mutex
	rbuf    []byte
	rerr    error
	pmu     sync.Mutex
	pending map[int32]*ReqInfo
	killed  atomic.Bool // KillAll / Block(kill): nothing is delivered any more, not even a response held back by a delay
}

func (c *conn) Close() error {
	c.n.mu.Lock()
	delete(c.n.conns, c)
	c.n.mu.Unlock()
	return c.Conn.Close()
}

// decide assigns the action for a new request.
func (n *Net) decide(ri *ReqInfo) Rule {
	n.mu.Lock()
	defer n.mu.Unlock()
	if now := time.Now(); now.Equal(n.lastAt) {
		n.sameAt++
		lim := n.SpinLimit
		if lim == 0 {
			lim = 20000
		}
		if n.sameAt > lim {
			if !n.Spin {
				fmt.Fprintf(os.Stderr, "faultnet: SPIN watchdog fired: >%d requests at one virtual instant, last key %d\n", lim, ri.Key)
			}
			// The case is inconclusive from here on (Spin stays set). A one second outage breaks the
			// loop: the client's error backoffs let virtual time advance, and whatever it was waiting
			// for (a metadata refresh, typically) can happen; then traffic flows again so that the
			// workload's own blocking calls can finish and the case can end.
			n.Spin, n.SpinKey = true, ri.Key
			n.spinUntil = now.Add(time.Second)
			n.sameAt = 0
		}
	} else {
		n.lastAt, n.sameAt = now, 0
	}
	if n.Spin && time.Now().Before(n.spinUntil) {
		ri.Act = KillBefore
		return Rule{Act: KillBefore}
	}
	cnt := n.counts[ri.Key]
	n.counts[ri.Key] = cnt + 1
	anyCnt := n.counts[-1]
	n.counts[-1] = anyCnt + 1
	ri.Seq = len(n.reqs)
	n.reqs = append(n.reqs, ri)
	for _, r := range n.rules {
		if (r.Key == ri.Key && (r.Always || r.Nth == cnt)) || (r.Key == -1 && r.Nth == anyCnt) {
			ri.Act = r.Act
			return r
		}
	}
	return Rule{Act: Pass}
}

func (c *conn) Write(p []byte) (int, error) {
	c.wmu.Lock()
	defer c.wmu.Unlock()
	c.wbuf = append(c.wbuf, p...)
	for len(c.wbuf) >= 4 {
		l := int(binary.BigEndian.Uint32(c.wbuf))
		if l < 8 || len(c.wbuf) < 4+l {
			break
		}
		frame := c.wbuf[:4+l]
		ri := &ReqInfo{Conn: c.id, Addr: c.addr, Key: int16(binary.BigEndian.Uint16(frame[4:])), Version: int16(binary.BigEndian.Uint16(frame[6:])), Corr: int32(binary.BigEndian.Uint32(frame[8:]))}
		c.n.mu.Lock()
		keep := c.n.keep
		c.n.mu.Unlock()
		if keep {
			ri.Frame = append([]byte(nil), frame...)
		}
		rule := c.n.decide(ri)
		c.n.mu.Lock()
		onReq := c.n.OnReq
		c.n.mu.Unlock()
		if onReq != nil {
			onReq(ri)
		}
		if rule.Act == KillBefore {
			c.Conn.Close()
			return 0, errors.New("faultnet: connection killed before request was forwarded")
		}
		c.pmu.Lock()
		ri.rule = rule
		c.pending[ri.Corr] = ri
		c.pmu.Unlock()
		if _, err := c.Conn.Write(frame); err != nil {
			return 0, err
		}
		c.wbuf = c.wbuf[4+l:]
	}
	return len(p), nil
}

func (c *conn) Read(p []byte) (int, error) {
	c.rmu.Lock()
	defer c.rmu.Unlock()
	for len(c.rbuf) == 0 {
		if c.rerr != nil {
			return 0, c.rerr
		}
		var hdr [4]byte
		if _, err := io.ReadFull(c.Conn, hdr[:]); err != nil {
			c.rerr = err
			return 0, err
		}
		l := int(binary.BigEndian.Uint32(hdr[:]))
		if l < 4 || l > 1<<30 {
			c.rerr = errors.New("faultnet: bad response frame")
			return 0, c.rerr
		}
		body := make([]byte, l)
		if _, err := io.ReadFull(c.Conn, body); err != nil {
			c.rerr = err
			return 0, err
		}
		corr := int32(binary.BigEndian.Uint32(body))
		c.pmu.Lock()
		ri := c.pending[corr]
		delete(c.pending, corr)
		c.pmu.Unlock()
		c.n.mu.Lock()
		delayAll, blackhole := c.n.DelayAll, c.n.Blackhole
		c.n.mu.Unlock()
		if blackhole {
			if ri != nil {
				c.n.mu.Lock()
				ri.Handled = true // the broker answered; the answer is what gets lost
				c.n.mu.Unlock()
			}
			continue // drop the response, keep waiting (until the client gives up and closes)
		}
		if delayAll > 0 {
			time.Sleep(delayAll)
		}
		if c.killed.Load() {
			c.rerr = errors.New("faultnet: connection killed")
			return 0, c.rerr
		}
		var rule Rule
		if ri != nil {
			c.n.mu.Lock()
			ri.Handled = true
			c.n.mu.Unlock()
			rule = ri.rule
			c.n.mu.Lock()
			onResp := c.n.OnResp
			c.n.mu.Unlock()
			if onResp != nil {
				onResp(ri, body)
			}
		}
		switch rule.Act {
		case DropResponse:
			c.Conn.Close()
			c.rerr = errors.New("faultnet: connection killed after the broker handled the request")
			return 0, c.rerr
		case TruncResponse:
			full := append(hdr[:], body...)
			k := rule.Trunc
			if k <= 0 || k >= len(full) {
				k = len(full) / 2
			}
			c.rbuf = append(c.rbuf, full[:k]...)
			c.Conn.Close()
			c.rerr = io.ErrUnexpectedEOF
		case RewriteResponse:
			if rule.Delay > 0 {
				time.Sleep(rule.Delay) // later responses of this connection queue up behind it
			}
			if rule.Rewrite != nil {
				if nb := rule.Rewrite(ri, body); nb != nil {
					body = nb
					binary.BigEndian.PutUint32(hdr[:], uint32(len(body)))
				}
			}
			c.rbuf = append(append(c.rbuf, hdr[:]...), body...)
		case DelayResponse:
			time.Sleep(rule.Delay)
			if c.killed.Load() {
				c.rerr = errors.New("faultnet: connection killed")
				return 0, c.rerr
			}
			c.rbuf = append(append(c.rbuf, hdr[:]...), body...)
		default:
			c.rbuf = append(append(c.rbuf, hdr[:]...), body...)
		}
	}
	k := copy(p, c.rbuf)
	c.rbuf = c.rbuf[k:]
	return k, nil
}

// Spinning reports whether the spin watchdog fired, and on which request key.
func (n *Net) Spinning() (bool, int16) { n.mu.Lock(); defer n.mu.Unlock(); return n.Spin, n.SpinKey }
