//go:build !race

package bubble

const raceOn = false
