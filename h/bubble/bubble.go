package bubble

import (
	"context"
	"encoding/json"
	"fmt"
	"os"
	"runtime"
	"strings"
	"sync"
	"testing"
	"testing/synctest"
	"time"

	"github.com/twmb/franz-go/pkg/kfake"
	"github.com/twmb/franz-go/pkg/kgo"
	"github.com/twmb/franz-go/pkg/kmsg"
	"pgregory.net/rapid"
)

// Event is one entry of the history log.
type Event struct {
	N    int           `json:"n"`
	At   time.Duration `json:"at_ns"` // virtual time since the bubble started
	Kind string        `json:"kind"`
	ID   int64         `json:"id,omitempty"`
	S    string        `json:"s,omitempty"`
	Err  string        `json:"err,omitempty"`
	A    int64         `json:"a,omitempty"`
	B    int64         `json:"b,omitempty"`
}

// History is an append-only, goroutine-safe event log.
type History struct {
	mu    sync.Mutex
	start time.Time
	evs   []Event
}

// Add appends an event and returns its index.
func (h *History) Add(kind string, id int64, s string, err error, a, b int64) int {
	h.mu.Lock()
	defer h.mu.Unlock()
	e := Event{N: len(h.evs), At: time.Since(h.start), Kind: kind, ID: id, S: s, A: a}
	e.B = b
	if err != nil {
		e.Err = err.Error()
	}
	h.evs = append(h.evs, e)
	return e.N
}

// Snapshot copies the log.
func (h *History) Snapshot() []Event {
	h.mu.Lock()
	defer h.mu.Unlock()
	return append([]Event(nil), h.evs...)
}

// Len returns the number of events.
func (h *History) Len() int { h.mu.Lock(); defer h.mu.Unlock(); return len(h.evs) }

// Dump renders the tail of the log for failure messages.
func (h *History) Dump(max int) string {
	evs := h.Snapshot()
	if len(evs) > max {
		evs = evs[len(evs)-max:]
	}
	var b strings.Builder
	for _, e := range evs {
		fmt.Fprintf(&b, "  #%d t=%v %s id=%d %s a=%d b=%d err=%q\n", e.N, e.At, e.Kind, e.ID, e.S, e.A, e.B, e.Err)
	}
	return b.String()
}

// Env is one bubble: fault net, cluster, clients, log.
type Env struct {
	RT      *rapid.T // only valid on the property goroutine
	TT      *testing.T
	Net     *Net
	Cluster *kfake.Cluster
	Log     *History
	Ports   []int

	mu      sync.Mutex
	clients []*kgo.Client
	closers []func()
	wg      sync.WaitGroup
}

// ClusterOpts are the knobs of NewCluster.
type ClusterOpts struct {
	Brokers    int
	Topics     map[string]int32 // seed topics
	AutoCreate bool
	Extra      []kfake.Opt
}

// StartCluster creates the kfake cluster on the fault net.
func (e *Env) StartCluster(o ClusterOpts) {
	if o.Brokers <= 0 {
		o.Brokers = 1
	}
	ports := make([]int, o.Brokers)
	for i := range ports {
		ports[i] = 9092 + i
	}
	e.Ports = ports
	opts := []kfake.Opt{kfake.NumBrokers(o.Brokers), kfake.Ports(ports...), kfake.ListenFn(e.Net.Listen)}
	byN := map[int32][]string{}
	for t, n := range o.Topics {
		byN[n] = append(byN[n], t)
	}
	for n, ts := range byN {
		opts = append(opts, kfake.SeedTopics(n, ts...))
	}
	if o.AutoCreate {
		opts = append(opts, kfake.AllowAutoTopicCreation())
	}
	opts = append(opts, o.Extra...)
	c, err := kfake.NewCluster(opts...)
	if err != nil {
		panic(fmt.Sprintf("VERIF-INFRA: kfake.NewCluster: %v", err))
	}
	e.Cluster = c
}

// Addrs returns the seed broker addresses.
func (e *Env) Addrs() []string { return e.Cluster.ListenAddrs() }

// BaseOpts returns client options common to all bubble clients: virtual dialer, small
// backoffs and metadata ages so that virtual-time bounds of a few minutes are generous.
func (e *Env) BaseOpts() []kgo.Opt {
	opts := []kgo.Opt{
		kgo.SeedBrokers(e.Addrs()...),
		kgo.Dialer(e.Net.DialContext),
		kgo.MetadataMinAge(50 * time.Millisecond),
		kgo.MetadataMaxAge(2 * time.Second),
		kgo.RetryBackoffFn(func(int) time.Duration { return 20 * time.Millisecond }),
	}
	if os.Getenv("VERIF_KGO_LOG") != "" { // debugging aid only: the client's own debug log on stderr
		start := e.Log.start
		opts = append(opts, kgo.WithLogger(kgo.BasicLogger(os.Stderr, kgo.LogLevelDebug, func() string { return fmt.Sprintf("[kgo t=%v] ", time.Since(start)) })))
	}
	return opts
}

// NewClient creates a client that is closed at teardown if the test did not close it.
func (e *Env) NewClient(opts ...kgo.Opt) *kgo.Client {
	cl, err := kgo.NewClient(append(e.BaseOpts(), opts...)...)
	if err != nil {
		panic(fmt.Sprintf("VERIF-INFRA: kgo.NewClient: %v", err))
	}
	e.mu.Lock()
	e.clients = append(e.clients, cl)
	e.mu.Unlock()
	return cl
}

// Go runs f on a bubble goroutine tracked for teardown.
func (e *Env) Go(f func()) {
	e.wg.Add(1)
	go func() {
		defer e.wg.Done()
		f()
	}()
}

// OnTeardown registers a function run before clients are closed.
func (e *Env) OnTeardown(f func()) { e.mu.Lock(); e.closers = append(e.closers, f); e.mu.Unlock() }

// Sleep advances virtual time.
func (e *Env) Sleep(d time.Duration) { time.Sleep(d) }

// Settle waits until every bubble goroutine is durably blocked.
func (e *Env) Settle() { synctest.Wait() }

// WaitTimeout waits for done to be closed for at most d of virtual time.
func WaitTimeout(done <-chan struct{}, d time.Duration) bool {
	t := time.NewTimer(d)
	defer t.Stop()
	select {
	case <-done:
		return true
	case <-t.C:
		return false
	}
}

// KgoGoroutines returns the stacks of goroutines that have a pkg/kgo frame.
func KgoGoroutines() []string {
	buf := make([]byte, 1<<20)
	for {
		n := runtime.Stack(buf, true)
		if n < len(buf) {
			buf = buf[:n]
			break
		}
		buf = make([]byte, 2*len(buf))
	}
	var out []string
	for _, g := range strings.Split(string(buf), "\n\n") {
		if strings.Contains(g, "franz-go/pkg/kgo.") && !strings.Contains(g, "verif/h/") {
			out = append(out, g)
		}
	}
	return out
}

type failure struct{ v any }

// Run executes body inside a fresh synctest bubble. A rapid failure (or any panic)
// raised inside the bubble is recovered there, the bubble is torn down, and the
// panic is re-raised on the caller's goroutine so that rapid can shrink.
func Run(tt *testing.T, rt *rapid.T, body func(e *Env)) {
	var saved *failure
	inner := func(bt *testing.T) {
		defer func() {
			// synctest.Test itself panics (deadlock) if goroutines remain blocked
			if r := recover(); r != nil && saved == nil {
				saved = &failure{r}
			}
		}()
		synctest.Test(bt, func(t *testing.T) {
			e := &Env{RT: rt, TT: t, Net: NewNet(), Log: &History{start: time.Now()}}
			if raceOn {
				// a hot loop at one virtual instant costs an order of magnitude more real time under
				// the race detector: break it earlier (such cases are inconclusive either way)
				e.Net.SpinLimit = 4000
			}
			defer func() {
				if r := recover(); r != nil {
					saved = &failure{r}
				}
				e.teardown()
			}()
			body(e)
		})
	}
	if !raceOn || rt == nil {
		inner(tt)
		if saved != nil {
			panic(saved.v)
		}
		return
	}
	// Built with -race: the testing package marks the bubble's T failed when the race detector
	// reported while it ran, and synctest.Test then calls FailNow on the T it was given, which
	// would end the whole rapid run without saying which case raced. Each case therefore runs
	// in a subtest of its own: only the subtest ends, and the case is failed through rapid, which
	// prints its draws (the plan) next to the detector's report.
	ok := tt.Run("case", inner)
	if saved != nil {
		panic(saved.v)
	}
	if !ok {
		rt.Fatalf("the race detector reported a data race while this case ran (see the WARNING: DATA RACE report above); the case's draws follow")
	}
}

func (e *Env) teardown() {
	defer func() {
		// a panic during teardown must not mask the original failure
		recover()
	}()
	e.mu.Lock()
	closers := e.closers
	clients := e.clients
	e.mu.Unlock()
	for _, f := range closers {
		f()
	}
	e.Net.ClearRules()
	e.Net.SetMode(0, false)
	e.Net.Unblock()
	for _, cl := range clients {
		done := make(chan struct{})
		go func() { cl.CloseAllowingRebalance(); close(done) }()
		if !WaitTimeout(done, 5*time.Minute) {
			// cannot finish: kill the network underneath it and keep going
			e.Net.Block(true)
			WaitTimeout(done, 5*time.Minute)
		}
	}
	if e.Cluster != nil {
		e.Cluster.Close()
	}
	wdone := make(chan struct{})
	go func() { e.wg.Wait(); close(wdone) }()
	WaitTimeout(wdone, 10*time.Minute)
}

// RawClient returns a plain client used only as a transport for raw kmsg requests
// issued by the harness (ground-truth reads); it bypasses the fault rules only in the
// sense that callers clear the rules first.
func (e *Env) RawClient() *kgo.Client {
	return e.NewClient(kgo.ClientID("verif-raw"))
}

// LogRec is one record read back from the log by the harness.
type LogRec struct {
	Offset  int64
	Key     []byte
	Value   []byte
	Control bool
	Txn     bool
	PID     int64
	Epoch   int16
	Aborted bool // belongs to an aborted transaction (per AbortedTransactions + markers)
}

// ReadLog reads an entire partition with raw Fetch requests (isolation 0 or 1) and
// decodes batches with kmsg only. It does not use the client's fetch parsing.
func (e *Env) ReadLog(raw *kgo.Client, topic string, partition int32, isolation int8) ([]LogRec, int64, error) {
	ctx, cancel := context.WithTimeout(context.Background(), 2*time.Minute)
	defer cancel()
	// topic id
	mreq := kmsg.NewPtrMetadataRequest()
	mt := kmsg.NewMetadataRequestTopic()
	mt.Topic = kmsg.StringPtr(topic)
	mreq.Topics = append(mreq.Topics, mt)
	mresp, err := mreq.RequestWith(ctx, raw)
	if err != nil {
		return nil, 0, err
	}
	if len(mresp.Topics) != 1 || mresp.Topics[0].ErrorCode != 0 {
		return nil, 0, fmt.Errorf("metadata for %s failed", topic)
	}
	tid := mresp.Topics[0].TopicID
	var leader int32 = -1
	for _, p := range mresp.Topics[0].Partitions {
		if p.Partition == partition {
			leader = p.Leader
		}
	}
	if leader < 0 {
		return nil, 0, fmt.Errorf("no leader for %s/%d", topic, partition)
	}
	var out []LogRec
	off := int64(0)
	// start at log start
	lreq := kmsg.NewPtrListOffsetsRequest()
	lreq.ReplicaID = -1
	lt := kmsg.NewListOffsetsRequestTopic()
	lt.Topic = topic
	lp := kmsg.NewListOffsetsRequestTopicPartition()
	lp.Partition = partition
	lp.Timestamp = -2
	lp.CurrentLeaderEpoch = -1
	lt.Partitions = append(lt.Partitions, lp)
	lreq.Topics = append(lreq.Topics, lt)
	if lresp, err := lreq.RequestWith(ctx, raw.Broker(int(leader))); err == nil && len(lresp.Topics) == 1 && len(lresp.Topics[0].Partitions) == 1 && lresp.Topics[0].Partitions[0].ErrorCode == 0 {
		off = lresp.Topics[0].Partitions[0].Offset
	}
	var hwm int64
	for iter := 0; iter < 100000; iter++ {
		freq := kmsg.NewPtrFetchRequest()
		freq.ReplicaID = -1
		freq.MaxWaitMillis = 0
		freq.MinBytes = 0
		freq.MaxBytes = 8 << 20
		freq.IsolationLevel = isolation
		freq.SessionEpoch = -1
		ft := kmsg.NewFetchRequestTopic()
		ft.Topic = topic
		ft.TopicID = tid
		fp := kmsg.NewFetchRequestTopicPartition()
		fp.Partition = partition
		fp.FetchOffset = off
		fp.CurrentLeaderEpoch = -1
		fp.PartitionMaxBytes = 8 << 20
		ft.Partitions = append(ft.Partitions, fp)
		freq.Topics = append(freq.Topics, ft)
		fresp, err := freq.RequestWith(ctx, raw.Broker(int(leader)))
		if err != nil {
			return nil, 0, err
		}
		if len(fresp.Topics) != 1 || len(fresp.Topics[0].Partitions) != 1 {
			return nil, 0, fmt.Errorf("fetch response shape")
		}
		rp := fresp.Topics[0].Partitions[0]
		if rp.ErrorCode != 0 {
			return nil, 0, fmt.Errorf("fetch error code %d", rp.ErrorCode)
		}
		hwm = rp.HighWatermark
		end := hwm
		if isolation == 1 {
			end = rp.LastStableOffset
		}
		aborted := map[int64][]int64{}
		for _, a := range rp.AbortedTransactions {
			aborted[a.ProducerID] = append(aborted[a.ProducerID], a.FirstOffset)
		}
		data := rp.RecordBatches
		progressed := false
		for len(data) >= 61 {
			var b kmsg.RecordBatch
			if err := b.ReadFrom(data); err != nil {
				break
			}
			total := int(b.Length) + 12
			if total > len(data) {
				break
			}
			data = data[total:]
			last := b.FirstOffset + int64(b.LastOffsetDelta)
			if last < off {
				continue
			}
			control := b.Attributes&0x20 != 0
			txn := b.Attributes&0x10 != 0
			recs := b.Records
			if codec := b.Attributes & 0x7; codec != 0 {
				// compression itself is C19's subject; here the client's decompressor is trusted
				var derr error
				recs, derr = kgo.DefaultDecompressor().Decompress(recs, kgo.CompressionCodecType(codec))
				if derr != nil {
					return nil, 0, fmt.Errorf("raw read: decompress: %v", derr)
				}
			}
			for i := int32(0); i < b.NumRecords; i++ {
				var r kmsg.Record
				// length-prefixed record
				l, n := varint(recs)
				if n <= 0 || int(l) > len(recs)-n {
					return nil, 0, fmt.Errorf("bad record framing")
				}
				if err := r.ReadFrom(recs[:n+int(l)]); err != nil {
					return nil, 0, err
				}
				recs = recs[n+int(l):]
				o := b.FirstOffset + int64(r.OffsetDelta)
				if o < off {
					continue
				}
				out = append(out, LogRec{Offset: o, Key: r.Key, Value: r.Value, Control: control, Txn: txn, PID: b.ProducerID, Epoch: b.ProducerEpoch})
			}
			off = last + 1
			progressed = true
		}
		if off >= end || !progressed {
			break
		}
	}
	return out, hwm, nil
}

func varint(in []byte) (int32, int) {
	var x uint32
	for i := 0; i < len(in) && i < 5; i++ {
		x |= uint32(in[i]&0x7f) << (7 * uint(i))
		if in[i]&0x80 == 0 {
			return int32((x >> 1) ^ -(x & 1)), i + 1
		}
	}
	return 0, 0
}

// JSON renders v for replay files.
func JSON(v any) string {
	b, _ := json.MarshalIndent(v, "", " ")
	return string(b)
}
