package e2e

import (
	"fmt"
	"testing"

	"pgregory.net/rapid"

	"verif/h/bubble"
	"verif/h/ev"
	"verif/h/wl"
)

func TestMain(m *testing.M) { ev.Main(m, "C27") }

// The client half of C27 ("if members then revoke what they lost and rejoin, the next
// rebalance completes the intended assignment"): real cooperative-sticky members against
// kfake's classic group coordinator. The balancer simulation in the parent package plays the
// members' part itself (keep the intersection, revoke the rest, rejoin); here the client does,
// through diffAssigned / revoke / rejoin. Members join one after another (and occasionally
// leave) on topics that mostly carry no records, so that the member that has to give
// partitions up has nothing uncommitted; three virtual minutes after the last change every
// partition must have exactly one owner, and no hand-off may overlap.

func converges(t *testing.T, focus wl.GroupFocus) {
	rapid.Check(t, func(rt *rapid.T) {
		plan := wl.GenGroupPlanF(rt, focus)
		plan.DefaultRevoke = false
		var o *wl.GroupObs
		bubble.Run(t, rt, func(e *bubble.Env) {
			o = wl.RunGroup(e, plan)
			fail := func(format string, a ...any) {
				rt.Fatalf("%s\nplan: %s\nhistory tail:\n%s", fmt.Sprintf(format, a...), plan.Brief(), o.Log.Dump(60))
			}
			if o.DualOwnership != "" {
				fail("a cooperative rebalance handed a partition over while its previous owner still held it: %s", o.DualOwnership)
			}
			if len(o.Unowned) > 0 {
				fail("the group did not settle: membership and subscriptions stopped changing 3 virtual minutes ago, but %d partition(s) have no owner: %v (live members %v, final owners %v)", len(o.Unowned), o.Unowned, o.Live, o.FinalOwner)
			}
		})
		ev.Case("e2e|"+o.Digest(), o.Moves > 0)
		ev.Class("e2e:cooperative-sticky-clients-against-kfake")
		if o.Moves > 0 {
			ev.Class("e2e:member-gave-up-partitions-in-a-cooperative-rebalance")
		}
	})
}

func TestClientsConvergeIdle(t *testing.T) { converges(t, wl.GroupFocus{CoopIdle: true}) }
