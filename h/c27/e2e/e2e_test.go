package e2e

import (
	"fmt"
	"testing"
	"time"

	"pgregory.net/rapid"

	"verif/h/bubble"
	"verif/h/ev"
	"verif/h/wl"
)

func TestMain(m *testing.M) { ev.Main(m, "C27") }

// The client half of C27 ("if members then revoke what they lost and rejoin, the next
// rebalance completes the intended assignment"): real cooperative-sticky members against
// kfake's classic group coordinator. The balancer simulation in the parent package plays the
// members' part itself (keep the intersection, revoke the rest, rejoin); here the client does,
// through diffAssigned / revoke / rejoin. Members join one after another (and occasionally
// leave) on topics that mostly carry no records, so that the member that has to give
// partitions up has nothing uncommitted; three virtual minutes after the last change every
// partition must have exactly one owner, and no hand-off may overlap.

func converges(t *testing.T, focus wl.GroupFocus) {
	rapid.Check(t, func(rt *rapid.T) {
		plan := wl.GenGroupPlanF(rt, focus)
		plan.DefaultRevoke = false
		var o *wl.GroupObs
		bubble.Run(t, rt, func(e *bubble.Env) {
			o = wl.RunGroup(e, plan)
			fail := func(format string, a ...any) {
				rt.Fatalf("%s\nplan: %s\nhistory tail:\n%s", fmt.Sprintf(format, a...), plan.Brief(), o.Log.Dump(60))
			}
			if o.DualOwnership != "" {
				fail("a cooperative rebalance handed a partition over while its previous owner still held it: %s", o.DualOwnership)
			}
			if len(o.Unowned) > 0 {
				fail("the group did not settle: membership and subscriptions stopped changing 3 virtual minutes ago, but %d partition(s) have no owner: %v (live members %v, final owners %v)", len(o.Unowned), o.Unowned, o.Live, o.FinalOwner)
			}
		})
		ev.Case("e2e|"+o.Digest(), o.Moves > 0)
		ev.Class("e2e:cooperative-sticky-clients-against-kfake")
		if o.Moves > 0 {
			ev.Class("e2e:member-gave-up-partitions-in-a-cooperative-rebalance")
		}
	})
}

func TestClientsConvergeIdle(t *testing.T) { converges(t, wl.GroupFocus{CoopIdle: true}) }

// TestOnlyFirstMemberLosesTwice is the one shape in which nothing else can repair a member that
// revokes without rejoining: 5 idle partitions, three members joining well apart. The first
// member goes 5 -> 3 -> 2 while the second keeps its 2: at the third join the first member is
// the only one that has to give a partition up, so its rejoin is the only thing that can start
// the rebalance that hands the partition to the newcomer. Also run with 3 partitions (2,1 ->
// 1,1,1) and with four members.
func TestOnlyFirstMemberLosesTwice(t *testing.T) {
	for _, c := range []struct {
		parts int32
		n     int
	}{{5, 3}, {3, 3}, {5, 4}, {9, 5}} {
		plan := wl.GroupPlan{Brokers: 1, Protocol: "coop", Topics: []string{"g0"}, Parts: []int32{c.parts}, Late: []bool{false}, Slots: c.n, AutoCommit: time.Second, PollEvery: 100 * time.Millisecond, NoTraffic: true}
		for s := 0; s < c.n; s++ {
			plan.InitTopics = append(plan.InitTopics, []int{0})
			plan.Steps = append(plan.Steps, wl.GroupStep{Kind: "join", Slot: s, Delay: 10 * time.Second})
		}
		var o *wl.GroupObs
		bubble.Run(t, nil, func(e *bubble.Env) { o = wl.RunGroup(e, plan) })
		ev.Case(fmt.Sprintf("e2e-fixed|%d|%d", c.parts, c.n), true)
		if o.DualOwnership != "" {
			t.Fatalf("%d partitions, %d members joining 10 s apart: %s", c.parts, c.n, o.DualOwnership)
		}
		if len(o.Unowned) > 0 {
			t.Fatalf("%d idle partitions, %d cooperative-sticky members joining 10 s apart: 3 virtual minutes after the last join %v have no owner (final owners %v)\nhistory tail:\n%s", c.parts, c.n, o.Unowned, o.FinalOwner, o.Log.Dump(60))
		}
	}
}
