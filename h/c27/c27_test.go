// Package c27 checks property C27: cooperative rebalances hand off safely and
// converge. The balancing is the real CooperativeStickyBalancer behind the public
// kgo.GroupBalancer API; the members' side of the cooperative protocol (keep what
// was assigned, revoke what was lost, rejoin with the new generation if anything
// was lost) is modelled in verif/h/balsim after consumer_group.go
// (handleSyncResp, diffAssigned, setupAssignedAndHeartbeat, revoke + rejoin,
// joinGroupProtocols).
package c27

import (
	"encoding/json"
	"fmt"
	"os"
	"slices"
	"sort"
	"strings"
	"testing"

	"pgregory.net/rapid"

	bs "verif/h/balsim"
	"verif/h/ev"
)

func TestMain(m *testing.M) { ev.Main(m, "C27") }

var coop = bs.Balancer(bs.CoopSticky)

type history struct {
	rounds []bs.RoundResult
	notes  []string
}

func (h *history) String() string {
	var sb strings.Builder
	for i, r := range h.rounds {
		if i < len(h.notes) && h.notes[i] != "" {
			fmt.Fprintf(&sb, "  before round %d: %s\n", i+1, h.notes[i])
		}
		fmt.Fprintf(&sb, "  round %d join: %s\n  round %d plan: %s\n", i+1, r.In, i+1, r.Plan)
	}
	return sb.String()
}

func fail(t bs.TB, h *history, what, detail string) {
	t.Helper()
	msg := fmt.Sprintf("C27 %s: %s\n%s", what, detail, h)
	w := bs.Witness{Check: "C27", Balancer: "cooperative-sticky", What: what, Text: msg}
	for _, r := range h.rounds {
		w.Rounds = append(w.Rounds, r.In)
	}
	if len(h.rounds) > 0 {
		w.Input = h.rounds[0].In
		w.Plan = h.rounds[len(h.rounds)-1].Plan
	}
	ev.Replay("c27-witness.json", w)
	t.Fatalf("%s", msg)
}

// round runs one rebalance, appends it to the history and applies the per-round
// safety oracle.
func round(t bs.TB, h *history, members []bs.Member, counts map[string]int32, gen int32, note string) bs.RoundResult {
	rr, err := bs.Round(coop, members, counts, gen)
	h.rounds = append(h.rounds, rr)
	for len(h.notes) < len(h.rounds)-1 {
		h.notes = append(h.notes, "")
	}
	h.notes = append(h.notes, note)
	if err != nil {
		if _, infra := err.(*bs.InfraError); infra {
			t.Fatalf("%v", err)
		}
		fail(t, h, "balancer failed", err.Error())
	}
	if err := bs.CheckHandoff(rr.In, rr.Plan); err != nil {
		fail(t, h, fmt.Sprintf("unsafe hand-off in round %d", len(h.rounds)), err.Error())
	}
	return rr
}

// completes asserts what "the next rebalance completes the intended assignment"
// implies for round cur, which follows round prev with unchanged membership,
// subscriptions and partition counts: nobody has to revoke anything any more,
// everything a member kept or was given in prev is still there, and nothing is
// withheld (every partition of every subscribed topic is assigned, exactly once,
// to a subscriber).
func completes(t bs.TB, h *history, prev, cur bs.RoundResult) {
	n := len(h.rounds)
	if cur.AnyLost {
		var who []string
		for i, m := range cur.In.Members {
			for tn, ps := range m.Owned {
				for _, p := range ps {
					if !slices.Contains(cur.Plan[m.ID][tn], p) {
						who = append(who, fmt.Sprintf("%s loses %s[%d]", cur.In.Members[i].ID, tn, p))
					}
				}
			}
		}
		sort.Strings(who)
		fail(t, h, "group does not settle within two rebalances",
			fmt.Sprintf("round %d follows round %d with unchanged membership, subscriptions and partition counts (every member revoked what it lost and rejoined), yet members must revoke again: %v", n, n-1, who))
	}
	if d := bs.Superset(cur.In, cur.Plan, prev.Plan); d != "" {
		fail(t, h, "second rebalance does not complete the first", d)
	}
	if _, err := bs.CheckValid(cur.In, cur.Plan, false); err != nil {
		fail(t, h, "second rebalance does not complete the assignment", err.Error())
	}
}

const maxSettleRounds = 8

// secondRound judges r2, the rebalance that follows r1 with nothing changed. In
// general it must complete r1. For the input class of the known finding (only
// while that finding is listed as open and still reproduces) the two-rebalance
// claim is not asserted; instead further unchanged rounds are run (safety checked
// in each) until nobody has to revoke, which must happen within maxSettleRounds
// rebalances in total and must end in a complete valid assignment. It returns the
// settled round and the next free generation.
func secondRound(t bs.TB, h *history, r1, r2 bs.RoundResult, members []bs.Member, counts map[string]int32, gen int32) (bs.RoundResult, int32) {
	if !(knownOpen() && inKnownClass(r2.In)) {
		completes(t, h, r1, r2)
		return r2, gen
	}
	ev.Excluded(knownKey)
	cur, n := r2, 2
	for cur.AnyLost {
		if n == maxSettleRounds {
			fail(t, h, "group does not settle", fmt.Sprintf("with unchanged membership, subscriptions and partition counts members still have to revoke after %d rebalances", n))
		}
		cur = round(t, h, members, counts, gen, "")
		gen++
		n++
	}
	if n > 2 {
		ev.Class(fmt.Sprintf("known_finding_class_settled_after_%d_rebalances", n))
	}
	if _, err := bs.CheckValid(cur.In, cur.Plan, false); err != nil {
		fail(t, h, "settled assignment is not complete", err.Error())
	}
	return cur, gen
}

func unchanged(t bs.TB, h *history, prev, cur bs.RoundResult) {
	if d := bs.SamePlan(cur.In, prev.Plan, cur.Plan); d != "" {
		fail(t, h, "a settled group changes its assignment on a further rebalance", "round "+fmt.Sprint(len(h.rounds))+" differs from the settled plan: (settled vs now) "+d)
	}
	if cur.AnyLost {
		fail(t, h, "a settled group changes its assignment on a further rebalance", "a member lost partitions")
	}
}

// threeRounds: arbitrary prior state -> round 1 (safety) -> round 2 (safety,
// completes round 1) -> forced round 3 (changes nothing).
func threeRounds(t bs.TB, in bs.Input, digest string) {
	h := &history{}
	members := bs.CloneMembers(in.Members)
	gen := bs.NextGen(members)
	r1 := round(t, h, members, in.Counts, gen, "")
	st, _ := bs.CheckValid(r1.In, r1.Plan, true)
	r2 := round(t, h, members, in.Counts, gen+1, "")
	settled, next := secondRound(t, h, r1, r2, members, in.Counts, gen+2)
	r3 := round(t, h, members, in.Counts, next, "")
	unchanged(t, h, settled, r3)

	s := bs.Describe(in)
	for name, on := range map[string]bool{
		"stale_generation_claimant": s.StaleConflict, "equal_generation_conflict": s.EqualConflict, "uneven_subscriptions": s.Uneven,
		"claim_on_unsubscribed_or_gone": s.StaleOwned, "round1_withholds_partitions": st.Withheld > 0, "round1_somebody_revokes": r1.AnyLost,
	} {
		if on {
			ev.Class("three_" + name)
		}
	}
	// non-trivial: the first rebalance really is a two-phase one
	ev.Case("three|"+digest, r1.AnyLost && len(in.Members) >= 2)
}

func TestHandoffSmallExhaustive(t *testing.T) {
	sh, nsh := ev.Shard()
	idx := 0
	sampled := false
	bs.EachSmall(func(c bs.SmallCfg) {
		idx++
		if idx%nsh != sh {
			return
		}
		for k := 0; k < bs.NumOwnPatterns; k++ {
			in := c.Input()
			bs.ApplyOwnPattern(&in, k)
			threeRounds(t, in, fmt.Sprintf("%s own%d", c.Key(), k))
			if !sampled && k == 3 && c.N == 3 && c.Counts == [2]int{3, 3} && c.Subs == [3]int{3, 3, 3} {
				sampled = true
				ms := bs.CloneMembers(in.Members)
				r1, _ := bs.Round(coop, ms, in.Counts, 4)
				r2, _ := bs.Round(coop, ms, in.Counts, 5)
				ev.Sample(map[string]any{"kind": "small space, stale claimant m0 vs current owner m2", "round1_join": r1.In.String(), "round1_plan": r1.Plan.String(), "round2_join": r2.In.String(), "round2_plan": r2.Plan.String()})
			}
		}
	})
	ev.Exhaustive(true)
}

func genOpts() bs.GenOpts {
	if ev.Thorough() {
		return bs.GenOpts{MaxMembers: 20, MaxTopics: 5, MaxParts: 12, Priors: true, Hostile: true}
	}
	return bs.GenOpts{MaxMembers: 12, MaxTopics: 5, MaxParts: 10, Priors: true, Hostile: true}
}

func sumCounts(in bs.Input) int {
	n := 0
	for _, c := range in.Counts {
		n += int(c)
	}
	return n
}

func TestHandoffRandom(t *testing.T) {
	n := 0
	rapid.Check(t, func(t *rapid.T) {
		in := bs.GenInput(t, genOpts())
		d := in.String()
		threeRounds(t, in, d)
		n++
		if n%53 == 11 && bs.Describe(in).StaleConflict && sumCounts(in) >= 4 {
			ev.SampleIf(func() any {
				ms := bs.CloneMembers(in.Members)
				r1, _ := bs.Round(coop, ms, in.Counts, bs.NextGen(ms))
				return map[string]any{"kind": "random prior state with stale claimant", "round1_join": d, "round1_plan": r1.Plan.String()}
			})
		}
	})
}

// TestHistoryRandom: sequences of rebalance rounds with events in between:
// subscription changes, members leaving (they keep their stale state), stale
// members returning with their old claims and generation, new members, topics
// growing / appearing / disappearing. Safety is checked in every round;
// convergence whenever nothing changed since the previous round.
func TestHistoryRandom(t *testing.T) {
	rapid.Check(t, func(t *rapid.T) {
		o := genOpts()
		o.MaxMembers = min(o.MaxMembers, 10)
		in := bs.GenInput(t, o)
		members := bs.CloneMembers(in.Members)
		counts := map[string]int32{}
		for tn, n := range in.Counts {
			counts[tn] = n
		}
		allTopics := []string{"t0", "t1", "t2", "t3", "t4"}
		var away []bs.Member
		h := &history{}
		gen := bs.NextGen(members)
		nextID := 50
		var prev *bs.RoundResult
		streak := 0    // consecutive rounds without an event before them
		unsettled := 0 // known-finding class only: unchanged rounds in a row that still revoked
		changedSincePrev := true
		note := "arbitrary prior state"
		nRounds := rapid.IntRange(2, 9).Draw(t, "rounds")
		sawStaleReturn, sawSubChange := false, false
		for r := 0; r < nRounds; r++ {
			if r > 0 {
				note = ""
				// if somebody revoked in the previous round the group rebalances on its
				// own; otherwise a rebalance needs an event (or is forced)
				ne := rapid.IntRange(0, 2).Draw(t, "nevents")
				for e := 0; e < ne; e++ {
					switch rapid.IntRange(0, 5).Draw(t, "event") {
					case 0: // subscription change
						i := rapid.IntRange(0, len(members)-1).Draw(t, "who")
						var subs []string
						for _, tn := range allTopics {
							if rapid.Bool().Draw(t, "sub") {
								subs = append(subs, tn)
							}
						}
						if !slices.Equal(subs, members[i].Topics) {
							members[i].Topics = subs
							note += fmt.Sprintf("%s subscribes %v; ", members[i].ID, subs)
							changedSincePrev, sawSubChange = true, true
						}
					case 1: // a member drops out without leaving cleanly; it keeps its state
						if len(members) > 1 {
							i := rapid.IntRange(0, len(members)-1).Draw(t, "who")
							away = append(away, members[i])
							note += members[i].ID + " drops out; "
							members = slices.Delete(members, i, i+1)
							changedSincePrev = true
						}
					case 2: // a stale member returns with its old claims and generation
						if len(away) > 0 {
							i := rapid.IntRange(0, len(away)-1).Draw(t, "which")
							members = append(members, away[i])
							note += fmt.Sprintf("%s returns with generation %d claims; ", away[i].ID, away[i].Gen)
							away = slices.Delete(away, i, i+1)
							changedSincePrev, sawStaleReturn = true, true
						}
					case 3: // a new member
						m := bs.Member{ID: fmt.Sprintf("m%02d", nextID), Gen: -1}
						nextID++
						for _, tn := range allTopics {
							if rapid.Bool().Draw(t, "sub") {
								m.Topics = append(m.Topics, tn)
							}
						}
						members = append(members, m)
						note += fmt.Sprintf("%s joins subscribing %v; ", m.ID, m.Topics)
						changedSincePrev = true
					case 4: // a topic grows or appears
						tn := rapid.SampledFrom(allTopics).Draw(t, "topic")
						counts[tn] += int32(rapid.IntRange(1, 3).Draw(t, "grow"))
						note += fmt.Sprintf("%s now has %d partitions; ", tn, counts[tn])
						changedSincePrev = true
					case 5: // a topic is deleted
						tn := rapid.SampledFrom(allTopics).Draw(t, "topic")
						if _, ok := counts[tn]; ok {
							delete(counts, tn)
							note += tn + " deleted; "
							changedSincePrev = true
						}
					}
				}
			}
			snapshot := map[string]int32{}
			for tn, n := range counts {
				snapshot[tn] = n
			}
			rr := round(t, h, members, snapshot, gen, note)
			gen++
			if prev != nil && !changedSincePrev {
				streak++
				if streak == 1 && knownOpen() && inKnownClass(rr.In) {
					// known finding's input class: the two-rebalance claim is not
					// asserted; the streak restarts once the group has settled
					ev.Excluded(knownKey)
					if rr.AnyLost {
						streak = 0
						unsettled++
						if unsettled >= maxSettleRounds {
							fail(t, h, "group does not settle", fmt.Sprintf("members still have to revoke after %d unchanged rebalances", unsettled+1))
						}
					} else if _, err := bs.CheckValid(rr.In, rr.Plan, false); err != nil {
						fail(t, h, "settled assignment is not complete", err.Error())
					}
				} else if streak == 1 {
					unsettled = 0
					completes(t, h, *prev, rr)
					ev.Class("history_second_unchanged_round")
				} else {
					// prev already had to complete its predecessor: the group is settled
					unchanged(t, h, *prev, rr)
					ev.Class("history_third_unchanged_round")
				}
			} else {
				streak, unsettled = 0, 0
			}
			if rr.AnyLost {
				ev.Class("history_round_with_revocation")
			}
			cp := rr
			prev = &cp
			changedSincePrev = false
		}
		if sawStaleReturn {
			ev.Class("history_stale_member_returned")
		}
		if sawSubChange {
			ev.Class("history_subscription_changed")
		}
		var sb strings.Builder
		for i, r := range h.rounds {
			sb.WriteString(h.notes[i])
			sb.WriteString(r.In.String())
		}
		revoked := 0
		for _, r := range h.rounds {
			if r.AnyLost {
				revoked++
			}
		}
		ev.Case("history|"+sb.String(), revoked > 0 && len(h.rounds) >= 3)
		if revoked >= 2 && sawStaleReturn {
			ev.SampleIf(func() any {
				return map[string]any{"kind": "history with a returning stale member", "rounds": h.String()}
			})
		}
	})
}

// TestReplay re-runs the rounds of a witness (./check C27 --replay <c27-witness.json>):
// each recorded round's join state is balanced again and judged by the safety
// oracle; consecutive rounds with identical membership, subscriptions and counts
// are judged by the convergence oracle.
func TestReplay(t *testing.T) {
	p := os.Getenv("VERIF_REPLAY")
	if p == "" || !strings.HasSuffix(p, ".json") {
		t.Skip("no JSON witness to replay")
	}
	raw, err := os.ReadFile(p)
	if err != nil {
		t.Fatalf("VERIF-INFRA: %v", err)
	}
	var w bs.Witness
	if err := json.Unmarshal(raw, &w); err != nil {
		t.Fatalf("VERIF-INFRA: %v", err)
	}
	if len(w.Rounds) == 0 {
		t.Fatalf("VERIF-INFRA: witness has no rounds")
	}
	threeRounds(t, w.Rounds[0], "replay")
	for _, in := range w.Rounds[1:] {
		threeRounds(t, in, "replay")
	}
}
