package c27

import (
	"encoding/json"
	"fmt"
	"os"
	"slices"
	"sync"

	bs "verif/h/balsim"
	"verif/h/ev"
)

// Known finding (see KNOWN_FINDINGS.json): with uneven subscriptions the second
// rebalance may take a partition away from a member that really owns it (the
// steal-path search of the sticky balancer does not prefer the partitions that
// were free in this round), so a third rebalance is needed.
const knownKey = "cooperative-uneven-subscriptions-second-rebalance-moves-owned-partition"

// knownWitnesses: natural prior states (one generation, no conflicting claims) on
// which the finding shows. The balancer's tie-breaking depends on Go map
// iteration order, so one attempt reproduces it only with some probability
// (measured: ~80% for the first, ~10% for the second); the witness is tried up to
// knownTries times.
var knownWitnesses = []bs.Input{
	{Counts: map[string]int32{"a": 3, "b": 1}, Members: []bs.Member{
		{ID: "m0", Topics: []string{"a"}, Gen: 3, Owned: map[string][]int32{"a": {0, 1, 2}, "b": {0}}},
		{ID: "m1", Topics: []string{"a", "b"}, Gen: -1},
		{ID: "m2", Topics: []string{"a"}, Gen: -1},
	}},
	{Counts: map[string]int32{"a": 2, "b": 1}, Members: []bs.Member{
		{ID: "m0", Topics: []string{"a", "b"}, Gen: 3, Owned: map[string][]int32{"a": {0, 1}, "b": {0}}},
		{ID: "m1", Topics: []string{"a", "b"}, Gen: -1},
		{ID: "m2", Topics: []string{"a"}, Gen: -1},
	}},
}

const knownTries = 400

var (
	knownOnce   sync.Once
	knownActive bool
)

// knownOpen reports whether the finding is listed as open in $VERIF_KNOWN and
// still reproduces on a witness. Only then is its input class excluded from the
// two-rebalance assertion; otherwise the check is strict.
func knownOpen() bool {
	knownOnce.Do(func() {
		raw, err := os.ReadFile(os.Getenv("VERIF_KNOWN"))
		if err != nil {
			return
		}
		var k struct {
			Findings []struct {
				Property string `json:"property"`
				Key      string `json:"key"`
				Status   string `json:"status"`
			} `json:"findings"`
		}
		if json.Unmarshal(raw, &k) != nil {
			return
		}
		listed := false
		for _, f := range k.Findings {
			if f.Property == "C27" && f.Key == knownKey && f.Status == "open" {
				listed = true
			}
		}
		if !listed {
			return
		}
		for wi, w := range knownWitnesses {
			for try := 0; try < knownTries; try++ {
				ms := bs.CloneMembers(w.Members)
				gen := bs.NextGen(ms)
				r1, err1 := bs.Round(coop, ms, w.Counts, gen)
				r2, err2 := bs.Round(coop, ms, w.Counts, gen+1)
				if err1 != nil || err2 != nil {
					return
				}
				if r1.AnyLost && r2.AnyLost {
					knownActive = true
					ev.KnownFinding("C27", fmt.Sprintf("key=%s witness=%d confirmed (attempt %d): after round 1 (%s) every member revoked and rejoined, yet round 2 (%s) takes a partition from its owner again; a third rebalance is needed", knownKey, wi, try+1, r1.Plan, r2.Plan))
					return
				}
			}
		}
	})
	return knownActive
}

// inKnownClass: the join state of a second (unchanged) rebalance belongs to the
// finding's input class when subscriptions are uneven (some member does not
// subscribe to some topic of the partition-count map, which is what sends the
// sticky balancer down its steal-graph path) and at least one partition of a
// subscribed topic is free (owned by nobody).
func inKnownClass(in bs.Input) bool {
	uneven := false
	for tn := range in.Counts {
		for _, m := range in.Members {
			if !slices.Contains(m.Topics, tn) {
				uneven = true
			}
		}
	}
	if !uneven {
		return false
	}
	for _, m := range in.Members {
		for _, tn := range m.Topics {
			for p := int32(0); p < in.Counts[tn]; p++ {
				owned := false
				for _, o := range in.Members {
					if slices.Contains(o.Owned[tn], p) {
						owned = true
						break
					}
				}
				if !owned {
					return true
				}
			}
		}
	}
	return false
}
