// Package c25 checks property C25: every balancer produces a valid assignment.
//
// Client-side balancers (range, roundrobin, sticky, cooperative-sticky) are driven
// through the public kgo.GroupBalancer API only (see verif/h/balsim); kfake's
// server-side assignors through the verif hook kfake.VerifAssign.
package c25

import (
	"encoding/json"
	"fmt"
	"os"
	"slices"
	"sort"
	"strings"
	"testing"

	"github.com/twmb/franz-go/pkg/kfake"
	"pgregory.net/rapid"

	bs "verif/h/balsim"
	"verif/h/ev"
)

func TestMain(m *testing.M) { ev.Main(m, "C25") }

func fail(t bs.TB, kind int, in bs.Input, plan bs.Plan, err error) {
	t.Helper()
	if ie, ok := err.(*bs.InfraError); ok {
		t.Fatalf("%v", ie)
	}
	msg := fmt.Sprintf("C25 %s: %v\ninput: %s\nplan:  %s", bs.Names[kind], err, in, plan)
	ev.Replay("c25-witness.json", bs.Witness{Check: "C25", Balancer: bs.Names[kind], What: err.Error(), Input: in, Plan: plan, Text: msg})
	t.Fatalf("%s", msg)
}

func classes(prefix string, in bs.Input) bs.Shape {
	s := bs.Describe(in)
	for name, on := range map[string]bool{
		"uneven_subscriptions": s.Uneven, "empty_subscription": s.EmptySub, "has_prior": s.HasPrior,
		"stale_generation_conflict": s.StaleConflict, "equal_generation_conflict": s.EqualConflict,
		"subscribed_topic_missing_from_counts": s.MissingTopic, "unsubscribed_topic_in_counts": s.ExtraTopic,
		"claim_on_unsubscribed_or_gone": s.StaleOwned, "member_racks": s.MemberRacks, "partition_racks": s.PartRacks,
		"static_members": s.Static,
	} {
		if on {
			ev.Class(prefix + name)
		}
	}
	return s
}

// one evaluates one (balancer, input) case against the validity oracle.
func one(t bs.TB, kind int, in bs.Input, digest string) {
	plan, err := bs.Run(bs.Balancer(kind), in)
	if err != nil {
		fail(t, kind, in, plan, err)
	}
	st, err := bs.CheckValid(in, plan, kind == bs.CoopSticky)
	if err != nil {
		fail(t, kind, in, plan, err)
	}
	if st.Withheld > 0 {
		ev.Class("coop_partitions_withheld_in_transit")
	}
	ev.Case(bs.Names[kind]+"|"+digest, len(in.Members) >= 2 && st.Assignable >= 2)
	ev.Class("balancer_" + bs.Names[kind])
}

// TestSmallExhaustive enumerates <=3 members x 2 topics x (absent or 0..3
// partitions) x every subscription pattern; the sticky balancers additionally
// over a bounded family of prior-ownership patterns (quick) plus, in the thorough
// tier, every per-partition claim state {nobody, m0, m1, m2, m0 and m1} under two
// generation vectors.
func TestSmallExhaustive(t *testing.T) {
	sh, nsh := ev.Shard()
	idx := 0
	sampled := 0
	bs.EachSmall(func(c bs.SmallCfg) {
		idx++
		if idx%nsh != sh {
			return
		}
		base := c.Input()
		classes("small_", base)
		for _, kind := range []int{bs.Range, bs.RoundRobin} {
			one(t, kind, base, c.Key())
		}
		for k := 0; k < bs.NumOwnPatterns; k++ {
			in := c.Input()
			bs.ApplyOwnPattern(&in, k)
			for _, kind := range []int{bs.Sticky, bs.CoopSticky} {
				one(t, kind, in, fmt.Sprintf("%s own%d", c.Key(), k))
			}
			if sampled < 2 && c.N == 3 && k == 6 && c.Counts == [2]int{3, 2} && c.Subs == [3]int{3, 1, 2} {
				sampled++
				p, _ := bs.Run(bs.Balancer(bs.CoopSticky), in)
				ev.Sample(map[string]any{"space": "small", "balancer": "cooperative-sticky", "input": in.String(), "plan": p.String()})
			}
		}
		if !ev.Thorough() {
			return
		}
		ts, ps := bs.SmallParts(base)
		n := 1
		for range ts {
			n *= 5
		}
		for _, gens := range [][3]int32{{2, 2, 2}, {1, 3, 2}} {
			for code := 0; code < n; code++ {
				in := c.Input()
				for i := range in.Members {
					in.Members[i].Gen = gens[i]
				}
				x := code
				ok := true
				for j := range ts {
					st := x % 5
					x /= 5
					var who []int
					switch st {
					case 1, 2, 3:
						who = []int{st - 1}
					case 4:
						who = []int{0, 1}
					}
					for _, w := range who {
						if w >= c.N {
							ok = false
							break
						}
						m := &in.Members[w]
						if m.Owned == nil {
							m.Owned = map[string][]int32{}
						}
						m.Owned[ts[j]] = append(m.Owned[ts[j]], ps[j])
					}
				}
				if !ok {
					continue
				}
				for _, kind := range []int{bs.Sticky, bs.CoopSticky} {
					one(t, kind, in, fmt.Sprintf("%s g%v claims%d", c.Key(), gens, code))
				}
			}
		}
	})
	ev.Exhaustive(true)
}

// TestRandom: up to 20 members x 5 topics x 12 partitions, arbitrary
// subscriptions, prior claims (stale generations, conflicting claims, claims on
// vanished topics/partitions), member racks; every balancer on the same input.
func TestRandom(t *testing.T) {
	n := 0
	rapid.Check(t, func(t *rapid.T) {
		in := bs.GenInput(t, bs.GenOpts{MaxMembers: 20, MaxTopics: 5, MaxParts: 12, Racks: true, Priors: true, Hostile: true})
		rackInjected := in.PartRacks != nil
		if rapid.Bool().Draw(t, "dropPartRacks") {
			// half of the cases stay on what is reachable without touching the
			// unexported partition rack map
			in.PartRacks = nil
			rackInjected = false
		}
		classes("random_", in)
		if rackInjected {
			ev.Class("random_partition_racks_injected")
		}
		d := in.String()
		for kind := bs.Range; kind <= bs.CoopSticky; kind++ {
			one(t, kind, in, d)
		}
		n++
		if n%997 == 3 {
			ev.SampleIf(func() any {
				p, _ := bs.Run(bs.Balancer(bs.Sticky), in)
				return map[string]any{"space": "random", "balancer": "sticky", "input": d, "plan": p.String()}
			})
		}
	})
}

// ---------------------------------------------------------------- kfake

type kfInput struct {
	Assignor string
	Counts   map[string]int32
	Members  []kfake.VerifAssignMember
}

func (k kfInput) asInput() bs.Input {
	in := bs.Input{Counts: k.Counts}
	for _, m := range k.Members {
		bm := bs.Member{ID: m.ID, Topics: slices.Clone(m.Topics), Owned: m.Prior, Gen: 1}
		sort.Strings(bm.Topics)
		if m.InstanceID != nil {
			bm.InstanceID = *m.InstanceID
		}
		in.Members = append(in.Members, bm)
	}
	return in
}

func kfOne(t bs.TB, k kfInput, digest string) {
	in := k.asInput()
	// VerifAssign mutates nothing we keep: priors are copied by the hook.
	var out map[string]map[string][]int32
	func() {
		defer func() {
			if r := recover(); r != nil {
				err := fmt.Errorf("kfake %s assignor panicked: %v", k.Assignor, r)
				msg := fmt.Sprintf("C25 kfake-%s: %v\ninput: %s", k.Assignor, err, in)
				ev.Replay("c25-witness.json", bs.Witness{Check: "C25", Balancer: "kfake-" + k.Assignor, What: err.Error(), Input: in, Text: msg})
				t.Fatalf("%s", msg)
			}
		}()
		out = kfake.VerifAssign(k.Assignor, k.Counts, k.Members)
	}()
	plan := bs.Plan(out)
	st, err := bs.CheckValid(in, plan, false)
	if err != nil {
		msg := fmt.Sprintf("C25 kfake-%s: %v\ninput: %s\nplan:  %s", k.Assignor, err, in, plan)
		ev.Replay("c25-witness.json", bs.Witness{Check: "C25", Balancer: "kfake-" + k.Assignor, What: err.Error(), Input: in, Plan: plan, Text: msg})
		t.Fatalf("%s", msg)
	}
	ev.Case("kfake-"+k.Assignor+"|"+digest, len(in.Members) >= 2 && st.Assignable >= 2)
	ev.Class("balancer_kfake_" + k.Assignor)
}

// kfake prior patterns for the small space (all VALID: a partition is in at most
// one member's prior target assignment).
const numKfPatterns = 5

func kfSmall(c bs.SmallCfg, pattern int, assignor string) kfInput {
	in := c.Input()
	ts, ps := bs.SmallParts(in)
	k := kfInput{Assignor: assignor, Counts: in.Counts}
	for _, m := range in.Members {
		k.Members = append(k.Members, kfake.VerifAssignMember{ID: m.ID, Topics: m.Topics, Prior: map[string][]int32{}})
	}
	n := len(k.Members)
	for x := range ts {
		switch pattern {
		case 1:
			k.Members[x%n].Prior[ts[x]] = append(k.Members[x%n].Prior[ts[x]], ps[x])
		case 2:
			k.Members[0].Prior[ts[x]] = append(k.Members[0].Prior[ts[x]], ps[x])
		case 3:
			k.Members[n-1].Prior[ts[x]] = append(k.Members[n-1].Prior[ts[x]], ps[x])
		case 4:
			k.Members[(x+1)%n].Prior[ts[x]] = append(k.Members[(x+1)%n].Prior[ts[x]], ps[x])
		}
	}
	if pattern == 3 { // priors for a vanished topic and a vanished partition
		k.Members[n-1].Prior["gone"] = []int32{0, 1}
		k.Members[n-1].Prior["a"] = append(k.Members[n-1].Prior["a"], 7)
	}
	if pattern == 4 && n == 3 {
		s := "inst-a"
		k.Members[2].InstanceID = &s // static member sorts first in the range assignor
	}
	return k
}

func TestKfakeSmallExhaustive(t *testing.T) {
	sh, nsh := ev.Shard()
	idx := 0
	bs.EachSmall(func(c bs.SmallCfg) {
		idx++
		if idx%nsh != sh {
			return
		}
		for p := 0; p < numKfPatterns; p++ {
			for _, a := range []string{"uniform", "range"} {
				kfOne(t, kfSmall(c, p, a), fmt.Sprintf("%s prior%d", c.Key(), p))
			}
		}
	})
	ev.Exhaustive(true)
}

func TestKfakeRandom(t *testing.T) {
	n := 0
	rapid.Check(t, func(t *rapid.T) {
		in := bs.GenInput(t, bs.GenOpts{MaxMembers: 20, MaxTopics: 5, MaxParts: 12})
		k := kfInput{Counts: in.Counts}
		for _, m := range in.Members {
			vm := kfake.VerifAssignMember{ID: m.ID, Topics: m.Topics, Prior: map[string][]int32{}}
			if m.InstanceID != "" {
				s := m.InstanceID
				vm.InstanceID = &s
			}
			k.Members = append(k.Members, vm)
		}
		// a VALID prior target assignment: every (topic, partition) of the prior
		// layout belongs to at most one member; the prior layout may contain
		// topics/partitions that no longer exist and ignores current subscriptions
		mode := rapid.IntRange(0, 3).Draw(t, "priormode")
		if mode > 0 {
			names := make([]string, 0, len(in.Counts)+1)
			for tn := range in.Counts {
				names = append(names, tn)
			}
			sort.Strings(names)
			type part struct {
				t string
				p int32
			}
			var universe []part
			for _, tn := range names {
				c := int(in.Counts[tn])
				if mode == 3 {
					c += rapid.IntRange(0, 2).Draw(t, "wasLarger")
				}
				for p := 0; p < c; p++ {
					universe = append(universe, part{tn, int32(p)})
				}
			}
			if mode == 3 {
				universe = append(universe, part{"gone", 0}, part{"gone", 3})
			}
			for _, pt := range universe {
				var cand []int
				for i, m := range k.Members {
					if mode != 1 || slices.Contains(m.Topics, pt.t) {
						cand = append(cand, i)
					}
				}
				if len(cand) == 0 || rapid.IntRange(0, 4).Draw(t, "unowned") == 0 {
					continue
				}
				i := cand[rapid.IntRange(0, len(cand)-1).Draw(t, "owner")]
				if rapid.IntRange(0, 3).Draw(t, "skew") == 0 {
					i = cand[0]
				}
				k.Members[i].Prior[pt.t] = append(k.Members[i].Prior[pt.t], pt.p)
			}
			ev.Class("kfake_random_with_prior")
		}
		d := k.asInput().String()
		for _, a := range []string{"uniform", "range"} {
			k.Assignor = a
			kfOne(t, k, d)
		}
		classes("kfake_random_", k.asInput())
		n++
		if n%1499 == 5 {
			ev.SampleIf(func() any {
				k.Assignor = "uniform"
				return map[string]any{"space": "kfake-random", "assignor": "uniform", "input": d, "plan": bs.Plan(kfake.VerifAssign("uniform", k.Counts, k.Members)).String()}
			})
		}
	})
}

// TestReplay re-evaluates a witness written by an earlier failing run
// (./check C25 --replay <c25-witness.json>).
func TestReplay(t *testing.T) {
	p := os.Getenv("VERIF_REPLAY")
	if p == "" || !strings.HasSuffix(p, ".json") {
		t.Skip("no JSON witness to replay")
	}
	raw, err := os.ReadFile(p)
	if err != nil {
		t.Fatalf("VERIF-INFRA: %v", err)
	}
	var w bs.Witness
	if err := json.Unmarshal(raw, &w); err != nil {
		t.Fatalf("VERIF-INFRA: %v", err)
	}
	if a, ok := strings.CutPrefix(w.Balancer, "kfake-"); ok {
		k := kfInput{Assignor: a, Counts: w.Input.Counts}
		for _, m := range w.Input.Members {
			vm := kfake.VerifAssignMember{ID: m.ID, Topics: m.Topics, Prior: m.Owned}
			if m.InstanceID != "" {
				s := m.InstanceID
				vm.InstanceID = &s
			}
			k.Members = append(k.Members, vm)
		}
		kfOne(t, k, "replay")
		return
	}
	one(t, slices.Index(bs.Names, w.Balancer), w.Input, "replay")
}
