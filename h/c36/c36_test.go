package c36

import (
	"bufio"
	"bytes"
	"encoding/hex"
	"encoding/json"
	"errors"
	"fmt"
	"math"
	"os"
	"os/exec"
	"path/filepath"
	"reflect"
	"runtime"
	"strings"
	"syscall"
	"testing"

	"github.com/twmb/franz-go/pkg/sr"
	"pgregory.net/rapid"

	"verif/h/ev"
)

func TestMain(m *testing.M) {
	if os.Getenv("C36_CHILD") != "" {
		// The child runs inputs whose declared element count would make an unbounded
		// implementation reserve gigabytes; cap the address space so that such an
		// implementation dies here instead of taking the machine down.
		var rl syscall.Rlimit
		if syscall.Getrlimit(syscall.RLIMIT_AS, &rl) == nil {
			const lim = 4 << 30
			if rl.Cur == math.MaxUint64 || rl.Cur > lim {
				rl.Cur = lim
				syscall.Setrlimit(syscall.RLIMIT_AS, &rl)
			}
		}
	}
	ev.Main(m, "C36")
}

// fataler is the part of *testing.T / *rapid.T / *testing.F the oracles need.
type fataler interface {
	Fatalf(format string, args ...any)
	Helper()
}

// ---------------------------------------------------------------------------
// distinct Go types (Serde maps a Go type to one registration)

type (
	m0 struct{}
	m1 struct{}
	m2 struct{}
	m3 struct{}
	m4 struct{}
	m5 struct{}
	m6 struct{}
	m7 struct{}
)

// V is the registered value type; M only makes the instantiations distinct types.
type V[M any] struct{ B []byte }

func (v *V[M]) setB(b []byte) { v.B = append([]byte{}, b...) }
func (v V[M]) getB() []byte   { return v.B }

type setter interface{ setB([]byte) }
type getter interface{ getB() []byte }

type slot struct {
	name string
	zero any
	mk   func([]byte) any
	ptr  func() any
}

func mkSlot[M any](name string) slot {
	return slot{
		name: name,
		zero: V[M]{},
		mk:   func(b []byte) any { return V[M]{B: b} },
		ptr:  func() any { return new(V[M]) },
	}
}

var slots = []slot{mkSlot[m0]("V0"), mkSlot[m1]("V1"), mkSlot[m2]("V2"), mkSlot[m3]("V3"), mkSlot[m4]("V4"), mkSlot[m5]("V5"), mkSlot[m6]("V6"), mkSlot[m7]("V7")}

type unregistered struct{ B []byte }

// ---------------------------------------------------------------------------
// registrations and the model of a Serde

const (
	encPlain  = 0 // EncodeFn only
	encAppend = 1 // AppendEncodeFn only
	encBoth   = 2 // both: AppendEncodeFn is documented to win
)

type reg struct {
	ID   uint32 `json:"id"`
	Path []int  `json:"path"` // empty = registration without Index
	Slot int    `json:"slot"`
	Enc  int    `json:"enc"`
	Gen  bool   `json:"gen"`
}

type model struct {
	regs []reg
}

func (m model) maxDepth(id uint32) (depth int, any bool) {
	for _, r := range m.regs {
		if r.ID == id {
			any = true
			depth = max(depth, len(r.Path))
		}
	}
	return
}

// find states what Serde.Decode must do with b: which registration's decoder receives
// which payload, or ok=false for "error" (malformed header or nothing registered there).
func (m model) find(b []byte) (ri int, payload []byte, ok bool) {
	id, rest, ok := refDecodeID(b)
	if !ok {
		return -1, nil, false
	}
	depth, any := m.maxDepth(id)
	if !any {
		return -1, nil, false
	}
	if depth == 0 {
		for i, r := range m.regs {
			if r.ID == id {
				return i, rest, true
			}
		}
	}
	path, rest, ok := refDecodeIndex(rest, depth)
	if !ok {
		return -1, nil, false
	}
	for i, r := range m.regs {
		if r.ID == id && eqPath(r.Path, path) {
			return i, rest, true
		}
	}
	return -1, nil, false
}

func eqPath(a, b []int) bool {
	if len(a) != len(b) {
		return false
	}
	for i := range a {
		if a[i] != b[i] {
			return false
		}
	}
	return true
}

// trace records which registered callbacks the Serde invoked.
type trace struct {
	decodedBy  int // registration index of the last decoder invoked, -1 none
	decodes    int
	genBy      int
	genValue   any
	encPlainBy int // registration whose EncodeFn ran although AppendEncodeFn exists
}

func (tr *trace) reset() { *tr = trace{decodedBy: -1, genBy: -1, encPlainBy: -1} }

var errNotHolder = errors.New("c36 harness: value given to callback is not a harness value")

// build registers every model registration on a fresh Serde. defaults: the decode
// function is given as a Serde-wide default option instead of per registration.
func build(m model, defaults, explicitHeader bool) (*sr.Serde, *trace) {
	tr := new(trace)
	tr.reset()
	decodeFor := func(ri int) func([]byte, any) error {
		return func(b []byte, v any) error {
			s, ok := v.(setter)
			if !ok {
				return errNotHolder
			}
			tr.decodedBy = ri
			tr.decodes++
			s.setB(b)
			return nil
		}
	}
	var opts []sr.SerdeOrEncodingOpt
	if explicitHeader {
		opts = append(opts, sr.Header(new(sr.ConfluentHeader)))
	}
	if defaults {
		// a default decoder that cannot know its registration: index -2
		opts = append(opts, sr.DecodeFn(decodeFor(-2)))
	}
	s := sr.NewSerde(opts...)
	for ri, r := range m.regs {
		ri, r := ri, r
		var o []sr.EncodingOpt
		if len(r.Path) > 0 {
			o = append(o, sr.Index(append([]int(nil), r.Path...)...))
		}
		if r.Enc == encPlain || r.Enc == encBoth {
			o = append(o, sr.EncodeFn(func(v any) ([]byte, error) {
				g, ok := v.(getter)
				if !ok {
					return nil, errNotHolder
				}
				if r.Enc == encBoth {
					tr.encPlainBy = ri
				}
				return append([]byte{}, g.getB()...), nil
			}))
		}
		if r.Enc == encAppend || r.Enc == encBoth {
			o = append(o, sr.AppendEncodeFn(func(b []byte, v any) ([]byte, error) {
				g, ok := v.(getter)
				if !ok {
					return nil, errNotHolder
				}
				return append(b, g.getB()...), nil
			}))
		}
		if !defaults {
			o = append(o, sr.DecodeFn(decodeFor(ri)))
		}
		if r.Gen {
			o = append(o, sr.GenerateFn(func() any {
				tr.genBy = ri
				tr.genValue = slots[r.Slot].ptr()
				return tr.genValue
			}))
		}
		s.Register(int(r.ID), slots[r.Slot].zero, o...)
	}
	return s, tr
}

// ---------------------------------------------------------------------------
// generators

var idBoundaries = []uint32{0, 1, 127, 128, 255, 256, 1<<16 - 1, 1 << 16, 1<<24 - 1, 1 << 24, 1<<31 - 1, 1 << 31, 1<<32 - 2, 1<<32 - 1}

func genID() *rapid.Generator[uint32] {
	return rapid.OneOf(rapid.SampledFrom(idBoundaries), rapid.Uint32(), rapid.Uint32Range(0, 300))
}

var idxBoundaries = []int{-1, -2, 63, 64, -64, -65, 127, 128, 8191, 8192, -8192, -8193, 1<<31 - 1, 1 << 31, -(1 << 31), 1 << 32, math.MaxInt64, math.MinInt64, math.MaxInt64 - 1, math.MinInt64 + 1}

func genIdx() *rapid.Generator[int] {
	return rapid.OneOf(rapid.IntRange(0, 3), rapid.IntRange(0, 3), rapid.SampledFrom(idxBoundaries), rapid.Int(), rapid.IntRange(-200, 200))
}

func genPath(t *rapid.T, existing [][]int) []int {
	if len(existing) > 0 && rapid.IntRange(0, 2).Draw(t, "derive") == 0 {
		// share a prefix with an existing path: nested message types
		base := rapid.SampledFrom(existing).Draw(t, "base")
		keep := rapid.IntRange(0, len(base)).Draw(t, "keep")
		p := append([]int(nil), base[:keep]...)
		ext := rapid.IntRange(0, 6-len(p)).Draw(t, "ext")
		if keep == 0 && ext == 0 {
			ext = 1
		}
		for i := 0; i < ext; i++ {
			p = append(p, genIdx().Draw(t, "idx"))
		}
		return p
	}
	if rapid.IntRange(0, 7).Draw(t, "single0") == 0 {
		return []int{0}
	}
	return rapid.SliceOfN(genIdx(), 1, 6).Draw(t, "path")
}

// genModel draws 1..6 registrations over a pool of 1..3 ids. Per id either one
// registration without an index, or any number with pairwise distinct index paths:
// the wire form cannot tell an index-less payload from an indexed one, so an id is
// either a protobuf id (all registrations indexed) or not.
func genModel(t *rapid.T) model {
	pool := rapid.SliceOfNDistinct(genID(), 1, 3, rapid.ID[uint32]).Draw(t, "ids")
	n := rapid.IntRange(1, 6).Draw(t, "nregs")
	indexed := map[uint32]bool{}
	used := map[uint32]bool{}
	var m model
	paths := map[uint32][][]int{}
	for i := 0; i < n; i++ {
		id := rapid.SampledFrom(pool).Draw(t, "id")
		if !used[id] {
			indexed[id] = rapid.IntRange(0, 3).Draw(t, "indexed") != 0
		}
		r := reg{ID: id, Slot: len(m.regs), Enc: rapid.IntRange(0, 2).Draw(t, "enc"), Gen: rapid.Bool().Draw(t, "gen")}
		if indexed[id] {
			p := genPath(t, paths[id])
			dup := false
			for _, q := range paths[id] {
				dup = dup || eqPath(p, q)
			}
			if dup {
				continue
			}
			r.Path = p
			paths[id] = append(paths[id], p)
		} else if used[id] {
			continue
		}
		used[id] = true
		m.regs = append(m.regs, r)
	}
	return m
}

func genPayload() *rapid.Generator[[]byte] {
	return rapid.OneOf(
		rapid.SliceOfN(rapid.Byte(), 0, 40),
		rapid.Just([]byte{}),
		// payloads that look like index bytes
		rapid.SliceOfN(rapid.SampledFrom([]byte{0, 1, 2, 4, 0x80, 0xff, 0x7f}), 1, 12),
	)
}

func hx(b []byte) string { return hex.EncodeToString(b) }

// ---------------------------------------------------------------------------
// round trip

func nocrash(t fataler, what string, f func()) {
	t.Helper()
	defer func() {
		if p := recover(); p != nil {
			t.Fatalf("panic in %s: %v", what, p)
		}
	}()
	f()
}

func TestRoundTrip(t *testing.T) {
	hdr := new(sr.ConfluentHeader)
	rapid.Check(t, func(t *rapid.T) {
		m := genModel(t)
		defaults := rapid.IntRange(0, 3).Draw(t, "defaults") == 0
		s, tr := build(m, defaults, rapid.Bool().Draw(t, "explicitHeader"))
		nt := false
		for ri, r := range m.regs {
			payload := genPayload().Draw(t, "payload")
			want := append(refHeader(nil, r.ID, r.Path), payload...)
			tr.reset()

			var got []byte
			var err error
			nocrash(t, "Encode", func() { got, err = s.Encode(slots[r.Slot].mk(payload)) })
			if err != nil {
				t.Fatalf("Encode reg %+v: %v", r, err)
			}
			if !bytes.Equal(got, want) {
				t.Fatalf("Encode reg %+v payload %x:\n got %x\nwant %x", r, payload, got, want)
			}
			if tr.encPlainBy >= 0 {
				t.Fatalf("reg %+v: EncodeFn was used although AppendEncodeFn is registered", r)
			}
			prefix := rapid.SliceOfN(rapid.Byte(), 0, 4).Draw(t, "prefix")
			nocrash(t, "AppendEncode", func() { got, err = s.AppendEncode(append([]byte{}, prefix...), slots[r.Slot].mk(payload)) })
			if err != nil || !bytes.Equal(got, append(append([]byte{}, prefix...), want...)) {
				t.Fatalf("AppendEncode reg %+v prefix %x: got %x err %v want %x%x", r, prefix, got, err, prefix, want)
			}

			// Decode into a caller value
			dst := slots[r.Slot].ptr()
			nocrash(t, "Decode", func() { err = s.Decode(want, dst) })
			if err != nil {
				t.Fatalf("Decode(%x) of reg %+v (all regs %+v): %v", want, r, m.regs, err)
			}
			if b := dst.(getter).getB(); !bytes.Equal(b, payload) {
				t.Fatalf("Decode(%x) of reg %+v: payload %x want %x", want, r, b, payload)
			}
			if !defaults && tr.decodedBy != ri {
				t.Fatalf("Decode(%x): decoder of registration %d ran, want %d (regs %+v)", want, tr.decodedBy, ri, m.regs)
			}
			if tr.decodes != 1 {
				t.Fatalf("Decode(%x): %d decoder calls", want, tr.decodes)
			}

			// DecodeNew
			tr.reset()
			var nv any
			nocrash(t, "DecodeNew", func() { nv, err = s.DecodeNew(want) })
			if err != nil {
				t.Fatalf("DecodeNew(%x) of reg %+v: %v", want, r, err)
			}
			if reflect.TypeOf(nv) != reflect.TypeOf(slots[r.Slot].ptr()) {
				t.Fatalf("DecodeNew(%x) of reg %+v returned %T want %T", want, r, nv, slots[r.Slot].ptr())
			}
			if b := nv.(getter).getB(); !bytes.Equal(b, payload) {
				t.Fatalf("DecodeNew(%x) of reg %+v: payload %x want %x", want, r, b, payload)
			}
			if r.Gen && (tr.genBy != ri || tr.genValue != nv) {
				t.Fatalf("DecodeNew(%x) of reg %+v: GenerateFn value not used (gen by %d)", want, r, tr.genBy)
			}
			if !defaults && tr.decodedBy != ri {
				t.Fatalf("DecodeNew(%x): decoder of registration %d ran, want %d", want, tr.decodedBy, ri)
			}

			// package-level helpers with an explicit header
			nocrash(t, "sr.Encode", func() {
				got, err = sr.Encode(payload, hdr, int(r.ID), r.Path, func(v any) ([]byte, error) { return v.([]byte), nil })
			})
			if err != nil || !bytes.Equal(got, want) {
				t.Fatalf("sr.Encode id %d path %v: got %x err %v want %x", r.ID, r.Path, got, err, want)
			}
			nocrash(t, "sr.AppendEncode", func() {
				got, err = sr.AppendEncode(append([]byte{}, prefix...), payload, hdr, int(r.ID), r.Path, func(b []byte, v any) ([]byte, error) { return append(b, v.([]byte)...), nil })
			})
			if err != nil || !bytes.Equal(got, append(append([]byte{}, prefix...), want...)) {
				t.Fatalf("sr.AppendEncode id %d path %v: got %x err %v", r.ID, r.Path, got, err)
			}

			checkHeaderDirect(t, hdr, s, r, payload, want)

			nontrivial := len(r.Path) > 0 && !(len(r.Path) == 1 && r.Path[0] == 0)
			nt = nt || nontrivial
			ev.Case(fmt.Sprintf("rt:%d:%v:%x:%d", r.ID, r.Path, payload, len(m.regs)), nontrivial)
			switch {
			case len(r.Path) == 0:
				ev.Class("rt_no_index")
			case len(r.Path) == 1 && r.Path[0] == 0:
				ev.Class("rt_single_zero_shortcut")
			default:
				ev.Class(fmt.Sprintf("rt_depth_%d", len(r.Path)))
				for _, p := range r.Path {
					if p < 0 {
						ev.Class("rt_negative_index_value")
						break
					}
				}
			}
			if r.ID >= 1<<31 {
				ev.Class("rt_id_ge_2^31")
			}
		}
		// a type that was never registered cannot be encoded
		if _, err := s.Encode(unregistered{}); !errors.Is(err, sr.ErrNotRegistered) {
			t.Fatalf("Encode of an unregistered type: err %v, want ErrNotRegistered", err)
		}
		if len(m.regs) > 1 {
			ev.Class("rt_multi_registration_serde")
		}
		ev.SampleIf(func() any {
			r := m.regs[0]
			return map[string]any{"kind": "round trip", "regs": m.regs, "first_header": hx(refHeader(nil, r.ID, r.Path))}
		})
	})
}

// checkHeaderDirect drives ConfluentHeader (and the Serde pass-throughs) on a valid encoding.
func checkHeaderDirect(t *rapid.T, hdr *sr.ConfluentHeader, s *sr.Serde, r reg, payload, enc []byte) {
	wantH := refHeader(nil, r.ID, r.Path)
	prefix := rapid.SliceOfN(rapid.Byte(), 0, 3).Draw(t, "hprefix")
	got, err := hdr.AppendEncode(append([]byte{}, prefix...), int(r.ID), r.Path)
	if err != nil || !bytes.Equal(got, append(append([]byte{}, prefix...), wantH...)) {
		t.Fatalf("ConfluentHeader.AppendEncode(%x, %d, %v) = %x, %v want %x%x", prefix, r.ID, r.Path, got, err, prefix, wantH)
	}
	for _, d := range []struct {
		name string
		f    func([]byte) (int, []byte, error)
	}{{"ConfluentHeader.DecodeID", hdr.DecodeID}, {"Serde.DecodeID", s.DecodeID}} {
		id, rest, err := d.f(enc)
		if err != nil || id != int(r.ID) || !bytes.Equal(rest, enc[5:]) {
			t.Fatalf("%s(%x) = %d, %x, %v want %d, %x", d.name, enc, id, rest, err, r.ID, enc[5:])
		}
	}
	if len(r.Path) > 0 {
		// maxLength <= 0 means unbounded; a positive bound below the depth must be refused
		ml := rapid.OneOf(rapid.SampledFrom([]int{0, -1, math.MinInt64, len(r.Path), len(r.Path) + 1, math.MaxInt64, 1 << 31}), rapid.IntRange(-2, 8)).Draw(t, "maxLength")
		for _, d := range []struct {
			name string
			f    func([]byte, int) ([]int, []byte, error)
		}{{"ConfluentHeader.DecodeIndex", hdr.DecodeIndex}, {"Serde.DecodeIndex", s.DecodeIndex}} {
			var path []int
			var rest []byte
			var err error
			nocrash(t, d.name, func() { path, rest, err = d.f(enc[5:], ml) })
			// the shortcut form declares count 0, which no positive bound refuses
			refuse := ml > 0 && ml < len(r.Path) && !(len(r.Path) == 1 && r.Path[0] == 0)
			if refuse {
				if !errors.Is(err, sr.ErrNotRegistered) {
					t.Fatalf("%s(%x, %d) of path %v: err %v want ErrNotRegistered", d.name, enc[5:], ml, r.Path, err)
				}
				ev.Class("rt_maxlength_refuses")
				continue
			}
			if err != nil || !eqPath(path, r.Path) || !bytes.Equal(rest, payload) {
				t.Fatalf("%s(%x, %d) = %v, %x, %v want %v, %x", d.name, enc[5:], ml, path, rest, err, r.Path, payload)
			}
		}
	}
	// UpdateID rewrites exactly the id
	nid := genID().Draw(t, "newid")
	cp := append([]byte{}, enc...)
	if err := hdr.UpdateID(cp, nid); err != nil {
		t.Fatalf("UpdateID(%x, %d): %v", enc, nid, err)
	}
	if want := append(refHeader(nil, nid, r.Path), payload...); !bytes.Equal(cp, want) {
		t.Fatalf("UpdateID(%x, %d) gave %x want %x", enc, nid, cp, want)
	}
}

// ---------------------------------------------------------------------------
// hostile input

// A declared element count in [fatalLo, fatalHi) would make an implementation that trusts
// it reserve 512 MiB .. 2 PiB: the Go runtime answers that with an unrecoverable
// "out of memory" instead of a panic, so those inputs are run in a child process whose
// death is observed and reported (counts above fatalHi fail makeslice with a recoverable panic).
const (
	fatalLo = 1 << 26
	fatalHi = 1 << 48
)

func inFatalZone(x []byte, maxLength int) bool {
	c, ok := refCount(x)
	return ok && c >= fatalLo && c < fatalHi && c > int64(len(x)) && (maxLength <= 0 || c <= int64(maxLength))
}

// allocBound is the asserted bound on bytes allocated while decoding n input bytes:
// linear in the input (an index element costs 8 bytes per input byte at most, decoders
// copy the payload) plus generous constant slack for runtime noise.
func allocBound(n int) uint64 { return 1<<20 + 64*uint64(n) }

// measureAll: measure every call (rapid and deterministic tests). The native fuzz target
// turns it off and measures only calls whose input declares more elements than it has bytes
// (runtime.ReadMemStats stops the world; unconditional use would throttle the fuzzer).
var measureAll = true

func suspicious(x []byte) bool {
	c, ok := refCount(x)
	return ok && c > int64(len(x))
}

func allocated(measure bool, f func()) uint64 {
	if !measure {
		f()
		return 0
	}
	var a, b runtime.MemStats
	runtime.ReadMemStats(&a)
	f()
	runtime.ReadMemStats(&b)
	return b.TotalAlloc - a.TotalAlloc
}

type indexCall struct {
	Entry     string `json:"entry"` // "header" or "serde"
	Hex       string `json:"input_hex"`
	MaxLength int    `json:"max_length"`
}

// checkIndex is the oracle for one DecodeIndex call.
func checkIndex(t fataler, entry string, f func([]byte, int) ([]int, []byte, error), x []byte, maxLength int) {
	t.Helper()
	wp, wrest, wok := refDecodeIndex(x, maxLength)
	in := append([]byte{}, x...)
	var path []int
	var rest []byte
	var err error
	n := allocated(measureAll || suspicious(x), func() {
		nocrash(t, fmt.Sprintf("%s.DecodeIndex(%x, %d)", entry, x, maxLength), func() { path, rest, err = f(in, maxLength) })
	})
	if n > allocBound(len(x)) {
		t.Fatalf("%s.DecodeIndex(%x, %d) allocated %d bytes for %d input bytes (bound %d)", entry, x, maxLength, n, len(x), allocBound(len(x)))
	}
	if !bytes.Equal(in, x) {
		t.Fatalf("%s.DecodeIndex(%x, %d) modified its input to %x", entry, x, maxLength, in)
	}
	if wok != (err == nil) {
		t.Fatalf("%s.DecodeIndex(%x, %d): err=%v, reference ok=%v (path %v)", entry, x, maxLength, err, wok, wp)
	}
	if wok && (!eqPath(path, wp) || !bytes.Equal(rest, wrest)) {
		t.Fatalf("%s.DecodeIndex(%x, %d) = %v, %x want %v, %x", entry, x, maxLength, path, rest, wp, wrest)
	}
}

// checkHostile runs one byte string through every decoding entry point.
// deferred collects the calls that must run in the child process (nil: run everything here).
func checkHostile(t fataler, m model, s *sr.Serde, tr *trace, hdr *sr.ConfluentHeader, in []byte, maxLength int, deferred *[]indexCall) (headerOK, hit bool) {
	t.Helper()
	// DecodeID, both ways
	wid, wrest, wok := refDecodeID(in)
	for _, d := range []struct {
		name string
		f    func([]byte) (int, []byte, error)
	}{{"ConfluentHeader.DecodeID", hdr.DecodeID}, {"Serde.DecodeID", s.DecodeID}} {
		var id int
		var rest []byte
		var err error
		nocrash(t, fmt.Sprintf("%s(%x)", d.name, in), func() { id, rest, err = d.f(in) })
		if wok != (err == nil) {
			t.Fatalf("%s(%x): err=%v, reference ok=%v", d.name, in, err, wok)
		}
		if wok && (id != int(wid) || !bytes.Equal(rest, wrest)) {
			t.Fatalf("%s(%x) = %d, %x want %d, %x", d.name, in, id, rest, wid, wrest)
		}
		if !wok && !errors.Is(err, sr.ErrBadHeader) {
			t.Fatalf("%s(%x): err %v, documented ErrBadHeader", d.name, in, err)
		}
	}
	// UpdateID succeeds exactly on a well-formed 5-byte header
	cp := append([]byte{}, in...)
	var uerr error
	nocrash(t, fmt.Sprintf("UpdateID(%x)", in), func() { uerr = hdr.UpdateID(cp, 0x01020304) })
	if wok != (uerr == nil) {
		t.Fatalf("UpdateID(%x): err=%v, reference ok=%v", in, uerr, wok)
	}
	if !wok && !bytes.Equal(cp, in) {
		t.Fatalf("UpdateID(%x) failed but modified the input to %x", in, cp)
	}

	// DecodeIndex on the raw input and on what follows the id
	xs := [][]byte{in}
	if wok {
		xs = append(xs, wrest)
	}
	for _, x := range xs {
		for _, d := range []struct {
			entry string
			f     func([]byte, int) ([]int, []byte, error)
		}{{"header", hdr.DecodeIndex}, {"serde", s.DecodeIndex}} {
			if deferred != nil && inFatalZone(x, maxLength) {
				if len(*deferred) < 400 {
					*deferred = append(*deferred, indexCall{d.entry, hx(x), maxLength})
				}
				continue
			}
			checkIndex(t, d.entry, d.f, x, maxLength)
		}
	}

	// Serde.Decode / DecodeNew against the model of what is registered
	ri, payload, found := m.find(in)
	depth, _ := m.maxDepth(wid)
	if wok && deferred != nil && depth > 0 && inFatalZone(wrest, depth) {
		return wok, false // cannot happen (depth <= 6 < fatalLo); kept for symmetry
	}
	tr.reset()
	var err error
	dst := slots[0].ptr()
	if found {
		dst = slots[m.regs[ri].Slot].ptr()
	}
	measure := measureAll || (wok && suspicious(wrest))
	n := allocated(measure, func() {
		nocrash(t, fmt.Sprintf("Serde.Decode(%x)", in), func() { err = s.Decode(in, dst) })
	})
	if n > allocBound(len(in)) {
		t.Fatalf("Serde.Decode(%x) allocated %d bytes for %d input bytes", in, n, len(in))
	}
	if found != (err == nil) {
		t.Fatalf("Serde.Decode(%x) with regs %+v: err=%v, model found=%v (reg %d)", in, m.regs, err, found, ri)
	}
	if found {
		if b := dst.(getter).getB(); !bytes.Equal(b, payload) {
			t.Fatalf("Serde.Decode(%x): payload %x want %x", in, b, payload)
		}
		if tr.decodedBy != ri && tr.decodedBy != -2 {
			t.Fatalf("Serde.Decode(%x): decoder of registration %d ran, want %d (regs %+v)", in, tr.decodedBy, ri, m.regs)
		}
	} else if tr.decodes != 0 {
		t.Fatalf("Serde.Decode(%x) failed with %v but ran a decoder", in, err)
	}
	tr.reset()
	var nv any
	n = allocated(measure, func() {
		nocrash(t, fmt.Sprintf("Serde.DecodeNew(%x)", in), func() { nv, err = s.DecodeNew(in) })
	})
	if n > allocBound(len(in)) {
		t.Fatalf("Serde.DecodeNew(%x) allocated %d bytes for %d input bytes", in, n, len(in))
	}
	if found != (err == nil) {
		t.Fatalf("Serde.DecodeNew(%x) with regs %+v: err=%v, model found=%v", in, m.regs, err, found)
	}
	if found {
		g, ok := nv.(getter)
		if !ok || reflect.TypeOf(nv) != reflect.TypeOf(slots[m.regs[ri].Slot].ptr()) {
			t.Fatalf("Serde.DecodeNew(%x) returned %T want %T", in, nv, slots[m.regs[ri].Slot].ptr())
		}
		if !bytes.Equal(g.getB(), payload) {
			t.Fatalf("Serde.DecodeNew(%x): payload %x want %x", in, g.getB(), payload)
		}
	}
	return wok, found
}

var hostileCounts = []int64{
	-1, -2, math.MinInt64, 0, 1, 2, 3, 5, 6, 7, 8, 63, 64, 65, 1000,
	1<<17 - 1, 1 << 17, 1<<20 - 1, 1 << 20, 1<<20 + 1, 1<<24 + 1, 1<<26 - 1, 1 << 26,
	1<<31 - 1, 1 << 31, 1<<31 + 1, 1<<32 - 1, 1 << 32, 1 << 40, 1<<45 - 1, 1 << 45, 1<<45 + 1,
	1<<47 + 1, 1<<48 - 1, 1 << 48, 1<<50 - 1, 1 << 50, 1<<50 + 1, 1<<60 - 1, 1 << 60, 1<<61 - 1, 1 << 61, 1<<61 + 1,
	1<<62 - 1, 1 << 62, 1<<62 + 1, math.MaxInt64 - 1, math.MaxInt64,
}

var hostileMaxLengths = []int{math.MinInt64, -(1 << 31), -7, -1, 0, 1, 2, 3, 6, 7, 64, 1 << 20, 1<<31 - 1, 1 << 31, 1 << 50, 1 << 62, math.MaxInt64}

func genMaxLength() *rapid.Generator[int] {
	return rapid.OneOf(rapid.SampledFrom(hostileMaxLengths), rapid.IntRange(-3, 10), rapid.Int())
}

func genHostile(t *rapid.T, m model) []byte {
	switch rapid.IntRange(0, 3).Draw(t, "hostileKind") {
	case 0:
		return rapid.SliceOfN(rapid.Byte(), 0, 24).Draw(t, "arbitrary")
	case 1:
		// mutate a valid encoding
		r := rapid.SampledFrom(m.regs).Draw(t, "victim")
		b := append(refHeader(nil, r.ID, r.Path), genPayload().Draw(t, "payload")...)
		for k := rapid.IntRange(0, 3).Draw(t, "nmut"); k > 0; k-- {
			switch op := rapid.IntRange(0, 5).Draw(t, "mut"); {
			case op == 0 && len(b) > 0:
				b = b[:rapid.IntRange(0, len(b)-1).Draw(t, "cut")]
			case op == 1 && len(b) > 0:
				b[rapid.IntRange(0, len(b)-1).Draw(t, "at")] ^= 1 << rapid.UintRange(0, 7).Draw(t, "bit")
			case op == 2:
				at := rapid.IntRange(0, len(b)).Draw(t, "insAt")
				b = append(b[:at:at], append([]byte{rapid.Byte().Draw(t, "ins")}, b[at:]...)...)
			case op == 3 && len(b) > 0:
				at := rapid.IntRange(0, len(b)-1).Draw(t, "delAt")
				b = append(b[:at:at], b[at+1:]...)
			case op == 4 && len(b) >= 5:
				o := rapid.SampledFrom(m.regs).Draw(t, "otherID").ID
				b[1], b[2], b[3], b[4] = byte(o>>24), byte(o>>16), byte(o>>8), byte(o)
			case op == 5 && len(b) > 5:
				b[rapid.IntRange(5, len(b)-1).Draw(t, "at5")] = rapid.SampledFrom([]byte{0, 0x80, 0xff, 0x7f, 1, 2}).Draw(t, "val")
			}
		}
		return b
	default:
		// structured: header, a chosen element count, some elements, a tail
		var b []byte
		if rapid.IntRange(0, 9).Draw(t, "badMagic") == 0 {
			b = append(b, rapid.Byte().Draw(t, "magic"))
		} else {
			b = append(b, 0)
		}
		id := genID().Draw(t, "rawid")
		if rapid.IntRange(0, 4).Draw(t, "regID") != 0 {
			id = rapid.SampledFrom(m.regs).Draw(t, "knownID").ID
		}
		b = append(b, byte(id>>24), byte(id>>16), byte(id>>8), byte(id))
		cnt := rapid.OneOf(rapid.SampledFrom(hostileCounts), rapid.Int64Range(0, 8), rapid.Int64()).Draw(t, "count")
		b = refAppendZigZag(b, cnt)
		nel := rapid.IntRange(0, 8).Draw(t, "nel")
		if cnt >= 0 && cnt <= 8 && rapid.Bool().Draw(t, "exact") {
			nel = int(cnt)
		}
		for i := 0; i < nel; i++ {
			b = refAppendZigZag(b, int64(genIdx().Draw(t, "el")))
		}
		b = append(b, rapid.SliceOfN(rapid.Byte(), 0, 6).Draw(t, "tail")...)
		if rapid.IntRange(0, 5).Draw(t, "trunc") == 0 && len(b) > 0 {
			b = b[:rapid.IntRange(0, len(b)-1).Draw(t, "truncAt")]
		}
		return b
	}
}

func TestHostile(t *testing.T) {
	hdr := new(sr.ConfluentHeader)
	var deferred []indexCall
	rapid.Check(t, func(t *rapid.T) {
		m := genModel(t)
		s, tr := build(m, rapid.IntRange(0, 3).Draw(t, "defaults") == 0, rapid.Bool().Draw(t, "explicitHeader"))
		in := genHostile(t, m)
		ml := genMaxLength().Draw(t, "maxLength")
		before := len(deferred)
		hok, hit := checkHostile(t, m, s, tr, hdr, in, ml, &deferred)
		ev.Case(fmt.Sprintf("h:%x:%d:%v", in, ml, m.regs), hok)
		switch {
		case !hok:
			ev.Class("hostile_bad_header")
		case hit:
			ev.Class("hostile_decodes_to_registered_value")
		default:
			ev.Class("hostile_header_ok_not_registered")
		}
		switch {
		case ml < 0:
			ev.Class("maxlength_negative")
		case ml == 0:
			ev.Class("maxlength_zero")
		case ml <= 10:
			ev.Class("maxlength_small")
		default:
			ev.Class("maxlength_huge")
		}
		if hok {
			if c, ok := refCount(in[5:]); ok {
				switch {
				case c < 0:
					ev.Class("count_negative")
				case c <= int64(len(in)):
					ev.Class("count_plausible")
				case c < fatalLo:
					ev.Class("count_above_input_below_2^26")
				case c < fatalHi:
					ev.Class("count_2^26..2^48")
				default:
					ev.Class("count_ge_2^48")
				}
			} else {
				ev.Class("count_varint_malformed")
			}
		}
		if len(deferred) > before {
			ev.Class("deferred_to_child_process")
		}
		ev.SampleIf(func() any {
			return map[string]any{"kind": "hostile", "input_hex": hx(in), "max_length": ml, "regs": m.regs, "header_ok": hok, "decodes": hit}
		})
	})
	runChild(t, deferred)
}

// TestBoundaryCounts is the deterministic sweep the property's allocation clause rests on:
// every listed element count x every listed maxLength x {elements absent, a few elements
// present} through ConfluentHeader.DecodeIndex, Serde.DecodeIndex and (behind a registered
// id) Serde.Decode/DecodeNew.
func TestBoundaryCounts(t *testing.T) {
	hdr := new(sr.ConfluentHeader)
	m := model{regs: []reg{{ID: 7, Path: []int{1, 2, 3}, Slot: 0}, {ID: 7, Path: []int{0}, Slot: 1}, {ID: 9, Slot: 2}}}
	s, tr := build(m, false, false)
	var deferred []indexCall
	for _, c := range hostileCounts {
		for _, ml := range hostileMaxLengths {
			for _, nel := range []int{0, 1, 3} {
				in := []byte{0, 0, 0, 0, 7}
				in = refAppendZigZag(in, c)
				for i := 0; i < nel; i++ {
					in = refAppendZigZag(in, int64(i+1))
				}
				checkHostile(t, m, s, tr, hdr, in, ml, &deferred)
				ev.Case(fmt.Sprintf("b:%x:%d", in, ml), true)
				ev.Class("boundary_count_case")
			}
		}
	}
	runChild(t, deferred)
}

// ---------------------------------------------------------------------------
// child process for the inputs in the fatal zone

func runChild(t *testing.T, calls []indexCall) {
	t.Helper()
	if len(calls) == 0 {
		return
	}
	dir := t.TempDir()
	p := filepath.Join(dir, "calls.json")
	b, _ := json.Marshal(calls)
	if err := os.WriteFile(p, b, 0o644); err != nil {
		t.Fatalf("VERIF-INFRA: cannot write child input: %v", err)
	}
	cmd := exec.Command(os.Args[0], "-test.run=^TestHostileChild$", "-test.count=1", "-test.timeout=300s")
	cmd.Env = append(os.Environ(), "C36_CHILD="+p)
	out, err := cmd.CombinedOutput()
	begun, ended := -1, -1
	var failMsg string
	sc := bufio.NewScanner(bytes.NewReader(out))
	sc.Buffer(make([]byte, 1<<20), 1<<20)
	for sc.Scan() {
		var i int
		line := sc.Text()
		if _, e := fmt.Sscanf(line, "C36CHILD BEGIN %d", &i); e == nil {
			begun = i
		}
		if _, e := fmt.Sscanf(line, "C36CHILD END %d", &i); e == nil {
			ended = i
		}
		if strings.HasPrefix(line, "C36CHILD FAIL ") && failMsg == "" {
			failMsg = line
		}
	}
	// what the child said about its death: the runtime's first fatal lines, not the goroutine dump
	var tailLines []string
	for _, l := range strings.Split(string(out), "\n") {
		if strings.Contains(l, "fatal error") || strings.Contains(l, "out of memory") || strings.HasPrefix(l, "panic:") || strings.HasPrefix(l, "C36CHILD FAIL") || strings.HasPrefix(l, "signal:") {
			tailLines = append(tailLines, l)
		}
	}
	if len(tailLines) > 8 {
		tailLines = tailLines[:8]
	}
	tail := strings.Join(tailLines, "\n") + fmt.Sprintf("\n(child exit: %v)", err)
	switch {
	case failMsg != "":
		ev.Replay("c36-child-fail.json", calls[min(max(begun, 0), len(calls)-1)])
		t.Fatalf("VERIF-VIOLATION %s", failMsg)
	case strings.Contains(string(out), "panic: test timed out"):
		t.Fatalf("VERIF-INFRA: child process timed out\n%s", tail)
	case begun > ended && begun < len(calls):
		c := calls[begun]
		ev.Replay("c36-child-died.json", c)
		t.Fatalf("VERIF-VIOLATION process died while decoding: %s.DecodeIndex(input %s, maxLength %d) (declared element count far above the %d input bytes; allocation not bounded by the input)\nchild output tail:\n%s", c.Entry, c.Hex, c.MaxLength, len(c.Hex)/2, tail)
	case err != nil || ended != len(calls)-1:
		t.Fatalf("VERIF-INFRA: child process failed: %v (begun %d ended %d of %d)\n%s", err, begun, ended, len(calls), tail)
	}
	ev.ClassN("child_process_calls", int64(len(calls)))
}

type childT struct{ msg string }

func (c *childT) Fatalf(format string, args ...any) {
	c.msg = fmt.Sprintf(format, args...)
	panic(c)
}
func (c *childT) Helper() {}

func TestHostileChild(t *testing.T) {
	p := os.Getenv("C36_CHILD")
	if p == "" {
		return
	}
	b, err := os.ReadFile(p)
	if err != nil {
		t.Fatalf("VERIF-INFRA: %v", err)
	}
	var calls []indexCall
	if err := json.Unmarshal(b, &calls); err != nil {
		t.Fatalf("VERIF-INFRA: %v", err)
	}
	hdr := new(sr.ConfluentHeader)
	s := sr.NewSerde()
	for i, c := range calls {
		x, _ := hex.DecodeString(c.Hex)
		fmt.Printf("C36CHILD BEGIN %d\n", i)
		os.Stdout.Sync()
		f := hdr.DecodeIndex
		if c.Entry == "serde" {
			f = s.DecodeIndex
		}
		ct := new(childT)
		func() {
			defer func() {
				if r := recover(); r != nil {
					if r != any(ct) {
						ct.msg = fmt.Sprintf("panic: %v", r)
					}
				}
			}()
			checkIndex(ct, c.Entry, f, x, c.MaxLength)
		}()
		if ct.msg != "" {
			fmt.Printf("C36CHILD FAIL %d %s\n", i, strings.ReplaceAll(ct.msg, "\n", " "))
		}
		fmt.Printf("C36CHILD END %d\n", i)
		ev.Case(fmt.Sprintf("child:%s:%s:%d", c.Entry, c.Hex, c.MaxLength), true)
		ev.Class("child_fatal_zone_call")
	}
}

// ---------------------------------------------------------------------------
// native fuzz target (thorough tier)

var fuzzModel = model{regs: []reg{
	{ID: 1, Slot: 0},
	{ID: 7, Path: []int{0}, Slot: 1, Gen: true},
	{ID: 7, Path: []int{1}, Slot: 2},
	{ID: 7, Path: []int{1, 2}, Slot: 3, Enc: encAppend},
	{ID: 7, Path: []int{3, -1, 300}, Slot: 4},
	{ID: 1<<32 - 1, Path: []int{2}, Slot: 5, Enc: encBoth},
	{ID: 1 << 31, Path: []int{0, 0, 0, 0, 0, math.MinInt64}, Slot: 6},
}}

func FuzzDecode(f *testing.F) {
	for _, r := range fuzzModel.regs {
		for _, pl := range [][]byte{nil, {0}, {1, 2, 3}, []byte("payload")} {
			for _, ml := range []int64{0, -1, 1, 6, math.MaxInt64} {
				f.Add(append(refHeader(nil, r.ID, r.Path), pl...), ml)
			}
		}
	}
	for _, c := range hostileCounts {
		f.Add(refAppendZigZag([]byte{0, 0, 0, 0, 7}, c), int64(0))
	}
	hdr := new(sr.ConfluentHeader)
	s, tr := build(fuzzModel, false, false)
	measureAll = false
	f.Fuzz(func(t *testing.T, in []byte, ml int64) {
		hok, _ := checkHostile(t, fuzzModel, s, tr, hdr, in, int(ml), nil)
		ev.Case(fmt.Sprintf("f:%x:%d", in, ml), hok)
	})
}
