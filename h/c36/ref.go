// Package c36 checks property C36 (schema registry serde header round trip; bad input is safe).
//
// ref.go is the executable statement of the Confluent wire header used as the oracle:
//
//	byte 0      magic 0
//	bytes 1..4  schema id, big-endian uint32
//	then, only for registrations that carry a message index path:
//	  a single 0 byte when the path is exactly [0], otherwise
//	  zig-zag varint(len(path)) followed by zig-zag varint(path[i]) for every element
//	then the payload.
//
// It does not share code with pkg/sr; the varint writer is a hand loop, the varint reader
// is encoding/binary.Varint (trusted).
package c36

import "encoding/binary"

func refAppendZigZag(b []byte, x int64) []byte {
	u := uint64(x<<1) ^ uint64(x>>63)
	for u >= 0x80 {
		b = append(b, byte(u)|0x80)
		u >>= 7
	}
	return append(b, byte(u))
}

// refHeader is the expected header for (id, path). A nil/empty path means "no index".
func refHeader(b []byte, id uint32, path []int) []byte {
	b = append(b, 0, byte(id>>24), byte(id>>16), byte(id>>8), byte(id))
	switch {
	case len(path) == 0:
	case len(path) == 1 && path[0] == 0:
		b = append(b, 0)
	default:
		b = refAppendZigZag(b, int64(len(path)))
		for _, p := range path {
			b = refAppendZigZag(b, int64(p))
		}
	}
	return b
}

// refDecodeID: ok=false means "malformed header" (shorter than five bytes or magic != 0).
func refDecodeID(b []byte) (id uint32, rest []byte, ok bool) {
	if len(b) < 5 || b[0] != 0 {
		return 0, nil, false
	}
	return uint32(b[1])<<24 | uint32(b[2])<<16 | uint32(b[3])<<8 | uint32(b[4]), b[5:], true
}

// refCount returns the declared index count of b (the first varint) if it parses.
func refCount(b []byte) (int64, bool) {
	l, n := binary.Varint(b)
	return l, n > 0
}

// refDecodeIndex states DecodeIndex: count 0 is the shortcut for [0]; a negative count,
// a count above a positive maxLength, or any truncated / overflowing varint is an error.
func refDecodeIndex(b []byte, maxLength int) (path []int, rest []byte, ok bool) {
	l, n := binary.Varint(b)
	if n <= 0 {
		return nil, nil, false
	}
	b = b[n:]
	if l == 0 {
		return []int{0}, b, true
	}
	if l < 0 {
		return nil, nil, false
	}
	if maxLength > 0 && l > int64(maxLength) {
		return nil, nil, false
	}
	if l > int64(len(b)) { // every element needs at least one byte
		return nil, nil, false
	}
	path = make([]int, 0, l)
	for i := int64(0); i < l; i++ {
		v, n := binary.Varint(b)
		if n <= 0 {
			return nil, nil, false
		}
		b = b[n:]
		path = append(path, int(v))
	}
	return path, b, true
}
