// Package sched is a schedule-owning cooperative scheduler for small concurrent
// primitives whose synchronisation types have been swapped for the ones in this
// package (see ./extract).
//
// N logical threads run as goroutines under a baton: exactly one of them runs at any
// time. Every synchronisation operation (Mutex Lock/Unlock/TryLock, Cond
// Wait/Signal/Broadcast, Uint32/Int32/Bool Load/Store/CompareAndSwap/Add/Swap, Chan
// Send/Recv/TrySend/TryRecv, Once.Do on a not yet completed Once, Yield) is a yield
// point: the thread announces the operation it is about to perform and hands the baton
// back to the scheduler, which runs on the caller's goroutine (the rapid property
// goroutine, so generated choices can be drawn there). The scheduler computes which
// threads are enabled (their announced operation can complete now), asks the
// generated choice which one runs, and hands the baton to it; the thread performs the
// operation's effect and runs on to its next yield point.
//
// Blocked threads are known (their announced operation is not enabled), so "no thread
// enabled, some unfinished" is a detected deadlock, not a timeout. An execution is a
// pure function of the program and of the choice sequence.
//
// One execution at a time per process (the sync objects find the scheduler through a
// package variable); parallelism comes from seed-sharded processes.
package sched

import (
	"fmt"
	"runtime/debug"
	"strings"
)

// OpKind names a synchronisation operation.
type OpKind uint8

const (
	OpStart OpKind = iota
	OpYield
	OpLock
	OpUnlock
	OpTryLock
	OpCondWait      // release the mutex and join the wait list
	OpCondReacquire // woken by Signal/Broadcast: take the mutex again
	OpSignal
	OpBroadcast
	OpLoad
	OpStore
	OpCAS
	OpAdd
	OpSwap
	OpSend
	OpRecv
	OpTrySend
	OpTryRecv
	OpOnce
)

var opNames = [...]string{"start", "yield", "Lock", "Unlock", "TryLock", "Wait", "Wait-reacquire", "Signal", "Broadcast", "Load", "Store", "CAS", "Add", "Swap", "send", "recv", "trysend", "tryrecv", "Once.Do"}

func (k OpKind) String() string { return opNames[k] }

// Op is an announced (pending) or executed operation.
type Op struct {
	Kind OpKind
	Obj  any // *Mutex, *Cond, *Chan, *Once, *Uint32 ... (nil for start/yield)
}

// Thread is one logical thread.
type Thread struct {
	ID   int
	Name string
	User any // free for the harness

	// Blocked counts scheduling decisions at which this thread was not enabled.
	Blocked int

	wake      chan struct{}
	pend      Op
	done      bool
	signalled bool
	aux       int
	enabled   bool
}

// Pending returns the operation the thread has announced.
func (t *Thread) Pending() Op { return t.pend }

// Enabled reports whether the thread was enabled at the last scheduling decision.
func (t *Thread) Enabled() bool { return t.enabled }

// Done reports whether the thread's function has returned.
func (t *Thread) Done() bool { return t.done }

// Result kinds.
const (
	OK = iota
	Violation
	Infra
)

// Result describes one execution.
type Result struct {
	Kind        int
	Msg         string
	Deadlock    bool
	Steps       int
	Switches    int     // steps that ran another thread than the previous step although that one was enabled, or not
	Preemptions int     // switches away from a thread that was still enabled
	Choices     []int32 // values drawn
	ChoiceN     []int32 // number of alternatives of each draw
	ChoiceStep  []int32 // step index at which each draw was made
	trace       []stepRec
	names       []string
}

type stepRec struct {
	tid  int16
	kind OpKind
}

// TraceString renders the executed schedule as "name:op name:op ...".
func (r *Result) TraceString() string {
	var b strings.Builder
	for i, s := range r.trace {
		if i > 0 {
			b.WriteByte(' ')
		}
		b.WriteString(r.names[s.tid])
		b.WriteByte(':')
		b.WriteString(s.kind.String())
	}
	return b.String()
}

// ChoiceString renders the choice sequence compactly ("c/n c/n ...").
func (r *Result) ChoiceString() string {
	var b strings.Builder
	for i := range r.Choices {
		if i > 0 {
			b.WriteByte(' ')
		}
		fmt.Fprintf(&b, "%d/%d", r.Choices[i], r.ChoiceN[i])
	}
	return b.String()
}

type abortT struct{}

var abortSentinel = &abortT{}

// S is one execution.
type S struct {
	// OnSchedule, if set, runs on the scheduler goroutine before every scheduling
	// decision, after enabledness has been computed (Thread.Enabled is current).
	OnSchedule func(s *S)
	// OnOp, if set, runs on the thread's goroutine when an operation takes effect.
	OnOp func(t *Thread, op Op)

	threads  []*Thread
	running  *Thread
	last     *Thread
	back     chan struct{}
	choose   func(n int) int
	steps    int
	maxSteps int
	maxPre   int
	aborting bool
	inSched  bool // a hook is running on the scheduler goroutine
	res      *Result
	enabledB []*Thread
}

var cur *S

// Cur returns the execution in progress (nil outside Run).
func Cur() *S { return cur }

// Steps returns the number of scheduling steps executed so far. Read by a running
// thread it is the index of the step that thread is executing, i.e. the step in which
// its most recent operation took effect.
func (s *S) Steps() int { return s.steps }

// Threads returns all threads created so far.
func (s *S) Threads() []*Thread { return s.threads }

// Running returns the thread holding the baton (nil during setup).
func (s *S) Running() *Thread { return s.running }

// Go creates a logical thread. It may be called during setup or from a running
// thread (the code under test's `go f()`); creating a thread is not a yield point.
func (s *S) Go(name string, f func()) *Thread {
	t := &Thread{ID: len(s.threads), Name: name, wake: make(chan struct{})}
	t.pend = Op{Kind: OpStart}
	s.threads = append(s.threads, t)
	s.res.names = append(s.res.names, name)
	go func() {
		<-t.wake
		defer func() {
			if r := recover(); r != nil && r != any(abortSentinel) {
				s.setFail(Violation, fmt.Sprintf("panic in thread %s: %v\n%s", t.Name, r, debug.Stack()))
			}
			t.done = true
			s.back <- struct{}{}
		}()
		if s.aborting {
			return
		}
		f()
	}()
	return t
}

func (s *S) setFail(kind int, msg string) {
	if s.res.Kind == OK {
		s.res.Kind = kind
		s.res.Msg = msg
	}
}

// Failf records an oracle violation and stops the calling thread (or, when called
// from setup or a hook on the scheduler goroutine, just records it).
func (s *S) Failf(format string, a ...any) {
	s.setFail(Violation, fmt.Sprintf(format, a...))
	if s.running != nil && !s.inSched {
		panic(abortSentinel)
	}
}

// Failed reports whether a failure has been recorded.
func (s *S) Failed() bool { return s.res.Kind != OK }

// yield announces op and waits for the baton; on return the op is enabled and the
// caller applies its effect.
func (s *S) yield(op Op) *Thread {
	t := s.running
	if t == nil {
		// setup mode: effects apply immediately, blocking is a harness bug
		if !s.opEnabled(nil, op) {
			panic("VERIF-INFRA: blocking operation " + op.Kind.String() + " during setup")
		}
		return nil
	}
	if s.aborting {
		panic(abortSentinel)
	}
	t.pend = op
	s.back <- struct{}{}
	<-t.wake
	if s.aborting {
		panic(abortSentinel)
	}
	return t
}

func (s *S) did(t *Thread, op Op) {
	if s.OnOp != nil && t != nil {
		s.OnOp(t, op)
	}
}

func (s *S) opEnabled(t *Thread, op Op) bool {
	switch op.Kind {
	case OpLock:
		return !op.Obj.(*Mutex).held
	case OpCondReacquire:
		return t.signalled && !op.Obj.(*Cond).L.held
	case OpSend:
		c := op.Obj.(*Chan)
		return c.n < c.cap
	case OpRecv:
		return op.Obj.(*Chan).n > 0
	case OpOnce:
		return op.Obj.(*Once).state != 1
	}
	return true
}

// Config bounds one execution.
type Config struct {
	MaxSteps int // 0 = 20000
	// MaxPreemptions bounds the number of preemptions (switching away from a thread
	// that could have continued) in one execution: once the budget is spent the running
	// thread keeps the baton for as long as it is enabled. Unbounded (-1) = no bound.
	MaxPreemptions int
}

// Unbounded is the MaxPreemptions value for "every schedule".
const Unbounded = -1

// Run executes one schedule. setup runs first on the caller's goroutine (create
// objects, s.Go the initial threads; sync operations performed there take effect
// immediately). choose(n) must return a value in [0,n); it is only called with n>=2
// and always on the caller's goroutine. Alternative 0 is "keep running the thread that
// ran last" whenever that thread is still enabled; the others follow in creation order.
func Run(cfg Config, choose func(n int) int, setup func(s *S)) *Result {
	if cur != nil {
		panic("VERIF-INFRA: sched.Run is not reentrant")
	}
	s := &S{back: make(chan struct{}), choose: choose, maxSteps: cfg.MaxSteps, maxPre: cfg.MaxPreemptions, res: &Result{}}
	if s.maxSteps == 0 {
		s.maxSteps = 20000
	}
	cur = s
	defer func() { cur = nil }()
	func() {
		defer func() {
			if r := recover(); r != nil {
				s.setFail(Infra, fmt.Sprintf("VERIF-INFRA: setup panicked: %v\n%s", r, debug.Stack()))
			}
		}()
		setup(s)
	}()
	s.loop()
	s.res.Steps = s.steps
	return s.res
}

func (s *S) draw(n int) int {
	c := s.choose(n)
	if c < 0 || c >= n {
		panic(fmt.Sprintf("VERIF-INFRA: choice %d out of range %d", c, n))
	}
	s.res.Choices = append(s.res.Choices, int32(c))
	s.res.ChoiceN = append(s.res.ChoiceN, int32(n))
	s.res.ChoiceStep = append(s.res.ChoiceStep, int32(s.steps))
	return c
}

func (s *S) loop() {
	for {
		if s.res.Kind != OK {
			s.abort()
			return
		}
		live := 0
		en := s.enabledB[:0]
		var lastEnabled bool
		for _, t := range s.threads {
			if t.done {
				t.enabled = false
				continue
			}
			live++
			t.enabled = s.opEnabled(t, t.pend)
			if t.enabled {
				if t == s.last {
					lastEnabled = true
				} else {
					en = append(en, t)
				}
			} else {
				t.Blocked++
			}
		}
		if lastEnabled { // alternative 0 = continue the thread that ran last
			en = append(en, nil)
			copy(en[1:], en)
			en[0] = s.last
		}
		s.enabledB = en
		if live == 0 {
			return
		}
		if s.OnSchedule != nil {
			s.inSched = true
			s.OnSchedule(s)
			s.inSched = false
			if s.res.Kind != OK {
				s.abort()
				return
			}
		}
		if len(en) == 0 {
			var b strings.Builder
			b.WriteString("deadlock: every unfinished thread is blocked:")
			for _, t := range s.threads {
				if !t.done {
					fmt.Fprintf(&b, " [%s waits in %s]", t.Name, t.pend.Kind)
				}
			}
			s.res.Deadlock = true
			s.setFail(Violation, b.String())
			s.abort()
			return
		}
		if s.steps >= s.maxSteps {
			s.setFail(Infra, fmt.Sprintf("VERIF-INFRA: step bound %d exceeded (livelock or bound too small)", s.maxSteps))
			s.abort()
			return
		}
		if lastEnabled && s.maxPre >= 0 && s.res.Preemptions >= s.maxPre {
			en = en[:1] // preemption budget spent: the running thread continues
		}
		idx := 0
		if len(en) > 1 {
			idx = s.draw(len(en))
		}
		t := en[idx]
		if t.pend.Kind == OpSignal {
			t.aux = 0
			if w := len(t.pend.Obj.(*Cond).waiters); w > 1 {
				t.aux = s.draw(w)
			}
		}
		if s.last != nil && t != s.last {
			s.res.Switches++
			if lastEnabled {
				s.res.Preemptions++
			}
		}
		s.res.trace = append(s.res.trace, stepRec{int16(t.ID), t.pend.Kind})
		s.steps++
		s.running, s.last = t, t
		t.wake <- struct{}{}
		<-s.back
		s.running = nil
	}
}

// abort unwinds every unfinished thread (each panics with the abort sentinel at its
// yield point; deferred sync operations of the code under test re-panic harmlessly).
func (s *S) abort() {
	s.aborting = true
	for i := 0; i < len(s.threads); i++ { // threads may not grow during abort, but be safe
		t := s.threads[i]
		if t.done {
			continue
		}
		s.running = t
		t.wake <- struct{}{}
		<-s.back
	}
	s.running = nil
}

// Fail records a violation found by a post-run oracle (no-op if already failed).
func (r *Result) Fail(format string, a ...any) {
	if r.Kind == OK {
		r.Kind = Violation
		r.Msg = fmt.Sprintf(format, a...)
	}
}
